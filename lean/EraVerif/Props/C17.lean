import EraVerif.Proofs.Scope

/-!
# C17 — Task scopes join every task, report a first failure and cancel the rest

Statement (properties.jsonl): *A task scope returns only after every task spawned in it, directly or transitively,
has finished; it returns the root task's result if all tasks succeeded, otherwise an error returned by one of its
tasks such that no other task failed strictly before it, and a panic in any task is re-raised to the caller once all
tasks have finished. The scope's context is cancelled as soon as any task fails, when all main tasks have completed,
or when the caller's context is cancelled or its deadline passes, and cancellation reaches every descendant context.*

All theorems are about `EraVerif.Model.Scope` (`Model/Scope.lean`): the labelled transition system of the guard
protocol of `scope/{mod,state,task}.rs` and `ctx/mod.rs`, whose events are the markers the instrumented code writes
into one totally ordered log. "Every task tree under every thread schedule" = every event list accepted by `step?`
(`Reach σ`: `σ` is reached from `init` by an accepted list — no bound on the number of tasks, scopes, nesting depth or
events). The correspondence run replays the logs of real executions through the same `step?`.

Strength: full for the guard protocol. **Partial w.r.t. the runtime**: the propagation of a cancellation to child
contexts is a spawned tokio task (`child_with_clock`); the model treats it as an always-eventually-enabled internal
step, i.e. `eff` is the closure over the ancestor chain, so `cancel_reaches_descendants` says that a descendant *is
allowed to and will be seen* cancelled, the delivery itself is checked on the implementation by the harness monitor
(every waiter observes the cancellation). `unsafe` lifetime transmutes and `must_complete` aborts are outside the model.
-/

namespace EraVerif.Props.C17
open EraVerif.Model.Scope

/-! ## 1. A scope returns only after every task spawned in it, directly or transitively, has finished -/

/-- task `t` belongs to scope `s`: it was spawned in `s`, or in a scope whose `run!` was called by a task that
belongs to `s` -/
inductive Under (σ : State) (s : Nat) : Nat → Prop where
  | direct (t : Nat) : (σ.task t).scope = s → Under σ s t
  | nested (t o : Nat) : (σ.scope (σ.task t).scope).owner = some o → Under σ s o → Under σ s t

/-- **`terminated_iff_no_task`** — `TerminateGuard::drop` (the `terminated` signal `run` waits for) is enabled
exactly when the `CancelGuard` has been dropped (which needs the run guard dropped) and every task of the scope has
announced the release of its guard. -/
theorem terminated_iff_no_task {σ : State} (hr : Reach σ) {s : Nat} (hl : (σ.scope s).phase = .live) :
    enabled σ (.tgd s) = true ↔
      (σ.scope s).tgd = false ∧ (σ.scope s).cgd = true ∧ (σ.scope s).rgHeld = false ∧
        ∀ t, (σ.task t).phase ≠ .absent → (σ.task t).scope = s → (σ.task t).phase = .released := by
  have hA := hr.inv.a
  have hne : (σ.scope s).phase ≠ .absent := by simp [hl]
  simp only [enabled, hl, Bool.and_eq_true, beq_self_eq_true, true_and, Bool.not_eq_true', beq_iff_eq]
  constructor
  · intro ⟨hnt, h0⟩
    have ⟨hc, hterm⟩ := (hA.termLow_zero_iff hne).mp h0
    have hm0 := hA.closed s (hA.cgd_closed s hc)
    have ⟨hrg, hmain⟩ := (hA.mainLow_zero_iff hne).mp hm0
    refine ⟨hnt, hc, hrg, ?_⟩
    intro t hp hsc
    have hmem := (hA.mem_iff t).mpr hp
    exact released_of_not_holding hsc hp (hmain t hmem) (hterm t hmem)
  · intro ⟨hnt, hc, _, hall⟩
    refine ⟨hnt, (hA.termLow_zero_iff hne).mpr ⟨hc, ?_⟩⟩
    intro t ht
    have hp := (hA.mem_iff t).mp ht
    by_cases hsc : (σ.task t).scope = s
    · have := hall t hp hsc
      simp [holdsTerm, this]
    · simp [holdsTerm, hsc]


/-- every present task under `s` (directly or through nested scopes) has released its guard -/
def Joined (σ : State) (s : Nat) : Prop :=
  ∀ t, Under σ s t → (σ.task t).phase ≠ .absent → (σ.task t).phase = .released

theorem joined_of_tgd {σ : State} (hr : Reach σ) {s : Nat} (hs : (σ.scope s).phase ≠ .absent)
    (htg : (σ.scope s).tgd = true) : Joined σ s := by
  have hI := hr.inv
  intro t hu
  induction hu with
  | direct t hsc => intro hp; exact (hI.a.all_released_of_tgd hs htg).2.2 t hp hsc
  | nested t o ho _ ih =>
    intro hp
    have hs' := hI.a.task_scope t hp
    have hop := hI.d.owner_present _ o hs' ho
    have hrel := ih hop
    -- the owner has released, so the nested scope is not live any more
    have hnl : (σ.scope (σ.task t).scope).phase ≠ .live := by
      intro hl
      have := (hI.d.owner_inner _ o hl ho).1
      simp [hrel] at this
    have hret : (σ.scope (σ.task t).scope).phase = .returned := by
      cases hph : (σ.scope (σ.task t).scope).phase with
      | absent => exact absurd hph hs'
      | live => exact absurd hph hnl
      | returned => rfl
    exact (hI.a.all_released_of_tgd hs' (hI.a.ret_tgd _ hret)).2.2 t hp rfl

/-- **`run_returns_after_all_tasks`** — at the moment `scope::run!` returns (`ret s r` is enabled only after the
`terminated` signal) every task spawned in the scope, directly or transitively (tasks spawned by tasks, tasks of
nested scopes opened by its tasks, to any depth), has finished its body and released its guard. -/
theorem run_returns_after_all_tasks {σ : State} (hr : Reach σ) {s : Nat} {r : Res}
    (hg : enabled σ (.ret s r) = true) : Joined σ s := by
  simp [enabled] at hg
  exact joined_of_tgd hr (by simp [hg.1.1]) hg.1.2

/-- … and this stays true in every later state -/
theorem returned_scope_is_joined {σ : State} (hr : Reach σ) {s : Nat} (hret : (σ.scope s).phase = .returned) :
    Joined σ s :=
  joined_of_tgd hr (by simp [hret]) (hr.inv.a.ret_tgd s hret)

/-- the task that performs an event -/
def actor : Event → Option Nat
  | .make _ _ _ o _ => o
  | .spawn p _ _ => some p
  | .start c _ => some c
  | .endT t _ _ => some t
  | .seterr _ t _ _ _ => some t
  | .rel t => some t
  | .cancel _ t _ => some t
  | .obs t _ => some t
  | _ => none

/-- a task that has released its guard does nothing any more … -/
theorem released_task_is_silent {σ : State} {t : Nat} (hrel : (σ.task t).phase = .released) {e : Event}
    (ha : actor e = some t) : enabled σ e = false := by
  cases e <;> simp [actor] at ha <;> subst ha <;> simp [enabled, hrel]

/-- … and stays released -/
theorem released_stays {σ : State} {t : Nat} (hrel : (σ.task t).phase = .released) {e : Event}
    (hg : enabled σ e = true) : ((apply σ e).task t).phase = .released := by
  cases e with
  | ctxnew c p d => exact hrel
  | obs _ _ => exact hrel
  | advance d => exact hrel
  | tgd s => exact hrel
  | rgd s => exact hrel
  | cgd s c => exact hrel
  | cancel s t c => exact hrel
  | ret s r => simp only [apply]; split <;> exact hrel
  | make s c p o r =>
    simp [enabled] at hg
    have hne : t ≠ r := by intro hh; subst hh; simp [hrel] at hg
    have e1 : (apply σ (.make s c p o r)).task = fun i => if i = r then ({ scope := s, parent := none, reqMain := true, phase := .pending } : Task) else σ.task i := by
      simp only [apply]; cases o <;> rfl
    rw [e1]; simp [hne, hrel]
  | spawn p c r =>
    simp [enabled] at hg
    have hne : t ≠ c := by intro hh; subst hh; simp [hrel] at hg
    simp [apply, hne, hrel]
  | start c m =>
    simp [enabled] at hg
    have hne : t ≠ c := by intro hh; subst hh; simp [hrel] at hg
    simp [apply, hne, hrel]
  | endT t' o v =>
    simp [enabled] at hg
    have hne : t ≠ t' := by intro hh; subst hh; simp [hrel] at hg
    simp [apply, hne, hrel]
  | rel t' =>
    by_cases hne : t = t'
    · subst hne; simp [apply]
    · simp [apply, hne, hrel]
  | seterr s t' ip st cc =>
    simp [enabled] at hg
    have hne : t ≠ t' := by intro hh; subst hh; simp [hrel] at hg
    simp only [apply]; split <;> simp [hne, hrel]

/-- **no event of a joined task after the return**: whatever the rest of the log is, it contains no event performed
by a task that had released its guard -/
theorem no_later_event_of_released {σ σ' : State} {t : Nat} (hrel : (σ.task t).phase = .released) {es : List Event}
    (hrun : run σ es = some σ') : ∀ e ∈ es, actor e ≠ some t := by
  induction es generalizing σ with
  | nil => intro e he; simp at he
  | cons e es ih =>
    rw [run_cons] at hrun
    split at hrun
    · rename_i hg
      intro e' he'
      simp only [List.mem_cons] at he'
      rcases he' with rfl | he'
      · intro ha; have := released_task_is_silent hrel ha; simp [hg] at this
      · exact ih (released_stays hrel hg) hrun e' he'
    · simp at hrun

/-- nothing is spawned into a scope that has returned -/
theorem no_spawn_into_returned_scope {σ : State} (hr : Reach σ) {s : Nat} (hret : (σ.scope s).phase = .returned)
    {p c : Nat} {m : Bool} (hg : enabled σ (.spawn p c m) = true) : (σ.task p).scope ≠ s := by
  intro hsc
  simp [enabled] at hg
  have := returned_scope_is_joined hr hret p (.direct p hsc) (by simp [hg.1.1])
  simp [hg.1.1] at this


theorem ended_step {σ : State} {t : Nat} {e : Event} (hg : enabled σ e = true)
    (h : ((apply σ e).task t).phase = .ended ∨ ((apply σ e).task t).phase = .released) :
    ((σ.task t).phase = .ended ∨ (σ.task t).phase = .released) ∨ ∃ o v, e = .endT t o v := by
  cases e with
  | ctxnew c p d => exact Or.inl h
  | obs _ _ => exact Or.inl h
  | advance d => exact Or.inl h
  | tgd s => exact Or.inl h
  | rgd s => exact Or.inl h
  | cgd s c => exact Or.inl h
  | cancel s t c => exact Or.inl h
  | ret s r =>
    have e1 : (apply σ (.ret s r)).task = σ.task := by simp only [apply]; split <;> rfl
    rw [e1] at h; exact Or.inl h
  | make s c p o r =>
    have e1 : (apply σ (.make s c p o r)).task = fun i => if i = r then ({ scope := s, parent := none, reqMain := true, phase := .pending } : Task) else σ.task i := by
      simp only [apply]; cases o <;> rfl
    rw [e1] at h; simp only at h
    split at h
    · simp at h
    · exact Or.inl h
  | spawn p c r =>
    simp only [apply, addTask_task, setScope_task] at h
    split at h
    · simp at h
    · exact Or.inl h
  | start c m =>
    simp only [apply, setTask_task, setScope_task] at h
    split at h
    · simp at h
    · exact Or.inl h
  | endT t' o v =>
    by_cases hne : t = t'
    · subst hne; exact Or.inr ⟨o, v, rfl⟩
    · simp only [apply, setTask_task, hne, if_false] at h; exact Or.inl h
  | rel t' =>
    simp [enabled] at hg
    by_cases hne : t = t'
    · subst hne; exact Or.inl (Or.inl hg.1.1)
    · simp only [apply, setTask_task, setScope_task, hne, if_false] at h; exact Or.inl h
  | seterr s t' ip st cc =>
    have e1 : (apply σ (.seterr s t' ip st cc)).task = fun i => if i = t' then { σ.task t' with reported := true } else σ.task i := by
      simp only [apply]; split <;> rfl
    rw [e1] at h; simp only at h
    split at h
    · subst_vars; exact Or.inl h
    · exact Or.inl h

/-- a task whose body is over got there through an `end` event of the log -/
theorem ended_needs_end_event {σ σ' : State} {es : List Event} (hrun : run σ es = some σ') (t : Nat)
    (h : (σ'.task t).phase = .ended ∨ (σ'.task t).phase = .released) :
    ((σ.task t).phase = .ended ∨ (σ.task t).phase = .released) ∨ ∃ o v, Event.endT t o v ∈ es := by
  induction es generalizing σ with
  | nil => simp [run] at hrun; subst hrun; exact Or.inl h
  | cons e es ih =>
    rw [run_cons] at hrun
    split at hrun
    · rename_i hg
      rcases ih hrun with h1 | ⟨o, v, hm⟩
      · rcases ended_step hg h1 with h2 | ⟨o, v, rfl⟩
        · exact Or.inl h2
        · exact Or.inr ⟨o, v, by simp⟩
      · exact Or.inr ⟨o, v, by simp [hm]⟩
    · simp at hrun

/-- **the same on the log itself**: if the accepted log `es₁` can be continued by `ret s r` (`run!` of scope `s`
returns `r`), then for every task that was spawned in `s`, directly or transitively, the event `end t` (its body
finished) occurs in `es₁`, i.e. *before* the return — and by `no_later_event_of_released` no event of `t` occurs after. -/
theorem scope_returns_after_task_ends {es₁ : List Event} {σ₁ : State} (h1 : run init es₁ = some σ₁)
    {s : Nat} {r : Res} (hg : enabled σ₁ (.ret s r) = true) (t : Nat) (hu : Under σ₁ s t)
    (hp : (σ₁.task t).phase ≠ .absent) : ∃ o v, Event.endT t o v ∈ es₁ := by
  have hrel := run_returns_after_all_tasks ⟨es₁, h1⟩ hg t hu hp
  rcases ended_needs_end_event h1 t (Or.inr hrel) with h0 | h0
  · simp [init] at h0
  · exact h0


/-! ## 2. The result: the root's result iff all tasks succeeded, else the first error; a panic is re-raised -/

/-- at the return every failed task of the scope is in the `set_err` log, with its kind -/
theorem failed_task_in_log {σ : State} (hr : Reach σ) {s : Nat} (hs : (σ.scope s).phase ≠ .absent)
    (htg : (σ.scope s).tgd = true) (t : Nat) (hp : (σ.task t).phase ≠ .absent) (hsc : (σ.task t).scope = s)
    (hout : (σ.task t).out ≠ .ok) : (t, outIsPanic (σ.task t).out) ∈ (σ.scope s).errLog := by
  have hI := hr.inv
  have hrel := (hI.a.all_released_of_tgd hs htg).2.2 t hp hsc
  have hrep := hI.b.released_reported t hrel hout
  obtain ⟨p, hm⟩ := (hI.b.reported_in t hrep).2
  rw [hsc] at hm
  have := (hI.b.log_sound s t p hm).2.2.2.2
  rw [this]; exact hm

/-- **`result_root_if_all_ok`** — `run!` returns `Ok(v)` exactly when every task of the scope returned `Ok`, and then
`v` is the value the root task returned. -/
theorem result_root_iff_all_ok {σ : State} (hr : Reach σ) {s : Nat} {r : Res} (hg : enabled σ (.ret s r) = true) (v : Nat) :
    r = .ok v ↔ (v = (σ.task (σ.scope s).root).val ∧
      ∀ t, (σ.task t).phase ≠ .absent → (σ.task t).scope = s → (σ.task t).out = .ok) := by
  have hI := hr.inv
  simp [enabled] at hg
  obtain ⟨⟨hl, htg⟩, hres⟩ := hg
  have hs : (σ.scope s).phase ≠ .absent := by simp [hl]
  have hslot := hI.b.slot_eq s
  have hroot := hI.d.root_scope s hs
  constructor
  · intro hrv
    rw [hrv] at hres
    have hempty : (σ.scope s).slot = .empty := by
      cases hsl : (σ.scope s).slot <;> simp [resOf, hsl] at hres
      rfl
    have hlog : (σ.scope s).errLog = [] := (slotOf_eq_empty _ _).mp (hslot ▸ hempty)
    simp [resOf, hempty] at hres
    split at hres
    · simp at hres
      refine ⟨hres, ?_⟩
      intro t hp hsc
      cases hout : (σ.task t).out with
      | ok => rfl
      | err => have := failed_task_in_log hr hs htg t hp hsc (by simp [hout]); simp [hlog] at this
      | panic => have := failed_task_in_log hr hs htg t hp hsc (by simp [hout]); simp [hlog] at this
    · simp at hres
  · intro ⟨hv, hall⟩
    have hlog : (σ.scope s).errLog = [] := by
      cases hl' : (σ.scope s).errLog with
      | nil => rfl
      | cons a l =>
        have := hI.b.log_sound s a.1 a.2 (by rw [hl']; simp)
        have hp : (σ.task a.1).phase ≠ .absent := by rcases this.2.2.1 with h | h <;> simp [h]
        exact absurd (hall a.1 hp this.1) this.2.2.2.1
    have hempty : (σ.scope s).slot = .empty := by rw [hslot]; exact (slotOf_eq_empty _ _).mpr hlog
    rw [hres, hv]
    simp [resOf, hempty, hall _ hroot.2 hroot.1]

/-- **`error_is_first`** — if `run!` returns `Err(v)`, then no task of the scope panicked, and `v` is the error
returned by the task whose `set_err` call is the *first* one in the order of the `err` mutex (`errLog` is that order,
see `errLog_is_trace_order`): no other task of the scope completed a failure before it. -/
theorem error_is_first {σ : State} (hr : Reach σ) {s : Nat} {r : Res} (hg : enabled σ (.ret s r) = true) (v : Nat)
    (hrv : r = .err v) :
    ∃ t rest, (σ.scope s).errLog = (t, false) :: rest ∧ (∀ e ∈ (σ.scope s).errLog, e.2 = false) ∧
      (σ.task t).scope = s ∧ (σ.task t).out = .err ∧ (σ.task t).val = v := by
  have hI := hr.inv
  simp [enabled] at hg
  obtain ⟨⟨hl, htg⟩, hres⟩ := hg
  have hslot := hI.b.slot_eq s
  rw [hrv] at hres
  have : ∃ t, (σ.scope s).slot = .err t v := by
    cases hsl : (σ.scope s).slot with
    | empty => simp [resOf, hsl] at hres; split at hres <;> simp at hres
    | panic => simp [resOf, hsl] at hres
    | err t v' => simp [resOf, hsl] at hres; exact ⟨t, by rw [hres]⟩
  obtain ⟨t, hsl⟩ := this
  rw [hsl] at hslot
  unfold slotOf at hslot
  split at hslot
  · simp at hslot
  · rename_i hany
    cases hlog : (σ.scope s).errLog with
    | nil => simp [hlog] at hslot
    | cons a rest =>
      obtain ⟨a1, a2⟩ := a
      simp [hlog] at hslot
      obtain ⟨rfl, hv⟩ := hslot
      have hnone : ∀ e ∈ (σ.scope s).errLog, e.2 = false := by
        intro e he
        cases he2 : e.2 with
        | false => rfl
        | true => exact absurd (List.any_eq_true.mpr ⟨e, he, he2⟩) hany
      have ha2 : a2 = false := by
        have := hnone (t, a2) (by rw [hlog]; simp)
        exact this
      subst ha2
      have hsnd := hI.b.log_sound s t false (by rw [hlog]; simp)
      refine ⟨t, rest, rfl, by rw [← hlog]; exact hnone, hsnd.1, ?_, hv.symm⟩
      have h1 := hsnd.2.2.2.1
      have h2 := hsnd.2.2.2.2
      cases hout : (σ.task t).out <;> simp [hout, outIsPanic] at h1 h2 ⊢

/-- **`panic_reraised_iff`** — `run!` re-raises a panic exactly when some task of the scope panicked (and, by
`run_returns_after_all_tasks`, only once all tasks have finished). -/
theorem panic_reraised_iff {σ : State} (hr : Reach σ) {s : Nat} {r : Res} (hg : enabled σ (.ret s r) = true) :
    r = .panic ↔ ∃ t, (σ.task t).phase ≠ .absent ∧ (σ.task t).scope = s ∧ (σ.task t).out = .panic := by
  have hI := hr.inv
  have hg' := hg
  simp [enabled] at hg
  obtain ⟨⟨hl, htg⟩, hres⟩ := hg
  have hs : (σ.scope s).phase ≠ .absent := by simp [hl]
  have hslot := hI.b.slot_eq s
  constructor
  · intro hrv
    rw [hrv] at hres
    have hsl : (σ.scope s).slot = .panic := by
      cases hsl : (σ.scope s).slot with
      | empty => simp [resOf, hsl] at hres; split at hres <;> simp at hres
      | panic => rfl
      | err t v' => simp [resOf, hsl] at hres
    rw [hsl] at hslot
    unfold slotOf at hslot
    split at hslot
    · rename_i hany
      obtain ⟨e, he, he2⟩ := List.any_eq_true.mp hany
      have hsnd := hI.b.log_sound s e.1 e.2 he
      refine ⟨e.1, by rcases hsnd.2.2.1 with h | h <;> simp [h], hsnd.1, ?_⟩
      have h2 := hsnd.2.2.2.2
      rw [he2] at h2
      cases hout : (σ.task e.1).out <;> simp [hout, outIsPanic] at h2 ⊢
    · split at hslot <;> simp at hslot
  · intro ⟨t, hp, hsc, hout⟩
    have hm := failed_task_in_log hr hs htg t hp hsc (by simp [hout])
    simp [hout, outIsPanic] at hm
    have hany : (σ.scope s).errLog.any (fun e => e.2) = true := List.any_eq_true.mpr ⟨(t, true), hm, rfl⟩
    have hsl : (σ.scope s).slot = .panic := by rw [hslot]; simp [slotOf, hany]
    rw [hres]; simp [resOf, hsl]

/-- the `root_task_result.unwrap()` at the end of `run` never panics: when the error slot is empty the root returned `Ok` -/
theorem unwrap_never_panics {σ : State} (hr : Reach σ) {s : Nat} {r : Res} (hg : enabled σ (.ret s r) = true) :
    r ≠ .unwrapPanic := by
  intro hrv
  have hI := hr.inv
  have hg' := hg
  simp [enabled] at hg
  obtain ⟨⟨hl, htg⟩, hres⟩ := hg
  have hs : (σ.scope s).phase ≠ .absent := by simp [hl]
  have hroot := hI.d.root_scope s hs
  rw [hrv] at hres
  cases hsl : (σ.scope s).slot with
  | err t v => simp [resOf, hsl] at hres
  | panic => simp [resOf, hsl] at hres
  | empty =>
    simp [resOf, hsl] at hres
    have hlog : (σ.scope s).errLog = [] := (slotOf_eq_empty _ _).mp ((hI.b.slot_eq s) ▸ hsl)
    have := failed_task_in_log hr hs htg _ hroot.2 hroot.1 hres
    simp [hlog] at this


/-- the `set_err` calls on the state of scope `s` in a log, in log order -/
def seterrsOf (s : Nat) : List Event → List (Nat × Bool)
  | [] => []
  | .seterr s' t p _ _ :: es => if s' = s then (t, p) :: seterrsOf s es else seterrsOf s es
  | _ :: es => seterrsOf s es

theorem errLog_step {σ : State} (hI : Inv σ) {e : Event} (hg : enabled σ e = true) (s : Nat) :
    ((apply σ e).scope s).errLog = (σ.scope s).errLog ++ seterrsOf s [e] := by
  cases e with
  | ctxnew c p d => simp [seterrsOf, apply]
  | obs _ _ => simp [seterrsOf, apply]
  | advance d => simp [seterrsOf, apply]
  | endT t o v => simp [seterrsOf, apply]
  | tgd s' => simp only [seterrsOf, apply, setScope_scope, List.append_nil]; split <;> simp_all
  | rgd s' => simp only [seterrsOf, apply, setScope_scope, List.append_nil]; split <;> simp_all
  | cgd s' c => simp only [seterrsOf, apply, causeCtx_scope, setScope_scope, List.append_nil]; split <;> simp_all
  | cancel s' t c => simp only [seterrsOf, apply, causeCtx_scope, setScope_scope, List.append_nil]; split <;> simp_all
  | ret s' r =>
    have e2 : (apply σ (.ret s' r)).scope = fun i => if i = s' then { σ.scope s' with phase := .returned, result := some r } else σ.scope i := by
      simp only [apply]; split <;> rfl
    rw [e2]; simp only [seterrsOf, List.append_nil]; split <;> simp_all
  | make s' c p o r =>
    simp [enabled] at hg
    have hal := hI.b.absent_log s' hg.1.1.1.1.1
    have e2 : (apply σ (.make s' c p o r)).scope = fun i => if i = s' then ({ phase := .live, ctx := c, pctx := p, owner := o, root := r, rgHeld := true, mainLow := 1, termLow := 2 } : Scope) else σ.scope i := by
      simp only [apply]; cases o <;> rfl
    rw [e2]; simp only [seterrsOf, List.append_nil]; split <;> simp_all
  | spawn p c r => simp only [seterrsOf, apply, addTask_scope, setScope_scope, List.append_nil]; split <;> simp_all
  | start c m =>
    simp only [seterrsOf, apply, setTask_scope, setScope_scope, List.append_nil]
    split
    · subst_vars; split
      · rfl
      · split <;> rfl
    · rfl
  | rel t =>
    simp only [seterrsOf, apply, setTask_scope, setScope_scope, List.append_nil]
    split
    · subst_vars; split <;> rfl
    · rfl
  | seterr s' t ip st cc =>
    have e2 : (apply σ (.seterr s' t ip st cc)).scope = fun i => if i = s' then
        { σ.scope s' with slot := if st then (if ip then Slot.panic else Slot.err t (σ.task t).val) else (σ.scope s').slot,
                          errLog := (σ.scope s').errLog ++ [(t, ip)] } else σ.scope i := by
      simp only [apply]; split <;> rfl
    rw [e2]; simp only [seterrsOf]
    by_cases hs : s = s'
    · subst hs; simp
    · have : ¬ s' = s := fun hh => hs hh.symm
      simp [hs, this]

theorem seterrsOf_cons (s : Nat) (e : Event) (es : List Event) :
    seterrsOf s (e :: es) = seterrsOf s [e] ++ seterrsOf s es := by
  cases e <;> simp [seterrsOf]
  split <;> simp

/-- **`errLog_is_trace_order`** — the ghost sequence `errLog` the result theorems talk about is exactly the sequence
of `set_err` critical sections on the scope's state in the order of the log (the linearisation order of the `err`
mutex). So "first in `errLog`" is "first `set_err` in the run". -/
theorem errLog_is_trace_order {es : List Event} {σ : State} (hrun : run init es = some σ) (s : Nat) :
    (σ.scope s).errLog = seterrsOf s es := by
  have key : ∀ (es : List Event) (σ0 σ : State), Inv σ0 → run σ0 es = some σ →
      (σ.scope s).errLog = (σ0.scope s).errLog ++ seterrsOf s es := by
    intro es
    induction es with
    | nil => intro σ0 σ _ h; simp [run] at h; subst h; simp [seterrsOf]
    | cons e es ih =>
      intro σ0 σ hI h
      rw [run_cons] at h
      split at h
      · rename_i hg
        rw [ih _ _ (inv_step hI hg) h, errLog_step hI hg, seterrsOf_cons s e es, List.append_assoc]
      · simp at h
  have := key es init σ inv_init hrun
  simpa [init] using this


/-! ## 3. Cancellation: on the first failure, when the main tasks are done, from the caller / deadline; reaches
every descendant; is never observed without a cause -/

/-- the context of a present scope is its own nearest ancestor, so a cause on it makes it effectively cancelled -/
theorem eff_of_cause {σ : State} (hr : Reach σ) {c : Nat} (hp : (σ.ctx c).present = true)
    (hc : (σ.ctx c).cause = true) : eff σ c = true := by
  unfold eff
  exact List.any_eq_true.mpr ⟨c, hr.inv.c.anc_self c hp, by simp [hc]⟩

/-- **`cancel_on_first_failure`** — (a) the `set_err` critical section that writes the error slot cancels the scope's
context *inside the same critical section* (a stored `set_err` without the cancel is not a behaviour of the model:
the event is disabled unless `canceled = stored`), so immediately after it the context is cancelled; (b) in every
reachable state: error slot non-empty ⇒ the scope's context is cancelled. -/
theorem cancel_on_first_failure {σ : State} (hr : Reach σ) {s : Nat} (hs : (σ.scope s).phase ≠ .absent)
    (hslot : (σ.scope s).slot ≠ .empty) :
    (σ.ctx (σ.scope s).ctx).cause = true ∧ eff σ (σ.scope s).ctx = true := by
  have hc := hr.inv.c.cause_of s hs (Or.inl hslot)
  exact ⟨hc, eff_of_cause hr (hr.inv.c.scope_ctx s hs).1 hc⟩

theorem set_err_cancels_at_once {σ : State} {s t : Nat} {ip cc : Bool}
    (hg : enabled σ (.seterr s t ip true cc) = true) :
    cc = true ∧ ((apply σ (.seterr s t ip true cc)).ctx (σ.scope s).ctx).cause = true ∧
      ((apply σ (.seterr s t ip true cc)).scope s).slot ≠ .empty := by
  simp [enabled] at hg
  refine ⟨hg.2, ?_, ?_⟩
  · simp [apply]
  · simp only [apply, if_true, setTask_scope, causeCtx_scope, setScope_scope]
    split <;> simp

/-- the first failing task's `set_err` is always stored (the slot is still empty), hence always cancels -/
theorem first_set_err_is_stored {σ : State} {s t : Nat} {ip st cc : Bool}
    (hg : enabled σ (.seterr s t ip st cc) = true) (hempty : (σ.scope s).slot = .empty) : st = true ∧ cc = true := by
  simp [enabled, hempty, shouldStore] at hg
  exact ⟨hg.1.2, by rw [hg.2, hg.1.2]⟩

/-- **`cancel_when_main_done`** — `CancelGuard::drop` (which cancels the context: the event is disabled unless it does)
is enabled exactly when the run guard has been dropped and every started main task has announced the release of its
guard; until it has run, the scope cannot terminate. After it the context is cancelled. -/
theorem cancel_when_main_done {σ : State} (hr : Reach σ) {s : Nat} (hl : (σ.scope s).phase = .live) :
    (enabled σ (.cgd s true) = true ↔
      (σ.scope s).cgd = false ∧ (σ.scope s).rgHeld = false ∧
        ∀ t, (σ.task t).phase ≠ .absent → (σ.task t).scope = s → (σ.task t).main = true →
          (σ.task t).phase = .pending ∨ (σ.task t).phase = .released) ∧
    (enabled σ (.cgd s false) = false) ∧
    ((σ.scope s).cgd = false → enabled σ (.tgd s) = false) ∧
    ((σ.scope s).cgd = true → (σ.ctx (σ.scope s).ctx).cause = true ∧ eff σ (σ.scope s).ctx = true) := by
  have hA := hr.inv.a
  have hne : (σ.scope s).phase ≠ .absent := by simp [hl]
  have hte := hA.termLow_eq s hne
  refine ⟨?_, by simp [enabled], ?_, ?_⟩
  · simp only [enabled, hl, Bool.and_eq_true, beq_self_eq_true, true_and, Bool.not_eq_true', beq_iff_eq, Bool.and_true,
      decide_eq_true_eq]
    constructor
    · intro ⟨⟨hnc, hm0⟩, _⟩
      have ⟨hrg, hmain⟩ := (hA.mainLow_zero_iff hne).mp hm0
      refine ⟨hnc, hrg, ?_⟩
      intro t hp hsc hm
      have := hmain t ((hA.mem_iff t).mpr hp)
      cases hph : (σ.task t).phase <;> simp [holdsMain, hsc, hm, hph] at this hp ⊢
    · intro ⟨hnc, hrg, hall⟩
      refine ⟨⟨hnc, (hA.mainLow_zero_iff hne).mpr ⟨hrg, ?_⟩⟩, by simp [hnc] at hte; omega⟩
      intro t ht
      have hp := (hA.mem_iff t).mp ht
      by_cases hsc : (σ.task t).scope = s
      · cases hm : (σ.task t).main with
        | false => simp [holdsMain, hm]
        | true => rcases hall t hp hsc hm with h | h <;> simp [holdsMain, h]
      · simp [holdsMain, hsc]
  · intro hnc
    simp [hnc] at hte
    simp [enabled]
    intro _ _; omega
  · intro hc
    have := hr.inv.c.cause_of s hne (Or.inr (Or.inl hc))
    exact ⟨this, eff_of_cause hr (hr.inv.c.scope_ctx s hne).1 this⟩

/-- when `run!` returns, the scope's context has been cancelled (whatever the outcome) -/
theorem cancelled_at_return {σ : State} (hr : Reach σ) {s : Nat} {r : Res} (hg : enabled σ (.ret s r) = true) :
    eff σ (σ.scope s).ctx = true := by
  simp [enabled] at hg
  have hne : (σ.scope s).phase ≠ .absent := by simp [hg.1.1]
  have hc := (hr.inv.a.tgd_term s hg.1.2).2
  have := hr.inv.c.cause_of s hne (Or.inr (Or.inl hc))
  exact eff_of_cause hr (hr.inv.c.scope_ctx s hne).1 this

/-- **`cancel_from_parent_or_deadline`** — a context is (effectively) cancelled exactly when `cancel()` was called on
it or on one of its ancestors, or the deadline of it or of one of its ancestors has passed. -/
theorem cancel_from_parent_or_deadline (σ : State) (c : Nat) :
    eff σ c = true ↔ ∃ a ∈ (σ.ctx c).anc, (σ.ctx a).cause = true ∨ deadlinePassed σ a = true := by
  unfold eff
  simp [List.any_eq_true]

/-- the scope's context is a child of the caller's context: the caller's cancellation (or deadline) cancels the scope -/
theorem cancel_from_caller {σ : State} (hr : Reach σ) {s : Nat} (hs : (σ.scope s).phase ≠ .absent)
    (hc : eff σ (σ.scope s).pctx = true) : eff σ (σ.scope s).ctx = true := by
  have h := (hr.inv.c.scope_ctx s hs).2.2.2
  unfold eff at hc ⊢
  rw [h]
  simp only [List.any_cons, Bool.or_eq_true]
  exact Or.inr hc

/-- **`cancel_reaches_descendants`** — if a context is cancelled, every descendant context (to any depth: contexts of
nested scopes, `with_deadline` children, their children …) is cancelled. -/
theorem cancel_reaches_descendants {σ : State} (hr : Reach σ) {c a : Nat} (hp : (σ.ctx c).present = true)
    (ha : a ∈ (σ.ctx c).anc) (hc : eff σ a = true) : eff σ c = true := by
  obtain ⟨b, hb, hcause⟩ := (cancel_from_parent_or_deadline σ a).mp hc
  have := (hr.inv.c.anc_closed c a hp ha).2 b hb
  exact (cancel_from_parent_or_deadline σ c).mpr ⟨b, this, hcause⟩

/-- the context of a nested scope is a descendant of the context of the enclosing scope's caller chain: every
ancestor of the caller's context is an ancestor of the scope's context -/
theorem scope_ctx_below_caller {σ : State} (hr : Reach σ) {s : Nat} (hs : (σ.scope s).phase ≠ .absent) :
    ∀ a ∈ (σ.ctx (σ.scope s).pctx).anc, a ∈ (σ.ctx (σ.scope s).ctx).anc := by
  intro a ha
  rw [(hr.inv.c.scope_ctx s hs).2.2.2]
  exact List.mem_cons_of_mem _ ha

/-- **`observed_cancellation_has_cause`** — a task can observe its context cancelled only after a cause has been
logged: on the context or one of its ancestors the deadline has passed, or it is the context of a scope in which a
task has failed (error slot non-empty), whose `CancelGuard` was dropped (all main tasks done), or on which
`Scope::cancel` was called. -/
theorem observed_cancellation_has_cause {σ : State} (hr : Reach σ) {t c : Nat} (hg : enabled σ (.obs t c) = true) :
    ∃ a ∈ (σ.ctx c).anc, deadlinePassed σ a = true ∨
      ∃ s, (σ.scope s).phase ≠ .absent ∧ (σ.scope s).ctx = a ∧
        ((σ.scope s).slot ≠ .empty ∨ (σ.scope s).cgd = true ∨ (σ.scope s).explicit = true) := by
  simp [enabled] at hg
  obtain ⟨a, ha, hcause⟩ := (cancel_from_parent_or_deadline σ c).mp hg.2
  refine ⟨a, ha, ?_⟩
  rcases hcause with h | h
  · exact Or.inr (hr.inv.c.cause_origin a h)
  · exact Or.inl h

/-! ## 4. Main tasks and background tasks -/

/-- **`spawn_after_main_done_is_background`** — once the `CancelGuard` has been dropped (or an `upgrade` has been seen
to fail) no task of the scope starts as a main task any more: `main_task()` falls back to a background task. -/
theorem spawn_after_main_done_is_background {σ : State} (hr : Reach σ) {c : Nat}
    (hclosed : (σ.scope (σ.task c).scope).cgd = true ∨ (σ.scope (σ.task c).scope).mainClosed = true) :
    enabled σ (.start c true) = false := by
  have hmc : (σ.scope (σ.task c).scope).mainClosed = true := by
    rcases hclosed with h | h
    · exact hr.inv.a.cgd_closed _ h
    · exact h
  simp [enabled, hmc]

/-- a task spawned with `spawn` by `run` itself (the root) or by a main task always is a main task -/
theorem main_spawned_by_main_is_main {σ : State} {c : Nat} (hreq : (σ.task c).reqMain = true)
    (hg : enabled σ (.start c false) = true) :
    ∃ p, (σ.task c).parent = some p ∧ (σ.task p).main = false := by
  simp [enabled, hreq] at hg
  cases hp : (σ.task c).parent with
  | none => simp [hp] at hg
  | some p => simp [hp] at hg; exact ⟨p, rfl, hg.2.2⟩

/-- `bg_task()`'s `terminate_guard.upgrade().unwrap()` never panics: while a task of the scope is running (only a
running task can spawn) the `TerminateGuard` has not been dropped -/
theorem spawn_never_after_terminated {σ : State} (hr : Reach σ) {p c : Nat} {m : Bool}
    (hg : enabled σ (.spawn p c m) = true) :
    (σ.scope (σ.task p).scope).tgd = false ∧ (σ.scope (σ.task p).scope).phase = .live := by
  simp [enabled] at hg
  exact ⟨hr.inv.a.active_not_tgd p (Or.inr (Or.inl hg.1.1)), hr.inv.a.active_live p (Or.inr (Or.inl hg.1.1))⟩


/-! ## Non-vacuity: concrete accepted logs meet the hypotheses (tests of the statements, not the proofs) -/

/-- root 1 (main) spawns 2 (main, fails with 7) and 3 (background, waits for the cancellation, returns 5) -/
def exLog : List Event :=
  [.make 0 1 0 none 1, .rgd 0, .start 1 true, .spawn 1 2 true, .spawn 1 3 false, .start 2 true, .start 3 false,
   .endT 2 .err 7, .seterr 0 2 false true true, .rel 2, .obs 3 1, .endT 3 .ok 5, .rel 3, .endT 1 .ok 9, .rel 1,
   .cgd 0 true, .tgd 0]

/-- the log is accepted and `run!` may then return `Err(7)` — and nothing else -/
example : ∃ σ, run init exLog = some σ ∧ Reach σ ∧ enabled σ (.ret 0 (.err 7)) = true ∧
    enabled σ (.ret 0 (.ok 9)) = false ∧ (σ.task 3).phase ≠ .absent ∧ Under σ 0 3 :=
  ⟨_, rfl, ⟨exLog, rfl⟩, by decide, by decide, by decide, .direct 3 (by decide)⟩

/-- returning before the background task has released its guard is not a behaviour: after dropping `rel 3 … tgd`
from the log neither `tgd` nor `ret` is enabled -/
example : ∃ σ, run init (exLog.take 11) = some σ ∧ enabled σ (.tgd 0) = false ∧ enabled σ (.ret 0 (.err 7)) = false ∧
    enabled σ (.cgd 0 true) = false :=
  ⟨_, rfl, by decide, by decide, by decide⟩

/-- a second failure is not stored, a panic is: `set_err` must report `stored = false` for a second error -/
example : ∃ σ, run init (exLog.take 9 ++ [.endT 3 .err 4]) = some σ ∧
    enabled σ (.seterr 0 3 false false false) = true ∧ enabled σ (.seterr 0 3 false true true) = false :=
  ⟨_, rfl, by decide, by decide⟩

/-- nested scope under a deadline context: the clock passes the deadline of context 2 (child of the root's scope
context 1), the task of the nested scope (context 3, child of 2) observes the cancellation; the nested scope joins
before the outer task ends, the outer before its `run!` returns -/
def exNested : List Event :=
  [.make 0 1 0 none 1, .rgd 0, .start 1 true, .ctxnew 2 1 (some 10), .make 1 3 2 (some 1) 2, .rgd 1, .start 2 true,
   .advance 10, .obs 2 3, .endT 2 .panic 0, .seterr 1 2 true true true, .rel 2, .cgd 1 true, .tgd 1, .ret 1 .panic,
   .endT 1 .panic 0, .seterr 0 1 true true true, .rel 1, .cgd 0 true, .tgd 0]

example : ∃ σ, run init exNested = some σ ∧ Reach σ ∧ enabled σ (.ret 0 .panic) = true ∧
    (σ.scope 1).phase = .returned ∧ Under σ 0 2 ∧ (σ.task 2).phase = .released ∧
    2 ∈ (σ.ctx 3).anc ∧ eff σ 2 = true ∧ (σ.ctx 3).present = true :=
  ⟨_, rfl, ⟨exNested, rfl⟩, by decide, by decide, .nested 2 1 (by decide) (.direct 1 (by decide)), by decide,
   by decide, by decide, by decide⟩

/-- the nested task cannot observe a cancellation before the clock is advanced (no cause yet) -/
example : ∃ σ, run init (exNested.take 7) = some σ ∧ enabled σ (.obs 2 3) = false ∧
    enabled σ (.endT 1 .ok 0) = false :=
  ⟨_, rfl, by decide, by decide⟩

/-- a main-requested task spawned by a background task after the `CancelGuard` was dropped starts as a background task -/
example : ∃ σ, run init [.make 0 1 0 none 1, .rgd 0, .start 1 true, .spawn 1 2 false, .start 2 false, .endT 1 .ok 1,
      .rel 1, .cgd 0 true, .spawn 2 3 true] = some σ ∧
    enabled σ (.start 3 true) = false ∧ enabled σ (.start 3 false) = true ∧ enabled σ (.tgd 0) = false :=
  ⟨_, rfl, by decide, by decide, by decide⟩

end EraVerif.Props.C17
