import EraVerif.Model.Replica
import EraVerif.Proofs.Caches

/-!
# C16 (b) — The replica's bookkeeping of partially collected certificates stays bounded

Part (b) of the property: "Inside the replica, the bookkeeping of partially collected certificates stays bounded by
a function of the committee size alone (one latest vote per validator and kind) no matter how many future-view
messages faulty validators send." (Part (a), the input queue, is `Props/C16.lean`.)

All theorems are about the executable replica model `Model/Replica.lean` (`onCommit` / `onTimeout` transcribe
`v2_chonky_bft/{commit,timeout}.rs` with the four caches `commit_views_cache`, `commit_qcs_cache`,
`timeout_views_cache`, `timeout_qcs_cache` and their pruning by `retain` / `remove`).

Quantifier: **every** committee and configuration `cfg`, every start state `Replica.start b` (any backup `b`), and
**every** finite list `ins : List (Env × Input)` of inputs with the environment answers of each step — any messages
of any kind from any key (inside or outside the committee), for any views (past, current, arbitrarily far future),
validly signed or not, ticks and restarts, in any order and of any length. `run cfg b ins` is the state after
feeding all of them; the state of every step is taken **whatever its outcome** (accepted, rejected, blocked in
`queue_block`, or a panic site — the model then returns the state reached so far). `n := cfg.c.n` is the committee size.

What is *not* bounded by these theorems (and is not part of the caches): `proposals` (the block proposal cache, pruned
on `start_new_view`), and — in the model only — the symbolic aggregate signature lists `sig` inside a certificate,
whose length equals the number of signer bits (≤ n; `CommitQC`/`TimeoutQC` invariants of C04).
-/

namespace EraVerif.Props.C16b
open EraVerif.Model
open EraVerif.Proofs
open EraVerif.Proofs.Caches (Seen ViewsInv ViewInv CommitInv TimeoutInv)

/-- the state reached from `Replica.start b` by the inputs `ins` (each with the environment of its step),
taking the state of every step result whatever the outcome -/
def run (cfg : RCfg) (b : Option Durable) (ins : List (Env × Input)) : Replica :=
  ins.foldl (fun r x => (step cfg r x.1 x.2).r) (Replica.start b)

/-- **The cache invariant** (`Proofs/Caches.lean`; spelled out by `cacheInv_iff` below). -/
abbrev CacheInv (cfg : RCfg) (r : Replica) : Prop := Caches.CacheInv cfg r

/-- What `CacheInv` says, without auxiliary vocabulary. With `n` the committee size:

* `commitViews` / `timeoutViews` hold at most one entry per validator index, every index `< n`;
* the keys (views) of `commitQCs` / `timeoutQCs` are distinct and each is the recorded view of some validator;
* per view `V` of `commitQCs`: the cached certificates have pairwise different votes and pairwise disjoint signer
  bitmaps; each bitmap has length `n` and at least one bit; and every validator whose bit is set has a recorded
  commit view `≥ V` (so `on_commit` will refuse another vote of his for `V`);
* every cached timeout certificate is well formed under assembly (`Certs.TqcInv`: groups with pairwise different
  votes and pairwise disjoint non-empty bitmaps of length `n`, …). -/
theorem cacheInv_iff (cfg : RCfg) (r : Replica) :
    CacheInv cfg r ↔
      (((r.commitViews.map (·.1)).Nodup ∧ (∀ e ∈ r.commitViews, e.1 < cfg.c.n)) ∧
        (r.commitQCs.map (·.1)).Nodup ∧ (∀ x ∈ r.commitQCs, x.1 ∈ r.commitViews.map (·.2)) ∧
        (∀ x ∈ r.commitQCs,
          (∀ y ∈ x.2, y.2.signers.length = cfg.c.n ∧ (∃ i : Nat, y.2.signers[i]? = some true) ∧
            ∀ i : Nat, y.2.signers[i]? = some true → ∃ w, alGet r.commitViews i = some w ∧ x.1 ≤ w) ∧
          x.2.Pairwise (fun a b => a.1 ≠ b.1 ∧
            ∀ i : Nat, ¬ (a.2.signers[i]? = some true ∧ b.2.signers[i]? = some true)))) ∧
      (((r.timeoutViews.map (·.1)).Nodup ∧ (∀ e ∈ r.timeoutViews, e.1 < cfg.c.n)) ∧
        (r.timeoutQCs.map (·.1)).Nodup ∧ (∀ x ∈ r.timeoutQCs, x.1 ∈ r.timeoutViews.map (·.2)) ∧
        (∀ x ∈ r.timeoutQCs, Certs.TqcInv cfg.c x.2.view x.2)) := by
  constructor
  · rintro ⟨⟨⟨a1, a2⟩, a3, a4, a5⟩, ⟨⟨b1, b2⟩, b3, b4, b5⟩⟩
    exact ⟨⟨⟨a1, a2⟩, a3, a4, fun x hx => ⟨(a5 x hx).certs, (a5 x hx).pw⟩⟩, ⟨⟨b1, b2⟩, b3, b4, b5⟩⟩
  · rintro ⟨⟨⟨a1, a2⟩, a3, a4, a5⟩, ⟨⟨b1, b2⟩, b3, b4, b5⟩⟩
    exact ⟨⟨⟨a1, a2⟩, a3, a4, fun x hx => ⟨(a5 x hx).1, (a5 x hx).2⟩⟩, ⟨⟨b1, b2⟩, b3, b4, b5⟩⟩

/-! ## The invariant holds in every reachable state -/

/-- one step — any input, any environment, any outcome — preserves the invariant -/
theorem cacheInv_step (cfg : RCfg) (r : Replica) (e : Env) (i : Input) (h : CacheInv cfg r) :
    CacheInv cfg (step cfg r e i).r := Caches.cacheInv_step cfg r e i h

/-- any number of steps preserve the invariant -/
theorem cacheInv_steps (cfg : RCfg) (ins : List (Env × Input)) (r : Replica) (h : CacheInv cfg r) :
    CacheInv cfg (ins.foldl (fun r x => (step cfg r x.1 x.2).r) r) := by
  induction ins generalizing r with
  | nil => exact h
  | cons x rest ih => exact ih _ (cacheInv_step cfg r x.1 x.2 h)

/-- **`CacheInv` holds in every state reachable from `Replica.start b`** by any list of inputs and environments. -/
theorem cacheInv_reachable (cfg : RCfg) (b : Option Durable) (ins : List (Env × Input)) :
    CacheInv cfg (run cfg b ins) :=
  cacheInv_steps cfg ins _ (Caches.cacheInv_start cfg b)

/-! ## 1. One latest vote view per validator and kind -/

/-- `commit_views_cache` has at most `n` entries: its keys are distinct validator indices `< n`. -/
theorem commit_views_bounded (cfg : RCfg) (b : Option Durable) (ins : List (Env × Input)) :
    (run cfg b ins).commitViews.length ≤ cfg.c.n ∧
    ((run cfg b ins).commitViews.map (·.1)).Nodup ∧ ∀ e ∈ (run cfg b ins).commitViews, e.1 < cfg.c.n :=
  have h := (cacheInv_reachable cfg b ins).commit.views
  ⟨h.length_le, h.nodup, h.lt⟩

/-- `timeout_views_cache` has at most `n` entries: its keys are distinct validator indices `< n`. -/
theorem timeout_views_bounded (cfg : RCfg) (b : Option Durable) (ins : List (Env × Input)) :
    (run cfg b ins).timeoutViews.length ≤ cfg.c.n ∧
    ((run cfg b ins).timeoutViews.map (·.1)).Nodup ∧ ∀ e ∈ (run cfg b ins).timeoutViews, e.1 < cfg.c.n :=
  have h := (cacheInv_reachable cfg b ins).timeout.views
  ⟨h.length_le, h.nodup, h.lt⟩

/-! ## 2. Certificates are kept only for views some validator is at -/

/-- `commit_qcs_cache` has at most `n` views: its keys are distinct and each is the recorded commit view of some
validator (entries for views nobody is at are dropped). -/
theorem commit_qcs_views_bounded (cfg : RCfg) (b : Option Durable) (ins : List (Env × Input)) :
    (run cfg b ins).commitQCs.length ≤ cfg.c.n ∧
    ((run cfg b ins).commitQCs.map (·.1)).Nodup ∧
    ∀ x ∈ (run cfg b ins).commitQCs, ∃ e ∈ (run cfg b ins).commitViews, e.2 = x.1 := by
  have h := (cacheInv_reachable cfg b ins).commit
  refine ⟨h.length_le, h.nodup, fun x hx => ?_⟩
  obtain ⟨e, he, hv⟩ := List.mem_map.mp (h.active x hx)
  exact ⟨e, he, hv⟩

/-- `timeout_qcs_cache` has at most `n` views (one certificate each): its keys are distinct and each is the recorded
timeout view of some validator. -/
theorem timeout_qcs_views_bounded (cfg : RCfg) (b : Option Durable) (ins : List (Env × Input)) :
    (run cfg b ins).timeoutQCs.length ≤ cfg.c.n ∧
    ((run cfg b ins).timeoutQCs.map (·.1)).Nodup ∧
    ∀ x ∈ (run cfg b ins).timeoutQCs, ∃ e ∈ (run cfg b ins).timeoutViews, e.2 = x.1 := by
  have h := (cacheInv_reachable cfg b ins).timeout
  refine ⟨h.length_le, h.nodup, fun x hx => ?_⟩
  obtain ⟨e, he, hv⟩ := List.mem_map.mp (h.active x hx)
  exact ⟨e, he, hv⟩

/-! ## 3. The number of partial certificates -/

/-- Per cached view: the partial commit certificates have pairwise different votes, pairwise disjoint signer bitmaps
(a validator's bit is set in at most one certificate of the view), each bitmap has length `n` and at least one bit
(of a validator index `< n`). -/
theorem commit_qcs_one_cert_per_validator (cfg : RCfg) (b : Option Durable) (ins : List (Env × Input)) :
    ∀ x ∈ (run cfg b ins).commitQCs,
      (x.2.map (·.1)).Nodup ∧
      x.2.Pairwise (fun a b => ∀ i : Nat, ¬ (a.2.signers[i]? = some true ∧ b.2.signers[i]? = some true)) ∧
      ∀ y ∈ x.2, y.2.signers.length = cfg.c.n ∧ ∃ i : Nat, i < cfg.c.n ∧ y.2.signers[i]? = some true := by
  intro x hx
  have h := (cacheInv_reachable cfg b ins).commit.perView x hx
  refine ⟨h.votes_nodup, h.pw.imp (fun hab => hab.2), fun y hy => ⟨(h.certs y hy).1, ?_⟩⟩
  obtain ⟨i, hi⟩ := (h.certs y hy).2.1
  refine ⟨i, ?_, hi⟩
  have hlt : i < y.2.signers.length := by
    rcases Nat.lt_or_ge i y.2.signers.length with h' | h'
    · exact h'
    · rw [List.getElem?_eq_none h'] at hi; cases hi
  exact (h.certs y hy).1 ▸ hlt

/-- **The total number of partial commit certificates is at most `n * n`** (at most `n` per cached view, at most `n`
cached views), and every cached certificate has a signer bitmap of length `n`. -/
theorem commit_qcs_entries_bounded (cfg : RCfg) (b : Option Durable) (ins : List (Env × Input)) :
    (((run cfg b ins).commitQCs.map (·.2.length)).sum ≤ cfg.c.n * cfg.c.n) ∧
    (∀ x ∈ (run cfg b ins).commitQCs, x.2.length ≤ cfg.c.n) ∧
    ∀ x ∈ (run cfg b ins).commitQCs, ∀ y ∈ x.2, y.2.signers.length = cfg.c.n :=
  have h := (cacheInv_reachable cfg b ins).commit
  ⟨h.total_le, fun x hx => (h.perView x hx).length_le, fun x hx y hy => ((h.perView x hx).certs y hy).1⟩

/-- Every cached partial timeout certificate has at most `n` vote groups, each with a signer bitmap of length `n`
(so `timeout_qcs_cache` holds at most `n * n` groups). -/
theorem timeout_qcs_groups_bounded (cfg : RCfg) (b : Option Durable) (ins : List (Env × Input)) :
    ∀ x ∈ (run cfg b ins).timeoutQCs, x.2.map.length ≤ cfg.c.n ∧ ∀ g ∈ x.2.map, g.2.length = cfg.c.n := by
  intro x hx
  have h := (cacheInv_reachable cfg b ins).timeout.certs x hx
  exact ⟨Caches.tqcInv_groups_le h, fun g hg => (h.groups g hg).2.1⟩

/-! ## 4. The property -/

/-- **No flood grows the caches beyond a function of the committee size**: for every list of inputs of any length
(in particular any number of validly signed votes for arbitrary future views from faulty validators), the four
caches of the resulting state have at most `n`, `n`, `n`, `n` entries and the partial commit certificates number at
most `n * n`. -/
theorem flood_bounded (cfg : RCfg) (b : Option Durable) (ins : List (Env × Input)) :
    (run cfg b ins).commitViews.length ≤ cfg.c.n ∧
    (run cfg b ins).commitQCs.length ≤ cfg.c.n ∧
    (run cfg b ins).timeoutViews.length ≤ cfg.c.n ∧
    (run cfg b ins).timeoutQCs.length ≤ cfg.c.n ∧
    ((run cfg b ins).commitQCs.map (·.2.length)).sum ≤ cfg.c.n * cfg.c.n :=
  ⟨(commit_views_bounded cfg b ins).1, (commit_qcs_views_bounded cfg b ins).1, (timeout_views_bounded cfg b ins).1,
    (timeout_qcs_views_bounded cfg b ins).1, (commit_qcs_entries_bounded cfg b ins).1⟩

/-! ## 5. Non-vacuity -/

/-- six validators of weight 1 (quorum 5), chain 0, epoch 0 -/
def demoCfg : RCfg :=
  { c := { weights := [1, 1, 1, 1, 1, 1], genesis := 0, epoch := 0, first := 0 }, leader := fun v => v % 6,
    maxPayload := 1000 }

def demoEnv : Env := { queuedFirst := 0, persistedNext := 0, payloadOk := true, storeNext := 0 }

def demoVote (view payload : Nat) : Vote :=
  { view := { genesis := 0, epoch := 0, number := view }, proposal := { number := 1, payload := payload } }

def demoCommit (key view payload : Nat) : Env × Input :=
  (demoEnv, .msg { msg := .commit (demoVote view payload), key := key, sigOk := true })

/-- future-view commit votes: validator 1 for view 5, validator 2 for view 7, validator 1 again for view 9 (view 5 is
then dropped: nobody is at it), validator 3 for view 7 with a different payload, validator 4 for view 7 with the
payload of validator 2, and a vote from a key outside the committee -/
def demoFlood : List (Env × Input) :=
  [demoCommit 1 5 0, demoCommit 2 7 0, demoCommit 1 9 0, demoCommit 3 7 1, demoCommit 4 7 0, demoCommit 6 8 0]

example :
    (run demoCfg none demoFlood).commitViews = [(1, 9), (2, 7), (3, 7), (4, 7)] ∧
    (run demoCfg none demoFlood).commitQCs.map (fun x => (x.1, x.2.map (fun y => (y.1.proposal.payload, y.2.signers))))
      = [(7, [(0, [false, false, true, false, true, false]), (1, [false, false, false, true, false, false])]),
         (9, [(0, [false, true, false, false, false, false])])] ∧
    (run demoCfg none demoFlood).commitViews.length ≤ demoCfg.c.n ∧
    (run demoCfg none demoFlood).commitQCs.length ≤ demoCfg.c.n ∧
    ((run demoCfg none demoFlood).commitQCs.map (·.2.length)).sum ≤ demoCfg.c.n * demoCfg.c.n := by
  decide

def demoTimeout (key view : Nat) : Env × Input :=
  (demoEnv, .msg { msg := .timeout { view := { genesis := 0, epoch := 0, number := view }, highVote := none,
                                      highQC := none }, key := key, sigOk := true })

/-- the same for timeout votes: validators 0 and 1 for view 3, then validator 0 for view 8 -/
example :
    (run demoCfg none [demoTimeout 0 3, demoTimeout 1 3, demoTimeout 0 8]).timeoutViews = [(0, 8), (1, 3)] ∧
    (run demoCfg none [demoTimeout 0 3, demoTimeout 1 3, demoTimeout 0 8]).timeoutQCs.map
        (fun x => (x.1, x.2.map.map (·.2)))
      = [(3, [[true, true, false, false, false, false]]), (8, [[true, false, false, false, false, false]])] := by
  decide

end EraVerif.Props.C16b
