import EraVerif.Model.Signal

/-!
# C17 — the cancellation signal cannot be lost (`signal::Once`)

Scopes deliver cancellation through `signal::Once`: "when any task fails all others are signalled to stop" needs that
a signal sent concurrently with a waiter's poll is never lost. For every sequence of polls (by any number of
receivers), `try_recv`s and `send`s:
-/

namespace EraVerif.Props.C17sig
open EraVerif.Model.Signal

theorem closed_stable (o : Once) (ops : List Op) (h : o.closed = true) : (exec o ops).closed = true := by
  induction ops generalizing o with
  | nil => simpa [exec, run]
  | cons op rest ih =>
    have : (step o op).1.closed = true := by cases op <;> simp [step, h]
    simpa [exec, run] using ih _ this

/-- after a `send`, every poll is ready and `try_recv` is true — whatever happened before or happens after -/
theorem after_send_ready (o : Once) (pre post : List Op) (w : Nat) :
    (step (exec o (pre ++ [Op.send] ++ post)) (Op.poll w)).2 = Out.ready ∧
    (step (exec o (pre ++ [Op.send] ++ post)) Op.tryRecv).2 = Out.flag true := by
  have hrun : ∀ (a b : List Op) (o : Once), exec o (a ++ b) = exec (exec o a) b := by
    intro a; induction a with
    | nil => intro b o; simp [exec, run]
    | cons x xs ih => intro b o; simpa [exec, run] using ih b (step o x).1
  have h1 : (exec o (pre ++ [Op.send])).closed = true := by
    rw [hrun]; simp [exec, run, step]
  have h2 : (exec o (pre ++ [Op.send] ++ post)).closed = true := by
    rw [hrun]; exact closed_stable _ _ h1
  generalize exec o (pre ++ [Op.send] ++ post) = e at h2
  simp [step, h2]

/-- invariant: a receiver that was told `pending` is registered or already woken, unless the signal is closed and it was woken -/
def Registered (o : Once) (w : Nat) : Prop := w ∈ o.waiting ∨ w ∈ o.woken

theorem registered_step (o : Once) (op : Op) (w : Nat) (h : Registered o w) : Registered (step o op).1 w := by
  unfold Registered at *
  cases op with
  | poll v =>
    by_cases hc : o.closed = true
    · simp [step, hc]; exact h
    · simp only [step, hc]
      rcases h with h | h
      · left; by_cases hv : v ∈ o.waiting <;> simp [hv, h]
      · right; exact h
  | send => rcases h with h | h <;> simp [step, h]
  | tryRecv => simpa [step] using h

/-- **no lost wake-up**: a receiver whose poll returned `pending` is woken by the next `send`, however many other
operations lie in between -/
theorem no_lost_wakeup (o : Once) (w : Nat) (mid : List Op)
    (hp : (step o (Op.poll w)).2 = Out.pending) :
    w ∈ (exec (step o (Op.poll w)).1 (mid ++ [Op.send])).woken := by
  have hrun : ∀ (a b : List Op) (o : Once), exec o (a ++ b) = exec (exec o a) b := by
    intro a; induction a with
    | nil => intro b o; simp [exec, run]
    | cons x xs ih => intro b o; simpa [exec, run] using ih b (step o x).1
  have h0 : Registered (step o (Op.poll w)).1 w := by
    unfold Registered
    by_cases hc : o.closed = true
    · simp [step, hc] at hp
    · left; simp only [step, hc]; by_cases hv : w ∈ o.waiting <;> simp [hv]
  have hmid : ∀ (l : List Op) (o' : Once), Registered o' w → Registered (exec o' l) w := by
    intro l; induction l with
    | nil => intro o' h; simpa [exec, run] using h
    | cons x xs ih => intro o' h; simpa [exec, run] using ih _ (registered_step o' x w h)
  have h1 := hmid mid _ h0
  rw [hrun]
  generalize exec (step o (Op.poll w)).1 mid = e at h1
  unfold Registered at h1
  rcases h1 with h | h <;> simp [exec, run, step, h]

/-- the race the harness runs on the real `Once` (first poll against `send`, both orders) is fine in the model -/
theorem race_ok : raceOk = true := by decide

/-- atomicity is what carries it: with "test the flag" and "register" as two steps, a `send` between them leaves the
receiver registered on a closed signal that will never wake it -/
theorem split_poll_loses_wakeup :
    let o := [SOp.check 1, SOp.send, SOp.register 1].foldl sstep {}
    o.closed = true ∧ 1 ∈ o.waiting ∧ 1 ∉ o.woken := by decide

end EraVerif.Props.C17sig
