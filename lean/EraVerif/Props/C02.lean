import EraVerif.Proofs.LayerPInv

/-!
# C02 — Certificate uniqueness: a certified block can never be displaced (history level, Layer P)

For every committee, every Byzantine set of weight ≤ f, every reachable history:
once validators holding a quorum of weight have voted to commit block `(k, h)` in view `u` (`Cert … u k h` —
whether or not any correct node ever saw the certificate assembled), every commit vote a correct validator casts
in any later view is for a block number ≥ k, and if it is for number `k` it is for `h`; hence at most one payload per
number can ever obtain a certificate, and any block that carries a valid certificate is on the canonical chain.
The decision-function half (the re-proposal rule computed by `get_implied_block` meets the relational
specification `Implied` used here) is `EraVerif.Props.C02d`.
-/

namespace EraVerif.Props.C02
open EraVerif.Safety Finset

variable {ι : Type} [Fintype ι] [DecidableEq ι] {w : ι → ℕ} {byz : Finset ι} {first : ℕ}

/-- Every later correct vote respects a certified block. -/
theorem certified_block_canonical {s : PState ι} (hn : 1 ≤ total w) (hb : wt w byz ≤ faulty w)
    (hr : Reach w byz first s) {u k h : ℕ} (hc : Cert w byz s.st u k h)
    {i : ι} (hi : i ∉ byz) {u' k' h' : ℕ} (hv : s.votedAt i u' = some (k', h')) (hlt : u < u') :
    k ≤ k' ∧ (k' = k → h' = h) := by
  have hI := inv_reachable hn hb hr
  obtain ⟨C, hq, hC⟩ := hc
  exact hI.i1 i hi u' k' h' hv u hlt k h ⟨C, hq, fun j hj hjb => Or.inl (hC j hj hjb)⟩

/-- Even a *partially* collected certificate is protected as long as it can still complete: if a quorum exists
whose correct members either voted `(k,h)` in view `u` or could still do so, later votes respect `(k,h)`. -/
theorem choosable_block_protected {s : PState ι} (hn : 1 ≤ total w) (hb : wt w byz ≤ faulty w)
    (hr : Reach w byz first s) {u k h : ℕ} (hc : Choosable w byz s.st u k h)
    {i : ι} (hi : i ∉ byz) {u' k' h' : ℕ} (hv : s.votedAt i u' = some (k', h')) (hlt : u < u') :
    k ≤ k' ∧ (k' = k → h' = h) :=
  (inv_reachable hn hb hr).i1 i hi u' k' h' hv u hlt k h hc

/-- At most one block per view can be certified. -/
theorem cert_unique_per_view {s : PState ι} (hn : 1 ≤ total w) (hb : wt w byz ≤ faulty w)
    {u k h k' h' : ℕ} (hc : Cert w byz s.st u k h) (hc' : Cert w byz s.st u k' h') : k' = k ∧ h' = h :=
  cert_unique w byz s.st hn hb hc hc'

/-- At most one payload per block number can ever obtain a certificate. -/
theorem one_payload_per_number {s : PState ι} (hn : 1 ≤ total w) (hb : wt w byz ≤ faulty w)
    (hr : Reach w byz first s) {u1 u2 k h1 h2 : ℕ}
    (hc1 : Cert w byz s.st u1 k h1) (hc2 : Cert w byz s.st u2 k h2) : h1 = h2 := by
  have hI := inv_reachable hn hb hr
  rcases Nat.lt_trichotomy u1 u2 with hlt | heq | hgt
  · exact ((cert_monotone w byz s.st hn hb hI.i1 hc1 hc2 hlt).2 rfl).symm
  · subst heq; exact (cert_unique w byz s.st hn hb hc1 hc2).2.symm
  · exact (cert_monotone w byz s.st hn hb hI.i1 hc2 hc1 hgt).2 rfl

/-- A correct validator casts at most one commit vote per view (structural: `votedAt` is a function), and only while
it is not blocked in that view; after voting it is blocked there. -/
theorem vote_blocks_view {s : PState ι} (hn : 1 ≤ total w) (hb : wt w byz ≤ faulty w)
    (hr : Reach w byz first s) {i : ι} (hi : i ∉ byz) {u k h : ℕ} (hv : s.votedAt i u = some (k, h)) :
    s.blocked i u :=
  (inv_reachable hn hb hr).i3 i hi u k h hv

/-- Every timeout vote of a correct validator reports its true latest commit vote (so Byzantine signers are the
only ones who can lie about high votes, and they weigh at most f < sub-quorum). -/
theorem timeout_reports_latest_vote {s : PState ι} (hn : 1 ≤ total w) (hb : wt w byz ≤ faulty w)
    (hr : Reach w byz first s) {i : ι} (hi : i ∉ byz) {t : ℕ} {r : Rep} (ht : s.touts i t r) :
    (r.hv = none → ∀ u, u ≤ t → s.votedAt i u = none) ∧
    (∀ x, r.hv = some x → x.view ≤ t ∧ s.votedAt i x.view = some (x.num, x.hash) ∧
      ∀ u, x.view < u → u ≤ t → s.votedAt i u = none) :=
  (inv_reachable hn hb hr).i4 i hi t r ht

/-- The two combinatorial facts behind the sub-quorum rule, for every committee:
the correct part of (commit quorum ∩ timeout quorum) reaches the sub-quorum, and everybody who could report a
conflicting block (Byzantine or outside the commit quorum) stays below it. -/
theorem commit_timeout_overlap (a b : Finset ι)
    (hb : wt w byz ≤ faulty w) (ha : quorum w ≤ wt w a) (hb' : quorum w ≤ wt w b) :
    subq w ≤ wt w ((a ∩ b) \ byz) :=
  inter_correct_ge_subq w byz a b hb ha hb'

theorem conflicting_reporters_below_subquorum (c others : Finset ι) (hn : 1 ≤ total w)
    (hb : wt w byz ≤ faulty w) (hc : quorum w ≤ wt w c) (ho : others ⊆ byz ∪ (univ \ c)) :
    wt w others < subq w :=
  others_lt_subq w byz c others hn hb hc ho

end EraVerif.Props.C02
