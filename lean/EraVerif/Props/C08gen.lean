import EraVerif.Model.Store
import EraVerif.Gen.StoreFns

/-!
# C08 / C10 — the store functions of `block_store.rs`, as regenerated from the source, are the model's

`Gen/StoreFns.lean` is produced by `tools/translate_store.py` from the current `block_store.rs` on every run
(statement by statement; `Except.error` = panic / `bail!`). The theorems below identify those regenerated programs
with the hand-written definitions of `Model/Store.lean` that all C08 theorems are about — under C08's standing
assumption that block numbers stay below `u64::MAX` (`bn n = n + 1`) — and show that `contains`, which runs on
peer-supplied states, is total whatever `BlockNumber::next` does (C10). A change of `try_push`, `update_persisted`,
`truncate_cache`, `contains`, `next`, `head` or `verify` that alters their behaviour makes one of these proofs fail.
-/

namespace EraVerif.Props.C08gen
open EraVerif.Model.Store
open EraVerif.Gen.StoreConst
namespace G
export EraVerif.Gen.StoreFns (BlockStoreState BlockStore whileFuel idx0 prevNum truncate_cache truncate_cache' try_push update_persisted block)
end G
open EraVerif.Gen.StoreFns (BlockStoreState BlockStore whileFuel idx0 prevNum truncate_cache truncate_cache' try_push update_persisted block)

/-- `BlockNumber::next` below `u64::MAX` -/
def bnOk (n : Nat) : Except String Nat := pure (n + 1)

def gR (r : Range) : BlockStoreState := { first := r.first, last := r.last }
def gS (s : Store) : BlockStore Block := { queued := gR s.queued, persisted := gR s.persisted, cache := s.cache }

@[simp] theorem gR_first (r : Range) : (gR r).first = r.first := rfl
@[simp] theorem gR_last (r : Range) : (gR r).last = r.last := rfl

/-- regenerated `BlockStoreState::next` = `Range.next` -/
theorem gen_next_eq (r : Range) : BlockStoreState.next bnOk (gR r) = .ok r.next := by
  unfold BlockStoreState.next Range.next
  cases h : r.last <;> simp [gR, h, bnOk, pure, Except.pure, bind, Except.bind]

theorem gen_next_eq' (f : Nat) (l : Option Nat) :
    BlockStoreState.next bnOk { first := f, last := l } = .ok (Range.next ⟨f, l⟩) := gen_next_eq ⟨f, l⟩

/-- regenerated `BlockStoreState::contains` = `Range.contains`, for ANY semantics of `BlockNumber::next` -/
theorem gen_contains_eq (bn : Nat → Except String Nat) (r : Range) (n : Nat) :
    BlockStoreState.contains bn (gR r) n = .ok (r.contains n) := by
  unfold BlockStoreState.contains Range.contains
  cases h : r.last <;> simp [gR, h, pure, Except.pure, bind, Except.bind]
  split <;> simp_all
  intro _; omega

/-- C10: `contains` is total on every (peer-supplied) state even if `BlockNumber::next` always panics -/
theorem gen_contains_total (s : BlockStoreState) (n : Nat) :
    ∃ b, BlockStoreState.contains (fun _ => throw "panic: checked_add(1).unwrap()") s n = .ok b := by
  have := gen_contains_eq (fun _ => throw "panic: checked_add(1).unwrap()") ⟨s.first, s.last⟩ n
  exact ⟨_, this⟩

/-- regenerated `BlockStoreState::verify` succeeds iff `Range.wf` -/
theorem gen_verify_ok_iff (bn : Nat → Except String Nat) (r : Range) :
    BlockStoreState.verify bn (gR r) = .ok () ↔ r.wf = true := by
  unfold BlockStoreState.verify Range.wf
  cases h : r.last with
  | none => simp [gR, h, pure, Except.pure, bind, Except.bind]
  | some l =>
    by_cases hl : r.first ≤ l
    · simp [gR, h, hl, pure, Except.pure, bind, Except.bind]
    · simp [gR, h, hl, pure, Except.pure, bind, Except.bind, throw, throwThe, MonadExceptOf.throw]

/-- regenerated `BlockStoreState::head` -/
theorem gen_head_eq (bn : Nat → Except String Nat) (r : Range) :
    BlockStoreState.head bn (gR r) = .ok (match r.last with | some l => l | none => r.first - 1) := by
  unfold BlockStoreState.head
  cases h : r.last <;> simp [gR, h, pure, Except.pure, prevNum]
  split <;> simp_all

/-- the regenerated `while` loop of `truncate_cache` = the model's structural recursion (fuel always suffices) -/
theorem gen_truncate_loop (q p : Range) (cache : List Block) (k : Nat) (hk : cache.length ≤ k) :
    whileFuel k
      (fun (self : BlockStore Block) => (do if (← (do pure (decide (self.cache.length > CACHE_CAPACITY)))) then (do pure (decide ((← BlockStoreState.next bnOk self.persisted) > (Block.num (← idx0 self.cache))))) else pure false))
      (fun self => (do
        let r ← ((do pure { self with cache := self.cache.tail }) >>= fun self => pure ((), self))
        pure r.2))
      ({ queued := gR q, persisted := gR p, cache := cache } : BlockStore Block)
    = .ok { queued := gR q, persisted := gR p, cache := truncateCache CACHE_CAPACITY p.next cache } := by
  induction k generalizing cache with
  | zero =>
    have : cache = [] := List.length_eq_zero_iff.mp (Nat.le_zero.mp hk)
    subst this
    simp [whileFuel, truncateCache, pure, Except.pure, bind, Except.bind]
  | succ k ih =>
    cases cache with
    | nil => simp [whileFuel, truncateCache, pure, Except.pure, bind, Except.bind]
    | cons b rest =>
      have hr : rest.length ≤ k := by simpa using hk
      simp only [whileFuel, truncateCache]
      by_cases h1 : (b :: rest).length > CACHE_CAPACITY
      · by_cases h2 : p.next > b.num
        · have := ih rest hr
          simp_all [gen_next_eq, idx0, pure, Except.pure, bind, Except.bind]
        · have h2' : ¬ b.num < p.next := by omega
          simp_all [gen_next_eq, idx0, pure, Except.pure, bind, Except.bind]
          have h2'' : ¬ b.num < p.next := by omega
          simp [h2'']
      · have h1' : ¬ CACHE_CAPACITY < rest.length + 1 := by simpa using h1
        simp_all [pure, Except.pure, bind, Except.bind]
        have h1'' : ¬ CACHE_CAPACITY < rest.length + 1 := by omega
        simp [h1'']

/-- regenerated `BlockStore::truncate_cache` = `truncateCache`; it never panics (`cache[0]` is guarded by the length test) -/
theorem gen_truncate_eq (s : Store) :
    truncate_cache Block.num bnOk (gS s)
      = .ok (gS { s with cache := truncateCache CACHE_CAPACITY s.persisted.next s.cache }) := by
  unfold truncate_cache truncate_cache'
  have := gen_truncate_loop s.queued s.persisted s.cache s.cache.length (Nat.le_refl _)
  simp only [gS] at *
  simp [pure, Except.pure, bind, Except.bind] at this ⊢
  simp [this]

/-- regenerated `BlockStore::try_push` = `Store.tryPush` -/
theorem gen_try_push_eq (s : Store) (b : Block) :
    try_push Block.num bnOk (gS s) b
      = .ok ((s.tryPush CACHE_CAPACITY b).2, gS (s.tryPush CACHE_CAPACITY b).1) := by
  unfold try_push Store.tryPush
  by_cases h : s.queued.next ≠ b.num
  · simp [gS, gen_next_eq, h, pure, Except.pure, bind, Except.bind]
  · have h' : s.queued.next = b.num := by simpa using h
    have := gen_truncate_eq { s with queued := { s.queued with last := some b.num }, cache := s.cache ++ [b] }
    simp only [gS, gR] at *
    have hn : Range.next ⟨s.queued.first, s.queued.last⟩ = b.num := h'
    simp [gen_next_eq', hn, this, pure, Except.pure, bind, Except.bind]

theorem gen_truncate_eq' (qf : Nat) (ql : Option Nat) (pf : Nat) (pl : Option Nat) (c : List Block) :
    truncate_cache Block.num bnOk { queued := ⟨qf, ql⟩, persisted := ⟨pf, pl⟩, cache := c }
      = .ok { queued := ⟨qf, ql⟩, persisted := ⟨pf, pl⟩, cache := truncateCache CACHE_CAPACITY (Range.next ⟨pf, pl⟩) c } :=
  gen_truncate_eq ⟨⟨qf, ql⟩, ⟨pf, pl⟩, c⟩

/-- regenerated `BlockStore::update_persisted` = `Store.updatePersisted` (`none` = the `bail!`) -/
theorem gen_update_persisted_eq (s : Store) (p : Range) :
    update_persisted Block.num bnOk (gS s) (gR p)
      = match s.updatePersisted CACHE_CAPACITY p with
        | some s' => .ok ((), gS s')
        | none => .error "bail: head block has been removed from storage, this is not supported" := by
  obtain ⟨⟨qf, ql⟩, ⟨pf, pl⟩, c⟩ := s
  obtain ⟨f, l⟩ := p
  unfold update_persisted Store.updatePersisted
  simp only [gS, gR]
  by_cases h0 : Range.next ⟨f, l⟩ < Range.next ⟨pf, pl⟩
  · simp [gen_next_eq', h0, pure, Except.pure, bind, Except.bind, throw, throwThe, MonadExceptOf.throw]
  · by_cases h1 : qf < f
    · by_cases h2 : Range.next ⟨f, ql⟩ < Range.next ⟨f, l⟩
      · simp [gen_next_eq', gen_truncate_eq', h0, h1, h2, pure, Except.pure, bind, Except.bind]
      · simp [gen_next_eq', gen_truncate_eq', h0, h1, h2, pure, Except.pure, bind, Except.bind]
    · by_cases h2 : Range.next ⟨qf, ql⟩ < Range.next ⟨f, l⟩
      · simp [gen_next_eq', gen_truncate_eq', h0, h1, h2, pure, Except.pure, bind, Except.bind]
      · simp [gen_next_eq', gen_truncate_eq', h0, h1, h2, pure, Except.pure, bind, Except.bind]

/-- regenerated `BlockStore::block` (the cache lookup behind `get_block` and the hand-off task) = `Store.block`:
the cache is indexed from its front block's number; nothing else (not `queued.first`, not `persisted`) enters -/
theorem gen_block_eq (bn : Nat → Except String Nat) (s : Store) (n : Nat) :
    block Block.num bn (gS s) n = .ok (s.block n) := by
  unfold block Store.block
  cases h : s.cache with
  | nil => simp [gS, h, pure, Except.pure]
  | cons f rest =>
    by_cases hn : n < f.num
    · have : ¬ f.num ≤ n := by omega
      simp [gS, h, hn, this, pure, Except.pure]
    · have : f.num ≤ n := by omega
      simp [gS, h, hn, this, pure, Except.pure]

/-- non-vacuity: the regenerated programs run (a 101-block cache whose front is durable loses exactly that block) -/
example : (try_push (β := Nat) id bnOk { queued := ⟨0, some 99⟩, persisted := ⟨0, some 0⟩, cache := List.range 100 } 100).toOption.map
    (fun r => (r.1, r.2.cache.length, r.2.cache.head?, r.2.queued.last)) = some (true, 100, some 1, some 100) := by decide

end EraVerif.Props.C08gen
