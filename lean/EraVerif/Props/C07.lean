import EraVerif.Gen.Thresholds

/-!
# C07 — Quorum thresholds satisfy the n ≥ 5f+1 intersection arithmetic

All theorems are stated over the definitions **regenerated from
`node/libs/roles/src/validator/messages/schedule.rs`** (`Gen/Thresholds.lean`): the wrapping `UInt64`
versions (what the release build executes) and the checked `Option Nat` versions (`none` = the
expression overflows, underflows or divides by zero). Quantifier: every total weight `n`, `1 ≤ n < 2^64`.
-/

namespace EraVerif.Props.C07
open EraVerif.Gen.Thresholds

/-- the mathematical values the property talks about -/
def f (n : Nat) : Nat := (n - 1) / 5
def Q (n : Nat) : Nat := n - f n
def S (n : Nat) : Nat := n - 3 * f n

/-! ## No computation overflows or underflows (checked evaluation never yields `none`) -/

theorem max_faulty_no_overflow (n : Nat) (h1 : 1 ≤ n) (_h2 : n < 2^64) :
    max_faulty_weight_chk n = some (f n) := by
  simp [max_faulty_weight_chk, cDiv, cSub, f, h1]

theorem quorum_no_overflow (n : Nat) (h1 : 1 ≤ n) (h2 : n < 2^64) :
    quorum_threshold_chk n = some (Q n) := by
  have hf : f n ≤ n := by unfold f; omega
  simp [quorum_threshold_chk, max_faulty_no_overflow n h1 h2, cSub, Q, hf]

theorem subquorum_no_overflow (n : Nat) (h1 : 1 ≤ n) (h2 : n < 2^64) :
    subquorum_threshold_chk n = some (S n) := by
  have hf : 3 * f n ≤ n := by unfold f; omega
  have hm : 3 * f n < 2^64 := by omega
  simp [subquorum_threshold_chk, max_faulty_no_overflow n h1 h2, cSub, cMul, S, hf, hm]

/-! ## The wrapping `UInt64` code computes the same numbers -/

theorem max_faulty_toNat (n : UInt64) (h1 : 1 ≤ n) :
    (max_faulty_weight n).toNat = f n.toNat := by
  have h1' : (1 : UInt64).toNat ≤ n.toNat := UInt64.le_iff_toNat_le.mp h1
  simp only [max_faulty_weight, f, UInt64.toNat_div, UInt64.toNat_sub_of_le _ _ h1]
  rfl

theorem f_le (n : UInt64) (h1 : 1 ≤ n) : max_faulty_weight n ≤ n := by
  rw [UInt64.le_iff_toNat_le, max_faulty_toNat n h1]; unfold f; omega

theorem quorum_toNat (n : UInt64) (h1 : 1 ≤ n) :
    (quorum_threshold n).toNat = Q n.toNat := by
  simp only [quorum_threshold, Q, UInt64.toNat_sub_of_le _ _ (f_le n h1), max_faulty_toNat n h1]

theorem three_f_toNat (n : UInt64) (h1 : 1 ≤ n) :
    (3 * max_faulty_weight n).toNat = 3 * f n.toNat := by
  have hlt := n.toNat_lt
  have h1' : 1 ≤ n.toNat := UInt64.le_iff_toNat_le.mp h1
  rw [UInt64.toNat_mul, max_faulty_toNat n h1]
  have : (3 : UInt64).toNat = 3 := rfl
  rw [this]
  apply Nat.mod_eq_of_lt
  unfold f; omega

theorem subquorum_toNat (n : UInt64) (h1 : 1 ≤ n) :
    (subquorum_threshold n).toNat = S n.toNat := by
  have h1' : 1 ≤ n.toNat := UInt64.le_iff_toNat_le.mp h1
  have hle : 3 * max_faulty_weight n ≤ n := by
    rw [UInt64.le_iff_toNat_le, three_f_toNat n h1]; unfold f; omega
  simp only [subquorum_threshold, S, UInt64.toNat_sub_of_le _ _ hle, three_f_toNat n h1]

/-! ## The intersection arithmetic, for every n ≥ 1 (stated on the values the code returns) -/

/-- `5f + 1 ≤ n` -/
theorem five_f_plus_one_le (n : UInt64) (h1 : 1 ≤ n) :
    5 * (max_faulty_weight n).toNat + 1 ≤ n.toNat := by
  have h1' : 1 ≤ n.toNat := UInt64.le_iff_toNat_le.mp h1
  rw [max_faulty_toNat n h1]; unfold f; omega

/-- any two quorums share more than `f` weight: `2(n−f) − n > f` -/
theorem two_quorums_share_gt_f (n : UInt64) (h1 : 1 ≤ n) :
    2 * (quorum_threshold n).toNat - n.toNat > (max_faulty_weight n).toNat := by
  have h1' : 1 ≤ n.toNat := UInt64.le_iff_toNat_le.mp h1
  rw [quorum_toNat n h1, max_faulty_toNat n h1]; unfold Q f; omega

/-- a commit quorum and a timeout quorum share at least the sub-quorum of *correct* weight:
    `2(n−f) − n − f = n − 3f` -/
theorem commit_timeout_share_subquorum_correct (n : UInt64) (h1 : 1 ≤ n) :
    2 * (quorum_threshold n).toNat - n.toNat - (max_faulty_weight n).toNat
      = (subquorum_threshold n).toNat := by
  have h1' : 1 ≤ n.toNat := UInt64.le_iff_toNat_le.mp h1
  rw [quorum_toNat n h1, max_faulty_toNat n h1, subquorum_toNat n h1]; unfold Q S f; omega

/-- the weight able to report a block conflicting with a committed one (≤ 2f: the faulty ones plus the
    correct ones outside the commit quorum) stays below the sub-quorum -/
theorem conflicting_reports_below_subquorum (n : UInt64) (h1 : 1 ≤ n) :
    2 * (max_faulty_weight n).toNat < (subquorum_threshold n).toNat := by
  have h1' : 1 ≤ n.toNat := UInt64.le_iff_toNat_le.mp h1
  rw [max_faulty_toNat n h1, subquorum_toNat n h1]; unfold S f; omega

theorem subquorum_pos (n : UInt64) (h1 : 1 ≤ n) : 0 < (subquorum_threshold n).toNat := by
  have h1' : 1 ≤ n.toNat := UInt64.le_iff_toNat_le.mp h1
  rw [subquorum_toNat n h1]; unfold S f; omega

theorem quorum_le_total (n : UInt64) (h1 : 1 ≤ n) : (quorum_threshold n).toNat ≤ n.toNat := by
  rw [quorum_toNat n h1]; unfold Q; omega

theorem quorum_gt_faulty (n : UInt64) (h1 : 1 ≤ n) :
    (max_faulty_weight n).toNat < (quorum_threshold n).toNat := by
  have h1' : 1 ≤ n.toNat := UInt64.le_iff_toNat_le.mp h1
  rw [quorum_toNat n h1, max_faulty_toNat n h1]; unfold Q f; omega

/-- weight outside a quorum is at most f: `n − (n−f) = f` -/
theorem outside_quorum_eq_f (n : UInt64) (h1 : 1 ≤ n) :
    n.toNat - (quorum_threshold n).toNat = (max_faulty_weight n).toNat := by
  have h1' : 1 ≤ n.toNat := UInt64.le_iff_toNat_le.mp h1
  rw [quorum_toNat n h1, max_faulty_toNat n h1]; unfold Q f; omega

/-! ## `Schedule::new`'s total-weight fold: `checked_add` rejects any sum ≥ 2^64, and a schedule that is
accepted has `1 ≤ total < 2^64` (every weight is checked `> 0`, the list is non-empty). -/

/-- the fold of `Schedule::new` over the weights: `none` = an error was returned -/
def totalWeightFold : List Nat → Option Nat
  | [] => some 0
  | w :: ws => (totalWeightFold ws).bind fun t => if w = 0 then none else if t + w < 2^64 then some (t + w) else none

theorem total_weight_checked (ws : List Nat) (t : Nat) (h : totalWeightFold ws = some t) :
    t = ws.sum ∧ t < 2^64 ∧ (ws ≠ [] → 1 ≤ t) := by
  induction ws generalizing t with
  | nil => simp [totalWeightFold] at h; subst h; simp
  | cons w ws ih =>
    simp only [totalWeightFold] at h
    cases hr : totalWeightFold ws with
    | none => simp [hr] at h
    | some t' =>
      simp only [hr, Option.bind_some] at h
      obtain ⟨e, _, _⟩ := ih t' hr
      split at h
      · cases h
      · split at h
        · cases h; simp only [List.sum_cons]; omega
        · cases h

/-! ## Non-vacuity: the hypotheses are met by concrete committees, including the residues mod 5 and the
top of the 64-bit range (these `example`s are tests of the statements, not the proof). -/
example : max_faulty_weight 30 = 5 ∧ quorum_threshold 30 = 25 ∧ subquorum_threshold 30 = 15 := by decide
example : max_faulty_weight 6 = 1 ∧ max_faulty_weight 5 = 0 ∧ max_faulty_weight 11 = 2 := by decide
example : quorum_threshold_chk (2^64 - 1) = some (2^64 - 1 - (2^64 - 2) / 5) := by decide
example : totalWeightFold [2^63, 2^63] = none ∧ totalWeightFold [3, 0] = none ∧ totalWeightFold [3, 4] = some 7 := by decide

end EraVerif.Props.C07
