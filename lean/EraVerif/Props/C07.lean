import EraVerif.Gen.Thresholds
import EraVerif.Model.ScheduleNew

/-!
# C07 — Quorum thresholds satisfy the n ≥ 5f+1 intersection arithmetic

All theorems are stated over the definitions **regenerated from
`node/libs/roles/src/validator/messages/schedule.rs`** (`Gen/Thresholds.lean`): the wrapping `UInt64`
versions (what the release build executes) and the checked `Option Nat` versions (`none` = the
expression overflows, underflows or divides by zero). Quantifier: every total weight `n`, `1 ≤ n < 2^64`.
-/

namespace EraVerif.Props.C07
open EraVerif.Gen.Thresholds

/-- the mathematical values the property talks about -/
def f (n : Nat) : Nat := (n - 1) / 5
def Q (n : Nat) : Nat := n - f n
def S (n : Nat) : Nat := n - 3 * f n

/-! ## No computation overflows or underflows (checked evaluation never yields `none`) -/

theorem max_faulty_no_overflow (n : Nat) (h1 : 1 ≤ n) (_h2 : n < 2^64) :
    max_faulty_weight_chk n = some (f n) := by
  simp [max_faulty_weight_chk, cDiv, cSub, f, h1]

theorem quorum_no_overflow (n : Nat) (h1 : 1 ≤ n) (h2 : n < 2^64) :
    quorum_threshold_chk n = some (Q n) := by
  have hf : f n ≤ n := by unfold f; omega
  simp [quorum_threshold_chk, max_faulty_no_overflow n h1 h2, cSub, Q, hf]

theorem subquorum_no_overflow (n : Nat) (h1 : 1 ≤ n) (h2 : n < 2^64) :
    subquorum_threshold_chk n = some (S n) := by
  have hf : 3 * f n ≤ n := by unfold f; omega
  have hm : 3 * f n < 2^64 := by omega
  simp [subquorum_threshold_chk, max_faulty_no_overflow n h1 h2, cSub, cMul, S, hf, hm]

/-! ## The wrapping `UInt64` code computes the same numbers -/

theorem max_faulty_toNat (n : UInt64) (h1 : 1 ≤ n) :
    (max_faulty_weight n).toNat = f n.toNat := by
  have h1' : (1 : UInt64).toNat ≤ n.toNat := UInt64.le_iff_toNat_le.mp h1
  simp only [max_faulty_weight, f, UInt64.toNat_div, UInt64.toNat_sub_of_le _ _ h1]
  rfl

theorem f_le (n : UInt64) (h1 : 1 ≤ n) : max_faulty_weight n ≤ n := by
  rw [UInt64.le_iff_toNat_le, max_faulty_toNat n h1]; unfold f; omega

theorem quorum_toNat (n : UInt64) (h1 : 1 ≤ n) :
    (quorum_threshold n).toNat = Q n.toNat := by
  simp only [quorum_threshold, Q, UInt64.toNat_sub_of_le _ _ (f_le n h1), max_faulty_toNat n h1]

theorem three_f_toNat (n : UInt64) (h1 : 1 ≤ n) :
    (3 * max_faulty_weight n).toNat = 3 * f n.toNat := by
  have hlt := n.toNat_lt
  have h1' : 1 ≤ n.toNat := UInt64.le_iff_toNat_le.mp h1
  rw [UInt64.toNat_mul, max_faulty_toNat n h1]
  have : (3 : UInt64).toNat = 3 := rfl
  rw [this]
  apply Nat.mod_eq_of_lt
  unfold f; omega

theorem subquorum_toNat (n : UInt64) (h1 : 1 ≤ n) :
    (subquorum_threshold n).toNat = S n.toNat := by
  have h1' : 1 ≤ n.toNat := UInt64.le_iff_toNat_le.mp h1
  have hle : 3 * max_faulty_weight n ≤ n := by
    rw [UInt64.le_iff_toNat_le, three_f_toNat n h1]; unfold f; omega
  simp only [subquorum_threshold, S, UInt64.toNat_sub_of_le _ _ hle, three_f_toNat n h1]

/-! ## The intersection arithmetic, for every n ≥ 1 (stated on the values the code returns) -/

/-- `5f + 1 ≤ n` -/
theorem five_f_plus_one_le (n : UInt64) (h1 : 1 ≤ n) :
    5 * (max_faulty_weight n).toNat + 1 ≤ n.toNat := by
  have h1' : 1 ≤ n.toNat := UInt64.le_iff_toNat_le.mp h1
  rw [max_faulty_toNat n h1]; unfold f; omega

/-- any two quorums share more than `f` weight: `2(n−f) − n > f` -/
theorem two_quorums_share_gt_f (n : UInt64) (h1 : 1 ≤ n) :
    2 * (quorum_threshold n).toNat - n.toNat > (max_faulty_weight n).toNat := by
  have h1' : 1 ≤ n.toNat := UInt64.le_iff_toNat_le.mp h1
  rw [quorum_toNat n h1, max_faulty_toNat n h1]; unfold Q f; omega

/-- a commit quorum and a timeout quorum share at least the sub-quorum of *correct* weight:
    `2(n−f) − n − f = n − 3f` -/
theorem commit_timeout_share_subquorum_correct (n : UInt64) (h1 : 1 ≤ n) :
    2 * (quorum_threshold n).toNat - n.toNat - (max_faulty_weight n).toNat
      = (subquorum_threshold n).toNat := by
  have h1' : 1 ≤ n.toNat := UInt64.le_iff_toNat_le.mp h1
  rw [quorum_toNat n h1, max_faulty_toNat n h1, subquorum_toNat n h1]; unfold Q S f; omega

/-- the weight able to report a block conflicting with a committed one (≤ 2f: the faulty ones plus the
    correct ones outside the commit quorum) stays below the sub-quorum -/
theorem conflicting_reports_below_subquorum (n : UInt64) (h1 : 1 ≤ n) :
    2 * (max_faulty_weight n).toNat < (subquorum_threshold n).toNat := by
  have h1' : 1 ≤ n.toNat := UInt64.le_iff_toNat_le.mp h1
  rw [max_faulty_toNat n h1, subquorum_toNat n h1]; unfold S f; omega

theorem subquorum_pos (n : UInt64) (h1 : 1 ≤ n) : 0 < (subquorum_threshold n).toNat := by
  have h1' : 1 ≤ n.toNat := UInt64.le_iff_toNat_le.mp h1
  rw [subquorum_toNat n h1]; unfold S f; omega

theorem quorum_le_total (n : UInt64) (h1 : 1 ≤ n) : (quorum_threshold n).toNat ≤ n.toNat := by
  rw [quorum_toNat n h1]; unfold Q; omega

theorem quorum_gt_faulty (n : UInt64) (h1 : 1 ≤ n) :
    (max_faulty_weight n).toNat < (quorum_threshold n).toNat := by
  have h1' : 1 ≤ n.toNat := UInt64.le_iff_toNat_le.mp h1
  rw [quorum_toNat n h1, max_faulty_toNat n h1]; unfold Q f; omega

/-- weight outside a quorum is at most f: `n − (n−f) = f` -/
theorem outside_quorum_eq_f (n : UInt64) (h1 : 1 ≤ n) :
    n.toNat - (quorum_threshold n).toNat = (max_faulty_weight n).toNat := by
  have h1' : 1 ≤ n.toNat := UInt64.le_iff_toNat_le.mp h1
  rw [quorum_toNat n h1, max_faulty_toNat n h1]; unfold Q f; omega

/-! ## `Schedule::new`'s total-weight fold: `checked_add` rejects any sum ≥ 2^64, and a schedule that is
accepted has `1 ≤ total < 2^64` (every weight is checked `> 0`, the list is non-empty). -/

/-- the fold of `Schedule::new` over the weights: `none` = an error was returned -/
def totalWeightFold : List Nat → Option Nat
  | [] => some 0
  | w :: ws => (totalWeightFold ws).bind fun t => if w = 0 then none else if t + w < 2^64 then some (t + w) else none

theorem total_weight_checked (ws : List Nat) (t : Nat) (h : totalWeightFold ws = some t) :
    t = ws.sum ∧ t < 2^64 ∧ (ws ≠ [] → 1 ≤ t) := by
  induction ws generalizing t with
  | nil => simp [totalWeightFold] at h; subst h; simp
  | cons w ws ih =>
    simp only [totalWeightFold] at h
    cases hr : totalWeightFold ws with
    | none => simp [hr] at h
    | some t' =>
      simp only [hr, Option.bind_some] at h
      obtain ⟨e, _, _⟩ := ih t' hr
      split at h
      · cases h
      · split at h
        · cases h; simp only [List.sum_cons]; omega
        · cases h


/-! ## `Schedule::new` (transcribed in `Model/ScheduleNew.lean`, compared with the real constructor by the `sched`
operations of the correspondence run): a committee is accepted **iff** it is non-empty, its keys are distinct, every
weight is positive, some validator is a leader and the *true* (unbounded) sum of the weights fits in 64 bits; the
recorded `total_weight` and `leader_weight` are then the true sums — nothing wraps — so the threshold theorems above
apply to the real committee weight. -/
section ScheduleNew
open EraVerif.Model.ScheduleNew

def wsum (vs : List VInfo) : Nat := (vs.map (·.weight)).sum
def lsum (vs : List VInfo) : Nat := ((vs.filter (·.leader)).map (·.weight)).sum

theorem lsum_le_wsum (vs : List VInfo) : lsum vs ≤ wsum vs := by
  induction vs with
  | nil => simp [lsum, wsum]
  | cons v vs ih =>
    simp only [lsum, wsum, List.filter_cons, List.map_cons, List.sum_cons] at *
    split
    · simp only [List.map_cons, List.sum_cons]; omega
    · omega

theorem mem_le_sum (l : List Nat) (x : Nat) (h : x ∈ l) : x ≤ l.sum := by
  induction l with
  | nil => cases h
  | cons y ys ih =>
    simp only [List.sum_cons]
    rcases List.mem_cons.mp h with rfl | h
    · omega
    · have := ih h; omega

theorem newLoop_some (vs : List VInfo) (a a' : Acc) (hl : a.leaderW ≤ a.total) (ht : a.total < 2^64)
    (h : newLoop vs a = some a') :
    a'.total = a.total + wsum vs ∧ a'.leaderW = a.leaderW + lsum vs ∧ a'.total < 2^64 ∧
    a'.keys = (vs.map (·.key)).reverse ++ a.keys ∧
    (∀ v ∈ vs, 0 < v.weight) ∧ (vs.map (·.key)).Nodup ∧ (∀ v ∈ vs, v.key ∉ a.keys) := by
  induction vs generalizing a with
  | nil => simp [newLoop] at h; subst h; simp [wsum, lsum, ht]
  | cons v vs ih =>
    simp only [newLoop] at h
    split at h; · cases h
    split at h; · cases h
    split at h; · cases h
    rename_i hk hw hs
    have hlw : (if v.leader then (a.leaderW + v.weight) % 2^64 else a.leaderW)
        = a.leaderW + (if v.leader then v.weight else 0) := by
      split
      · apply Nat.mod_eq_of_lt; omega
      · simp
    obtain ⟨e1, e2, e3, e4, e5, e6, e7⟩ := ih _ (by simp only [hlw]; split <;> omega) (by simp only; omega) h
    simp only [hlw] at e2
    have hk' : v.key ∉ a.keys := by simpa using hk
    refine ⟨?_, ?_, e3, ?_, ?_, ?_, ?_⟩
    · simp only [wsum, List.map_cons, List.sum_cons] at *; omega
    · simp only [lsum, List.filter_cons] at *
      split <;> simp_all <;> omega
    · simp [e4]
    · intro u hu; rcases List.mem_cons.mp hu with rfl | hu
      · omega
      · exact e5 u hu
    · simp only [List.map_cons, List.nodup_cons]
      refine ⟨?_, e6⟩
      intro hm
      obtain ⟨u, hu, huk⟩ := List.mem_map.mp hm
      have := e7 u hu
      simp [huk] at this
    · intro u hu; rcases List.mem_cons.mp hu with rfl | hu
      · exact hk'
      · have := e7 u hu
        simp only [List.mem_cons, not_or] at this
        exact this.2

theorem newLoop_isSome (vs : List VInfo) (a : Acc)
    (hw : ∀ v ∈ vs, 0 < v.weight) (hn : (vs.map (·.key)).Nodup) (hd : ∀ v ∈ vs, v.key ∉ a.keys)
    (hs : a.total + wsum vs < 2^64) : (newLoop vs a).isSome := by
  induction vs generalizing a with
  | nil => simp [newLoop]
  | cons v vs ih =>
    have hv := hw v (List.mem_cons_self ..)
    have hkv := hd v (List.mem_cons_self ..)
    simp only [wsum, List.map_cons, List.sum_cons] at hs
    simp only [List.map_cons, List.nodup_cons] at hn
    simp only [newLoop]
    rw [if_neg (by simpa using hkv), if_neg (by omega), if_neg (by
      have : 0 ≤ (vs.map (·.weight)).sum := Nat.zero_le _
      omega)]
    apply ih
    · intro u hu; exact hw u (List.mem_cons_of_mem _ hu)
    · exact hn.2
    · intro u hu
      simp only [List.mem_cons, not_or]
      refine ⟨?_, hd u (List.mem_cons_of_mem _ hu)⟩
      intro e
      exact hn.1 (List.mem_map.mpr ⟨u, hu, e⟩)
    · simp only [wsum]; omega

/-- what an accepted committee records: the true sums, no wrap-around, total in `[1, 2^64)` -/
theorem schedule_new_total (vs : List VInfo) (t l : Nat) (h : scheduleNew vs = some (t, l)) :
    t = wsum vs ∧ l = lsum vs ∧ 1 ≤ l ∧ l ≤ t ∧ t < 2^64 := by
  unfold scheduleNew at h
  split at h; · cases h
  rename_i a ha
  split at h; · cases h
  split at h; · cases h
  rename_i _ hany
  cases h
  obtain ⟨e1, e2, e3, _, e5, _, _⟩ := newLoop_some vs {} a (by simp) (by simp) ha
  simp only [Nat.zero_add] at e1 e2
  have hle := lsum_le_wsum vs
  have hpos : 1 ≤ lsum vs := by
    simp only [Bool.not_eq_true, Bool.not_eq_false'] at hany
    have hany' : vs.any (·.leader) = true := by simpa using hany
    obtain ⟨u, hu, hul⟩ := List.any_eq_true.mp hany'
    have hmem : u ∈ vs.filter (·.leader) := List.mem_filter.mpr ⟨hu, hul⟩
    have : u.weight ≤ ((vs.filter (·.leader)).map (·.weight)).sum :=
      mem_le_sum _ _ (List.mem_map.mpr ⟨u, hmem, rfl⟩)
    have := e5 u hu
    simp only [lsum]; omega
  refine ⟨e1, e2, by omega, ?_, ?_⟩ <;> omega

/-- exact acceptance condition of the constructor -/
theorem schedule_new_ok_iff (vs : List VInfo) :
    (scheduleNew vs).isSome ↔
      (vs ≠ [] ∧ (vs.map (·.key)).Nodup ∧ (∀ v ∈ vs, 0 < v.weight) ∧ (∃ v ∈ vs, v.leader = true) ∧ wsum vs < 2^64) := by
  constructor
  · intro h
    obtain ⟨⟨t, l⟩, hs⟩ := Option.isSome_iff_exists.mp h
    have hs' := hs
    unfold scheduleNew at hs
    split at hs; · cases hs
    rename_i a ha
    split at hs; · cases hs
    split at hs; · cases hs
    rename_i hne hany
    obtain ⟨e1, _, e3, e4, e5, e6, _⟩ := newLoop_some vs {} a (by simp) (by simp) ha
    refine ⟨?_, e6, e5, ?_, ?_⟩
    · rintro rfl; simp [newLoop] at ha; subst ha; simp at hne
    · have hany' : vs.any (·.leader) = true := by simpa using hany
      obtain ⟨u, hu, hul⟩ := List.any_eq_true.mp hany'
      exact ⟨u, hu, hul⟩
    · simp only [Nat.zero_add] at e1; omega
  · rintro ⟨hne, hn, hw, ⟨u, hu, hul⟩, hs⟩
    have hsome := newLoop_isSome vs {} hw hn (by simp) (by simpa using hs)
    obtain ⟨a, ha⟩ := Option.isSome_iff_exists.mp hsome
    obtain ⟨_, _, _, e4, _, _, _⟩ := newLoop_some vs {} a (by simp) (by simp) ha
    unfold scheduleNew
    simp only [ha]
    have hk : a.keys.isEmpty = false := by
      cases vs with
      | nil => exact absurd rfl hne
      | cons v vs => simp [e4]
    have hany : vs.any (·.leader) = true := List.any_eq_true.mpr ⟨u, hu, hul⟩
    simp [hk, hany]

/-- a committee whose true weight does not fit in 64 bits is refused, whatever the split between leaders and
non-leaders and whatever the order of the validators -/
theorem schedule_new_rejects_overflow (vs : List VInfo) (h : 2^64 ≤ wsum vs) : scheduleNew vs = none := by
  cases hs : scheduleNew vs with
  | none => rfl
  | some p =>
    have := (schedule_new_ok_iff vs).mp (by simp [hs])
    omega

/-- the thresholds of an accepted committee are those of its true total weight `n`, with `1 ≤ n < 2^64`: the
intersection arithmetic above applies to it -/
theorem schedule_new_thresholds (vs : List VInfo) (t l : Nat) (h : scheduleNew vs = some (t, l)) :
    max_faulty_weight_chk t = some (f (wsum vs)) ∧ quorum_threshold_chk t = some (Q (wsum vs)) ∧
    subquorum_threshold_chk t = some (S (wsum vs)) := by
  obtain ⟨e, _, h1, h2, h3⟩ := schedule_new_total vs t l h
  have h1' : 1 ≤ t := by omega
  subst e
  exact ⟨max_faulty_no_overflow _ h1' h3, quorum_no_overflow _ h1' h3, subquorum_no_overflow _ h1' h3⟩

example : scheduleNew [⟨0, 2^62, true⟩, ⟨1, 2^62, true⟩, ⟨2, 2^62, false⟩, ⟨3, 2^62, false⟩] = none := by decide
example : scheduleNew [⟨0, 2^62, true⟩, ⟨1, 2^62, false⟩, ⟨2, 2^62 - 1, false⟩, ⟨3, 2^62, true⟩]
    = some (2^64 - 1, 2^63) := by decide
example : scheduleNew [⟨0, 3, false⟩] = none ∧ scheduleNew [⟨0, 3, true⟩, ⟨0, 4, true⟩] = none := by decide
end ScheduleNew

/-! ## Non-vacuity: the hypotheses are met by concrete committees, including the residues mod 5 and the
top of the 64-bit range (these `example`s are tests of the statements, not the proof). -/
example : max_faulty_weight 30 = 5 ∧ quorum_threshold 30 = 25 ∧ subquorum_threshold 30 = 15 := by decide
example : max_faulty_weight 6 = 1 ∧ max_faulty_weight 5 = 0 ∧ max_faulty_weight 11 = 2 := by decide
example : quorum_threshold_chk (2^64 - 1) = some (2^64 - 1 - (2^64 - 2) / 5) := by decide
example : totalWeightFold [2^63, 2^63] = none ∧ totalWeightFold [3, 0] = none ∧ totalWeightFold [3, 4] = some 7 := by decide

end EraVerif.Props.C07
