import EraVerif.Proofs.Noise

/-!
# C13 — The encrypted transport delivers exactly the bytes written, or fails

Statement (properties.jsonl): over an encrypted session the reader obtains exactly the byte sequence the writer
wrote and flushed — in order, with no loss, duplication or insertion — however the writes are sized and however the
underlying transport fragments, delays or back-pressures them. Any modification, truncation, reordering or replay
of ciphertext makes the reader fail or reach end-of-stream after a correct prefix — never altered, reordered or
duplicated plaintext — and no frame on the wire exceeds the 64 KiB protocol limit.

All theorems are about the executable model `Model/Noise.lean` (a transcription of `noise/bytes.rs` and of the
`poll_*` functions of `noise/stream.rs`, compared with the real code on every run) and about the constants
regenerated from `stream.rs` (`Gen/NoiseConst.lean`). Quantifiers: every sequence of calls, every size, every
behaviour of the underlying transport (a *script* per call: accept/deliver `k` bytes, `Pending`, error, EOF), every
byte stream presented to the reader and every assignment `cv` of byte values to ciphertext bytes. No bounds.

Assumption (ideal AEAD, DESIGN §3): `dec k c = some p ↔ c = enc k p` (`dec_eq_some_iff`) and an attacker can put on
the wire only bytes of its own choosing and ciphertext/tag bytes that the writer produced (`FromWriter`).
-/

namespace EraVerif.Props.C13
open EraVerif.Model.Noise EraVerif.Proofs.Noise EraVerif.Gen.NoiseConst

/-! ## Frame sizes (constants regenerated from `stream.rs`) -/

/-- The size constants of `stream.rs` are consistent with each other, with the Noise limits that `snow` enforces
and with the 16-bit length field: a full payload buffer plus the authentication tag is exactly one maximal Noise
message (65535 bytes — the 64 KiB protocol limit), which fits the `u16` length field; a frame (length field +
message) is at most `MAX_FRAME_LEN = 65537` bytes. -/
theorem frame_size_limits :
    MAX_TRANSPORT_MSG_LEN ≤ 65535 ∧ MAX_TRANSPORT_MSG_LEN < 2 ^ 16 ∧
    MAX_TRANSPORT_MSG_LEN = SNOW_MAXMSGLEN ∧ AUTHDATA_LEN = SNOW_TAGLEN ∧
    MAX_PAYLOAD_LEN + AUTHDATA_LEN = MAX_TRANSPORT_MSG_LEN ∧
    LENGTH_FIELD_LEN = 2 ∧ MAX_FRAME_LEN = LENGTH_FIELD_LEN + MAX_TRANSPORT_MSG_LEN ∧ 0 < MAX_PAYLOAD_LEN := by
  decide

/-- Shape of one frame for a payload chunk of admissible size: two length bytes that decode (for any reader) to
`|chunk| + AUTHDATA_LEN ≤ MAX_TRANSPORT_MSG_LEN`, followed by the Noise message of exactly that many bytes; the
whole frame is at most `MAX_FRAME_LEN` bytes. -/
theorem frame_shape (cv : Nat → Nat → Nat) (k : Nat) (c : List Nat) (hc : c.length ≤ MAX_PAYLOAD_LEN) :
    ∃ a b, frame k c = a :: b :: enc k c ∧
      le16 cv a b = c.length + AUTHDATA_LEN ∧ (enc k c).length = c.length + AUTHDATA_LEN ∧
      c.length + AUTHDATA_LEN ≤ MAX_TRANSPORT_MSG_LEN ∧ (frame k c).length ≤ MAX_FRAME_LEN := by
  have hn : c.length + SNOW_TAGLEN < 65536 := by
    simp [MAX_PAYLOAD_LEN, SNOW_TAGLEN] at hc ⊢; omega
  refine ⟨_, _, rfl, ?_, ?_, ?_, ?_⟩
  · exact le16_lenBytes cv _ hn _ _ rfl
  · exact enc_length k c
  · simp [MAX_PAYLOAD_LEN, AUTHDATA_LEN, MAX_TRANSPORT_MSG_LEN] at hc ⊢; omega
  · rw [frame_length]; simp [MAX_PAYLOAD_LEN, SNOW_TAGLEN, MAX_FRAME_LEN] at hc ⊢; omega

/-! ## The write half -/

/-- **writer_frames.** After *any* sequence of `poll_write` / `poll_flush` / `poll_shutdown` calls (any buffers,
any transport behaviour) on a fresh stream: no call panics, and there are payload chunks `cs` such that
* the bytes given to the transport so far, followed by the unsent rest of the frame buffer, are exactly the frames
  `len ‖ enc k chunk_k` for `k = 0, 1, …` in order — so the wire carries whole frames in sequence and a prefix of one;
* the chunks, followed by the buffered payload, are exactly the plaintext accepted so far (a partition: nothing
  lost, duplicated or reordered before encryption);
* every chunk is non-empty and at most `MAX_PAYLOAD_LEN` bytes, hence (`frame_shape`) every frame is at most
  `MAX_FRAME_LEN` bytes and announces a Noise message of at most `MAX_TRANSPORT_MSG_LEN` bytes;
* the sending nonce equals the number of frames sealed. -/
theorem writer_frames (ops : List WOp) :
    ∃ s cs, wrun WSt.init ops = .ok s ∧
      s.wire ++ s.w.frame.slice = framesFrom 0 cs ∧
      cs.flatten ++ s.w.payload.slice = s.acc ∧
      (∀ c ∈ cs, 0 < c.length ∧ c.length ≤ MAX_PAYLOAD_LEN) ∧
      s.w.nonce = cs.length := by
  obtain ⟨s, hs, _, cs, hr, _⟩ := wrun_spec ops WSt.init WInv_init [] WRel_init
  exact ⟨s, cs, hs, hr.wire, hr.acc, hr.chunks, hr.nonce⟩

example : ∃ s, wrun WSt.init [.write [7, 8, 9] [], .flush [.accept 5, .pending] .ok, .write [10] []] = .ok s ∧
    s.wire.length = 5 ∧ s.acc = [7, 8, 9, 10] ∧ s.w.nonce = 1 := ⟨_, rfl, rfl, rfl, rfl⟩

/-- **No oversized transport write.** In every reachable state, whatever the call and the transport do, every slice
handed to `inner.poll_write` is non-empty and at most `MAX_FRAME_LEN` bytes (it is the unsent part of one frame). -/
theorem transport_writes_bounded (s : WSt) (hs : WReach s) (script : List WrEv) :
    (∀ buf, ∃ o, pollWrite buf script s.w = .ok o ∧ ∀ e ∈ o.trace, 0 < e.1 ∧ e.1 ≤ MAX_FRAME_LEN) ∧
    (∀ fl, ∃ o, pollFlush script fl s.w = .ok o ∧ ∀ e ∈ o.o.trace, 0 < e.1 ∧ e.1 ≤ MAX_FRAME_LEN) ∧
    (∀ sd, ∃ o, pollShutdown script sd s.w = .ok o ∧ ∀ e ∈ o.o.trace, 0 < e.1 ∧ e.1 ≤ MAX_FRAME_LEN) := by
  obtain ⟨hi, cs, hr⟩ := wreach_inv hs
  refine ⟨?_, ?_, ?_⟩
  · intro buf
    obtain ⟨o, ho, _, _, _, _, ht⟩ := pollWrite_spec buf script s.w hi cs s.acc s.wire hr
    exact ⟨o, ho, ht⟩
  · intro fl
    obtain ⟨o, ho, _, _, _, _, ht⟩ := pollFlush_spec script fl s.w hi cs s.acc s.wire hr
    exact ⟨o, ho, ht⟩
  · intro sd
    obtain ⟨o, ho, _, _, _, _, ht⟩ := pollFlush_spec script sd s.w hi cs s.acc s.wire hr
    exact ⟨o, ho, ht⟩

example : WReach WSt.init := ⟨[], rfl⟩

/-- **write_progress.** In every reachable state, `poll_write` on a non-empty buffer never panics and never reports
`Ok(0)`: it accepts `0 < n ≤ |buf|` bytes — exactly the first `n` bytes of `buf` are appended to the accepted
plaintext — or it returns `Pending` / an error of the transport / `WriteZero`, accepting nothing. On an empty buffer
it returns `Ok(0)`. With a transport that keeps accepting it never returns `Pending`. -/
theorem write_progress (s : WSt) (hs : WReach s) (buf : List Nat) (script : List WrEv) :
    ∃ o s', pollWrite buf script s.w = .ok o ∧ wstep s (.write buf script) = .ok s' ∧
      (∀ n, o.res = .ready n →
        ((buf = [] ∧ n = 0) ∨ (buf ≠ [] ∧ 0 < n ∧ n ≤ buf.length)) ∧ s'.acc = s.acc ++ buf.take n) ∧
      ((∀ n, o.res ≠ .ready n) → s'.acc = s.acc) ∧
      (∀ e, o.res = .err e → e = .transport ∨ e = .writeZero) ∧
      (WGenerous script → MAX_FRAME_LEN ≤ script.length → ∃ n, o.res = .ready n) := by
  obtain ⟨hi, cs, hr⟩ := wreach_inv hs
  obtain ⟨o, ho, _, _, hn, herr, _⟩ := pollWrite_spec buf script s.w hi cs s.acc s.wire hr
  refine ⟨o, _, ho, by simp only [wstep, ho]; rfl, ?_, ?_, herr, ?_⟩
  · intro n hres
    exact ⟨hn n hres, by simp [hres]⟩
  · intro hne
    cases hres : o.res with
    | ready n => exact absurd hres (hne n)
    | pending => simp
    | err e => simp
  · intro hg hl
    obtain ⟨o', n, ho', hres⟩ := pollWrite_generous buf script s.w hi cs s.acc s.wire hr hg hl
    rw [ho] at ho'; injection ho' with ho'; subst ho'
    exact ⟨n, hres⟩

/-- **flush_pushes_everything.** In every reachable state, if `poll_flush` (or `poll_shutdown`) returns `Ready(Ok)`
then both write buffers are empty, the transport's own flush/shutdown was called and succeeded, and *all* plaintext
accepted so far is on the wire as complete frames: `wire = frames(cs)` with `cs.flatten = accepted`. A transport
that keeps accepting (and whose flush succeeds) makes it return `Ready(Ok)` in one call. -/
theorem flush_pushes_everything (s : WSt) (hs : WReach s) (script : List WrEv) (fl : FlEv) :
    ∃ o s', pollFlush script fl s.w = .ok o ∧ wstep s (.flush script fl) = .ok s' ∧
      wstep s (.shutdown script fl) = .ok s' ∧
      (o.o.res = .ready () →
        o.innerCalled = true ∧ fl = .ok ∧ s'.w.payload.len = 0 ∧ s'.w.frame.len = 0 ∧
        ∃ cs, s'.wire = framesFrom 0 cs ∧ cs.flatten = s'.acc ∧ s'.acc = s.acc ∧
          ∀ c ∈ cs, 0 < c.length ∧ c.length ≤ MAX_PAYLOAD_LEN) ∧
      (WGenerous script → 2 * MAX_FRAME_LEN ≤ script.length → fl = .ok → o.o.res = .ready ()) := by
  obtain ⟨hi, cs, hr⟩ := wreach_inv hs
  obtain ⟨o, ho, hio, ⟨cs', hrel, _, hdone⟩, hinner, _, _⟩ := pollFlush_spec script fl s.w hi cs s.acc s.wire hr
  refine ⟨o, _, ho, by simp only [wstep, ho]; rfl, by simp only [wstep, pollShutdown, ho], ?_, ?_⟩
  · intro hres
    obtain ⟨hw, ha⟩ := hdone hres
    have hwire := hrel.wire
    have hacc := hrel.acc
    rw [hw] at hwire
    rw [ha] at hacc
    have hf : o.o.w.frame.slice = [] := by simpa using hwire
    have hp : o.o.w.payload.slice = [] := by simpa using hacc
    have hf0 : o.o.w.frame.len = 0 := by
      have := congrArg List.length hf
      simp [Buffer.slice] at this; unfold Buffer.len Buffer.stop; omega
    have hp0 : o.o.w.payload.len = 0 := by
      have := congrArg List.length hp
      simp [Buffer.slice] at this; unfold Buffer.len Buffer.stop; omega
    exact ⟨(hinner hres).1, (hinner hres).2, hp0, hf0, cs', hw, ha, rfl, hrel.chunks⟩
  · intro hg hl hfl
    subst hfl
    obtain ⟨o', ho', hres⟩ := pollFlush_generous script s.w hi cs s.acc s.wire hr hg hl
    rw [ho] at ho'; injection ho' with ho'; subst ho'
    exact hres

/-! ## The read half -/

/-- **reader_any_stream.** For *every* byte stream `s` the transport may deliver (authentic, damaged, made up), every
sequence of `poll_read` calls with any buffer sizes, and every fragmentation / `Pending` / error / EOF behaviour of
the transport: no call panics, and the plaintext handed out so far (`d`), followed by what the final state still
owes (`todo`), is exactly the concatenation of the payloads of the longest prefix of frames of `s` that authenticate
in sequence under nonces 0, 1, 2, … (`parse`). In particular `d` is a prefix of that concatenation: the outcome
depends on the stream only, never on how it is fragmented, and nothing is ever handed out twice or out of order. -/
theorem reader_any_stream (cv : Nat → Nat → Nat) (s : List WByte) (ops : List (Nat × List RdEv)) :
    ∃ d r' w', runReads cv ops Reader.init s = .ok (d, r', w') ∧
      d ++ todo cv r' w' = (parse cv 0 s).1.flatten ∧ d <+: (parse cv 0 s).1.flatten := by
  obtain ⟨d, r', w', hrun, _, htd, _⟩ := runReads_spec cv ops Reader.init s RInv_init
  rw [todo_init] at htd
  exact ⟨d, r', w', hrun, htd.symm, ⟨_, htd.symm⟩⟩

example : ∃ d r' w', runReads (fun _ _ => 0) [(2, [.give 3, .pending]), (2, [.give 100]), (5, [])]
    Reader.init (frame 0 [7, 8, 9]) = .ok (d, r', w') ∧ d = [7, 8, 9] := ⟨_, _, _, rfl, rfl⟩

/-- **One read, exactly.** In every reachable state of the read half, a `poll_read` during which the transport keeps
delivering (no `Pending`, no error, no early EOF) returns: buffered plaintext first (`min(m, buffered)` bytes);
otherwise the first `m` bytes of the payload of the next frame if it authenticates under the expected nonce;
`InvalidData` if the next complete frame does not authenticate (and then nothing more is ever delivered:
`pollRead_spec`); end of stream (no bytes) if the stream ends before the next frame is complete. -/
theorem reader_step_exact (cv : Nat → Nat → Nat) (s0 : List WByte) (r : Reader) (wire : List WByte)
    (hr : RReach cv s0 r wire) (m : Nat) (script : List RdEv) (hg : Generous script)
    (hl : wire.length < script.length) :
    ∃ o, pollRead cv m script r wire = .ok o ∧ o.res = expected cv m r wire :=
  pollRead_generous cv m script r wire (rreach_inv hr) hg hl

example : RReach (fun _ _ => 0) [] Reader.init [] := ⟨[], [], rfl⟩
example : Generous [.give 1, .give 7] := by
  intro e he; simp at he; rcases he with rfl | rfl
  · exact ⟨1, by decide, rfl⟩
  · exact ⟨7, by decide, rfl⟩

/-- **A failed read is final and hides nothing.** In every reachable state, if `poll_read` fails with `InvalidData`
then nothing more was owed (`todo = []`): the next frame of the stream does not authenticate; the status is sticky —
the state still classifies the stream as `bad`, so (by `reader_step_exact`) every later read fails the same way. -/
theorem read_failure_final (cv : Nat → Nat → Nat) (s0 : List WByte) (r : Reader) (wire : List WByte)
    (hr : RReach cv s0 r wire) (m : Nat) (script : List RdEv) :
    ∃ o, pollRead cv m script r wire = .ok o ∧
      (o.res = .err .invalidData →
        todo cv r wire = [] ∧ rstatus cv r wire = .bad ∧ rstatus cv o.r o.wire = .bad ∧ todo cv o.r o.wire = []) ∧
      (∀ e ∈ o.trace, e.1 ≤ MAX_FRAME_LEN) := by
  obtain ⟨o, ho, _, htd, hst, _, hbad, ht, _, _⟩ := pollRead_spec cv m script r wire (rreach_inv hr)
  refine ⟨o, ho, ?_, ht⟩
  intro hres
  obtain ⟨h1, h2⟩ := hbad hres
  refine ⟨h2, h1, by rw [hst, h1], ?_⟩
  rw [h2, hres] at htd
  simpa [delivered] using htd.symm

/-! ## Writer and reader together; tampering -/

/-- **The reader inverts the writer.** The frames of chunks of admissible size parse back to exactly those chunks, and
the stream ends cleanly at a frame boundary. -/
theorem parse_frames (cv : Nat → Nat → Nat) (cs : List (List Nat)) (h : ∀ c ∈ cs, c.length ≤ MAX_PAYLOAD_LEN) :
    parse cv 0 (framesFrom 0 cs) = (cs, .clean) := by
  have := parse_framesFrom cv cs 0 [] h
  simpa [parse_nil] using this

/-- **tamper_prefix_only.** Let `cs` be the chunks the writer has sealed. For *any* byte stream `s` built from bytes of
the attacker's choosing and from bytes of the authentic wire `framesFrom 0 cs` — in any arrangement: modified,
truncated, reordered, replayed, with insertions — and any reads with any fragmentation: no panic, and the plaintext
delivered is a prefix of the authentic plaintext `cs.flatten`. Never altered, reordered or duplicated plaintext;
what follows the prefix is an error, end of stream or `Pending` (`reader_step_exact`, `read_failure_final`). -/
theorem tamper_prefix_only (cv : Nat → Nat → Nat) (cs : List (List Nat)) (s : List WByte)
    (hs : ∀ b ∈ s, (∃ v, b = .raw v) ∨ b ∈ framesFrom 0 cs) (ops : List (Nat × List RdEv)) :
    ∃ d r' w', runReads cv ops Reader.init s = .ok (d, r', w') ∧ d <+: cs.flatten := by
  obtain ⟨d, r', w', hrun, _, hpre⟩ := reader_any_stream cv s ops
  refine ⟨d, r', w', hrun, hpre.trans ?_⟩
  have hfw : ∀ b ∈ s, FromWriter cs b := by
    intro b hb
    rcases hs b hb with ⟨v, rfl⟩ | h
    · trivial
    · exact fromWriter_of_mem_framesFrom cs b cs 0 (fun i => by simp) h
  have := parse_fromWriter cv cs s.length s 0 (Nat.le_refl _) hfw
  simpa using flatten_prefix this

example : ∀ b ∈ ([WByte.raw 19, .raw 0] ++ (enc 0 [7, 8, 9]).reverse),
    (∃ v, b = .raw v) ∨ b ∈ framesFrom 0 [[7, 8, 9]] := by
  intro b hb
  rcases List.mem_append.mp hb with h | h
  · left; simp at h; rcases h with rfl | rfl <;> exact ⟨_, rfl⟩
  · right
    simp only [framesFrom, frame, List.append_nil, List.mem_append]
    exact Or.inr (List.mem_reverse.mp h)

/-- **end_to_end (no loss, no duplication, no reordering, no insertion).** For any sequence of calls on the write half
and any reads (any sizes, any fragmentation) over the bytes the transport has accepted:
1. the reader delivers a prefix of the plaintext the writer accepted — always;
2. if the write half is flushed (both buffers empty, e.g. after a `poll_flush` that returned `Ready(Ok)`), what was
   delivered plus what the reader still owes is *exactly* the accepted plaintext, and the stream ends cleanly at a
   frame boundary — nothing is lost; `reader_step_exact` then says that each further read with a delivering
   transport hands out the next owed bytes, and end-of-stream only once nothing is owed. -/
theorem end_to_end (cv : Nat → Nat → Nat) (wops : List WOp) (rops : List (Nat × List RdEv)) :
    ∃ sw d r' w', wrun WSt.init wops = .ok sw ∧ runReads cv rops Reader.init sw.wire = .ok (d, r', w') ∧
      d <+: sw.acc ∧
      (sw.w.payload.len = 0 → sw.w.frame.len = 0 →
        d ++ todo cv r' w' = sw.acc ∧ rstatus cv r' w' = .clean) := by
  obtain ⟨sw, hsw, hi, cs, hr, _⟩ := wrun_spec wops WSt.init WInv_init [] WRel_init
  have hchunks : ∀ c ∈ cs, c.length ≤ MAX_PAYLOAD_LEN := fun c hc => (hr.chunks c hc).2
  have hmem : ∀ b ∈ sw.wire, (∃ v, b = WByte.raw v) ∨ b ∈ framesFrom 0 cs := by
    intro b hb
    right
    rw [← hr.wire]; exact List.mem_append_left _ hb
  obtain ⟨d, r', w', hrun, hpre⟩ := tamper_prefix_only cv cs sw.wire hmem rops
  refine ⟨sw, d, r', w', hsw, hrun, ?_, ?_⟩
  · refine hpre.trans ⟨sw.w.payload.slice, hr.acc⟩
  · intro hp hf
    have hf0 : sw.w.frame.slice = [] := slice_nil_of_len_zero _ hf
    have hp0 : sw.w.payload.slice = [] := slice_nil_of_len_zero _ hp
    have hw := hr.wire
    have ha := hr.acc
    rw [hf0, List.append_nil] at hw
    rw [hp0, List.append_nil] at ha
    obtain ⟨d2, r2, w2, hrun2, _, htd, hst⟩ := runReads_spec cv rops Reader.init sw.wire RInv_init
    rw [hrun] at hrun2
    injection hrun2 with hrun2
    injection hrun2 with h1 h2
    injection h2 with h2 h3
    subst h1 h2 h3
    rw [todo_init, hw, parse_frames cv cs hchunks] at htd
    refine ⟨by rw [← htd]; exact ha, ?_⟩
    rw [hst]
    simp [rstatus, Reader.init, Buffer.new, Buffer.slice, hw, parse_frames cv cs hchunks]


/-- **reader_drains.** For every byte stream `s` whose authentic frames all carry non-empty payloads (true of everything
the write half produces: `writer_frames`), every buffer size `m > 0` and every transport that keeps delivering:
`N ≥ |owed|` reads hand out *exactly* the concatenated payloads of the longest authentic prefix of frames of `s` —
all of it, in order — and leave nothing owed; the stream's status (`clean` end, `truncated`, or `bad` frame) then
decides, by `reader_step_exact`, whether the next read reports end of stream or `InvalidData`. -/
theorem reader_drains (cv : Nat → Nat → Nat) (s : List WByte) (hne : ∀ c ∈ (parse cv 0 s).1, c ≠ [])
    (m : Nat) (hm : 0 < m) (gs : List RdEv) (hg : Generous gs) (hl : s.length < gs.length)
    (N : Nat) (hN : ((parse cv 0 s).1.flatten).length ≤ N) :
    ∃ r' w', runReads cv (List.replicate N (m, gs)) Reader.init s = .ok ((parse cv 0 s).1.flatten, r', w') ∧
      todo cv r' w' = [] ∧ rstatus cv r' w' = (parse cv 0 s).2 := by
  have hne' : NE cv Reader.init s := by
    intro c hc
    apply hne c
    simpa [chunksOf, Reader.init, Buffer.new, Buffer.slice] using hc
  obtain ⟨r', w', hrun, htd, hst⟩ := drain cv m gs hm hg N Reader.init s RInv_init hne' hl (by rw [todo_init]; exact hN)
  rw [todo_init] at hrun
  refine ⟨r', w', hrun, htd, ?_⟩
  rw [hst]; simp [rstatus, Reader.init, Buffer.new, Buffer.slice]

/-- **full_delivery.** After any sequence of calls on the write half that leaves it flushed (both buffers empty — e.g.
a `poll_flush` returned `Ready(Ok)`, `flush_pushes_everything`), a reader over the bytes the transport accepted, with
any buffer size `m > 0` and a transport that keeps delivering, obtains in `N ≥ |accepted|` reads exactly the
accepted plaintext — no loss, duplication, reordering or insertion — and then stands at a clean end of stream. -/
theorem full_delivery (cv : Nat → Nat → Nat) (wops : List WOp) :
    ∃ sw, wrun WSt.init wops = .ok sw ∧
      (sw.w.payload.len = 0 → sw.w.frame.len = 0 →
        ∀ (m : Nat) (gs : List RdEv) (N : Nat), 0 < m → Generous gs → sw.wire.length < gs.length →
          sw.acc.length ≤ N →
          ∃ r' w', runReads cv (List.replicate N (m, gs)) Reader.init sw.wire = .ok (sw.acc, r', w') ∧
            todo cv r' w' = [] ∧ rstatus cv r' w' = .clean) := by
  obtain ⟨sw, hsw, _, cs, hr, _⟩ := wrun_spec wops WSt.init WInv_init [] WRel_init
  refine ⟨sw, hsw, ?_⟩
  intro hp hf m gs N hm hg hl hN
  have hchunks : ∀ c ∈ cs, c.length ≤ MAX_PAYLOAD_LEN := fun c hc => (hr.chunks c hc).2
  have hf0 : sw.w.frame.slice = [] := slice_nil_of_len_zero _ hf
  have hp0 : sw.w.payload.slice = [] := slice_nil_of_len_zero _ hp
  have hw := hr.wire
  have ha := hr.acc
  rw [hf0, List.append_nil] at hw
  rw [hp0, List.append_nil] at ha
  have hparse := parse_frames cv cs hchunks
  have hne : ∀ c ∈ (parse cv 0 sw.wire).1, c ≠ [] := by
    rw [hw, hparse]
    intro c hc h
    have := (hr.chunks c hc).1
    rw [h] at this; simp at this
  obtain ⟨r', w', hrun, htd, hst⟩ := reader_drains cv sw.wire hne m hm gs hg hl N (by rw [hw, hparse, ha]; exact hN)
  rw [hw, hparse] at hrun hst
  simp only at hrun hst
  rw [ha] at hrun
  rw [hw]
  exact ⟨r', w', hrun, htd, hst⟩

example : ∃ r' w', runReads (fun _ _ => 0) (List.replicate 3 (2, [.give 1, .give 5, .give 100, .give 1]))
    Reader.init (frame 0 [7, 8, 9]) = .ok ([7, 8, 9], r', w') := ⟨_, _, rfl⟩

end EraVerif.Props.C13
