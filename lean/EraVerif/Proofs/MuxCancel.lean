import EraVerif.Proofs.MuxTxS

/-! # C14: the write path under back-pressure and cancellation

* `AInv`: per stream, the bytes accepted by the `write_all` calls of the current session (all of a call that returned
  `Ok`, the copied prefix of a call that was cancelled or failed) are exactly the bytes sent as DATA in this session
  followed by the write buffer. -/

namespace EraVerif.Proofs.Mux
open EraVerif.Model.Mux EraVerif.Gen.MuxConst

attribute [local simp] State.upd State.release State.releaseOpt State.emit State.setSlot State.log State.enqueue
  handover finishRead

/-! ## what the `write_all` calls of a session were told vs what is sent or buffered -/

/-- the bytes the finished calls have handed over: all of `data` for `Ok`, the copied prefix otherwise -/
def ackedOf (cs : List WCall) : List Nat := cs.flatMap (fun c => c.data.take c.took)

theorem ackedOf_append (a b : List WCall) : ackedOf (a ++ b) = ackedOf a ++ ackedOf b := by simp [ackedOf]

/-- what the call in flight has copied into the write buffer so far -/
def pendDone (t : StreamSt) : List Nat :=
  match t.pendW with
  | some p => p.done
  | none => []

/-- the record of a finished call is consistent. A cancelled call has taken a proper prefix, namely exactly what was
needed to fill the write buffer `j + 1` times (`j` = the DATA frames the call itself had sent): it stopped at a
`send_data` with a full buffer. -/
def CallOk (wfs : Nat) (c : WCall) : Prop :=
  c.took ≤ c.data.length ∧ c.fill0 ≤ wfs ∧
  (c.res = .ok → c.took = c.data.length) ∧
  (c.res = .canceled → c.took < c.data.length ∧ ∃ j, c.fill0 + c.took = (j + 1) * wfs)

structure ASt (wfs : Nat) (t : StreamSt) : Prop where
  log : t.wlog = ackedOf t.calls ++ pendDone t ++ pendRest t
  pf : t.pendF.isSome = true → t.writeHeld = true
  excl : t.pendW.isSome = true → t.pendF = none
  fill : ∀ p, t.pendW = some p → p.fill0 ≤ wfs ∧ ∃ j, p.fill0 + p.done.length = j * wfs + t.wbuf.length
  calls : ∀ c ∈ t.calls, CallOk wfs c

structure AInv (s : State) : Prop where
  st : ∀ k, ASt s.cfg.wfs (s.st k)

theorem AInv_init (cfg : Cfg) (acc con pacc pcon : Caps) : AInv (State.init cfg acc con pacc pcon) := by
  obtain ⟨d, na, nc, e⟩ := init_eq cfg acc con pacc pcon
  rw [e]
  constructor
  intro k; constructor <;> simp [State.start, pendRest, pendDone, ackedOf]

/-- nothing the invariant looks at changed -/
def aSame (t t' : StreamSt) : Prop :=
  t'.wlog = t.wlog ∧ t'.calls = t.calls ∧ t'.pendW = t.pendW ∧ t'.pendF = t.pendF ∧ t'.wbuf = t.wbuf ∧
    (t.writeHeld = true → t'.writeHeld = true)

theorem aSame_refl (t : StreamSt) : aSame t t := ⟨rfl, rfl, rfl, rfl, rfl, id⟩

theorem aSame_ite {t : Key → StreamSt} {k k' : Key} {v : StreamSt} (h : aSame (t k) v) :
    aSame (t k') (if k' = k then v else t k') := by
  by_cases hk : k' = k
  · subst hk; simpa using h
  · simp [hk, aSame_refl]

theorem ASt_of_aSame {wfs : Nat} {t t' : StreamSt} (h : aSame t t') (hi : ASt wfs t) : ASt wfs t' := by
  obtain ⟨h1, h2, h3, h4, h5, h6⟩ := h
  have hp : pendRest t' = pendRest t := by unfold pendRest; rw [h3]
  have hd : pendDone t' = pendDone t := by unfold pendDone; rw [h3]
  constructor
  · rw [h1, h2, hp, hd]; exact hi.log
  · rw [h4]; intro h; exact h6 (hi.pf h)
  · rw [h3, h4]; exact hi.excl
  · rw [h3, h5]; exact hi.fill
  · rw [h2]; exact hi.calls

theorem AInv_of_same {s s' : State} (h2 : s'.cfg = s.cfg) (h4 : ∀ k, aSame (s.st k) (s'.st k)) (hi : AInv s) : AInv s' := by
  constructor
  intro k
  rw [h2]
  exact ASt_of_aSame (h4 k) (hi.st k)

macro "asame" : tactic =>
  `(tactic| (intro k'; red; try simp only [if_true, ↓reduceIte, ite_ite_same];
             first | exact aSame_refl _ | (refine aSame_ite ?_; simp_all [aSame]; done)))

/-- only stream `k` changes -/
theorem AInv_upd {s s' : State} {k : Key} (hi : AInv s) (h2 : s'.cfg = s.cfg)
    (ho : ∀ k', k' ≠ k → aSame (s.st k') (s'.st k')) (ht : ASt s.cfg.wfs (s'.st k)) : AInv s' := by
  constructor
  intro k'
  rw [h2]
  by_cases e : k' = k
  · subst e; exact ht
  · exact ASt_of_aSame (ho k' e) (hi.st k')

theorem AInv_stepPump {s s' : State} (hi : AInv s) (h : stepPump s  = some s') : AInv s' := by
  unfold stepPump at h
  leaves h
  all_goals (subst h; refine AInv_of_same (s := s) rfl ?_ hi; asame)

theorem AInv_stepRecvOpenStart {s s' : State} {k : Key} (hi : AInv s) (h : stepRecvOpenStart s k = some s') : AInv s' := by
  unfold stepRecvOpenStart at h
  leaves h
  all_goals (subst h; refine AInv_of_same (s := s) rfl ?_ hi; asame)

theorem AInv_stepDiscard {s s' : State} {k : Key} (hi : AInv s) (h : stepDiscard s k = some s') : AInv s' := by
  unfold stepDiscard at h
  leaves h
  all_goals (subst h; refine AInv_of_same (s := s) rfl ?_ hi; asame)

theorem AInv_stepJoinedA {s s' : State} {k : Key} (hi : AInv s) (h : stepJoinedA s k = some s') : AInv s' := by
  unfold stepJoinedA at h
  leaves h
  all_goals (subst h; refine AInv_of_same (s := s) rfl ?_ hi; asame)

theorem AInv_stepPush {s s' : State} {k : Key} (hi : AInv s) (h : stepPush s k = some s') : AInv s' := by
  unfold stepPush at h
  leaves h
  all_goals (subst h; refine AInv_of_same (s := s) rfl ?_ hi; asame)

theorem AInv_stepPop {s s' : State} {conn : Bool} {cap : Nat} (hi : AInv s) (h : stepPop s conn cap = some s') : AInv s' := by
  unfold stepPop at h
  leaves h
  all_goals (subst h; refine AInv_of_same (s := s) rfl ?_ hi; asame)

theorem AInv_stepJoinedC {s s' : State} {k : Key} (hi : AInv s) (h : stepJoinedC s k = some s') : AInv s' := by
  unfold stepJoinedC at h
  leaves h
  all_goals (subst h; refine AInv_of_same (s := s) rfl ?_ hi; asame)

theorem AInv_stepDoFlush {s s' : State} (hi : AInv s) (h : stepDoFlush s  = some s') : AInv s' := by
  unfold stepDoFlush at h
  leaves h
  all_goals (subst h; refine AInv_of_same (s := s) rfl ?_ hi; asame)

theorem AInv_stepWTake {s s' : State} (hi : AInv s) (h : stepWTake s  = some s') : AInv s' := by
  unfold stepWTake at h
  leaves h
  all_goals (subst h; refine AInv_of_same (s := s) rfl ?_ hi; asame)

theorem AInv_stepWDo {s s' : State} (hi : AInv s) (h : stepWDo s  = some s') : AInv s' := by
  unfold stepWDo at h
  leaves h
  all_goals (subst h; refine AInv_of_same (s := s) rfl ?_ hi; asame)

theorem AInv_stepWBlock {s s' : State} (hi : AInv s) (h : stepWBlock s  = some s') : AInv s' := by
  unfold stepWBlock at h
  leaves h
  all_goals (subst h; refine AInv_of_same (s := s) rfl ?_ hi; asame)

theorem AInv_stepAppOpen {s s' : State} {slot : Nat} {conn : Bool} {cap : Nat} (hi : AInv s) (h : stepAppOpen s slot conn cap = some s') : AInv s' := by
  unfold stepAppOpen at h
  leaves h
  all_goals (subst h; refine AInv_of_same (s := s) rfl ?_ hi; asame)

theorem AInv_stepAppRead {s s' : State} {slot n : Nat} (hi : AInv s) (h : stepAppRead s slot n = some s') : AInv s' := by
  unfold stepAppRead at h
  leaves h
  all_goals (subst h; refine AInv_of_same (s := s) rfl ?_ hi; asame)

set_option maxHeartbeats 2000000 in
theorem AInv_stepReadStep {s s' : State} {k : Key} (hi : AInv s) (h : stepReadStep s k = some s') : AInv s' := by
  unfold stepReadStep readFrame at h
  leaves h
  all_goals (subst h; refine AInv_of_same (s := s) rfl ?_ hi; asame)

/-- close the side goals of `AInv_upd` -/
macro "aupd" hi:ident k:term : tactic =>
  `(tactic| (refine AInv_upd (k := $k) $hi rfl (by intro k' hk'; red; simp [hk', aSame_refl]) ?_;
             red; simp only [↓reduceIte]))

theorem AInv_stepCloseData {s s' : State} {k : Key} (hl : LInv s) (hi : AInv s) (h : stepCloseData s k = some s') : AInv s' := by
  unfold stepCloseData at h
  obtain ⟨a1, a2, a3, a4, a5⟩ := hi.st k
  have l4 := hl.pw k
  leaves h
  all_goals subst h
  all_goals first | (refine AInv_of_same (s := s) rfl ?_ hi; asame; done) | skip
  all_goals
    have hw : (s.st k).writeHeld = false := by simp_all
    have hp : (s.st k).pendW = none := by
      cases hq : (s.st k).pendW with
      | none => rfl
      | some p => have := l4 (by rw [hq]; rfl); rw [hw] at this; cases this
    aupd hi k
    constructor
    · simpa [pendRest, pendDone, hp] using a1
    · exact a2
    · exact a3
    · intro p h0; rw [hp] at h0; cases h0
    · exact a5

theorem no_write_in_flight {s : State} (hl : LInv s) (k : Key) (hm : (s.st k).mphase ≠ .waitWrite) :
    (s.st k).pendW = none := by
  have hw := hl.d1 k hm
  cases hq : (s.st k).pendW with
  | none => rfl
  | some p => have := hl.pw k (by rw [hq]; rfl); rw [hw] at this; cases this

theorem AInv_stepCloseFrame {s s' : State} {k : Key} (hl : LInv s) (hi : AInv s) (h : stepCloseFrame s k = some s') : AInv s' := by
  unfold stepCloseFrame at h
  obtain ⟨a1, a2, a3, a4, a5⟩ := hi.st k
  leaves h
  all_goals subst h
  all_goals (have hp : (s.st k).pendW = none := no_write_in_flight hl k (by simp_all))
  all_goals aupd hi k
  all_goals constructor
  all_goals first
    | (simp [pendRest, pendDone, hp, ackedOf]; done)
    | (intro p h0; simp [hp] at h0; done)
    | (simp_all; done)

theorem ASt_handover {wfs : Nat} {t : StreamSt} (h : ASt wfs t) :
    ASt wfs { t with readHeld := true, writeHeld := true, rphase := .waitLock, mphase := .waitWrite } :=
  ⟨h.log, fun _ => rfl, h.excl, h.fill, h.calls⟩

set_option maxHeartbeats 1600000 in
theorem AInv_stepSendOpen {s s' : State} {k : Key} (hl : LInv s) (hi : AInv s) (h : stepSendOpen s k = some s') : AInv s' := by
  unfold stepSendOpen at h
  obtain ⟨a1, a2, a3, a4, a5⟩ := hi.st k
  leaves h
  all_goals subst h
  all_goals (have hp : (s.st k).pendW = none := no_write_in_flight hl k (by simp_all))
  all_goals aupd hi k
  all_goals constructor
  all_goals first
    | (simp [pendRest, pendDone, hp, ackedOf]; done)
    | (intro p h0; simp [hp] at h0; done)
    | (simp_all; done)

theorem AInv_stepAppWrite {s s' : State} {slot : Nat} {bytes : List Nat} (ht : TInv s) (hi : AInv s)
    (h : stepAppWrite s slot bytes = some s') : AInv s' := by
  unfold stepAppWrite at h
  leaves h
  rename_i k r hs hp
  obtain ⟨a1, a2, a3, a4, a5⟩ := hi.st k
  have hcap := (ht.st k).cap
  have hpn : (s.st k).pendW = none := by cases hq : (s.st k).pendW <;> simp_all
  have hfn : (s.st k).pendF = none := by cases hq : (s.st k).pendF <;> simp_all
  subst h
  aupd hi k
  constructor
  · simp only [pendRest, pendDone]; rw [a1]; simp [pendRest, pendDone, hpn]
  · exact a2
  · intro _; exact hfn
  · intro p h0
    simp only [Option.some.injEq] at h0
    subst h0
    exact ⟨hcap, 0, by simp⟩
  · exact a5

theorem ackedOf_snoc (cs : List WCall) (c : WCall) : ackedOf (cs ++ [c]) = ackedOf cs ++ c.data.take c.took := by
  simp [ackedOf]

/-- the call in flight returns (`Ok`, `Canceled` or `Closed`): the bytes it has not copied were never accepted -/
theorem ASt_endWrite {wfs : Nat} {t : StreamSt} {p : PendWrite} {r : WRes} (h : ASt wfs t) (hp : t.pendW = some p)
    (hc : CallOk wfs (p.call r)) : ASt wfs (t.endWrite p r) := by
  obtain ⟨a1, a2, a3, a4, a5⟩ := h
  unfold StreamSt.endWrite
  constructor
  · simp only [pendRest, pendDone, hp] at a1
    simp only [pendRest, pendDone, List.append_nil, ackedOf_snoc, PendWrite.call, List.take_left']
    rw [a1]
    exact take_length_sub_append _ _
  · exact a2
  · intro h0; cases h0
  · intro q h0; cases h0
  · intro c hc'
    simp only [List.mem_append, List.mem_singleton] at hc'
    rcases hc' with hc' | rfl
    · exact a5 c hc'
    · exact hc

theorem AInv_stepWriteStep {s s' : State} {k : Key} (hi : AInv s) (h : stepWriteStep s k = some s') : AInv s' := by
  unfold stepWriteStep at h
  obtain ⟨a1, a2, a3, a4, a5⟩ := hi.st k
  dsimp only at h
  split at h
  · cases h
  split at h
  · cases h
  rename_i p hp
  obtain ⟨f1, j, f2⟩ := a4 p hp
  split at h
  · -- the call returns Ok
    rename_i hr
    simp only [Option.some.injEq] at h
    subst h
    have hc : CallOk s.cfg.wfs (p.call .ok) := by
      refine ⟨by simp [PendWrite.call], f1, (fun _ => by simp [PendWrite.call, hr]), (fun h0 => by cases h0)⟩
    have := ASt_endWrite (r := .ok) (hi.st k) hp hc
    aupd hi k
    unfold StreamSt.endWrite at this
    simp only [hr, List.length_nil, Nat.sub_zero, List.take_length] at this
    exact this
  rename_i hr
  split at h
  · rename_i hf
    split at h
    · -- the multiplexer is gone: Closed
      simp only [Option.some.injEq] at h
      subst h
      have hc : CallOk s.cfg.wfs (p.call .err) := by
        refine ⟨by simp [PendWrite.call], f1, (fun h0 => by cases h0), (fun h0 => by cases h0)⟩
      have := ASt_endWrite (r := .err) (hi.st k) hp hc
      aupd hi k
      exact this
    split at h
    · cases h
    · -- the buffer is sent
      simp only [Option.some.injEq] at h
      subst h
      aupd hi k
      constructor
      · exact a1
      · exact a2
      · exact a3
      · intro q h0
        rw [hp] at h0; cases h0
        refine ⟨f1, j + 1, ?_⟩
        simp only [List.length_nil, Nat.add_zero]
        rw [f2, hf.1, Nat.add_mul, Nat.one_mul]
      · exact a5
  · -- bytes are copied into the buffer
    split at h
    · cases h
    simp only [Option.some.injEq] at h
    subst h
    aupd hi k
    constructor
    · simp only [pendRest, pendDone]
      simp only [pendRest, pendDone, hp] at a1
      rw [a1]
      simp only [List.append_assoc, List.append_cancel_left_eq]
      exact (List.take_append_drop _ _).symm
    · exact a2
    · intro _; exact a3 (by rw [hp]; rfl)
    · intro q h0
      simp only [Option.some.injEq] at h0
      subst h0
      refine ⟨f1, j, ?_⟩
      simp only [List.length_append]
      omega
    · exact a5

theorem AInv_stepCancelWrite {s s' : State} {k : Key} (hi : AInv s) (h : stepCancelWrite s k = some s') : AInv s' := by
  unfold stepCancelWrite at h
  obtain ⟨a1, a2, a3, a4, a5⟩ := hi.st k
  leaves h
  rename_i p hp hc
  subst h
  obtain ⟨f1, j, f2⟩ := a4 p hp
  have hlen : 0 < p.rest.length := List.length_pos_iff.mpr hc.1
  have hcall : CallOk s.cfg.wfs (p.call .canceled) := by
    refine ⟨by simp [PendWrite.call], f1, (fun h0 => by cases h0), (fun _ => ⟨?_, j, ?_⟩)⟩
    · simp only [PendWrite.call, List.length_append]; omega
    · simp only [PendWrite.call]; rw [f2, hc.2.1, Nat.add_mul, Nat.one_mul]
  have := ASt_endWrite (r := .canceled) (hi.st k) hp hcall
  aupd hi k
  exact this

theorem AInv_stepAppFlush {s s' : State} {slot : Nat} (hl : LInv s) (hi : AInv s) (h : stepAppFlush s slot = some s') : AInv s' := by
  unfold stepAppFlush at h
  leaves h
  rename_i k r hs hp
  obtain ⟨a1, a2, a3, a4, a5⟩ := hi.st k
  have hw := (hl.sl slot k r true hs).2 rfl
  have hpn : (s.st k).pendW = none := by cases hq : (s.st k).pendW <;> simp_all
  subst h
  aupd hi k
  exact ⟨a1, fun _ => hw, (fun h0 => by rw [hpn] at h0; cases h0), a4, a5⟩

theorem AInv_stepFlushStep {s s' : State} {k : Key} (hi : AInv s) (h : stepFlushStep s k = some s') : AInv s' := by
  unfold stepFlushStep at h
  obtain ⟨a1, a2, a3, a4, a5⟩ := hi.st k
  leaves h
  all_goals subst h
  all_goals
    rename_i slot hf _
    have hpn : (s.st k).pendW = none := by
      cases hq : (s.st k).pendW with
      | none => rfl
      | some p => have := a3 (by rw [hq]; rfl); rw [hf] at this; cases this
    aupd hi k
    constructor
    · simpa [pendRest, pendDone, hpn] using a1
    · intro h0; cases h0
    · intro _; rfl
    · intro p h0; rw [hpn] at h0; cases h0
    · exact a5

theorem AInv_stepCancelFlush {s s' : State} {k : Key} (hi : AInv s) (h : stepCancelFlush s k = some s') : AInv s' := by
  unfold stepCancelFlush at h
  obtain ⟨a1, a2, a3, a4, a5⟩ := hi.st k
  leaves h
  subst h
  aupd hi k
  exact ⟨a1, (fun h0 => by cases h0), fun _ => rfl, a4, a5⟩

theorem AInv_stepAppDrop {s s' : State} {slot : Nat} {r w : Bool} (hi : AInv s)
    (h : stepAppDrop s slot r w = some s') : AInv s' := by
  unfold stepAppDrop at h
  split at h
  · rename_i k hr hw hs
    by_cases hg : (r && hr && (s.st k).pendR.isSome || w && hw && ((s.st k).pendW.isSome || (s.st k).pendF.isSome)) = true
    · rw [if_pos hg] at h; cases h
    · rw [if_neg hg] at h
      simp only [Option.some.injEq] at h
      subst h
      obtain ⟨a1, a2, a3, a4, a5⟩ := hi.st k
      aupd hi k
      refine ⟨a1, ?_, a3, a4, a5⟩
      intro h0
      have hh := a2 h0
      dsimp only
      split
      · rename_i hc
        exfalso; apply hg
        simp only [Bool.and_eq_true] at hc
        simp [hc.1, hc.2, h0]
      · exact hh
  · cases h

theorem AInv_step {s s' : State} {e : Event} (hl : LInv s) (ht : TInv s) (hi : AInv s) (h : step? s e = some s') : AInv s' := by
  cases e <;> simp only [step?] at h
  case wireIn f => cases h; exact AInv_of_same (s := s) rfl (fun k => aSame_refl _) hi
  case wireEof => cases h; exact AInv_of_same (s := s) rfl (fun k => aSame_refl _) hi
  case txWindow l => cases h; exact AInv_of_same (s := s) rfl (fun k => aSame_refl _) hi
  case pump => exact AInv_stepPump hi h
  case recvOpenStart k => exact AInv_stepRecvOpenStart hi h
  case discard k => exact AInv_stepDiscard hi h
  case closeData k => exact AInv_stepCloseData hl hi h
  case closeFrame k => exact AInv_stepCloseFrame hl hi h
  case joinedA k => exact AInv_stepJoinedA hi h
  case push k => exact AInv_stepPush hi h
  case pop c x => exact AInv_stepPop hi h
  case sendOpen k => exact AInv_stepSendOpen hl hi h
  case joinedC k => exact AInv_stepJoinedC hi h
  case doFlush => exact AInv_stepDoFlush hi h
  case wtake => exact AInv_stepWTake hi h
  case wdo => exact AInv_stepWDo hi h
  case wblock => exact AInv_stepWBlock hi h
  case appOpen a b c => exact AInv_stepAppOpen hi h
  case appRead a b => exact AInv_stepAppRead hi h
  case readStep k => exact AInv_stepReadStep hi h
  case appWrite a b => exact AInv_stepAppWrite ht hi h
  case writeStep k => exact AInv_stepWriteStep hi h
  case appFlush a => exact AInv_stepAppFlush hl hi h
  case flushStep k => exact AInv_stepFlushStep hi h
  case appDrop a b c => exact AInv_stepAppDrop hi h
  case cancelWrite k => exact AInv_stepCancelWrite hi h
  case cancelFlush k => exact AInv_stepCancelFlush hi h

theorem AInv_reachable {s : State} (h : Reachable s) : AInv s := by
  have : (LInv s ∧ TInv s) ∧ AInv s :=
    reachable_inv (P := fun s => (LInv s ∧ TInv s) ∧ AInv s)
      (fun c a b d e => ⟨⟨LInv_init c a b d e, TInv_init c a b d e⟩, AInv_init c a b d e⟩)
      (fun _ _ _ hi hs => ⟨⟨LInv_step hi.1.1 hs, TInv_step hi.1.1 hi.1.2 hs⟩, AInv_step hi.1.1 hi.1.2 hi.2 hs⟩) h
  exact this.2

/-! ## the current session on the wire -/

/-- payload of the DATA frames behind the last OPEN / CLOSE of a stream's frame sequence -/
def sessPayload (l : List (FK × List Nat)) : List Nat :=
  l.foldl (fun acc e => match e.1 with | .data => acc ++ e.2 | _ => []) []

theorem foldl_of_txRun (l : List (FK × List Nat)) (st st' : Bool × List Nat) (h : txRun st l = some st') :
    l.foldl (fun acc e => match e.1 with | .data => acc ++ e.2 | _ => []) st.2 = st'.2 := by
  induction l generalizing st with
  | nil => simp [txRun] at h; subst h; rfl
  | cons e l ih =>
    simp only [txRun] at h
    cases hs : txStep st e with
    | none => simp [hs] at h
    | some st1 =>
      simp only [hs, Option.bind_some] at h
      have := ih st1 h
      rw [List.foldl_cons, ← this]
      congr 1
      obtain ⟨o, d⟩ := st
      obtain ⟨fk, b⟩ := e
      cases o <;> cases fk <;> simp [txStep] at hs <;> subst hs <;> rfl

/-- if a stream's frame sequence is accepted by the grammar with final state `(open?, d)`, then `d` is the payload of its
current session -/
theorem sessPayload_of_txRun {l : List (FK × List Nat)} {o : Bool} {d : List Nat}
    (h : txRun (false, []) l = some (o, d)) : sessPayload l = d :=
  foldl_of_txRun l (false, []) (o, d) h

/-! ## within a session the record of finished calls only grows -/

theorem finishRead_calls (s : State) (k k0 : Key) (p : PendRead) : ((finishRead s k p).st k0).calls = (s.st k0).calls := by
  simp only [finishRead, State.upd, State.log]; split <;> simp_all

theorem upd_calls (s : State) (k k0 : Key) (f : StreamSt → StreamSt) (hf : (f (s.st k)).calls = (s.st k).calls) :
    ((s.upd k f).st k0).calls = (s.st k0).calls := by
  simp only [State.upd]; split
  · rename_i h; subst h; exact hf
  · rfl

theorem release_st (s : State) (f : RFrame) : (s.release f).st = s.st := rfl

theorem readFrame_calls (s : State) (k k0 : Key) (p : PendRead) (f : RFrame) :
    ((readFrame s k p f).st k0).calls = (s.st k0).calls := by
  unfold readFrame
  split
  rotate_left 2
  · dsimp only
    split <;> split
    all_goals (try rw [finishRead_calls])
    all_goals (try rw [release_st])
    all_goals (rw [upd_calls]; rfl)
  all_goals (try rw [finishRead_calls])
  all_goals (try rw [release_st])
  all_goals (try (rw [upd_calls]; rfl))
  all_goals rfl

theorem readStep_calls {s s' : State} {k : Key} (k0 : Key) (h : stepReadStep s k = some s') : (s'.st k0).calls = (s.st k0).calls := by
  unfold stepReadStep at h
  leaves h
  all_goals subst h
  all_goals (try rw [finishRead_calls])
  all_goals (try rw [readFrame_calls])
  all_goals (try (rw [upd_calls]; rfl))
  all_goals rfl
set_option maxHeartbeats 4000000 in
theorem calls_mono {s s' : State} {e : Event} (k : Key) (h : step? s e = some s')
    (h1 : e ≠ .closeFrame k) (h2 : e ≠ .sendOpen k) : ∃ l, (s'.st k).calls = (s.st k).calls ++ l := by
  cases e
  case readStep k' => exact ⟨[], by rw [readStep_calls k h]; simp⟩
  all_goals (unfold_step h; try unfold StreamSt.endWrite at h)
  all_goals leaves h
  all_goals subst h
  all_goals red
  all_goals (try simp only [↓reduceIte, ite_ite_same])
  all_goals first
    | exact ⟨[], (List.append_nil _).symm⟩
    | (split
       · rename_i hk
         subst hk
         first
           | exact ⟨[], (List.append_nil _).symm⟩
           | exact ⟨[_], rfl⟩
           | (exfalso; first | exact h1 rfl | exact h2 rfl)
       · exact ⟨[], (List.append_nil _).symm⟩)

theorem run_calls_mono (k : Key) : ∀ (es : List Event) (s s' : State), run? s es = some s' →
    Event.closeFrame k ∉ es → Event.sendOpen k ∉ es → ∃ l, (s'.st k).calls = (s.st k).calls ++ l := by
  intro es
  induction es with
  | nil => intro s s' h _ _; simp [run?] at h; subst h; exact ⟨[], by simp⟩
  | cons e es ih =>
    intro s s' h h1 h2
    simp only [run?] at h
    cases hs : step? s e with
    | none => simp [hs] at h
    | some s1 =>
      simp only [hs, Option.bind_some] at h
      simp only [List.mem_cons, not_or] at h1 h2
      obtain ⟨l1, e1⟩ := calls_mono k hs (fun h0 => h1.1 h0.symm) (fun h0 => h2.1 h0.symm)
      obtain ⟨l2, e2⟩ := ih s1 s' h h1.2 h2.2
      exact ⟨l1 ++ l2, by rw [e2, e1, List.append_assoc]⟩

theorem run?_reachable {s : State} (h : Reachable s) : ∀ (es : List Event) (s' : State), run? s es = some s' → Reachable s' := by
  intro es
  induction es generalizing s with
  | nil => intro s' h0; simp [run?] at h0; subst h0; exact h
  | cons e es ih =>
    intro s' h0
    simp only [run?] at h0
    cases hs : step? s e with
    | none => simp [hs] at h0
    | some s1 => simp only [hs, Option.bind_some] at h0; exact ih (reachable_step h hs) s' h0

/-! ## what a cancellation does -/

theorem cancelWrite_eff {s s' : State} {k : Key} (h : stepCancelWrite s k = some s') :
    ∃ p, (s.st k).pendW = some p ∧ p.rest ≠ [] ∧ (s.st k).wbuf.length = s.cfg.wfs ∧
      s' = (s.upd k (fun t => t.endWrite p .canceled)).log (.canceled p.slot) := by
  unfold stepCancelWrite at h
  leaves h
  rename_i p hp hc
  exact ⟨p, hp, hc.1, hc.2.1, h.symm⟩

theorem cancelFlush_eff {s s' : State} {k : Key} (h : stepCancelFlush s k = some s') :
    ∃ slot, (s.st k).pendF = some slot ∧ (s.st k).wbuf ≠ [] ∧
      s' = (s.upd k (fun t => { t with pendF := none })).log (.canceled slot) := by
  unfold stepCancelFlush at h
  leaves h
  rename_i slot hp hc
  exact ⟨slot, hp, hc, h.symm⟩

/-- what a cancellation leaves alone: everything but the bookkeeping of the cancelled call -/
structure CancelFrame (s s' : State) (k : Key) : Prop where
  out : s'.out = s.out
  wire : s'.wire = s.wire
  chan : s'.chan = s.chan
  wcur : s'.wcur = s.wcur
  flushed : s'.flushed = s.flushed
  dead : s'.dead = s.dead
  slots : s'.slots = s.slots
  sent : (s'.st k).sent = (s.st k).sent
  wbuf : (s'.st k).wbuf = (s.st k).wbuf
  held : (s'.st k).writeHeld = (s.st k).writeHeld
  other : ∀ k', k' ≠ k → s'.st k' = s.st k'
  idle : (s'.st k).pendW = none ∧ (s'.st k).pendF = none

theorem cancel_frame {s s' : State} {k : Key} (hi : AInv s)
    (hc : step? s (.cancelWrite k) = some s' ∨ step? s (.cancelFlush k) = some s') : CancelFrame s s' k := by
  rcases hc with hc | hc
  · obtain ⟨p, hp, _, _, rfl⟩ := cancelWrite_eff hc
    have hf := (hi.st k).excl (by rw [hp]; rfl)
    constructor <;> try (simp [StreamSt.endWrite]; done)
    · intro k' hk'; simp [hk']
    · simp [StreamSt.endWrite, hf]
  · obtain ⟨slot, hp, _, rfl⟩ := cancelFlush_eff hc
    have hw : (s.st k).pendW = none := by
      cases hq : (s.st k).pendW with
      | none => rfl
      | some q => have := (hi.st k).excl (by rw [hq]; rfl); rw [hp] at this; cases this
    constructor <;> try (simp; done)
    · intro k' hk'; simp [hk']
    · simp [hw]

/-- the cancelled call was in flight on a stream the application holds -/
theorem cancel_held {s s' : State} {k : Key} (hl : LInv s) (hi : AInv s)
    (hc : step? s (.cancelWrite k) = some s' ∨ step? s (.cancelFlush k) = some s') : (s.st k).writeHeld = true := by
  rcases hc with hc | hc
  · obtain ⟨p, hp, _⟩ := cancelWrite_eff hc
    exact hl.pw k (by rw [hp]; rfl)
  · obtain ⟨slot, hp, _⟩ := cancelFlush_eff hc
    exact (hi.st k).pf (by rw [hp]; rfl)

end EraVerif.Proofs.Mux
