import EraVerif.Proofs.MuxFifo
import EraVerif.Proofs.MuxLockS

/-! # C14: what a transient reader sees — the payload between its OPEN and its CLOSE, in order -/

namespace EraVerif.Proofs.Mux
open EraVerif.Model.Mux EraVerif.Gen.MuxConst

attribute [local simp] State.upd State.release State.releaseOpt State.emit State.setSlot State.log State.enqueue
  handover finishRead

/-- the payload bytes of the DATA frames of a frame list, concatenated -/
def dataOf (l : List (FK × List Nat)) : List Nat := l.flatMap (fun e => if e.1 = FK.data then e.2 else [])

theorem dataOf_append (l1 l2 : List (FK × List Nat)) : dataOf (l1 ++ l2) = dataOf l1 ++ dataOf l2 := by
  simp [dataOf]

/-- the not yet consumed rest of a partially read frame -/
def cacheData (t : StreamSt) : List Nat :=
  match t.cache with
  | some f => f.data
  | none => []

/-- the frames taken out of the queue since the OPEN that started the current transient stream -/
def sess (t : StreamSt) : List (FK × List Nat) := t.taken.drop t.sessStart

structure RInv (s : State) : Prop where
  r5 : ∀ k, (s.st k).sessStart ≤ (s.st k).taken.length
  r4 : ∀ k, 0 < (s.st k).sessStart → ∃ d, (s.st k).taken[(s.st k).sessStart - 1]? = some (FK.open, d)
  r1 : ∀ k, (s.st k).rphase ≠ .discard → (s.st k).delivered ++ cacheData (s.st k) = dataOf (sess (s.st k))
  r2 : ∀ k, (s.st k).rphase ≠ .discard → (s.st k).closeRecv = false → ∀ e ∈ sess (s.st k), e.1 ≠ FK.close
  r3 : ∀ k, (s.st k).rphase ≠ .discard → (s.st k).closeRecv = true →
        ∃ pre d, sess (s.st k) = pre ++ [(FK.close, d)] ∧ ∀ e ∈ pre, e.1 ≠ FK.close
  disc : ∀ k, (s.st k).rphase = .discard → (s.st k).cache = none ∧ (s.st k).closeRecv = false
  ck : ∀ k f, (s.st k).cache = some f → f.kind = FK.data

theorem RInv_init (cfg : Cfg) (acc con pacc pcon : Caps) : RInv (State.init cfg acc con pacc pcon) := by
  obtain ⟨d, na, nc, e⟩ := init_eq cfg acc con pacc pcon
  rw [e]
  constructor <;> simp [State.start, sess, dataOf, cacheData]

/-- per-stream facts `RInv` is about -/
structure RSt (t : StreamSt) : Prop where
  r5 : t.sessStart ≤ t.taken.length
  r4 : 0 < t.sessStart → ∃ d, t.taken[t.sessStart - 1]? = some (FK.open, d)
  r1 : t.rphase ≠ .discard → t.delivered ++ cacheData t = dataOf (sess t)
  r2 : t.rphase ≠ .discard → t.closeRecv = false → ∀ e ∈ sess t, e.1 ≠ FK.close
  r3 : t.rphase ≠ .discard → t.closeRecv = true → ∃ pre d, sess t = pre ++ [(FK.close, d)] ∧ ∀ e ∈ pre, e.1 ≠ FK.close
  disc : t.rphase = .discard → t.cache = none ∧ t.closeRecv = false
  ck : ∀ f, t.cache = some f → f.kind = FK.data

theorem RInv_iff (s : State) : RInv s ↔ ∀ k, RSt (s.st k) := by
  constructor
  · intro h k; exact ⟨h.r5 k, h.r4 k, h.r1 k, h.r2 k, h.r3 k, h.disc k, h.ck k⟩
  · intro h
    exact ⟨fun k => (h k).r5, fun k => (h k).r4, fun k => (h k).r1, fun k => (h k).r2, fun k => (h k).r3,
      fun k => (h k).disc, fun k => (h k).ck⟩

/-- nothing the reader invariant looks at changed (the phase may move between `done` and `waitLock`) -/
def rdOk (t t' : StreamSt) : Prop :=
  t'.taken = t.taken ∧ t'.sessStart = t.sessStart ∧ t'.delivered = t.delivered ∧ t'.cache = t.cache ∧
    t'.closeRecv = t.closeRecv ∧ (t'.rphase = .discard ↔ t.rphase = .discard)

theorem rdOk_refl (t : StreamSt) : rdOk t t := ⟨rfl, rfl, rfl, rfl, rfl, Iff.rfl⟩

theorem rdOk_ite {t : Key → StreamSt} {k k' : Key} {v : StreamSt} (h : rdOk (t k) v) :
    rdOk (t k') (if k' = k then v else t k') := by
  by_cases hk : k' = k
  · subst hk; simpa using h
  · simp [hk, rdOk_refl]

theorem RSt_of_rdOk {t t' : StreamSt} (h : rdOk t t') (hi : RSt t) : RSt t' := by
  obtain ⟨a, b, c, d, e, f⟩ := h
  have hs : sess t' = sess t := by unfold sess; rw [a, b]
  have hc : cacheData t' = cacheData t := by unfold cacheData; rw [d]
  have hne : t'.rphase ≠ .discard → t.rphase ≠ .discard := fun h1 h2 => h1 (f.mpr h2)
  constructor
  · rw [a, b]; exact hi.r5
  · rw [a, b]; exact hi.r4
  · intro h1; rw [c, hc, hs]; exact hi.r1 (hne h1)
  · intro h1; rw [e, hs]; exact hi.r2 (hne h1)
  · intro h1; rw [e, hs]; exact hi.r3 (hne h1)
  · intro h1; rw [d, e]; exact hi.disc (f.mp h1)
  · intro g; rw [d]; exact hi.ck g

theorem RInv_of_rdOk {s s' : State} (h : ∀ k, rdOk (s.st k) (s'.st k)) (hi : RInv s) : RInv s' :=
  (RInv_iff s').mpr fun k => RSt_of_rdOk (h k) ((RInv_iff s).mp hi k)

macro "rdok" : tactic =>
  `(tactic| (intro k'; red; try simp only [if_true, ↓reduceIte, ite_ite_same];
             first | exact rdOk_refl _ | (refine rdOk_ite ?_; simp_all [rdOk]; done)))

theorem RInv_stepPump {s s' : State}  (hi : RInv s) (h : stepPump s  = some s') : RInv s' := by
  unfold stepPump at h
  leaves h
  all_goals (subst h; refine RInv_of_rdOk (s := s) ?_ hi; rdok)

theorem RInv_stepCloseData {s s' : State} {k : Key} (hi : RInv s) (h : stepCloseData s k = some s') : RInv s' := by
  unfold stepCloseData at h
  leaves h
  all_goals (subst h; refine RInv_of_rdOk (s := s) ?_ hi; rdok)

theorem RInv_stepCloseFrame {s s' : State} {k : Key} (hi : RInv s) (h : stepCloseFrame s k = some s') : RInv s' := by
  unfold stepCloseFrame at h
  leaves h
  all_goals (subst h; refine RInv_of_rdOk (s := s) ?_ hi; rdok)

theorem RInv_stepJoinedA {s s' : State} {k : Key} (hi : RInv s) (h : stepJoinedA s k = some s') : RInv s' := by
  unfold stepJoinedA at h
  leaves h
  all_goals (subst h; refine RInv_of_rdOk (s := s) ?_ hi; rdok)

theorem RInv_stepPush {s s' : State} {k : Key} (hi : RInv s) (h : stepPush s k = some s') : RInv s' := by
  unfold stepPush at h
  leaves h
  all_goals (subst h; refine RInv_of_rdOk (s := s) ?_ hi; rdok)

theorem RInv_stepPop {s s' : State} {conn : Bool} {cap : Nat} (hi : RInv s) (h : stepPop s conn cap = some s') : RInv s' := by
  unfold stepPop at h
  leaves h
  all_goals (subst h; refine RInv_of_rdOk (s := s) ?_ hi; rdok)

theorem RInv_stepSendOpen {s s' : State} {k : Key} (hl : LInv s) (hi : RInv s) (h : stepSendOpen s k = some s') : RInv s' := by
  unfold stepSendOpen at h
  have h5 := hl.d5 k
  leaves h
  all_goals (subst h; refine RInv_of_rdOk (s := s) ?_ hi; rdok)

theorem RInv_stepJoinedC {s s' : State} {k : Key} (hi : RInv s) (h : stepJoinedC s k = some s') : RInv s' := by
  unfold stepJoinedC at h
  leaves h
  all_goals (subst h; refine RInv_of_rdOk (s := s) ?_ hi; rdok)

theorem RInv_stepWTake {s s' : State}  (hi : RInv s) (h : stepWTake s  = some s') : RInv s' := by
  unfold stepWTake at h
  leaves h
  all_goals (subst h; refine RInv_of_rdOk (s := s) ?_ hi; rdok)

theorem RInv_stepWDo {s s' : State}  (hi : RInv s) (h : stepWDo s  = some s') : RInv s' := by
  unfold stepWDo at h
  leaves h
  all_goals (subst h; refine RInv_of_rdOk (s := s) ?_ hi; rdok)

theorem RInv_stepWBlock {s s' : State}  (hi : RInv s) (h : stepWBlock s  = some s') : RInv s' := by
  unfold stepWBlock at h
  leaves h
  all_goals (subst h; refine RInv_of_rdOk (s := s) ?_ hi; rdok)

theorem RInv_stepFlushStep {s s' : State} {k : Key} (hi : RInv s) (h : stepFlushStep s k = some s') : RInv s' := by
  unfold stepFlushStep at h
  leaves h
  all_goals (subst h; refine RInv_of_rdOk (s := s) ?_ hi; rdok)

theorem RInv_stepCancelWrite {s s' : State} {k : Key} (hi : RInv s) (h : stepCancelWrite s k = some s') : RInv s' := by
  unfold stepCancelWrite StreamSt.endWrite at h
  leaves h
  all_goals (subst h; refine RInv_of_rdOk (s := s) ?_ hi; rdok)

theorem RInv_stepCancelFlush {s s' : State} {k : Key} (hi : RInv s) (h : stepCancelFlush s k = some s') : RInv s' := by
  unfold stepCancelFlush at h
  leaves h
  all_goals (subst h; refine RInv_of_rdOk (s := s) ?_ hi; rdok)

theorem RInv_stepDoFlush {s s' : State}  (hi : RInv s) (h : stepDoFlush s  = some s') : RInv s' := by
  unfold stepDoFlush at h
  leaves h
  all_goals (subst h; refine RInv_of_rdOk (s := s) ?_ hi; rdok)

theorem RInv_stepAppOpen {s s' : State} {slot : Nat} {conn : Bool} {cap : Nat} (hi : RInv s) (h : stepAppOpen s slot conn cap = some s') : RInv s' := by
  unfold stepAppOpen at h
  leaves h
  all_goals (subst h; refine RInv_of_rdOk (s := s) ?_ hi; rdok)

theorem RInv_stepAppRead {s s' : State} {slot n : Nat} (hi : RInv s) (h : stepAppRead s slot n = some s') : RInv s' := by
  unfold stepAppRead at h
  leaves h
  all_goals (subst h; refine RInv_of_rdOk (s := s) ?_ hi; rdok)

theorem RInv_stepAppWrite {s s' : State} {slot : Nat} {bytes : List Nat} (hi : RInv s) (h : stepAppWrite s slot bytes = some s') : RInv s' := by
  unfold stepAppWrite at h
  leaves h
  all_goals (subst h; refine RInv_of_rdOk (s := s) ?_ hi; rdok)

theorem RInv_stepWriteStep {s s' : State} {k : Key} (hi : RInv s) (h : stepWriteStep s k = some s') : RInv s' := by
  unfold stepWriteStep StreamSt.endWrite at h
  leaves h
  all_goals (subst h; refine RInv_of_rdOk (s := s) ?_ hi; rdok)

theorem RInv_stepAppFlush {s s' : State} {slot : Nat} (hi : RInv s) (h : stepAppFlush s slot = some s') : RInv s' := by
  unfold stepAppFlush at h
  leaves h
  all_goals (subst h; refine RInv_of_rdOk (s := s) ?_ hi; rdok)

theorem RInv_stepAppDrop {s s' : State} {slot : Nat} {r w : Bool} (hi : RInv s) (h : stepAppDrop s slot r w = some s') : RInv s' := by
  unfold stepAppDrop at h
  leaves h
  all_goals (subst h; refine RInv_of_rdOk (s := s) ?_ hi; rdok)


theorem RInv_upd {s s' : State} {k : Key} (ho : ∀ k', k' ≠ k → s'.st k' = s.st k') (hk : RSt (s'.st k))
    (hi : RInv s) : RInv s' := by
  refine (RInv_iff s').mpr fun k' => ?_
  by_cases e : k' = k
  · subst e; exact hk
  · rw [ho k' e]; exact (RInv_iff s).mp hi k'

theorem RInv_stepRecvOpenStart {s s' : State} {k : Key} (hi : RInv s) (h : stepRecvOpenStart s k = some s') : RInv s' := by
  unfold stepRecvOpenStart at h
  leaves h
  subst h
  have ht := (RInv_iff s).mp hi k
  refine RInv_upd (k := k) ?_ ?_ hi
  · intro k' hk'; red; simp [hk']
  · red; simp only [↓reduceIte]
    exact ⟨ht.r5, ht.r4, fun h => absurd rfl h, fun h => absurd rfl h, fun h => absurd rfl h, fun _ => ⟨rfl, rfl⟩,
      fun f hf => by cases hf⟩

theorem getElem?_append_lt {α : Type} (l : List α) (x : α) (i : Nat) (h : i < l.length) : (l ++ [x])[i]? = l[i]? := by
  rw [List.getElem?_append_left h]

theorem RInv_stepDiscard {s s' : State} {k : Key} (hi : RInv s) (h : stepDiscard s k = some s') : RInv s' := by
  unfold stepDiscard at h
  have ht := (RInv_iff s).mp hi k
  leaves h
  · -- an OPEN: the next transient stream starts here
    rename_i hg _ f q hq hk
    have hrp : (s.st k).rphase = .discard := by simp_all
    obtain ⟨hc, hcr⟩ := ht.disc hrp
    subst h
    refine RInv_upd (k := k) ?_ ?_ hi
    · intro k' hk'; red; simp [hk']
    · red; simp only [↓reduceIte]
      constructor
      · simp
      · intro _; exact ⟨f.data, by simp [hk]⟩
      · intro _; simp [sess, dataOf, cacheData, hc]
      · intro _ _ e he; simp [sess] at he
      · intro _ h2; simp [hcr] at h2
      · intro h1; cases h1
      · intro g hg; simp [hc] at hg
  · -- anything else is discarded
    rename_i hg _ f q hq hk
    have hrp : (s.st k).rphase = .discard := by simp_all
    subst h
    refine RInv_upd (k := k) ?_ ?_ hi
    · intro k' hk'; red; simp [hk']
    · red; simp only [↓reduceIte]
      constructor
      · simp; have := ht.r5; omega
      · intro h0
        obtain ⟨d, hd⟩ := ht.r4 h0
        refine ⟨d, ?_⟩
        have := ht.r5
        simp only at h0 ⊢
        rw [getElem?_append_lt _ _ _ (by omega)]; exact hd
      · intro h1; exact absurd hrp h1
      · intro h1; exact absurd hrp h1
      · intro h1; exact absurd hrp h1
      · intro _; exact ht.disc hrp
      · exact ht.ck


theorem sess_append {t : StreamSt} (h : t.sessStart ≤ t.taken.length) (x : FK × List Nat) :
    (t.taken ++ [x]).drop t.sessStart = sess t ++ [x] := by
  unfold sess; rw [List.drop_append_of_le_length h]

/-- the frame `f` (of kind DATA) is consumed, partly or completely -/
theorem readF_data {f : RFrame} {t t' : StreamSt} (hk : f.kind = .data) (h : ReadF f t t') :
    ∃ n, n ≤ f.data.length ∧ t'.delivered = t.delivered ++ f.data.take n ∧ t'.closeRecv = false ∧
      t'.cache = if f.data.drop n = [] then none else some { f with data := f.data.drop n } := by
  unfold ReadF at h; rw [hk] at h; simp only at h
  obtain ⟨n, a, b, c, d⟩ := h
  exact ⟨n, a, b, c, by rw [hk]; exact d⟩

theorem cacheData_after {f : RFrame} {t' : StreamSt} {n : Nat}
    (h : t'.cache = if f.data.drop n = [] then none else some { f with data := f.data.drop n }) :
    cacheData t' = f.data.drop n := by
  unfold cacheData; rw [h]
  split
  · rename_i g hg; split at hg
    · cases hg
    · injection hg with hg; subst hg; rfl
  · rename_i hg; split at hg
    · rename_i e; exact e.symm
    · cases hg

theorem RInv_stepReadStep {s s' : State} {k : Key} (hl : LInv s) (hi : RInv s) (h : stepReadStep s k = some s') :
    RInv s' := by
  obtain ⟨other, _, pend, rph, sst, cases⟩ := readStep_eff h
  have ht := (RInv_iff s).mp hi k
  have hwl : (s.st k).rphase = .waitLock := by
    have hr := hl.pr k pend
    cases hp : (s.st k).rphase with
    | waitLock => rfl
    | discard => have := hl.d2 k (by rw [hp]; decide); rw [hr] at this; cases this
    | done => have := hl.d2 k (by rw [hp]; decide); rw [hr] at this; cases this
  have hnd : (s.st k).rphase ≠ .discard := by rw [hwl]; decide
  refine RInv_upd (k := k) other ?_ hi
  have hnd' : (s'.st k).rphase ≠ .discard := by rw [rph]; exact hnd
  rcases cases with ⟨hq, hc, htk, hd, hcr⟩ | ⟨f, hcr0, hc0, hq, htk, hrf⟩ | ⟨f, q, hcr0, hc0, hq0, hq, htk, hrf⟩
  · -- nothing consumed
    exact RSt_of_rdOk ⟨htk, sst, hd, hc, hcr, by rw [rph]⟩ ht
  · -- the cached rest of a DATA frame
    have hkind := ht.ck f hc0
    obtain ⟨n, hn, hdel, hcr', hc'⟩ := readF_data hkind hrf
    have hs : sess (s'.st k) = sess (s.st k) := by unfold sess; rw [htk, sst]
    have hcd : cacheData (s.st k) = f.data := by unfold cacheData; rw [hc0]
    constructor
    · rw [htk, sst]; exact ht.r5
    · rw [htk, sst]; exact ht.r4
    · intro _
      rw [hdel, cacheData_after hc', hs, ← ht.r1 hnd, hcd, List.append_assoc, List.take_append_drop]
    · intro _ _; rw [hs]; exact ht.r2 hnd hcr0
    · intro _ h2; rw [hcr'] at h2; cases h2
    · intro h1; exact absurd h1 hnd'
    · intro g hg; rw [hc'] at hg; split at hg
      · cases hg
      · injection hg with hg; subst hg; exact hkind
  · -- a frame from the queue
    have hs : sess (s'.st k) = sess (s.st k) ++ [absF f] := by
      unfold sess; rw [htk, sst]; exact sess_append ht.r5 _
    have hcd : cacheData (s.st k) = [] := by unfold cacheData; rw [hc0]
    have hr1 := ht.r1 hnd
    rw [hcd, List.append_nil] at hr1
    have hr2 := ht.r2 hnd hcr0
    have h5 : (s'.st k).sessStart ≤ (s'.st k).taken.length := by
      rw [htk, sst]; simp; have := ht.r5; omega
    have h4 : 0 < (s'.st k).sessStart → ∃ d, (s'.st k).taken[(s'.st k).sessStart - 1]? = some (FK.open, d) := by
      rw [htk, sst]; intro h0
      obtain ⟨d, hd⟩ := ht.r4 h0
      have := ht.r5
      exact ⟨d, by rw [getElem?_append_lt _ _ _ (by omega)]; exact hd⟩
    cases hkind : f.kind with
    | «open» =>
      unfold ReadF at hrf; rw [hkind] at hrf; simp only at hrf
      obtain ⟨hc', hdel, hcr'⟩ := hrf
      refine ⟨h5, h4, ?_, ?_, ?_, fun h1 => absurd h1 hnd', fun g hg => by rw [hc'] at hg; cases hg⟩
      · intro _; rw [hdel, hs, dataOf_append, ← hr1]; simp [cacheData, hc', dataOf, absF, hkind]
      · intro _ _ e he; rw [hs] at he
        rcases List.mem_append.mp he with he | he
        · exact hr2 e he
        · simp [absF, hkind] at he; subst he; simp
      · intro _ h2; rw [hcr'] at h2; cases h2
    | close =>
      unfold ReadF at hrf; rw [hkind] at hrf; simp only at hrf
      obtain ⟨hc', hdel, hcr'⟩ := hrf
      refine ⟨h5, h4, ?_, ?_, ?_, fun h1 => absurd h1 hnd', fun g hg => by rw [hc'] at hg; cases hg⟩
      · intro _; rw [hdel, hs, dataOf_append, ← hr1]; simp [cacheData, hc', dataOf, absF, hkind]
      · intro _ h2; rw [hcr'] at h2; cases h2
      · intro _ _; exact ⟨sess (s.st k), f.data, by rw [hs]; simp [absF, hkind], hr2⟩
    | data =>
      obtain ⟨n, hn, hdel, hcr', hc'⟩ := readF_data hkind hrf
      refine ⟨h5, h4, ?_, ?_, ?_, fun h1 => absurd h1 hnd', ?_⟩
      · intro _
        rw [hdel, cacheData_after hc', hs, dataOf_append, ← hr1, List.append_assoc, List.take_append_drop]
        simp [dataOf, absF, hkind]
      · intro _ _ e he; rw [hs] at he
        rcases List.mem_append.mp he with he | he
        · exact hr2 e he
        · simp [absF, hkind] at he; subst he; simp
      · intro _ h2; rw [hcr'] at h2; cases h2
      · intro g hg; rw [hc'] at hg; split at hg
        · cases hg
        · injection hg with hg; subst hg; exact hkind

theorem RInv_step {s s' : State} {e : Event} (hl : LInv s) (hi : RInv s) (h : step? s e = some s') : RInv s' := by
  cases e <;> simp only [step?] at h
  case wireIn f => cases h; exact RInv_of_rdOk (s := s) (fun k => rdOk_refl _) hi
  case wireEof => cases h; exact RInv_of_rdOk (s := s) (fun k => rdOk_refl _) hi
  case pump => exact RInv_stepPump hi h
  case recvOpenStart k => exact RInv_stepRecvOpenStart hi h
  case discard k => exact RInv_stepDiscard hi h
  case closeData k => exact RInv_stepCloseData hi h
  case closeFrame k => exact RInv_stepCloseFrame hi h
  case joinedA k => exact RInv_stepJoinedA hi h
  case push k => exact RInv_stepPush hi h
  case pop c x => exact RInv_stepPop hi h
  case sendOpen k => exact RInv_stepSendOpen hl hi h
  case joinedC k => exact RInv_stepJoinedC hi h
  case doFlush => exact RInv_stepDoFlush hi h
  case appOpen a b c => exact RInv_stepAppOpen hi h
  case appRead a b => exact RInv_stepAppRead hi h
  case readStep k => exact RInv_stepReadStep hl hi h
  case appWrite a b => exact RInv_stepAppWrite hi h
  case writeStep k => exact RInv_stepWriteStep hi h
  case appFlush a => exact RInv_stepAppFlush hi h
  case appDrop a b c => exact RInv_stepAppDrop hi h
  case wtake => exact RInv_stepWTake hi h
  case wdo => exact RInv_stepWDo hi h
  case wblock => exact RInv_stepWBlock hi h
  case txWindow l => cases h; exact RInv_of_rdOk (s := s) (fun k => rdOk_refl _) hi
  case flushStep k => exact RInv_stepFlushStep hi h
  case cancelWrite k => exact RInv_stepCancelWrite hi h
  case cancelFlush k => exact RInv_stepCancelFlush hi h

theorem RInv_reachable {s : State} (h : Reachable s) : RInv s := by
  have : LInv s ∧ RInv s :=
    reachable_inv (P := fun s => LInv s ∧ RInv s) (fun c a b d e => ⟨LInv_init c a b d e, RInv_init c a b d e⟩)
      (fun _ _ _ hi hs => ⟨LInv_step hi.1 hs, RInv_step hi.1 hi.2 hs⟩) h
  exact this.2

end EraVerif.Proofs.Mux
