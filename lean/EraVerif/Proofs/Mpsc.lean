import EraVerif.Model.Mpsc

/-!
Helper definitions and lemmas for C16 (a): the prunable queue with the bft selection function.
Core Lean only (no Mathlib).
-/

namespace EraVerif.Proofs.Mpsc
open EraVerif.Model.Mpsc

/-! ## The generic channel -/

theorem retainLoop_eq {α : Type} (sel : α → α → Sel) (v : α) (l : List α) :
    retainLoop sel v l
      = (l.filter (fun x => sel x v != Sel.discardOld), l.all (fun x => sel x v != Sel.discardNew)) := by
  induction l with
  | nil => rfl
  | cons x xs ih =>
    simp only [retainLoop, ih]
    cases h : sel x v <;> simp [h]

theorem sendGen_eq {α : Type} (filter : α → Bool) (sel : α → α → Sel) (buf : List α) (v : α) :
    sendGen filter sel buf v =
      if filter v = false then buf
      else if buf.all (fun x => sel x v != Sel.discardNew)
        then buf.filter (fun x => sel x v != Sel.discardOld) ++ [v]
        else buf.filter (fun x => sel x v != Sel.discardOld) := by
  simp only [sendGen, retainLoop_eq]

/-- For any filter and selection function a `send` never empties a non-empty buffer: if every pending
element is discarded, no element said `DiscardNew`, so the new value is pushed. -/
theorem sendGen_ne_nil {α : Type} (filter : α → Bool) (sel : α → α → Sel) (buf : List α) (v : α)
    (h : buf ≠ []) : sendGen filter sel buf v ≠ [] := by
  rw [sendGen_eq]
  split
  · exact h
  · split
    · simp
    · rename_i hk
      intro hf
      apply hk
      rw [List.all_eq_true]
      intro x hx
      have : x ∉ buf.filter (fun x => sel x v != Sel.discardOld) := by rw [hf]; simp
      rw [List.mem_filter] at this
      have h2 : sel x v = Sel.discardOld := by
        cases hs : sel x v <;> simp_all
      simp [h2]

/-! ## The bft instance -/

/-- sender and kind: the slot a message competes for -/
def cls (m : Msg) : Nat × Kind := (m.sender, m.kind)

theorem cls_eq_iff (a b : Msg) : cls a = cls b ↔ a.sender = b.sender ∧ a.kind = b.kind := by
  simp [cls]

theorem sel_discardOld_iff (x m : Msg) : bftSel x m = Sel.discardOld ↔ cls x = cls m ∧ x.view < m.view := by
  unfold bftSel
  rw [cls_eq_iff]
  by_cases h1 : x.sender = m.sender <;> by_cases h2 : x.kind = m.kind <;> by_cases h3 : x.view < m.view <;>
    simp [h1, h2, h3]

theorem sel_discardNew_iff (x m : Msg) : bftSel x m = Sel.discardNew ↔ cls x = cls m ∧ m.view ≤ x.view := by
  unfold bftSel
  rw [cls_eq_iff]
  by_cases h1 : x.sender = m.sender <;> by_cases h2 : x.kind = m.kind <;> by_cases h3 : x.view < m.view <;>
    simp [h1, h2, h3] <;> omega

theorem sel_keep_iff (x m : Msg) : bftSel x m = Sel.keep ↔ cls x ≠ cls m := by
  unfold bftSel
  simp only [ne_eq, cls_eq_iff]
  by_cases h1 : x.sender = m.sender <;> by_cases h2 : x.kind = m.kind <;> by_cases h3 : x.view < m.view <;>
    simp [h1, h2, h3]

/-- the retained part of the buffer -/
def retained (buf : List Msg) (m : Msg) : List Msg := buf.filter (fun x => bftSel x m != Sel.discardOld)

theorem send_eq (buf : List Msg) (m : Msg) :
    send buf m =
      if m.sigOk = false then buf
      else if buf.all (fun x => bftSel x m != Sel.discardNew) then retained buf m ++ [m] else retained buf m := by
  show sendGen bftFilter bftSel buf m = _
  rw [sendGen_eq]
  rfl

theorem mem_retained (buf : List Msg) (m x : Msg) :
    x ∈ retained buf m ↔ x ∈ buf ∧ ¬(cls x = cls m ∧ x.view < m.view) := by
  simp [retained, List.mem_filter, sel_discardOld_iff]

theorem keepNew_iff (buf : List Msg) (m : Msg) :
    buf.all (fun x => bftSel x m != Sel.discardNew) = true ↔ ∀ y ∈ buf, cls y = cls m → y.view < m.view := by
  simp only [List.all_eq_true, bne_iff_ne, ne_eq, sel_discardNew_iff]
  constructor
  · intro h y hy hc
    have := h y hy
    by_cases hv : y.view < m.view
    · exact hv
    · exact absurd ⟨hc, by omega⟩ this
  · intro h y hy hc
    have := h y hy hc.1
    have := hc.2
    omega

/-- Exact membership after a `send`. -/
theorem mem_send_iff (buf : List Msg) (m x : Msg) :
    x ∈ send buf m ↔
      (x ∈ buf ∧ ¬(m.sigOk = true ∧ cls x = cls m ∧ x.view < m.view))
      ∨ (x = m ∧ m.sigOk = true ∧ ∀ y ∈ buf, cls y = cls m → y.view < m.view) := by
  rw [send_eq]
  by_cases hs : m.sigOk = true
  · simp only [hs, Bool.true_eq_false, if_false, true_and]
    by_cases hk : buf.all (fun x => bftSel x m != Sel.discardNew) = true
    · have hk' := (keepNew_iff buf m).mp hk
      simp only [hk, if_true, List.mem_append, mem_retained, List.mem_singleton]
      constructor
      · rintro (h | h)
        · exact Or.inl h
        · exact Or.inr ⟨h, hk'⟩
      · rintro (h | h)
        · exact Or.inl h
        · exact Or.inr h.1
    · have hk' : ¬ ∀ y ∈ buf, cls y = cls m → y.view < m.view := fun h => hk ((keepNew_iff buf m).mpr h)
      rw [if_neg hk]
      simp only [mem_retained]
      constructor
      · intro h; exact Or.inl h
      · rintro (h | h)
        · exact h
        · exact absurd h.2 hk'
  · have hs' : m.sigOk = false := by simpa using hs
    simp [hs']

/-- one message per sender and kind -/
def Distinct (buf : List Msg) : Prop := buf.Pairwise (fun a b => cls a ≠ cls b)

theorem distinct_send (buf : List Msg) (m : Msg) (h : Distinct buf) : Distinct (send buf m) := by
  rw [send_eq]
  have hr : Distinct (retained buf m) := List.Pairwise.filter _ h
  split
  · exact h
  · split
    · rename_i hk
      have hk' := (keepNew_iff buf m).mp hk
      unfold Distinct
      rw [List.pairwise_append]
      refine ⟨hr, by simp, ?_⟩
      intro a ha b hb
      simp only [List.mem_singleton] at hb
      subst hb
      rw [mem_retained] at ha
      intro hc
      exact ha.2 ⟨hc, hk' a ha.1 hc⟩
    · exact hr

theorem distinct_tail {h : Msg} {r : List Msg} (hd : Distinct (h :: r)) : Distinct r :=
  (List.pairwise_cons.mp hd).2

/-- A sender-and-kind slot list: all `(s, k)` for `s ∈ S`. -/
def slots (S : List Nat) : List (Nat × Kind) :=
  S.flatMap fun s => [(s, Kind.proposal), (s, Kind.commit), (s, Kind.timeout), (s, Kind.newView)]

theorem slots_length (S : List Nat) : (slots S).length = 4 * S.length := by
  induction S with
  | nil => rfl
  | cons s S ih =>
    simp only [slots, List.flatMap_cons, List.length_append, List.length_cons, List.length_nil] at ih ⊢
    omega

theorem mem_slots (S : List Nat) (s : Nat) (k : Kind) (h : s ∈ S) : (s, k) ∈ slots S := by
  simp only [slots, List.mem_flatMap]
  refine ⟨s, h, ?_⟩
  cases k <;> simp

theorem distinct_length_le (buf : List Msg) (S : List Nat) (hd : Distinct buf) (hS : ∀ x ∈ buf, x.sender ∈ S) :
    buf.length ≤ 4 * S.length := by
  have hn : (buf.map cls).Nodup := by
    unfold List.Nodup
    rw [List.pairwise_map]
    exact hd
  have hsub : buf.map cls ⊆ slots S := by
    intro c hc
    rw [List.mem_map] at hc
    obtain ⟨x, hx, rfl⟩ := hc
    exact mem_slots S x.sender x.kind (hS x hx)
  have := List.Nodup.length_le_of_subset hn hsub
  rw [List.length_map, slots_length] at this
  exact this

/-! ## Runs -/

/-- induction from the back of a list -/
theorem rev_ind {α : Type} {motive : List α → Prop} (nil : motive [])
    (snoc : ∀ l a, motive l → motive (l ++ [a])) : ∀ l, motive l := by
  intro l
  have h : ∀ r : List α, motive r.reverse := by
    intro r
    induction r with
    | nil => exact nil
    | cons a r ih => rw [List.reverse_cons]; exact snoc _ _ ih
  have := h l.reverse
  rwa [List.reverse_reverse] at this

theorem runFrom_append (s : St) (a b : List Ev) : runFrom s (a ++ b) = runFrom (runFrom s a) b := by
  simp [runFrom, List.foldl_append]

theorem runFrom_cons (s : St) (e : Ev) (es : List Ev) : runFrom s (e :: es) = runFrom (step s e) es := rfl

theorem run_snoc (evs : List Ev) (e : Ev) : run (evs ++ [e]) = step (run evs) e := by
  simp [run, runFrom, List.foldl_append]

theorem arrivals_append (a b : List Ev) : arrivals (a ++ b) = arrivals a ++ arrivals b := by
  induction a with
  | nil => rfl
  | cons e es ih => cases e <;> simp [arrivals, ih]

/-- Induction principle over reachable states: a predicate on `(evs, run evs)` that holds initially and is
preserved by appending one event holds for every event list. -/
theorem run_induction {P : List Ev → St → Prop} (h0 : P [] {})
    (hstep : ∀ evs e, P evs (run evs) → P (evs ++ [e]) (step (run evs) e)) : ∀ evs, P evs (run evs) := by
  intro evs
  induction evs using rev_ind with
  | nil => exact h0
  | snoc evs e ih => rw [run_snoc]; exact hstep evs e ih

/-! ## One step, by its effect on `buf` and `out` -/

theorem step_cases (s : St) (e : Ev) :
    (∃ m, e = Ev.send m ∧ (step s e).buf = send s.buf m ∧ (step s e).out = s.out)
    ∨ ((step s e).buf = s.buf ∧ (step s e).out = s.out ∧ arrivals [e] = [])
    ∨ (∃ h r, e = Ev.pop ∧ s.armed = true ∧ s.buf = h :: r ∧ (step s e).buf = r ∧ (step s e).out = s.out ++ [h]) := by
  cases e with
  | send m => exact Or.inl ⟨m, rfl, rfl, rfl⟩
  | wait =>
    refine Or.inr (Or.inl ?_)
    simp only [step]
    split <;> simp [arrivals]
  | pop =>
    by_cases ha : s.armed = true
    · cases hb : s.buf with
      | nil => exact Or.inr (Or.inl (by simp [step, ha, hb, arrivals]))
      | cons h r => exact Or.inr (Or.inr ⟨h, r, rfl, ha, rfl, by simp [step, ha, hb], by simp [step, ha, hb]⟩)
    · exact Or.inr (Or.inl (by simp [step, ha, arrivals]))

/-- a validly signed message leaves, in the buffer, a message of its slot with at least its view -/
theorem send_leaves_fresh (buf : List Msg) (m : Msg) (hs : m.sigOk = true) :
    ∃ y ∈ send buf m, cls y = cls m ∧ m.view ≤ y.view := by
  by_cases hk : ∀ y ∈ buf, cls y = cls m → y.view < m.view
  · exact ⟨m, (mem_send_iff buf m m).mpr (Or.inr ⟨rfl, hs, hk⟩), rfl, Nat.le_refl _⟩
  · have : ∃ z, z ∈ buf ∧ cls z = cls m ∧ ¬ z.view < m.view := by
      apply Classical.byContradiction
      intro hn
      apply hk
      intro y hy hc
      apply Classical.byContradiction
      intro hv
      exact hn ⟨y, hy, hc, hv⟩
    obtain ⟨z, hz, hc, hv⟩ := this
    refine ⟨z, (mem_send_iff buf m z).mpr (Or.inl ⟨hz, fun h => hv h.2.2⟩), hc, by omega⟩

/-- a pending message is still represented after any `send`: itself, or a fresher one of its slot -/
theorem send_keeps_fresh (buf : List Msg) (m x : Msg) (hx : x ∈ buf) :
    ∃ y ∈ send buf m, cls y = cls x ∧ x.view ≤ y.view := by
  by_cases he : m.sigOk = true ∧ cls x = cls m ∧ x.view < m.view
  · obtain ⟨y, hy, hc, hv⟩ := send_leaves_fresh buf m he.1
    exact ⟨y, hy, by rw [hc, he.2.1], by have := he.2.2; omega⟩
  · exact ⟨x, (mem_send_iff buf m x).mpr (Or.inl ⟨hx, he⟩), rfl, Nat.le_refl _⟩

theorem out_grows (evs : List Ev) : ∀ s : St, ∃ o, (runFrom s evs).out = s.out ++ o := by
  induction evs with
  | nil => intro s; exact ⟨[], by simp [runFrom]⟩
  | cons e es ih =>
    intro s
    rw [runFrom_cons]
    obtain ⟨o, ho⟩ := ih (step s e)
    rcases step_cases s e with ⟨m, _, _, h⟩ | ⟨_, h, _⟩ | ⟨h', r, _, _, _, _, h⟩
    · exact ⟨o, by rw [ho, h]⟩
    · exact ⟨o, by rw [ho, h]⟩
    · exact ⟨[h'] ++ o, by rw [ho, h]; simp⟩

/-- A pending message is, after any further events, represented by a message of its slot with at least its
view that is still pending or has been delivered in the meantime. -/
theorem pending_survives (evs : List Ev) : ∀ (s : St) (x : Msg), x ∈ s.buf →
    ∃ y o, cls y = cls x ∧ x.view ≤ y.view ∧ (runFrom s evs).out = s.out ++ o
      ∧ (y ∈ (runFrom s evs).buf ∨ y ∈ o) := by
  induction evs with
  | nil => intro s x hx; exact ⟨x, [], rfl, Nat.le_refl _, by simp [runFrom], Or.inl hx⟩
  | cons e es ih =>
    intro s x hx
    rw [runFrom_cons]
    rcases step_cases s e with ⟨m, rfl, hb, ho⟩ | ⟨hb, ho, _⟩ | ⟨h', r, _, _, hbuf, hb, ho⟩
    · obtain ⟨y0, hy0, hc0, hv0⟩ := send_keeps_fresh s.buf m x hx
      rw [← hb] at hy0
      obtain ⟨y, o, hc, hv, hout, hmem⟩ := ih (step s (Ev.send m)) y0 hy0
      exact ⟨y, o, by rw [hc, hc0], by omega, by rw [hout, ho], hmem⟩
    · rw [← hb] at hx
      obtain ⟨y, o, hc, hv, hout, hmem⟩ := ih (step s e) x hx
      exact ⟨y, o, hc, hv, by rw [hout, ho], hmem⟩
    · rw [hbuf] at hx
      rcases List.mem_cons.mp hx with rfl | hxr
      · obtain ⟨o, hout⟩ := out_grows es (step s e)
        exact ⟨x, [x] ++ o, rfl, Nat.le_refl _, by rw [hout, ho]; simp, Or.inr (by simp)⟩
      · rw [← hb] at hxr
        obtain ⟨y, o, hc, hv, hout, hmem⟩ := ih (step s e) x hxr
        refine ⟨y, [h'] ++ o, hc, hv, by rw [hout, ho]; simp, ?_⟩
        rcases hmem with h | h
        · exact Or.inl h
        · exact Or.inr (by simp [h])

/-! ## "keep the freshest; on a tie keep the earlier" over an arrival list -/

/-- one arrival against the current holder of the slot -/
def fresher (acc : Option Msg) (m : Msg) : Option Msg :=
  match acc with
  | none => some m
  | some x => if x.view < m.view then some m else some x

/-- The first element of maximal view. -/
def firstMax (l : List Msg) : Option Msg := l.foldl fresher none

theorem firstMax_snoc (l : List Msg) (m : Msg) : firstMax (l ++ [m]) = fresher (firstMax l) m := by
  simp [firstMax, List.foldl_append]

theorem firstMax_none_iff (l : List Msg) : firstMax l = none ↔ l = [] := by
  induction l using rev_ind with
  | nil => simp [firstMax]
  | snoc l m _ =>
    rw [firstMax_snoc]
    cases firstMax l <;> simp [fresher]
    split <;> simp

/-- `firstMax` really is the first arrival attaining the maximal view. -/
theorem firstMax_spec (l : List Msg) (x : Msg) (h : firstMax l = some x) :
    ∃ l1 l2, l = l1 ++ x :: l2 ∧ (∀ y ∈ l1, y.view < x.view) ∧ (∀ y ∈ l2, y.view ≤ x.view) := by
  induction l using rev_ind generalizing x with
  | nil => simp [firstMax] at h
  | snoc l m ih =>
    rw [firstMax_snoc] at h
    cases hf : firstMax l with
    | none =>
      have : l = [] := (firstMax_none_iff l).mp hf
      subst this
      simp only [hf, fresher, Option.some.injEq] at h
      subst h
      exact ⟨[], [], by simp, by simp, by simp⟩
    | some x0 =>
      obtain ⟨l1, l2, hl, h1, h2⟩ := ih x0 hf
      simp only [hf, fresher] at h
      split at h
      · rename_i hlt
        simp only [Option.some.injEq] at h
        subst h
        refine ⟨l, [], by simp, ?_, by simp⟩
        intro y hy
        rw [hl] at hy
        simp only [List.mem_append, List.mem_cons] at hy
        rcases hy with hy | rfl | hy
        · have := h1 y hy; omega
        · exact hlt
        · have := h2 y hy; omega
      · rename_i hge
        simp only [Option.some.injEq] at h
        subst h
        refine ⟨l1, l2 ++ [m], by simp [hl], h1, ?_⟩
        intro y hy
        simp only [List.mem_append, List.mem_singleton] at hy
        rcases hy with hy | rfl
        · exact h2 y hy
        · omega

/-! ## Ghost history used in the statement of `pending_is_max_since_last_recv` -/

/-- Ghost history (not part of the channel): per sender-and-kind slot, the validly signed arrivals since the
slot was last emptied by a delivery. -/
def sinceStep (s : St) (g : Nat × Kind → List Msg) : Ev → (Nat × Kind → List Msg)
  | .send m => if m.sigOk = true then (fun c => if c = cls m then g c ++ [m] else g c) else g
  | .wait => g
  | .pop =>
    if s.armed = true then
      match s.buf with
      | [] => g
      | h :: _ => fun c => if c = cls h then [] else g c
    else g

def runG (evs : List Ev) : St × (Nat × Kind → List Msg) :=
  evs.foldl (fun p e => (step p.1 e, sinceStep p.1 p.2 e)) ({}, fun _ => [])

/-- validly signed arrivals of sender `c.1` and kind `c.2` since that slot was last emptied by `recv` -/
def since (evs : List Ev) (c : Nat × Kind) : List Msg := (runG evs).2 c

theorem runG_fst (evs : List Ev) : (runG evs).1 = run evs := by
  induction evs using rev_ind with
  | nil => rfl
  | snoc evs e ih =>
    rw [run_snoc, ← ih]
    simp [runG, List.foldl_append]

theorem since_snoc (evs : List Ev) (e : Ev) : since (evs ++ [e]) = sinceStep (run evs) (since evs) e := by
  funext c
  simp only [since, runG, List.foldl_append, List.foldl_cons, List.foldl_nil]
  rw [← runG_fst]
  rfl

end EraVerif.Proofs.Mpsc
