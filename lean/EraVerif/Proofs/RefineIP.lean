import EraVerif.Proofs.RefineIPAbs

/-!
# Refinement Layer I → Layer P, part 4: the global invariant and the simulation

* `absG g` — the abstraction of a global code-level state to a Layer-P state;
* `GInv` — every correct validator satisfies `LAInv` w.r.t. the signatures that exist in `g`;
* `cert_of_qc` / `tqc_valid` — a verifying, authentic commit (timeout) certificate is a Layer-P `Cert` (`TQC.valid`);
* `sim_step` — every global step preserves `GInv` and is matched by zero or more Layer-P steps.
-/

namespace EraVerif.Proofs.RefineIP
open EraVerif.Model EraVerif.Safety EraVerif.Refine EraVerif.Proofs.Certs EraVerif.Proofs.ReplicaStep
open EraVerif.Proofs.Crash (dur Agree)

variable {cfg : RCfg}

/-- the Byzantine set as the predicate `Model/Global.lean` takes -/
abbrev Byz (byz : Finset (Fin cfg.c.n)) : Fin cfg.c.n → Prop := fun i => i ∈ byz

/-- per validator: the durable state a restart would read, and the history of durable states -/
def fOf (g : Global cfg) : Fin cfg.c.n → Durable × List Durable := fun i => (dur (g.sys i), g.hist i)

/-- **The abstraction** of a global code-level state -/
def absG (g : Global cfg) : PState (Fin cfg.c.n) := absOf (fOf g)

/-- the global invariant -/
def GInv (cfg : RCfg) (byz : Finset (Fin cfg.c.n)) (g : Global cfg) : Prop :=
  ∀ i, i ∉ byz → LAInv cfg (sigsOf (Byz byz) g) (g.sys i) (g.hist i)

theorem ginv_init (byz : Finset (Fin cfg.c.n)) : GInv cfg byz (Global.init cfg) :=
  fun _ _ => lainv_init cfg _

theorem absG_init : absG (Global.init cfg) = (PState.init : PState (Fin cfg.c.n)) := by
  apply pstate_ext <;> funext i <;>
    simp [absG, absOf, fOf, Global.init, PState.init, dur, Sys.init, initDurable, votedIn, votesOf, absPh]
  funext t r
  simp [toutIn]

/-! ## recorded votes -/

theorem votedIn_of_mem {h : List Durable} {v : Vote}
    (uniq : ∀ v1 ∈ votesOf h, ∀ v2 ∈ votesOf h, v1.view.number = v2.view.number → v1 = v2) (hv : v ∈ votesOf h) :
    votedIn h v.view.number = some (v.proposal.number, v.proposal.payload) := by
  unfold votedIn
  have hs : ((votesOf h).find? (fun v' => v'.view.number == v.view.number)).isSome := by
    rw [List.find?_isSome]
    exact ⟨v, hv, by simp⟩
  obtain ⟨x, hx⟩ := Option.isSome_iff_exists.mp hs
  have hxm := List.mem_of_find?_eq_some hx
  have hxp : x.view.number = v.view.number := by simpa using List.find?_some hx
  have : x = v := uniq x hxm v hv hxp
  rw [hx, this]
  rfl

theorem LInv.votes_uniq {s : Sys} {h : List Durable} (hI : LInv cfg s h) :
    ∀ v1 ∈ votesOf h, ∀ v2 ∈ votesOf h, v1.view.number = v2.view.number → v1 = v2 := by
  intro v1 h1 v2 h2 he
  obtain ⟨d1, hd1, e1⟩ := mem_votesOf.mp h1
  obtain ⟨d2, hd2, e2⟩ := mem_votesOf.mp h2
  exact hI.uniq d1 hd1 d2 hd2 v1 v2 e1 e2 he

theorem histOk_of_linv {s : Sys} {h : List Durable} (hI : LInv cfg s h) (x : Option CommitQC) :
    HistOk { dur s with highCommitQC := x } h := by
  constructor
  · intro v hv
    obtain ⟨d0, hd0, h0⟩ := hI.dur_vote hv
    exact mem_votesOf.mpr ⟨d0, hd0, h0⟩
  · intro v hv
    obtain ⟨d0, hd0, h0⟩ := mem_votesOf.mp hv
    have := hI.bound d0 hd0 v h0
    exact ⟨this.1, fun he => (this.2 he).1⟩

/-! ## certificates -/

section certs
variable {byz : Finset (Fin cfg.c.n)} {g : Global cfg}

/-- **A verifying commit certificate all of whose correct signers have sent the vote is a Layer-P certificate.** -/
theorem cert_of_qc (hG : GInv cfg byz g) {q : CommitQC} (hv : q.verify cfg.c = true)
    (ha : AuthCQC (sigsOf (Byz byz) g) q) :
    Cert (wF cfg.c) byz (absG g).st (refOfQC q).view (refOfQC q).num (refOfQC q).hash := by
  obtain ⟨_, _, _, hw, hperm⟩ := (commitQC_verify_iff cfg.c q).mp hv
  refine ⟨bits cfg.c q.signers, ?_, ?_⟩
  · rw [quorum_wF, ← weightOf_eq_wt]
    exact hw
  · intro i hi hib
    have hbit : q.signers.getD i.val false = true := by simpa [bits] using hi
    have hidx : i.val ∈ signerIdxs q.signers := (mem_signerIdxs_iff _ _).mpr ((getD_true_iff _ _).mp hbit)
    have hmem : (i.val, q.message) ∈ q.sig := hperm.mem_iff.mpr (List.mem_map.mpr ⟨i.val, hidx, rfl⟩)
    have hsent : Msg.commit q.message ∈ (g.sys i).sent := ha _ hmem i.isLt hib
    obtain ⟨d0, hd0, hv0⟩ := (hG i hib).linv.sentC q.message hsent
    show votedIn (g.hist i) q.message.view.number = some (q.message.proposal.number, q.message.proposal.payload)
    exact votedIn_of_mem (hG i hib).linv.votes_uniq (mem_votesOf.mpr ⟨d0, hd0, hv0⟩)

theorem tvote_highQC_verify {c : Committee} {t : TVote} (h : t.verify c = true) {cq : CommitQC}
    (hq : t.highQC = some cq) : cq.verify c = true := by
  simp only [TVote.verify, Bool.and_eq_true] at h
  have := h.2
  rw [hq] at this
  exact this

/-- **A verifying, authentic timeout certificate is valid w.r.t. the history.** -/
theorem tqc_valid (hG : GInv cfg byz g) {t : TimeoutQC} (hv : t.verify cfg.c = true)
    (ha : AuthTQC (sigsOf (Byz byz) g) t) : (absTQC cfg.c t).valid (wF cfg.c) byz (absG g).st := by
  obtain ⟨_, _, hgr, _, _, hperm⟩ := (timeoutQC_verify_iff cfg.c t).mp hv
  refine ⟨quorum_le_signers cfg.c t hv, ?_, ?_⟩
  · intro i hi hib
    obtain ⟨e, he, hbit, hrep⟩ := rep_of_signer cfg.c t i hi
    have hexp : (i.val, e.1) ∈ t.expected := by
      unfold TimeoutQC.expected
      rw [List.mem_flatMap]
      refine ⟨e, he, ?_⟩
      obtain ⟨m, sgn⟩ := e
      exact List.mem_map.mpr ⟨i.val, (mem_signerIdxs_iff _ _).mpr ((getD_true_iff _ _).mp hbit), rfl⟩
    have hmem := hperm.mem_iff.mpr hexp
    have hsent : Msg.timeout e.1 ∈ (g.sys i).sent := ha.1 _ hmem i.isLt hib
    obtain ⟨d0, hd0, hp, hvw, hhv, hhq⟩ := (hG i hib).linv.sentT e.1 hsent
    show toutIn (g.hist i) t.view.number ((absTQC cfg.c t).rep i)
    refine ⟨d0, hd0, hp, ?_, ?_⟩
    · rw [hvw, (hgr e he).1]
    · rw [hrep]
      simp [repOfD, hhv, hhq]
  · intro i hi c hc
    obtain ⟨e, he, _, hrep⟩ := rep_of_signer cfg.c t i hi
    rw [hrep] at hc
    simp only [Option.map_eq_some_iff] at hc
    obtain ⟨cq, hcq, rfl⟩ := hc
    exact cert_of_qc hG (tvote_highQC_verify (hgr e he).2.2.2 hcq) (ha.2 e he cq hcq)

end certs

/-! ## a durable write is matched by Layer-P steps -/

section write
variable {byz : Finset (Fin cfg.c.n)} {g : Global cfg}

theorem fOf_at (g : Global cfg) (i : Fin cfg.c.n) : fOf g i = (dur (g.sys i), g.hist i) := rfl

/-- the state of the abstraction after the `learn` step(s) to the live certificate `x` -/
theorem learn_to (hG : GInv cfg byz g) {i : Fin cfg.c.n} (hi : i ∉ byz) (x : Option CommitQC)
    (hq : QLe (dur (g.sys i)).highCommitQC x) (hv : ∀ q, x = some q → q.verify cfg.c = true)
    (ha : ∀ q, x = some q → AuthCQC (sigsOf (Byz byz) g) q) :
    Relation.ReflTransGen (Step (wF cfg.c) byz cfg.c.first) (absG g)
      (absOf (upd (fOf g) i ({ dur (g.sys i) with highCommitQC := x }, g.hist i))) :=
  match_learn (fOf g) i hi (fOf_at g i) x hq (fun q hx => cert_of_qc hG (hv q hx) (ha q hx))

theorem nextU64_of_lt {a : Nat} (h : a + 1 < 2 ^ 64) : nextU64 a = a + 1 := Nat.mod_eq_of_lt h

/-- **One durable write, matched.** `r'` is the live state after the accepted handler, `r'.durable` what it wrote. -/
theorem sim_kind (hG : GInv cfg byz g) (ht : 1 ≤ cfg.c.total) {i : Fin cfg.c.n} (hi : i ∉ byz) {inp : Input}
    {r' : Replica} (hin2 : InputOk2 inp) (hia : InpAuth (sigsOf (Byz byz) g) inp)
    (k : Kind cfg (g.sys i).r inp r') (hwf : Wf cfg r') (hra : RAuth (sigsOf (Byz byz) g) r')
    (hqle : QLe (g.sys i).r.highCommitQC r'.highCommitQC) :
    Relation.ReflTransGen (Step (wF cfg.c) byz cfg.c.first) (absG g)
      (absOf (upd (fOf g) i (r'.durable, g.hist i ++ [r'.durable]))) := by
  have hI := hG i hi
  obtain ⟨a1, a2, a3⟩ := hI.linv.cinv.agree
  have a1' : (g.sys i).r.view = (dur (g.sys i)).view := a1
  have a2' : (g.sys i).r.phase = (dur (g.sys i)).phase := a2
  have a3' : (g.sys i).r.highVote = (dur (g.sys i)).highVote := a3
  -- certificates are stable under the `learn` steps we insert
  have hcertT : ∀ (x : Option CommitQC) (u kk hh : ℕ), Cert (wF cfg.c) byz (absG g).st u kk hh →
      Cert (wF cfg.c) byz (absOf (upd (fOf g) i ({ dur (g.sys i) with highCommitQC := x }, g.hist i))).st u kk hh :=
    fun x u kk hh hc => (cert_congr (s := (absG g).st)
      (absOf_upd_votedAt (fOf g) i ({ dur (g.sys i) with highCommitQC := x }, g.hist i) rfl)).mpr hc
  cases k with
  | tout h =>
    subst h
    have hl := learn_to hG hi (g.sys i).r.highCommitQC hI.linv.qle hI.linv.wf.hcqc hI.ra.hc
    refine hl.trans (Relation.ReflTransGen.single ?_)
    have hm := match_tout (w := wF cfg.c) (byz := byz) (first := cfg.c.first)
      (upd (fOf g) i ({ dur (g.sys i) with highCommitQC := (g.sys i).r.highCommitQC }, g.hist i)) i hi
      (upd_same _ _ _) (histOk_of_linv hI.linv _) (d' := (stState (g.sys i).r).durable) a1' rfl a3' rfl
    rw [upd_upd] at hm
    exact hm
  | adv hv hp hh =>
    have hl := learn_to hG hi r'.highCommitQC (hI.linv.qle.trans hqle) hwf.hcqc hra.hc
    refine hl.trans (Relation.ReflTransGen.single ?_)
    have hm := match_adv (w := wF cfg.c) (byz := byz) (first := cfg.c.first)
      (upd (fOf g) i ({ dur (g.sys i) with highCommitQC := r'.highCommitQC }, g.hist i)) i hi
      (upd_same _ _ _) (histOk_of_linv hI.linv _) (d' := r'.durable) (by show _ < r'.view; rw [← a1']; exact hv) hp
      (by show r'.highVote = _; rw [hh]; exact a3') rfl
    rw [upd_upd] at hm
    exact hm
  | vote p j key sigOk h0 hinp hver hcan hconf hview hphase hvote hhc =>
    subst hinp
    have hjnw : JustNoWrap j := hin2
    have hja : AuthJust (sigsOf (Byz byz) g) j := hia
    have hl := learn_to hG hi (g.sys i).r.highCommitQC hI.linv.qle hI.linv.wf.hcqc hI.ra.hc
    refine hl.trans (Relation.ReflTransGen.single ?_)
    cases j with
    | commit cq =>
      obtain ⟨nw1, nw2⟩ := hjnw
      have hvn : (Just.commit cq).viewNumber = cq.message.view.number + 1 := nextU64_of_lt nw1
      have hm := match_voteC (w := wF cfg.c) (byz := byz) (first := cfg.c.first)
        (upd (fOf g) i ({ dur (g.sys i) with highCommitQC := (g.sys i).r.highCommitQC }, g.hist i)) i hi
        (upd_same _ _ _) (histOk_of_linv hI.linv _) cq (hcertT _ _ _ _ (cert_of_qc hG hver hja))
        (d' := r'.durable) (v := propVote cfg (.commit cq) h0)
        (by
          show (dur (g.sys i)).view < _ ∨ ((dur (g.sys i)).view = _ ∧ (dur (g.sys i)).phase = .prepare)
          rw [← a1', ← a2', ← hvn]; exact hcan)
        (by show r'.view = _; rw [hview, hvn]) hphase hvote
        (by show (Just.commit cq).view.number = _; rw [ReplicaStep.just_view_number, hvn])
        (by
          show ((Just.commit cq).impliedBlock cfg.c).1 = _
          simp only [Just.impliedBlock, nextBlock_of_lt _ nw2])
        (by show r'.highCommitQC = _; rw [hhc]; rfl)
      rw [upd_upd] at hm
      exact hm
    | timeout t =>
      obtain ⟨nw1, nw2⟩ := hjnw
      have hvn : (Just.timeout t).viewNumber = t.view.number + 1 := nextU64_of_lt nw1
      have hval0 := tqc_valid hG hver hja
      have hval : (absTQC cfg.c t).valid (wF cfg.c) byz
          (absOf (upd (fOf g) i ({ dur (g.sys i) with highCommitQC := (g.sys i).r.highCommitQC }, g.hist i))).st :=
        (valid_congr (s := (absG g).st)
          (absOf_upd_votedAt (fOf g) i
            ({ dur (g.sys i) with highCommitQC := (g.sys i).r.highCommitQC }, g.hist i) rfl)
          (absOf_upd_touts (fOf g) i
            ({ dur (g.sys i) with highCommitQC := (g.sys i).r.highCommitQC }, g.hist i) rfl) _).mpr hval0
      have him := Refine.implied_refines cfg.c t ht hver nw2
      obtain ⟨hg, hp, _⟩ := verify_groups hver
      have hm := match_voteT (w := wF cfg.c) (byz := byz) (first := cfg.c.first)
        (upd (fOf g) i ({ dur (g.sys i) with highCommitQC := (g.sys i).r.highCommitQC }, g.hist i)) i hi
        (upd_same _ _ _) (histOk_of_linv hI.linv _) (absTQC cfg.c t) ((Just.timeout t).impliedBlock cfg.c).2
        (r'.highCommitQC.map refOfQC) hval (d' := r'.durable) (v := propVote cfg (.timeout t) h0) him
        (fun hh' hoh => hconf hh' hoh)
        (by
          show (dur (g.sys i)).view < t.view.number + 1 ∨
            ((dur (g.sys i)).view = t.view.number + 1 ∧ (dur (g.sys i)).phase = .prepare)
          rw [← a1', ← a2', ← hvn]; exact hcan)
        (by
          show ((absTQC cfg.c t).noHQ ∧ _ = (g.sys i).r.highCommitQC.map refOfQC) ∨
            ∃ c, (absTQC cfg.c t).isHQ c ∧ _ = maxQC ((g.sys i).r.highCommitQC.map refOfQC) c
          rw [hhc, hcAfter_timeout]
          cases hq : t.highQC with
          | none => exact Or.inl ⟨(highQC_none_iff cfg.c t hg hp).mp hq, rfl⟩
          | some cq => exact Or.inr ⟨refOfQC cq, highQC_some cfg.c t hg hp cq hq, newer_ref _ _⟩)
        (by show r'.view = t.view.number + 1; rw [hview, hvn]) hphase hvote
        (by show (Just.timeout t).view.number = t.view.number + 1; rw [ReplicaStep.just_view_number, hvn]) rfl
      rw [upd_upd] at hm
      exact hm

end write

/-! ## the simulation -/

section sim
variable {byz : Finset (Fin cfg.c.n)}

theorem authentic_inpAuth {g : Global cfg} (m : Signed) (h : Authentic (Byz byz) g m) :
    InpAuth (sigsOf (Byz byz) g) (.msg m) := by
  obtain ⟨msg, key, sigOk⟩ := m
  obtain ⟨h1, h2⟩ := h
  cases msg with
  | proposal p j => exact h2
  | newView j => exact h2
  | commit v => exact fun hs hk hb => h1 hs (by intro p j hc; cases hc) hk hb
  | timeout t => exact ⟨fun hs hk hb => h1 hs (by intro p j hc; cases hc) hk hb, h2⟩

/-- signatures only accumulate -/
theorem sigs_mono_set {g : Global cfg} {i : Fin cfg.c.n} {s' : Sys} {h' : List Durable}
    (hsent : ∀ m ∈ (g.sys i).sent, m ∈ s'.sent) :
    (∀ k v, (sigsOf (Byz byz) g).c k v → (sigsOf (Byz byz) (g.set i s' h')).c k v) ∧
    (∀ k v, (sigsOf (Byz byz) g).t k v → (sigsOf (Byz byz) (g.set i s' h')).t k v) := by
  constructor
  · intro k v hc hk hb
    have := hc hk hb
    simp only [Global.set]
    split
    · next he => rw [he] at this; exact hsent _ this
    · exact this
  · intro k v hc hk hb
    have := hc hk hb
    simp only [Global.set]
    split
    · next he => rw [he] at this; exact hsent _ this
    · exact this

theorem fOf_set (g : Global cfg) (i : Fin cfg.c.n) (s' : Sys) (h' : List Durable) :
    fOf (g.set i s' h') = upd (fOf g) i (dur s', h') := by
  funext j
  simp only [fOf, Global.set, upd]
  split <;> rfl

/-- **The simulation.** Every global step preserves the invariant and is matched by zero or more Layer-P steps. -/
theorem sim_step {g g' : Global cfg} (ht : 1 ≤ cfg.c.total) (hG : GInv cfg byz g)
    (hs : GStep cfg (Byz byz) g g') :
    GInv cfg byz g' ∧ Relation.ReflTransGen (Step (wF cfg.c) byz cfg.c.first) (absG g) (absG g') := by
  cases hs with
  | step i hi s' h' hst =>
    have hib : i ∉ byz := hi
    obtain ⟨hI', hcase⟩ := hstep_cases (hG i hib) (fun m hm => authentic_inpAuth m hm) hst
    have hsent : ∀ m ∈ (g.sys i).sent, m ∈ s'.sent := by
      rcases hcase with ⟨_, _, h3⟩ | ⟨_, _, _, _, _, _, _, _, _, _, h3⟩ <;> exact h3
    obtain ⟨mc, mt⟩ := sigs_mono_set (byz := byz) (h' := h') hsent
    refine ⟨?_, ?_⟩
    · intro j hj
      by_cases hji : j = i
      · subst hji
        have := hI'.mono mc mt
        simpa [Global.set] using this
      · have := (hG j hj).mono mc mt
        simpa [Global.set, hji] using this
    · unfold absG
      rw [fOf_set]
      rcases hcase with ⟨h1, h2, _⟩ | ⟨e, inp, pre, msgs, _, hin2, hia, w, h1, h2, _⟩
      · have : upd (fOf g) i (dur s', h') = fOf g := by
          have hd : dur s' = dur (g.sys i) := by unfold dur; rw [h1]
          rw [hd, h2]
          exact upd_self (fOf g) i
        rw [this]
      · have hd : dur s' = (step cfg (g.sys i).r e inp).r.durable := by unfold dur; rw [h1]; rfl
        rw [hd, h2]
        exact sim_kind hG ht hib hin2 hia w.kind w.wf w.ra w.qle

end sim

end EraVerif.Proofs.RefineIP
