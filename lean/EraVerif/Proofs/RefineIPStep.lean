import EraVerif.Model.Global
import EraVerif.Proofs.ReplicaStep
import EraVerif.Proofs.Crash

/-!
# Refinement Layer I → Layer P, part 1: what one step of a replica does (no Mathlib)

For every input handled from a well-formed state whose stored certificates are authentic, `step_sum` gives

* the certificates stored in the new state (high certificates and vote caches) are authentic again (`RAuth`);
* the live high commit certificate only moves up (`QLe`);
* every block handed to the store is certified by a verifying, authentic commit certificate;
* if the step wrote the durable state, the write is of one of three kinds (`Kind`): the timer's write (phase
  `timeout`, nothing else changes), the entry into a higher view (phase `prepare`, high vote unchanged), or the
  vote on an accepted proposal (with everything the Layer-P vote steps need about the justification).
-/

namespace EraVerif.Proofs.RefineIP
open EraVerif.Model EraVerif.Proofs.ReplicaStep EraVerif.Proofs.Certs

/-! ## the high commit certificate as a function of what is processed -/

/-- `process_commit_qc` on the high commit certificate alone: replace only if strictly newer -/
def newer (cur : Option CommitQC) (q : CommitQC) : Option CommitQC :=
  match cur with
  | none => some q
  | some c => if c.message.view.number < q.message.view.number then some q else some c

/-- the high commit certificate after `process_commit_qc` / `process_timeout_qc` of a justification -/
def hcAfter (cur : Option CommitQC) : Just → Option CommitQC
  | .commit q => newer cur q
  | .timeout t =>
    match t.highQC with
    | some hq => newer cur hq
    | none => cur

theorem processCommitQC_hc (r : Replica) (e : Env) (q : CommitQC) :
    (processCommitQC r e q).1.highCommitQC = newer r.highCommitQC q := by
  unfold processCommitQC newer
  cases hr : r.highCommitQC with
  | none => simp
  | some c =>
    by_cases h : c.message.view.number < q.message.view.number <;> simp [h, hr]

theorem processCommitQC_ht (r : Replica) (e : Env) (q : CommitQC) :
    (processCommitQC r e q).1.highTimeoutQC = r.highTimeoutQC := by
  unfold processCommitQC
  simp only []
  split <;> rfl

theorem processCommitQC_rest (r : Replica) (e : Env) (q : CommitQC) :
    (processCommitQC r e q).1 = { r with highCommitQC := (processCommitQC r e q).1.highCommitQC } := by
  unfold processCommitQC
  simp only []
  split <;> rfl

theorem processTimeoutQC_hc (r : Replica) (e : Env) (t : TimeoutQC) :
    (processTimeoutQC r e t).1.highCommitQC = hcAfter r.highCommitQC (.timeout t) := by
  unfold processTimeoutQC hcAfter
  cases hq : t.highQC with
  | none =>
    simp only [Bool.not_true, Bool.false_eq_true, if_false]
    split <;> rfl
  | some hq' =>
    simp only []
    rw [← processCommitQC_hc r e hq']
    generalize processCommitQC r e hq' = p
    obtain ⟨r1, effs, ok⟩ := p
    cases ok with
    | false => simp
    | true =>
      simp only [Bool.not_true, Bool.false_eq_true, if_false]
      split <;> rfl

theorem processJust_hc (r : Replica) (e : Env) (j : Just) :
    (processJust r e j).1.highCommitQC = hcAfter r.highCommitQC j := by
  cases j with
  | commit q => exact processCommitQC_hc r e q
  | timeout t => exact processTimeoutQC_hc r e t

/-- the high timeout certificate after `process_timeout_qc`: unchanged or the processed one -/
theorem processTimeoutQC_ht (r : Replica) (e : Env) (t : TimeoutQC) :
    (processTimeoutQC r e t).1.highTimeoutQC = r.highTimeoutQC ∨
      (processTimeoutQC r e t).1.highTimeoutQC = some t := by
  unfold processTimeoutQC
  cases hq : t.highQC with
  | none =>
    simp only [Bool.not_true, Bool.false_eq_true, if_false]
    split
    · exact Or.inr rfl
    · exact Or.inl rfl
  | some hq' =>
    simp only []
    have h1 := processCommitQC_ht r e hq'
    generalize processCommitQC r e hq' = p at h1
    obtain ⟨r1, effs, ok⟩ := p
    simp only at h1
    cases ok with
    | false => simp [h1]
    | true =>
      simp only [Bool.not_true, Bool.false_eq_true, if_false]
      split
      · exact Or.inr rfl
      · exact Or.inl h1

/-- the live certificate `b` is `a` or a certificate of a strictly higher view -/
def QLe (a b : Option CommitQC) : Prop :=
  a = b ∨ ∃ q, b = some q ∧ ∀ p, a = some p → p.message.view.number < q.message.view.number

theorem QLe.rfl' (a : Option CommitQC) : QLe a a := Or.inl rfl

theorem QLe.trans {a b c : Option CommitQC} (h1 : QLe a b) (h2 : QLe b c) : QLe a c := by
  rcases h1 with rfl | ⟨q, rfl, hq⟩
  · exact h2
  · rcases h2 with rfl | ⟨q', rfl, hq'⟩
    · exact Or.inr ⟨q, rfl, hq⟩
    · exact Or.inr ⟨q', rfl, fun p hp => Nat.lt_trans (hq p hp) (hq' q rfl)⟩

theorem qle_newer (cur : Option CommitQC) (q : CommitQC) : QLe cur (newer cur q) := by
  unfold newer
  cases cur with
  | none => exact Or.inr ⟨q, rfl, fun p hp => by cases hp⟩
  | some c =>
    simp only []
    split
    · rename_i h
      exact Or.inr ⟨q, rfl, fun p hp => by cases hp; exact h⟩
    · exact Or.inl rfl

theorem qle_hcAfter (cur : Option CommitQC) (j : Just) : QLe cur (hcAfter cur j) := by
  cases j with
  | commit q => exact qle_newer cur q
  | timeout t =>
    unfold hcAfter
    cases t.highQC with
    | none => exact QLe.rfl' _
    | some hq => exact qle_newer cur hq

theorem newer_cases (cur : Option CommitQC) (q : CommitQC) : newer cur q = cur ∨ newer cur q = some q := by
  unfold newer
  cases cur with
  | none => exact Or.inr rfl
  | some c =>
    simp only []
    split
    · exact Or.inr rfl
    · exact Or.inl rfl

/-! ## certificates inside a justification -/

/-- the commit certificates a justification hands to `process_commit_qc` -/
def justQC : Just → Option CommitQC
  | .commit q => some q
  | .timeout t => t.highQC

theorem hcAfter_cases (cur : Option CommitQC) (j : Just) :
    hcAfter cur j = cur ∨ ∃ q, justQC j = some q ∧ hcAfter cur j = some q := by
  cases j with
  | commit q =>
    rcases newer_cases cur q with h | h
    · exact Or.inl h
    · exact Or.inr ⟨q, rfl, h⟩
  | timeout t =>
    unfold hcAfter justQC
    cases ht : t.highQC with
    | none => exact Or.inl rfl
    | some hq =>
      rcases newer_cases cur hq with h | h
      · exact Or.inl h
      · exact Or.inr ⟨hq, rfl, h⟩

/-- a certificate reported as `high_qc()` is the `high_qc` of some group -/
theorem tqc_highQC_mem (q : TimeoutQC) (hq : CommitQC) (hh : q.highQC = some hq) :
    ∃ e ∈ q.map, e.1.highQC = some hq := by
  unfold TimeoutQC.highQC at hh
  have hm := lastMaxBy_mem _ _ _ hh
  obtain ⟨e, he, hee⟩ := List.mem_filterMap.mp hm
  exact ⟨e, he, hee⟩

theorem justQC_verify {c : Committee} {j : Just} (hj : j.verify c = true) {q : CommitQC} (hq : justQC j = some q) :
    q.verify c = true := by
  cases j with
  | commit q' =>
    simp only [justQC, Option.some.injEq] at hq
    subst hq; exact hj
  | timeout t => exact tqc_highQC_verify c t hj q hq

theorem justQC_auth {sg : Sigs} {j : Just} (hj : AuthJust sg j) {q : CommitQC} (hq : justQC j = some q) :
    AuthCQC sg q := by
  cases j with
  | commit q' =>
    simp only [justQC, Option.some.injEq] at hq
    subst hq; exact hj
  | timeout t =>
    obtain ⟨e, he, hee⟩ := tqc_highQC_mem t q hq
    exact hj.2 e he q hee

/-! ## blocks handed to the store -/

theorem saveBlock_queue (r : Replica) (e : Env) (q : CommitQC) {n p : Nat} {q' : CommitQC}
    (h : Effect.queueBlock n p q' ∈ (saveBlock r e q).1) :
    q' = q ∧ n = q.message.proposal.number ∧ p = q.message.proposal.payload := by
  unfold saveBlock at h
  split at h
  · simp at h
  · split at h
    · simp at h
    · split at h
      · simp only [List.mem_singleton, Effect.queueBlock.injEq] at h
        exact ⟨h.2.2, h.1, h.2.1⟩
      · simp at h

theorem processCommitQC_queue (r : Replica) (e : Env) (q : CommitQC) {n p : Nat} {q' : CommitQC}
    (h : Effect.queueBlock n p q' ∈ (processCommitQC r e q).2.1) :
    q' = q ∧ n = q.message.proposal.number ∧ p = q.message.proposal.payload := by
  unfold processCommitQC at h
  simp only [] at h
  split at h
  · exact saveBlock_queue _ e q h
  · simp at h

theorem processTimeoutQC_queue (r : Replica) (e : Env) (t : TimeoutQC) {n p : Nat} {q' : CommitQC}
    (h : Effect.queueBlock n p q' ∈ (processTimeoutQC r e t).2.1) :
    t.highQC = some q' ∧ n = q'.message.proposal.number ∧ p = q'.message.proposal.payload := by
  unfold processTimeoutQC at h
  cases hq : t.highQC with
  | none =>
    simp only [hq, Bool.not_true, Bool.false_eq_true, if_false] at h
    simp at h
  | some hq' =>
    simp only [hq] at h
    have key := fun (hh : Effect.queueBlock n p q' ∈ (processCommitQC r e hq').2.1) => processCommitQC_queue r e hq' hh
    generalize processCommitQC r e hq' = pr at h key
    obtain ⟨r1, effs, ok⟩ := pr
    cases ok with
    | false =>
      simp only [Bool.not_false, if_true] at h
      obtain ⟨h1, h2, h3⟩ := key h
      subst h1; exact ⟨rfl, h2, h3⟩
    | true =>
      simp only [Bool.not_true, Bool.false_eq_true, if_false] at h
      obtain ⟨h1, h2, h3⟩ := key h
      subst h1; exact ⟨rfl, h2, h3⟩

theorem processJust_queue (r : Replica) (e : Env) (j : Just) {n p : Nat} {q' : CommitQC}
    (h : Effect.queueBlock n p q' ∈ (processJust r e j).2.1) :
    justQC j = some q' ∧ n = q'.message.proposal.number ∧ p = q'.message.proposal.payload := by
  cases j with
  | commit q =>
    obtain ⟨h1, h2, h3⟩ := processCommitQC_queue r e q h
    subst h1; exact ⟨rfl, h2, h3⟩
  | timeout t => exact processTimeoutQC_queue r e t h

/-! ## authentic stored certificates -/

/-- every certificate the replica stores — the two high certificates and the partial certificates in the vote
caches — is authentic -/
structure RAuth (sg : Sigs) (r : Replica) : Prop where
  hc : ∀ q, r.highCommitQC = some q → AuthCQC sg q
  ht : ∀ q, r.highTimeoutQC = some q → AuthTQC sg q
  cc : ∀ u l, (u, l) ∈ r.commitQCs → ∀ v qc, (v, qc) ∈ l → AuthCQC sg qc
  tc : ∀ u qc, (u, qc) ∈ r.timeoutQCs → AuthTQC sg qc

/-- the certificates of a durable state are authentic -/
structure DAuth (sg : Sigs) (d : Durable) : Prop where
  hc : ∀ q, d.highCommitQC = some q → AuthCQC sg q
  ht : ∀ q, d.highTimeoutQC = some q → AuthTQC sg q

theorem RAuth.durable {sg : Sigs} {r : Replica} (h : RAuth sg r) : DAuth sg r.durable := ⟨h.hc, h.ht⟩

theorem rauth_start {sg : Sigs} {d : Durable} (h : DAuth sg d) : RAuth sg (Replica.start (some d)) :=
  ⟨h.hc, h.ht, by intro u l hl; simp [Replica.start] at hl, by intro u qc hq; simp [Replica.start] at hq⟩

theorem rauth_start_none (sg : Sigs) : RAuth sg (Replica.start none) :=
  ⟨by intro q hq; simp [Replica.start, initDurable] at hq, by intro q hq; simp [Replica.start, initDurable] at hq,
   by intro u l hl; simp [Replica.start] at hl, by intro u qc hq; simp [Replica.start] at hq⟩

theorem dauth_init (sg : Sigs) : DAuth sg initDurable :=
  ⟨by intro q hq; simp [initDurable] at hq, by intro q hq; simp [initDurable] at hq⟩

theorem RAuth.mono {sg sg' : Sigs} (hc : ∀ i v, sg.c i v → sg'.c i v) (ht : ∀ i v, sg.t i v → sg'.t i v)
    {r : Replica} (h : RAuth sg r) : RAuth sg' r := by
  have mc : ∀ q, AuthCQC sg q → AuthCQC sg' q := fun q hq p hp => hc _ _ (hq p hp)
  have mt : ∀ q, AuthTQC sg q → AuthTQC sg' q := fun q hq =>
    ⟨fun p hp => ht _ _ (hq.1 p hp), fun e he cq hcq => mc _ (hq.2 e he cq hcq)⟩
  exact ⟨fun q hq => mc _ (h.hc q hq), fun q hq => mt _ (h.ht q hq),
    fun u l hl v qc hv => mc _ (h.cc u l hl v qc hv), fun u qc hq => mt _ (h.tc u qc hq)⟩

theorem DAuth.mono {sg sg' : Sigs} (hc : ∀ i v, sg.c i v → sg'.c i v) (ht : ∀ i v, sg.t i v → sg'.t i v)
    {d : Durable} (h : DAuth sg d) : DAuth sg' d := by
  have mc : ∀ q, AuthCQC sg q → AuthCQC sg' q := fun q hq p hp => hc _ _ (hq p hp)
  have mt : ∀ q, AuthTQC sg q → AuthTQC sg' q := fun q hq =>
    ⟨fun p hp => ht _ _ (hq.1 p hp), fun e he cq hcq => mc _ (hq.2 e he cq hcq)⟩
  exact ⟨fun q hq => mc _ (h.hc q hq), fun q hq => mt _ (h.ht q hq)⟩

/-- changing only the two high certificates, each to itself or to an authentic one, keeps `RAuth` -/
theorem rauth_of_certs {sg : Sigs} {r r' : Replica} (h : RAuth sg r) (hcq : r'.commitQCs = r.commitQCs)
    (htq : r'.timeoutQCs = r.timeoutQCs)
    (hc : ∀ q, r'.highCommitQC = some q → r.highCommitQC = some q ∨ AuthCQC sg q)
    (ht : ∀ q, r'.highTimeoutQC = some q → r.highTimeoutQC = some q ∨ AuthTQC sg q) : RAuth sg r' := by
  refine ⟨fun q hq => ?_, fun q hq => ?_, by rw [hcq]; exact h.cc, by rw [htq]; exact h.tc⟩
  · rcases hc q hq with h' | h'
    · exact h.hc q h'
    · exact h'
  · rcases ht q hq with h' | h'
    · exact h.ht q h'
    · exact h'

theorem rauth_processCommitQC {cfg : RCfg} {sg : Sigs} {r : Replica} (h : RAuth sg r) (e : Env) {q : CommitQC}
    (hv : q.verify cfg.c = true) (hq : AuthCQC sg q) : RAuth sg (processCommitQC r e q).1 := by
  have hup := (ReplicaStep.processCommitQC_spec cfg r e q hv).1
  refine rauth_of_certs h hup.commitQCs hup.timeoutQCs ?_ ?_
  · intro q' hq'
    rw [processCommitQC_hc] at hq'
    rcases newer_cases r.highCommitQC q with h' | h'
    · exact Or.inl (h' ▸ hq')
    · rw [h'] at hq'; cases hq'; exact Or.inr hq
  · intro q' hq'
    rw [processCommitQC_ht] at hq'
    exact Or.inl hq'

theorem rauth_processJust {cfg : RCfg} {sg : Sigs} {r : Replica} (h : RAuth sg r) (e : Env) {j : Just}
    (hv : j.verify cfg.c = true) (hj : AuthJust sg j) : RAuth sg (processJust r e j).1 := by
  have hup := (ReplicaStep.processJust_spec cfg r e j hv).1
  refine rauth_of_certs h hup.commitQCs hup.timeoutQCs ?_ ?_
  · intro q' hq'
    rw [processJust_hc] at hq'
    rcases hcAfter_cases r.highCommitQC j with h' | ⟨q, hjq, h'⟩
    · exact Or.inl (h' ▸ hq')
    · rw [h'] at hq'; cases hq'; exact Or.inr (justQC_auth hj hjq)
  · intro q' hq'
    cases j with
    | commit q =>
      have : (processJust r e (.commit q)).1.highTimeoutQC = r.highTimeoutQC := processCommitQC_ht r e q
      rw [this] at hq'
      exact Or.inl hq'
    | timeout t =>
      rcases processTimeoutQC_ht r e t with h' | h'
      · exact Or.inl (h' ▸ hq')
      · have : (processJust r e (.timeout t)).1.highTimeoutQC = some t := h'
        rw [this] at hq'; cases hq'; exact Or.inr hj

end EraVerif.Proofs.RefineIP
