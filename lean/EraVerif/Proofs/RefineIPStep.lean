import EraVerif.Model.Global
import EraVerif.Proofs.ReplicaStep
import EraVerif.Proofs.Crash

/-!
# Refinement Layer I → Layer P, part 1: what one step of a replica does (no Mathlib)

For every input handled from a well-formed state whose stored certificates are authentic, `step_sum` gives

* the certificates stored in the new state (high certificates and vote caches) are authentic again (`RAuth`);
* the live high commit certificate only moves up (`QLe`);
* every block handed to the store is certified by a verifying, authentic commit certificate;
* if the step wrote the durable state, the write is of one of three kinds (`Kind`): the timer's write (phase
  `timeout`, nothing else changes), the entry into a higher view (phase `prepare`, high vote unchanged), or the
  vote on an accepted proposal (with everything the Layer-P vote steps need about the justification).
-/

namespace EraVerif.Proofs.RefineIP
open EraVerif.Model EraVerif.Proofs.ReplicaStep EraVerif.Proofs.Certs

/-! ## the high commit certificate as a function of what is processed -/

/-- `process_commit_qc` on the high commit certificate alone: replace only if strictly newer -/
def newer (cur : Option CommitQC) (q : CommitQC) : Option CommitQC :=
  match cur with
  | none => some q
  | some c => if c.message.view.number < q.message.view.number then some q else some c

/-- the high commit certificate after `process_commit_qc` / `process_timeout_qc` of a justification -/
def hcAfter (cur : Option CommitQC) : Just → Option CommitQC
  | .commit q => newer cur q
  | .timeout t =>
    match t.highQC with
    | some hq => newer cur hq
    | none => cur

theorem processCommitQC_fst (r : Replica) (e : Env) (q : CommitQC) :
    (processCommitQC r e q).1 = { r with highCommitQC := newer r.highCommitQC q } := by
  cases hr : r.highCommitQC with
  | none =>
    rw [processCommitQC_eq_new r e q (by intro cur hc; rw [hr] at hc; cases hc)]
    simp [newer]
  | some c =>
    by_cases h : c.message.view.number < q.message.view.number
    · rw [processCommitQC_eq_new r e q (by intro cur hc; rw [hr] at hc; cases hc; exact h)]
      simp [newer, h]
    · rw [processCommitQC_eq_old r e q c hr (by omega)]
      simp only [newer, h, if_false]
      rw [← hr]

theorem processCommitQC_hc (r : Replica) (e : Env) (q : CommitQC) :
    (processCommitQC r e q).1.highCommitQC = newer r.highCommitQC q := by
  rw [processCommitQC_fst]

theorem processCommitQC_ht (r : Replica) (e : Env) (q : CommitQC) :
    (processCommitQC r e q).1.highTimeoutQC = r.highTimeoutQC := by
  rw [processCommitQC_fst]

/-- the part of `process_timeout_qc` after the reported high certificate was processed -/
def ptTail (t : TimeoutQC) (p : Replica × List Effect × Bool) : Replica × List Effect × Bool :=
  if !p.2.2 then (p.1, p.2.1, false) else
  ((if (match p.1.highTimeoutQC with | none => true | some old => decide (old.view.number < t.view.number))
    then { p.1 with highTimeoutQC := some t } else p.1), p.2.1, true)

theorem processTimeoutQC_eq (r : Replica) (e : Env) (t : TimeoutQC) :
    processTimeoutQC r e t =
      ptTail t (match t.highQC with | some hq => processCommitQC r e hq | none => (r, [], true)) := rfl

theorem ptTail_hc (t : TimeoutQC) (p : Replica × List Effect × Bool) :
    (ptTail t p).1.highCommitQC = p.1.highCommitQC := by
  unfold ptTail
  generalize (match p.1.highTimeoutQC with | none => true | some old => decide (old.view.number < t.view.number)) = b
  cases p.2.2 <;> cases b <;> rfl

theorem ptTail_ht (t : TimeoutQC) (p : Replica × List Effect × Bool) :
    (ptTail t p).1.highTimeoutQC = p.1.highTimeoutQC ∨ (ptTail t p).1.highTimeoutQC = some t := by
  unfold ptTail
  generalize (match p.1.highTimeoutQC with | none => true | some old => decide (old.view.number < t.view.number)) = b
  cases p.2.2 <;> cases b
  · exact Or.inl rfl
  · exact Or.inl rfl
  · exact Or.inl rfl
  · exact Or.inr rfl

theorem ptTail_effs (t : TimeoutQC) (p : Replica × List Effect × Bool) : (ptTail t p).2.1 = p.2.1 := by
  unfold ptTail
  split <;> rfl

/-- `hcAfter` on a timeout justification -/
theorem hcAfter_timeout (cur : Option CommitQC) (t : TimeoutQC) :
    hcAfter cur (.timeout t) = match t.highQC with | some hq => newer cur hq | none => cur := rfl

theorem processTimeoutQC_hc (r : Replica) (e : Env) (t : TimeoutQC) :
    (processTimeoutQC r e t).1.highCommitQC = hcAfter r.highCommitQC (.timeout t) := by
  rw [processTimeoutQC_eq, ptTail_hc, hcAfter_timeout]
  cases t.highQC with
  | none => rfl
  | some hq => exact processCommitQC_hc r e hq

theorem processJust_hc (r : Replica) (e : Env) (j : Just) :
    (processJust r e j).1.highCommitQC = hcAfter r.highCommitQC j := by
  cases j with
  | commit q => exact processCommitQC_hc r e q
  | timeout t => exact processTimeoutQC_hc r e t

/-- the high timeout certificate after `process_timeout_qc`: unchanged or the processed one -/
theorem processTimeoutQC_ht (r : Replica) (e : Env) (t : TimeoutQC) :
    (processTimeoutQC r e t).1.highTimeoutQC = r.highTimeoutQC ∨
      (processTimeoutQC r e t).1.highTimeoutQC = some t := by
  rw [processTimeoutQC_eq]
  have : (match t.highQC with | some hq => processCommitQC r e hq | none => (r, [], true)).1.highTimeoutQC =
      r.highTimeoutQC := by
    cases t.highQC with
    | none => rfl
    | some hq => exact processCommitQC_ht r e hq
  rw [← this]
  exact ptTail_ht t _

/-- the live certificate `b` is `a` or a certificate of a strictly higher view -/
def QLe (a b : Option CommitQC) : Prop :=
  a = b ∨ ∃ q, b = some q ∧ ∀ p, a = some p → p.message.view.number < q.message.view.number

theorem QLe.rfl' (a : Option CommitQC) : QLe a a := Or.inl rfl

theorem QLe.trans {a b c : Option CommitQC} (h1 : QLe a b) (h2 : QLe b c) : QLe a c := by
  rcases h1 with rfl | ⟨q, rfl, hq⟩
  · exact h2
  · rcases h2 with rfl | ⟨q', rfl, hq'⟩
    · exact Or.inr ⟨q, rfl, hq⟩
    · exact Or.inr ⟨q', rfl, fun p hp => Nat.lt_trans (hq p hp) (hq' q rfl)⟩

theorem qle_newer (cur : Option CommitQC) (q : CommitQC) : QLe cur (newer cur q) := by
  unfold newer
  cases cur with
  | none => exact Or.inr ⟨q, rfl, fun p hp => by cases hp⟩
  | some c =>
    simp only []
    split
    · rename_i h
      exact Or.inr ⟨q, rfl, fun p hp => by cases hp; exact h⟩
    · exact Or.inl rfl

theorem qle_hcAfter (cur : Option CommitQC) (j : Just) : QLe cur (hcAfter cur j) := by
  cases j with
  | commit q => exact qle_newer cur q
  | timeout t =>
    rw [hcAfter_timeout]
    cases t.highQC with
    | none => exact QLe.rfl' _
    | some hq => exact qle_newer cur hq

theorem newer_cases (cur : Option CommitQC) (q : CommitQC) : newer cur q = cur ∨ newer cur q = some q := by
  unfold newer
  cases cur with
  | none => exact Or.inr rfl
  | some c =>
    simp only []
    split
    · exact Or.inr rfl
    · exact Or.inl rfl

/-! ## certificates inside a justification -/

/-- the commit certificates a justification hands to `process_commit_qc` -/
def justQC : Just → Option CommitQC
  | .commit q => some q
  | .timeout t => t.highQC

theorem hcAfter_cases (cur : Option CommitQC) (j : Just) :
    hcAfter cur j = cur ∨ ∃ q, justQC j = some q ∧ hcAfter cur j = some q := by
  cases j with
  | commit q =>
    rcases newer_cases cur q with h | h
    · exact Or.inl h
    · exact Or.inr ⟨q, rfl, h⟩
  | timeout t =>
    rw [hcAfter_timeout]
    show _ ∨ ∃ q, t.highQC = some q ∧ _
    cases ht : t.highQC with
    | none => exact Or.inl rfl
    | some hq =>
      rcases newer_cases cur hq with h | h
      · exact Or.inl h
      · exact Or.inr ⟨hq, rfl, h⟩

/-- a certificate reported as `high_qc()` is the `high_qc` of some group -/
theorem tqc_highQC_mem (q : TimeoutQC) (hq : CommitQC) (hh : q.highQC = some hq) :
    ∃ e ∈ q.map, e.1.highQC = some hq := by
  unfold TimeoutQC.highQC at hh
  have hm := lastMaxBy_mem _ _ _ hh
  obtain ⟨e, he, hee⟩ := List.mem_filterMap.mp hm
  exact ⟨e, he, hee⟩

theorem justQC_verify {c : Committee} {j : Just} (hj : j.verify c = true) {q : CommitQC} (hq : justQC j = some q) :
    q.verify c = true := by
  cases j with
  | commit q' =>
    simp only [justQC, Option.some.injEq] at hq
    subst hq; exact hj
  | timeout t => exact tqc_highQC_verify c t hj q hq

theorem justQC_auth {sg : Sigs} {j : Just} (hj : AuthJust sg j) {q : CommitQC} (hq : justQC j = some q) :
    AuthCQC sg q := by
  cases j with
  | commit q' =>
    simp only [justQC, Option.some.injEq] at hq
    subst hq; exact hj
  | timeout t =>
    obtain ⟨e, he, hee⟩ := tqc_highQC_mem t q hq
    exact hj.2 e he q hee

/-! ## blocks handed to the store -/

theorem saveBlock_queue (r : Replica) (e : Env) (q : CommitQC) {n p : Nat} {q' : CommitQC}
    (h : Effect.queueBlock n p q' ∈ (saveBlock r e q).1) :
    q' = q ∧ n = q.message.proposal.number ∧ p = q.message.proposal.payload := by
  unfold saveBlock at h
  split at h
  · simp at h
  · split at h
    · simp at h
    · split at h
      · simp only [List.mem_singleton, Effect.queueBlock.injEq] at h
        exact ⟨h.2.2, h.1, h.2.1⟩
      · simp at h

theorem processCommitQC_queue (r : Replica) (e : Env) (q : CommitQC) {n p : Nat} {q' : CommitQC}
    (h : Effect.queueBlock n p q' ∈ (processCommitQC r e q).2.1) :
    q' = q ∧ n = q.message.proposal.number ∧ p = q.message.proposal.payload := by
  by_cases hn : ∀ cur, r.highCommitQC = some cur → cur.message.view.number < q.message.view.number
  · rw [processCommitQC_eq_new r e q hn] at h
    exact saveBlock_queue _ e q h
  · have : ∃ cur, r.highCommitQC = some cur ∧ q.message.view.number ≤ cur.message.view.number := by
      apply Classical.byContradiction
      intro hne
      apply hn
      intro cur hcur
      apply Classical.byContradiction
      intro hlt
      exact hne ⟨cur, hcur, by omega⟩
    obtain ⟨cur, hcur, hle⟩ := this
    rw [processCommitQC_eq_old r e q cur hcur hle] at h
    simp at h

theorem processTimeoutQC_queue (r : Replica) (e : Env) (t : TimeoutQC) {n p : Nat} {q' : CommitQC}
    (h : Effect.queueBlock n p q' ∈ (processTimeoutQC r e t).2.1) :
    t.highQC = some q' ∧ n = q'.message.proposal.number ∧ p = q'.message.proposal.payload := by
  rw [processTimeoutQC_eq, ptTail_effs] at h
  cases hq : t.highQC with
  | none => simp [hq] at h
  | some hq' =>
    simp only [hq] at h
    obtain ⟨h1, h2, h3⟩ := processCommitQC_queue r e hq' h
    subst h1; exact ⟨rfl, h2, h3⟩

theorem processJust_queue (r : Replica) (e : Env) (j : Just) {n p : Nat} {q' : CommitQC}
    (h : Effect.queueBlock n p q' ∈ (processJust r e j).2.1) :
    justQC j = some q' ∧ n = q'.message.proposal.number ∧ p = q'.message.proposal.payload := by
  cases j with
  | commit q =>
    obtain ⟨h1, h2, h3⟩ := processCommitQC_queue r e q h
    subst h1; exact ⟨rfl, h2, h3⟩
  | timeout t => exact processTimeoutQC_queue r e t h

/-! ## authentic stored certificates -/

/-- every certificate the replica stores — the two high certificates and the partial certificates in the vote
caches — is authentic -/
structure RAuth (sg : Sigs) (r : Replica) : Prop where
  hc : ∀ q, r.highCommitQC = some q → AuthCQC sg q
  ht : ∀ q, r.highTimeoutQC = some q → AuthTQC sg q
  cc : ∀ u l, (u, l) ∈ r.commitQCs → ∀ v qc, (v, qc) ∈ l → AuthCQC sg qc
  tc : ∀ u qc, (u, qc) ∈ r.timeoutQCs → AuthTQC sg qc

/-- the certificates of a durable state are authentic -/
structure DAuth (sg : Sigs) (d : Durable) : Prop where
  hc : ∀ q, d.highCommitQC = some q → AuthCQC sg q
  ht : ∀ q, d.highTimeoutQC = some q → AuthTQC sg q

theorem RAuth.durable {sg : Sigs} {r : Replica} (h : RAuth sg r) : DAuth sg r.durable := ⟨h.hc, h.ht⟩

theorem rauth_start {sg : Sigs} {d : Durable} (h : DAuth sg d) : RAuth sg (Replica.start (some d)) :=
  ⟨h.hc, h.ht, by intro u l hl; simp [Replica.start] at hl, by intro u qc hq; simp [Replica.start] at hq⟩

theorem rauth_start_none (sg : Sigs) : RAuth sg (Replica.start none) :=
  ⟨by intro q hq; simp [Replica.start, initDurable] at hq, by intro q hq; simp [Replica.start, initDurable] at hq,
   by intro u l hl; simp [Replica.start] at hl, by intro u qc hq; simp [Replica.start] at hq⟩

theorem dauth_init (sg : Sigs) : DAuth sg initDurable :=
  ⟨by intro q hq; simp [initDurable] at hq, by intro q hq; simp [initDurable] at hq⟩

theorem RAuth.mono {sg sg' : Sigs} (hc : ∀ i v, sg.c i v → sg'.c i v) (ht : ∀ i v, sg.t i v → sg'.t i v)
    {r : Replica} (h : RAuth sg r) : RAuth sg' r := by
  have mc : ∀ q, AuthCQC sg q → AuthCQC sg' q := fun q hq p hp => hc _ _ (hq p hp)
  have mt : ∀ q, AuthTQC sg q → AuthTQC sg' q := fun q hq =>
    ⟨fun p hp => ht _ _ (hq.1 p hp), fun e he cq hcq => mc _ (hq.2 e he cq hcq)⟩
  exact ⟨fun q hq => mc _ (h.hc q hq), fun q hq => mt _ (h.ht q hq),
    fun u l hl v qc hv => mc _ (h.cc u l hl v qc hv), fun u qc hq => mt _ (h.tc u qc hq)⟩

theorem DAuth.mono {sg sg' : Sigs} (hc : ∀ i v, sg.c i v → sg'.c i v) (ht : ∀ i v, sg.t i v → sg'.t i v)
    {d : Durable} (h : DAuth sg d) : DAuth sg' d := by
  have mc : ∀ q, AuthCQC sg q → AuthCQC sg' q := fun q hq p hp => hc _ _ (hq p hp)
  have mt : ∀ q, AuthTQC sg q → AuthTQC sg' q := fun q hq =>
    ⟨fun p hp => ht _ _ (hq.1 p hp), fun e he cq hcq => mc _ (hq.2 e he cq hcq)⟩
  exact ⟨fun q hq => mc _ (h.hc q hq), fun q hq => mt _ (h.ht q hq)⟩

/-- changing only the two high certificates, each to itself or to an authentic one, keeps `RAuth` -/
theorem rauth_of_certs {sg : Sigs} {r r' : Replica} (h : RAuth sg r) (hcq : r'.commitQCs = r.commitQCs)
    (htq : r'.timeoutQCs = r.timeoutQCs)
    (hc : ∀ q, r'.highCommitQC = some q → r.highCommitQC = some q ∨ AuthCQC sg q)
    (ht : ∀ q, r'.highTimeoutQC = some q → r.highTimeoutQC = some q ∨ AuthTQC sg q) : RAuth sg r' := by
  refine ⟨fun q hq => ?_, fun q hq => ?_, by rw [hcq]; exact h.cc, by rw [htq]; exact h.tc⟩
  · rcases hc q hq with h' | h'
    · exact h.hc q h'
    · exact h'
  · rcases ht q hq with h' | h'
    · exact h.ht q h'
    · exact h'

theorem rauth_processCommitQC {cfg : RCfg} {sg : Sigs} {r : Replica} (h : RAuth sg r) (e : Env) {q : CommitQC}
    (hv : q.verify cfg.c = true) (hq : AuthCQC sg q) : RAuth sg (processCommitQC r e q).1 := by
  have hup := (ReplicaStep.processCommitQC_spec cfg r e q hv).1
  refine rauth_of_certs h hup.commitQCs hup.timeoutQCs ?_ ?_
  · intro q' hq'
    rw [processCommitQC_hc] at hq'
    rcases newer_cases r.highCommitQC q with h' | h'
    · exact Or.inl (h' ▸ hq')
    · rw [h'] at hq'; cases hq'; exact Or.inr hq
  · intro q' hq'
    rw [processCommitQC_ht] at hq'
    exact Or.inl hq'

theorem rauth_processJust {cfg : RCfg} {sg : Sigs} {r : Replica} (h : RAuth sg r) (e : Env) {j : Just}
    (hv : j.verify cfg.c = true) (hj : AuthJust sg j) : RAuth sg (processJust r e j).1 := by
  have hup := (ReplicaStep.processJust_spec cfg r e j hv).1
  refine rauth_of_certs h hup.commitQCs hup.timeoutQCs ?_ ?_
  · intro q' hq'
    rw [processJust_hc] at hq'
    rcases hcAfter_cases r.highCommitQC j with h' | ⟨q, hjq, h'⟩
    · exact Or.inl (h' ▸ hq')
    · rw [h'] at hq'; cases hq'; exact Or.inr (justQC_auth hj hjq)
  · intro q' hq'
    cases j with
    | commit q =>
      have : (processJust r e (.commit q)).1.highTimeoutQC = r.highTimeoutQC := processCommitQC_ht r e q
      rw [this] at hq'
      exact Or.inl hq'
    | timeout t =>
      rcases processTimeoutQC_ht r e t with h' | h'
      · exact Or.inl (h' ▸ hq')
      · have : (processJust r e (.timeout t)).1.highTimeoutQC = some t := h'
        rw [this] at hq'; cases hq'; exact Or.inr hj

/-! ## authenticity of the vote caches -/

theorem cqc_add_auth {sg : Sigs} {c : Committee} {q q' : CommitQC} {sb : SignedBy} {msg : Vote}
    (h : q.add c sb msg = .ok q') (hq : AuthCQC sg q) (hs : ∀ i, sb.key = some i → sb.sigOk = true → sg.c i msg) :
    AuthCQC sg q' := by
  obtain ⟨i, hk, _, _, hsig, _, _, rfl⟩ := (cqc_add_ok _ _ _ _ _).mp h
  intro p hp
  simp only [List.mem_append, List.mem_singleton] at hp
  rcases hp with hp | rfl
  · exact hq p hp
  · exact hs i hk hsig

theorem cQc0_auth {sg : Sigs} {r : Replica} (h : RAuth sg r) (c : Committee) (v : Vote) :
    AuthCQC sg (cQc0 c r.commitQCs v) := by
  unfold cQc0
  cases hf : ((alGet r.commitQCs v.view.number).getD []).find? (fun x => x.1 = v) with
  | none =>
    simp only [Option.map_none, Option.getD_none]
    intro p hp
    simp [CommitQC.new] at hp
  | some x =>
    simp only [Option.map_some, Option.getD_some]
    obtain ⟨m, hm, hxm⟩ := mem_getD_alGet (List.mem_of_find?_eq_some hf)
    exact h.cc _ m hm x.1 x.2 hxm

theorem rauth_commitR1 {sg : Sigs} {r : Replica} (h : RAuth sg r) (key : Nat) (v : Vote) {qc : CommitQC}
    (hqc : AuthCQC sg qc) : RAuth sg (commitR1 r key v qc) := by
  refine ⟨h.hc, h.ht, ?_, h.tc⟩
  intro u l hl v' qc' hvq
  have hl' : (u, l) ∈ cCqs' r.commitViews r.commitQCs key v qc := hl
  rcases mem_alSet (List.mem_filter.mp hl').1 with hul | ⟨hul, _⟩
  · cases hul
    rcases mem_cByView' hvq with hx | hx
    · cases hx; exact hqc
    · obtain ⟨m, hm, hxm⟩ := mem_getD_alGet hx
      exact h.cc _ m hm v' qc' hxm
  · exact h.cc u l hul v' qc' hvq

theorem rauth_commitR2 {sg : Sigs} {r : Replica} (h : RAuth sg r) (key : Nat) (v : Vote) {qc : CommitQC}
    (hqc : AuthCQC sg qc) : RAuth sg (commitR2 r key v qc) := by
  have h1 := rauth_commitR1 h key v hqc
  refine ⟨h1.hc, h1.ht, ?_, h1.tc⟩
  intro u l hl
  have hl' : (u, l) ∈ alErase (commitR1 r key v qc).commitQCs v.view.number := hl
  exact h1.cc u l (mem_alErase hl')

theorem mem_mapSet_fst {c : Committee} {m : List (TVote × List Bool)} {msg : TVote} {i : Nat}
    {g : TVote × List Bool} (hg : g ∈ mapSet c m msg i) : g.1 = msg ∨ ∃ g0 ∈ m, g0.1 = g.1 := by
  unfold mapSet at hg
  split at hg
  · obtain ⟨g0, hg0, hgg⟩ := List.mem_map.mp hg
    refine Or.inr ⟨g0, hg0, ?_⟩
    split at hgg <;> (subst hgg; rfl)
  · rcases List.mem_append.mp hg with hg | hg
    · exact Or.inr ⟨g, hg, rfl⟩
    · simp only [List.mem_singleton] at hg
      subst hg
      exact Or.inl rfl

theorem tqc_add_auth {sg : Sigs} {c : Committee} {q q' : TimeoutQC} {sb : SignedBy} {msg : TVote}
    (h : q.add c sb msg = .ok q') (hq : AuthTQC sg q) (hs : ∀ i, sb.key = some i → sb.sigOk = true → sg.t i msg)
    (hn : ∀ cq, msg.highQC = some cq → AuthCQC sg cq) : AuthTQC sg q' := by
  obtain ⟨i, hk, _, _, hsig, _, _, rfl⟩ := (tqc_add_ok _ _ _ _ _).mp h
  constructor
  · intro p hp
    simp only [List.mem_append, List.mem_singleton] at hp
    rcases hp with hp | rfl
    · exact hq.1 p hp
    · exact hs i hk hsig
  · intro g hg cq hcq
    have hg' : g ∈ mapSet c q.map msg i := hg
    rcases mem_mapSet_fst hg' with h1 | ⟨g0, hg0, h1⟩
    · rw [h1] at hcq; exact hn cq hcq
    · rw [← h1] at hcq; exact hq.2 g0 hg0 cq hcq

theorem tQc0_auth {sg : Sigs} {r : Replica} (h : RAuth sg r) (t : TVote) : AuthTQC sg (tQc0 r.timeoutQCs t) := by
  unfold tQc0
  cases hf : alGet r.timeoutQCs t.view.number with
  | none =>
    simp only [Option.getD_none]
    exact ⟨by intro p hp; simp [TimeoutQC.new] at hp, by intro g hg; simp [TimeoutQC.new] at hg⟩
  | some q =>
    simp only [Option.getD_some]
    exact h.tc _ q (alGet_mem hf)

theorem rauth_timeoutR1 {sg : Sigs} {r : Replica} (h : RAuth sg r) (key : Nat) (t : TVote) {qc : TimeoutQC}
    (hqc : AuthTQC sg qc) : RAuth sg (timeoutR1 r key t qc) := by
  refine ⟨h.hc, h.ht, h.cc, ?_⟩
  intro u qc' hq
  have hq' : (u, qc') ∈ tTqs' r.timeoutViews r.timeoutQCs key t qc := hq
  rcases mem_alSet (List.mem_filter.mp hq').1 with huq | ⟨huq, _⟩
  · cases huq; exact hqc
  · exact h.tc u qc' huq

theorem rauth_timeoutR2 {sg : Sigs} {r : Replica} (h : RAuth sg r) (key : Nat) (t : TVote) {qc : TimeoutQC}
    (hqc : AuthTQC sg qc) : RAuth sg (timeoutR2 r key t qc) := by
  have h1 := rauth_timeoutR1 h key t hqc
  refine ⟨h1.hc, h1.ht, h1.cc, ?_⟩
  intro u qc' hq
  have hq' : (u, qc') ∈ alErase (timeoutR1 r key t qc).timeoutQCs t.view.number := hq
  exact h1.tc u qc' (mem_alErase hq')

/-! ## the summary of a step -/

/-- the three kinds of durable write, relative to the live state `r` before the step -/
inductive Kind (cfg : RCfg) (r : Replica) (inp : Input) (r' : Replica) : Prop where
  /-- `start_timeout`: phase `timeout`, nothing else changes -/
  | tout (h : r' = stState r)
  /-- `start_new_view`: a higher view, phase `prepare`, the high vote is kept -/
  | adv (hv : r.view < r'.view) (hp : r'.phase = .prepare) (hh : r'.highVote = r.highVote)
  /-- `on_proposal`: the vote `propVote cfg j h` for the block implied by the verifying justification `j` -/
  | vote (p : Option Payload) (j : Just) (key : Nat) (sigOk : Bool) (h : Nat)
      (hinp : inp = .msg ⟨.proposal p j, key, sigOk⟩) (hver : j.verify cfg.c = true)
      (hcan : r.view < j.viewNumber ∨ (r.view = j.viewNumber ∧ r.phase = .prepare))
      (hconf : ∀ hh, (j.impliedBlock cfg.c).2 = some hh → h = hh)
      (hview : r'.view = j.viewNumber) (hphase : r'.phase = .commit)
      (hvote : r'.highVote = some (propVote cfg j h))
      (hhc : r'.highCommitQC = hcAfter r.highCommitQC j)

/-- a block handed to the store comes with a verifying, authentic certificate for exactly that block -/
def QueueOk (cfg : RCfg) (sg : Sigs) (effs : List Effect) : Prop :=
  ∀ n p q, Effect.queueBlock n p q ∈ effs →
    q.verify cfg.c = true ∧ AuthCQC sg q ∧ n = q.message.proposal.number ∧ p = q.message.proposal.payload

structure StepSum (cfg : RCfg) (sg : Sigs) (r : Replica) (inp : Input) (res : StepRes) : Prop where
  auth : RAuth sg res.r
  qle : QLe r.highCommitQC res.r.highCommitQC
  queue : QueueOk cfg sg res.effs
  kind : ∀ d, Effect.persist d ∈ res.effs → Kind cfg r inp res.r

theorem queueOk_nil (cfg : RCfg) (sg : Sigs) : QueueOk cfg sg [] := by
  intro n p q h; simp at h

theorem sum_rej {cfg : RCfg} {sg : Sigs} {r : Replica} {inp : Input} (ha : RAuth sg r) (w : Reject) :
    StepSum cfg sg r inp (rej r w) :=
  ⟨ha, QLe.rfl' _, queueOk_nil cfg sg, by intro d hd; simp [rej] at hd⟩

theorem sum_quiet {cfg : RCfg} {sg : Sigs} {r : Replica} {inp : Input} {res : StepRes} (ha : RAuth sg res.r)
    (hq : QLe r.highCommitQC res.r.highCommitQC) (hqu : QueueOk cfg sg res.effs) (ho : OnlyQueue res.effs) :
    StepSum cfg sg r inp res :=
  ⟨ha, hq, hqu, fun d hd => absurd hd (ho.no_persist d)⟩

theorem onlyQueue_nil : OnlyQueue [] := by intro x hx; simp at hx

theorem rauth_snv {sg : Sigs} {r3 : Replica} (h3 : RAuth sg r3) (view : Nat) : RAuth sg (snvState r3 view) := by
  obtain ⟨_, _, _, f4, f5, _, f7, _, f9⟩ := snvState_fields r3 view
  exact rauth_of_certs h3 f7 f9 (fun q hq => Or.inl (f4 ▸ hq)) (fun q hq => Or.inl (f5 ▸ hq))

theorem sum_snv {cfg : RCfg} {sg : Sigs} {r : Replica} {inp : Input} {r3 : Replica} {view : Nat} {qs : List Effect}
    {j' : Just} {out : Outcome} (h3 : RAuth sg r3) (hq : QLe r.highCommitQC r3.highCommitQC)
    (hqu : QueueOk cfg sg qs) (hv : r.view < view) (hh : r3.highVote = r.highVote) :
    StepSum cfg sg r inp
      { r := snvState r3 view,
        effs := qs ++ [.notify j', .persist (snvState r3 view).durable, .send (.newView j')], out := out } := by
  obtain ⟨f1, f2, f3, f4, _⟩ := snvState_fields r3 view
  refine ⟨rauth_snv h3 view, ?_, ?_, fun d _ => ?_⟩
  · show QLe r.highCommitQC (snvState r3 view).highCommitQC
    rw [f4]; exact hq
  · intro n p q h
    have h' : Effect.queueBlock n p q ∈ qs ++ [.notify j', .persist (snvState r3 view).durable, .send (.newView j')] := h
    rcases List.mem_append.mp h' with h1 | h1
    · exact hqu n p q h1
    · simp at h1
  · exact Kind.adv (by show r.view < (snvState r3 view).view; rw [f1]; exact hv) f2 (f3.trans hh)

theorem queueOk_processJust {cfg : RCfg} {sg : Sigs} (r : Replica) (e : Env) {j : Just} (hv : j.verify cfg.c = true)
    (hj : AuthJust sg j) : QueueOk cfg sg (processJust r e j).2.1 := by
  intro n p q h
  obtain ⟨h1, h2, h3⟩ := processJust_queue r e j h
  exact ⟨justQC_verify hv h1, justQC_auth hj h1, h2, h3⟩

theorem queueOk_processCommitQC {cfg : RCfg} {sg : Sigs} (r : Replica) (e : Env) {qc : CommitQC}
    (hv : qc.verify cfg.c = true) (hq : AuthCQC sg qc) : QueueOk cfg sg (processCommitQC r e qc).2.1 := by
  intro n p q h
  obtain ⟨h1, h2, h3⟩ := processCommitQC_queue r e qc h
  subst h1
  exact ⟨hv, hq, h2, h3⟩

theorem queueOk_processTimeoutQC {cfg : RCfg} {sg : Sigs} (r : Replica) (e : Env) {t : TimeoutQC}
    (hv : t.verify cfg.c = true) (ht : AuthTQC sg t) : QueueOk cfg sg (processTimeoutQC r e t).2.1 :=
  queueOk_processJust (cfg := cfg) r e (j := .timeout t) hv ht

/-! ## the handlers -/

theorem sum_tick {cfg : RCfg} {sg : Sigs} {r : Replica} (hw : Wf cfg r) (ha : RAuth sg r) :
    StepSum cfg sg r .tick (startTimeout cfg r) := by
  have hst : RAuth sg (stState r) := ⟨ha.hc, ha.ht, ha.cc, ha.tc⟩
  by_cases hv : r.view = 0
  · rw [startTimeout_eq0 cfg r hv]
    exact ⟨hst, QLe.rfl' _, by intro n p q h; simp at h, fun d _ => Kind.tout rfl⟩
  · have hheld : HeldAtLeast r r.view := by
      rcases hw.held with h0 | h0
      · exact absurd h0 hv
      · exact h0
    obtain ⟨j, hj⟩ := getJustification_ok hheld
    rw [startTimeout_eq1 cfg r j hv hj]
    exact ⟨hst, QLe.rfl' _, by intro n p q h; simp at h, fun d _ => Kind.tout rfl⟩

theorem sum_newView {cfg : RCfg} {sg : Sigs} {r : Replica} (e : Env) (key : Nat) (sigOk : Bool) {j : Just}
    (ha : RAuth sg r) (hj : AuthJust sg j) :
    StepSum cfg sg r (.msg ⟨.newView j, key, sigOk⟩) (onNewView cfg r e key sigOk j) := by
  rcases onNewView_cases cfg r e key sigOk j with ⟨_, w, hw'⟩ | ⟨hc, ht⟩
  · rw [hw']; exact sum_rej ha w
  · rw [ht]
    obtain ⟨_, _, _, hver⟩ := hc
    have hpj := rauth_processJust ha e hver hj
    obtain ⟨hup, hoq, _⟩ := ReplicaStep.processJust_spec cfg r e j hver
    have hq : QLe r.highCommitQC (processJust r e j).1.highCommitQC := by
      rw [processJust_hc]; exact qle_hcAfter _ _
    have hqu := queueOk_processJust (cfg := cfg) r e hver hj
    obtain ⟨hb, hok⟩ := newViewTail_reaction (cfg := cfg) (r := r) e hver
    cases hokv : (processJust r e j).2.2 with
    | false =>
      rw [hb hokv]
      exact sum_quiet hpj hq hqu hoq
    | true =>
      by_cases hgt : j.viewNumber > r.view
      · obtain ⟨j', _, heq⟩ := (hok hokv).1 hgt
        rw [heq]
        exact sum_snv hpj hq hqu hgt hup.highVote
      · rw [(hok hokv).2 hgt]
        exact sum_quiet hpj hq hqu hoq

theorem sum_commit {cfg : RCfg} {sg : Sigs} {r : Replica} (e : Env) (key : Nat) (sigOk : Bool) {v : Vote}
    (hw : Wf cfg r) (ha : RAuth sg r) (hnw : v.view.number + 1 < 2 ^ 64) (hs : sigOk = true → sg.c key v) :
    StepSum cfg sg r (.msg ⟨.commit v, key, sigOk⟩) (onCommit cfg r e key sigOk v) := by
  rcases onCommit_cases cfg r e key sigOk v with ⟨_, w, hw'⟩ | ⟨hc, ht⟩
  · rw [hw']; exact sum_rej ha w
  · rw [ht]
    obtain ⟨qc, hadd, hasm, hlow, hhigh⟩ := commitTail_reaction e hw hc
    have hqc : AuthCQC sg qc := by
      refine cqc_add_auth hadd (cQc0_auth ha cfg.c v) ?_
      intro i hi hsig
      simp only [Option.some.injEq] at hi
      subst hi
      exact hs hsig
    by_cases hlt : weightOf cfg.c.weights qc.signers < cfg.c.quorum
    · rw [hlow hlt]
      exact sum_quiet (rauth_commitR1 ha key v hqc) (QLe.rfl' _) (queueOk_nil cfg sg) onlyQueue_nil
    · obtain ⟨hver, hbl, hokc⟩ := hhigh (by omega)
      have hr2 := rauth_commitR2 ha key v hqc
      have hr3 := rauth_processCommitQC hr2 e hver hqc
      obtain ⟨hup, hoq, _⟩ := ReplicaStep.processCommitQC_spec cfg (commitR2 r key v qc) e qc hver
      have hq : QLe r.highCommitQC (processCommitQC (commitR2 r key v qc) e qc).1.highCommitQC := by
        rw [processCommitQC_hc]
        exact qle_newer _ _
      have hqu := queueOk_processCommitQC (cfg := cfg) (commitR2 r key v qc) e hver hqc
      cases hok : (processCommitQC (commitR2 r key v qc) e qc).2.2 with
      | false =>
        rw [hbl hok]
        exact sum_quiet hr3 hq hqu hoq
      | true =>
        obtain ⟨j, _, heq⟩ := hokc hok
        rw [heq]
        refine sum_snv hr3 hq hqu ?_ hup.highVote
        rw [nextU64_eq _ hnw]
        have := hc.2.1
        omega

theorem sum_timeout {cfg : RCfg} {sg : Sigs} {r : Replica} (e : Env) (key : Nat) (sigOk : Bool) {t : TVote}
    (hw : Wf cfg r) (ha : RAuth sg r) (hnw : t.view.number + 1 < 2 ^ 64) (hs : sigOk = true → sg.t key t)
    (hn : ∀ cq, t.highQC = some cq → AuthCQC sg cq) :
    StepSum cfg sg r (.msg ⟨.timeout t, key, sigOk⟩) (onTimeout cfg r e key sigOk t) := by
  rcases onTimeout_cases cfg r e key sigOk t with ⟨_, w, hw'⟩ | ⟨hc, ht⟩
  · rw [hw']; exact sum_rej ha w
  · rw [ht]
    obtain ⟨qc, hadd, hasm, _, hlow, hhigh⟩ := timeoutTail_reaction e hw hc
    have hqc : AuthTQC sg qc := by
      refine tqc_add_auth hadd (tQc0_auth ha t) ?_ hn
      intro i hi hsig
      simp only [Option.some.injEq] at hi
      subst hi
      exact hs hsig
    by_cases hlt : tqcGroupWeight cfg.c qc < cfg.c.quorum
    · rw [hlow hlt]
      exact sum_quiet (rauth_timeoutR1 ha key t hqc) (QLe.rfl' _) (queueOk_nil cfg sg) onlyQueue_nil
    · obtain ⟨hver, hbl, hokc⟩ := hhigh (by omega)
      have hr2 := rauth_timeoutR2 ha key t hqc
      have hr3 : RAuth sg (processTimeoutQC (timeoutR2 r key t qc) e qc).1 :=
        rauth_processJust (cfg := cfg) hr2 e (j := .timeout qc) hver hqc
      obtain ⟨hup, hoq, _⟩ := ReplicaStep.processTimeoutQC_spec cfg (timeoutR2 r key t qc) e qc hver
      have hq : QLe r.highCommitQC (processTimeoutQC (timeoutR2 r key t qc) e qc).1.highCommitQC := by
        rw [processTimeoutQC_hc]
        exact qle_hcAfter _ _
      have hqu := queueOk_processTimeoutQC (cfg := cfg) (timeoutR2 r key t qc) e hver hqc
      cases hok : (processTimeoutQC (timeoutR2 r key t qc) e qc).2.2 with
      | false =>
        rw [hbl hok]
        exact sum_quiet hr3 hq hqu hoq
      | true =>
        obtain ⟨j, _, heq⟩ := hokc hok
        rw [heq]
        refine sum_snv hr3 hq hqu ?_ hup.highVote
        rw [nextU64_eq _ hnw]
        have := hc.2.1
        omega

theorem sum_proposal {cfg : RCfg} {sg : Sigs} {r : Replica} (e : Env) (key : Nat) (sigOk : Bool)
    (p : Option Payload) {j : Just} (ha : RAuth sg r) (hj : AuthJust sg j) :
    StepSum cfg sg r (.msg ⟨.proposal p j, key, sigOk⟩) (onProposal cfg r e key sigOk p j) := by
  rcases onProposal_cases cfg r e key sigOk p j with ⟨_, w, hw'⟩ | ⟨hc, ⟨w, _, hw'⟩ | ⟨h, r0, hd, ht⟩⟩
  · rw [hw']; exact sum_rej ha w
  · rw [hw']; exact sum_rej ha w
  · rw [ht]
    obtain ⟨hcan, _, _, hver, _⟩ := hc
    have hr0 := propDecide_rest hd
    have ha1 : RAuth sg (propR1 cfg r0 j h) := by
      refine ⟨?_, ?_, ?_, ?_⟩
      · show ∀ q, r0.highCommitQC = some q → _
        rw [hr0]; exact ha.hc
      · show ∀ q, r0.highTimeoutQC = some q → _
        rw [hr0]; exact ha.ht
      · show ∀ u l, (u, l) ∈ r0.commitQCs → _
        rw [hr0]; exact ha.cc
      · show ∀ u qc, (u, qc) ∈ r0.timeoutQCs → _
        rw [hr0]; exact ha.tc
    have hpj := rauth_processJust ha1 e hver hj
    obtain ⟨hup, hoq, _⟩ := ReplicaStep.processJust_spec cfg (propR1 cfg r0 j h) e j hver
    have e1 : (propR1 cfg r0 j h).highCommitQC = r.highCommitQC := by rw [hr0]; rfl
    have hhc : (processJust (propR1 cfg r0 j h) e j).1.highCommitQC = hcAfter r.highCommitQC j := by
      rw [processJust_hc, e1]
    have hq : QLe r.highCommitQC (processJust (propR1 cfg r0 j h) e j).1.highCommitQC := by
      rw [hhc]; exact qle_hcAfter _ _
    have hqu := queueOk_processJust (cfg := cfg) (propR1 cfg r0 j h) e hver hj
    unfold propTail
    cases hok : (processJust (propR1 cfg r0 j h) e j).2.2 with
    | false =>
      simp only [Bool.not_false, if_true]
      exact sum_quiet hpj hq hqu hoq
    | true =>
      simp only [Bool.not_true, Bool.false_eq_true, if_false]
      refine ⟨hpj, hq, ?_, fun d _ => ?_⟩
      · intro n p' q hmem
        have hmem' : Effect.queueBlock n p' q ∈ (processJust (propR1 cfg r0 j h) e j).2.1 ++
            [.persist (processJust (propR1 cfg r0 j h) e j).1.durable, .send (.commit (propVote cfg j h))] := hmem
        rcases List.mem_append.mp hmem' with h1 | h1
        · exact hqu n p' q h1
        · simp at h1
      · refine Kind.vote p j key sigOk h rfl hver ?_ ?_ ?_ ?_ ?_ hhc
        · by_cases hp : r.phase = .prepare
          · by_cases hlt : r.view < j.viewNumber
            · exact Or.inl hlt
            · refine Or.inr ⟨?_, hp⟩
              have : ¬ j.viewNumber < r.view := fun h => hcan (Or.inl h)
              omega
          · refine Or.inl ?_
            have h1 : ¬ j.viewNumber < r.view := fun h => hcan (Or.inl h)
            have h2 : ¬ j.viewNumber = r.view := fun h => hcan (Or.inr ⟨h, hp⟩)
            omega
        · intro hh hib
          rcases propDecide_ok hd with ⟨h1, _, _⟩ | ⟨h1, _⟩
          · rw [h1] at hib; cases hib; rfl
          · rw [h1] at hib; cases hib
        · show (processJust (propR1 cfg r0 j h) e j).1.view = j.viewNumber
          rw [hup.view]; rfl
        · show (processJust (propR1 cfg r0 j h) e j).1.phase = .commit
          rw [hup.phase]; rfl
        · show (processJust (propR1 cfg r0 j h) e j).1.highVote = some (propVote cfg j h)
          rw [hup.highVote]; rfl

/-- **One step of a replica, summarised.** -/
theorem step_sum {cfg : RCfg} {sg : Sigs} {r : Replica} (e : Env) {inp : Input} (hw : Wf cfg r) (ha : RAuth sg r)
    (hin : ∀ b, inp ≠ .restart b) (hok : InputOk inp) (hia : InpAuth sg inp) :
    StepSum cfg sg r inp (step cfg r e inp) := by
  cases inp with
  | tick => exact sum_tick hw ha
  | restart b => exact absurd rfl (hin b)
  | msg s =>
    obtain ⟨m, key, sigOk⟩ := s
    cases m with
    | proposal p j => exact sum_proposal e key sigOk p ha hia
    | commit v => exact sum_commit e key sigOk hw ha hok hia
    | timeout t => exact sum_timeout e key sigOk hw ha hok hia.1 hia.2
    | newView j => exact sum_newView e key sigOk ha hia

end EraVerif.Proofs.RefineIP
