import EraVerif.Proofs.Mux

/-! # C14: per-stream FIFO delivery and the reader's view of a session -/

namespace EraVerif.Proofs.Mux
open EraVerif.Model.Mux EraVerif.Gen.MuxConst

attribute [local simp] State.upd State.release State.releaseOpt State.emit State.setSlot State.log State.enqueue
  handover finishRead

/-- what a queued frame looks like from outside: kind and payload -/
def absF (f : RFrame) : FK × List Nat := (f.kind, f.data)

/-- the frames dispatched to stream `k`, in order -/
def proj (k : Key) (l : List (Key × FK × List Nat)) : List (FK × List Nat) :=
  (l.filter (fun e => e.1 = k)).map (·.2)

theorem proj_append (k : Key) (l1 l2 : List (Key × FK × List Nat)) : proj k (l1 ++ l2) = proj k l1 ++ proj k l2 := by
  simp [proj]

/-- what one iteration of `read_exact`'s loop does with the frame `f` it took -/
def ReadF (f : RFrame) (t t' : StreamSt) : Prop :=
  match f.kind with
  | .open => t'.cache = none ∧ t'.delivered = t.delivered ∧ t'.closeRecv = false
  | .close => t'.cache = none ∧ t'.delivered = t.delivered ∧ t'.closeRecv = true
  | .data => ∃ n, n ≤ f.data.length ∧ t'.delivered = t.delivered ++ f.data.take n ∧ t'.closeRecv = false ∧
      t'.cache = if f.data.drop n = [] then none else some { f with data := f.data.drop n }

/-- the effect of one `readStep` on the fields the delivery invariants talk about -/
structure ReadEff (s s' : State) (k : Key) : Prop where
  other : ∀ k', k' ≠ k → s'.st k' = s.st k'
  disp : s'.dispatched = s.dispatched
  pend : (s.st k).pendR.isSome = true
  rph : (s'.st k).rphase = (s.st k).rphase
  sst : (s'.st k).sessStart = (s.st k).sessStart
  cases :
    ((s'.st k).queue = (s.st k).queue ∧ (s'.st k).cache = (s.st k).cache ∧ (s'.st k).taken = (s.st k).taken ∧
      (s'.st k).delivered = (s.st k).delivered ∧ (s'.st k).closeRecv = (s.st k).closeRecv) ∨
    (∃ f, (s.st k).closeRecv = false ∧ (s.st k).cache = some f ∧ (s'.st k).queue = (s.st k).queue ∧
      (s'.st k).taken = (s.st k).taken ∧ ReadF f (s.st k) (s'.st k)) ∨
    (∃ f q, (s.st k).closeRecv = false ∧ (s.st k).cache = none ∧ (s.st k).queue = f :: q ∧ (s'.st k).queue = q ∧
      (s'.st k).taken = (s.st k).taken ++ [absF f] ∧ ReadF f (s.st k) (s'.st k))

set_option maxHeartbeats 4000000 in
theorem readStep_eff {s s' : State} {k : Key} (h : stepReadStep s k = some s') : ReadEff s s' k := by
  unfold stepReadStep readFrame at h
  leaves h
  all_goals subst h
  all_goals constructor
  all_goals first
    | (intro k' hk'; red; simp [hk']; done)
    | rfl
    | (red; simp_all; done)
    | skip
  all_goals (red; simp only [↓reduceIte])
  all_goals first
    | (left; simp_all; done)
    | (right; left; refine ⟨‹RFrame›, ?_, ?_, ?_, ?_, ?_⟩
       · simp_all
       · assumption
       · trivial
       · trivial
       · unfold ReadF; simp only [*]
         first | (simp_all; done) | (refine ⟨_, Nat.min_le_right _ _, rfl, ?_, ?_⟩ <;> simp_all [List.drop_eq_nil_iff]; done))
    | (right; right; refine ⟨‹RFrame›, ‹List RFrame›, ?_, ?_, ?_, ?_, ?_, ?_⟩
       · simp_all
       · assumption
       · assumption
       · trivial
       · trivial
       · unfold ReadF; simp only [*]
         first | (simp_all; done) | (refine ⟨_, Nat.min_le_right _ _, rfl, ?_, ?_⟩ <;> simp_all [List.drop_eq_nil_iff]; done))
    | skip


/-! ## per-stream FIFO: nothing is lost, duplicated, reordered or delivered to another stream -/

structure FInv (s : State) : Prop where
  fifo : ∀ k, (s.st k).taken ++ (s.st k).queue.map absF = proj k s.dispatched

theorem FInv_init (cfg : Cfg) (acc con pacc pcon : Caps) : FInv (State.init cfg acc con pacc pcon) := by
  obtain ⟨d, na, nc, e⟩ := init_eq cfg acc con pacc pcon
  rw [e]
  constructor
  simp [State.start, proj]

def tqSame (t t' : StreamSt) : Prop := t'.taken = t.taken ∧ t'.queue = t.queue

theorem tqSame_refl (t : StreamSt) : tqSame t t := ⟨rfl, rfl⟩

theorem tqSame_ite {t : Key → StreamSt} {k k' : Key} {v : StreamSt} (h : tqSame (t k) v) :
    tqSame (t k') (if k' = k then v else t k') := by
  by_cases hk : k' = k
  · subst hk; simpa using h
  · simp [hk, tqSame_refl]

theorem FInv_of_same {s s' : State} (h1 : s'.dispatched = s.dispatched) (h2 : ∀ k, tqSame (s.st k) (s'.st k))
    (hi : FInv s) : FInv s' := by
  constructor
  intro k
  rw [h1, (h2 k).1, (h2 k).2]
  exact hi.fifo k

macro "tqsame" : tactic =>
  `(tactic| (intro k'; red; try simp only [if_true, ↓reduceIte, ite_ite_same];
             first | exact tqSame_refl _ | (refine tqSame_ite ?_; simp_all [tqSame]; done)))

theorem FInv_stepRecvOpenStart {s s' : State} {k : Key} (hi : FInv s) (h : stepRecvOpenStart s k = some s') : FInv s' := by
  unfold stepRecvOpenStart at h
  leaves h
  all_goals (subst h; refine FInv_of_same (s := s) rfl ?_ hi; tqsame)

theorem FInv_stepCloseData {s s' : State} {k : Key} (hi : FInv s) (h : stepCloseData s k = some s') : FInv s' := by
  unfold stepCloseData at h
  leaves h
  all_goals (subst h; refine FInv_of_same (s := s) rfl ?_ hi; tqsame)

theorem FInv_stepCloseFrame {s s' : State} {k : Key} (hi : FInv s) (h : stepCloseFrame s k = some s') : FInv s' := by
  unfold stepCloseFrame at h
  leaves h
  all_goals (subst h; refine FInv_of_same (s := s) rfl ?_ hi; tqsame)

theorem FInv_stepJoinedA {s s' : State} {k : Key} (hi : FInv s) (h : stepJoinedA s k = some s') : FInv s' := by
  unfold stepJoinedA at h
  leaves h
  all_goals (subst h; refine FInv_of_same (s := s) rfl ?_ hi; tqsame)

theorem FInv_stepPush {s s' : State} {k : Key} (hi : FInv s) (h : stepPush s k = some s') : FInv s' := by
  unfold stepPush at h
  leaves h
  all_goals (subst h; refine FInv_of_same (s := s) rfl ?_ hi; tqsame)

theorem FInv_stepPop {s s' : State} {conn : Bool} {cap : Nat} (hi : FInv s) (h : stepPop s conn cap = some s') : FInv s' := by
  unfold stepPop at h
  leaves h
  all_goals (subst h; refine FInv_of_same (s := s) rfl ?_ hi; tqsame)

theorem FInv_stepSendOpen {s s' : State} {k : Key} (hi : FInv s) (h : stepSendOpen s k = some s') : FInv s' := by
  unfold stepSendOpen at h
  leaves h
  all_goals (subst h; refine FInv_of_same (s := s) rfl ?_ hi; tqsame)

theorem FInv_stepJoinedC {s s' : State} {k : Key} (hi : FInv s) (h : stepJoinedC s k = some s') : FInv s' := by
  unfold stepJoinedC at h
  leaves h
  all_goals (subst h; refine FInv_of_same (s := s) rfl ?_ hi; tqsame)

theorem FInv_stepDoFlush {s s' : State}  (hi : FInv s) (h : stepDoFlush s  = some s') : FInv s' := by
  unfold stepDoFlush at h
  leaves h
  all_goals (subst h; refine FInv_of_same (s := s) rfl ?_ hi; tqsame)

theorem FInv_stepWTake {s s' : State}  (hi : FInv s) (h : stepWTake s  = some s') : FInv s' := by
  unfold stepWTake at h
  leaves h
  all_goals (subst h; refine FInv_of_same (s := s) rfl ?_ hi; tqsame)

theorem FInv_stepWDo {s s' : State}  (hi : FInv s) (h : stepWDo s  = some s') : FInv s' := by
  unfold stepWDo at h
  leaves h
  all_goals (subst h; refine FInv_of_same (s := s) rfl ?_ hi; tqsame)

theorem FInv_stepWBlock {s s' : State}  (hi : FInv s) (h : stepWBlock s  = some s') : FInv s' := by
  unfold stepWBlock at h
  leaves h
  all_goals (subst h; refine FInv_of_same (s := s) rfl ?_ hi; tqsame)

theorem FInv_stepFlushStep {s s' : State} {k : Key} (hi : FInv s) (h : stepFlushStep s k = some s') : FInv s' := by
  unfold stepFlushStep at h
  leaves h
  all_goals (subst h; refine FInv_of_same (s := s) rfl ?_ hi; tqsame)

theorem FInv_stepCancelWrite {s s' : State} {k : Key} (hi : FInv s) (h : stepCancelWrite s k = some s') : FInv s' := by
  unfold stepCancelWrite StreamSt.endWrite at h
  leaves h
  all_goals (subst h; refine FInv_of_same (s := s) rfl ?_ hi; tqsame)

theorem FInv_stepCancelFlush {s s' : State} {k : Key} (hi : FInv s) (h : stepCancelFlush s k = some s') : FInv s' := by
  unfold stepCancelFlush at h
  leaves h
  all_goals (subst h; refine FInv_of_same (s := s) rfl ?_ hi; tqsame)

theorem FInv_stepAppOpen {s s' : State} {slot : Nat} {conn : Bool} {cap : Nat} (hi : FInv s) (h : stepAppOpen s slot conn cap = some s') : FInv s' := by
  unfold stepAppOpen at h
  leaves h
  all_goals (subst h; refine FInv_of_same (s := s) rfl ?_ hi; tqsame)

theorem FInv_stepAppRead {s s' : State} {slot n : Nat} (hi : FInv s) (h : stepAppRead s slot n = some s') : FInv s' := by
  unfold stepAppRead at h
  leaves h
  all_goals (subst h; refine FInv_of_same (s := s) rfl ?_ hi; tqsame)

theorem FInv_stepAppWrite {s s' : State} {slot : Nat} {bytes : List Nat} (hi : FInv s) (h : stepAppWrite s slot bytes = some s') : FInv s' := by
  unfold stepAppWrite at h
  leaves h
  all_goals (subst h; refine FInv_of_same (s := s) rfl ?_ hi; tqsame)

theorem FInv_stepWriteStep {s s' : State} {k : Key} (hi : FInv s) (h : stepWriteStep s k = some s') : FInv s' := by
  unfold stepWriteStep StreamSt.endWrite at h
  leaves h
  all_goals (subst h; refine FInv_of_same (s := s) rfl ?_ hi; tqsame)

theorem FInv_stepAppFlush {s s' : State} {slot : Nat} (hi : FInv s) (h : stepAppFlush s slot = some s') : FInv s' := by
  unfold stepAppFlush at h
  leaves h
  all_goals (subst h; refine FInv_of_same (s := s) rfl ?_ hi; tqsame)

theorem FInv_stepAppDrop {s s' : State} {slot : Nat} {r w : Bool} (hi : FInv s) (h : stepAppDrop s slot r w = some s') : FInv s' := by
  unfold stepAppDrop at h
  leaves h
  all_goals (subst h; refine FInv_of_same (s := s) rfl ?_ hi; tqsame)


/-- the inbound loop hands a frame to stream `k` -/
theorem FInv_enqueue {s s' : State} {k : Key} {fk : FK} {data : List Nat} (hi : FInv s)
    (hd : s'.dispatched = s.dispatched ++ [(k, fk, data)])
    (hk : (s'.st k).taken = (s.st k).taken ∧ ∃ size, (s'.st k).queue = (s.st k).queue ++ [⟨fk, data, size⟩])
    (ho : ∀ k', k' ≠ k → s'.st k' = s.st k') : FInv s' := by
  constructor
  intro k'
  rw [hd, proj_append]
  by_cases e : k' = k
  · subst e
    obtain ⟨hk1, size, hk2⟩ := hk
    rw [hk1, hk2, List.map_append, ← List.append_assoc, hi.fifo k']
    simp [proj, absF]
  · rw [ho k' e, hi.fifo k']
    have : (k = k') = False := by simp; exact fun h => e h.symm
    simp [proj, this]

theorem FInv_stepPump {s s' : State} (hi : FInv s) (h : stepPump s = some s') : FInv s' := by
  unfold stepPump at h
  leaves h
  all_goals subst h
  all_goals first
    | (refine FInv_of_same (s := s) rfl ?_ hi; tqsame; done)
    | skip
  all_goals (refine FInv_enqueue (s := s) hi rfl ?_ ?_)
  all_goals first
    | (intro k' hk'; red; simp [hk']; done)
    | (red; simp; done)

/-- a consumer takes the head of stream `k`'s queue -/
theorem FInv_take {s s' : State} {k : Key} {f : RFrame} {q : List RFrame} (hi : FInv s)
    (hd : s'.dispatched = s.dispatched) (hq : (s.st k).queue = f :: q)
    (hk : (s'.st k).taken = (s.st k).taken ++ [absF f] ∧ (s'.st k).queue = q)
    (ho : ∀ k', k' ≠ k → s'.st k' = s.st k') : FInv s' := by
  constructor
  intro k'
  rw [hd]
  by_cases e : k' = k
  · subst e
    rw [hk.1, hk.2, ← hi.fifo k', hq]
    simp
  · rw [ho k' e, hi.fifo k']

theorem FInv_stepDiscard {s s' : State} {k : Key} (hi : FInv s) (h : stepDiscard s k = some s') : FInv s' := by
  unfold stepDiscard at h
  leaves h
  all_goals
    rename_i f q hq _
    subst h
    refine FInv_take (s := s) (k := k) hi rfl hq ?_ ?_
  all_goals first
    | (intro k' hk'; red; simp [hk']; done)
    | (red; simp [absF]; done)

theorem FInv_stepReadStep {s s' : State} {k : Key} (hi : FInv s) (h : stepReadStep s k = some s') : FInv s' := by
  obtain ⟨other, disp, _, _, _, cases⟩ := readStep_eff h
  rcases cases with ⟨hq, _, ht, _, _⟩ | ⟨f, _, _, hq, ht, _⟩ | ⟨f, q, _, _, hq, hq', ht, _⟩
  · constructor
    intro k'
    rw [disp]
    by_cases e : k' = k
    · subst e; rw [ht, hq]; exact hi.fifo k'
    · rw [other k' e]; exact hi.fifo k'
  · constructor
    intro k'
    rw [disp]
    by_cases e : k' = k
    · subst e; rw [ht, hq]; exact hi.fifo k'
    · rw [other k' e]; exact hi.fifo k'
  · exact FInv_take hi disp hq ⟨ht, hq'⟩ other

theorem FInv_step {s s' : State} {e : Event} (hi : FInv s) (h : step? s e = some s') : FInv s' := by
  cases e <;> simp only [step?] at h
  case wireIn f => cases h; exact FInv_of_same (s := s) rfl (fun k => tqSame_refl _) hi
  case wireEof => cases h; exact FInv_of_same (s := s) rfl (fun k => tqSame_refl _) hi
  case pump => exact FInv_stepPump hi h
  case recvOpenStart k => exact FInv_stepRecvOpenStart hi h
  case discard k => exact FInv_stepDiscard hi h
  case closeData k => exact FInv_stepCloseData hi h
  case closeFrame k => exact FInv_stepCloseFrame hi h
  case joinedA k => exact FInv_stepJoinedA hi h
  case push k => exact FInv_stepPush hi h
  case pop c x => exact FInv_stepPop hi h
  case sendOpen k => exact FInv_stepSendOpen hi h
  case joinedC k => exact FInv_stepJoinedC hi h
  case doFlush => exact FInv_stepDoFlush hi h
  case appOpen a b c => exact FInv_stepAppOpen hi h
  case appRead a b => exact FInv_stepAppRead hi h
  case readStep k => exact FInv_stepReadStep hi h
  case appWrite a b => exact FInv_stepAppWrite hi h
  case writeStep k => exact FInv_stepWriteStep hi h
  case appFlush a => exact FInv_stepAppFlush hi h
  case appDrop a b c => exact FInv_stepAppDrop hi h
  case wtake => exact FInv_stepWTake hi h
  case wdo => exact FInv_stepWDo hi h
  case wblock => exact FInv_stepWBlock hi h
  case txWindow l => cases h; exact FInv_of_same (s := s) rfl (fun k => tqSame_refl _) hi
  case flushStep k => exact FInv_stepFlushStep hi h
  case cancelWrite k => exact FInv_stepCancelWrite hi h
  case cancelFlush k => exact FInv_stepCancelFlush hi h

theorem FInv_reachable {s : State} (h : Reachable s) : FInv s :=
  reachable_inv (P := FInv) FInv_init (fun _ _ _ hi hs => FInv_step hi hs) h

end EraVerif.Proofs.Mux
