import EraVerif.Proofs.Mux

namespace EraVerif.Proofs.Mux
open EraVerif.Model.Mux EraVerif.Gen.MuxConst

attribute [local simp] State.upd State.release State.releaseOpt State.emit State.setSlot State.log State.enqueue
  handover finishRead

/-- split `h : step… = some s'` into its leaves, substituting `s'` -/
macro "leaves" h:ident : tactic =>
  `(tactic| (repeat' (first
      | (split at $h:ident)
      | (simp only [Option.some.injEq, reduceCtorEq] at $h:ident)
      )))

/-- unfold whichever step function `h` is about -/
macro "unfold_step" h:ident : tactic =>
  `(tactic| (simp only [step?] at $h:ident; try (first | unfold stepPump at $h:ident | unfold stepRecvOpenStart at $h:ident | unfold stepDiscard at $h:ident | unfold stepCloseData at $h:ident | unfold stepCloseFrame at $h:ident | unfold stepJoinedA at $h:ident | unfold stepPush at $h:ident | unfold stepPop at $h:ident | unfold stepSendOpen at $h:ident | unfold stepJoinedC at $h:ident | unfold stepDoFlush at $h:ident | unfold stepAppOpen at $h:ident | unfold stepAppRead at $h:ident | unfold stepReadStep at $h:ident | unfold stepAppWrite at $h:ident | unfold stepWriteStep at $h:ident | unfold stepAppFlush at $h:ident | unfold stepAppDrop at $h:ident)))

/-- the configuration and the stream-id partition never change -/
theorem step?_static {s s' : State} {e : Event} (h : step? s e = some s') :
    s'.cfg = s.cfg ∧ s'.nAcc = s.nAcc ∧ s'.nCon = s.nCon ∧ s'.rngAcc = s.rngAcc ∧ s'.rngCon = s.rngCon := by
  cases e <;> unfold_step h <;> leaves h
  all_goals (subst h; simp [readFrame]; try (repeat' split) <;> simp)


/-! ## Part 3a: locks, queues, slots -/

structure LInv (s : State) : Prop where
  d1 : ∀ k, (s.st k).mphase ≠ .waitWrite → (s.st k).writeHeld = false
  d2 : ∀ k, (s.st k).rphase ≠ .waitLock → (s.st k).readHeld = false
  pr : ∀ k, (s.st k).pendR.isSome = true → (s.st k).readHeld = true
  pw : ∀ k, (s.st k).pendW.isSome = true → (s.st k).writeHeld = true
  d5 : ∀ k, k.conn = false →
        ((s.st k).mphase = .wantPush ∨ (s.st k).mphase = .pushed ∨ ∃ x, (s.st k).mphase = .reserved x) →
        (s.st k).rphase = .done
  q : ∀ conn cap id, id ∈ s.qPushed conn cap →
        (s.st ⟨conn, id⟩).mphase = .pushed ∧ capOfId (s.rng conn) id = some cap
  qnd : ∀ conn cap, (s.qPushed conn cap).Nodup
  sl : ∀ x k r w, s.slots x = .held k r w →
        (r = true → (s.st k).readHeld = true) ∧ (w = true → (s.st k).writeHeld = true)
  uniq : ∀ x y k r w r' w', s.slots x = .held k r w → s.slots y = .held k r' w' → x ≠ y →
        ¬((r || w) = true ∧ (r' || w') = true)
  valid : ∀ x k r w, s.slots x = .held k r w → k.valid s = true

theorem init_eq (cfg : Cfg) (acc con pacc pcon : Caps) :
    ∃ d na nc, State.init cfg acc con pacc pcon =
      { State.start cfg acc con pacc pcon with dead := d, nAcc := na, nCon := nc } := by
  unfold State.init
  simp only []
  split
  · exact ⟨_, _, _, rfl⟩
  · split
    · exact ⟨_, _, _, rfl⟩
    · split
      · exact ⟨_, _, _, rfl⟩
      · exact ⟨_, _, _, rfl⟩

theorem LInv_init (cfg : Cfg) (acc con pacc pcon : Caps) : LInv (State.init cfg acc con pacc pcon) := by
  obtain ⟨d, na, nc, e⟩ := init_eq cfg acc con pacc pcon
  rw [e]
  constructor <;> simp [State.start]


macro "linv_start" hi:ident h:ident : tactic =>
  `(tactic| (obtain ⟨d1, d2, pr, pw, d5, q, qnd, sl, uniq, valid⟩ := $hi; leaves $h))

theorem LInv_pump {s s' : State} (hi : LInv s) (h : stepPump s = some s') : LInv s' := by
  unfold stepPump at h
  obtain ⟨d1, d2, pr, pw, d5, q, qnd, sl, uniq, valid⟩ := hi
  leaves h
  all_goals (subst h; constructor)
  all_goals (first | (intros; simp_all; done) | skip)
  all_goals sorry

theorem LInv_discard {s s' : State} {k : Key} (hi : LInv s) (h : stepDiscard s k = some s') : LInv s' := by
  unfold stepDiscard at h
  obtain ⟨d1, d2, pr, pw, d5, q, qnd, sl, uniq, valid⟩ := hi
  leaves h
  all_goals (subst h; constructor)
  all_goals (first | (intros; simp_all; done) | skip)
  all_goals sorry

end EraVerif.Proofs.Mux
