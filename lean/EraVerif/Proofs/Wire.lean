import EraVerif.Model.Wire
/-! Helper lemmas for C09: the wire layer (`Model/Wire.lean`). Core Lean only. -/
namespace EraVerif.Proofs.Wire
open EraVerif.Model.Wire

theorem writeVarintAux_fuel (n : Nat) : ∀ f f', n ≤ f → n ≤ f' → writeVarintAux f n = writeVarintAux f' n := by
  induction n using Nat.strongRecOn with
  | _ n ih =>
    intro f f' hf hf'
    by_cases h : n < 128
    · cases f <;> cases f' <;> simp [writeVarintAux, h]
    · obtain ⟨g, rfl⟩ : ∃ g, f = g + 1 := ⟨f - 1, by omega⟩
      obtain ⟨g', rfl⟩ : ∃ g', f' = g' + 1 := ⟨f' - 1, by omega⟩
      simp only [writeVarintAux, h, if_false]
      rw [ih (n / 128) (by omega) g g' (by omega) (by omega)]

/-- the loop equation of `write_varint` -/
theorem writeVarint_eq (n : Nat) :
    writeVarint n = if n < 128 then [UInt8.ofNat n] else UInt8.ofNat (n % 128 + 128) :: writeVarint (n / 128) := by
  unfold writeVarint
  cases n with
  | zero => rfl
  | succ m =>
    simp only [writeVarintAux]
    split
    · rfl
    · rw [writeVarintAux_fuel ((m + 1) / 128) m ((m + 1) / 128) (by omega) (Nat.le_refl _)]

theorem readVarintAux_write (n : Nat) : ∀ (k sh acc : Nat) (rest : Bytes), n < 2 ^ (7 * (k+1)) → 
    readVarintAux (k+1) sh acc (writeVarint n ++ rest) = .ok (acc + n * 2 ^ sh, rest) := by
  induction n using Nat.strongRecOn with
  | _ n ih =>
    intro k sh acc rest hk
    rw [writeVarint_eq]
    split
    · rename_i h
      have h1 : n % 256 = n := Nat.mod_eq_of_lt (by omega)
      have h2 : n % 128 = n := Nat.mod_eq_of_lt h
      simp [readVarintAux, h1, h2, h]
    · rename_i h
      have h256 : (n % 128 + 128) % 256 = n % 128 + 128 := Nat.mod_eq_of_lt (by omega)
      have hm : (n % 128 + 128) % 128 = n % 128 := by omega
      have hge : ¬ (n % 128 + 128 < 128) := by omega
      cases k with
      | zero => simp at hk; omega
      | succ k =>
        have hlt : n / 128 < 2 ^ (7 * (k + 1)) := by
          rw [Nat.div_lt_iff_lt_mul (by omega)]
          have : 2 ^ (7 * (k + 1 + 1)) = 2 ^ (7 * (k+1)) * 128 := by
            rw [show 7 * (k + 1 + 1) = 7 * (k+1) + 7 by omega, Nat.pow_add]
          omega
        simp only [List.cons_append, readVarintAux, UInt8.toNat_ofNat', h256, hm, hge, if_false]
        rw [ih (n / 128) (by omega) k (sh + 7) _ rest hlt]
        congr 2
        have : 2 ^ (sh + 7) = 128 * 2 ^ sh := by rw [Nat.pow_add]; omega
        rw [this]
        have hn : n = 128 * (n / 128) + n % 128 := (Nat.div_add_mod n 128).symm
        calc acc + n % 128 * 2 ^ sh + n / 128 * (128 * 2 ^ sh)
            = acc + (128 * (n / 128) + n % 128) * 2 ^ sh := by rw [Nat.add_mul]; ac_rfl
          _ = acc + n * 2 ^ sh := by rw [← hn]

/-! ## Varints: every valid encoding (minimal or padded) reads back; `write_varint` is minimal -/

/-- value of a varint byte string: little-endian base 128 of the low 7 bits of every byte -/
def varintVal : Bytes → Nat
  | [] => 0
  | b :: bs => b.toNat % 128 + 128 * varintVal bs

/-- `IsVarintN k bs`: `bs` is a complete varint of exactly `k` bytes — continuation bit on every byte but the last. -/
inductive IsVarintN : Nat → Bytes → Prop
  | last (b : UInt8) : b.toNat < 128 → IsVarintN 1 [b]
  | more (b : UInt8) (bs : Bytes) (k : Nat) : 128 ≤ b.toNat → IsVarintN k bs → IsVarintN (k + 1) (b :: bs)

/-- `bs` is a protobuf varint (1–10 bytes, minimal or padded) whose value is exactly `n`. -/
def EncVarint (n : Nat) (bs : Bytes) : Prop := ∃ k, k ≤ 10 ∧ IsVarintN k bs ∧ varintVal bs = n

theorem IsVarintN.ne_nil {k bs} (h : IsVarintN k bs) : bs ≠ [] := by cases h <;> simp
theorem IsVarintN.length {k bs} (h : IsVarintN k bs) : bs.length = k := by
  induction h with
  | last => rfl
  | more _ _ _ _ _ ih => simp [ih]
theorem IsVarintN.pos {k bs} (h : IsVarintN k bs) : 0 < k := by cases h <;> omega

theorem readVarintAux_isVarint {k bs} (h : IsVarintN k bs) :
    ∀ (fuel sh acc : Nat) (rest : Bytes), k ≤ fuel →
      readVarintAux fuel sh acc (bs ++ rest) = .ok (acc + varintVal bs * 2 ^ sh, rest) := by
  induction h with
  | last b hb =>
    intro fuel sh acc rest hk
    obtain ⟨f, rfl⟩ : ∃ f, fuel = f + 1 := ⟨fuel - 1, by omega⟩
    simp [readVarintAux, hb, varintVal]
  | more b bs k hb _ ih =>
    intro fuel sh acc rest hk
    obtain ⟨f, rfl⟩ : ∃ f, fuel = f + 1 := ⟨fuel - 1, by omega⟩
    have hnb : ¬ b.toNat < 128 := by omega
    simp only [List.cons_append, readVarintAux, hnb, if_false]
    rw [ih f (sh + 7) _ rest (by omega)]
    congr 2
    simp only [varintVal]
    have : 2 ^ (sh + 7) = 128 * 2 ^ sh := by rw [Nat.pow_add]; omega
    rw [this, Nat.add_mul, Nat.add_assoc]
    congr 1
    rw [Nat.mul_comm 128 (varintVal bs), Nat.mul_assoc]

theorem readVarint64_enc {n bs} (h : EncVarint n bs) (hn : n < 2 ^ 64) (rest : Bytes) :
    readVarint64 (bs ++ rest) = .ok (n, rest) := by
  obtain ⟨k, hk, hv, rfl⟩ := h
  simp [readVarint64, readVarintAux_isVarint hv 10 0 0 rest hk, Nat.mod_eq_of_lt hn]

theorem readVarint32_enc {n bs} (h : EncVarint n bs) (hn : n < 2 ^ 32) (rest : Bytes) :
    readVarint32 (bs ++ rest) = .ok (n, rest) := by
  obtain ⟨k, hk, hv, rfl⟩ := h
  simp [readVarint32, readVarintAux_isVarint hv 10 0 0 rest hk, Nat.mod_eq_of_lt hn]

/-- the minimal encoding is a varint of its value -/
theorem writeVarint_isVarint (n : Nat) : ∃ k, IsVarintN k (writeVarint n) ∧ varintVal (writeVarint n) = n ∧
    (∀ j, n < 2 ^ (7 * (j + 1)) → k ≤ j + 1) := by
  induction n using Nat.strongRecOn with
  | _ n ih =>
    rw [writeVarint_eq]
    split
    · rename_i h
      refine ⟨1, .last _ ?_, ?_, fun j _ => by omega⟩
      · simp [UInt8.toNat_ofNat']; omega
      · simp [varintVal, UInt8.toNat_ofNat']; omega
    · rename_i h
      obtain ⟨k, hk, hv, hb⟩ := ih (n / 128) (by omega)
      refine ⟨k + 1, .more _ _ _ ?_ hk, ?_, ?_⟩
      · simp [UInt8.toNat_ofNat']; omega
      · simp only [varintVal, hv, UInt8.toNat_ofNat']; omega
      · intro j hj
        cases j with
        | zero => simp at hj; omega
        | succ j =>
          have : n / 128 < 2 ^ (7 * (j + 1)) := by
            rw [Nat.div_lt_iff_lt_mul (by omega)]
            have : 2 ^ (7 * (j + 1 + 1)) = 2 ^ (7 * (j+1)) * 128 := by
              rw [show 7 * (j + 1 + 1) = 7 * (j+1) + 7 by omega, Nat.pow_add]
            omega
          have := hb j this
          omega

theorem writeVarint_enc {n : Nat} (h : n < 2 ^ 64) : EncVarint n (writeVarint n) := by
  obtain ⟨k, hk, hv, hb⟩ := writeVarint_isVarint n
  exact ⟨k, hb 9 (by omega), hk, hv⟩

/-- minimality: no varint with the same value is shorter than `write_varint`'s -/
theorem writeVarint_minimal {k bs} (h : IsVarintN k bs) : (writeVarint (varintVal bs)).length ≤ k := by
  induction h with
  | last b hb =>
    have : varintVal [b] = b.toNat := by simp [varintVal]; omega
    rw [this, writeVarint_eq]; simp [hb]
  | more b bs k hb hbs ih =>
    rw [writeVarint_eq]
    split
    · simp
    · have : varintVal (b :: bs) / 128 = varintVal bs := by simp only [varintVal]; omega
      simp [this]; exact ih

/-! ## One value -/

/-- `bs` is a valid protobuf encoding of the scalar whose canonical byte form is `raw`, under wire type `w`
(`varint`: any 1–10 byte varint of the same 64-bit value; fixed width: the bytes themselves). -/
def SerScalar (w : Wire) (raw bs : Bytes) : Prop :=
  match w with
  | .varint => ∃ n, n < 2 ^ 64 ∧ raw = writeVarint n ∧ EncVarint n bs
  | .i64 => raw.length = 8 ∧ bs = raw
  | .i32 => raw.length = 4 ∧ bs = raw
  | .len => False

theorem takeN_append (n : Nat) (a rest : Bytes) (h : a.length = n) : takeN n (a ++ rest) = .ok (a, rest) := by
  subst h; simp [takeN]

theorem SerScalar.ne_nil {w raw bs} (h : SerScalar w raw bs) : bs ≠ [] := by
  cases w <;> simp only [SerScalar] at h
  · obtain ⟨n, _, _, k, _, hk, _⟩ := h; exact hk.ne_nil
  · obtain ⟨h1, rfl⟩ := h; intro h2; simp [h2] at h1
  · obtain ⟨h1, rfl⟩ := h; intro h2; simp [h2] at h1

theorem readValue_scalar {w raw bs} (h : SerScalar w raw bs) (rest : Bytes) :
    readValue w (bs ++ rest) = .ok (raw, rest) := by
  cases w <;> simp only [SerScalar] at h
  · obtain ⟨n, hn, rfl, he⟩ := h
    simp [readValue, readVarint64_enc he hn]
  · obtain ⟨h1, rfl⟩ := h; simp [readValue, takeN_append 8 _ _ h1]
  · obtain ⟨h1, rfl⟩ := h; simp [readValue, takeN_append 4 _ _ h1]

/-- A length prefix: a varint of a length below 2^32 (what `read_bytes` can represent). -/
def EncLen (n : Nat) (lb : Bytes) : Prop := n < 2 ^ 32 ∧ EncVarint n lb

theorem readBytes_enc {v lb : Bytes} (h : EncLen v.length lb) (rest : Bytes) :
    readBytes (lb ++ (v ++ rest)) = .ok (v, rest) := by
  simp [readBytes, readVarint32_enc h.2 h.1, takeN_append v.length v rest rfl]

theorem readPacked_scalars {w : Wire} : ∀ (ps : List (Bytes × Bytes)) (fuel : Nat),
    (∀ p ∈ ps, SerScalar w p.1 p.2) → (ps.map (·.2)).flatten.length ≤ fuel →
    readPacked w fuel (ps.map (·.2)).flatten = .ok (ps.map (·.1)) := by
  intro ps
  induction ps with
  | nil => intro fuel _ _; cases fuel <;> simp [readPacked]
  | cons p ps ih =>
    intro fuel hall hlen
    have hp := hall p (by simp)
    have hne := hp.ne_nil
    simp only [List.map_cons, List.flatten_cons] at hlen ⊢
    obtain ⟨x, xs, hx⟩ : ∃ x xs, p.2 = x :: xs := by
      cases h : p.2 with
      | nil => exact absurd h hne
      | cons x xs => exact ⟨x, xs, rfl⟩
    obtain ⟨f, rfl⟩ : ∃ f, fuel = f + 1 := ⟨fuel - 1, by simp [hx] at hlen; omega⟩
    have hr := readValue_scalar hp (ps.map (·.2)).flatten
    rw [hx] at hr hlen ⊢
    simp only [List.cons_append] at hr hlen ⊢
    simp only [readPacked, hr]
    rw [ih f (fun q hq => hall q (by simp [hq])) (by simp only [List.length_cons, List.length_append] at hlen; omega)]

/-! ## One TLV -/

/-- what `read_fields` demands of a field descriptor (= the build-time check of `protobuf_build/canonical.rs`) -/
def FieldOk (fd : FieldSchema) : Prop := fd.isMap = false ∧ (fd.repeated = true ∨ fd.explicitPresence = true)

/-- a tag: a varint of `(num << 3) | wire` that fits the `u32` `next_tag` returns -/
def EncTag (num : Nat) (w : Wire) (tg : Bytes) : Prop :=
  num * 8 + w.raw < 2 ^ 32 ∧ EncVarint (num * 8 + w.raw) tg

/-- `RawTLV m num vals bs`: `bs` is one well-formed tag-length-value record of field `num` of message `m`, carrying
the values `vals` (in the byte form `Reader::read` returns them: canonical scalars, raw LEN payloads).
* `single`: a scalar with the field's own wire type;
* `packed`: any number (also 0 or 1) of scalars in one LEN record;
* `len`: a bytes / string / sub-message payload. -/
inductive RawTLV (m : MsgSchema) : Nat → List Bytes → Bytes → Prop
  | single {num : Nat} {fd : FieldSchema} {w : Wire} {raw vb tg : Bytes} :
      m.getField num = some fd → FieldOk fd → fd.kind.wire = w → w ≠ .len → EncTag num w tg →
      SerScalar w raw vb → RawTLV m num [raw] (tg ++ vb)
  | packed {num : Nat} {fd : FieldSchema} {w : Wire} {ps : List (Bytes × Bytes)} {tg lb : Bytes} :
      m.getField num = some fd → FieldOk fd → fd.kind.wire = w → w ≠ .len → EncTag num .len tg →
      (∀ p ∈ ps, SerScalar w p.1 p.2) → EncLen (ps.map (·.2)).flatten.length lb →
      RawTLV m num (ps.map (·.1)) (tg ++ (lb ++ (ps.map (·.2)).flatten))
  | len {num : Nat} {fd : FieldSchema} {v tg lb : Bytes} :
      m.getField num = some fd → FieldOk fd → fd.kind.wire = .len → EncTag num .len tg →
      EncLen v.length lb → RawTLV m num [v] (tg ++ (lb ++ v))

theorem fromTag_mk (num : Nat) (w : Wire) : Wire.fromTag (num * 8 + w.raw) = some w := by
  cases w <;> simp [Wire.fromTag, Wire.raw, Nat.add_mod]

theorem tag_div (num : Nat) (w : Wire) : (num * 8 + w.raw) / 8 = num := by
  cases w <;> simp [Wire.raw] <;> omega

theorem EncTag.ne_nil {num w tg} (h : EncTag num w tg) : tg ≠ [] := by
  obtain ⟨_, k, _, hk, _⟩ := h; exact hk.ne_nil

theorem RawTLV.ne_nil {m num vals bs} (h : RawTLV m num vals bs) : bs ≠ [] := by
  cases h <;> rename_i h5 _ <;> simp [EncTag.ne_nil ‹_›]

theorem readField_single {w : Wire} {raw vb : Bytes} (hs : SerScalar w raw vb) (rest : Bytes) :
    readField w w (vb ++ rest) = .ok ([raw], rest) := by
  simp [readField, readValue_scalar hs]

theorem readField_packed {w : Wire} {ps : List (Bytes × Bytes)} {lb : Bytes} (hnl : w ≠ .len)
    (hall : ∀ p ∈ ps, SerScalar w p.1 p.2) (hlen : EncLen (ps.map (·.2)).flatten.length lb) (rest : Bytes) :
    readField w .len (lb ++ ((ps.map (·.2)).flatten ++ rest)) = .ok (ps.map (·.1), rest) := by
  unfold readField
  rw [if_neg (fun h => hnl h.symm), if_neg (by simp), readBytes_enc hlen]
  simp only []
  rw [readPacked_scalars ps _ hall (Nat.le_refl _)]

theorem readField_len {v lb : Bytes} (hlen : EncLen v.length lb) (rest : Bytes) :
    readField .len .len (lb ++ (v ++ rest)) = .ok ([v], rest) := by
  simp [readField, readValue, readBytes_enc hlen]

/-- one iteration of the `read_fields` loop consumes exactly one TLV and appends its values to the field's entry -/
theorem readFieldsLoop_tlv {m : MsgSchema} {num : Nat} {vals : List Bytes} {bs : Bytes}
    (h : RawTLV m num vals bs) (rest : Bytes) (acc : FieldMap Bytes) (fuel : Nat) :
    readFieldsLoop m (fuel + 1) (bs ++ rest) acc = readFieldsLoop m fuel rest (acc.push num vals) := by
  obtain ⟨x, xs, hx⟩ : ∃ x xs, bs ++ rest = x :: xs := by
    have := h.ne_nil
    cases bs with
    | nil => exact absurd rfl this
    | cons x xs => exact ⟨x, xs ++ rest, rfl⟩
  rw [hx, readFieldsLoop, ← hx]
  cases h with
  | single hf hok hw hnl htag hs =>
    simp only [List.append_assoc, readVarint32_enc htag.2 htag.1, fromTag_mk, tag_div, hf, hw,
      readField_single hs]
    rcases hok.2 with h2 | h2 <;> simp [hok.1, h2]
  | packed hf hok hw hnl htag hall hlen =>
    simp only [List.append_assoc, readVarint32_enc htag.2 htag.1, fromTag_mk, tag_div, hf, hw,
      readField_packed hnl hall hlen]
    rcases hok.2 with h2 | h2 <;> simp [hok.1, h2]
  | len hf hok hw htag hlen =>
    simp only [List.append_assoc, readVarint32_enc htag.2 htag.1, fromTag_mk, tag_div, hf, hw,
      readField_len hlen]
    rcases hok.2 with h2 | h2 <;> simp [hok.1, h2]

/-! ## A message as a sequence of records -/

/-- One record of a serialisation: the field number, the values it carries — each as the pair
(generic value, byte form in which `read_fields` returns it) — and the bytes of the record. -/
structure Chunk where
  num : Nat
  vals : List (Tree × Bytes)
  bytes : Bytes

def chunksBytes (cs : List Chunk) : Bytes := (cs.map (·.bytes)).flatten

/-- apply a function to every value of a field map -/
def mapVals {α β : Type} (f : α → β) (m : FieldMap α) : FieldMap β := m.map (fun p => (p.1, p.2.map f))

/-- `read_fields` semantics of a record sequence: per field number, the values of its records in order. -/
def groupFrom (cs : List Chunk) (acc : FieldMap (Tree × Bytes)) : FieldMap (Tree × Bytes) :=
  cs.foldl (fun a c => a.push c.num c.vals) acc

def groupPairs (cs : List Chunk) : FieldMap (Tree × Bytes) := groupFrom cs []

theorem mapVals_push {α β : Type} (f : α → β) (m : FieldMap α) (k : Nat) (vs : List α) :
    mapVals f (m.push k vs) = (mapVals f m).push k (vs.map f) := by
  induction m with
  | nil => simp [FieldMap.push, mapVals]
  | cons p rest ih =>
    obtain ⟨k', vs'⟩ := p
    simp only [FieldMap.push, mapVals, List.map_cons] at ih ⊢
    split
    · simp
    · split
      · simp
      · simp [ih]

theorem mapVals_groupFrom {β : Type} (f : Tree × Bytes → β) (cs : List Chunk) :
    ∀ acc, mapVals f (groupFrom cs acc) = cs.foldl (fun a c => a.push c.num (c.vals.map f)) (mapVals f acc) := by
  induction cs with
  | nil => intro acc; rfl
  | cons c cs ih => intro acc; simp only [groupFrom, List.foldl_cons] at ih ⊢; rw [ih, mapVals_push]

theorem readFieldsLoop_chunks {m : MsgSchema} : ∀ (cs : List Chunk) (fuel : Nat) (acc : FieldMap Bytes),
    (∀ c ∈ cs, RawTLV m c.num (c.vals.map (·.2)) c.bytes) → (chunksBytes cs).length ≤ fuel →
    readFieldsLoop m fuel (chunksBytes cs) acc
      = .ok (cs.foldl (fun a c => a.push c.num (c.vals.map (·.2))) acc) := by
  intro cs
  induction cs with
  | nil => intro fuel acc _ _; cases fuel <;> simp [chunksBytes, readFieldsLoop]
  | cons c cs ih =>
    intro fuel acc hall hlen
    have hc := hall c (by simp)
    have hne := hc.ne_nil
    simp only [chunksBytes, List.map_cons, List.flatten_cons] at hlen ⊢
    obtain ⟨f, rfl⟩ : ∃ f, fuel = f + 1 := by
      refine ⟨fuel - 1, ?_⟩
      cases hb : c.bytes with
      | nil => exact absurd hb hne
      | cons x xs => simp [hb] at hlen; omega
    rw [readFieldsLoop_tlv hc]
    have hlen' : (chunksBytes cs).length ≤ f := by
      simp only [List.length_append] at hlen
      have : 0 < c.bytes.length := List.length_pos_iff.mpr hne
      simp only [chunksBytes]; omega
    exact ih f _ (fun c' hc' => hall c' (by simp [hc'])) hlen'

theorem mem_push {α : Type} {m : FieldMap α} {k : Nat} {vs : List α} {p : Nat × List α}
    (h : p ∈ m.push k vs) : p ∈ m ∨ p = (k, vs) ∨ ∃ old, (k, old) ∈ m ∧ p = (k, old ++ vs) := by
  induction m with
  | nil => simp [FieldMap.push] at h; exact Or.inr (Or.inl h)
  | cons q rest ih =>
    obtain ⟨k', vs'⟩ := q
    simp only [FieldMap.push] at h
    split at h
    · rcases List.mem_cons.mp h with h | h
      · exact Or.inr (Or.inl h)
      · exact Or.inl h
    · split at h
      · rename_i heq
        rcases List.mem_cons.mp h with h | h
        · exact Or.inr (Or.inr ⟨vs', by simp [heq], by rw [h, heq]⟩)
        · exact Or.inl (List.mem_cons_of_mem _ h)
      · rcases List.mem_cons.mp h with h | h
        · exact Or.inl (by simp [h])
        · rcases ih h with h | h | ⟨old, h1, h2⟩
          · exact Or.inl (List.mem_cons_of_mem _ h)
          · exact Or.inr (Or.inl h)
          · exact Or.inr (Or.inr ⟨old, List.mem_cons_of_mem _ h1, h2⟩)

/-- every entry of the grouped map has the number of some record, and each of its values comes from a record of
that number -/
theorem mem_groupFrom {cs : List Chunk} : ∀ {acc : FieldMap (Tree × Bytes)} {p : Nat × List (Tree × Bytes)},
    p ∈ groupFrom cs acc →
    (p ∈ acc ∨ ∃ c ∈ cs, c.num = p.1) ∧
    ∀ x ∈ p.2, (∃ q ∈ acc, q.1 = p.1 ∧ x ∈ q.2) ∨ ∃ c ∈ cs, c.num = p.1 ∧ x ∈ c.vals := by
  induction cs with
  | nil => intro acc p h; exact ⟨Or.inl h, fun x hx => Or.inl ⟨p, h, rfl, hx⟩⟩
  | cons c cs ih =>
    intro acc p h
    simp only [groupFrom, List.foldl_cons] at h
    obtain ⟨h1, h2⟩ := ih (acc := acc.push c.num c.vals) h
    constructor
    · rcases h1 with h1 | ⟨c', hc', he⟩
      · rcases mem_push h1 with h1 | h1 | ⟨old, _, h1⟩
        · exact Or.inl h1
        · exact Or.inr ⟨c, by simp, by rw [h1]⟩
        · exact Or.inr ⟨c, by simp, by rw [h1]⟩
      · exact Or.inr ⟨c', by simp [hc'], he⟩
    · intro x hx
      rcases h2 x hx with ⟨q, hq, hq1, hq2⟩ | ⟨c', hc', he, hxc⟩
      · rcases mem_push hq with hq | hq | ⟨old, hold, hq⟩
        · exact Or.inl ⟨q, hq, hq1, hq2⟩
        · subst hq; exact Or.inr ⟨c, by simp, hq1, hq2⟩
        · subst hq
          rcases List.mem_append.mp hq2 with hx' | hx'
          · exact Or.inl ⟨_, hold, hq1, hx'⟩
          · exact Or.inr ⟨c, by simp, hq1, hx'⟩
      · exact Or.inr ⟨c', by simp [hc'], he, hxc⟩

theorem mem_groupPairs {cs : List Chunk} {p : Nat × List (Tree × Bytes)} (h : p ∈ groupPairs cs) :
    (∃ c ∈ cs, c.num = p.1) ∧ ∀ x ∈ p.2, ∃ c ∈ cs, c.num = p.1 ∧ x ∈ c.vals := by
  obtain ⟨h1, h2⟩ := mem_groupFrom h
  constructor
  · rcases h1 with h1 | h1
    · simp at h1
    · exact h1
  · intro x hx
    rcases h2 x hx with ⟨q, hq, _⟩ | h
    · simp at hq
    · exact h

/-! ## Serialisations of a generic value, to any depth -/

/-- relation between a generic value and the byte form `read_fields` returns for it, for a field of kind `kind`;
`R k fs v`: "`v` is a serialisation of the message value `fs` of schema `k`" -/
def ValRel (R : Nat → List (Nat × List Tree) → Bytes → Prop) : Kind → Tree → Bytes → Prop
  | .msg k, t, v => ∃ fs, t = .node fs ∧ R k fs v
  | .varint, t, v => t = .leaf .varint v
  | .fixed64, t, v => t = .leaf .i64 v
  | .fixed32, t, v => t = .leaf .i32 v
  | .bytes, t, v => t = .leaf .len v

/-- a record is well-formed for message `m`: its bytes are a TLV of its raw values, and every value is related to
its raw form -/
structure ChunkOk (R : Nat → List (Nat × List Tree) → Bytes → Prop) (m : MsgSchema) (c : Chunk) : Prop where
  tlv : RawTLV m c.num (c.vals.map (·.2)) c.bytes
  vals : ∀ fd, m.getField c.num = some fd → ∀ p ∈ c.vals, ValRel R fd.kind p.1 p.2

/-- `SerMsg tbl d idx fs b`: `b` is a valid protobuf serialisation, of nesting depth at most `d`, of the message
value `fs` (ascending map field number ↦ values) of schema `tbl[idx]`:
`b` is a concatenation of records (`Chunk`s) in **any order**; each repeated scalar field may be split into
**packed and unpacked records** in any way; tags, lengths and varint values may be **minimal or padded**;
sub-messages are serialised in the same liberal way, recursively; per field number the values of its records, in
order of appearance, are the field's values; a field with more than one value is repeated. -/
def SerMsg (tbl : Table) : Nat → Nat → List (Nat × List Tree) → Bytes → Prop
  | 0, _, _, _ => False
  | d + 1, idx, fs, b =>
    ∃ m cs, tbl[idx]? = some m ∧ m.proto3 = true ∧ (∀ c ∈ cs, ChunkOk (SerMsg tbl d) m c) ∧
      b = chunksBytes cs ∧ fs = mapVals (·.1) (groupPairs cs) ∧
      (∀ p ∈ groupPairs cs, 1 < p.2.length → ∀ fd, m.getField p.1 = some fd → fd.repeated = true)

theorem RawTLV.hasField {m num vals bs} (h : RawTLV m num vals bs) : ∃ fd, m.getField num = some fd := by
  cases h <;> exact ⟨_, ‹_›⟩

theorem mapE_map_eq {α β γ : Type} (g : α → Except Err β) (h1 : γ → α) (h2 : γ → β) :
    ∀ (l : List γ), (∀ x ∈ l, g (h1 x) = .ok (h2 x)) → mapE g (l.map h1) = .ok (l.map h2) := by
  intro l
  induction l with
  | nil => intro _; rfl
  | cons x xs ih =>
    intro h
    simp only [List.map_cons, mapE, h x (by simp)]
    rw [ih (fun y hy => h y (by simp [hy]))]

theorem readFields_chunks {m : MsgSchema} (hp : m.proto3 = true) (cs : List Chunk)
    (hall : ∀ c ∈ cs, RawTLV m c.num (c.vals.map (·.2)) c.bytes) :
    readFields m (chunksBytes cs) = .ok (mapVals (·.2) (groupPairs cs)) := by
  simp only [readFields, hp, Bool.not_true, Bool.false_eq_true, if_false]
  rw [readFieldsLoop_chunks cs _ [] hall (Nat.le_refl _), groupPairs, mapVals_groupFrom]
  rfl

/-- **The parser accepts every serialisation and returns the value it denotes.** -/
theorem decode_of_ser (tbl : Table) : ∀ (d idx : Nat) (fs : List (Nat × List Tree)) (b : Bytes),
    SerMsg tbl d idx fs b → ∀ fuel, d ≤ fuel → decode tbl fuel idx b = .ok (.node fs) := by
  intro d
  induction d with
  | zero => intro idx fs b h; exact h.elim
  | succ d ih =>
    intro idx fs b h fuel hfuel
    obtain ⟨m, cs, hm, hp3, hcs, rfl, rfl, hmulti⟩ := h
    obtain ⟨f, rfl⟩ : ∃ f, fuel = f + 1 := ⟨fuel - 1, by omega⟩
    simp only [decode, hm, readFields_chunks hp3 cs (fun c hc => (hcs c hc).tlv)]
    have key : ∀ p ∈ groupPairs cs,
        decodeEntry (decode tbl f) m ((fun (p : Nat × List (Tree × Bytes)) => (p.1, p.2.map (·.2))) p)
        = .ok ((fun (p : Nat × List (Tree × Bytes)) => (p.1, p.2.map (·.1))) p) := by
      intro p hp
      obtain ⟨⟨c0, hc0, hnum0⟩, hvals⟩ := mem_groupPairs hp
      -- the field descriptor exists because some record has this number
      have hfd : ∃ fd, m.getField p.1 = some fd := by
        have := (hcs c0 hc0).tlv.hasField
        rw [hnum0] at this
        exact this
      obtain ⟨fd, hfd⟩ := hfd
      have hrel : ∀ x ∈ p.2, ValRel (SerMsg tbl d) fd.kind x.1 x.2 := by
        intro x hx
        obtain ⟨c, hc, hnum, hxc⟩ := hvals x hx
        exact (hcs c hc).vals fd (by rw [hnum]; exact hfd) x hxc
      have hm2 : ¬ ((p.2.map (·.2)).length > 1 ∧ fd.repeated = false) := by
        rintro ⟨h1, h2⟩
        have := hmulti p hp (by simpa using h1) fd hfd
        simp [this] at h2
      simp only [decodeEntry, hfd]
      rw [if_neg (by simpa using hm2)]
      cases hk : fd.kind with
      | msg k =>
        simp only []
        rw [mapE_map_eq (decode tbl f k) (·.2) (·.1) p.2]
        intro x hx
        have := hrel x hx
        rw [hk] at this
        obtain ⟨fs', ht, hser⟩ := this
        rw [ht]
        exact ih k fs' x.2 hser f (by omega)
      | varint | fixed64 | fixed32 | bytes =>
        simp only [Kind.wire, List.map_map]
        congr 2
        apply List.map_congr_left
        intro x hx
        have := hrel x hx
        rw [hk] at this
        exact this.symm
    have := mapE_map_eq (decodeEntry (decode tbl f) m) _ _ (groupPairs cs) key
    simp only [mapVals] at this ⊢
    rw [this]

/-! ## `canonical_raw` = canonical writer ∘ parser -/

theorem payloadVals_eq_map (vs : List Tree) : payloadVals vs = vs.map Tree.payload := by
  induction vs with
  | nil => rfl
  | cons v vs ih => simp [payloadVals, ih]

theorem payloadFields_eq (fs : List (Nat × List Tree)) :
    payloadFields fs = (fs.map (fun p => encodeField p.1 p.2 (payloadVals p.2))).flatten := by
  induction fs with
  | nil => rfl
  | cons p fs ih => obtain ⟨n, vs⟩ := p; simp [payloadFields, ih]

theorem mapE_map_payload {α β γ : Type} (g : α → Except Err β) (h : α → Except Err γ) (φ : γ → β)
    (hg : ∀ a, g a = (h a).map φ) : ∀ l : List α, mapE g l = (mapE h l).map (List.map φ) := by
  intro l
  induction l with
  | nil => rfl
  | cons a as ih =>
    simp only [mapE, hg a, ih]
    cases h a with
    | error e => rfl
    | ok c =>
      simp only [Except.map]
      cases mapE h as with
      | error e => rfl
      | ok cs => rfl

theorem mapE_ok_mem {α β : Type} (g : α → Except Err β) : ∀ (l : List α) (r : List β), mapE g l = .ok r →
    ∀ b ∈ r, ∃ a ∈ l, g a = .ok b := by
  intro l
  induction l with
  | nil => intro r h b hb; simp [mapE] at h; subst h; simp at hb
  | cons a as ih =>
    intro r h b hb
    simp only [mapE] at h
    cases hga : g a with
    | error e => simp [hga] at h
    | ok c =>
      simp only [hga] at h
      cases hr : mapE g as with
      | error e => simp [hr] at h
      | ok cs =>
        simp only [hr] at h
        injection h with h
        subst h
        rcases List.mem_cons.mp hb with hb | hb
        · exact ⟨a, by simp, by rw [hb]; exact hga⟩
        · obtain ⟨a', ha', hg'⟩ := ih cs hr b hb
          exact ⟨a', by simp [ha'], hg'⟩

theorem emitField_nil (w : Wire) (num : Nat) : emitField w num [] = [] := by
  cases w <;> simp [emitField]

theorem canonEntry_eq (recC : Nat → Bytes → Except Err Bytes) (recD : Nat → Bytes → Except Err Tree)
    (hrec : ∀ k v, recC k v = (recD k v).map Tree.payload)
    (hnode : ∀ k v t, recD k v = .ok t → t.wire = .len)
    (m : MsgSchema) (p : Nat × List Bytes) :
    canonEntry recC m p
      = (decodeEntry recD m p).map (fun q => encodeField q.1 q.2 (payloadVals q.2)) := by
  simp only [canonEntry, decodeEntry]
  cases m.getField p.1 with
  | none => rfl
  | some fd =>
    simp only []
    split
    · rfl
    · cases hk : fd.kind with
      | msg k =>
        simp only []
        rw [mapE_map_payload (recC k) (recD k) Tree.payload (hrec k)]
        cases hm : mapE (recD k) p.2 with
        | error e => rfl
        | ok ts =>
          simp only [Except.map, encodeField, payloadVals_eq_map]
          cases ts with
          | nil => simp [emitField]
          | cons t ts' =>
            obtain ⟨a, _, ha⟩ := mapE_ok_mem (recD k) p.2 (t :: ts') hm t (by simp)
            simp [hnode k a t ha]
      | varint | fixed64 | fixed32 | bytes =>
        simp only [Except.map, encodeField, payloadVals_eq_map, Kind.wire]
        cases p.2 with
        | nil => simp [emitField_nil]
        | cons v vs => simp [Tree.wire, Tree.payload, Function.comp_def]

theorem decode_ok_node (tbl : Table) (f idx : Nat) (b : Bytes) (t : Tree) (h : decode tbl f idx b = .ok t) :
    t.wire = .len := by
  cases f with
  | zero => simp [decode] at h
  | succ f =>
    simp only [decode] at h
    split at h
    · simp at h
    · split at h
      · simp at h
      · split at h
        · simp at h
        · injection h with h; subst h; rfl

/-- **Refinement**: `canonical_raw` is exactly "parse to the generic value, then write it canonically" — with the
same error when the parse fails. -/
theorem canonicalRaw_eq (tbl : Table) : ∀ (f idx : Nat) (b : Bytes),
    canonicalRaw tbl f idx b = (decode tbl f idx b).map Tree.payload := by
  intro f
  induction f with
  | zero => intro idx b; rfl
  | succ f ih =>
    intro idx b
    simp only [canonicalRaw, decode]
    cases tbl[idx]? with
    | none => rfl
    | some m =>
      simp only []
      cases readFields m b with
      | error e => rfl
      | ok fields =>
        simp only []
        rw [mapE_map_payload _ _ _ (canonEntry_eq (canonicalRaw tbl f) (decode tbl f) ih
          (decode_ok_node tbl f) m) fields]
        cases mapE (decodeEntry (decode tbl f) m) fields with
        | error e => rfl
        | ok fs => simp [Except.map, Tree.payload, payloadFields_eq]

/-! ## Nesting depth is bounded by the length of the buffer -/

theorem ValRel.mono {R R' : Nat → List (Nat × List Tree) → Bytes → Prop} {kind : Kind} {t : Tree} {v : Bytes}
    (h : ValRel R kind t v) (hR : ∀ k fs, R k fs v → R' k fs v) : ValRel R' kind t v := by
  cases kind with
  | msg k => obtain ⟨fs, ht, hr⟩ := h; exact ⟨fs, ht, hR k fs hr⟩
  | varint | fixed64 | fixed32 | bytes => exact h

theorem SerMsg.succ (tbl : Table) : ∀ (d idx : Nat) (fs : List (Nat × List Tree)) (b : Bytes),
    SerMsg tbl d idx fs b → SerMsg tbl (d + 1) idx fs b := by
  intro d
  induction d with
  | zero => intro idx fs b h; exact h.elim
  | succ d ih =>
    intro idx fs b h
    obtain ⟨m, cs, hm, hp3, hcs, hb, hfs, hmulti⟩ := h
    refine ⟨m, cs, hm, hp3, ?_, hb, hfs, hmulti⟩
    intro c hc
    exact ⟨(hcs c hc).tlv, fun fd hfd p hp => ((hcs c hc).vals fd hfd p hp).mono (fun k fs' => ih k fs' p.2)⟩

theorem SerMsg.mono (tbl : Table) {d d' idx : Nat} {fs : List (Nat × List Tree)} {b : Bytes}
    (h : SerMsg tbl d idx fs b) (hd : d ≤ d') : SerMsg tbl d' idx fs b := by
  induction hd with
  | refl => exact h
  | step _ ih => exact SerMsg.succ tbl _ idx fs b ih

theorem mem_chunksBytes_length {cs : List Chunk} {c : Chunk} (h : c ∈ cs) :
    c.bytes.length ≤ (chunksBytes cs).length := by
  induction cs with
  | nil => simp at h
  | cons c' cs ih =>
    simp only [chunksBytes, List.map_cons, List.flatten_cons, List.length_append]
    rcases List.mem_cons.mp h with h | h
    · subst h; omega
    · have := ih h; simp only [chunksBytes] at this; omega

/-- the payload of a LEN record is at least two bytes shorter than the record -/
theorem RawTLV.len_payload_short {m : MsgSchema} {num : Nat} {vals : List Bytes} {bs : Bytes}
    (h : RawTLV m num vals bs) {fd : FieldSchema} (hfd : m.getField num = some fd) (hw : fd.kind.wire = .len) :
    ∀ v ∈ vals, v.length + 2 ≤ bs.length := by
  cases h with
  | single hf _ hw' hnl _ _ =>
    rw [hfd] at hf; injection hf with hf; subst hf
    exact absurd (hw'.symm.trans hw) hnl
  | packed hf _ hw' hnl _ _ _ =>
    rw [hfd] at hf; injection hf with hf; subst hf
    exact absurd (hw'.symm.trans hw) hnl
  | len hf _ _ htag hlen =>
    intro v hv
    simp at hv; subst hv
    have h1 := List.length_pos_iff.mpr htag.ne_nil
    have h2 : 0 < _ := List.length_pos_iff.mpr (by obtain ⟨_, k, _, hk, _⟩ := hlen; exact hk.ne_nil)
    simp only [List.length_append]; omega

/-- a serialisation of any depth is a serialisation of depth at most `length + 1` -/
theorem SerMsg.depth_le_length (tbl : Table) : ∀ (d idx : Nat) (fs : List (Nat × List Tree)) (b : Bytes),
    SerMsg tbl d idx fs b → SerMsg tbl (b.length + 1) idx fs b := by
  intro d
  induction d with
  | zero => intro idx fs b h; exact h.elim
  | succ d ih =>
    intro idx fs b h
    obtain ⟨m, cs, hm, hp3, hcs, hb, hfs, hmulti⟩ := h
    refine ⟨m, cs, hm, hp3, ?_, hb, hfs, hmulti⟩
    intro c hc
    refine ⟨(hcs c hc).tlv, fun fd hfd p hp => ?_⟩
    have hrel := (hcs c hc).vals fd hfd p hp
    cases hk : fd.kind with
    | msg k =>
      rw [hk] at hrel
      obtain ⟨fs', ht, hr⟩ := hrel
      have hshort := (hcs c hc).tlv.len_payload_short hfd (by rw [hk]; rfl) p.2
        (List.mem_map.mpr ⟨p, hp, rfl⟩)
      have hcb := mem_chunksBytes_length hc
      exact ⟨fs', ht, (ih k fs' p.2 hr).mono tbl (by rw [hb]; omega)⟩
    | varint | fixed64 | fixed32 | bytes => rw [hk] at hrel; exact hrel

/-- **Canonicity** (entry point as the driver runs it): every valid serialisation `b` of the value `fs`
normalises to the canonical encoding of `fs`. -/
theorem canonical_of_ser (tbl : Table) (d idx : Nat) (fs : List (Nat × List Tree)) (b : Bytes)
    (h : SerMsg tbl d idx fs b) : canonical tbl idx b = .ok (payloadFields fs) := by
  have h' := SerMsg.depth_le_length tbl d idx fs b h
  simp [canonical, canonicalRaw_eq, decode_of_ser tbl _ idx fs b h' (b.length + 1) (Nat.le_refl _),
    Except.map, Tree.payload]

/-! ## Grouping a record sequence whose field numbers ascend -/

theorem push_append_new {α : Type} (acc : FieldMap α) (k : Nat) (vs : List α) (h : ∀ q ∈ acc, q.1 < k) :
    acc.push k vs = acc ++ [(k, vs)] := by
  induction acc with
  | nil => rfl
  | cons q rest ih =>
    obtain ⟨k', vs'⟩ := q
    have hk : k' < k := h (k', vs') (by simp)
    simp only [FieldMap.push]
    rw [if_neg (by omega), if_neg (by omega), ih (fun q hq => h q (by simp [hq]))]
    rfl

theorem push_append_same {α : Type} (acc : FieldMap α) (k : Nat) (old vs : List α) (h : ∀ q ∈ acc, q.1 < k) :
    (acc ++ [(k, old)]).push k vs = acc ++ [(k, old ++ vs)] := by
  induction acc with
  | nil => simp [FieldMap.push]
  | cons q rest ih =>
    obtain ⟨k', vs'⟩ := q
    have hk : k' < k := h (k', vs') (by simp)
    simp only [List.cons_append, FieldMap.push]
    rw [if_neg (by omega), if_neg (by omega), ih (fun q hq => h q (by simp [hq]))]

theorem groupFrom_same_aux (k : Nat) : ∀ (cs : List Chunk), (∀ c ∈ cs, c.num = k) →
    ∀ (acc : FieldMap (Tree × Bytes)) (old : List (Tree × Bytes)), (∀ q ∈ acc, q.1 < k) →
    groupFrom cs (acc ++ [(k, old)]) = acc ++ [(k, old ++ cs.flatMap (·.vals))] := by
  intro cs
  induction cs with
  | nil => intro _ acc old _; simp [groupFrom]
  | cons c cs ih =>
    intro hcs acc old hacc
    have hc : c.num = k := hcs c (by simp)
    simp only [groupFrom, List.foldl_cons, hc, push_append_same acc k old c.vals hacc]
    have := ih (fun c' hc' => hcs c' (by simp [hc'])) acc (old ++ c.vals) hacc
    simp only [groupFrom] at this
    rw [this]; simp

theorem groupFrom_same (k : Nat) (c : Chunk) (cs : List Chunk) (hcs : ∀ c' ∈ c :: cs, c'.num = k)
    (acc : FieldMap (Tree × Bytes)) (hacc : ∀ q ∈ acc, q.1 < k) :
    groupFrom (c :: cs) acc = acc ++ [(k, (c :: cs).flatMap (·.vals))] := by
  have hc : c.num = k := hcs c (by simp)
  simp only [groupFrom, List.foldl_cons, hc, push_append_new acc k c.vals hacc]
  have := groupFrom_same_aux k cs (fun c' hc' => hcs c' (by simp [hc'])) acc c.vals hacc
  simp only [groupFrom] at this
  rw [this]; simp

theorem groupFrom_append (cs cs' : List Chunk) (acc : FieldMap (Tree × Bytes)) :
    groupFrom (cs ++ cs') acc = groupFrom cs' (groupFrom cs acc) := by
  simp [groupFrom, List.foldl_append]

/-- records produced field by field, in ascending field order, group back to the fields -/
theorem groupFrom_ascending (chunksOf : Nat × List Tree → List Chunk) (pair : Tree → Tree × Bytes) :
    ∀ (fs : List (Nat × List Tree)) (acc : FieldMap (Tree × Bytes)),
    (fs.map (·.1)).Pairwise (· < ·) →
    (∀ q ∈ acc, ∀ p ∈ fs, q.1 < p.1) →
    (∀ p ∈ fs, chunksOf p ≠ [] ∧ (∀ c ∈ chunksOf p, c.num = p.1) ∧
        (chunksOf p).flatMap (·.vals) = p.2.map pair) →
    groupFrom (fs.flatMap chunksOf) acc = acc ++ fs.map (fun p => (p.1, p.2.map pair)) := by
  intro fs
  induction fs with
  | nil => intro acc _ _ _; simp [groupFrom]
  | cons p fs ih =>
    intro acc hpw hacc hch
    obtain ⟨hne, hnum, hvals⟩ := hch p (by simp)
    simp only [List.flatMap_cons, groupFrom_append]
    obtain ⟨c, cs, hc⟩ : ∃ c cs, chunksOf p = c :: cs := by
      cases h : chunksOf p with
      | nil => exact absurd h hne
      | cons c cs => exact ⟨c, cs, rfl⟩
    rw [hc, groupFrom_same p.1 c cs (by rw [← hc]; exact hnum) acc (fun q hq => hacc q hq p (by simp)),
      ← hc, hvals]
    simp only [List.map_cons] at hpw
    rw [List.pairwise_cons] at hpw
    rw [ih _ hpw.2 ?_ (fun p' hp' => hch p' (by simp [hp']))]
    · simp
    · intro q hq p' hp'
      rcases List.mem_append.mp hq with hq | hq
      · exact hacc q hq p' (by simp [hp'])
      · simp at hq; subst hq
        exact hpw.1 p'.1 (List.mem_map.mpr ⟨p', hp', rfl⟩)

/-! ## Well-formed generic values, and their canonical encoding as a serialisation -/

/-- what a value of a field of kind `kind` must look like; `W k fs`: "`fs` is a well-formed message value of
schema `k`". Sizes are bounded by what a `u32` length prefix can express. -/
def ValWF (W : Nat → List (Nat × List Tree) → Prop) : Kind → Tree → Prop
  | .msg k, t => ∃ fs, t = .node fs ∧ W k fs ∧ (payloadFields fs).length < 2 ^ 32
  | .varint, t => ∃ n, n < 2 ^ 64 ∧ t = .leaf .varint (writeVarint n)
  | .fixed64, t => ∃ raw, raw.length = 8 ∧ t = .leaf .i64 raw
  | .fixed32, t => ∃ raw, raw.length = 4 ∧ t = .leaf .i32 raw
  | .bytes, t => ∃ raw, raw.length < 2 ^ 32 ∧ t = .leaf .len raw

/-- `WF tbl d idx fs`: `fs` is a well-formed value (nesting depth ≤ `d`) of message `tbl[idx]`: field numbers strictly
ascending and declared, every present field has at least one value, only repeated fields have several, every value
has the shape of its field's kind, the schema passes the canonical-encoding restrictions, sizes fit `u32`. -/
def WF (tbl : Table) : Nat → Nat → List (Nat × List Tree) → Prop
  | 0, _, _ => False
  | d + 1, idx, fs =>
    ∃ m, tbl[idx]? = some m ∧ m.proto3 = true ∧ (fs.map (·.1)).Pairwise (· < ·) ∧
      ∀ p ∈ fs, ∃ fd, m.getField p.1 = some fd ∧ FieldOk fd ∧ p.1 * 8 + 7 < 2 ^ 32 ∧ p.2 ≠ [] ∧
        (1 < p.2.length → fd.repeated = true) ∧ (∀ v ∈ p.2, ValWF (WF tbl d) fd.kind v) ∧
        (fd.kind.wire ≠ .len → (payloadVals p.2).flatten.length < 2 ^ 32)

/-- the records `canonical_raw` writes for one field -/
def canonChunks (p : Nat × List Tree) : List Chunk :=
  match p.2 with
  | [] => []
  | v :: rest =>
    if v.wire = .len then
      (v :: rest).map (fun t => ⟨p.1, [(t, t.payload)], writeTag p.1 .len ++ writeLen t.payload⟩)
    else
      match rest with
      | [] => [⟨p.1, [(v, v.payload)], writeTag p.1 v.wire ++ v.payload⟩]
      | _ :: _ => [⟨p.1, (v :: rest).map (fun t => (t, t.payload)),
                    writeTag p.1 .len ++ writeLen ((v :: rest).map Tree.payload).flatten⟩]

theorem canonChunks_bytes (p : Nat × List Tree) :
    chunksBytes (canonChunks p) = encodeField p.1 p.2 (payloadVals p.2) := by
  obtain ⟨num, vs⟩ := p
  cases vs with
  | nil => rfl
  | cons v rest =>
    simp only [canonChunks, encodeField, payloadVals_eq_map]
    split
    · rename_i hw
      simp only [hw, emitField, chunksBytes, List.map_map, List.flatMap_def]
      rfl
    · rename_i hw
      cases rest with
      | nil =>
        cases hv : v.wire <;> simp_all [emitField, chunksBytes]
      | cons v2 rest =>
        cases hv : v.wire <;> simp_all [emitField, chunksBytes]

theorem canonChunks_props (p : Nat × List Tree) (hne : p.2 ≠ []) :
    canonChunks p ≠ [] ∧ (∀ c ∈ canonChunks p, c.num = p.1) ∧
      (canonChunks p).flatMap (·.vals) = p.2.map (fun t => (t, t.payload)) := by
  obtain ⟨num, vs⟩ := p
  cases vs with
  | nil => exact absurd rfl hne
  | cons v rest =>
    simp only [canonChunks]
    split
    · refine ⟨by simp, ?_, ?_⟩
      · intro c hc; simp at hc; rcases hc with rfl | ⟨t, _, rfl⟩ <;> rfl
      · simp only [List.flatMap_def, List.map_map, Function.comp_def]
        induction (v :: rest) with
        | nil => rfl
        | cons a as ih => simp [ih]
    · cases rest with
      | nil => simp
      | cons v2 rest => simp

theorem payloadFields_flatMap (fs : List (Nat × List Tree)) :
    payloadFields fs = chunksBytes (fs.flatMap canonChunks) := by
  induction fs with
  | nil => rfl
  | cons p fs ih =>
    obtain ⟨n, vs⟩ := p
    have := canonChunks_bytes (n, vs)
    simp only [payloadFields, List.flatMap_cons, ih, chunksBytes, List.map_append, List.flatten_append] at this ⊢
    rw [this]

theorem writeTag_enc {num : Nat} {w : Wire} (h : num * 8 + 7 < 2 ^ 32) : EncTag num w (writeTag num w) := by
  have : w.raw ≤ 7 := by cases w <;> simp [Wire.raw]
  exact ⟨by omega, writeVarint_enc (by omega)⟩

theorem writeLen_enc {v : Bytes} (h : v.length < 2 ^ 32) : EncLen v.length (writeVarint v.length) :=
  ⟨h, writeVarint_enc (by omega)⟩

theorem serScalar_of_valWF {W : Nat → List (Nat × List Tree) → Prop} {kind : Kind} {t : Tree}
    (h : ValWF W kind t) (hw : kind.wire ≠ .len) :
    t = .leaf kind.wire t.payload ∧ SerScalar kind.wire t.payload t.payload := by
  cases kind with
  | msg k => exact absurd rfl hw
  | bytes => exact absurd rfl hw
  | varint => obtain ⟨n, hn, rfl⟩ := h; exact ⟨rfl, n, hn, rfl, writeVarint_enc hn⟩
  | fixed64 => obtain ⟨raw, hr, rfl⟩ := h; exact ⟨rfl, hr, rfl⟩
  | fixed32 => obtain ⟨raw, hr, rfl⟩ := h; exact ⟨rfl, hr, rfl⟩

theorem valRel_of_valWF {W : Nat → List (Nat × List Tree) → Prop}
    {R : Nat → List (Nat × List Tree) → Bytes → Prop} {kind : Kind} {t : Tree}
    (h : ValWF W kind t) (hWR : ∀ k fs, W k fs → R k fs (payloadFields fs)) :
    ValRel R kind t t.payload := by
  cases kind with
  | msg k => obtain ⟨fs, rfl, hw, _⟩ := h; exact ⟨fs, rfl, hWR k fs hw⟩
  | bytes => obtain ⟨raw, _, rfl⟩ := h; rfl
  | varint => obtain ⟨n, _, rfl⟩ := h; rfl
  | fixed64 => obtain ⟨raw, _, rfl⟩ := h; rfl
  | fixed32 => obtain ⟨raw, _, rfl⟩ := h; rfl

theorem valWF_wire {W : Nat → List (Nat × List Tree) → Prop} {kind : Kind} {t : Tree}
    (h : ValWF W kind t) : t.wire = kind.wire := by
  cases kind with
  | msg k => obtain ⟨fs, rfl, _⟩ := h; rfl
  | bytes => obtain ⟨raw, _, rfl⟩ := h; rfl
  | varint => obtain ⟨n, _, rfl⟩ := h; rfl
  | fixed64 => obtain ⟨raw, _, rfl⟩ := h; rfl
  | fixed32 => obtain ⟨raw, _, rfl⟩ := h; rfl

theorem valWF_len_size {W : Nat → List (Nat × List Tree) → Prop} {kind : Kind} {t : Tree}
    (h : ValWF W kind t) (hw : kind.wire = .len) : t.payload.length < 2 ^ 32 := by
  cases kind with
  | msg k => obtain ⟨fs, rfl, _, hs⟩ := h; exact hs
  | bytes => obtain ⟨raw, hr, rfl⟩ := h; exact hr
  | varint | fixed64 | fixed32 => simp [Kind.wire] at hw

theorem canonChunks_ok {W : Nat → List (Nat × List Tree) → Prop}
    {R : Nat → List (Nat × List Tree) → Bytes → Prop} {m : MsgSchema} {p : Nat × List Tree} {fd : FieldSchema}
    (hfd : m.getField p.1 = some fd) (hok : FieldOk fd) (hsz : p.1 * 8 + 7 < 2 ^ 32)
    (hvals : ∀ v ∈ p.2, ValWF W fd.kind v)
    (hpk : fd.kind.wire ≠ .len → (payloadVals p.2).flatten.length < 2 ^ 32)
    (hWR : ∀ k fs, W k fs → R k fs (payloadFields fs)) :
    ∀ c ∈ canonChunks p, ChunkOk R m c := by
  obtain ⟨num, vs⟩ := p
  cases vs with
  | nil => intro c hc; simp [canonChunks] at hc
  | cons v rest =>
    have hvw : v.wire = fd.kind.wire := valWF_wire (hvals v (by simp))
    intro c hc
    simp only [canonChunks] at hc
    split at hc
    · -- LEN field: one record per value
      rename_i hlen
      obtain ⟨t, ht, rfl⟩ := List.mem_map.mp hc
      have htv := hvals t ht
      have hkl : fd.kind.wire = .len := hvw.symm.trans hlen
      refine ⟨?_, ?_⟩
      · simp only [List.map_cons, List.map_nil, writeLen]
        exact RawTLV.len hfd hok hkl (writeTag_enc hsz) (writeLen_enc (valWF_len_size htv hkl))
      · intro fd' hfd' q hq
        rw [hfd] at hfd'; injection hfd' with hfd'; subst hfd'
        simp at hq; subst hq
        exact valRel_of_valWF htv hWR
    · rename_i hnl
      have hknl : fd.kind.wire ≠ .len := fun h => hnl (hvw.trans h)
      cases rest with
      | nil =>
        simp at hc; subst hc
        have htv := hvals v (by simp)
        obtain ⟨_, hser⟩ := serScalar_of_valWF htv hknl
        refine ⟨?_, ?_⟩
        · simp only [List.map_cons, List.map_nil]
          rw [hvw]
          exact RawTLV.single hfd hok rfl hknl (writeTag_enc hsz) hser
        · intro fd' hfd' q hq
          rw [hfd] at hfd'; injection hfd' with hfd'; subst hfd'
          simp at hq; subst hq
          exact valRel_of_valWF htv hWR
      | cons v2 rest =>
        have hc := List.mem_singleton.mp hc; subst hc
        refine ⟨?_, ?_⟩
        · have hall : ∀ q ∈ (v :: v2 :: rest).map (fun t => (t.payload, t.payload)),
              SerScalar fd.kind.wire q.1 q.2 := by
            intro q hq
            obtain ⟨t, ht, rfl⟩ := List.mem_map.mp hq
            exact (serScalar_of_valWF (hvals t ht) hknl).2
          have hsize := hpk hknl
          rw [payloadVals_eq_map] at hsize
          have := RawTLV.packed (m := m) (num := num) (tg := writeTag num .len)
            (lb := writeVarint ((v :: v2 :: rest).map Tree.payload).flatten.length)
            hfd hok rfl hknl (writeTag_enc hsz) hall
            (by simp only [List.map_map, Function.comp_def]; exact writeLen_enc hsize)
          simp only [List.map_map, Function.comp_def, writeLen] at this ⊢
          exact this
        · intro fd' hfd' q hq
          rw [hfd] at hfd'; injection hfd' with hfd'; subst hfd'
          obtain ⟨t, ht, rfl⟩ := List.mem_map.mp hq
          exact valRel_of_valWF (hvals t ht) hWR

/-- **The canonical encoding of a well-formed value is one of its serialisations.** -/
theorem wf_ser (tbl : Table) : ∀ (d idx : Nat) (fs : List (Nat × List Tree)),
    WF tbl d idx fs → SerMsg tbl d idx fs (payloadFields fs) := by
  intro d
  induction d with
  | zero => intro idx fs h; exact h.elim
  | succ d ih =>
    intro idx fs h
    obtain ⟨m, hm, hp3, hpw, hall⟩ := h
    have hgroup : groupPairs (fs.flatMap canonChunks) = fs.map (fun p => (p.1, p.2.map (fun t => (t, t.payload)))) := by
      have := groupFrom_ascending canonChunks (fun t => (t, t.payload)) fs [] hpw (by simp)
        (fun p hp => by
          obtain ⟨fd, _, _, _, hne, _⟩ := hall p hp
          exact canonChunks_props p hne)
      simpa [groupPairs] using this
    refine ⟨m, fs.flatMap canonChunks, hm, hp3, ?_, payloadFields_flatMap fs, ?_, ?_⟩
    · intro c hc
      obtain ⟨p, hp, hcp⟩ := List.mem_flatMap.mp hc
      obtain ⟨fd, hfd, hok, hsz, _, _, hvals, hpk⟩ := hall p hp
      exact canonChunks_ok hfd hok hsz hvals hpk (fun k fs' hw => ih k fs' hw) c hcp
    · rw [hgroup]
      simp [mapVals, List.map_map, Function.comp_def]
    · rw [hgroup]
      intro q hq hlen fd hfd
      obtain ⟨p, hp, rfl⟩ := List.mem_map.mp hq
      obtain ⟨fd', hfd', _, _, _, hmulti, _⟩ := hall p hp
      simp only at hfd
      rw [hfd'] at hfd; injection hfd with hfd; subst hfd
      exact hmulti (by simpa using hlen)

/-- **Lossless**: parsing the canonical encoding of a well-formed value gives the value back. -/
theorem decode_encode (tbl : Table) (d idx : Nat) (fs : List (Nat × List Tree)) (h : WF tbl d idx fs)
    (fuel : Nat) (hf : d ≤ fuel) : decode tbl fuel idx (payloadFields fs) = .ok (.node fs) :=
  decode_of_ser tbl d idx fs _ (wf_ser tbl d idx fs h) fuel hf

/-! ## Order of records of different fields is irrelevant -/

theorem push_comm {α : Type} (m : FieldMap α) (a b : Nat) (x y : List α) (h : a ≠ b) :
    (m.push a x).push b y = (m.push b y).push a x := by
  induction m with
  | nil =>
    rcases Nat.lt_or_gt_of_ne h with h1 | h1
    · have h2 : ¬ b < a := by omega
      have h3 : ¬ b = a := by omega
      simp [FieldMap.push, h1, h2, h3]
    · have h2 : ¬ a < b := by omega
      have h3 : ¬ a = b := by omega
      simp [FieldMap.push, h1, h2, h3]
  | cons q rest ih =>
    obtain ⟨k, v⟩ := q
    rcases Nat.lt_trichotomy a k with ha | ha | ha <;> rcases Nat.lt_trichotomy b k with hb | hb | hb
    all_goals (
      rcases Nat.lt_or_gt_of_ne h with hab | hab <;>
      simp [FieldMap.push, *, Nat.lt_asymm, Nat.ne_of_gt, Nat.ne_of_lt, Nat.lt_irrefl] <;>
      first | omega | skip)

/-- swapping two adjacent records of different fields does not change what the sequence denotes -/
theorem groupPairs_swap (xs ys : List Chunk) (a b : Chunk) (h : a.num ≠ b.num) :
    groupPairs (xs ++ a :: b :: ys) = groupPairs (xs ++ b :: a :: ys) := by
  simp only [groupPairs, groupFrom, List.foldl_append, List.foldl_cons]
  rw [push_comm _ a.num b.num a.vals b.vals h]

/-- splitting a packed record into two adjacent packed records (or merging them) does not change it either -/
theorem groupPairs_split (xs ys : List Chunk) (n : Nat) (v1 v2 : List (Tree × Bytes)) (b1 b2 b : Bytes) :
    groupPairs (xs ++ ⟨n, v1, b1⟩ :: ⟨n, v2, b2⟩ :: ys) = groupPairs (xs ++ ⟨n, v1 ++ v2, b⟩ :: ys) := by
  simp only [groupPairs, groupFrom, List.foldl_append, List.foldl_cons]
  congr 1
  generalize List.foldl (fun a c => FieldMap.push a c.num c.vals) [] xs = m
  induction m with
  | nil => simp [FieldMap.push]
  | cons q rest ih =>
    obtain ⟨k, v⟩ := q
    rcases Nat.lt_trichotomy n k with hn | hn | hn
    · simp [FieldMap.push, hn]
    · subst hn; simp [FieldMap.push]
    · have h1 : ¬ n < k := by omega
      have h2 : ¬ n = k := by omega
      simp [FieldMap.push, h1, h2, ih]

/-! ## Rejection -/

/-- `BadHead m r e`: the buffer `r` starts with a record that `read_fields` refuses with error `e`:
a tag with wire type 3, 4, 6 or 7; an unknown field number; a map field; a field with implicit presence; a wire type
that is neither the field's nor LEN. -/
inductive BadHead (m : MsgSchema) : Bytes → Err → Prop
  | wireType {tag : Nat} {tg tail : Bytes} : EncVarint tag tg → tag < 2 ^ 32 → Wire.fromTag tag = none →
      BadHead m (tg ++ tail) .wireType
  | unknownField {tag : Nat} {w : Wire} {tg tail : Bytes} : EncVarint tag tg → tag < 2 ^ 32 →
      Wire.fromTag tag = some w → m.getField (tag / 8) = none → BadHead m (tg ++ tail) .unknownField
  | map {tag : Nat} {w : Wire} {fd : FieldSchema} {tg tail : Bytes} : EncVarint tag tg → tag < 2 ^ 32 →
      Wire.fromTag tag = some w → m.getField (tag / 8) = some fd → fd.isMap = true → BadHead m (tg ++ tail) .map
  | implicitPresence {tag : Nat} {w : Wire} {fd : FieldSchema} {tg tail : Bytes} : EncVarint tag tg →
      tag < 2 ^ 32 → Wire.fromTag tag = some w → m.getField (tag / 8) = some fd → fd.isMap = false →
      fd.repeated = false → fd.explicitPresence = false → BadHead m (tg ++ tail) .implicitPresence
  | unexpectedWire {tag : Nat} {w : Wire} {fd : FieldSchema} {tg tail : Bytes} : EncVarint tag tg →
      tag < 2 ^ 32 → Wire.fromTag tag = some w → m.getField (tag / 8) = some fd → FieldOk fd →
      w ≠ fd.kind.wire → w ≠ .len → BadHead m (tg ++ tail) .unexpectedWire

theorem readFieldsLoop_badHead {m : MsgSchema} {r : Bytes} {e : Err} (h : BadHead m r e)
    (fuel : Nat) (acc : FieldMap Bytes) : readFieldsLoop m (fuel + 1) r acc = .error e := by
  have hcons : ∀ {n : Nat} {tg tail : Bytes}, EncVarint n tg → ∃ x xs, tg ++ tail = x :: xs := by
    intro n tg tail ⟨k, _, hk, _⟩
    cases tg with
    | nil => exact absurd rfl hk.ne_nil
    | cons x xs => exact ⟨x, xs ++ tail, rfl⟩
  cases h with
  | wireType he hlt hw =>
    obtain ⟨x, xs, hx⟩ := hcons he
    rw [hx, readFieldsLoop, ← hx]; simp [readVarint32_enc he hlt, hw]
  | unknownField he hlt hw hf =>
    obtain ⟨x, xs, hx⟩ := hcons he
    rw [hx, readFieldsLoop, ← hx]; simp [readVarint32_enc he hlt, hw, hf]
  | map he hlt hw hf hm =>
    obtain ⟨x, xs, hx⟩ := hcons he
    rw [hx, readFieldsLoop, ← hx]; simp [readVarint32_enc he hlt, hw, hf, hm]
  | implicitPresence he hlt hw hf hm hr hp =>
    obtain ⟨x, xs, hx⟩ := hcons he
    rw [hx, readFieldsLoop, ← hx]; simp [readVarint32_enc he hlt, hw, hf, hm, hr, hp]
  | unexpectedWire he hlt hw hf hok hne hnl =>
    obtain ⟨x, xs, hx⟩ := hcons he
    rw [hx, readFieldsLoop, ← hx]
    simp only [readVarint32_enc he hlt, hw, hf, hok.1]
    rcases hok.2 with h2 | h2 <;> simp [h2, readField, hne, hnl]

theorem BadHead.ne_nil {m r e} (h : BadHead m r e) : r ≠ [] := by
  have : ∀ {n : Nat} {tg tail : Bytes}, EncVarint n tg → tg ++ tail ≠ [] := by
    intro n tg tail ⟨k, _, hk, _⟩ h; exact hk.ne_nil (List.append_eq_nil_iff.mp h).1
  cases h <;> exact this ‹_›

theorem readFieldsLoop_prefix {m : MsgSchema} : ∀ (cs : List Chunk) (fuel : Nat) (acc : FieldMap Bytes) (rest : Bytes),
    (∀ c ∈ cs, RawTLV m c.num (c.vals.map (·.2)) c.bytes) →
    readFieldsLoop m (cs.length + fuel) (chunksBytes cs ++ rest) acc
      = readFieldsLoop m fuel rest (cs.foldl (fun a c => a.push c.num (c.vals.map (·.2))) acc) := by
  intro cs
  induction cs with
  | nil => intro fuel acc rest _; simp [chunksBytes]
  | cons c cs ih =>
    intro fuel acc rest hall
    have hc := hall c (by simp)
    simp only [chunksBytes, List.map_cons, List.flatten_cons, List.length_cons, List.append_assoc,
      List.foldl_cons]
    rw [show cs.length + 1 + fuel = (cs.length + fuel) + 1 by omega, readFieldsLoop_tlv hc]
    exact ih fuel _ rest (fun c' hc' => hall c' (by simp [hc']))

theorem chunks_length_le {m : MsgSchema} : ∀ (cs : List Chunk),
    (∀ c ∈ cs, RawTLV m c.num (c.vals.map (·.2)) c.bytes) → cs.length ≤ (chunksBytes cs).length := by
  intro cs
  induction cs with
  | nil => intro _; simp
  | cons c cs ih =>
    intro hall
    have := List.length_pos_iff.mpr (hall c (by simp)).ne_nil
    have := ih (fun c' hc' => hall c' (by simp [hc']))
    simp only [chunksBytes, List.map_cons, List.flatten_cons, List.length_cons, List.length_append] at this ⊢
    omega

/-- a buffer whose first not-well-formed record is refused by `read_fields` is refused by `read_fields` -/
theorem readFields_reject {m : MsgSchema} (hp : m.proto3 = true) (cs : List Chunk) (rest : Bytes) (e : Err)
    (hall : ∀ c ∈ cs, RawTLV m c.num (c.vals.map (·.2)) c.bytes) (hbad : BadHead m rest e) :
    readFields m (chunksBytes cs ++ rest) = .error e := by
  simp only [readFields, hp, Bool.not_true, Bool.false_eq_true, if_false]
  have h1 := chunks_length_le cs hall
  have h2 := List.length_pos_iff.mpr hbad.ne_nil
  obtain ⟨f, hf⟩ : ∃ f, (chunksBytes cs ++ rest).length = cs.length + (f + 1) :=
    ⟨(chunksBytes cs).length - cs.length + rest.length - 1, by simp only [List.length_append]; omega⟩
  rw [hf, readFieldsLoop_prefix cs (f + 1) [] rest hall, readFieldsLoop_badHead hbad]

theorem canonical_reject (tbl : Table) (idx : Nat) {m : MsgSchema} (hm : tbl[idx]? = some m)
    (hp : m.proto3 = true) (cs : List Chunk) (rest : Bytes) (e : Err)
    (hall : ∀ c ∈ cs, RawTLV m c.num (c.vals.map (·.2)) c.bytes) (hbad : BadHead m rest e) :
    canonical tbl idx (chunksBytes cs ++ rest) = .error e := by
  simp [canonical, canonicalRaw, hm, readFields_reject hp cs rest e hall hbad]

theorem canonical_reject_not_proto3 (tbl : Table) (idx : Nat) {m : MsgSchema} (hm : tbl[idx]? = some m)
    (hp : m.proto3 = false) (b : Bytes) : canonical tbl idx b = .error .notProto3 := by
  simp [canonical, canonicalRaw, hm, readFields, hp]

theorem mapE_ok_all {α β : Type} (g : α → Except Err β) : ∀ (l : List α) (r : List β), mapE g l = .ok r →
    ∀ a ∈ l, ∃ b, g a = .ok b := by
  intro l
  induction l with
  | nil => intro r _ a ha; simp at ha
  | cons x xs ih =>
    intro r h a ha
    simp only [mapE] at h
    cases hgx : g x with
    | error e => simp [hgx] at h
    | ok c =>
      simp only [hgx] at h
      cases hr : mapE g xs with
      | error e => simp [hr] at h
      | ok cs =>
        rcases List.mem_cons.mp ha with ha | ha
        · exact ⟨c, by rw [ha]; exact hgx⟩
        · exact ih cs hr a ha

/-- a singular field that ends up with more than one value (two records, or a packed record with two elements) makes
`canonical_raw` fail -/
theorem canonical_reject_multi (tbl : Table) (idx : Nat) {m : MsgSchema} (hm : tbl[idx]? = some m)
    (hp : m.proto3 = true) (cs : List Chunk)
    (hall : ∀ c ∈ cs, RawTLV m c.num (c.vals.map (·.2)) c.bytes)
    {p : Nat × List (Tree × Bytes)} (hmem : p ∈ groupPairs cs) (hlen : 1 < p.2.length)
    {fd : FieldSchema} (hfd : m.getField p.1 = some fd) (hrep : fd.repeated = false) :
    ∀ out, canonical tbl idx (chunksBytes cs) ≠ .ok out := by
  intro out h
  simp only [canonical, canonicalRaw_eq, decode, hm, readFields_chunks hp cs hall] at h
  cases hmap : mapE (decodeEntry (decode tbl (chunksBytes cs).length) m) (mapVals (·.2) (groupPairs cs)) with
  | error e => simp [hmap, Except.map] at h
  | ok fs =>
    obtain ⟨b, hb⟩ := mapE_ok_all _ _ _ hmap (p.1, p.2.map (·.2))
      (List.mem_map.mpr ⟨p, hmem, rfl⟩)
    simp [decodeEntry, hfd, hrep, hlen] at hb

/-! ## The build-time schema restriction -/

/-- what the build-time check gives for every field of every message of a table that passes it -/
theorem supportsCanonical_field {tbl : Table} (h : supportsCanonical tbl = true) {idx : Nat} {m : MsgSchema}
    (hm : tbl[idx]? = some m) {num : Nat} {fd : FieldSchema} (hf : m.getField num = some fd) :
    m.proto3 = true ∧ FieldOk fd ∧ num * 8 + 7 < 2 ^ 32 ∧ (∀ k, fd.kind = .msg k → k < tbl.length) := by
  have hmem : m ∈ tbl := List.mem_of_getElem? hm
  simp only [supportsCanonical, List.all_eq_true, Bool.and_eq_true] at h
  obtain ⟨⟨hc, hn⟩, hcl⟩ := h m hmem
  simp only [MsgSchema.canonicalOk, Bool.and_eq_true, List.all_eq_true] at hc
  simp only [MsgSchema.getField] at hf
  have hfm : fd ∈ m.fields := List.mem_of_find?_eq_some hf
  have hnum : fd.num = num := by have := List.find?_some hf; simpa using this
  have hcf := hc.2 fd hfm
  simp only [FieldSchema.canonicalOk, Bool.and_eq_true, Bool.not_eq_true', Bool.or_eq_true] at hcf
  simp only [MsgSchema.numsOk, Bool.and_eq_true, List.all_eq_true, decide_eq_true_eq] at hn
  have hn2 := hn.2 fd hfm
  have hcl2 := hcl fd hfm
  refine ⟨hc.1, ⟨hcf.1, hcf.2⟩, by omega, ?_⟩
  intro k hk
  simpa [FieldSchema.closedIn, hk] using hcl2



/-! ## What the parser returns is well-formed (so `canonical_raw` is idempotent on every accepted buffer) -/

/-- shape of a value `Reader::read` returns for wire type `w` -/
def RawOK (w : Wire) (v : Bytes) : Prop :=
  match w with
  | .varint => ∃ n, n < 2 ^ 64 ∧ v = writeVarint n
  | .i64 => v.length = 8
  | .i32 => v.length = 4
  | .len => v.length < 2 ^ 32

theorem readVarint32_lt {bs r : Bytes} {n : Nat} (h : readVarint32 bs = .ok (n, r)) : n < 2 ^ 32 := by
  simp only [readVarint32] at h
  split at h
  · injection h with h; injection h with h1 h2; subst h1; exact Nat.mod_lt _ (by decide)
  · simp at h

theorem takeN_ok {n : Nat} {bs a r : Bytes} (h : takeN n bs = .ok (a, r)) : a.length = n := by
  simp only [takeN] at h
  split at h
  · simp at h
  · injection h with h; injection h with h1 h2; subst h1; simp; omega

theorem readValue_ok {w : Wire} {bs v r : Bytes} (h : readValue w bs = .ok (v, r)) : RawOK w v := by
  cases w <;> simp only [readValue] at h
  · split at h
    · rename_i x rr hx
      injection h with h; injection h with h1 h2; subst h1
      simp only [readVarint64] at hx
      split at hx
      · injection hx with hx; injection hx with h3 h4; subst h3
        exact ⟨_, Nat.mod_lt _ (by decide), rfl⟩
      · simp at hx
    · simp at h
  · exact takeN_ok h
  · simp only [readBytes] at h
    split at h
    · rename_i n rr hn
      have := takeN_ok h
      have hlt := readVarint32_lt hn
      simp only [RawOK]; omega
    · simp at h
  · exact takeN_ok h

theorem readPacked_ok {w : Wire} : ∀ (fuel : Nat) (bs : Bytes) (vs : List Bytes),
    readPacked w fuel bs = .ok vs → ∀ v ∈ vs, RawOK w v := by
  intro fuel
  induction fuel with
  | zero =>
    intro bs vs h v hv
    cases bs with
    | nil => simp [readPacked] at h; subst h; simp at hv
    | cons b bs => simp [readPacked] at h
  | succ f ih =>
    intro bs vs h v hv
    cases bs with
    | nil => simp [readPacked] at h; subst h; simp at hv
    | cons b bs =>
      simp only [readPacked] at h
      split at h
      · rename_i x r hx
        split at h
        · rename_i xs hxs
          injection h with h; subst h
          rcases List.mem_cons.mp hv with hv | hv
          · subst hv; exact readValue_ok hx
          · exact ih r xs hxs v hv
        · simp at h
      · simp at h

theorem readField_ok {fw got : Wire} {bs r : Bytes} {vs : List Bytes}
    (h : readField fw got bs = .ok (vs, r)) : ∀ v ∈ vs, RawOK fw v := by
  simp only [readField] at h
  split at h
  · split at h
    · rename_i x rr hx
      injection h with h; injection h with h1 h2; subst h1
      intro v hv; simp at hv; subst hv; exact readValue_ok hx
    · simp at h
  · split at h
    · simp at h
    · split at h
      · rename_i chunk rr hc
        split at h
        · rename_i xs hxs
          injection h with h; injection h with h1 h2; subst h1
          exact readPacked_ok _ _ _ hxs
        · simp at h
      · simp at h



/-- keys strictly ascending -/
def Sorted {α : Type} (m : FieldMap α) : Prop := (m.map (·.1)).Pairwise (· < ·)

theorem key_mem_push {α : Type} {m : FieldMap α} {k : Nat} {vs : List α} {p : Nat × List α}
    (h : p ∈ m.push k vs) : p.1 = k ∨ ∃ q ∈ m, q.1 = p.1 := by
  rcases mem_push h with h | h | ⟨old, _, h⟩
  · exact Or.inr ⟨p, h, rfl⟩
  · exact Or.inl (by rw [h])
  · exact Or.inl (by rw [h])

theorem sorted_push {α : Type} (m : FieldMap α) (k : Nat) (vs : List α) (h : Sorted m) : Sorted (m.push k vs) := by
  induction m with
  | nil => simp [FieldMap.push, Sorted]
  | cons q rest ih =>
    obtain ⟨k', vs'⟩ := q
    simp only [Sorted, List.map_cons, List.pairwise_cons] at h
    simp only [FieldMap.push]
    split
    · rename_i hlt
      simp only [Sorted, List.map_cons, List.pairwise_cons]
      refine ⟨?_, h⟩
      intro x hx
      rcases List.mem_cons.mp hx with hx | hx
      · omega
      · have := h.1 x hx; omega
    · split
      · simp only [Sorted, List.map_cons, List.pairwise_cons]; exact h
      · rename_i h1 h2
        simp only [Sorted, List.map_cons, List.pairwise_cons]
        refine ⟨?_, ih h.2⟩
        intro x hx
        obtain ⟨p, hp, rfl⟩ := List.mem_map.mp hx
        rcases key_mem_push hp with hk | ⟨q, hq, hk⟩
        · omega
        · rw [← hk]; exact h.1 q.1 (List.mem_map.mpr ⟨q, hq, rfl⟩)

/-- what `read_fields` guarantees about one map entry -/
def EntryOK (m : MsgSchema) (p : Nat × List Bytes) : Prop :=
  ∃ fd, m.getField p.1 = some fd ∧ FieldOk fd ∧ p.1 * 8 + 7 < 2 ^ 32 ∧ ∀ v ∈ p.2, RawOK fd.kind.wire v

theorem readFieldsLoop_inv {m : MsgSchema} : ∀ (fuel : Nat) (bs : Bytes) (acc out : FieldMap Bytes),
    readFieldsLoop m fuel bs acc = .ok out → Sorted acc → (∀ p ∈ acc, EntryOK m p) →
    Sorted out ∧ ∀ p ∈ out, EntryOK m p := by
  intro fuel
  induction fuel with
  | zero =>
    intro bs acc out h hs hall
    cases bs with
    | nil => simp [readFieldsLoop] at h; subst h; exact ⟨hs, hall⟩
    | cons b bs => simp [readFieldsLoop] at h
  | succ f ih =>
    intro bs acc out h hs hall
    cases bs with
    | nil => simp [readFieldsLoop] at h; subst h; exact ⟨hs, hall⟩
    | cons b bs =>
      simp only [readFieldsLoop] at h
      split at h
      · simp at h
      · rename_i tag r htag
        split at h
        · simp at h
        · rename_i wire hwire
          split at h
          · simp at h
          · rename_i fd hfd
            split at h
            · simp at h
            · rename_i hmap
              split at h
              · simp at h
              · rename_i hpres
                split at h
                · simp at h
                · rename_i vals r' hrf
                  refine ih r' _ out h (sorted_push acc _ vals hs) ?_
                  have hlt := readVarint32_lt htag
                  have hok : FieldOk fd := by
                    refine ⟨by simpa using hmap, ?_⟩
                    cases hr : fd.repeated <;> cases he : fd.explicitPresence <;> simp_all
                  have hvals := readField_ok hrf
                  intro p hp
                  rcases mem_push hp with hp | hp | ⟨old, hold, hp⟩
                  · exact hall p hp
                  · subst hp; exact ⟨fd, hfd, hok, by simp only; omega, hvals⟩
                  · subst hp
                    obtain ⟨fd', hfd', _, _, hv'⟩ := hall _ hold
                    simp only at hfd'
                    rw [hfd] at hfd'; injection hfd' with e; subst e
                    refine ⟨fd, hfd, hok, by simp only; omega, ?_⟩
                    intro v hv
                    rcases List.mem_append.mp hv with hv | hv
                    · exact hv' v hv
                    · exact hvals v hv

theorem readFields_inv {m : MsgSchema} {bs : Bytes} {out : FieldMap Bytes} (h : readFields m bs = .ok out) :
    m.proto3 = true ∧ Sorted out ∧ ∀ p ∈ out, EntryOK m p := by
  simp only [readFields] at h
  split at h
  · simp at h
  · rename_i hp
    exact ⟨by simpa using hp, readFieldsLoop_inv _ _ [] out h (by simp [Sorted]) (by simp)⟩



/-- what `WF` demands of one entry (at depth `d + 1`) -/
def GoodEntry (tbl : Table) (d : Nat) (m : MsgSchema) (p : Nat × List Tree) : Prop :=
  ∃ fd, m.getField p.1 = some fd ∧ FieldOk fd ∧ p.1 * 8 + 7 < 2 ^ 32 ∧ p.2 ≠ [] ∧
    (1 < p.2.length → fd.repeated = true) ∧ (∀ v ∈ p.2, ValWF (WF tbl d) fd.kind v) ∧
    (fd.kind.wire ≠ .len → (payloadVals p.2).flatten.length < 2 ^ 32)

theorem length_le_emitField_len (num : Nat) (ps : List Bytes) : ∀ v ∈ ps, v.length ≤ (emitField .len num ps).length := by
  induction ps with
  | nil => intro v hv; simp at hv
  | cons p ps ih =>
    intro v hv
    simp only [emitField, List.flatMap_cons, List.length_append, writeLen] at ih ⊢
    rcases List.mem_cons.mp hv with hv | hv
    · subst hv; omega
    · have := ih v hv; omega

theorem flatten_le_emitField_scalar (w : Wire) (hw : w ≠ .len) (num : Nat) (ps : List Bytes) :
    ps.flatten.length ≤ (emitField w num ps).length := by
  cases w <;> first | exact absurd rfl hw | skip
  all_goals
    cases ps with
    | nil => simp [emitField]
    | cons p ps =>
      cases ps with
      | nil => simp [emitField]
      | cons p2 ps => simp only [emitField, writeLen, List.length_append]; omega

/-- a list of values can be replaced, value by value, by related ones -/
theorem list_choice {α β : Type} (R : α → β → Prop) : ∀ (l : List α), (∀ a ∈ l, ∃ b, R a b) →
    ∃ l' : List β, l'.length = l.length ∧ ∀ i (h : i < l.length) (h' : i < l'.length), R l[i] l'[i] := by
  intro l
  induction l with
  | nil => intro _; exact ⟨[], rfl, fun i h => absurd h (by simp)⟩
  | cons a as ih =>
    intro h
    obtain ⟨b, hb⟩ := h a (by simp)
    obtain ⟨bs, hlen, hbs⟩ := ih (fun x hx => h x (by simp [hx]))
    refine ⟨b :: bs, by simp [hlen], ?_⟩
    intro i hi hi'
    cases i with
    | zero => exact hb
    | succ j => exact hbs j (by simpa using hi) (by simpa using hi')

theorem mem_iff_getElem' {α : Type} {l : List α} {a : α} (h : a ∈ l) : ∃ i, ∃ (hi : i < l.length), l[i] = a :=
  List.getElem_of_mem h



theorem mapE_ok_getElem {α β : Type} (g : α → Except Err β) : ∀ (l : List α) (r : List β), mapE g l = .ok r →
    r.length = l.length ∧ ∀ i (h : i < l.length) (h' : i < r.length), g l[i] = .ok r[i] := by
  intro l
  induction l with
  | nil => intro r h; simp [mapE] at h; subst h; exact ⟨rfl, fun i h => absurd h (by simp)⟩
  | cons a as ih =>
    intro r h
    simp only [mapE] at h
    cases hga : g a with
    | error e => simp [hga] at h
    | ok c =>
      simp only [hga] at h
      cases hr : mapE g as with
      | error e => simp [hr] at h
      | ok cs =>
        simp only [hr] at h
        injection h with h; subst h
        obtain ⟨hl, hi⟩ := ih cs hr
        refine ⟨by simp [hl], ?_⟩
        intro i h1 h2
        cases i with
        | zero => exact hga
        | succ j => exact hi j (by simpa using h1) (by simpa using h2)

theorem decode_ok_is_node (tbl : Table) (f idx : Nat) (b : Bytes) (t : Tree) (h : decode tbl f idx b = .ok t) :
    ∃ fs, t = .node fs := by
  cases f with
  | zero => simp [decode] at h
  | succ f =>
    simp only [decode] at h
    split at h
    · simp at h
    · split at h
      · simp at h
      · split at h
        · simp at h
        · injection h with h; exact ⟨_, h.symm⟩

/-- one entry of the parser's result, re-read as an entry of a well-formed value with the same canonical bytes
(`none`-like case `q.2 = []`: the entry writes nothing) -/
theorem decodeEntry_good (tbl : Table) (f : Nat) (m : MsgSchema)
    (ih : ∀ (idx : Nat) (b : Bytes) (fs : List (Nat × List Tree)), decode tbl f idx b = .ok (.node fs) →
      (payloadFields fs).length < 2 ^ 32 → ∃ fs', WF tbl f idx fs' ∧ payloadFields fs' = payloadFields fs)
    (p : Nat × List Bytes) (q : Nat × List Tree) (hq : decodeEntry (decode tbl f) m p = .ok q) (hp : EntryOK m p)
    (hsize : (encodeField q.1 q.2 (payloadVals q.2)).length < 2 ^ 32) :
    q.1 = p.1 ∧ (q.2 = [] ∨ ∃ ts', GoodEntry tbl f m (q.1, ts') ∧
      encodeField q.1 ts' (payloadVals ts') = encodeField q.1 q.2 (payloadVals q.2)) := by
  obtain ⟨fd, hfd, hok, hnum, hraw⟩ := hp
  simp only [decodeEntry, hfd] at hq
  split at hq
  · simp at hq
  · rename_i hmulti
    have hmulti' : 1 < p.2.length → fd.repeated = true := by
      intro h
      cases hr : fd.repeated
      · simp [hr, h] at hmulti
      · rfl
    cases hk : fd.kind with
    | msg k =>
      rw [hk] at hq
      simp only [] at hq
      split at hq
      · simp at hq
      · rename_i ts hts
        injection hq with hq; subst hq
        refine ⟨rfl, ?_⟩
        obtain ⟨hlen, hget⟩ := mapE_ok_getElem _ _ _ hts
        by_cases hnil : ts = []
        · exact Or.inl hnil
        · right
          -- every value is a node whose payload is part of the field's bytes
          have hnode : ∀ t ∈ ts, ∃ fs, t = Tree.node fs := by
            intro t ht
            obtain ⟨i, hi, rfl⟩ := List.getElem_of_mem ht
            exact decode_ok_is_node tbl f k _ _ (hget i (by omega) hi)
          have hhead : ∀ t ∈ ts, t.wire = .len := by
            intro t ht; obtain ⟨fs, rfl⟩ := hnode t ht; rfl
          have hsz : ∀ t ∈ ts, t.payload.length < 2 ^ 32 := by
            intro t ht
            have hw : encodeField p.1 ts (payloadVals ts) = emitField .len p.1 (payloadVals ts) := by
              cases ts with
              | nil => exact absurd rfl hnil
              | cons v vs => simp [encodeField, hhead v (by simp)]
            rw [hw] at hsize
            have := length_le_emitField_len p.1 (payloadVals ts) t.payload
              (by rw [payloadVals_eq_map]; exact List.mem_map.mpr ⟨t, ht, rfl⟩)
            omega
          have hex : ∀ t ∈ ts, ∃ t', ValWF (WF tbl f) (.msg k) t' ∧ t'.payload = t.payload := by
            intro t ht
            obtain ⟨i, hi, rfl⟩ := List.getElem_of_mem ht
            have hd := hget i (by omega) hi
            obtain ⟨fs, hfs⟩ := hnode _ ht
            rw [hfs] at hd
            have hs := hsz _ ht
            rw [hfs] at hs
            obtain ⟨fs', hwf, hpay⟩ := ih k _ fs hd hs
            exact ⟨.node fs', ⟨fs', rfl, hwf, by rw [hpay]; exact hs⟩, by rw [hfs]; exact hpay⟩
          obtain ⟨ts', hlen', hrel⟩ := list_choice _ ts hex
          have hpv : payloadVals ts' = payloadVals ts := by
            rw [payloadVals_eq_map, payloadVals_eq_map]
            apply List.ext_getElem (by simp [hlen'])
            intro i h1 h2
            simp only [List.getElem_map]
            exact (hrel i (by simpa using h2) (by simpa using h1)).2
          have hwf' : ∀ t' ∈ ts', ValWF (WF tbl f) (.msg k) t' := by
            intro t' ht'
            obtain ⟨i, hi, rfl⟩ := List.getElem_of_mem ht'
            exact (hrel i (by omega) hi).1
          have hne' : ts' ≠ [] := by
            intro h; rw [h] at hlen'; exact hnil (List.eq_nil_of_length_eq_zero hlen'.symm)
          refine ⟨ts', ⟨fd, hfd, hok, hnum, hne', ?_, by rw [hk]; exact hwf', by rw [hk]; intro h; exact absurd rfl h⟩, ?_⟩
          · intro h; exact hmulti' (by simp only at h; omega)
          · simp only [encodeField, hpv]
            cases ts with
            | nil => exact absurd rfl hnil
            | cons v vs =>
              cases ts' with
              | nil => exact absurd rfl hne'
              | cons v' vs' =>
                have h1 : v.wire = .len := hhead v (by simp)
                have h2 : v'.wire = .len := valWF_wire (hwf' v' (by simp))
                simp [h1, h2]
    | varint | fixed64 | fixed32 | bytes =>
      rw [hk] at hq
      simp only [] at hq
      injection hq with hq; subst hq
      refine ⟨rfl, ?_⟩
      by_cases hnil : p.2 = []
      · left; simp [hnil]
      · right
        rw [hk] at hraw
        refine ⟨p.2.map (Tree.leaf _), ⟨fd, hfd, hok, hnum, by simpa using hnil, ?_, ?_, ?_⟩, rfl⟩
        · intro h; exact hmulti' (by simpa using h)
        · intro v hv
          obtain ⟨raw, hr, rfl⟩ := List.mem_map.mp hv
          have := hraw raw hr
          rw [hk]
          first
            | (obtain ⟨n, hn, rfl⟩ := this; exact ⟨n, hn, rfl⟩)
            | exact ⟨raw, this, rfl⟩
        · intro hw
          rw [hk] at hw
          have hpv : ∀ w, payloadVals (p.2.map (Tree.leaf w)) = p.2 := by
            intro w; rw [payloadVals_eq_map, List.map_map]; simp [Function.comp_def, Tree.payload]
          simp only [hpv] at hsize ⊢
          cases hp2 : p.2 with
          | nil => exact absurd hp2 hnil
          | cons v vs =>
            rw [hp2] at hsize
            simp only [encodeField, List.map_cons, Tree.wire] at hsize
            have := flatten_le_emitField_scalar _ hw p.1 (v :: vs)
            omega



theorem entries_good (tbl : Table) (f : Nat) (m : MsgSchema)
    (ih : ∀ (idx : Nat) (b : Bytes) (fs : List (Nat × List Tree)), decode tbl f idx b = .ok (.node fs) →
      (payloadFields fs).length < 2 ^ 32 → ∃ fs', WF tbl f idx fs' ∧ payloadFields fs' = payloadFields fs) :
    ∀ (fields : List (Nat × List Bytes)) (fs : List (Nat × List Tree)),
      mapE (decodeEntry (decode tbl f) m) fields = .ok fs → (∀ p ∈ fields, EntryOK m p) →
      (payloadFields fs).length < 2 ^ 32 →
      ∃ fs', (fs'.map (·.1)).Sublist (fields.map (·.1)) ∧ (∀ p' ∈ fs', GoodEntry tbl f m p') ∧
        payloadFields fs' = payloadFields fs := by
  intro fields
  induction fields with
  | nil => intro fs h _ _; simp [mapE] at h; subst h; exact ⟨[], by simp, by simp, rfl⟩
  | cons p ps ihl =>
    intro fs h hall hsize
    simp only [mapE] at h
    cases hq : decodeEntry (decode tbl f) m p with
    | error e => simp [hq] at h
    | ok q =>
      simp only [hq] at h
      cases hqs : mapE (decodeEntry (decode tbl f) m) ps with
      | error e => simp [hqs] at h
      | ok qs =>
        simp only [hqs] at h
        injection h with h; subst h
        obtain ⟨qn, qv⟩ := q
        simp only [payloadFields, List.length_append] at hsize
        obtain ⟨fs', hsub, hgood, hpay⟩ := ihl qs hqs (fun x hx => hall x (by simp [hx])) (by omega)
        obtain ⟨hkey, hcase⟩ := decodeEntry_good tbl f m ih p (qn, qv) hq (hall p (by simp)) (by simp only; omega)
        simp only at hkey hcase
        rcases hcase with hnil | ⟨ts', hge, henc⟩
        · refine ⟨fs', ?_, hgood, ?_⟩
          · simp only [List.map_cons]; exact List.Sublist.cons _ hsub
          · subst hnil; simp [payloadFields, encodeField, hpay]
        · refine ⟨(qn, ts') :: fs', ?_, ?_, ?_⟩
          · simp only [List.map_cons, hkey]; exact List.Sublist.cons_cons _ hsub
          · intro p' hp'
            rcases List.mem_cons.mp hp' with hp' | hp'
            · subst hp'; exact hge
            · exact hgood p' hp'
          · simp only [payloadFields, henc, hpay]

/-- **What the parser returns, written canonically, is the canonical encoding of a well-formed value.** -/
theorem decode_wf (tbl : Table) : ∀ (f idx : Nat) (b : Bytes) (fs : List (Nat × List Tree)),
    decode tbl f idx b = .ok (.node fs) → (payloadFields fs).length < 2 ^ 32 →
    ∃ fs', WF tbl f idx fs' ∧ payloadFields fs' = payloadFields fs := by
  intro f
  induction f with
  | zero => intro idx b fs h; simp [decode] at h
  | succ f ih =>
    intro idx b fs h hsize
    simp only [decode] at h
    split at h
    · simp at h
    · rename_i m hm
      split at h
      · simp at h
      · rename_i fields hfields
        split at h
        · simp at h
        · rename_i fs0 hmap
          injection h with h; injection h with h; subst h
          obtain ⟨hp3, hsorted, hentries⟩ := readFields_inv hfields
          obtain ⟨fs', hsub, hgood, hpay⟩ := entries_good tbl f m ih fields fs0 hmap hentries hsize
          exact ⟨fs', ⟨m, hm, hp3, List.Pairwise.sublist hsub hsorted, hgood⟩, hpay⟩

/-- **Idempotence on every accepted buffer** (output below 4 GiB): `canonical_raw(canonical_raw(b)) = canonical_raw(b)`. -/
theorem canonical_idem (tbl : Table) (idx : Nat) (b c : Bytes) (h : canonical tbl idx b = .ok c)
    (hsize : c.length < 2 ^ 32) : canonical tbl idx c = .ok c := by
  simp only [canonical, canonicalRaw_eq] at h
  cases hd : decode tbl (b.length + 1) idx b with
  | error e => simp [hd, Except.map] at h
  | ok t =>
    simp only [hd, Except.map] at h
    injection h with h
    obtain ⟨fs, rfl⟩ := decode_ok_is_node tbl _ idx b t hd
    simp only [Tree.payload] at h
    subst h
    obtain ⟨fs', hwf, hpay⟩ := decode_wf tbl _ idx b fs hd hsize
    have := canonical_of_ser tbl _ idx fs' _ (wf_ser tbl _ idx fs' hwf)
    rw [hpay] at this
    exact this

end EraVerif.Proofs.Wire
