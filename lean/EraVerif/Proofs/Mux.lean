import EraVerif.Model.Mux

/-!
# Helper lemmas for C14 (stream multiplexer)

Part 1: header bit layout (over the generated constants) and the stream-id partition.
Part 2: generic machinery for invariants of the LTS (`Reachable`, sums over the stream table).
Part 3: the invariants (permits, per-stream FIFO, reader sessions, locks and slots, sender).
No Mathlib needed.
-/

namespace EraVerif.Proofs.Mux
open EraVerif.Model.Mux EraVerif.Gen.MuxConst

/-! ## Part 1a: header layout -/

theorem and_frame_mask (h : Nat) : h &&& FRAME_MASK = (h / 16384 % 4) * 16384 := by
  have hd : (h &&& FRAME_MASK) / 2 ^ 14 = h / 2 ^ 14 % 2 ^ 2 := by
    rw [Nat.and_div_two_pow]
    show h / 2 ^ 14 &&& 2 ^ 2 - 1 = _
    rw [Nat.and_two_pow_sub_one_eq_mod]
  have hm : (h &&& FRAME_MASK) % 2 ^ 14 = 0 := by
    rw [Nat.and_mod_two_pow]
    show h % 2 ^ 14 &&& 0 = 0
    simp
  have := Nat.div_add_mod (h &&& FRAME_MASK) (2 ^ 14)
  rw [hd, hm] at this
  omega

theorem and_stream_mask (h : Nat) : h &&& STREAM_MASK = (h / 8192 % 2) * 8192 := by
  have hd : (h &&& STREAM_MASK) / 2 ^ 13 = h / 2 ^ 13 % 2 ^ 1 := by
    rw [Nat.and_div_two_pow]
    show h / 2 ^ 13 &&& 2 ^ 1 - 1 = _
    rw [Nat.and_two_pow_sub_one_eq_mod]
  have hm : (h &&& STREAM_MASK) % 2 ^ 13 = 0 := by
    rw [Nat.and_mod_two_pow]
    show h % 2 ^ 13 &&& 0 = 0
    simp
  have := Nat.div_add_mod (h &&& STREAM_MASK) (2 ^ 13)
  rw [hd, hm] at this
  omega

theorem and_id_mask (h : Nat) : h &&& ID_MASK = h % 8192 := by
  show h &&& 2 ^ 13 - 1 = _
  rw [Nat.and_two_pow_sub_one_eq_mod]

/-- `Header::new(f, s, id).0` as a sum (the three fields occupy disjoint bits) -/
theorem mkHdr_eq_add (fk : FK) (conn : Bool) (id : Nat) (hid : id ≤ ID_MASK) :
    mkHdr fk conn id = fk.bits + (if conn then STREAM_CONNECT else STREAM_ACCEPT) + id := by
  have hid' : id < 2 ^ 13 := by simp [ID_MASK] at hid; omega
  unfold mkHdr
  cases fk <;> cases conn <;> simp only [FK.bits, FRAME_OPEN, FRAME_DATA, FRAME_CLOSE, STREAM_CONNECT, STREAM_ACCEPT,
      Bool.false_eq_true, if_false, if_true]
  · simp
  · have := Nat.two_pow_add_eq_or_of_lt hid' 1; simp at this ⊢; omega
  · have := Nat.two_pow_add_eq_or_of_lt hid' 2; simp at this ⊢; omega
  · have := Nat.two_pow_add_eq_or_of_lt hid' 3
    have e : (16384 ||| 8192 : Nat) = 24576 := by decide
    rw [e]; simp at this ⊢; omega
  · have := Nat.two_pow_add_eq_or_of_lt hid' 4; simp at this ⊢; omega
  · have := Nat.two_pow_add_eq_or_of_lt hid' 5
    have e : (32768 ||| 8192 : Nat) = 40960 := by decide
    rw [e]; simp at this ⊢; omega


theorem hdrSenderConn_total (h : Nat) : hdrSenderConn h = some (decide (h / 8192 % 2 = 1)) := by
  unfold hdrSenderConn
  simp only [and_stream_mask, STREAM_ACCEPT, STREAM_CONNECT]
  rcases Nat.mod_two_eq_zero_or_one (h / 8192) with e | e <;> simp [e]

theorem hdrFK_eq (h : Nat) :
    hdrFK h = (match h / 16384 % 4 with | 0 => some .open | 1 => some .data | 2 => some .close | _ => none) := by
  unfold hdrFK
  simp only [and_frame_mask, FRAME_OPEN, FRAME_DATA, FRAME_CLOSE]
  have : h / 16384 % 4 < 4 := Nat.mod_lt _ (by decide)
  generalize h / 16384 % 4 = x at this ⊢
  match x, this with
  | 0, _ => simp
  | 1, _ => simp
  | 2, _ => simp
  | 3, _ => simp

theorem hdr_roundtrip (fk : FK) (conn : Bool) (id : Nat) (hid : id ≤ ID_MASK) :
    hdrFK (mkHdr fk conn id) = some fk ∧ hdrSenderConn (mkHdr fk conn id) = some conn ∧ hdrId (mkHdr fk conn id) = id := by
  have hid' : id < 8192 := by simp [ID_MASK] at hid; omega
  rw [hdrFK_eq, hdrSenderConn_total, hdrId, and_id_mask, mkHdr_eq_add fk conn id hid]
  obtain ⟨a, ha, ea, ma⟩ : ∃ a, a ≤ 2 ∧ fk.bits = a * 16384 ∧
      (match a with | 0 => some FK.open | 1 => some FK.data | 2 => some FK.close | _ => none) = some fk := by
    cases fk
    · exact ⟨0, by omega, rfl, rfl⟩
    · exact ⟨1, by omega, rfl, rfl⟩
    · exact ⟨2, by omega, rfl, rfl⟩
  obtain ⟨c, hc, ec, mc⟩ : ∃ c, c ≤ 1 ∧ (if conn then STREAM_CONNECT else STREAM_ACCEPT) = c * 8192 ∧ decide (c = 1) = conn := by
    cases conn
    · exact ⟨0, by omega, rfl, rfl⟩
    · exact ⟨1, by omega, rfl, rfl⟩
  rw [ea, ec]
  have q1 : (a * 16384 + c * 8192 + id) / 16384 % 4 = a := by omega
  have q2 : (a * 16384 + c * 8192 + id) / 8192 % 2 = c := by omega
  rw [q1, q2]
  exact ⟨ma, by rw [mc], by omega⟩

/-- a 16-bit header is determined by its three fields -/
theorem hdr_fields_inj (h h' : Nat) (hh : h < 65536) (hh' : h' < 65536)
    (e1 : h &&& FRAME_MASK = h' &&& FRAME_MASK) (e2 : h &&& STREAM_MASK = h' &&& STREAM_MASK)
    (e3 : h &&& ID_MASK = h' &&& ID_MASK) : h = h' := by
  rw [and_frame_mask, and_frame_mask] at e1
  rw [and_stream_mask, and_stream_mask] at e2
  rw [and_id_mask, and_id_mask] at e3
  omega

/-! ## Part 1b: the stream-id partition (`spawn_streams`) -/

theorem ranges_map_cap (loc peer : Caps) (b : Nat) : (ranges loc peer b).map (·.cap) = loc.map (·.1) := by
  induction loc generalizing b with
  | nil => rfl
  | cons p rest ih => obtain ⟨c, m⟩ := p; simp [ranges, ih]

theorem rangesTotal_le (loc peer : Caps) (b : Nat) : rangesTotal (ranges loc peer b) ≤ capSum loc := by
  induction loc generalizing b with
  | nil => simp [ranges, rangesTotal, capSum]
  | cons p rest ih =>
    obtain ⟨c, m⟩ := p
    have := ih (b + min m (peerGet peer c))
    simp only [ranges, rangesTotal, capSum, List.map_cons, List.sum_cons] at this ⊢
    omega

/-- every range of `ranges loc peer b` lies inside `[b, b + total)`, and its count is `min(local, peer)` -/
theorem ranges_mem (loc peer : Caps) (b : Nat) (r : Range) (hr : r ∈ ranges loc peer b) :
    b ≤ r.base ∧ r.base + r.count ≤ b + rangesTotal (ranges loc peer b) ∧
    ∃ m, (r.cap, m) ∈ loc ∧ r.count = min m (peerGet peer r.cap) := by
  induction loc generalizing b with
  | nil => simp [ranges] at hr
  | cons p rest ih =>
    obtain ⟨c, m⟩ := p
    simp only [ranges, List.mem_cons] at hr
    simp only [ranges, rangesTotal, List.map_cons, List.sum_cons]
    rcases hr with rfl | hr
    · refine ⟨Nat.le_refl _, by show b + min m _ ≤ _; omega, m, by simp, rfl⟩
    · obtain ⟨h1, h2, m', hm', hc⟩ := ih _ hr
      simp only [rangesTotal] at h2
      exact ⟨by omega, by omega, m', by simp [hm'], hc⟩

/-- consecutive: the ranges are pairwise disjoint, in ascending order of base -/
theorem ranges_pairwise (loc peer : Caps) (b : Nat) :
    (ranges loc peer b).Pairwise (fun r1 r2 => r1.base + r1.count ≤ r2.base) := by
  induction loc generalizing b with
  | nil => simp [ranges]
  | cons p rest ih =>
    obtain ⟨c, m⟩ := p
    simp only [ranges, List.pairwise_cons]
    refine ⟨?_, ih _⟩
    intro r hr
    exact (ranges_mem rest peer _ r hr).1

/-- every id below the total belongs to some range -/
theorem ranges_cover (loc peer : Caps) (b id : Nat) (h1 : b ≤ id) (h2 : id < b + rangesTotal (ranges loc peer b)) :
    ∃ r ∈ ranges loc peer b, r.has id = true := by
  induction loc generalizing b with
  | nil => simp [ranges, rangesTotal] at h2; omega
  | cons p rest ih =>
    obtain ⟨c, m⟩ := p
    simp only [ranges, rangesTotal, List.map_cons, List.sum_cons] at h2
    by_cases hlt : id < b + min m (peerGet peer c)
    · exact ⟨⟨c, b, min m (peerGet peer c)⟩, by simp [ranges], by simp [Range.has, h1, hlt]⟩
    · obtain ⟨r, hr, hh⟩ := ih (b + min m (peerGet peer c)) (by omega) (by simp only [rangesTotal]; omega)
      exact ⟨r, by simp [ranges, hr], hh⟩

/-- an id belongs to at most one range -/
theorem ranges_unique (rs : List Range) (hp : rs.Pairwise (fun r1 r2 => r1.base + r1.count ≤ r2.base))
    (r1 r2 : Range) (h1 : r1 ∈ rs) (h2 : r2 ∈ rs) (id : Nat) (e1 : r1.has id = true) (e2 : r2.has id = true) : r1 = r2 := by
  induction rs with
  | nil => simp at h1
  | cons r rest ih =>
    simp only [List.pairwise_cons] at hp
    simp only [Range.has, Bool.and_eq_true, decide_eq_true_eq] at e1 e2
    rcases List.mem_cons.mp h1 with rfl | h1' <;> rcases List.mem_cons.mp h2 with rfl | h2'
    · rfl
    · have := hp.1 r2 h2'; omega
    · have := hp.1 r1 h1'; omega
    · exact ih hp.2 h1' h2'

theorem capOfId_eq_some (rs : List Range) (hp : rs.Pairwise (fun r1 r2 => r1.base + r1.count ≤ r2.base))
    (r : Range) (hr : r ∈ rs) (id : Nat) (e : r.has id = true) : capOfId rs id = some r.cap := by
  unfold capOfId
  cases hf : rs.find? (·.has id) with
  | none => rw [List.find?_eq_none] at hf; exact absurd e (by simpa using hf r hr)
  | some r' =>
    have h1 := List.find?_some hf
    have h2 := List.mem_of_find?_eq_some hf
    rw [ranges_unique rs hp r' r h2 hr id h1 e]; rfl


/-! ## Part 2: generic machinery -/

/-- states reachable from the state right after the handshake, by any sequence of events -/
def Reachable (s : State) : Prop :=
  ∃ cfg acc con pacc pcon es, run? (State.init cfg acc con pacc pcon) es = some s

theorem run?_inv {P : State → Prop} (hstep : ∀ s e s', P s → step? s e = some s' → P s') :
    ∀ es s s', P s → run? s es = some s' → P s' := by
  intro es
  induction es with
  | nil => intro s s' hp h; simp [run?] at h; subst h; exact hp
  | cons e es ih =>
    intro s s' hp h
    simp only [run?] at h
    cases hs : step? s e with
    | none => simp [hs] at h
    | some s1 => simp [hs] at h; exact ih s1 s' (hstep s e s1 hp hs) h

theorem reachable_inv {P : State → Prop}
    (hinit : ∀ cfg acc con pacc pcon, P (State.init cfg acc con pacc pcon))
    (hstep : ∀ s e s', P s → step? s e = some s' → P s') {s : State} (h : Reachable s) : P s := by
  obtain ⟨cfg, acc, con, pacc, pcon, es, h⟩ := h
  exact run?_inv hstep es _ _ (hinit ..) h

theorem reachable_step {s s' : State} {e : Event} (h : Reachable s) (hs : step? s e = some s') : Reachable s' := by
  obtain ⟨cfg, acc, con, pacc, pcon, es, h⟩ := h
  refine ⟨cfg, acc, con, pacc, pcon, es ++ [e], ?_⟩
  have : ∀ es s0, run? s0 es = some s → run? s0 (es ++ [e]) = some s' := by
    intro es
    induction es with
    | nil => intro s0 h0; simp [run?] at h0; subst h0; simp [run?, hs]
    | cons e1 es ih =>
      intro s0 h0
      simp only [run?, List.cons_append] at h0 ⊢
      cases h1 : step? s0 e1 with
      | none => simp [h1] at h0
      | some s1 => simp [h1] at h0 ⊢; exact ih s1 h0
  exact this es _ h

theorem pick_step {first : List Event} {prio : List Key} {s s' : State} {e : Event} (h : pick first prio s = some (e, s')) : step? s e = some s' := by
  unfold pick at h
  obtain ⟨e', _, he⟩ := List.exists_of_findSome?_eq_some h
  cases hs : step? s e' with
  | none => simp [hs] at he
  | some s1 => simp [hs] at he; obtain ⟨rfl, rfl⟩ := he; exact hs

/-- the scheduler of the correspondence driver only moves inside the reachable states -/
theorem settle_reachable (first : List Event) (prio : List Key) (n : Nat) {s : State} (h : Reachable s) :
    Reachable (settle first prio n s).1 := by
  induction n generalizing s first with
  | zero => exact h
  | succ n ih =>
    simp only [settle]
    cases hp : pick first prio s with
    | none => exact h
    | some p => obtain ⟨e, s'⟩ := p; exact ih _ (reachable_step h (pick_step hp))


/-! ## proof plumbing shared by the invariant files -/

attribute [local simp] State.upd State.release State.releaseOpt State.emit State.setSlot State.log State.enqueue
  handover finishRead

theorem ite_ite_same {α : Type} (c : Prop) [Decidable c] (a b d : α) :
    (if c then a else if c then b else d) = if c then a else d := by
  split <;> simp [*]

/-- split `h : step… = some s'` into its leaves, substituting `s'` -/
macro "leaves" h:ident : tactic =>
  `(tactic| (repeat' (first
      | (split at $h:ident)
      | (simp only [Option.some.injEq, reduceCtorEq] at $h:ident)
      )))

/-- unfold whichever step function `h` is about -/
macro "unfold_step" h:ident : tactic =>
  `(tactic| (simp only [step?] at $h:ident; try (first | unfold stepPump at $h:ident | unfold stepRecvOpenStart at $h:ident | unfold stepDiscard at $h:ident | unfold stepCloseData at $h:ident | unfold stepCloseFrame at $h:ident | unfold stepJoinedA at $h:ident | unfold stepPush at $h:ident | unfold stepPop at $h:ident | unfold stepSendOpen at $h:ident | unfold stepJoinedC at $h:ident | unfold stepDoFlush at $h:ident | unfold stepAppOpen at $h:ident | unfold stepAppRead at $h:ident | unfold stepReadStep at $h:ident | unfold stepAppWrite at $h:ident | unfold stepWriteStep at $h:ident | unfold stepAppFlush at $h:ident | unfold stepAppDrop at $h:ident | unfold stepWTake at $h:ident | unfold stepWDo at $h:ident | unfold stepWBlock at $h:ident | unfold stepFlushStep at $h:ident | unfold stepCancelWrite at $h:ident | unfold stepCancelFlush at $h:ident)))

/-- the configuration and the stream-id partition never change -/
theorem step?_static {s s' : State} {e : Event} (h : step? s e = some s') :
    s'.cfg = s.cfg ∧ s'.nAcc = s.nAcc ∧ s'.nCon = s.nCon ∧ s'.rngAcc = s.rngAcc ∧ s'.rngCon = s.rngCon := by
  cases e <;> unfold_step h <;> leaves h
  all_goals (subst h; simp [readFrame]; try (repeat' split) <;> simp)



macro "red" : tactic =>
  `(tactic| dsimp only [State.upd, State.release, State.releaseOpt, State.emit, State.setSlot, State.log, State.enqueue,
      handover, finishRead, readFrame, Key.valid, State.rng] at *)

theorem init_eq (cfg : Cfg) (acc con pacc pcon : Caps) :
    ∃ d na nc, State.init cfg acc con pacc pcon =
      { State.start cfg acc con pacc pcon with dead := d, nAcc := na, nCon := nc } := by
  unfold State.init
  simp only []
  split
  · exact ⟨_, _, _, rfl⟩
  · split
    · exact ⟨_, _, _, rfl⟩
    · split
      · exact ⟨_, _, _, rfl⟩
      · exact ⟨_, _, _, rfl⟩


end EraVerif.Proofs.Mux
