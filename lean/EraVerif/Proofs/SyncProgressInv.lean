import EraVerif.Proofs.SyncProgressBase

/-!
# C06s, part 2: two more invariants of the reachable global states, and "a certificate has a correct signer"

The composite progress argument needs, beyond `GInv` (`Proofs/RefineIP.lean`):

* `TCacheFull r` — whoever is recorded in `timeout_views_cache` with a view `w ≥ r.view` is a signer of the timeout
  certificate cached for `w` (the converse of `TCacheOk.bits`). Needed because a correct validator's timeout vote for
  the current view may have been delivered *before* the synchronous period: its re-delivery is then refused as a
  duplicate, and the weight must already be in the cache.
* `ViewsAuth sg r` — every entry `(i, w)` of `timeout_views_cache` / `commit_views_cache` stems from a validly signed
  vote of view `w`: if `i` is correct, `i` has sent such a vote. (So no correct validator is recorded with a view
  above its own: its votes are never refused as duplicates for a view it has not voted in.)

Both hold in every globally reachable state (`greach_extra`). Finally `cqc_correct_signer` / `tqc_correct_signer`:
with Byzantine weight `≤ f`, a verifying authentic certificate has a correct signer who has sent the vote — hence its
view is bounded by the views the correct validators have voted in (`cert_view_le`).
-/

namespace EraVerif.Proofs.Sync
open EraVerif.Model EraVerif.Proofs.ReplicaStep EraVerif.Proofs.Progress EraVerif.Proofs.RefineIP
open EraVerif.Proofs.Certs
open EraVerif.Proofs.Crash (dur)

/-! ## association lists -/

theorem alGet_nil {β : Type} (k : Nat) : alGet ([] : List (Nat × β)) k = none := rfl

theorem alGet_alErase {β : Type} (l : List (Nat × β)) (k k' : Nat) (h : k' ≠ k) :
    alGet (alErase l k) k' = alGet l k' := by
  unfold alErase
  have := alGet_filter_key l (fun u => u != k) k'
  simp only [bne_iff_ne, ne_eq] at this
  rw [this]
  simp [h]

/-! ## the handlers leave the caches they do not own alone -/

/-- `r'` differs from `r` at most in the two high certificates -/
structure CertOnly (r r' : Replica) : Prop where
  view : r'.view = r.view
  phase : r'.phase = r.phase
  highVote : r'.highVote = r.highVote
  proposals : r'.proposals = r.proposals
  commitViews : r'.commitViews = r.commitViews
  commitQCs : r'.commitQCs = r.commitQCs
  timeoutViews : r'.timeoutViews = r.timeoutViews
  timeoutQCs : r'.timeoutQCs = r.timeoutQCs

theorem certOnly_refl (r : Replica) : CertOnly r r := ⟨rfl, rfl, rfl, rfl, rfl, rfl, rfl, rfl⟩

theorem certOnly_processCommitQC (r : Replica) (e : Env) (q : CommitQC) : CertOnly r (processCommitQC r e q).1 := by
  rw [processCommitQC_fst]
  exact ⟨rfl, rfl, rfl, rfl, rfl, rfl, rfl, rfl⟩

theorem certOnly_ptTail (t : TimeoutQC) (p : Replica × List Effect × Bool) : CertOnly p.1 (ptTail t p).1 := by
  unfold ptTail
  split
  · exact ⟨rfl, rfl, rfl, rfl, rfl, rfl, rfl, rfl⟩
  · dsimp only
    repeat' split
    all_goals exact ⟨rfl, rfl, rfl, rfl, rfl, rfl, rfl, rfl⟩

theorem CertOnly.trans {a b c : Replica} (h1 : CertOnly a b) (h2 : CertOnly b c) : CertOnly a c :=
  ⟨h2.view.trans h1.view, h2.phase.trans h1.phase, h2.highVote.trans h1.highVote, h2.proposals.trans h1.proposals,
   h2.commitViews.trans h1.commitViews, h2.commitQCs.trans h1.commitQCs, h2.timeoutViews.trans h1.timeoutViews,
   h2.timeoutQCs.trans h1.timeoutQCs⟩

theorem certOnly_processTimeoutQC (r : Replica) (e : Env) (t : TimeoutQC) : CertOnly r (processTimeoutQC r e t).1 := by
  rw [processTimeoutQC_eq]
  refine CertOnly.trans ?_ (certOnly_ptTail t _)
  cases t.highQC with
  | none => exact certOnly_refl r
  | some hq => exact certOnly_processCommitQC r e hq

theorem certOnly_processJust (r : Replica) (e : Env) (j : Just) : CertOnly r (processJust r e j).1 := by
  cases j with
  | commit q => exact certOnly_processCommitQC r e q
  | timeout t => exact certOnly_processTimeoutQC r e t

/-- `start_new_view` touches the view, the phase and the proposal cache only -/
theorem startNewView_r (r : Replica) (view : Nat) :
    (startNewView r view).r.view = view ∧ (startNewView r view).r.phase = .prepare ∧
    (startNewView r view).r.highVote = r.highVote ∧
    (startNewView r view).r.highCommitQC = r.highCommitQC ∧ (startNewView r view).r.highTimeoutQC = r.highTimeoutQC ∧
    (startNewView r view).r.commitViews = r.commitViews ∧ (startNewView r view).r.commitQCs = r.commitQCs ∧
    (startNewView r view).r.timeoutViews = r.timeoutViews ∧ (startNewView r view).r.timeoutQCs = r.timeoutQCs := by
  unfold startNewView
  dsimp only
  split
  · exact ⟨rfl, rfl, rfl, rfl, rfl, rfl, rfl, rfl, rfl⟩
  · cases r.highCommitQC <;> exact ⟨rfl, rfl, rfl, rfl, rfl, rfl, rfl, rfl, rfl⟩

theorem startTimeout_r (cfg : RCfg) (r : Replica) : (startTimeout cfg r).r = stState r := by
  unfold startTimeout
  dsimp only
  split
  · split <;> rfl
  · rfl

/-- the four vote caches and the view after a step: a summary of which handler may change what -/
structure CacheDelta (cfg : RCfg) (r : Replica) (inp : Input) (r' : Replica) : Prop where
  /-- the timeout caches change only when a timeout vote passes the checks -/
  tkeep : (∀ key t, inp ≠ .msg ⟨.timeout t, key, true⟩) →
    r'.timeoutViews = r.timeoutViews ∧ r'.timeoutQCs = r.timeoutQCs
  /-- the commit-view cache changes only when a commit vote passes the checks -/
  ckeep : (∀ key v, inp ≠ .msg ⟨.commit v, key, true⟩) → r'.commitViews = r.commitViews
  tviews : r'.timeoutViews = r.timeoutViews ∨
    ∃ key t, inp = .msg ⟨.timeout t, key, true⟩ ∧ r'.timeoutViews = alSet r.timeoutViews key t.view.number
  cviews : r'.commitViews = r.commitViews ∨
    ∃ key v, inp = .msg ⟨.commit v, key, true⟩ ∧ r'.commitViews = alSet r.commitViews key v.view.number

theorem cacheDelta_same (cfg : RCfg) (r : Replica) (inp : Input) {r' : Replica}
    (h1 : r'.timeoutViews = r.timeoutViews) (h2 : r'.timeoutQCs = r.timeoutQCs) (h3 : r'.commitViews = r.commitViews) :
    CacheDelta cfg r inp r' :=
  ⟨fun _ => ⟨h1, h2⟩, fun _ => h3, Or.inl h1, Or.inl h3⟩

theorem newViewTail_delta (cfg : RCfg) (r : Replica) (e : Env) (j : Just) (inp : Input) :
    CacheDelta cfg r inp (newViewTail r e j).r := by
  have h := certOnly_processJust r e j
  unfold newViewTail
  split
  · exact cacheDelta_same cfg r inp h.timeoutViews h.timeoutQCs h.commitViews
  · split
    · obtain ⟨_, _, _, _, _, f6, _, f8, f9⟩ := startNewView_r (processJust r e j).1 j.viewNumber
      exact cacheDelta_same cfg r inp (f8.trans h.timeoutViews) (f9.trans h.timeoutQCs) (f6.trans h.commitViews)
    · exact cacheDelta_same cfg r inp h.timeoutViews h.timeoutQCs h.commitViews

theorem propTail_delta (cfg : RCfg) (r r0 : Replica) (e : Env) (j : Just) (hh : Nat) (inp : Input)
    (hr0 : r0 = { r with proposals := r0.proposals }) : CacheDelta cfg r inp (propTail cfg r0 e j hh).r := by
  have h := certOnly_processJust (propR1 cfg r0 j hh) e j
  have e1 : (propR1 cfg r0 j hh).timeoutViews = r.timeoutViews := by rw [hr0]; rfl
  have e2 : (propR1 cfg r0 j hh).timeoutQCs = r.timeoutQCs := by rw [hr0]; rfl
  have e3 : (propR1 cfg r0 j hh).commitViews = r.commitViews := by rw [hr0]; rfl
  unfold propTail
  split <;> exact cacheDelta_same cfg r inp (h.timeoutViews.trans e1) (h.timeoutQCs.trans e2) (h.commitViews.trans e3)

theorem commitTail_delta (cfg : RCfg) (r : Replica) (e : Env) (key : Nat) (v : Vote) :
    CacheDelta cfg r (.msg ⟨.commit v, key, true⟩) (commitTail cfg r e key true v).r := by
  have hne : ∀ key' t, (Input.msg ⟨.commit v, key, true⟩) ≠ .msg ⟨.timeout t, key', true⟩ := by
    intro k t h; cases h
  unfold commitTail
  split
  · exact cacheDelta_same cfg r _ rfl rfl rfl
  · rename_i qc _
    have h := certOnly_processCommitQC (commitR2 r key v qc) e qc
    split
    · exact ⟨fun _ => ⟨rfl, rfl⟩, fun hn => absurd rfl (hn key v), Or.inl rfl, Or.inr ⟨key, v, rfl, rfl⟩⟩
    · split
      · exact ⟨fun _ => ⟨h.timeoutViews, h.timeoutQCs⟩, fun hn => absurd rfl (hn key v), Or.inl h.timeoutViews,
          Or.inr ⟨key, v, rfl, h.commitViews⟩⟩
      · obtain ⟨_, _, _, _, _, f6, _, f8, f9⟩ :=
          startNewView_r (processCommitQC (commitR2 r key v qc) e qc).1 (nextU64 v.view.number)
        exact ⟨fun _ => ⟨f8.trans h.timeoutViews, f9.trans h.timeoutQCs⟩, fun hn => absurd rfl (hn key v),
          Or.inl (f8.trans h.timeoutViews), Or.inr ⟨key, v, rfl, f6.trans h.commitViews⟩⟩

theorem timeoutTail_delta (cfg : RCfg) (r : Replica) (e : Env) (key : Nat) (t : TVote) :
    CacheDelta cfg r (.msg ⟨.timeout t, key, true⟩) (timeoutTail cfg r e key true t).r := by
  unfold timeoutTail
  split
  · exact cacheDelta_same cfg r _ rfl rfl rfl
  · rename_i qc _
    have h := certOnly_processTimeoutQC (timeoutR2 r key t qc) e qc
    split
    · exact cacheDelta_same cfg r _ rfl rfl rfl
    · split
      · exact ⟨fun hn => absurd rfl (hn key t), fun _ => rfl, Or.inr ⟨key, t, rfl, rfl⟩, Or.inl rfl⟩
      · split
        · exact ⟨fun hn => absurd rfl (hn key t), fun _ => h.commitViews, Or.inr ⟨key, t, rfl, h.timeoutViews⟩,
            Or.inl h.commitViews⟩
        · obtain ⟨_, _, _, _, _, f6, _, f8, _⟩ :=
            startNewView_r (processTimeoutQC (timeoutR2 r key t qc) e qc).1 (nextU64 t.view.number)
          exact ⟨fun hn => absurd rfl (hn key t), fun _ => f6.trans h.commitViews,
            Or.inr ⟨key, t, rfl, f8.trans h.timeoutViews⟩, Or.inl (f6.trans h.commitViews)⟩

/-- **Which handler changes which cache** (no hypothesis on the state) -/
theorem step_delta (cfg : RCfg) (r : Replica) (e : Env) (inp : Input) (hin : ∀ b, inp ≠ .restart b) :
    CacheDelta cfg r inp (step cfg r e inp).r := by
  cases inp with
  | restart b => exact absurd rfl (hin b)
  | tick =>
    show CacheDelta cfg r .tick (startTimeout cfg r).r
    rw [startTimeout_r]
    exact cacheDelta_same cfg r _ rfl rfl rfl
  | msg s =>
    obtain ⟨m, key, sigOk⟩ := s
    cases m with
    | proposal pl j =>
      show CacheDelta cfg r _ (onProposal cfg r e key sigOk pl j).r
      rcases onProposal_cases cfg r e key sigOk pl j with ⟨_, w, h⟩ | ⟨_, ⟨w, _, h⟩ | ⟨h', r0, hd, ht⟩⟩
      · rw [h]; exact cacheDelta_same cfg r _ rfl rfl rfl
      · rw [h]; exact cacheDelta_same cfg r _ rfl rfl rfl
      · rw [ht]; exact propTail_delta cfg r r0 e j h' _ (propDecide_rest hd)
    | commit v =>
      show CacheDelta cfg r _ (onCommit cfg r e key sigOk v).r
      rcases onCommit_cases cfg r e key sigOk v with ⟨_, w, h⟩ | ⟨hc, ht⟩
      · rw [h]; exact cacheDelta_same cfg r _ rfl rfl rfl
      · rw [ht]
        have : sigOk = true := hc.2.2.2.1
        subst this
        exact commitTail_delta cfg r e key v
    | timeout t =>
      show CacheDelta cfg r _ (onTimeout cfg r e key sigOk t).r
      rcases onTimeout_cases cfg r e key sigOk t with ⟨_, w, h⟩ | ⟨hc, ht⟩
      · rw [h]; exact cacheDelta_same cfg r _ rfl rfl rfl
      · rw [ht]
        have : sigOk = true := hc.2.2.2.1
        subst this
        exact timeoutTail_delta cfg r e key t
    | newView j =>
      show CacheDelta cfg r _ (onNewView cfg r e key sigOk j).r
      rcases onNewView_cases cfg r e key sigOk j with ⟨_, w, h⟩ | ⟨_, ht⟩
      · rw [h]; exact cacheDelta_same cfg r _ rfl rfl rfl
      · rw [ht]; exact newViewTail_delta cfg r e j _

/-! ## `TCacheFull`: who is recorded is in the cached certificate -/

/-- every validator recorded with a timeout vote for a view `w` the replica has not left yet is a signer of the
timeout certificate cached for `w` -/
def TCacheFull (r : Replica) : Prop :=
  ∀ i w, alGet r.timeoutViews i = some w → r.view ≤ w →
    ∃ qc, alGet r.timeoutQCs w = some qc ∧ ∃ g ∈ qc.map, g.2[i]? = some true

theorem tcacheFull_of_empty {r : Replica} (h : r.timeoutViews = []) : TCacheFull r := by
  intro i w hw
  rw [h, alGet_nil] at hw
  cases hw

theorem mapSet_has_bit (c : Committee) (m : List (TVote × List Bool)) (msg : TVote) (i : Nat) (hi : i < c.n)
    (hlen : ∀ g ∈ m, g.2.length = c.n) : ∃ g ∈ mapSet c m msg i, g.2[i]? = some true := by
  unfold mapSet
  split
  · rename_i hany
    obtain ⟨g, hg, hgm⟩ := List.any_eq_true.mp hany
    have hgm' : g.1 = msg := by simpa using hgm
    refine ⟨(g.1, setBit g.2 i), List.mem_map.mpr ⟨g, hg, by rw [if_pos hgm']⟩, ?_⟩
    exact (set_get g.2 i i (by rw [hlen g hg]; exact hi)).mpr (Or.inl rfl)
  · refine ⟨(msg, setBit (List.replicate c.n false) i), List.mem_append_right _ (List.mem_singleton.mpr rfl), ?_⟩
    exact (set_get _ i i (by simpa using hi)).mpr (Or.inl rfl)

theorem mapSet_keeps_bit (c : Committee) (m : List (TVote × List Bool)) (msg : TVote) (i : Nat)
    {g : TVote × List Bool} (hg : g ∈ m) {k : Nat} (hk : g.2[k]? = some true) :
    ∃ g' ∈ mapSet c m msg i, g'.2[k]? = some true := by
  have hklt : k < g.2.length := (List.getElem?_eq_some_iff.mp hk).1
  unfold mapSet
  split
  · by_cases hgm : g.1 = msg
    · refine ⟨(g.1, setBit g.2 i), List.mem_map.mpr ⟨g, hg, by rw [if_pos hgm]⟩, ?_⟩
      show (g.2.set i true)[k]? = some true
      rw [List.getElem?_set]
      by_cases hik : i = k
      · subst hik; simp [hklt]
      · simp [hik, hk]
    · exact ⟨g, List.mem_map.mpr ⟨g, hg, by rw [if_neg hgm]⟩, hk⟩
  · exact ⟨g, List.mem_append_left _ hg, hk⟩

theorem active_of_alGet {views : List (Nat × Nat)} {i w : Nat} (h : alGet views i = some w) :
    (activeViews views).contains w = true := by
  simp only [activeViews, List.contains_iff_mem, List.mem_map]
  exact ⟨(i, w), alGet_mem h, rfl⟩

/-- the cached certificate of a view other than the vote's survives the insert and the pruning, as long as somebody
is still recorded with that view -/
theorem tTqs'_get_other (tvs : List (Nat × Nat)) (tqs : List (Nat × TimeoutQC)) (key : Nat) (t : TVote) (qc : TimeoutQC)
    {i w : Nat} (hw : alGet (alSet tvs key t.view.number) i = some w) (hne : w ≠ t.view.number) :
    alGet (tTqs' tvs tqs key t qc) w = alGet tqs w := by
  unfold tTqs'
  rw [alGet_filter_key (alSet tqs t.view.number qc)
    (fun u => (activeViews (alSet tvs key t.view.number)).contains u) w, if_pos (active_of_alGet hw), alGet_alSet,
    if_neg hne]

/-- `TCacheFull` is preserved by every handler that runs to completion (no wrap of the view number) -/
theorem tcacheFull_step {cfg : RCfg} {r : Replica} (e : Env) {inp : Input} (hw : Wf cfg r) (hfull : TCacheFull r)
    (hin : ∀ b, inp ≠ .restart b) (hok : InputOk inp)
    (hout : (step cfg r e inp).out = .accepted ∨ ∃ w, (step cfg r e inp).out = .rejected w) :
    TCacheFull (step cfg r e inp).r := by
  rcases hout with hacc | ⟨w, hrej⟩
  swap
  · rw [(step_rejected hrej).1]; exact hfull
  have hmono : r.view ≤ (step cfg r e inp).r.view := by
    rcases step_wf hw e inp hin with ⟨w, hr⟩ | ⟨hb, _⟩ | ⟨_, ha⟩
    · rw [hr] at hacc; cases hacc
    · rw [hb] at hacc; cases hacc
    · apply ha.view_mono
      cases inp with
      | tick => trivial
      | restart b => trivial
      | msg s =>
        obtain ⟨m, key, sigOk⟩ := s
        cases m <;> exact hok
  have hdelta := step_delta cfg r e inp hin
  by_cases hto : ∀ key t, inp ≠ .msg ⟨.timeout t, key, true⟩
  · obtain ⟨h1, h2⟩ := hdelta.tkeep hto
    intro i w hiw hle
    rw [h1] at hiw
    rw [h2]
    exact hfull i w hiw (Nat.le_trans hmono hle)
  · have : ∃ key t, inp = .msg ⟨.timeout t, key, true⟩ := by
      apply Classical.byContradiction
      intro hn
      exact hto (fun key t h => hn ⟨key, t, h⟩)
    obtain ⟨key, t, rfl⟩ := this
    have hnw : t.view.number + 1 < 2 ^ 64 := hok
    change TCacheFull (onTimeout cfg r e key true t).r
    have hacc' : (onTimeout cfg r e key true t).out = .accepted := hacc
    rcases onTimeout_cases cfg r e key true t with ⟨_, w', h⟩ | ⟨hc, ht⟩
    · rw [h] at hacc'; exact absurd hacc' (rej_not_accepted _ _)
    rw [ht] at hacc' ⊢
    obtain ⟨hk, hge, hfresh, _, hv⟩ := hc
    obtain ⟨qc, hadd, hasm, _, hlow, hhigh⟩ := timeoutTail_reaction e hw ⟨hk, hge, hfresh, rfl, hv⟩
    have hinv0 := tQc0_inv (cfg := cfg) hw hv
    obtain ⟨i', hk', _, _, _, _, _, hqc⟩ := (tqc_add_ok _ _ _ _ _).mp hadd
    simp only [Option.some.injEq] at hk'
    subst hk'
    have hmap : qc.map = mapSet cfg.c (tQc0 r.timeoutQCs t).map t key := by rw [hqc]
    have hlen0 : ∀ g ∈ (tQc0 r.timeoutQCs t).map, g.2.length = cfg.c.n := fun g hg => (hinv0.groups g hg).2.1
    -- the facts about the cache after the insert, for entries other than the vote's view resp. the vote's view
    have hsame : ∀ i w, alGet (alSet r.timeoutViews key t.view.number) i = some w → r.view ≤ w →
        ∃ qc', alGet (tTqs' r.timeoutViews r.timeoutQCs key t qc) w = some qc' ∧ ∃ g ∈ qc'.map, g.2[i]? = some true := by
      intro i w hiw hle
      by_cases hwu : w = t.view.number
      · subst hwu
        refine ⟨qc, tTqs'_get _ _ _ _ _, ?_⟩
        rw [hmap]
        by_cases hik : i = key
        · subst hik
          exact mapSet_has_bit cfg.c _ t i hk hlen0
        · have hiw' : alGet r.timeoutViews i = some t.view.number := by
            rw [alGet_alSet, if_neg hik] at hiw; exact hiw
          obtain ⟨q1, hq1, g, hg, hbit⟩ := hfull i _ hiw' hle
          have : tQc0 r.timeoutQCs t = q1 := by unfold tQc0; rw [hq1]; rfl
          rw [this]
          exact mapSet_keeps_bit cfg.c _ t key hg hbit
      · have hik : i ≠ key := by
          intro hik
          rw [alGet_alSet, if_pos hik] at hiw
          exact hwu (Option.some.inj hiw).symm
        have hiw' : alGet r.timeoutViews i = some w := by
          rw [alGet_alSet, if_neg hik] at hiw; exact hiw
        rw [tTqs'_get_other _ _ _ _ _ hiw hwu]
        exact hfull i w hiw' hle
    by_cases hlt : tqcGroupWeight cfg.c qc < cfg.c.quorum
    · rw [hlow hlt]
      exact hsame
    · obtain ⟨hver, hb, ha⟩ := hhigh (by omega)
      cases hok' : (processTimeoutQC (timeoutR2 r key t qc) e qc).2.2 with
      | false => rw [hb hok'] at hacc'; cases hacc'
      | true =>
        obtain ⟨j, _, heq⟩ := ha hok'
        rw [heq]
        obtain ⟨f1, _, _, _, _, _, _, f8, f9⟩ :=
          snvState_fields (processTimeoutQC (timeoutR2 r key t qc) e qc).1 (nextU64 t.view.number)
        have hco := certOnly_processTimeoutQC (timeoutR2 r key t qc) e qc
        intro i w hiw hle
        change alGet (snvState _ _).timeoutViews i = some w at hiw
        change (snvState _ _).view ≤ w at hle
        change ∃ qc', alGet (snvState _ _).timeoutQCs w = some qc' ∧ _
        rw [f8, hco.timeoutViews] at hiw
        rw [f1, nextU64_eq _ hnw] at hle
        rw [f9, hco.timeoutQCs]
        have hiw' : alGet (alSet r.timeoutViews key t.view.number) i = some w := hiw
        have hwu : w ≠ t.view.number := by omega
        show ∃ qc', alGet (alErase (tTqs' r.timeoutViews r.timeoutQCs key t qc) t.view.number) w = some qc' ∧ _
        rw [alGet_alErase _ _ _ hwu]
        exact hsame i w hiw' (by omega)

/-! ## `TCacheLow`: a cached timeout certificate is below the quorum -/

/-- every cached timeout certificate is still below the quorum (the one that reaches it is processed and removed) -/
def TCacheLow (cfg : RCfg) (r : Replica) : Prop :=
  ∀ u qc, (u, qc) ∈ r.timeoutQCs → tqcGroupWeight cfg.c qc < cfg.c.quorum

theorem tcacheLow_of_empty {cfg : RCfg} {r : Replica} (h : r.timeoutQCs = []) : TCacheLow cfg r := by
  intro u qc hq
  rw [h] at hq
  cases hq

theorem tcacheLow_step {cfg : RCfg} {r : Replica} (e : Env) {inp : Input} (hw : Wf cfg r) (hlow : TCacheLow cfg r)
    (hin : ∀ b, inp ≠ .restart b)
    (hout : (step cfg r e inp).out = .accepted ∨ ∃ w, (step cfg r e inp).out = .rejected w) :
    TCacheLow cfg (step cfg r e inp).r := by
  rcases hout with hacc | ⟨w, hrej⟩
  swap
  · rw [(step_rejected hrej).1]; exact hlow
  have hdelta := step_delta cfg r e inp hin
  by_cases hto : ∀ key t, inp ≠ .msg ⟨.timeout t, key, true⟩
  · obtain ⟨_, h2⟩ := hdelta.tkeep hto
    intro u qc hq
    rw [h2] at hq
    exact hlow u qc hq
  · have : ∃ key t, inp = .msg ⟨.timeout t, key, true⟩ := by
      apply Classical.byContradiction
      intro hn
      exact hto (fun key t h => hn ⟨key, t, h⟩)
    obtain ⟨key, t, rfl⟩ := this
    change TCacheLow cfg (onTimeout cfg r e key true t).r
    have hacc' : (onTimeout cfg r e key true t).out = .accepted := hacc
    rcases onTimeout_cases cfg r e key true t with ⟨_, w', h⟩ | ⟨hc, ht⟩
    · rw [h] at hacc'; exact absurd hacc' (rej_not_accepted _ _)
    rw [ht] at hacc' ⊢
    obtain ⟨qc, hadd, hasm, _, hlw, hhigh⟩ := timeoutTail_reaction e hw hc
    have hold : ∀ u q, (u, q) ∈ tTqs' r.timeoutViews r.timeoutQCs key t qc → q = qc ∨ (u, q) ∈ r.timeoutQCs := by
      intro u q hq
      rcases mem_alSet (List.mem_filter.mp hq).1 with h | ⟨h, _⟩
      · exact Or.inl (by cases h; rfl)
      · exact Or.inr h
    by_cases hlt : tqcGroupWeight cfg.c qc < cfg.c.quorum
    · rw [hlw hlt]
      intro u q hq
      rcases hold u q hq with rfl | h
      · exact hlt
      · exact hlow u q h
    · obtain ⟨hver, hb, ha⟩ := hhigh (by omega)
      cases hok' : (processTimeoutQC (timeoutR2 r key t qc) e qc).2.2 with
      | false => rw [hb hok'] at hacc'; cases hacc'
      | true =>
        obtain ⟨j, _, heq⟩ := ha hok'
        rw [heq]
        obtain ⟨_, _, _, _, _, _, _, _, f9⟩ :=
          snvState_fields (processTimeoutQC (timeoutR2 r key t qc) e qc).1 (nextU64 t.view.number)
        have hco := certOnly_processTimeoutQC (timeoutR2 r key t qc) e qc
        intro u q hq
        change (u, q) ∈ (snvState _ _).timeoutQCs at hq
        rw [f9, hco.timeoutQCs] at hq
        have hq' : (u, q) ∈ alErase (tTqs' r.timeoutViews r.timeoutQCs key t qc) t.view.number := hq
        have hne : u ≠ t.view.number := by
          have := (List.mem_filter.mp hq').2
          simpa [alErase] using this
        rcases mem_alSet (List.mem_filter.mp (mem_alErase hq')).1 with h | ⟨h, _⟩
        · exact absurd (by cases h; rfl) hne
        · exact hlow u q h

/-! ## `ViewsAuth`: every recorded voter has voted -/

/-- every entry of the two `*_views_cache`s stems from a validly signed vote of that view -/
def ViewsAuth (sg : Sigs) (r : Replica) : Prop :=
  (∀ i w, alGet r.timeoutViews i = some w → ∃ t : TVote, t.view.number = w ∧ sg.t i t) ∧
  (∀ i w, alGet r.commitViews i = some w → ∃ v : Vote, v.view.number = w ∧ sg.c i v)

theorem viewsAuth_of_empty {sg : Sigs} {r : Replica} (h1 : r.timeoutViews = []) (h2 : r.commitViews = []) :
    ViewsAuth sg r := by
  constructor
  · intro i w hw; rw [h1, alGet_nil] at hw; cases hw
  · intro i w hw; rw [h2, alGet_nil] at hw; cases hw

theorem ViewsAuth.mono {sg sg' : Sigs} (hc : ∀ i v, sg.c i v → sg'.c i v) (ht : ∀ i v, sg.t i v → sg'.t i v)
    {r : Replica} (h : ViewsAuth sg r) : ViewsAuth sg' r :=
  ⟨fun i w hw => let ⟨t, h1, h2⟩ := h.1 i w hw; ⟨t, h1, ht _ _ h2⟩,
   fun i w hw => let ⟨v, h1, h2⟩ := h.2 i w hw; ⟨v, h1, hc _ _ h2⟩⟩

theorem viewsAuth_step {cfg : RCfg} {sg : Sigs} {r : Replica} (e : Env) {inp : Input} (hva : ViewsAuth sg r)
    (hin : ∀ b, inp ≠ .restart b) (hia : InpAuth sg inp) : ViewsAuth sg (step cfg r e inp).r := by
  have hdelta := step_delta cfg r e inp hin
  constructor
  · intro i w hiw
    rcases hdelta.tviews with h | ⟨key, t, rfl, h⟩
    · rw [h] at hiw; exact hva.1 i w hiw
    · rw [h, alGet_alSet] at hiw
      by_cases hik : i = key
      · rw [if_pos hik] at hiw
        subst hik
        exact ⟨t, Option.some.inj hiw, hia.1 rfl⟩
      · rw [if_neg hik] at hiw
        exact hva.1 i w hiw
  · intro i w hiw
    rcases hdelta.cviews with h | ⟨key, v, rfl, h⟩
    · rw [h] at hiw; exact hva.2 i w hiw
    · rw [h, alGet_alSet] at hiw
      by_cases hik : i = key
      · rw [if_pos hik] at hiw
        subst hik
        exact ⟨v, Option.some.inj hiw, hia rfl⟩
      · rw [if_neg hik] at hiw
        exact hva.2 i w hiw

/-! ## both invariants hold in every reachable global state -/

section greach
variable {cfg : RCfg} {byz : Finset (Fin cfg.c.n)}

theorem inpAuth_of_authentic {g : Global cfg} {inp : Input}
    (h : ∀ m, inp = .msg m → Authentic (Byz byz) g m) : InpAuth (sigsOf (Byz byz) g) inp := by
  cases inp with
  | msg m => exact authentic_inpAuth m (h m rfl)
  | tick => trivial
  | restart b => trivial

/-- **`TCacheFull`, `TCacheLow` and `ViewsAuth` hold at every correct validator in every reachable global state.** -/
theorem greach_extra {g : Global cfg} (ht : 1 ≤ cfg.c.total) (hr : GReach cfg (Byz byz) g) :
    ∀ i, i ∉ byz → TCacheFull (g.sys i).r ∧ TCacheLow cfg (g.sys i).r ∧
      ViewsAuth (sigsOf (Byz byz) g) (g.sys i).r := by
  induction hr with
  | init => intro i _; exact ⟨tcacheFull_of_empty rfl, tcacheLow_of_empty rfl, viewsAuth_of_empty rfl rfl⟩
  | @step g g' hr hs ih =>
    have hG := (Props.C01r.reach_inv ht hr).1
    cases hs with
    | step i hi s' h' hst =>
      have hsent : ∀ m ∈ (g.sys i).sent, m ∈ s'.sent := hst.sent_mono
      obtain ⟨mc, mt⟩ := sigs_mono_set (byz := byz) (h' := h') hsent
      intro j hj
      by_cases hji : j = i
      · subst hji
        rw [set_sys_self]
        have hwf := (hG j hj).linv.wf
        generalize ha : (g.sys j, g.hist j) = a at hst
        generalize hb : (s', h') = b at hst
        cases hst with
        | run s1 h1 e inp hin hok hok2 hauth hout =>
          cases ha
          simp only [Prod.mk.injEq] at hb
          obtain ⟨rfl, _⟩ := hb
          rw [Crash.applyEffs_r]
          exact ⟨tcacheFull_step e hwf (ih j hj).1 hin hok hout, tcacheLow_step e hwf (ih j hj).2.1 hin hout,
            (viewsAuth_step e (ih j hj).2.2 hin (inpAuth_of_authentic hauth)).mono mc mt⟩
        | crash s1 h1 e inp hin hok hok2 hauth k =>
          cases ha
          simp only [Prod.mk.injEq] at hb
          obtain ⟨rfl, _⟩ := hb
          exact ⟨tcacheFull_of_empty rfl, tcacheLow_of_empty rfl, viewsAuth_of_empty rfl rfl⟩
        | restart s1 h1 =>
          cases ha
          simp only [Prod.mk.injEq] at hb
          obtain ⟨rfl, _⟩ := hb
          exact ⟨tcacheFull_of_empty rfl, tcacheLow_of_empty rfl, viewsAuth_of_empty rfl rfl⟩
      · rw [set_sys_other _ _ _ _ _ hji]
        exact ⟨(ih j hj).1, (ih j hj).2.1, (ih j hj).2.2.mono mc mt⟩

/-! ## a certificate has a correct signer -/

open EraVerif.Safety EraVerif.Refine in
/-- with Byzantine weight `≤ f`, a verifying authentic commit certificate was signed by a correct validator, who has
sent the vote -/
theorem cqc_correct_signer {g : Global cfg} (ht : 1 ≤ cfg.c.total) (hb : wt (wF cfg.c) byz ≤ cfg.c.faulty)
    {q : CommitQC} (hv : q.verify cfg.c = true) (ha : AuthCQC (sigsOf (Byz byz) g) q) :
    ∃ i, i ∉ byz ∧ Msg.commit q.message ∈ (g.sys i).sent := by
  obtain ⟨_, _, _, hw, hperm⟩ := (commitQC_verify_iff cfg.c q).mp hv
  obtain ⟨i, hi, hib⟩ := quorum_has_correct (wF cfg.c) byz (bits cfg.c q.signers) (by rw [total_wF]; exact ht)
    (by rw [faulty_wF]; exact hb) (by rw [quorum_wF, ← weightOf_eq_wt]; exact hw)
  refine ⟨i, hib, ?_⟩
  have hbit : q.signers.getD i.val false = true := by simpa [bits] using hi
  have hidx : i.val ∈ signerIdxs q.signers := (mem_signerIdxs_iff _ _).mpr ((getD_true_iff _ _).mp hbit)
  have hmem : (i.val, q.message) ∈ q.sig := hperm.mem_iff.mpr (List.mem_map.mpr ⟨i.val, hidx, rfl⟩)
  exact ha _ hmem i.isLt hib

open EraVerif.Safety EraVerif.Refine in
/-- the same for a timeout certificate: a correct validator has sent a timeout vote for its view -/
theorem tqc_correct_signer {g : Global cfg} (ht : 1 ≤ cfg.c.total) (hb : wt (wF cfg.c) byz ≤ cfg.c.faulty)
    {t : TimeoutQC} (hv : t.verify cfg.c = true) (ha : AuthTQC (sigsOf (Byz byz) g) t) :
    ∃ i, i ∉ byz ∧ ∃ tv : TVote, tv.view = t.view ∧ Msg.timeout tv ∈ (g.sys i).sent := by
  obtain ⟨_, _, hgr, _, _, hperm⟩ := (timeoutQC_verify_iff cfg.c t).mp hv
  obtain ⟨i, hi, hib⟩ := quorum_has_correct (wF cfg.c) byz (absTQC cfg.c t).signers (by rw [total_wF]; exact ht)
    (by rw [faulty_wF]; exact hb) (quorum_le_signers cfg.c t hv)
  obtain ⟨e, he, hbit, _⟩ := rep_of_signer cfg.c t i hi
  have hexp : (i.val, e.1) ∈ t.expected := by
    unfold TimeoutQC.expected
    rw [List.mem_flatMap]
    refine ⟨e, he, ?_⟩
    obtain ⟨m, sgn⟩ := e
    exact List.mem_map.mpr ⟨i.val, (mem_signerIdxs_iff _ _).mpr ((getD_true_iff _ _).mp hbit), rfl⟩
  have hmem := hperm.mem_iff.mpr hexp
  exact ⟨i, hib, e.1, (hgr e he).1, ha.1 _ hmem i.isLt hib⟩

/-- a correct validator never votes for a view above its own, and has left `prepare` in a view it has voted in -/
theorem sent_vote_view {g : Global cfg} (hG : GInv cfg byz g) {i : Fin cfg.c.n} (hi : i ∉ byz) {m : Msg}
    (hm : m ∈ (g.sys i).sent) {a : Nat} (ha : voteView m = some a) :
    a ≤ (g.sys i).r.view ∧ (a = (g.sys i).r.view → (g.sys i).r.phase ≠ .prepare) := by
  have hc := (hG i hi).linv.cinv
  obtain ⟨av, ap, _⟩ := hc.agree
  have av' : (g.sys i).r.view = (dur (g.sys i)).view := av
  have ap' : (g.sys i).r.phase = (dur (g.sys i)).phase := ap
  refine ⟨by rw [av']; exact hc.core.le_view m hm a ha, fun he => ?_⟩
  rw [ap']
  rw [av'] at he
  cases m with
  | commit v =>
    simp only [voteView, Option.some.injEq] at ha
    subst ha
    exact (hc.core.commit_at v hm he).1
  | timeout t =>
    simp only [voteView, Option.some.injEq] at ha
    subst ha
    rw [hc.core.timeout_at t hm he]
    intro h; cases h
  | proposal p j => cases ha
  | newView j => cases ha

open EraVerif.Safety EraVerif.Refine in
/-- **The view of a certificate is bounded by the correct validators' views.** If every correct validator is in a
view `≤ V`, and those in view `V` are in phase `prepare`, every verifying authentic commit / timeout certificate is
for a view below `V`. -/
theorem cert_view_lt {g : Global cfg} (ht : 1 ≤ cfg.c.total) (hb : wt (wF cfg.c) byz ≤ cfg.c.faulty)
    (hr : GReach cfg (Byz byz) g) {V : Nat}
    (hview : ∀ i, i ∉ byz → (g.sys i).r.view ≤ V ∧ ((g.sys i).r.view = V → (g.sys i).r.phase = .prepare)) :
    (∀ q : CommitQC, q.verify cfg.c = true → AuthCQC (sigsOf (Byz byz) g) q → q.message.view.number < V) ∧
    (∀ t : TimeoutQC, t.verify cfg.c = true → AuthTQC (sigsOf (Byz byz) g) t → t.view.number < V) := by
  have hG := (Props.C01r.reach_inv ht hr).1
  constructor
  · intro q hv ha
    obtain ⟨i, hi, hs⟩ := cqc_correct_signer ht hb hv ha
    obtain ⟨h1, h2⟩ := sent_vote_view hG hi hs (a := q.message.view.number) rfl
    obtain ⟨h3, h4⟩ := hview i hi
    rcases Nat.lt_or_ge q.message.view.number V with h | h
    · exact h
    · have e1 : q.message.view.number = (g.sys i).r.view := by omega
      exact absurd (h4 (by omega)) (h2 e1)
  · intro t hv ha
    obtain ⟨i, hi, tv, htv, hs⟩ := tqc_correct_signer ht hb hv ha
    obtain ⟨h1, h2⟩ := sent_vote_view hG hi hs (a := tv.view.number) rfl
    obtain ⟨h3, h4⟩ := hview i hi
    rw [htv] at h1 h2
    rcases Nat.lt_or_ge t.view.number V with h | h
    · exact h
    · have e1 : t.view.number = (g.sys i).r.view := by omega
      exact absurd (h4 (by omega)) (h2 e1)

/-- weaker form, no phase condition: certificates are for views `≤` the maximal view of a correct validator -/
theorem cert_view_le {g : Global cfg} (ht : 1 ≤ cfg.c.total)
    (hb : EraVerif.Safety.wt (EraVerif.Refine.wF cfg.c) byz ≤ cfg.c.faulty)
    (hr : GReach cfg (Byz byz) g) {V : Nat} (hview : ∀ i, i ∉ byz → (g.sys i).r.view ≤ V) :
    (∀ q : CommitQC, q.verify cfg.c = true → AuthCQC (sigsOf (Byz byz) g) q → q.message.view.number ≤ V) ∧
    (∀ t : TimeoutQC, t.verify cfg.c = true → AuthTQC (sigsOf (Byz byz) g) t → t.view.number ≤ V) := by
  have hG := (Props.C01r.reach_inv ht hr).1
  constructor
  · intro q hv ha
    obtain ⟨i, hi, hs⟩ := cqc_correct_signer ht hb hv ha
    have := (sent_vote_view hG hi hs (a := q.message.view.number) rfl).1
    have := hview i hi
    omega
  · intro t hv ha
    obtain ⟨i, hi, tv, htv, hs⟩ := tqc_correct_signer ht hb hv ha
    have h1 := (sent_vote_view hG hi hs (a := tv.view.number) rfl).1
    rw [htv] at h1
    have := hview i hi
    omega

end greach

/-! ## the weight already in the cache -/

theorem sum_le_of_nodup_subset (f : Nat → Nat) : ∀ (S L : List Nat), S.Nodup → (∀ s ∈ S, s ∈ L) →
    (S.map f).sum ≤ (L.map f).sum := by
  intro S
  induction S with
  | nil => intro L _ _; simp
  | cons s S ih =>
    intro L hnd hsub
    obtain ⟨hs, hnd'⟩ := List.nodup_cons.mp hnd
    have hsL : s ∈ L := hsub s List.mem_cons_self
    have hperm := List.perm_cons_erase hsL
    have hsum : (L.map f).sum = f s + ((L.erase s).map f).sum := by
      rw [(hperm.map f).sum_nat]; simp
    have := ih (L.erase s) hnd' (fun x hx => (List.mem_erase_of_ne (fun (h : x = s) => hs (by rw [← h]; exact hx))).mpr
      (hsub x (List.mem_cons_of_mem _ hx)))
    simp only [List.map_cons, List.sum_cons]
    omega

/-- the validators recorded with a timeout vote for view `w ≥ r.view` have their weight in the certificate cached
for `w` -/
theorem cached_weight_ge {cfg : RCfg} {r : Replica} (hw : Wf cfg r) (hfull : TCacheFull r) (w : Nat)
    (hle : r.view ≤ w) (S : List Nat) (hnd : S.Nodup) (hrec : ∀ s ∈ S, alGet r.timeoutViews s = some w) :
    (S.map (fun s => cfg.c.weights.getD s 0)).sum ≤ tqcGroupWeight cfg.c (cachedT cfg r w) := by
  cases S with
  | nil => simp
  | cons s0 S' =>
    obtain ⟨qc, hqc, _⟩ := hfull s0 w (hrec s0 List.mem_cons_self) hle
    have hcached : cachedT cfg r w = qc := by unfold cachedT; rw [hqc]; rfl
    rw [hcached]
    have hinv := tqcAssembled_inv (hw.tcache.asm w qc (alGet_mem hqc))
    have hlen : ∀ e ∈ qc.map, e.2.length = cfg.c.n := fun e he => (hinv.groups e he).2.1
    have hd : qc.map.Pairwise (fun a b => Disj a.2 b.2) := hinv.pw.imp (fun h => h.2)
    rw [← tqcUnion_weight_eq cfg.c qc hlen hd, weight_eq_sum']
    apply sum_le_of_nodup_subset _ _ _ hnd
    intro s hs
    obtain ⟨qc', hqc', g, hg, hbit⟩ := hfull s w (hrec s hs) hle
    rw [hqc] at hqc'
    cases hqc'
    rw [mem_signerIdxs_iff]
    unfold tqcUnion
    rw [unionFrom_get _ _ (fun e he => by simpa using hlen e he)]
    exact Or.inr ⟨g, hg, hbit⟩

end EraVerif.Proofs.Sync
