import EraVerif.Model.Fetch

/-!
Helper lemmas for C19 (core Lean only): association lists, `minKey`, the inductive invariant `Inv` of the fetch
queue LTS and its preservation by every event, run histories (`RunTo`) and the per-acceptor history invariant.
-/

namespace EraVerif.Proofs.Fetch
open EraVerif.Model.Fetch

theorem aget_aput {α : Type} (l : List (Nat × α)) (k k' : Nat) (v : α) :
    aget (aput l k v) k' = if k' = k then some v else aget l k' := by
  induction l with
  | nil => simp [aput, aget]; grind
  | cons e t ih =>
    obtain ⟨k0, v0⟩ := e
    simp only [aput]
    split
    · simp [aget]; grind
    · split
      · simp [aget]; grind
      · simp [aget, ih]; grind

theorem aget_adel {α : Type} (l : List (Nat × α)) (k k' : Nat) :
    aget (adel l k) k' = if k' = k then none else aget l k' := by
  induction l with
  | nil => simp [adel, aget]
  | cons e t ih =>
    obtain ⟨k0, v0⟩ := e
    simp only [adel, List.filter_cons] at *
    by_cases h : k0 = k <;> simp [h, aget, ih] <;> grind

theorem minKey_eq_none {α : Type} (l : List (Nat × α)) : minKey l = none ↔ l = [] := by
  cases l with
  | nil => simp [minKey]
  | cons e t =>
    obtain ⟨k, v⟩ := e
    simp only [minKey]
    split <;> simp

/-- `k` is a key of `l` and no key is smaller. -/
def IsMin {α : Type} (l : List (Nat × α)) (k : Nat) : Prop :=
  (aget l k).isSome ∧ ∀ k', (aget l k').isSome → k ≤ k'

theorem minKey_isMin {α : Type} (l : List (Nat × α)) (k : Nat) (h : minKey l = some k) : IsMin l k := by
  induction l generalizing k with
  | nil => simp [minKey] at h
  | cons e t ih =>
    obtain ⟨k0, v0⟩ := e
    simp only [minKey] at h
    split at h
    · rename_i hn
      have ht : t = [] := (minKey_eq_none t).mp hn
      subst ht
      simp at h; subst h
      constructor
      · simp [aget]
      · intro k' hk'; simp [aget] at hk'; grind
    · rename_i m hm
      have := ih m hm
      obtain ⟨h1, h2⟩ := this
      simp at h
      constructor
      · simp only [aget]; grind
      · intro k' hk'
        simp only [aget] at hk'
        grind

theorem isMin_unique {α : Type} (l : List (Nat × α)) (k k' : Nat) (h : IsMin l k) (h' : IsMin l k') : k = k' := by
  have := h.2 k' h'.1
  have := h'.2 k h.1
  omega

theorem minKey_of_isMin {α : Type} (l : List (Nat × α)) (k : Nat) (h : IsMin l k) : minKey l = some k := by
  cases hm : minKey l with
  | none =>
    have := (minKey_eq_none l).mp hm
    subst this
    simp [IsMin, aget] at h
  | some m =>
    have := minKey_isMin l m hm
    rw [isMin_unique l m k this h]

theorem minKey_iff {α : Type} (l : List (Nat × α)) (k : Nat) : minKey l = some k ↔ IsMin l k :=
  ⟨minKey_isMin l k, minKey_of_isMin l k⟩

theorem aget_none_of_nil {α : Type} (k : Nat) : aget ([] : List (Nat × α)) k = none := rfl

theorem exists_key_of_ne_nil {α : Type} (l : List (Nat × α)) (h : l ≠ []) : ∃ k, (aget l k).isSome := by
  cases l with
  | nil => contradiction
  | cons e t => exact ⟨e.1, by simp [aget]⟩

theorem aget_resolveChan (reqs : List (Nat × Req)) (ch : Nat) (ok : Bool) (n : Nat) :
    aget (resolveChan reqs ch ok) n =
      (aget reqs n).map (fun r => if r.st = .waiting ch then { r with st := .resolved ok } else r) := by
  induction reqs with
  | nil => simp [resolveChan, aget]
  | cons e t ih =>
    obtain ⟨k0, r0⟩ := e
    simp only [resolveChan, List.map_cons] at *
    by_cases h : r0.st = .waiting ch <;> by_cases h2 : k0 = n <;> simp [h, h2, aget, ih]

structure Inv (s : State) : Prop where
  fresh_map : ∀ n ch, aget s.map n = some ch → ch < s.nextChan
  fresh_hold : ∀ h hd, aget s.holds h = some hd → hd.chan < s.nextChan ∧ h < s.nextHold
  fresh_req : ∀ n r ch, aget s.reqs n = some r → r.st = .waiting ch → ch < s.nextChan
  map_inj : ∀ n n' ch, aget s.map n = some ch → aget s.map n' = some ch → n = n'
  hold_inj : ∀ h h' hd hd', aget s.holds h = some hd → aget s.holds h' = some hd' → hd.chan = hd'.chan → h = h'
  disj : ∀ n ch h hd, aget s.map n = some ch → aget s.holds h = some hd → hd.chan ≠ ch
  live : ∀ n r ch, aget s.reqs n = some r → r.st = .waiting ch →
    aget s.map n = some ch ∨ ∃ h hd, aget s.holds h = some hd ∧ hd.chan = ch ∧ hd.num = n
  owner : ∀ n ch, aget s.map n = some ch → ∃ r, aget s.reqs n = some r ∧ r.st = .waiting ch
  ver_inv : ∀ p a m seen, aget s.accs p = some a → a.st = .watch m seen →
    seen ≤ s.ver ∧ (seen = s.ver → minKey s.map = none ∨ minKey s.map = m)

theorem inv_init : Inv State.init := by
  constructor <;> simp [State.init, aget]

theorem inv_spawnReq (s s' : State) (o) (n : Nat) (hi : Inv s) (h : step? s (.spawnReq n) = some (s', o)) : Inv s' := by
  simp only [step?] at h
  split at h
  · cases h
  · rename_i hn
    cases h
    obtain ⟨h1, h2, h3, h4, h5, h6, h7, h8, h9⟩ := hi
    constructor <;> simp only [aget_aput] <;> grind

theorem inv_cancelReq (s s' : State) (o) (n : Nat) (hi : Inv s) (h : step? s (.cancelReq n) = some (s', o)) : Inv s' := by
  simp only [step?] at h
  split at h
  · cases h
  · rename_i r hn
    cases h
    obtain ⟨h1, h2, h3, h4, h5, h6, h7, h8, h9⟩ := hi
    constructor <;> simp only [aget_aput] <;> grind

theorem inv_startAcc (s s' : State) (o) (p : Nat) (hi : Inv s) (h : step? s (.startAcc p) = some (s', o)) : Inv s' := by
  simp only [step?] at h
  split at h
  · cases h
  · cases h
    obtain ⟨h1, h2, h3, h4, h5, h6, h7, h8, h9⟩ := hi
    constructor <;> simp only [aget_aput] <;> grind

theorem inv_cancelAcc (s s' : State) (o) (p : Nat) (hi : Inv s) (h : step? s (.cancelAcc p) = some (s', o)) : Inv s' := by
  simp only [step?] at h
  split at h
  · cases h
  · cases h
    obtain ⟨h1, h2, h3, h4, h5, h6, h7, h8, h9⟩ := hi
    constructor <;> simp only [aget_aput] <;> grind

theorem inv_announce (s s' : State) (o) (p f : Nat) (l : Option Nat) (hi : Inv s)
    (h : step? s (.announce p f l) = some (s', o)) : Inv s' := by
  simp only [step?] at h
  cases h
  obtain ⟨h1, h2, h3, h4, h5, h6, h7, h8, h9⟩ := hi
  constructor <;> grind

theorem aget_resolveChan_some (reqs : List (Nat × Req)) (ch : Nat) (ok : Bool) (n : Nat) (r : Req)
    (h : aget (resolveChan reqs ch ok) n = some r) :
    ∃ r0, aget reqs n = some r0 ∧ r.cancelled = r0.cancelled ∧
      ((r0.st = .waiting ch ∧ r.st = .resolved ok) ∨ (r0.st ≠ .waiting ch ∧ r = r0)) := by
  rw [aget_resolveChan] at h
  cases hr : aget reqs n with
  | none => simp [hr] at h
  | some r0 =>
    simp only [hr, Option.map_some, Option.some.injEq] at h
    refine ⟨r0, rfl, ?_⟩
    by_cases hc : r0.st = .waiting ch <;> simp [hc] at h <;> subst h <;> simp [hc]

theorem aget_resolveChan_none (reqs : List (Nat × Req)) (ch : Nat) (ok : Bool) (n : Nat) :
    aget (resolveChan reqs ch ok) n = none ↔ aget reqs n = none := by
  rw [aget_resolveChan]; simp

theorem inv_doResolve (s s' : State) (hid : Nat) (ok : Bool) (hi : Inv s) (h : doResolve s hid ok = some s') : Inv s' := by
  simp only [doResolve] at h
  split at h
  · cases h
  · rename_i hd hh
    cases h
    obtain ⟨h1, h2, h3, h4, h5, h6, h7, h8, h9⟩ := hi
    constructor <;> simp only [aget_adel]
    · grind
    · grind
    · intro n r ch hr hst
      obtain ⟨r0, hr0, _, hcase⟩ := aget_resolveChan_some _ _ _ _ _ hr
      grind
    · grind
    · grind
    · grind
    · intro n r ch hr hst
      obtain ⟨r0, hr0, _, hcase⟩ := aget_resolveChan_some _ _ _ _ _ hr
      have := h7 n r0 ch hr0
      grind
    · intro n ch hm
      obtain ⟨r, hr, hst⟩ := h8 n ch hm
      refine ⟨r, ?_, hst⟩
      rw [aget_resolveChan, hr]
      have : r.st ≠ .waiting hd.chan := by
        intro hc; rw [hst] at hc; injection hc with hc; exact h6 n ch hid hd hm hh hc.symm
      simp [this]
    · grind

theorem isSome_aget_aput {α : Type} (l : List (Nat × α)) (k k' : Nat) (v : α) :
    (aget (aput l k v) k').isSome = (decide (k' = k) || (aget l k').isSome) := by
  rw [aget_aput]; by_cases h : k' = k <;> simp [h]

/-- Inserting `k`: either `k` becomes the minimum, or the minimum is unchanged. -/
theorem minKey_aput {α : Type} (l : List (Nat × α)) (k : Nat) (v : α)
    (h : minKey (aput l k v) ≠ some k) : minKey (aput l k v) = minKey l := by
  cases hm : minKey (aput l k v) with
  | none =>
    have := (minKey_eq_none _).mp hm
    have h2 : aget (aput l k v) k = some v := by rw [aget_aput]; simp
    rw [this] at h2; simp [aget] at h2
  | some m =>
    have hmin := minKey_isMin _ _ hm
    have hne : m ≠ k := by intro e; subst e; exact h hm
    symm
    apply minKey_of_isMin
    constructor
    · have := hmin.1; rw [aget_aput] at this; simpa [hne] using this
    · intro k' hk'
      apply hmin.2
      rw [aget_aput]; by_cases e : k' = k <;> simp [e, hk']

/-- Removing a key that is not the minimum leaves the minimum unchanged. -/
theorem minKey_adel {α : Type} (l : List (Nat × α)) (k : Nat)
    (h : minKey l ≠ some k) : minKey (adel l k) = minKey l := by
  cases hm : minKey l with
  | none =>
    have := (minKey_eq_none _).mp hm
    subst this; rfl
  | some m =>
    have hmin := minKey_isMin _ _ hm
    have hne : m ≠ k := by intro e; subst e; exact h hm
    apply minKey_of_isMin
    constructor
    · rw [aget_adel]; simpa [hne] using hmin.1
    · intro k' hk'
      rw [aget_adel] at hk'
      by_cases e : k' = k
      · simp [e] at hk'
      · simp [e] at hk'; exact hmin.2 k' hk'

theorem bump_ge (v : Nat) (b : Bool) : v ≤ bump v b := by unfold bump; split <;> omega
theorem bump_false (v : Nat) : bump v false = v := rfl
theorem bump_true (v : Nat) : bump v true = v + 1 := rfl

theorem inv_doInsert (s : State) (n : Nat) (c : Bool) (hi : Inv s) (r : Req)
    (hr : aget s.reqs n = some r) (hst : ∀ ch, r.st ≠ .waiting ch) : Inv (doInsert s n c) := by
  obtain ⟨h1, h2, h3, h4, h5, h6, h7, h8, h9⟩ := hi
  have hmn : aget s.map n = none := by
    cases hm : aget s.map n with
    | none => rfl
    | some ch => obtain ⟨r', hr', hst'⟩ := h8 n ch hm; rw [hr] at hr'; cases hr'; exact absurd hst' (hst ch)
  simp only [doInsert, hmn]
  constructor <;> simp only [aget_aput]
  · grind
  · grind
  · grind
  · grind
  · grind
  · grind
  · grind
  · grind
  · intro p a m seen ha hst
    obtain ⟨hle, heq⟩ := h9 p a m seen ha hst
    constructor
    · have := bump_ge s.ver (decide (minKey (aput s.map n s.nextChan) = some n)); omega
    · intro hs
      by_cases hb : minKey (aput s.map n s.nextChan) = some n
      · simp [hb, bump_true] at hs; omega
      · simp [hb, bump_false] at hs
        rw [minKey_aput _ _ _ hb]; exact heq hs

theorem inv_doCancel (s : State) (n : Nat) (hi : Inv s) : Inv (doCancel s n) := by
  obtain ⟨h1, h2, h3, h4, h5, h6, h7, h8, h9⟩ := hi
  -- the requesters other than `n` are untouched by the drop of `n`'s sender
  have hreqs : ∀ n' r, n' ≠ n →
      aget (match aget s.map n with
        | some old => resolveChan s.reqs old false
        | none => s.reqs) n' = some r → aget s.reqs n' = some r := by
    intro n' r hne hr
    cases hm : aget s.map n with
    | none => simpa [hm] using hr
    | some old =>
      simp only [hm] at hr
      obtain ⟨r0, hr0, _, hcase⟩ := aget_resolveChan_some _ _ _ _ _ hr
      rcases hcase with ⟨hw, _⟩ | ⟨_, he⟩
      · exfalso
        rcases h7 n' r0 old hr0 hw with hm' | ⟨h, hd, hh, hc, _⟩
        · exact hne (h4 n' n old hm' hm)
        · exact h6 n old h hd hm hh hc
      · rw [he]; exact hr0
  have hreqs' : ∀ n' r, n' ≠ n → aget s.reqs n' = some r →
      aget (match aget s.map n with
        | some old => resolveChan s.reqs old false
        | none => s.reqs) n' = some r := by
    intro n' r hne hr
    cases hm : aget s.map n with
    | none => simpa [hm] using hr
    | some old =>
      simp only [hm]
      rw [aget_resolveChan, hr]
      have : r.st ≠ .waiting old := by
        intro hw
        rcases h7 n' r old hr hw with hm' | ⟨h, hd, hh, hc, _⟩
        · exact hne (h4 n' n old hm' hm)
        · exact h6 n old h hd hm hh hc
      simp [this]
  simp only [doCancel]
  constructor <;> simp only [aget_adel]
  · grind
  · grind
  · intro n' r ch hr hst
    by_cases hne : n' = n
    · simp [hne] at hr
    · simp only [hne, if_false] at hr
      exact h3 n' r ch (hreqs n' r hne hr) hst
  · grind
  · grind
  · grind
  · intro n' r ch hr hst
    by_cases hne : n' = n
    · simp [hne] at hr
    · simp only [hne, if_false] at hr ⊢
      exact h7 n' r ch (hreqs n' r hne hr) hst
  · intro n' ch hm
    by_cases hne : n' = n
    · simp [hne] at hm
    · simp only [hne, if_false] at hm ⊢
      obtain ⟨r, hr, hst⟩ := h8 n' ch hm
      exact ⟨r, hreqs' n' r hne hr, hst⟩
  · intro p a m seen ha hst
    obtain ⟨hle, heq⟩ := h9 p a m seen ha hst
    constructor
    · have := bump_ge s.ver (decide (minKey s.map = some n)); omega
    · intro hs
      by_cases hb : minKey s.map = some n
      · simp [hb, bump_true] at hs; omega
      · simp [hb, bump_false] at hs
        rw [minKey_adel _ _ hb]; exact heq hs

theorem adel_eq_nil_minKey {α : Type} (l : List (Nat × α)) (h : l.isEmpty = true) : minKey l = none := by
  cases l with
  | nil => rfl
  | cons _ _ => simp at h

theorem inv_step (s s' : State) (e : Event) (o : Option Vis) (hi : Inv s) (h : step? s e = some (s', o)) : Inv s' := by
  cases e with
  | spawnReq n => exact inv_spawnReq s s' o n hi h
  | cancelReq n => exact inv_cancelReq s s' o n hi h
  | startAcc p => exact inv_startAcc s s' o p hi h
  | cancelAcc p => exact inv_cancelAcc s s' o p hi h
  | announce p f l => exact inv_announce s s' o p f l hi h
  | succeed hid =>
    simp only [step?] at h
    cases hr : doResolve s hid true with
    | none => simp [hr] at h
    | some s1 => simp [hr] at h; obtain ⟨rfl, _⟩ := h; exact inv_doResolve s s1 hid true hi hr
  | fail hid =>
    simp only [step?] at h
    cases hr : doResolve s hid false with
    | none => simp [hr] at h
    | some s1 => simp [hr] at h; obtain ⟨rfl, _⟩ := h; exact inv_doResolve s s1 hid false hi hr
  | reqInsert n =>
    simp only [step?] at h
    split at h
    · rename_i c hr; cases h; exact inv_doInsert s n c hi _ hr (by simp)
    · rename_i c hr; cases h; exact inv_doInsert s n c hi _ hr (by simp)
    · cases h
  | reqDone n =>
    simp only [step?] at h
    split at h
    · cases h
      obtain ⟨h1, h2, h3, h4, h5, h6, h7, h8, h9⟩ := hi
      constructor <;> simp only [aget_adel] <;> grind
    · cases h
  | reqCancel n =>
    simp only [step?] at h
    split at h
    · cases h; exact inv_doCancel s n hi
    · cases h; exact inv_doCancel s n hi
    · cases h
  | accSample p =>
    simp only [step?] at h
    split at h
    · cases h
      obtain ⟨h1, h2, h3, h4, h5, h6, h7, h8, h9⟩ := hi
      constructor <;> simp only [aget_aput] <;> grind
    · cases h
  | accChanged p =>
    simp only [step?] at h
    split at h
    · split at h
      · cases h
      · cases h
        obtain ⟨h1, h2, h3, h4, h5, h6, h7, h8, h9⟩ := hi
        constructor <;> simp only [aget_aput] <;> grind
    · cases h
  | accAvail p =>
    simp only [step?] at h
    split at h
    · split at h
      · cases h
        obtain ⟨h1, h2, h3, h4, h5, h6, h7, h8, h9⟩ := hi
        constructor <;> simp only [aget_aput] <;> grind
      · cases h
    · cases h
  | accRemove p =>
    simp only [step?] at h
    split at h
    · rename_i n c ha
      split at h
      · rename_i ch hm
        cases h
        obtain ⟨h1, h2, h3, h4, h5, h6, h7, h8, h9⟩ := hi
        constructor <;> simp only [aget_aput, aget_adel]
        · grind
        · grind
        · grind
        · grind
        · grind
        · grind
        · intro n' r c' hr hst
          rcases h7 n' r c' hr hst with hm' | ⟨h, hd, hh, hc, hn⟩
          · by_cases hne : n' = n
            · subst hne
              rw [hm] at hm'; cases hm'
              exact Or.inr ⟨s.nextHold, ⟨p, n', ch⟩, by simp, rfl, rfl⟩
            · exact Or.inl (by simp [hne, hm'])
          · have hlt := (h2 h hd hh).2
            have hne : h ≠ s.nextHold := by omega
            exact Or.inr ⟨h, hd, by simp [hne, hh], hc, hn⟩
        · grind
        · intro p' a m seen ha' hst
          by_cases hp : p' = p
          · simp [hp] at ha'
          · simp only [hp, if_false] at ha'
            obtain ⟨hle, heq⟩ := h9 p' a m seen ha' hst
            constructor
            · have := bump_ge s.ver (!(adel s.map n).isEmpty); omega
            · intro hs
              by_cases hb : (adel s.map n).isEmpty = true
              · left; exact adel_eq_nil_minKey _ hb
              · simp [hb, bump_true] at hs; omega
      · cases h
        obtain ⟨h1, h2, h3, h4, h5, h6, h7, h8, h9⟩ := hi
        constructor <;> simp only [aget_aput] <;> grind
    · cases h
  | accAbort p =>
    simp only [step?] at h
    split at h
    · cases h
      obtain ⟨h1, h2, h3, h4, h5, h6, h7, h8, h9⟩ := hi
      constructor <;> simp only [aget_adel] <;> grind
    · cases h
      obtain ⟨h1, h2, h3, h4, h5, h6, h7, h8, h9⟩ := hi
      constructor <;> simp only [aget_adel] <;> grind
    · cases h

/-! ## Runs with their history of visited states (most recent first) -/

inductive RunTo : List State → State → Prop
  | init : RunTo [] State.init
  | step {h : List State} {s s' : State} {e : Event} {o : Option Vis} :
      RunTo h s → step? s e = some (s', o) → RunTo (s :: h) s'

theorem RunTo.inv {h : List State} {s : State} (r : RunTo h s) : Inv s := by
  induction r with
  | init => exact inv_init
  | step _ hs ih => exact inv_step _ _ _ _ ih hs

/-- `p` stood at the top of its loop in `s1` and the lowest requested block was `n`: the state in which
`borrow_and_update().first_key_value()` returned `n`. -/
def SampleWit (p n : Nat) (s1 : State) : Prop :=
  minKey s1.map = some n ∧ ∃ c, aget s1.accs p = some ⟨.sample, c⟩

/-- `p` was waiting for `n` in `s2` and its announced range contained `n`: the state in which `wait_for` fired. -/
def AvailWit (p n : Nat) (s2 : State) : Prop :=
  (s2.availOf p).contains n = true ∧ ∃ seen c, aget s2.accs p = some ⟨.watch (some n) seen, c⟩

/-- How the state of one `accept_block` future can change in one step. -/
theorem acc_step_cases (s s' : State) (e : Event) (o : Option Vis) (p : Nat) (a' : Acc)
    (h : step? s e = some (s', o)) (ha : aget s'.accs p = some a') :
    (∃ a, aget s.accs p = some a ∧ a.st = a'.st)
    ∨ a'.st = .sample
    ∨ ((∃ c, aget s.accs p = some ⟨.sample, c⟩) ∧ a'.st = .watch (minKey s.map) s.ver)
    ∨ (∃ n seen c, aget s.accs p = some ⟨.watch (some n) seen, c⟩ ∧ (s.availOf p).contains n = true ∧
        a'.st = .got n) := by
  cases e with
  | spawnReq n => simp only [step?] at h; split at h <;> cases h; exact Or.inl ⟨a', ha, rfl⟩
  | cancelReq n => simp only [step?] at h; split at h <;> cases h; exact Or.inl ⟨a', ha, rfl⟩
  | startAcc q =>
    simp only [step?] at h; split at h <;> cases h
    simp only [aget_aput] at ha
    by_cases hq : p = q
    · simp [hq] at ha; subst ha; exact Or.inr (Or.inl rfl)
    · simp [hq] at ha; exact Or.inl ⟨a', ha, rfl⟩
  | cancelAcc q =>
    simp only [step?] at h; split at h <;> cases h
    rename_i a0 ha0
    simp only [aget_aput] at ha
    by_cases hq : p = q
    · simp [hq] at ha; subst ha; subst hq; exact Or.inl ⟨a0, ha0, rfl⟩
    · simp [hq] at ha; exact Or.inl ⟨a', ha, rfl⟩
  | announce q f l => simp only [step?] at h; cases h; exact Or.inl ⟨a', ha, rfl⟩
  | succeed hid =>
    simp only [step?, doResolve] at h
    split at h <;> simp at h
    obtain ⟨rfl, _⟩ := h; exact Or.inl ⟨a', ha, rfl⟩
  | fail hid =>
    simp only [step?, doResolve] at h
    split at h <;> simp at h
    obtain ⟨rfl, _⟩ := h; exact Or.inl ⟨a', ha, rfl⟩
  | reqInsert n =>
    simp only [step?] at h
    split at h <;> cases h <;> exact Or.inl ⟨a', by simpa [doInsert] using ha, rfl⟩
  | reqDone n =>
    simp only [step?] at h
    split at h <;> cases h; exact Or.inl ⟨a', ha, rfl⟩
  | reqCancel n =>
    simp only [step?] at h
    split at h <;> cases h <;> exact Or.inl ⟨a', by simpa [doCancel] using ha, rfl⟩
  | accSample q =>
    simp only [step?] at h
    split at h <;> cases h
    rename_i ha0
    simp only [aget_aput] at ha
    by_cases hq : p = q
    · simp [hq] at ha; subst ha; subst hq; exact Or.inr (Or.inr (Or.inl ⟨⟨false, ha0⟩, rfl⟩))
    · simp [hq] at ha; exact Or.inl ⟨a', ha, rfl⟩
  | accChanged q =>
    simp only [step?] at h
    split at h
    · split at h <;> cases h
      simp only [aget_aput] at ha
      by_cases hq : p = q
      · simp [hq] at ha; subst ha; exact Or.inr (Or.inl rfl)
      · simp [hq] at ha; exact Or.inl ⟨a', ha, rfl⟩
    · cases h
  | accAvail q =>
    simp only [step?] at h
    split at h
    · rename_i n seen c ha0
      split at h <;> cases h
      rename_i hc
      simp only [aget_aput] at ha
      by_cases hq : p = q
      · simp [hq] at ha; subst ha; subst hq
        exact Or.inr (Or.inr (Or.inr ⟨n, seen, c, ha0, hc, rfl⟩))
      · simp [hq] at ha; exact Or.inl ⟨a', ha, rfl⟩
    · cases h
  | accRemove q =>
    simp only [step?] at h
    split at h
    · split at h <;> cases h
      · simp only [aget_adel] at ha
        by_cases hq : p = q
        · simp [hq] at ha
        · simp [hq] at ha; exact Or.inl ⟨a', ha, rfl⟩
      · simp only [aget_aput] at ha
        by_cases hq : p = q
        · simp [hq] at ha; subst ha; exact Or.inr (Or.inl rfl)
        · simp [hq] at ha; exact Or.inl ⟨a', ha, rfl⟩
    · cases h
  | accAbort q =>
    simp only [step?] at h
    split at h <;> cases h <;>
    · simp only [aget_adel] at ha
      by_cases hq : p = q
      · simp [hq] at ha
      · simp [hq] at ha; exact Or.inl ⟨a', ha, rfl⟩

/-- History invariant of one acceptor: a watched block was the sampled minimum; a block about to be removed was the
sampled minimum and, later, found in the peer's announced range. -/
def HistInv (h : List State) (s : State) : Prop :=
  ∀ p a, aget s.accs p = some a →
    (∀ n seen, a.st = .watch (some n) seen → ∃ s1 ∈ h, SampleWit p n s1) ∧
    (∀ n, a.st = .got n → ∃ post s2 pre, h = post ++ s2 :: pre ∧ AvailWit p n s2 ∧ ∃ s1 ∈ pre, SampleWit p n s1)

theorem RunTo.hist {h : List State} {s : State} (r : RunTo h s) : HistInv h s := by
  induction r with
  | init => intro p a ha; simp [State.init, aget] at ha
  | @step h s s' e o _ hs ih =>
    intro p a' ha'
    rcases acc_step_cases s s' e o p a' hs ha' with ⟨a, ha, hst⟩ | hsm | ⟨⟨c, ha⟩, hst⟩ | ⟨n, seen, c, ha, hc, hst⟩
    · obtain ⟨i1, i2⟩ := ih p a ha
      constructor
      · intro n seen hw
        obtain ⟨s1, hm, hw1⟩ := i1 n seen (hst ▸ hw)
        exact ⟨s1, List.mem_cons_of_mem _ hm, hw1⟩
      · intro n hg
        obtain ⟨post, s2, pre, hh, hw2, hw1⟩ := i2 n (hst ▸ hg)
        exact ⟨s :: post, s2, pre, by simp [hh], hw2, hw1⟩
    · constructor <;> intro n <;> simp [hsm]
    · constructor
      · intro n seen hw
        rw [hst] at hw
        injection hw with hm _
        exact ⟨s, List.mem_cons_self, hm, c, ha⟩
      · intro n hg; rw [hst] at hg; cases hg
    · constructor
      · intro n' seen' hw; rw [hst] at hw; cases hw
      · intro n' hg
        rw [hst] at hg; injection hg with hg; subst hg
        obtain ⟨i1, _⟩ := ih p _ ha
        obtain ⟨s1, hm, hw1⟩ := i1 n seen rfl
        exact ⟨[], s, h, rfl, ⟨hc, seen, c, ha⟩, s1, hm, hw1⟩

/-! ## `quiescent` is "no internal event is enabled" -/

theorem mem_akeys_of_aget {α : Type} (l : List (Nat × α)) (k : Nat) (v : α) (h : aget l k = some v) :
    k ∈ akeys l := by
  induction l with
  | nil => simp [aget] at h
  | cons e t ih =>
    obtain ⟨k0, v0⟩ := e
    simp only [aget] at h
    by_cases hk : k0 = k
    · simp [akeys, hk]
    · simp only [hk, if_false] at h
      simp only [akeys, List.map_cons, List.mem_cons]
      exact Or.inr (ih h)

/-! ## Runs from event lists -/

theorem runTo_exec {h : List State} {s0 s : State} (r : RunTo h s0) (es : List Event)
    (he : exec? s0 es = some s) : ∃ h', RunTo h' s := by
  induction es generalizing h s0 with
  | nil => simp [exec?] at he; subst he; exact ⟨h, r⟩
  | cons e es ih =>
    simp only [exec?] at he
    cases hs : step? s0 e with
    | none => simp [hs] at he
    | some x =>
      obtain ⟨s1, o⟩ := x
      simp only [hs] at he
      exact ih (RunTo.step r hs) he

/-! ## The block fetcher -/

def spawnNum : Event → Option Nat
  | .spawnReq n => some n
  | _ => none

/-- Runs of the fetcher started with `k` permits at block `start`, with the queue events emitted so far. -/
inductive FRunTo (k start persisted : Nat) : Fetcher → List Event → Prop
  | init : FRunTo k start persisted (Fetcher.init k start persisted) []
  | step {f f' : Fetcher} {es out : List Event} {e : FEvent} :
      FRunTo k start persisted f es → f.step? e = some (f', out) → FRunTo k start persisted f' (es ++ out)

structure FInv (start : Nat) (f : Fetcher) (es : List Event) : Prop where
  spawned : ∀ n, .spawnReq n ∈ es → start ≤ n ∧ n < f.next
  incr : (es.filterMap spawnNum).Pairwise (· < ·)
  cancelled : ∀ n, .cancelReq n ∈ es → n < f.queuedNext ∧ .spawnReq n ∈ es ∧ aget f.tasks n ≠ some .requesting
  tasks : ∀ n t, aget f.tasks n = some t → start ≤ n ∧ n < f.next ∧ .spawnReq n ∈ es ∧
    (t = .requesting → .cancelReq n ∉ es) ∧ (t = .persisting → n < f.queuedNext)
  covered : ∀ n, start ≤ n → n < f.next → (aget f.tasks n).isSome = true ∨ n < f.persistedNext
  only : ∀ e ∈ es, (∃ n, e = .spawnReq n) ∨ (∃ n, e = .cancelReq n)
  start_le : start ≤ f.next

theorem finv_init (k start persisted : Nat) : FInv start (Fetcher.init k start persisted) [] := by
  constructor <;> simp [Fetcher.init, aget] <;> omega

theorem finv_step (start : Nat) (f f' : Fetcher) (es out : List Event) (e : FEvent)
    (hi : FInv start f es) (hs : f.step? e = some (f', out)) : FInv start f' (es ++ out) := by
  obtain ⟨h1, h2, h3, h4, h5, h6, h7⟩ := hi
  cases e with
  | spawn =>
    simp only [Fetcher.step?] at hs
    split at hs
    · cases hs
    · cases hs
      constructor
      · intro n hn; simp at hn; rcases hn with hn | hn
        · have := h1 n hn; simp; omega
        · subst hn; simp; omega
      · simp only [List.filterMap_append, List.filterMap_cons, spawnNum, List.filterMap_nil]
        rw [List.pairwise_append]
        refine ⟨h2, by simp, ?_⟩
        intro a ha b hb
        simp at hb; subst hb
        simp only [List.mem_filterMap] at ha
        obtain ⟨ev, hev, hsp⟩ := ha
        cases ev <;> simp [spawnNum] at hsp
        subst hsp; exact (h1 _ hev).2
      · intro n hn; simp at hn
        obtain ⟨a, b, c⟩ := h3 n hn
        refine ⟨a, by simp [b], ?_⟩
        simp only [aget_aput]
        have := (h1 n b).2
        split
        · omega
        · exact c
      · intro n t ht
        simp only [aget_aput] at ht
        split at ht
        · rename_i hn; subst hn; cases ht
          refine ⟨h7, by simp, by simp, ?_, by simp⟩
          intro _ hc; simp at hc
          have := (h1 _ (h3 _ hc).2.1).2; omega
        · obtain ⟨a, b, c, d, e'⟩ := h4 n t ht
          refine ⟨a, by simp; omega, by simp [c], ?_, e'⟩
          intro ht' hc; simp at hc; exact d ht' hc
      · intro n hn hlt
        simp only [aget_aput]
        simp at hlt
        split
        · simp
        · exact h5 n hn (by omega)
      · intro ev hev; simp at hev; rcases hev with hev | hev
        · exact h6 ev hev
        · exact Or.inl ⟨_, hev⟩
      · simp; omega
  | queuedSeen n =>
    simp only [Fetcher.step?] at hs
    split at hs
    · rename_i ht
      split at hs
      · rename_i hq
        cases hs
        obtain ⟨a, b, c, d, _⟩ := h4 n _ ht
        constructor
        · intro m hm; simp at hm; exact h1 m hm
        · simpa [List.filterMap_append, List.filterMap_cons, spawnNum] using h2
        · intro m hm; simp at hm
          simp only [aget_aput]
          rcases hm with hm | hm
          · obtain ⟨x, y, z⟩ := h3 m hm
            refine ⟨x, by simp [y], ?_⟩
            split <;> simp [z]
          · subst hm; exact ⟨hq, by simp [c], by simp⟩
        · intro m t hm
          simp only [aget_aput] at hm
          split at hm
          · rename_i hmn; subst hmn; cases hm
            exact ⟨a, b, by simp [c], by simp, fun _ => hq⟩
          · rename_i hmn
            obtain ⟨a', b', c', d', e'⟩ := h4 m t hm
            refine ⟨a', b', by simp [c'], ?_, e'⟩
            intro ht' hc; simp at hc
            rcases hc with hc | hc
            · exact d' ht' hc
            · exact hmn hc
        · intro m hm hlt; simp only [aget_aput]; split
          · simp
          · exact h5 m hm hlt
        · intro ev hev; simp at hev; rcases hev with hev | hev
          · exact h6 ev hev
          · exact Or.inr ⟨_, hev⟩
        · exact h7
      · cases hs
    · cases hs
  | persistedSeen n =>
    simp only [Fetcher.step?] at hs
    split at hs
    · rename_i ht
      split at hs
      · rename_i hq
        cases hs
        constructor
        · simpa using h1
        · simpa using h2
        · intro m hm; simp at hm
          obtain ⟨x, y, z⟩ := h3 m hm
          refine ⟨x, by simp [y], ?_⟩
          simp only [aget_adel]; split <;> simp [z]
        · intro m t hm
          simp only [aget_adel] at hm
          split at hm
          · cases hm
          · simpa using h4 m t hm
        · intro m hm hlt; simp only [aget_adel]; split
          · rename_i hmn; subst hmn; exact Or.inr hq
          · exact h5 m hm hlt
        · simpa using h6
        · exact h7
      · cases hs
    · cases hs
  | setQueued q =>
    simp only [Fetcher.step?] at hs
    split at hs
    · rename_i hq
      cases hs
      constructor
      · simpa using h1
      · simpa using h2
      · intro m hm; simp at hm; obtain ⟨x, y, z⟩ := h3 m hm; exact ⟨by simp; omega, by simp [y], z⟩
      · intro m t hm; obtain ⟨a, b, c, d, e'⟩ := h4 m t hm
        exact ⟨a, b, by simp [c], by simpa using d, fun ht => by have := e' ht; simp; omega⟩
      · exact h5
      · simpa using h6
      · exact h7
    · cases hs
  | setPersisted q =>
    simp only [Fetcher.step?] at hs
    split at hs
    · rename_i hq
      cases hs
      constructor
      · simpa using h1
      · simpa using h2
      · simpa using h3
      · simpa using h4
      · intro m hm hlt; rcases h5 m hm hlt with h | h
        · exact Or.inl h
        · right; simp; omega
      · simpa using h6
      · exact h7
    · cases hs

theorem FRunTo.inv {k start persisted : Nat} {f : Fetcher} {es : List Event}
    (r : FRunTo k start persisted f es) : FInv start f es := by
  induction r with
  | init => exact finv_init k start persisted
  | step _ hs ih => exact finv_step _ _ _ _ _ _ ih hs


end EraVerif.Proofs.Fetch
