import EraVerif.Model.Consensus

/-!
Helper lemmas and specification vocabulary for the certificate theorems of C04 (core Lean only).

Vocabulary used by `Props/C04.lean`:

* `Disj a b` — no index is set in both bitmaps;
* `unionFrom sum gs` / `tqcUnion c q` — bitwise or of all groups' bitmaps (what `TimeoutQC::verify` accumulates in `sum`);
* `tqcGroupWeight c q` — the sum of the groups' weights (what `TimeoutQC::weight` returns);
* `CqcAssembled` / `TqcAssembled` — certificates built by `new` followed by successful `add`s.
-/

namespace EraVerif.Proofs.Certs
open EraVerif.Model

/-! ## `signerIdxs` -/

theorem idxsFrom_succ (k : Nat) (s : List Bool) : idxsFrom (k + 1) s = (idxsFrom k s).map (· + 1) := by
  induction s generalizing k with
  | nil => rfl
  | cons b bs ih =>
    simp only [idxsFrom]
    cases b <;> simp [ih]

theorem signerIdxs_nil : signerIdxs [] = [] := rfl

theorem signerIdxs_cons (b : Bool) (bs : List Bool) :
    signerIdxs (b :: bs) = (if b then [0] else []) ++ (signerIdxs bs).map (· + 1) := by
  simp only [signerIdxs, idxsFrom, idxsFrom_succ]
  cases b <;> simp

theorem mem_signerIdxs_iff (s : List Bool) (i : Nat) : i ∈ signerIdxs s ↔ s[i]? = some true := by
  induction s generalizing i with
  | nil => simp [signerIdxs_nil]
  | cons b bs ih =>
    rw [signerIdxs_cons]
    cases b <;> cases i <;> simp [ih]

theorem signerIdxs_sorted (s : List Bool) : (signerIdxs s).Pairwise (· < ·) := by
  induction s with
  | nil => simp [signerIdxs_nil]
  | cons b bs ih =>
    rw [signerIdxs_cons]
    cases b <;> simp [List.pairwise_map, ih]

theorem signerIdxs_nodup (s : List Bool) : (signerIdxs s).Nodup :=
  (signerIdxs_sorted s).imp (fun h => Nat.ne_of_lt h)

theorem signerIdxs_lt (s : List Bool) (i : Nat) (h : i ∈ signerIdxs s) : i < s.length := by
  rw [mem_signerIdxs_iff] at h
  exact (List.getElem?_eq_some_iff.mp h).1

theorem weightOf_nil_right (ws : List Nat) : weightOf ws [] = 0 := by
  cases ws <;> rfl

theorem weightOf_nil_left (s : List Bool) : weightOf [] s = 0 := by
  cases s <;> rfl

theorem weightOf_cons (w : Nat) (ws : List Nat) (b : Bool) (bs : List Bool) :
    weightOf (w :: ws) (b :: bs) = (if b then w else 0) + weightOf ws bs := rfl

theorem sum_map_zero {α : Type} (l : List α) : (l.map (fun _ => 0)).sum = 0 := by
  induction l with
  | nil => rfl
  | cons a l ih => simp [ih]

/-- the weight counts each signer exactly once (no length hypothesis needed: out-of-range weights count `0`) -/
theorem weight_eq_sum' (ws : List Nat) (s : List Bool) :
    weightOf ws s = ((signerIdxs s).map (fun i => ws.getD i 0)).sum := by
  induction s generalizing ws with
  | nil => simp [signerIdxs_nil, weightOf_nil_right]
  | cons b bs ih =>
    cases ws with
    | nil => simp [weightOf_nil_left, sum_map_zero]
    | cons w ws =>
      rw [signerIdxs_cons, weightOf_cons, ih ws]
      cases b <;> simp [List.map_map, Function.comp_def]

theorem weightOf_replicate_false (ws : List Nat) (n : Nat) : weightOf ws (List.replicate n false) = 0 := by
  induction ws generalizing n with
  | nil => exact weightOf_nil_left _
  | cons w ws ih =>
    cases n with
    | zero => rfl
    | succ n => simp [List.replicate_succ, weightOf_cons, ih]

theorem exists_bit_of_weight_pos (ws : List Nat) (s : List Bool) (h : 0 < weightOf ws s) :
    ∃ i : Nat, s[i]? = some true := by
  induction s generalizing ws with
  | nil => simp [weightOf_nil_right] at h
  | cons b bs ih =>
    cases ws with
    | nil => simp [weightOf_nil_left] at h
    | cons w ws =>
      cases b with
      | true => exact ⟨0, rfl⟩
      | false =>
        simp only [weightOf_cons, Bool.false_eq_true, if_false, Nat.zero_add] at h
        obtain ⟨i, hi⟩ := ih ws h
        exact ⟨i + 1, by simpa using hi⟩

theorem signerIdxs_replicate_false (n : Nat) : signerIdxs (List.replicate n false) = [] := by
  induction n with
  | zero => rfl
  | succ n ih => simp [List.replicate_succ, signerIdxs_cons, ih]

theorem replicate_false_get (n i : Nat) : ¬ (List.replicate n false)[i]? = some true := by
  simp [List.getElem?_replicate]

/-- setting a fresh bit adds exactly that index -/
theorem signerIdxs_set_perm (s : List Bool) (i : Nat) (hi : i < s.length) (hb : ¬ s[i]? = some true) :
    (signerIdxs (s.set i true)).Perm (i :: signerIdxs s) := by
  induction s generalizing i with
  | nil => simp at hi
  | cons b bs ih =>
    cases i with
    | zero =>
      have : b = false := by cases b <;> simp_all
      subst this
      simp [signerIdxs_cons]
    | succ j =>
      have hj : j < bs.length := by simpa using hi
      have hb' : ¬ bs[j]? = some true := by simpa using hb
      have h := (ih j hj hb').map (· + 1)
      simp only [List.set_cons_succ, signerIdxs_cons, List.map_cons] at h ⊢
      cases b with
      | false => simpa using h
      | true =>
        simp only [if_true, List.singleton_append]
        exact ((List.Perm.cons 0 h).trans (List.Perm.swap _ _ _))

theorem getD_false_iff (s : List Bool) (i : Nat) : s.getD i false = false ↔ ¬ s[i]? = some true := by
  rw [List.getD_eq_getElem?_getD]
  cases h : s[i]? with
  | none => simp
  | some b => cases b <;> simp

theorem getD_true_iff (s : List Bool) (i : Nat) : s.getD i false = true ↔ s[i]? = some true := by
  rw [List.getD_eq_getElem?_getD]
  cases h : s[i]? with
  | none => simp
  | some b => cases b <;> simp

theorem set_get (s : List Bool) (i j : Nat) (hi : i < s.length) :
    (s.set i true)[j]? = some true ↔ j = i ∨ s[j]? = some true := by
  rw [List.getElem?_set]
  by_cases h : i = j
  · subst h; simp [hi]
  · simp [h]; omega

/-! ## Bitmaps: emptiness, disjointness, union -/

/-- no index is set in both bitmaps -/
def Disj (a b : List Bool) : Prop := ∀ i : Nat, ¬ (a[i]? = some true ∧ b[i]? = some true)

theorem signersEmpty_iff (s : List Bool) : signersEmpty s = true ↔ ∀ i : Nat, ¬ s[i]? = some true := by
  simp only [signersEmpty, List.all_eq_true, beq_iff_eq]
  constructor
  · intro h i hi
    have := h true (List.mem_iff_getElem?.mpr ⟨i, hi⟩)
    contradiction
  · intro h x hx
    cases x with
    | false => rfl
    | true =>
      obtain ⟨i, hi⟩ := List.mem_iff_getElem?.mp hx
      exact absurd hi (h i)

theorem signersEmpty_false_iff (s : List Bool) : signersEmpty s = false ↔ ∃ i : Nat, s[i]? = some true := by
  rw [← Bool.not_eq_true, signersEmpty_iff]
  constructor
  · intro h
    exact Classical.byContradiction (fun hn => h (fun i hi => hn ⟨i, hi⟩))
  · intro ⟨i, hi⟩ h
    exact h i hi

theorem bitAnd_get (a b : List Bool) (i : Nat) :
    (bitAnd a b)[i]? = some true ↔ a[i]? = some true ∧ b[i]? = some true := by
  induction a generalizing b i with
  | nil => simp [bitAnd]
  | cons x a ih =>
    cases b with
    | nil => simp [bitAnd]
    | cons y b =>
      cases i with
      | zero => simp [bitAnd]
      | succ j => simpa [bitAnd] using ih b j

theorem bitOr_get (a b : List Bool) (h : a.length = b.length) (i : Nat) :
    (bitOr a b)[i]? = some true ↔ a[i]? = some true ∨ b[i]? = some true := by
  induction a generalizing b i with
  | nil =>
    cases b with
    | nil => simp [bitOr]
    | cons y b => simp at h
  | cons x a ih =>
    cases b with
    | nil => simp at h
    | cons y b =>
      cases i with
      | zero => simp [bitOr]
      | succ j =>
        have h' : a.length = b.length := by simpa using h
        simpa [bitOr] using ih b h' j

theorem bitOr_length (a b : List Bool) (h : a.length = b.length) : (bitOr a b).length = a.length := by
  simp [bitOr, List.length_zipWith, h]

theorem signersEmpty_bitAnd_iff (a b : List Bool) : signersEmpty (bitAnd a b) = true ↔ Disj a b := by
  rw [signersEmpty_iff]
  simp only [bitAnd_get, Disj]

theorem disj_cons (x y : Bool) (a b : List Bool) :
    Disj (x :: a) (y :: b) ↔ ¬ (x = true ∧ y = true) ∧ Disj a b := by
  unfold Disj
  constructor
  · intro h
    refine ⟨by simpa using h 0, fun i => by simpa using h (i + 1)⟩
  · intro ⟨h0, h⟩ i
    cases i with
    | zero => simpa using h0
    | succ j => simpa using h j

theorem disj_bitOr (a b x : List Bool) (h : a.length = b.length) :
    Disj (bitOr a b) x ↔ Disj a x ∧ Disj b x := by
  simp only [Disj, bitOr_get a b h]
  constructor
  · intro H
    exact ⟨fun i hi => H i ⟨Or.inl hi.1, hi.2⟩, fun i hi => H i ⟨Or.inr hi.1, hi.2⟩⟩
  · intro ⟨H1, H2⟩ i hi
    rcases hi.1 with h1 | h1
    · exact H1 i ⟨h1, hi.2⟩
    · exact H2 i ⟨h1, hi.2⟩

theorem disj_replicate_false (n : Nat) (x : List Bool) : Disj (List.replicate n false) x :=
  fun i hi => replicate_false_get n i hi.1

theorem weightOf_bitOr (ws : List Nat) (a b : List Bool) (h : a.length = b.length) (hd : Disj a b) :
    weightOf ws (bitOr a b) = weightOf ws a + weightOf ws b := by
  induction ws generalizing a b with
  | nil => simp [weightOf_nil_left]
  | cons w ws ih =>
    cases a with
    | nil =>
      cases b with
      | nil => rfl
      | cons y b => simp at h
    | cons x a =>
      cases b with
      | nil => simp at h
      | cons y b =>
        have h' : a.length = b.length := by simpa using h
        obtain ⟨h0, hd'⟩ := (disj_cons x y a b).mp hd
        have := ih a b h' hd'
        simp only [bitOr, List.zipWith_cons_cons, weightOf_cons] at this ⊢
        rw [this]
        cases x <;> cases y <;> simp_all <;> omega

/-! ## `verify` of votes, commit certificates -/

theorem view_verify_iff (c : Committee) (v : View) :
    v.verify c = true ↔ v.genesis = c.genesis ∧ v.epoch = c.epoch := by
  simp [View.verify]

theorem aggVerify_iff {α : Type} [DecidableEq α] (sig expected : AggSig α) :
    aggVerify sig expected = true ↔ sig.Perm expected := by
  simp [aggVerify, List.isPerm_iff]

theorem commitQC_verify_iff (c : Committee) (q : CommitQC) :
    q.verify c = true ↔
      (q.message.view.genesis = c.genesis ∧ q.message.view.epoch = c.epoch ∧ q.signers.length = c.n ∧
        c.quorum ≤ weightOf c.weights q.signers ∧
        List.Perm q.sig ((signerIdxs q.signers).map (fun i => (i, q.message)))) := by
  simp only [CommitQC.verify, Bool.and_eq_true, Vote.verify, view_verify_iff, beq_iff_eq, decide_eq_true_eq,
    aggVerify_iff, CommitQC.expected, and_assoc]

/-! ## The loop of `TimeoutQC::verify` -/

/-- bitwise or of the groups' bitmaps onto `sum` (the value threaded through the loop of `TimeoutQC::verify`) -/
def unionFrom (sum : List Bool) (gs : List (TVote × List Bool)) : List Bool :=
  gs.foldl (fun acc e => bitOr acc e.2) sum

/-- the union of all signer bitmaps of a timeout certificate -/
def tqcUnion (c : Committee) (q : TimeoutQC) : List Bool := unionFrom (List.replicate c.n false) q.map

/-- the sum of the groups' weights -/
def tqcGroupWeight (c : Committee) (q : TimeoutQC) : Nat := (q.map.map (fun e => weightOf c.weights e.2)).sum

theorem unionFrom_nil (sum : List Bool) : unionFrom sum [] = sum := rfl

theorem unionFrom_cons (sum : List Bool) (e : TVote × List Bool) (gs : List (TVote × List Bool)) :
    unionFrom sum (e :: gs) = unionFrom (bitOr sum e.2) gs := rfl

theorem verifyLoop_cons (c : Committee) (view : View) (msg : TVote) (signers : List Bool)
    (rest : List (TVote × List Bool)) (sum : List Bool) :
    TimeoutQC.verifyLoop c view ((msg, signers) :: rest) sum =
      if msg.view = view ∧ signers.length = sum.length ∧ signersEmpty signers = false ∧
          signersEmpty (bitAnd sum signers) = true ∧ msg.verify c = true
      then TimeoutQC.verifyLoop c view rest (bitOr sum signers) else none := by
  simp only [TimeoutQC.verifyLoop]
  by_cases h1 : msg.view = view <;> by_cases h2 : signers.length = sum.length <;>
    cases h3 : signersEmpty signers <;> cases h4 : signersEmpty (bitAnd sum signers) <;>
    cases h5 : msg.verify c <;> simp [h1, h2]

theorem verifyLoop_eq_some_iff (c : Committee) (view : View) (gs : List (TVote × List Bool))
    (sum sum' : List Bool) :
    TimeoutQC.verifyLoop c view gs sum = some sum' ↔
      (∀ e ∈ gs, e.1.view = view ∧ e.2.length = sum.length ∧ (∃ i : Nat, e.2[i]? = some true) ∧
        e.1.verify c = true ∧ Disj sum e.2) ∧
      gs.Pairwise (fun a b => Disj a.2 b.2) ∧ sum' = unionFrom sum gs := by
  induction gs generalizing sum with
  | nil =>
    simp only [TimeoutQC.verifyLoop, Option.some.injEq, List.not_mem_nil, false_imp_iff, implies_true,
      List.Pairwise.nil, true_and, unionFrom_nil]
    exact eq_comm
  | cons e rest ih =>
    obtain ⟨msg, signers⟩ := e
    rw [verifyLoop_cons]
    by_cases H : msg.view = view ∧ signers.length = sum.length ∧ signersEmpty signers = false ∧
          signersEmpty (bitAnd sum signers) = true ∧ msg.verify c = true
    · rw [if_pos H, ih]
      obtain ⟨H1, H2, H3, H4, H5⟩ := H
      rw [signersEmpty_false_iff] at H3
      rw [signersEmpty_bitAnd_iff] at H4
      have hl : (bitOr sum signers).length = sum.length := bitOr_length _ _ H2.symm
      simp only [List.forall_mem_cons, List.pairwise_cons, unionFrom_cons]
      constructor
      · intro ⟨A, P, E⟩
        refine ⟨⟨⟨H1, H2, H3, H5, H4⟩, fun e he => ?_⟩, ⟨fun e he => ?_, P⟩, E⟩
        · obtain ⟨a1, a2, a3, a4, a5⟩ := A e he
          exact ⟨a1, a2.trans hl, a3, a4, ((disj_bitOr _ _ _ H2.symm).mp a5).1⟩
        · exact ((disj_bitOr _ _ _ H2.symm).mp (A e he).2.2.2.2).2
      · intro ⟨⟨_, A⟩, ⟨D, P⟩, E⟩
        refine ⟨fun e he => ?_, P, E⟩
        obtain ⟨a1, a2, a3, a4, a5⟩ := A e he
        exact ⟨a1, a2.trans hl.symm, a3, a4, (disj_bitOr _ _ _ H2.symm).mpr ⟨a5, D e he⟩⟩
    · rw [if_neg H]
      simp only [reduceCtorEq, false_iff, List.forall_mem_cons, not_and]
      intro ⟨⟨a1, a2, a3, a4, a5⟩, _⟩
      exact absurd ⟨a1, a2, (signersEmpty_false_iff _).mpr a3, (signersEmpty_bitAnd_iff _ _).mpr a5, a4⟩ H

theorem unionFrom_length (sum : List Bool) (gs : List (TVote × List Bool))
    (hlen : ∀ e ∈ gs, e.2.length = sum.length) : (unionFrom sum gs).length = sum.length := by
  induction gs generalizing sum with
  | nil => rfl
  | cons e gs ih =>
    have h0 := hlen e (List.mem_cons_self)
    have hl : (bitOr sum e.2).length = sum.length := bitOr_length _ _ h0.symm
    rw [unionFrom_cons, ih _ (fun e' he' => (hlen e' (List.mem_cons_of_mem _ he')).trans hl.symm), hl]

/-- an index is set in the union iff it is set in `sum` or in some group -/
theorem unionFrom_get (sum : List Bool) (gs : List (TVote × List Bool))
    (hlen : ∀ e ∈ gs, e.2.length = sum.length) (i : Nat) :
    (unionFrom sum gs)[i]? = some true ↔ sum[i]? = some true ∨ ∃ e ∈ gs, e.2[i]? = some true := by
  induction gs generalizing sum with
  | nil => simp [unionFrom_nil]
  | cons e gs ih =>
    have h0 := hlen e (List.mem_cons_self)
    have hl : (bitOr sum e.2).length = sum.length := bitOr_length _ _ h0.symm
    rw [unionFrom_cons, ih _ (fun e' he' => (hlen e' (List.mem_cons_of_mem _ he')).trans hl.symm),
      bitOr_get _ _ h0.symm]
    simp only [List.mem_cons, exists_eq_or_imp, or_assoc]

/-- the weight of the union of pairwise disjoint groups is the sum of the groups' weights: no double counting -/
theorem weightOf_unionFrom (ws : List Nat) (sum : List Bool) (gs : List (TVote × List Bool))
    (hlen : ∀ e ∈ gs, e.2.length = sum.length) (hd : ∀ e ∈ gs, Disj sum e.2)
    (hp : gs.Pairwise (fun a b => Disj a.2 b.2)) :
    weightOf ws (unionFrom sum gs) = weightOf ws sum + (gs.map (fun e => weightOf ws e.2)).sum := by
  induction gs generalizing sum with
  | nil => simp [unionFrom_nil]
  | cons e gs ih =>
    have h0 := hlen e (List.mem_cons_self)
    have hl : (bitOr sum e.2).length = sum.length := bitOr_length _ _ h0.symm
    obtain ⟨hp0, hp'⟩ := List.pairwise_cons.mp hp
    rw [unionFrom_cons, ih _ (fun e' he' => (hlen e' (List.mem_cons_of_mem _ he')).trans hl.symm)
      (fun e' he' => (disj_bitOr _ _ _ h0.symm).mpr ⟨hd e' (List.mem_cons_of_mem _ he'), hp0 e' he'⟩) hp',
      weightOf_bitOr _ _ _ h0.symm (hd e (List.mem_cons_self))]
    simp only [List.map_cons, List.sum_cons, Nat.add_assoc]

theorem tqcWeight_fold (c : Committee) (f : Res Nat → (TVote × List Bool) → Res Nat)
    (hf : ∀ a e, e.2.length = c.n → f (.ok a) e = .ok (a + weightOf c.weights e.2))
    (gs : List (TVote × List Bool)) (h : ∀ e ∈ gs, e.2.length = c.n) (a : Nat) :
    gs.foldl f (.ok a) = .ok (a + (gs.map (fun e => weightOf c.weights e.2)).sum) := by
  induction gs generalizing a with
  | nil => simp
  | cons e gs ih =>
    rw [List.foldl_cons, hf a e (h e (List.mem_cons_self)), ih (fun e' he' => h e' (List.mem_cons_of_mem _ he'))]
    simp [Nat.add_assoc]

theorem tqcWeight_ok (c : Committee) (q : TimeoutQC) (h : ∀ e ∈ q.map, e.2.length = c.n) :
    TimeoutQC.weight c q = .ok (tqcGroupWeight c q) := by
  unfold TimeoutQC.weight
  refine (tqcWeight_fold c _ ?_ q.map h 0).trans ?_
  · intro a e hl
    obtain ⟨m, s⟩ := e
    simp only at hl
    simp [signersWeight, hl]
  · simp [tqcGroupWeight]

/-- declarative reading of `TimeoutQC.verify` -/
theorem timeoutQC_verify_iff (c : Committee) (q : TimeoutQC) :
    q.verify c = true ↔
      (q.view.genesis = c.genesis ∧ q.view.epoch = c.epoch ∧
        (∀ e ∈ q.map, e.1.view = q.view ∧ e.2.length = c.n ∧ (∃ i : Nat, e.2[i]? = some true) ∧
          e.1.verify c = true) ∧
        q.map.Pairwise (fun a b => Disj a.2 b.2) ∧
        c.quorum ≤ weightOf c.weights (tqcUnion c q) ∧
        List.Perm q.sig q.expected) := by
  simp only [TimeoutQC.verify, Bool.and_eq_true, view_verify_iff, and_assoc]
  refine and_congr_right (fun _ => and_congr_right (fun _ => ?_))
  cases hL : TimeoutQC.verifyLoop c q.view q.map (List.replicate c.n false) with
  | none =>
    simp only [Bool.false_eq_true, false_iff]
    intro ⟨A, P, _, _⟩
    have : TimeoutQC.verifyLoop c q.view q.map (List.replicate c.n false) = some (tqcUnion c q) := by
      rw [verifyLoop_eq_some_iff]
      refine ⟨fun e he => ?_, P, rfl⟩
      obtain ⟨a1, a2, a3, a4⟩ := A e he
      exact ⟨a1, by simpa using a2, a3, a4, disj_replicate_false _ _⟩
    rw [hL] at this
    contradiction
  | some sum =>
    obtain ⟨A, P, E⟩ := (verifyLoop_eq_some_iff _ _ _ _ _).mp hL
    have E' : sum = tqcUnion c q := E
    subst E'
    simp only [Bool.and_eq_true, decide_eq_true_eq, aggVerify_iff]
    constructor
    · intro ⟨hw, hs⟩
      refine ⟨fun e he => ?_, P, hw, hs⟩
      obtain ⟨a1, a2, a3, a4, _⟩ := A e he
      exact ⟨a1, by simpa using a2, a3, a4⟩
    · intro ⟨_, _, hw, hs⟩
      exact ⟨hw, hs⟩

theorem tqcUnion_weight_eq (c : Committee) (q : TimeoutQC) (hlen : ∀ e ∈ q.map, e.2.length = c.n)
    (hp : q.map.Pairwise (fun a b => Disj a.2 b.2)) :
    weightOf c.weights (tqcUnion c q) = tqcGroupWeight c q := by
  rw [tqcUnion, weightOf_unionFrom c.weights _ q.map (fun e he => by simpa using hlen e he)
    (fun e _ => disj_replicate_false _ _) hp, weightOf_replicate_false, Nat.zero_add]
  rfl

theorem quorum_pos (c : Committee) (h : 1 ≤ c.total) : 1 ≤ c.quorum := by
  unfold Committee.quorum Committee.faulty
  omega

/-! ## Incremental assembly of `CommitQC` -/

theorem cqc_add_ok (c : Committee) (q : CommitQC) (sb : SignedBy) (msg : Vote) (q' : CommitQC) :
    q.add c sb msg = .ok q' ↔
      ∃ i, sb.key = some i ∧ i < c.n ∧ q.signers.getD i false = false ∧ sb.sigOk = true ∧ q.message = msg ∧
        msg.verify c = true ∧ q' = { q with signers := q.signers.set i true, sig := q.sig ++ [(i, msg)] } := by
  unfold CommitQC.add
  cases hk : sb.key with
  | none => simp
  | some i =>
    simp only [Option.some.injEq, exists_eq_left']
    generalize q.signers.getD i false = b
    have hlt : i < c.n ↔ ¬ i ≥ c.n := by omega
    rw [hlt]
    by_cases h1 : i ≥ c.n <;> cases b <;> cases h3 : sb.sigOk <;> by_cases h4 : q.message = msg <;>
      cases h5 : msg.verify c <;> simp [h1, h4, setBit, eq_comm]

/-- certificates obtained from `CommitQC::new` by successful `CommitQC::add`s -/
inductive CqcAssembled (c : Committee) (v : Vote) : CommitQC → Prop
  | new : CqcAssembled c v (CommitQC.new c v)
  | add {q q' : CommitQC} {sb : SignedBy} {msg : Vote} :
      CqcAssembled c v q → q.add c sb msg = .ok q' → CqcAssembled c v q'

theorem cqcAssembled_inv {c : Committee} {v : Vote} {q : CommitQC} (h : CqcAssembled c v q) :
    q.message = v ∧ q.signers.length = c.n ∧ q.sig.Perm q.expected ∧
      ((∃ i : Nat, q.signers[i]? = some true) → v.verify c = true) := by
  induction h with
  | new =>
    refine ⟨rfl, by simp [CommitQC.new], ?_, ?_⟩
    · simp [CommitQC.new, CommitQC.expected, signerIdxs_replicate_false]
    · intro ⟨i, hi⟩
      exact absurd hi (replicate_false_get _ _)
  | @add q q' sb msg _ hadd ih =>
    obtain ⟨hm, hl, hs, _⟩ := ih
    obtain ⟨i, _, hi, hfree, _, hmsg, hver, rfl⟩ := (cqc_add_ok _ _ _ _ _).mp hadd
    rw [getD_false_iff] at hfree
    refine ⟨hm, by simpa using hl, ?_, fun _ => by rw [← hm, hmsg]; exact hver⟩
    simp only [CommitQC.expected] at hs ⊢
    have hp := (signerIdxs_set_perm q.signers i (by omega) hfree).map (fun j => (j, q.message))
    refine List.Perm.trans ?_ hp.symm
    rw [List.map_cons, ← hmsg]
    exact (List.perm_append_comm).trans (List.Perm.cons _ hs)

theorem cqc_assembled_verify_iff {c : Committee} {v : Vote} {q : CommitQC} (ht : 1 ≤ c.total)
    (h : CqcAssembled c v q) : q.verify c = true ↔ c.quorum ≤ weightOf c.weights q.signers := by
  obtain ⟨hm, hl, hs, hv⟩ := cqcAssembled_inv h
  rw [commitQC_verify_iff]
  constructor
  · exact fun H => H.2.2.2.1
  · intro hw
    have hpos : 0 < weightOf c.weights q.signers := Nat.lt_of_lt_of_le (quorum_pos c ht) hw
    have := hv (exists_bit_of_weight_pos _ _ hpos)
    rw [← hm] at this
    have hview := (view_verify_iff c q.message.view).mp this
    exact ⟨hview.1, hview.2, hl, hw, hs⟩

/-! ## Incremental assembly of `TimeoutQC` -/

theorem tqc_add_ok (c : Committee) (q : TimeoutQC) (sb : SignedBy) (msg : TVote) (q' : TimeoutQC) :
    q.add c sb msg = .ok q' ↔
      ∃ i, sb.key = some i ∧ i < c.n ∧ (∀ e ∈ q.map, e.2.getD i false = false) ∧ sb.sigOk = true ∧
        msg.view = q.view ∧ msg.verify c = true ∧
        q' = { q with map := mapSet c q.map msg i, sig := q.sig ++ [(i, msg)] } := by
  unfold TimeoutQC.add
  cases hk : sb.key with
  | none => simp
  | some i =>
    simp only [Option.some.injEq, exists_eq_left']
    have hany : (∀ e ∈ q.map, e.2.getD i false = false) ↔ q.map.any (fun e => e.2.getD i false) = false := by
      rw [List.any_eq_false]
      exact forall_congr' (fun e => imp_congr_right (fun _ => by cases e.2.getD i false <;> simp))
    rw [hany]
    generalize q.map.any (fun e => e.2.getD i false) = b
    have hlt : i < c.n ↔ ¬ i ≥ c.n := by omega
    rw [hlt]
    by_cases h1 : i ≥ c.n <;> cases b <;> cases h3 : sb.sigOk <;> by_cases h4 : msg.view = q.view <;>
      cases h5 : msg.verify c <;> simp [h1, h4, eq_comm]

/-- the `(key, message)` pairs one group contributes to the expected aggregate -/
def groupSigs (e : TVote × List Bool) : AggSig TVote := (signerIdxs e.2).map (fun i => (i, e.1))

theorem expected_eq (q : TimeoutQC) : q.expected = q.map.flatMap groupSigs := rfl

/-- the per-entry update of `mapSet` when the key is present -/
def upd (msg : TVote) (i : Nat) (e : TVote × List Bool) : TVote × List Bool :=
  if e.1 = msg then (e.1, e.2.set i true) else e

theorem mapSet_present (c : Committee) (m : List (TVote × List Bool)) (msg : TVote) (i : Nat)
    (h : ∃ e ∈ m, e.1 = msg) : mapSet c m msg i = m.map (upd msg i) := by
  have : m.any (fun e => e.1 = msg) = true := by
    obtain ⟨e, he, hm⟩ := h
    exact List.any_eq_true.mpr ⟨e, he, by simpa using hm⟩
  simp only [mapSet, this, if_true]
  rfl

theorem mapSet_absent (c : Committee) (m : List (TVote × List Bool)) (msg : TVote) (i : Nat)
    (h : ∀ e ∈ m, e.1 ≠ msg) : mapSet c m msg i = m ++ [(msg, (List.replicate c.n false).set i true)] := by
  have : ¬ m.any (fun e => e.1 = msg) = true := by
    intro ha
    obtain ⟨e, he, hm⟩ := List.any_eq_true.mp ha
    exact h e he (by simpa using hm)
  simp only [mapSet, this]
  rfl

theorem fst_upd (msg : TVote) (i : Nat) (e : TVote × List Bool) : (upd msg i e).1 = e.1 := by
  unfold upd; split <;> rfl

theorem upd_of_ne (msg : TVote) (i : Nat) (e : TVote × List Bool) (h : e.1 ≠ msg) : upd msg i e = e := by
  simp [upd, h]

theorem upd_of_eq (msg : TVote) (i : Nat) (e : TVote × List Bool) (h : e.1 = msg) :
    upd msg i e = (e.1, e.2.set i true) := by
  simp [upd, h]

theorem groupSigs_set_perm (e : TVote × List Bool) (i : Nat) (hi : i < e.2.length) (hb : ¬ e.2[i]? = some true) :
    (groupSigs (e.1, e.2.set i true)).Perm ((i, e.1) :: groupSigs e) :=
  (signerIdxs_set_perm e.2 i hi hb).map (fun j => (j, e.1))

theorem upd_expected (m : List (TVote × List Bool)) (msg : TVote) (i : Nat)
    (hk : m.Pairwise (fun a b => a.1 ≠ b.1)) (hex : ∃ e ∈ m, e.1 = msg)
    (hfree : ∀ e ∈ m, i < e.2.length ∧ ¬ e.2[i]? = some true) :
    ((m.map (upd msg i)).flatMap groupSigs).Perm ((i, msg) :: m.flatMap groupSigs) := by
  induction m with
  | nil => obtain ⟨e, he, _⟩ := hex; simp at he
  | cons e rest ih =>
    obtain ⟨hk0, hk'⟩ := List.pairwise_cons.mp hk
    have hf0 := hfree e (List.mem_cons_self)
    simp only [List.map_cons, List.flatMap_cons]
    by_cases he : e.1 = msg
    · have hrest : rest.map (upd msg i) = rest := by
        have : ∀ x ∈ rest, upd msg i x = id x := fun x hx => upd_of_ne _ _ _ (fun hx' => hk0 x hx (he.trans hx'.symm))
        rw [List.map_congr_left this, List.map_id]
      rw [hrest, upd_of_eq _ _ _ he]
      have := (groupSigs_set_perm e i hf0.1 hf0.2).append_right (rest.flatMap groupSigs)
      rw [he] at this ⊢
      simpa using this
    · rw [upd_of_ne _ _ _ he]
      have hex' : ∃ x ∈ rest, x.1 = msg := by
        obtain ⟨x, hx, hxm⟩ := hex
        rcases List.mem_cons.mp hx with rfl | hx
        · exact absurd hxm he
        · exact ⟨x, hx, hxm⟩
      have := ih hk' hex' (fun x hx => hfree x (List.mem_cons_of_mem _ hx))
      exact (this.append_left (groupSigs e)).trans List.perm_middle

/-- well-formedness of a timeout certificate under assembly (everything `verify` checks except the quorum) -/
structure TqcInv (c : Committee) (view : View) (q : TimeoutQC) : Prop where
  view_eq : q.view = view
  groups : ∀ e ∈ q.map, e.1.view = view ∧ e.2.length = c.n ∧ (∃ i : Nat, e.2[i]? = some true) ∧ e.1.verify c = true
  pw : q.map.Pairwise (fun a b => a.1 ≠ b.1 ∧ Disj a.2 b.2)
  sig : q.sig.Perm q.expected

/-- certificates obtained from `TimeoutQC::new` by successful `TimeoutQC::add`s -/
inductive TqcAssembled (c : Committee) (view : View) : TimeoutQC → Prop
  | new : TqcAssembled c view (TimeoutQC.new view)
  | add {q q' : TimeoutQC} {sb : SignedBy} {msg : TVote} :
      TqcAssembled c view q → q.add c sb msg = .ok q' → TqcAssembled c view q'

theorem tqcInv_new (c : Committee) (view : View) : TqcInv c view (TimeoutQC.new view) :=
  ⟨rfl, by simp [TimeoutQC.new], by simp [TimeoutQC.new], by simp [TimeoutQC.new, TimeoutQC.expected]⟩

theorem tqcInv_add {c : Committee} {view : View} {q q' : TimeoutQC} {sb : SignedBy} {msg : TVote}
    (inv : TqcInv c view q) (hadd : q.add c sb msg = .ok q') : TqcInv c view q' := by
  obtain ⟨i, _, hi, hfree, _, hview, hver, rfl⟩ := (tqc_add_ok _ _ _ _ _).mp hadd
  obtain ⟨hv, hg, hpw, hs⟩ := inv
  have hfree' : ∀ e ∈ q.map, ¬ e.2[i]? = some true := fun e he => (getD_false_iff _ _).mp (hfree e he)
  have hnew_get : ((List.replicate c.n false).set i true)[i]? = some true :=
    (set_get _ i i (by simpa using hi)).mpr (Or.inl rfl)
  by_cases hex : ∃ e ∈ q.map, e.1 = msg
  · -- the group of `msg` exists: its bitmap gains bit `i`
    have hms := mapSet_present c q.map msg i hex
    refine ⟨hv, ?_, ?_, ?_⟩
    · simp only [hms, List.mem_map]
      intro e' ⟨e, he, hee⟩
      obtain ⟨g1, g2, g3, g4⟩ := hg e he
      subst hee
      by_cases hem : e.1 = msg
      · rw [upd_of_eq _ _ _ hem]
        exact ⟨g1, by simpa using g2, ⟨i, (set_get _ i i (by omega)).mpr (Or.inl rfl)⟩, g4⟩
      · rw [upd_of_ne _ _ _ hem]
        exact ⟨g1, g2, g3, g4⟩
    · simp only [hms, List.pairwise_map]
      refine List.Pairwise.imp_of_mem ?_ hpw
      intro a b ha hb ⟨hne, hd⟩
      refine ⟨by simpa [fst_upd] using hne, ?_⟩
      have hla := (hg a ha).2.1
      have hlb := (hg b hb).2.1
      by_cases ham : a.1 = msg
      · have hbm : b.1 ≠ msg := fun h => hne (ham.trans h.symm)
        rw [upd_of_eq _ _ _ ham, upd_of_ne _ _ _ hbm]
        intro j ⟨h1, h2⟩
        rcases (set_get _ i j (by omega)).mp h1 with rfl | h1
        · exact hfree' b hb h2
        · exact hd j ⟨h1, h2⟩
      · rw [upd_of_ne _ _ _ ham]
        by_cases hbm : b.1 = msg
        · rw [upd_of_eq _ _ _ hbm]
          intro j ⟨h1, h2⟩
          rcases (set_get _ i j (by omega)).mp h2 with rfl | h2
          · exact hfree' a ha h1
          · exact hd j ⟨h1, h2⟩
        · rw [upd_of_ne _ _ _ hbm]
          exact hd
    · show (q.sig ++ [(i, msg)]).Perm ((mapSet c q.map msg i).flatMap groupSigs)
      rw [hms]
      have hp := upd_expected q.map msg i (hpw.imp (fun h => h.1)) hex
        (fun e he => ⟨by rw [(hg e he).2.1]; exact hi, hfree' e he⟩)
      exact ((List.perm_append_comm).trans (List.Perm.cons _ hs)).trans hp.symm
  · -- a new group `{i}` is appended
    have hne : ∀ e ∈ q.map, e.1 ≠ msg := fun e he h => hex ⟨e, he, h⟩
    have hms := mapSet_absent c q.map msg i hne
    refine ⟨hv, ?_, ?_, ?_⟩
    · simp only [hms, List.mem_append, List.mem_singleton]
      intro e' he'
      rcases he' with he' | rfl
      · exact hg e' he'
      · exact ⟨hview.trans hv, by simp, ⟨i, hnew_get⟩, hver⟩
    · simp only [hms, List.pairwise_append, List.pairwise_cons, List.not_mem_nil, false_imp_iff, implies_true,
        List.Pairwise.nil, and_true, true_and, List.mem_singleton, forall_eq]
      refine ⟨hpw, fun a ha => ⟨hne a ha, ?_⟩⟩
      intro j ⟨h1, h2⟩
      rcases (set_get _ i j (by simpa using hi)).mp h2 with rfl | h2
      · exact hfree' a ha h1
      · exact replicate_false_get _ _ h2
    · show (q.sig ++ [(i, msg)]).Perm ((mapSet c q.map msg i).flatMap groupSigs)
      rw [hms, List.flatMap_append]
      refine List.Perm.append hs ?_
      have := signerIdxs_set_perm (List.replicate c.n false) i (by simpa using hi) (replicate_false_get _ _)
      rw [signerIdxs_replicate_false] at this
      simpa [groupSigs] using (this.map (fun j => (j, msg))).symm

theorem tqcAssembled_inv {c : Committee} {view : View} {q : TimeoutQC} (h : TqcAssembled c view q) :
    TqcInv c view q := by
  induction h with
  | new => exact tqcInv_new c view
  | add _ hadd ih => exact tqcInv_add ih hadd

theorem tqc_assembled_verify_iff {c : Committee} {view : View} {q : TimeoutQC} (ht : 1 ≤ c.total)
    (h : TqcAssembled c view q) : q.verify c = true ↔ c.quorum ≤ tqcGroupWeight c q := by
  obtain ⟨hv, hg, hpw, hs⟩ := tqcAssembled_inv h
  have hlen : ∀ e ∈ q.map, e.2.length = c.n := fun e he => (hg e he).2.1
  have hd : q.map.Pairwise (fun a b => Disj a.2 b.2) := hpw.imp (fun h => h.2)
  rw [timeoutQC_verify_iff, tqcUnion_weight_eq c q hlen hd]
  constructor
  · exact fun H => H.2.2.2.2.1
  · intro hw
    have hpos : 0 < tqcGroupWeight c q := Nat.lt_of_lt_of_le (quorum_pos c ht) hw
    have hview : q.view.verify c = true := by
      cases hm : q.map with
      | nil => simp [tqcGroupWeight, hm] at hpos
      | cons e rest =>
        obtain ⟨g1, _, _, g4⟩ := hg e (by simp [hm])
        simp only [TVote.verify, Bool.and_eq_true] at g4
        rw [hv, ← g1]
        exact g4.1.1
    have hview' := (view_verify_iff c q.view).mp hview
    exact ⟨hview'.1, hview'.2, fun e he => by rw [hv]; exact hg e he, hd, hw, hs⟩

end EraVerif.Proofs.Certs
