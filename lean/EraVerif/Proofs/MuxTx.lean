import EraVerif.Proofs.MuxLockS

/-! # C14: the sending side — what a stream puts on the wire is `CLOSE* (OPEN DATA* CLOSE)*`, and the DATA payload of a
session is what the application wrote -/

namespace EraVerif.Proofs.Mux
open EraVerif.Model.Mux EraVerif.Gen.MuxConst

attribute [local simp] State.upd State.release State.releaseOpt State.emit State.setSlot State.log State.enqueue
  handover finishRead

/-- the frames local stream `k` handed to the transport writer, in order -/
def projOut (k : Key) (out : List OFrame) : List (FK × List Nat) :=
  (out.filter (fun f => f.conn = k.conn ∧ f.id = k.id)).map (fun f => (f.kind, f.data))

theorem projOut_append (k : Key) (l1 l2 : List OFrame) : projOut k (l1 ++ l2) = projOut k l1 ++ projOut k l2 := by
  simp [projOut]

/-- the per-stream wire grammar: state = (session open?, payload sent in the current session) -/
def txStep : Bool × List Nat → FK × List Nat → Option (Bool × List Nat)
  | (false, _), (.close, _) => some (false, [])
  | (false, _), (.open, _) => some (true, [])
  | (false, _), (.data, _) => none
  | (true, d), (.data, b) => some (true, d ++ b)
  | (true, _), (.close, _) => some (false, [])
  | (true, _), (.open, _) => none

def txRun (st : Bool × List Nat) : List (FK × List Nat) → Option (Bool × List Nat)
  | [] => some st
  | e :: l => (txStep st e).bind (fun st' => txRun st' l)

theorem txRun_append (st : Bool × List Nat) (l1 l2 : List (FK × List Nat)) :
    txRun st (l1 ++ l2) = (txRun st l1).bind (fun st' => txRun st' l2) := by
  induction l1 generalizing st with
  | nil => simp [txRun]
  | cons e l ih =>
    simp only [List.cons_append, txRun]
    cases txStep st e with
    | none => simp
    | some st' => simp [ih]

/-- cutting the last `b.length` elements off `a ++ b` -/
theorem take_length_sub_append {α : Type} (a b : List α) : (a ++ b).take ((a ++ b).length - b.length) = a := by
  have : (a ++ b).length - b.length = a.length := by simp
  rw [this]; simp

def pendRest (t : StreamSt) : List Nat :=
  match t.pendW with
  | some p => p.rest
  | none => []

structure TSt (wfs : Nat) (alive : Bool) (t : StreamSt) : Prop where
  /-- everything `write_all` accepted is sent, buffered, or still to be copied -/
  log : alive = true → t.wlog = t.sent ++ t.wbuf ++ pendRest t
  idle : t.txOpen = false → t.wbuf = [] ∧ t.wlog = [] ∧ t.sent = [] ∧ t.pendW = none
  wo : t.writeHeld = true → t.txOpen = true
  jc : ∀ x, t.mphase = .joinC x → t.txOpen = true
  rs : (t.mphase = .joinA ∨ t.mphase = .wantPush ∨ t.mphase = .pushed ∨ ∃ x, t.mphase = .reserved x) → t.txOpen = false
  cl : t.mphase ≠ .waitWrite → t.wbuf = []
  cap : t.wbuf.length ≤ wfs

structure TInv (s : State) : Prop where
  st : ∀ k, TSt s.cfg.wfs s.dead.isNone (s.st k)
  wf : ∀ k, txRun (false, []) (projOut k s.out) = some ((s.st k).txOpen, (s.st k).sent)
  fr : ∀ f ∈ s.out, f.kind = .data → f.data ≠ [] ∧ f.data.length ≤ s.cfg.wfs

theorem TInv_init (cfg : Cfg) (acc con pacc pcon : Caps) : TInv (State.init cfg acc con pacc pcon) := by
  obtain ⟨d, na, nc, e⟩ := init_eq cfg acc con pacc pcon
  rw [e]
  constructor
  · intro k; constructor <;> simp [State.start, pendRest]
  · intro k; simp [State.start, projOut, txRun]
  · simp [State.start]

theorem TSt_dead {wfs : Nat} {t : StreamSt} {a : Bool} (h : TSt wfs a t) : TSt wfs false t :=
  ⟨fun h0 => (by cases h0), h.idle, h.wo, h.jc, h.rs, h.cl, h.cap⟩

/-- nothing the sender invariant looks at changed -/
def txSame (t t' : StreamSt) : Prop :=
  t'.txOpen = t.txOpen ∧ t'.sent = t.sent ∧ t'.wlog = t.wlog ∧ t'.wbuf = t.wbuf ∧ t'.pendW = t.pendW ∧
    t'.mphase = t.mphase ∧ t'.writeHeld = t.writeHeld

theorem txSame_refl (t : StreamSt) : txSame t t := ⟨rfl, rfl, rfl, rfl, rfl, rfl, rfl⟩

theorem txSame_ite {t : Key → StreamSt} {k k' : Key} {v : StreamSt} (h : txSame (t k) v) :
    txSame (t k') (if k' = k then v else t k') := by
  by_cases hk : k' = k
  · subst hk; simpa using h
  · simp [hk, txSame_refl]

theorem TSt_of_txSame {wfs : Nat} {a : Bool} {t t' : StreamSt} (h : txSame t t') (hi : TSt wfs a t) : TSt wfs a t' := by
  obtain ⟨h1, h2, h3, h4, h5, h6, h7⟩ := h
  have hp : pendRest t' = pendRest t := by unfold pendRest; rw [h5]
  constructor
  · intro ha; rw [h3, h2, h4, hp]; exact hi.log ha
  · rw [h1, h4, h3, h2, h5]; exact hi.idle
  · rw [h7, h1]; exact hi.wo
  · rw [h6, h1]; exact hi.jc
  · rw [h6, h1]; exact hi.rs
  · rw [h6, h4]; exact hi.cl
  · rw [h4]; exact hi.cap

theorem TInv_of_same {s s' : State} (h1 : s'.out = s.out) (h2 : s'.cfg = s.cfg)
    (h3 : s'.dead.isNone = true → s.dead.isNone = true) (h4 : ∀ k, txSame (s.st k) (s'.st k)) (hi : TInv s) : TInv s' := by
  constructor
  · intro k
    rw [h2]
    have := TSt_of_txSame (h4 k) (hi.st k)
    cases hd : s'.dead.isNone with
    | true => rw [h3 hd] at this; exact this
    | false => exact TSt_dead this
  · intro k; rw [h1, (h4 k).1, (h4 k).2.1]; exact hi.wf k
  · rw [h1, h2]; exact hi.fr

macro "txsame" : tactic =>
  `(tactic| (intro k'; red; try simp only [if_true, ↓reduceIte, ite_ite_same];
             first | exact txSame_refl _ | (refine txSame_ite ?_; simp_all [txSame]; done)))

theorem TInv_stepPump {s s' : State}  (hi : TInv s) (h : stepPump s  = some s') : TInv s' := by
  unfold stepPump at h
  leaves h
  all_goals (subst h; refine TInv_of_same (s := s) rfl rfl (by simp_all) ?_ hi; txsame)

theorem TInv_stepRecvOpenStart {s s' : State} {k : Key} (hi : TInv s) (h : stepRecvOpenStart s k = some s') : TInv s' := by
  unfold stepRecvOpenStart at h
  leaves h
  all_goals (subst h; refine TInv_of_same (s := s) rfl rfl (by simp_all) ?_ hi; txsame)

theorem TInv_stepDiscard {s s' : State} {k : Key} (hi : TInv s) (h : stepDiscard s k = some s') : TInv s' := by
  unfold stepDiscard at h
  leaves h
  all_goals (subst h; refine TInv_of_same (s := s) rfl rfl (by simp_all) ?_ hi; txsame)

theorem TInv_stepDoFlush {s s' : State}  (hi : TInv s) (h : stepDoFlush s  = some s') : TInv s' := by
  unfold stepDoFlush at h
  leaves h
  all_goals (subst h; refine TInv_of_same (s := s) rfl rfl (by simp_all) ?_ hi; txsame)

theorem TInv_stepWTake {s s' : State}  (hi : TInv s) (h : stepWTake s  = some s') : TInv s' := by
  unfold stepWTake at h
  leaves h
  all_goals (subst h; refine TInv_of_same (s := s) rfl rfl (by simp_all) ?_ hi; txsame)

theorem TInv_stepWDo {s s' : State}  (hi : TInv s) (h : stepWDo s  = some s') : TInv s' := by
  unfold stepWDo at h
  leaves h
  all_goals (subst h; refine TInv_of_same (s := s) rfl rfl (by simp_all) ?_ hi; txsame)

theorem TInv_stepWBlock {s s' : State}  (hi : TInv s) (h : stepWBlock s  = some s') : TInv s' := by
  unfold stepWBlock at h
  leaves h
  all_goals (subst h; refine TInv_of_same (s := s) rfl rfl (by simp_all) ?_ hi; txsame)

theorem TInv_stepCancelFlush {s s' : State} {k : Key} (hi : TInv s) (h : stepCancelFlush s k = some s') : TInv s' := by
  unfold stepCancelFlush at h
  leaves h
  all_goals (subst h; refine TInv_of_same (s := s) rfl rfl (by simp_all) ?_ hi; txsame)

theorem TInv_stepAppFlush {s s' : State} {slot : Nat} (hi : TInv s) (h : stepAppFlush s slot = some s') : TInv s' := by
  unfold stepAppFlush at h
  leaves h
  all_goals (subst h; refine TInv_of_same (s := s) rfl rfl (by simp_all) ?_ hi; txsame)

theorem TInv_stepAppOpen {s s' : State} {slot : Nat} {conn : Bool} {cap : Nat} (hi : TInv s) (h : stepAppOpen s slot conn cap = some s') : TInv s' := by
  unfold stepAppOpen at h
  leaves h
  all_goals (subst h; refine TInv_of_same (s := s) rfl rfl (by simp_all) ?_ hi; txsame)

theorem TInv_stepAppRead {s s' : State} {slot n : Nat} (hi : TInv s) (h : stepAppRead s slot n = some s') : TInv s' := by
  unfold stepAppRead at h
  leaves h
  all_goals (subst h; refine TInv_of_same (s := s) rfl rfl (by simp_all) ?_ hi; txsame)


set_option maxHeartbeats 2000000 in
theorem TInv_stepReadStep {s s' : State} {k : Key} (hi : TInv s) (h : stepReadStep s k = some s') : TInv s' := by
  unfold stepReadStep readFrame at h
  leaves h
  all_goals (subst h; refine TInv_of_same (s := s) rfl rfl (by simp_all) ?_ hi; txsame)

theorem projOut_other {k k' : Key} (h : k' ≠ k) (fk : FK) (data : List Nat) :
    projOut k' [⟨k.conn, k.id, fk, data⟩] = [] := by
  have : ¬ (k.conn = k'.conn ∧ k.id = k'.id) := by
    intro ⟨a, b⟩; apply h; cases k; cases k'; simp_all
  simp [projOut, this]

theorem projOut_self (k : Key) (fk : FK) (data : List Nat) :
    projOut k [⟨k.conn, k.id, fk, data⟩] = [(fk, data)] := by
  simp [projOut]

/-- stream `k` changes without emitting a frame -/
theorem TInv_upd {s s' : State} {k : Key} (hi : TInv s) (h1 : s'.out = s.out) (h2 : s'.cfg = s.cfg)
    (h3 : s'.dead = s.dead) (ho : ∀ k', k' ≠ k → s'.st k' = s.st k')
    (ht : TSt s.cfg.wfs s.dead.isNone (s'.st k))
    (hx : (s'.st k).txOpen = (s.st k).txOpen ∧ (s'.st k).sent = (s.st k).sent) : TInv s' := by
  constructor
  · intro k'
    rw [h2, h3]
    by_cases e : k' = k
    · subst e; exact ht
    · rw [ho k' e]; exact hi.st k'
  · intro k'
    rw [h1]
    by_cases e : k' = k
    · subst e; rw [hx.1, hx.2]; exact hi.wf k'
    · rw [ho k' e]; exact hi.wf k'
  · rw [h1, h2]; exact hi.fr

/-- stream `k` emits one frame -/
theorem TInv_emit {s s' : State} {k : Key} {fk : FK} {data : List Nat} (hi : TInv s)
    (h1 : s'.out = s.out ++ [⟨k.conn, k.id, fk, data⟩]) (h2 : s'.cfg = s.cfg)
    (h3 : s'.dead = s.dead) (ho : ∀ k', k' ≠ k → s'.st k' = s.st k')
    (ht : TSt s.cfg.wfs s.dead.isNone (s'.st k))
    (hx : txStep ((s.st k).txOpen, (s.st k).sent) (fk, data) = some ((s'.st k).txOpen, (s'.st k).sent))
    (hf : fk = .data → data ≠ [] ∧ data.length ≤ s.cfg.wfs) : TInv s' := by
  constructor
  · intro k'
    rw [h2, h3]
    by_cases e : k' = k
    · subst e; exact ht
    · rw [ho k' e]; exact hi.st k'
  · intro k'
    rw [h1, projOut_append, txRun_append]
    by_cases e : k' = k
    · subst e
      rw [hi.wf k', projOut_self]
      simp [txRun, hx]
    · rw [ho k' e, projOut_other e, hi.wf k']
      simp [txRun]
  · rw [h1, h2]
    intro f hf'
    rcases List.mem_append.mp hf' with hf' | hf'
    · exact hi.fr f hf'
    · simp only [List.mem_singleton] at hf'; subst hf'; exact hf

end EraVerif.Proofs.Mux
