import EraVerif.Proofs.LayerPInv

/-!
# Non-vacuity of the Layer-P theorems: a reachable history in which a block is certified

For any committee in which the correct validators alone reach the quorum: every correct validator times out view 0,
then votes, on the timeout certificate of view 0 formed by exactly the correct validators, for block `first` with
hash `h` in view 1. The resulting state is reachable and `(view 1, number first, hash h)` is certified in it.
-/

namespace EraVerif.Safety
open Finset

variable {ι : Type} [Fintype ι] [DecidableEq ι] (w : ι → ℕ) (byz : Finset ι) (first : ℕ)

/-- all validators in `l` (correct ones) time out their current view -/
def timeoutsOf (l : List ι) : PState ι → PState ι := fun s =>
  l.foldl (fun s i => { s with
      touts := fun j t r => s.touts j t r ∨ (j = i ∧ t = s.view i ∧ r = ⟨s.highVote i, s.highQC i⟩)
      phase := fun j => if j = i then Ph.timeout else s.phase j }) s

theorem reach_timeoutsOf (l : List ι) (hl : ∀ i ∈ l, i ∉ byz) (s : PState ι) (hs : Reach w byz first s) :
    Reach w byz first (timeoutsOf l s) := by
  induction l generalizing s with
  | nil => exact hs
  | cons i l ih =>
    apply ih (fun j hj => hl j (List.mem_cons_of_mem _ hj))
    exact Reach.step hs (Step.timeout s i (hl i List.mem_cons_self))

theorem timeoutsOf_frame (l : List ι) (s : PState ι) :
    (timeoutsOf l s).votedAt = s.votedAt ∧ (timeoutsOf l s).view = s.view ∧
    (timeoutsOf l s).highVote = s.highVote ∧ (timeoutsOf l s).highQC = s.highQC ∧
    (∀ j t r, s.touts j t r → (timeoutsOf l s).touts j t r) ∧
    (∀ j, j ∉ l → (timeoutsOf l s).phase j = s.phase j) := by
  induction l generalizing s with
  | nil => simp [timeoutsOf]
  | cons i l ih =>
    simp only [timeoutsOf, List.foldl_cons]
    obtain ⟨h1, h2, h3, h4, h5, h6⟩ := ih { s with
      touts := fun j t r => s.touts j t r ∨ (j = i ∧ t = s.view i ∧ r = ⟨s.highVote i, s.highQC i⟩)
      phase := fun j => if j = i then Ph.timeout else s.phase j }
    refine ⟨h1, h2, h3, h4, fun j t r ht => h5 j t r (Or.inl ht), fun j hj => ?_⟩
    have hji : j ≠ i := fun e => hj (e ▸ List.mem_cons_self)
    have hjl : j ∉ l := fun e => hj (List.mem_cons_of_mem _ e)
    have := h6 j hjl
    simp only [timeoutsOf] at this ⊢
    rw [this]; simp [hji]

theorem timeoutsOf_touts (l : List ι) (s : PState ι) (i : ι) (hi : i ∈ l) :
    (timeoutsOf l s).touts i (s.view i) ⟨s.highVote i, s.highQC i⟩ := by
  induction l generalizing s with
  | nil => cases hi
  | cons a l ih =>
    simp only [timeoutsOf, List.foldl_cons]
    let s1 : PState ι := { s with
      touts := fun j t r => s.touts j t r ∨ (j = a ∧ t = s.view a ∧ r = ⟨s.highVote a, s.highQC a⟩)
      phase := fun j => if j = a then Ph.timeout else s.phase j }
    by_cases hia : i = a
    · subst hia
      exact (timeoutsOf_frame l s1).2.2.2.2.1 i _ _ (Or.inr ⟨rfl, rfl, rfl⟩)
    · have := ih s1 (by simpa [hia] using hi)
      exact this


/-- the timeout certificate of view 0 signed by the set `C`, everybody reporting "no vote, no certificate" -/
def tqc0 (C : Finset ι) : TQC ι := { view := 0, signers := C, rep := fun _ => ⟨none, none⟩ }

theorem tqc0_implied (hn : 1 ≤ total w) (C : Finset ι) : Implied w first (tqc0 C) first none := by
  right; right; right; right
  refine ⟨?_, fun i _ => rfl, rfl, rfl⟩
  intro ⟨k, h, hhv, _⟩
  have : (tqc0 C).reporters k h = ∅ := by
    ext i; simp [TQC.reporters, tqc0]
  rw [this] at hhv
  have hp := subq_pos w hn
  simp [wt] at hhv
  omega

theorem votes_reach (hn : 1 ≤ total w) (hb : wt w byz ≤ faulty w) (C : Finset ι) (hC : ∀ i ∈ C, i ∉ byz)
    (hq : quorum w ≤ wt w C) (h : ℕ)
    (l : List ι) (hnd : l.Nodup) (hl : ∀ i ∈ l, i ∈ C) (s : PState ι) (hs : Reach w byz first s)
    (ht : ∀ i ∈ C, s.touts i 0 ⟨none, none⟩) (hv : ∀ i ∈ l, s.view i = 0) :
    ∃ s', Reach w byz first s' ∧ (∀ i ∈ l, s'.votedAt i 1 = some (first, h)) ∧
      (∀ j u x, s.votedAt j u = some x → s'.votedAt j u = some x) := by
  induction l generalizing s with
  | nil => exact ⟨s, hs, fun i hi => absurd hi (List.not_mem_nil), fun _ _ _ hx => hx⟩
  | cons i l ih =>
    have hiC := hl i List.mem_cons_self
    have hib := hC i hiC
    have hvalid : (tqc0 C).valid w byz s.st := ⟨hq, fun j hj _ => ht j hj, fun j _ c hc => by simp [tqc0] at hc⟩
    have hcan : s.canVote i ((tqc0 C).view + 1) := Or.inl (by simp [tqc0, hv i List.mem_cons_self])
    have hstep := Step.voteTimeout (w := w) (byz := byz) (first := first) s i hib (tqc0 C) first none h hvalid
      (tqc0_implied w first hn C) (fun hh e => by cases e) hcan (s.highQC i) (Or.inl ⟨fun j _ => rfl, rfl⟩)
    have hI := inv_reachable (first := first) hn hb hs
    have hext := recordVote_extends (hq' := s.highQC i) (k' := first) (h' := h) hI.i3 hib hcan
    have hs1 := Reach.step hs hstep
    have hnd' := (List.nodup_cons.mp hnd)
    obtain ⟨s', hr', hvl, hmono⟩ := ih hnd'.2 (fun j hj => hl j (List.mem_cons_of_mem _ hj)) _ hs1
      (fun j hj => by simpa [PState.recordVote] using ht j hj)
      (fun j hj => by
        have hji : j ≠ i := fun e => hnd'.1 (e ▸ hj)
        simpa [PState.recordVote, hji] using hv j (List.mem_cons_of_mem _ hj))
    refine ⟨s', hr', fun j hj => ?_, fun j u x hx => hmono j u x (hext j u x hx)⟩
    rcases List.mem_cons.mp hj with rfl | hj'
    · exact hmono j 1 _ (by simp [PState.recordVote, tqc0])
    · exact hvl j hj'

/-- **Non-vacuity of C01/C02**: whenever the correct validators alone reach the quorum, a state with a certified
block is reachable (so `agreement`, `certified_block_canonical`, … are statements about real histories). -/
theorem exists_reachable_cert (hn : 1 ≤ total w) (hb : wt w byz ≤ faulty w)
    (hq : quorum w ≤ wt w (univ \ byz)) (h : ℕ) :
    ∃ s, Reach w byz first s ∧ Cert w byz s.st 1 first h := by
  classical
  let C : Finset ι := univ \ byz
  have hC : ∀ i ∈ C, i ∉ byz := fun i hi => (mem_sdiff.mp hi).2
  let l := C.toList
  have hl : ∀ i ∈ l, i ∈ C := fun i hi => Finset.mem_toList.mp hi
  -- phase 1: everybody in C times out view 0
  have hr1 := reach_timeoutsOf w byz first l (fun i hi => hC i (hl i hi)) PState.init Reach.init
  obtain ⟨f1, f2, f3, f4, _, _⟩ := timeoutsOf_frame l (PState.init : PState ι)
  have ht : ∀ i ∈ C, (timeoutsOf l PState.init).touts i 0 ⟨none, none⟩ := by
    intro i hi
    have := timeoutsOf_touts l (PState.init : PState ι) i (Finset.mem_toList.mpr hi)
    simpa [PState.init] using this
  have hv : ∀ i ∈ l, (timeoutsOf l PState.init).view i = 0 := by
    intro i _; rw [f2]; rfl
  -- phase 2: everybody in C votes
  obtain ⟨s', hr', hvl, _⟩ := votes_reach w byz first hn hb C hC hq h l (Finset.nodup_toList C) hl _ hr1 ht hv
  exact ⟨s', hr', C, hq, fun i hi _ => hvl i (Finset.mem_toList.mpr hi)⟩

end EraVerif.Safety
