import EraVerif.Proofs.LayerP
import Mathlib.Data.Finset.Max

/-! # The Layer-P invariant is inductive (DESIGN Appendix A), and agreement follows. -/

namespace EraVerif.Safety
open Finset

variable {ι : Type} [Fintype ι] [DecidableEq ι] (w : ι → ℕ) (byz : Finset ι) (first : ℕ)

/-! ## Frame lemmas: certificates only grow, choosable values only shrink -/

theorem cert_mono {s s' : St ι}
    (hv : ∀ i, i ∉ byz → ∀ u x, s.votedAt i u = some x → s'.votedAt i u = some x)
    {u k h : ℕ} (hc : Cert w byz s u k h) : Cert w byz s' u k h := by
  obtain ⟨C, hq, hC⟩ := hc
  exact ⟨C, hq, fun i hi hib => hv i hib u _ (hC i hi hib)⟩

theorem choosable_anti {s s' : St ι}
    (h1 : ∀ i, i ∉ byz → ∀ u x, s'.votedAt i u = some x →
      s.votedAt i u = some x ∨ (s.votedAt i u = none ∧ ¬ s.blocked i u))
    (h2 : ∀ i, i ∉ byz → ∀ u, s'.votedAt i u = none → s.votedAt i u = none)
    (h3 : ∀ i, i ∉ byz → ∀ u, s.blocked i u → s'.blocked i u)
    {u k h : ℕ} (hch : Choosable w byz s' u k h) : Choosable w byz s u k h := by
  obtain ⟨C, hq, hC⟩ := hch
  refine ⟨C, hq, fun i hi hib => ?_⟩
  rcases hC i hi hib with hv | ⟨hv, hnb⟩
  · rcases h1 i hib u _ hv with h | h
    · exact Or.inl h
    · exact Or.inr h
  · exact Or.inr ⟨h2 i hib u hv, fun hb => hnb (h3 i hib u hb)⟩

theorem safe_anti {s s' : St ι}
    (hch : ∀ u k h, Choosable w byz s' u k h → Choosable w byz s u k h)
    {u' k' h' : ℕ} (hs : Safe w byz s u' k' h') : Safe w byz s' u' k' h' :=
  fun u hu k h hc => hs u hu k h (hch u k h hc)

/-! ## `blocked` is monotone along the steps we take -/

theorem blocked_of_view_up {s : PState ι} {i : ι} {u v : ℕ} (hb : s.blocked i u) (hv : s.view i < v) : v > u := by
  rcases hb with h | ⟨h, _⟩ <;> omega

/-! ## Recording a vote -/

section recordVote
variable {w byz first}

/-- a replica that may still vote in view `u'` has not voted there, so recording the vote retracts nothing -/
theorem recordVote_extends {s : PState ι} (hI3 : I3 byz s) {i : ι} (hi : i ∉ byz) {u' k' h' : ℕ} {hq' : Option Ref}
    (hcan : s.canVote i u') :
    ∀ j u x, s.votedAt j u = some x → (s.recordVote i u' k' h' hq').votedAt j u = some x := by
  have hnb : ¬ s.blocked i u' := by
    intro hbl
    rcases hcan with h | ⟨h, hp⟩
    · rcases hbl with h' | ⟨h', _⟩ <;> omega
    · rcases hbl with h' | ⟨_, h'⟩
      · omega
      · exact h' hp
  intro j u x hx
  simp only [PState.recordVote]
  split
  · next hc =>
    obtain ⟨rfl, rfl⟩ := hc
    exact absurd (hI3 j hi u x.1 x.2 (by simpa using hx)) hnb
  · exact hx

theorem recordVote_inv {s : PState ι} (hn : 1 ≤ total w) (hb : wt w byz ≤ faulty w) (hI : Inv w byz first s)
    {i : ι} (hi : i ∉ byz) {u' k' h' : ℕ} {hq' : Option Ref}
    (hcan : s.canVote i u')
    (hsafe : Safe w byz s.st u' k' h')
    (hfirst : first ≤ k')
    (hqcert : ∀ c, hq' = some c → Cert w byz s.st c.view c.num c.hash)
    (hqpar : first < k' → ∃ q, hq' = some q ∧ k' ≤ q.num + 1) :
    Inv w byz first (s.recordVote i u' k' h' hq') := by
  -- facts about the old state
  have hnb : ¬ s.blocked i u' := by
    intro hbl
    rcases hcan with h | ⟨h, hp⟩
    · rcases hbl with h' | ⟨h', _⟩ <;> omega
    · rcases hbl with h' | ⟨_, h'⟩
      · omega
      · exact h' hp
  have hnv : s.votedAt i u' = none := by
    cases hv : s.votedAt i u' with
    | none => rfl
    | some x => exact absurd (hI.i3 i hi u' x.1 x.2 (by simpa using hv)) hnb
  have hview : s.view i ≤ u' := by rcases hcan with h | ⟨h, _⟩ <;> omega
  -- frame facts
  have hvo : ∀ j, j ∉ byz → ∀ u x, s.votedAt j u = some x → (s.recordVote i u' k' h' hq').votedAt j u = some x := by
    intro j _ u x hx
    simp only [PState.recordVote]
    split
    · next hc => obtain ⟨rfl, rfl⟩ := hc; rw [hnv] at hx; cases hx
    · exact hx
  have hbl : ∀ j, j ∉ byz → ∀ u, s.blocked j u → (s.recordVote i u' k' h' hq').blocked j u := by
    intro j _ u hbj
    simp only [PState.blocked, PState.recordVote]
    by_cases hji : j = i
    · subst hji
      simp only [if_true]
      rcases hbj with h | ⟨h, _⟩
      · rcases Nat.lt_or_ge u u' with h1 | h1
        · exact Or.inl h1
        · exact absurd (show s.blocked j u' from Or.inl (by omega)) hnb
      · rcases Nat.lt_or_ge u u' with h1 | h1
        · exact Or.inl h1
        · have : u = u' := by omega
          subst this
          exact Or.inr ⟨rfl, by simp⟩
    · simp only [hji, if_false]; exact hbj
  have hch : ∀ u k h, Choosable w byz (s.recordVote i u' k' h' hq').st u k h → Choosable w byz s.st u k h := by
    intro u k h
    apply choosable_anti w byz
    · intro j _ u x hx
      simp only [PState.st, PState.recordVote] at hx
      split at hx
      · next hc => obtain ⟨rfl, rfl⟩ := hc; exact Or.inr ⟨hnv, hnb⟩
      · exact Or.inl hx
    · intro j _ u hx
      simp only [PState.st, PState.recordVote] at hx
      split at hx
      · cases hx
      · exact hx
    · intro j hj u hbj; exact hbl j hj u hbj
  have hcert : ∀ u k h, Cert w byz s.st u k h → Cert w byz (s.recordVote i u' k' h' hq').st u k h :=
    fun u k h hc => cert_mono w byz (fun j hj u x hx => hvo j hj u x hx) hc
  refine ⟨?_, ?_, ?_, ?_, ?_, ?_, ?_, ?_, ?_⟩
  · -- I1
    intro j hj u2 k2 h2 hv2
    simp only [PState.st, PState.recordVote] at hv2
    split at hv2
    · next hc =>
      obtain ⟨rfl, rfl⟩ := hc
      cases hv2
      exact safe_anti w byz hch hsafe
    · exact safe_anti w byz hch (hI.i1 j hj u2 k2 h2 hv2)
  · -- I2
    intro j hj t r ht u hu
    exact hbl j hj u (hI.i2 j hj t r ht u hu)
  · -- I3
    intro j hj u k h hv
    simp only [PState.recordVote] at hv
    split at hv
    · next hc =>
      obtain ⟨rfl, rfl⟩ := hc
      simp [PState.blocked, PState.recordVote]
    · exact hbl j hj u (hI.i3 j hj u k h hv)
  · -- I4
    intro j hj t r ht
    have hold := hI.i4 j hj t r ht
    have htlt : j = i → t < u' := by
      intro hji; subst hji
      have := hI.i2 j hj t r ht t (le_refl _)
      rcases hcan with h | ⟨h, hp⟩
      · rcases this with h' | ⟨h', _⟩ <;> omega
      · rcases this with h' | ⟨h', h''⟩
        · omega
        · exact absurd hp h''
    have hsame : ∀ u, u ≤ t → (s.recordVote i u' k' h' hq').votedAt j u = s.votedAt j u := by
      intro u hu
      simp only [PState.recordVote]
      split
      · next hc => obtain ⟨rfl, rfl⟩ := hc; have := htlt rfl; omega
      · rfl
    refine ⟨fun hr u hu => ?_, fun x hx => ?_⟩
    · show (s.recordVote i u' k' h' hq').votedAt j u = none
      rw [hsame u hu]; exact hold.1 hr u hu
    · obtain ⟨h1, h2, h3⟩ := hold.2 x hx
      refine ⟨h1, ?_, fun u hu1 hu2 => ?_⟩
      · show (s.recordVote i u' k' h' hq').votedAt j x.view = _
        rw [hsame x.view h1]; exact h2
      · show (s.recordVote i u' k' h' hq').votedAt j u = none
        rw [hsame u hu2]; exact h3 u hu1 hu2
  · -- I5
    intro j hj t r ht c hc
    exact hcert _ _ _ (hI.i5 j hj t r ht c hc)
  · -- I6 (timeouts unchanged)
    exact hI.i6
  · -- I6 live
    intro j hj x hx hfx
    simp only [PState.recordVote] at hx ⊢
    by_cases hji : j = i
    · subst hji
      simp only [if_true] at hx ⊢
      cases hx
      exact hqpar hfx
    · simp only [hji, if_false] at hx ⊢
      exact hI.i6l j hj x hx hfx
  · -- I7
    intro j hj
    by_cases hji : j = i
    · subst hji
      refine ⟨fun hnone => ?_, fun x hx => ?_, fun c hc => ?_⟩
      · simp [PState.recordVote] at hnone
      · simp only [PState.recordVote, if_true] at hx
        cases hx
        refine ⟨by simp [PState.recordVote], fun u hu => ?_⟩
        have hu : u' < u := hu
        simp only [PState.recordVote]
        split
        · next hc => omega
        · cases hv : s.votedAt j u with
          | none => rfl
          | some y =>
            have := hI.i3 j hj u y.1 y.2 (by simpa using hv)
            rcases this with h | ⟨h, _⟩ <;> omega
      · simp only [PState.recordVote, if_true] at hc
        exact hcert _ _ _ (hqcert c hc)
    · obtain ⟨h1, h2, h3⟩ := hI.i7 j hj
      refine ⟨fun hnone u => ?_, fun x hx => ?_, fun c hc => ?_⟩
      · simp only [PState.recordVote, hji, if_false] at hnone
        simp only [PState.recordVote, hji, false_and, if_false]
        exact h1 hnone u
      · simp only [PState.recordVote, hji, if_false] at hx
        obtain ⟨ha, hb'⟩ := h2 x hx
        simp only [PState.recordVote, hji, false_and, if_false]
        exact ⟨ha, hb'⟩
      · simp only [PState.recordVote, hji, if_false] at hc
        exact hcert _ _ _ (h3 c hc)
  · -- I8
    intro j hj u k h hv
    simp only [PState.st, PState.recordVote] at hv
    split at hv
    · cases hv; exact hfirst
    · exact hI.i8 j hj u k h hv

end recordVote

/-! ## Steps that leave the votes unchanged (timeout, advance, learn) -/

section frame
variable {w byz first}

theorem cert_congr {s s' : St ι} (hv : s'.votedAt = s.votedAt) {u k h : ℕ} :
    Cert w byz s' u k h ↔ Cert w byz s u k h := by
  unfold Cert; rw [hv]

theorem frame_inv {s s' : PState ι} (hI : Inv w byz first s)
    (hvot : s'.votedAt = s.votedAt)
    (hbl : ∀ i, i ∉ byz → ∀ u, s.blocked i u → s'.blocked i u)
    (hhv : s'.highVote = s.highVote)
    (htouts : ∀ i, i ∉ byz → ∀ t r, s'.touts i t r → s.touts i t r ∨
      ((∀ u, u ≤ t → s'.blocked i u) ∧ r.hv = s.highVote i ∧ r.hq = s.highQC i ∧
        (∀ x, s.highVote i = some x → x.view ≤ t)))
    (hqc : ∀ i, i ∉ byz → (∀ c, s'.highQC i = some c → Cert w byz s.st c.view c.num c.hash) ∧
      (∀ x, s.highVote i = some x → first < x.num → ∃ q, s'.highQC i = some q ∧ x.num ≤ q.num + 1)) :
    Inv w byz first s' := by
  have hcert : ∀ u k h, Cert w byz s'.st u k h ↔ Cert w byz s.st u k h :=
    fun u k h => cert_congr (s := s.st) (s' := s'.st) hvot
  have hch : ∀ u k h, Choosable w byz s'.st u k h → Choosable w byz s.st u k h := by
    intro u k h
    apply choosable_anti w byz
    · intro j _ u x hx; left; simpa [PState.st, hvot] using hx
    · intro j _ u hx; simpa [PState.st, hvot] using hx
    · intro j hj u hb; exact hbl j hj u hb
  refine ⟨?_, ?_, ?_, ?_, ?_, ?_, ?_, ?_, ?_⟩
  · intro j hj u k h hv
    have hv' : s.votedAt j u = some (k, h) := by simpa [PState.st, hvot] using hv
    exact safe_anti w byz hch (hI.i1 j hj u k h hv')
  · intro j hj t r ht u hu
    rcases htouts j hj t r ht with h | ⟨h, _⟩
    · exact hbl j hj u (hI.i2 j hj t r h u hu)
    · exact h u hu
  · intro j hj u k h hv
    have hv' : s.votedAt j u = some (k, h) := by simpa [hvot] using hv
    exact hbl j hj u (hI.i3 j hj u k h hv')
  · intro j hj t r ht
    have hst : s'.st.votedAt = s.st.votedAt := hvot
    unfold I4 at *
    show (r.hv = none → ∀ u, u ≤ t → s'.st.votedAt j u = none) ∧
      (∀ x, r.hv = some x → x.view ≤ t ∧ s'.st.votedAt j x.view = some (x.num, x.hash) ∧
        ∀ u, x.view < u → u ≤ t → s'.st.votedAt j u = none)
    rw [hst]
    rcases htouts j hj t r ht with h | ⟨_, hhv', _, hle⟩
    · exact hI.i4 j hj t r h
    · obtain ⟨h1, h2, _⟩ := hI.i7 j hj
      refine ⟨fun hr u _ => h1 (hhv' ▸ hr) u, fun x hx => ?_⟩
      have hx' : s.highVote j = some x := hhv' ▸ hx
      obtain ⟨ha, hb'⟩ := h2 x hx'
      exact ⟨hle x hx', ha, fun u hu _ => hb' u hu⟩
  · intro j hj t r ht c hc
    rw [hcert]
    rcases htouts j hj t r ht with h | ⟨_, _, hhq, _⟩
    · exact hI.i5 j hj t r h c hc
    · exact (hI.i7 j hj).2.2 c (hhq ▸ hc)
  · intro j hj t r ht x hx hf
    rcases htouts j hj t r ht with h | ⟨_, hhv', hhq, _⟩
    · exact hI.i6 j hj t r h x hx hf
    · obtain ⟨q, hq, hle⟩ := hI.i6l j hj x (hhv' ▸ hx) hf
      exact ⟨q, hhq ▸ hq, hle⟩
  · intro j hj x hx hf
    rw [hhv] at hx
    exact (hqc j hj).2 x hx hf
  · intro j hj
    obtain ⟨h1, h2, _⟩ := hI.i7 j hj
    rw [hhv, hvot]
    refine ⟨h1, h2, fun c hc => ?_⟩
    rw [hcert]
    exact (hqc j hj).1 c hc
  · intro j hj u k h hv
    have hv' : s.votedAt j u = some (k, h) := by simpa [PState.st, hvot] using hv
    exact hI.i8 j hj u k h hv'

end frame

/-! ## Certificates are ordered: a certificate of a higher (or equal) view is for a block at least as high -/

section order
variable {w byz first}

theorem cert_num_le {s : St ι} (hn : 1 ≤ total w) (hb : wt w byz ≤ faulty w) (hI1 : I1 w byz s)
    {a b : Ref} (ha : Cert w byz s a.view a.num a.hash) (hb' : Cert w byz s b.view b.num b.hash)
    (hle : a.view ≤ b.view) : a.num ≤ b.num := by
  rcases Nat.lt_or_ge a.view b.view with h | h
  · exact (cert_monotone w byz s hn hb hI1 ha hb' h).1
  · have he : a.view = b.view := by omega
    have := cert_unique w byz s hn hb (u := b.view) hb' (he ▸ ha)
    omega

theorem maxQC_spec {s : St ι} (hn : 1 ≤ total w) (hb : wt w byz ≤ faulty w) (hI1 : I1 w byz s)
    {old : Option Ref} {c : Ref}
    (hold : ∀ o, old = some o → Cert w byz s o.view o.num o.hash)
    (hc : Cert w byz s c.view c.num c.hash) :
    ∃ q, maxQC old c = some q ∧ Cert w byz s q.view q.num q.hash ∧ c.num ≤ q.num ∧
      (∀ o, old = some o → o.num ≤ q.num) := by
  unfold maxQC
  cases old with
  | none => exact ⟨c, rfl, hc, le_refl _, fun o ho => by cases ho⟩
  | some o =>
    have ho := hold o rfl
    simp only
    split
    · next hlt =>
      refine ⟨c, rfl, hc, le_refl _, fun o' ho' => ?_⟩
      cases ho'
      exact cert_num_le hn hb hI1 ho hc (by omega)
    · next hge =>
      refine ⟨o, rfl, ho, cert_num_le hn hb hI1 hc ho (by omega), fun o' ho' => ?_⟩
      cases ho'; exact le_refl _

theorem faulty_lt_subq (hn : 1 ≤ total w) : faulty w < subq w := by
  unfold subq faulty; omega

theorem exists_correct_of_weight {A : Finset ι} (hb : wt w byz ≤ faulty w) (hA : faulty w < wt w A) :
    ∃ i, i ∈ A ∧ i ∉ byz := by
  by_contra hne
  have hsub : A ⊆ byz := by
    intro x hx; by_contra hx'; exact hne ⟨x, hx, hx'⟩
  have := wt_mono w hsub
  omega

theorem cert_ge_first {s : St ι} (hn : 1 ≤ total w) (hb : wt w byz ≤ faulty w) (hI8 : I8 byz first s)
    {u k h : ℕ} (hc : Cert w byz s u k h) : first ≤ k := by
  obtain ⟨C, hq, hC⟩ := hc
  obtain ⟨i, hi, hib⟩ := quorum_has_correct w byz C hn hb hq
  exact hI8 i hib u k h (hC i hi hib)

/-- a block reported as high vote by at least the sub-quorum was reported by a correct validator -/
theorem hv_has_correct_reporter {s : St ι} (hn : 1 ≤ total w) (hb : wt w byz ≤ faulty w)
    {q : TQC ι} (hv : q.valid w byz s) {k h : ℕ} (hr : subq w ≤ wt w (q.reporters k h)) :
    ∃ i, i ∈ q.signers ∧ i ∉ byz ∧ s.touts i q.view (q.rep i) ∧
      ∃ x, (q.rep i).hv = some x ∧ x.num = k ∧ x.hash = h := by
  have hlt := faulty_lt_subq (w := w) hn
  obtain ⟨i, hi, hib⟩ := exists_correct_of_weight (w := w) (byz := byz) hb (A := q.reporters k h) (by omega)
  simp only [TQC.reporters, mem_filter] at hi
  exact ⟨i, hi.1, hib, hv.2.1 i hi.1 hib, hi.2⟩

end order

/-! ## Every step preserves the invariant -/

section steps
variable {w byz first}

theorem step_inv {s s' : PState ι} (hn : 1 ≤ total w) (hb : wt w byz ≤ faulty w)
    (hI : Inv w byz first s) (hs : Step w byz first s s') : Inv w byz first s' := by
  cases hs with
  | voteCommit i hi c h' hc hcan =>
    have hold : ∀ o, s.highQC i = some o → Cert w byz s.st o.view o.num o.hash := (hI.i7 i hi).2.2
    obtain ⟨q, hq, hqc, hle, _⟩ := maxQC_spec hn hb hI.i1 hold hc
    refine recordVote_inv hn hb hI hi hcan (safe_of_commit_cert w byz s.st hn hb hI.i1 c.view c.num c.hash hc h') ?_ ?_ ?_
    · have := cert_ge_first (first := first) hn hb hI.i8 hc; omega
    · intro c' hc'; rw [hq] at hc'; cases hc'; exact hqc
    · intro _; exact ⟨q, hq, by omega⟩
  | voteTimeout i hi q k' oh h' hv him hconf hcan hq' hhq =>
    have hsafe := safe_of_timeout_cert w byz first s.st hn hb hI.i1 hI.i2 hI.i4 hI.i6 hI.i8 q hv k' oh him h' hconf
    have hold : ∀ o, s.highQC i = some o → Cert w byz s.st o.view o.num o.hash := (hI.i7 i hi).2.2
    -- every reported certificate is a certificate
    have hrep : ∀ c, q.isHQ c → Cert w byz s.st c.view c.num c.hash := by
      intro c ⟨⟨j, hj, hjc⟩, _⟩; exact hv.2.2 j hj c hjc
    -- two maximal reported certificates are for the same number
    have hhqnum : ∀ c c', q.isHQ c → q.isHQ c' → c.num = c'.num := by
      intro c c' h1 h2
      have hc := hrep c h1
      have hc' := hrep c' h2
      obtain ⟨⟨j, hj, hjc⟩, hmax⟩ := h1
      obtain ⟨⟨j', hj', hjc'⟩, hmax'⟩ := h2
      have e1 := hmax j' hj' c' hjc'
      have e2 := hmax' j hj c hjc
      have a := cert_num_le hn hb hI.i1 hc hc' (by omega)
      have b := cert_num_le hn hb hI.i1 hc' hc (by omega)
      omega
    -- the adopted high certificate
    have hq'cert : ∀ c, hq' = some c → Cert w byz s.st c.view c.num c.hash := by
      intro c hc
      rcases hhq with ⟨_, he⟩ | ⟨c0, hc0, he⟩
      · exact hold c (he ▸ hc)
      · obtain ⟨qq, hqq, hcert, _, _⟩ := maxQC_spec hn hb hI.i1 hold (hrep c0 hc0)
        rw [he, hqq] at hc; cases hc; exact hcert
    have hq'ge : ∀ c, q.isHQ c → ∃ qq, hq' = some qq ∧ c.num ≤ qq.num := by
      intro c hc
      rcases hhq with ⟨hno, _⟩ | ⟨c0, hc0, he⟩
      · obtain ⟨⟨j, hj, hjc⟩, _⟩ := hc
        have := hno j hj; rw [hjc] at this; cases this
      · obtain ⟨qq, hqq, _, hle, _⟩ := maxQC_spec hn hb hI.i1 hold (hrep c0 hc0)
        exact ⟨qq, he ▸ hqq, by have := hhqnum c c0 hc hc0; omega⟩
    -- a correct reporter of the high vote (k,h) and what I6 gives for it
    have hrepHV : ∀ k h, q.isHV w k h → first < k →
        ∃ c, q.isHQ c ∧ k ≤ c.num + 1 := by
      intro k h hhv hfk
      obtain ⟨j, hjS, hjb, hjt, x, hx, hxk, _⟩ := hv_has_correct_reporter hn hb hv hhv.1
      obtain ⟨qj, hqj, hqle⟩ := hI.i6 j hjb _ _ hjt x hx (by omega)
      -- some reported certificate exists, so a maximal one exists
      by_contra hne
      -- pick the maximal-view reported certificate among signers: use classical choice on a finite set
      have hex : ∃ c, q.isHQ c := by
        classical
        let S := q.signers.filter (fun i => ((q.rep i).hq).isSome)
        have hSne : S.Nonempty := ⟨j, by simp [S, hjS, hqj]⟩
        obtain ⟨m, hm, hmax⟩ := S.exists_max_image (fun i => match (q.rep i).hq with | some c => c.view | none => 0) hSne
        simp only [S, mem_filter] at hm
        cases hmc : (q.rep m).hq with
        | none => rw [hmc] at hm; simp at hm
        | some cm =>
          refine ⟨cm, ⟨m, hm.1, hmc⟩, fun i' hi' c' hc' => ?_⟩
          have := hmax i' (by simp [S, hi', hc'])
          simpa [hc', hmc] using this
      obtain ⟨c, hc⟩ := hex
      apply hne
      refine ⟨c, hc, ?_⟩
      have hcj := hv.2.2 j hjS qj hqj
      have hle := hc.2 j hjS qj hqj
      have := cert_num_le hn hb hI.i1 hcj (hrep c hc) hle
      omega
    refine recordVote_inv hn hb hI hi hcan hsafe ?_ hq'cert ?_
    · -- first ≤ k'
      rcases him with ⟨k, h, hhv, _, hk, _⟩ | ⟨k, h, c, hhv, _, _, hk, _⟩ |
          ⟨k, h, c, _, hc, _, hk, _⟩ | ⟨c, _, hc, hk, _⟩ | ⟨_, _, hk, _⟩
      · obtain ⟨j, _, hjb, hjt, x, hx, hxk, _⟩ := hv_has_correct_reporter hn hb hv hhv.1
        have := (hI.i4 j hjb _ _ hjt).2 x hx
        have := hI.i8 j hjb x.view x.num x.hash this.2.1
        omega
      · obtain ⟨j, _, hjb, hjt, x, hx, hxk, _⟩ := hv_has_correct_reporter hn hb hv hhv.1
        have := (hI.i4 j hjb _ _ hjt).2 x hx
        have := hI.i8 j hjb x.view x.num x.hash this.2.1
        omega
      · have := cert_ge_first (first := first) hn hb hI.i8 (hrep c hc); omega
      · have := cert_ge_first (first := first) hn hb hI.i8 (hrep c hc); omega
      · omega
    · -- parent certificate
      intro hfk
      rcases him with ⟨k, h, hhv, hnq, hk, _⟩ | ⟨k, h, c, hhv, hc, _, hk, _⟩ |
          ⟨k, h, c, _, hc, _, hk, _⟩ | ⟨c, _, hc, hk, _⟩ | ⟨_, _, hk, _⟩
      · obtain ⟨c, hc, _⟩ := hrepHV k h hhv (by omega)
        obtain ⟨⟨j, hj, hjc⟩, _⟩ := hc
        have := hnq j hj; rw [hjc] at this; cases this
      · obtain ⟨c0, hc0, hle⟩ := hrepHV k h hhv (by omega)
        obtain ⟨qq, hqq, hge⟩ := hq'ge c0 hc0
        exact ⟨qq, hqq, by omega⟩
      · obtain ⟨qq, hqq, hge⟩ := hq'ge c hc
        exact ⟨qq, hqq, by omega⟩
      · obtain ⟨qq, hqq, hge⟩ := hq'ge c hc
        exact ⟨qq, hqq, by omega⟩
      · omega
  | timeout i hi =>
    refine frame_inv hI rfl ?_ rfl ?_ ?_
    · intro j _ u hbj
      simp only [PState.blocked] at hbj ⊢
      by_cases hji : j = i
      · subst hji
        rcases hbj with h | ⟨h, _⟩
        · exact Or.inl h
        · exact Or.inr ⟨h, by simp⟩
      · simpa [hji] using hbj
    · intro j hj t r ht
      rcases ht with h | ⟨rfl, rfl, rfl⟩
      · exact Or.inl h
      · right
        refine ⟨fun u hu => ?_, rfl, rfl, fun x hx => ?_⟩
        · simp only [PState.blocked, if_true]
          rcases Nat.lt_or_ge u (s.view j) with h | h
          · exact Or.inl h
          · exact Or.inr ⟨by omega, by simp⟩
        · have := (hI.i7 j hj).2.1 x hx
          have := hI.i3 j hj x.view x.num x.hash this.1
          rcases this with h | ⟨h, _⟩ <;> omega
    · intro j hj
      exact ⟨(hI.i7 j hj).2.2, hI.i6l j hj⟩
  | advance i hi v hv =>
    refine frame_inv hI rfl ?_ rfl ?_ ?_
    · intro j _ u hbj
      simp only [PState.blocked] at hbj ⊢
      by_cases hji : j = i
      · subst hji
        simp only [if_true]
        rcases hbj with h | ⟨h, _⟩ <;> exact Or.inl (by omega)
      · simpa [hji] using hbj
    · intro j _ t r ht; exact Or.inl ht
    · intro j hj
      exact ⟨(hI.i7 j hj).2.2, hI.i6l j hj⟩
  | learn i hi c hc =>
    refine frame_inv hI rfl ?_ rfl ?_ ?_
    · intro j _ u hbj; exact hbj
    · intro j _ t r ht; exact Or.inl ht
    · intro j hj
      by_cases hji : j = i
      · subst hji
        have hold : ∀ o, s.highQC j = some o → Cert w byz s.st o.view o.num o.hash := (hI.i7 j hj).2.2
        obtain ⟨qq, hqq, hcert, _, hge⟩ := maxQC_spec hn hb hI.i1 hold hc
        refine ⟨fun c' hc' => ?_, fun x hx hf => ?_⟩
        · simp only [if_true] at hc'; rw [hqq] at hc'; cases hc'; exact hcert
        · obtain ⟨o, ho, hle⟩ := hI.i6l j hj x hx hf
          refine ⟨qq, by simp [hqq], ?_⟩
          have := hge o ho; omega
      · simp only [hji, if_false]
        exact ⟨(hI.i7 j hj).2.2, hI.i6l j hj⟩

theorem init_inv : Inv w byz first (PState.init : PState ι) := by
  refine ⟨?_, ?_, ?_, ?_, ?_, ?_, ?_, ?_, ?_⟩
  · intro i _ u k h hv; simp [PState.st, PState.init] at hv
  · intro i _ t r ht; simp [PState.st, PState.init] at ht
  · intro i _ u k h hv; simp [PState.init] at hv
  · intro i _ t r ht; simp [PState.st, PState.init] at ht
  · intro i _ t r ht; simp [PState.init] at ht
  · intro i _ t r ht; simp [PState.st, PState.init] at ht
  · intro i _ x hx; simp [PState.init] at hx
  · intro i _
    refine ⟨fun _ u => rfl, fun x hx => ?_, fun c hc => ?_⟩
    · simp [PState.init] at hx
    · simp [PState.init] at hc
  · intro i _ u k h hv; simp [PState.st, PState.init] at hv

/-- the invariant holds in every reachable state: any interleaving of votes, timeouts, view changes and
certificate learning by correct replicas, with at most `f` weight of validators Byzantine -/
theorem inv_reachable {s : PState ι} (hn : 1 ≤ total w) (hb : wt w byz ≤ faulty w)
    (hr : Reach w byz first s) : Inv w byz first s := by
  induction hr with
  | init => exact init_inv
  | step _ hs ih => exact step_inv hn hb ih hs

end steps

end EraVerif.Safety
