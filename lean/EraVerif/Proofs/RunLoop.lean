import EraVerif.Model.RunLoop
import EraVerif.Proofs.Mpsc
import EraVerif.Props.C05

/-!
Helper definitions and lemmas for `Props/C05loop.lean` (the replica's message loop). Core Lean only.

The loop's behaviour is decomposed into basic moves (`Move`); every `run` is a sequence of moves (`run_reach`), so an
invariant of the moves holds in every state the loop goes through (`run_inv`).
-/

namespace EraVerif.Proofs.RunLoop
open EraVerif.Model EraVerif.Model.RunLoop
open EraVerif.Proofs.ReplicaStep

/-! ## Basic moves -/

/-- the state in which the prologue of `run` / the first `recv` executes: `StateMachine::start` armed the timer -/
def armed (cfg : LCfg) (s : St) : St := { s with deadline := s.now + cfg.viewTimeout, mode := .recv }

/-- the moves of the replica task -/
inductive LMove (cfg : LCfg) : St → St → Prop
  /-- task start in view 0: `start_timeout` before the first `recv` -/
  | boot (s : St) (e : Env) (hm : s.mode = .idle) (hv : s.r.view = 0) :
      LMove cfg s (record cfg (armed cfg s) .boot e (step cfg.rc s.r e .tick))
  /-- task start in a later view -/
  | begin (s : St) (hm : s.mode = .idle) (hv : s.r.view ≠ 0) : LMove cfg s (armed cfg s)
  /-- `recv` returns the front request and its handler runs to its end (or for ever) -/
  | pop (s : St) (q : Req) (rest : List Req) (e : Env) (hm : s.mode = .recv) (hp : s.pending = q :: rest) :
      LMove cfg s (record cfg { s with pending := rest } (.msg q) e (step cfg.rc s.r e (.msg q.s)))
  /-- `recv` returns the front request, a proposal, whose handler starts waiting for the previous block -/
  | park (s : St) (q : Req) (rest : List Req) (hm : s.mode = .recv) (hp : s.pending = q :: rest)
      (hd : s.now < s.deadline) : LMove cfg s { s with pending := rest, mode := .waitPrev q }
  /-- the waiting handler continues (block arrived, or the view deadline passed) -/
  | resume (s : St) (q : Req) (e : Env) (hm : s.mode = .waitPrev q) :
      LMove cfg s (record cfg s (.msg q) e (step cfg.rc s.r e (.msg q.s)))
  /-- `recv` times out with an empty channel -/
  | timer (s : St) (e : Env) (hm : s.mode = .recv) (hp : s.pending = []) (hd : s.deadline ≤ s.now) :
      LMove cfg s (record cfg s .timer e (step cfg.rc s.r e .tick))

inductive Move (cfg : LCfg) : St → St → Prop
  | arrive (s : St) (q : Req) : Move cfg s (apply cfg s (.arrive q))
  | advance (s : St) (dt : Nat) : Move cfg s (apply cfg s (.advance dt))
  | restart (s : St) : Move cfg s (apply cfg s .restart)
  | loop {s s' : St} (h : LMove cfg s s') : Move cfg s s'

/-- what the task does between two blocking points -/
inductive LReach (cfg : LCfg) : St → St → Prop
  | refl (s : St) : LReach cfg s s
  | tail {a b c : St} : LReach cfg a b → LMove cfg b c → LReach cfg a c

theorem LReach.trans {cfg : LCfg} {a b c : St} (h1 : LReach cfg a b) (h2 : LReach cfg b c) : LReach cfg a c := by
  induction h2 with
  | refl => exact h1
  | tail _ hm ih => exact LReach.tail ih hm

theorem LReach.single {cfg : LCfg} {a b : St} (h : LMove cfg a b) : LReach cfg a b := LReach.tail (LReach.refl a) h

inductive Reach (cfg : LCfg) : St → St → Prop
  | refl (s : St) : Reach cfg s s
  | tail {a b c : St} : Reach cfg a b → Move cfg b c → Reach cfg a c

theorem Reach.trans {cfg : LCfg} {a b c : St} (h1 : Reach cfg a b) (h2 : Reach cfg b c) : Reach cfg a c := by
  induction h2 with
  | refl => exact h1
  | tail _ hm ih => exact Reach.tail ih hm

theorem Reach.single {cfg : LCfg} {a b : St} (h : Move cfg a b) : Reach cfg a b := Reach.tail (Reach.refl a) h

theorem iter_lmove {cfg : LCfg} {envf : EnvF} {s s' : St} (h : iter cfg envf s = some s') : LMove cfg s s' := by
  unfold iter at h
  split at h
  · cases h
  · cases h
  · rename_i q hm
    simp only at h
    split at h
    · cases h
    · cases h; exact LMove.resume s q _ hm
  · rename_i hm
    split at h
    · rename_i q rest hp
      simp only at h
      split at h
      · rename_i hw
        cases h
        have hd : s.now < s.deadline := by
          simp only [Bool.and_eq_true, decide_eq_true_eq] at hw
          exact hw.2
        exact LMove.park s q rest hm hp hd
      · cases h; exact LMove.pop s q rest _ hm hp
    · rename_i hp
      split at h
      · cases h
      · rename_i hd
        cases h
        exact LMove.timer s _ hm hp (by omega)

theorem start_lmove {cfg : LCfg} (envf : EnvF) {s : St} (hm : s.mode = .idle) : LMove cfg s (start cfg envf s) := by
  unfold start
  simp only
  split
  · rename_i hv
    exact LMove.boot s _ hm hv
  · rename_i hv
    exact LMove.begin s hm hv

theorem iterN_lreach (cfg : LCfg) (envf : EnvF) (n : Nat) (s : St) : LReach cfg s (iterN cfg envf n s) := by
  induction n generalizing s with
  | zero => exact LReach.refl s
  | succ n ih =>
    unfold iterN
    split
    · exact LReach.refl s
    · rename_i s' h
      exact (LReach.single (iter_lmove h)).trans (ih s')

theorem quiesce_lreach (cfg : LCfg) (envf : EnvF) (s : St) : LReach cfg s (quiesce cfg envf s) := by
  unfold quiesce
  simp only
  split
  · rename_i hm
    exact (LReach.single (start_lmove envf hm)).trans (iterN_lreach cfg envf _ _)
  · exact iterN_lreach cfg envf _ _

theorem LReach.toReach {cfg : LCfg} {a b : St} (h : LReach cfg a b) : Reach cfg a b := by
  induction h with
  | refl => exact Reach.refl _
  | tail _ hm ih => exact Reach.tail ih (Move.loop hm)

theorem quiesce_reach (cfg : LCfg) (envf : EnvF) (s : St) : Reach cfg s (quiesce cfg envf s) :=
  (quiesce_lreach cfg envf s).toReach

theorem apply_reach (cfg : LCfg) (s : St) (e : Ev) : Reach cfg s (apply cfg s e) := by
  cases e with
  | arrive q => exact Reach.single (Move.arrive s q)
  | advance dt => exact Reach.single (Move.advance s dt)
  | quiesce envf => exact quiesce_reach cfg envf s
  | restart => exact Reach.single (Move.restart s)

theorem runFrom_reach (cfg : LCfg) (evs : List Ev) (s : St) : Reach cfg s (runFrom cfg s evs) := by
  induction evs generalizing s with
  | nil => exact Reach.refl s
  | cons e es ih => exact (apply_reach cfg s e).trans (ih (apply cfg s e))

theorem run_reach (cfg : LCfg) (evs : List Ev) : Reach cfg St.init (run cfg evs) := runFrom_reach cfg evs St.init

/-- an invariant of the moves holds along every path -/
theorem reach_inv {cfg : LCfg} {I : St → Prop} (hstep : ∀ s s', I s → Move cfg s s' → I s') {a b : St}
    (h : Reach cfg a b) (ha : I a) : I b := by
  induction h with
  | refl => exact ha
  | tail _ hm ih => exact hstep _ _ ih hm

theorem run_inv {cfg : LCfg} {I : St → Prop} (h0 : I St.init) (hstep : ∀ s s', I s → Move cfg s s' → I s')
    (evs : List Ev) : I (run cfg evs) := reach_inv hstep (run_reach cfg evs) h0

theorem runFrom_append (cfg : LCfg) (s : St) (a b : List Ev) :
    runFrom cfg s (a ++ b) = runFrom cfg (runFrom cfg s a) b := by
  simp [runFrom, List.foldl_append]

theorem run_snoc (cfg : LCfg) (evs : List Ev) (e : Ev) : run cfg (evs ++ [e]) = apply cfg (run cfg evs) e := by
  simp [run, runFrom, List.foldl_append]

/-! ## `record` -/

@[simp] theorem record_pending (cfg : LCfg) (s : St) (src : Src) (e : Env) (res : StepRes) :
    (record cfg s src e res).pending = s.pending := rfl
@[simp] theorem record_now (cfg : LCfg) (s : St) (src : Src) (e : Env) (res : StepRes) :
    (record cfg s src e res).now = s.now := rfl
@[simp] theorem record_closed (cfg : LCfg) (s : St) (src : Src) (e : Env) (res : StepRes) :
    (record cfg s src e res).closed = s.closed := rfl
@[simp] theorem record_disk (cfg : LCfg) (s : St) (src : Src) (e : Env) (res : StepRes) :
    (record cfg s src e res).disk = lastPersist s.disk res.effs := rfl
@[simp] theorem record_r (cfg : LCfg) (s : St) (src : Src) (e : Env) (res : StepRes) :
    (record cfg s src e res).r = if returned res.out then res.r else s.r := rfl
@[simp] theorem record_deadline (cfg : LCfg) (s : St) (src : Src) (e : Env) (res : StepRes) :
    (record cfg s src e res).deadline = if !src.isMsg || ranNewView res then s.now + cfg.viewTimeout else s.deadline := rfl
@[simp] theorem record_mode (cfg : LCfg) (s : St) (src : Src) (e : Env) (res : StepRes) :
    (record cfg s src e res).mode =
      if returned res.out then .recv else .dead (match src with | .msg q => some q | _ => none) := rfl

/-- the round `record` appends -/
def roundOf (s : St) (src : Src) (e : Env) (res : StepRes) : Round :=
  { src := src, now := s.now, deadline := s.deadline, env := e, pre := s.r, disk := s.disk, res := res,
    acked := src.isMsg && returned res.out }

@[simp] theorem record_hist (cfg : LCfg) (s : St) (src : Src) (e : Env) (res : StepRes) :
    (record cfg s src e res).hist = s.hist ++ [roundOf s src e res] := rfl

/-- every move only appends to the history -/
theorem lmove_hist {cfg : LCfg} {s s' : St} (h : LMove cfg s s') :
    s'.hist = s.hist ∨ ∃ rd, s'.hist = s.hist ++ [rd] := by
  cases h with
  | boot e hm hv => exact Or.inr ⟨_, rfl⟩
  | begin hm hv => exact Or.inl rfl
  | pop q rest e hm hp => exact Or.inr ⟨_, rfl⟩
  | park q rest hm hp hd => exact Or.inl rfl
  | resume q e hm => exact Or.inr ⟨_, rfl⟩
  | timer e hm hp hd => exact Or.inr ⟨_, rfl⟩

theorem move_hist {cfg : LCfg} {s s' : St} (h : Move cfg s s') :
    s'.hist = s.hist ∨ ∃ rd, s'.hist = s.hist ++ [rd] := by
  cases h with
  | arrive q => exact Or.inl rfl
  | advance dt => exact Or.inl rfl
  | restart => exact Or.inl rfl
  | loop hl => exact lmove_hist hl

theorem reach_hist {cfg : LCfg} {a b : St} (h : Reach cfg a b) : ∃ rest, b.hist = a.hist ++ rest := by
  induction h with
  | refl => exact ⟨[], by simp⟩
  | tail _ hm ih =>
    obtain ⟨rest, hr⟩ := ih
    rcases move_hist hm with h | ⟨rd, h⟩
    · exact ⟨rest, by rw [h, hr]⟩
    · exact ⟨rest ++ [rd], by rw [h, hr, List.append_assoc]⟩

/-! ## `lastPersist` agrees with the one of `Props/C05` -/

theorem lastPersist_eq (disk : Option Durable) (effs : List Effect) :
    lastPersist disk effs = EraVerif.Props.C05.lastPersist disk effs := by
  induction effs generalizing disk with
  | nil => rfl
  | cons x xs ih =>
    cases x with
    | persist d => simp only [lastPersist, EraVerif.Props.C05.lastPersist]; exact ih _
    | send m => simp only [lastPersist, EraVerif.Props.C05.lastPersist]; exact ih _
    | notify j => simp only [lastPersist, EraVerif.Props.C05.lastPersist]; exact ih _
    | queueBlock n p q => simp only [lastPersist, EraVerif.Props.C05.lastPersist]; exact ih _

theorem lastPersist_onlyQueue (disk : Option Durable) (effs : List Effect) (h : OnlyQueue effs) :
    lastPersist disk effs = disk := by
  induction effs generalizing disk with
  | nil => rfl
  | cons x xs ih =>
    obtain ⟨n, p, q, hx⟩ := h x List.mem_cons_self
    subst hx
    simp only [lastPersist]
    exact ih disk (fun y hy => h y (List.mem_cons_of_mem _ hy))

/-! ## Every state the loop goes through is reachable in the sense of C05 -/

theorem src_input_not_restart (src : Src) : ∀ b, src.input ≠ .restart b := by
  intro b; cases src <;> simp [Src.input]

/-- the replica state and disk after a handler call made from a reachable state are reachable -/
theorem record_reachable {cfg : LCfg} {s : St} (src : Src) (e : Env)
    (h : EraVerif.Props.C05.Reachable cfg.rc s.r s.disk) :
    EraVerif.Props.C05.Reachable cfg.rc (record cfg s src e (step cfg.rc s.r e src.input)).r
      (record cfg s src e (step cfg.rc s.r e src.input)).disk := by
  have hw := (EraVerif.Props.C05.reachable_wf cfg.rc s.r s.disk h).1
  have hin := src_input_not_restart src
  simp only [record_r, record_disk]
  rcases step_wf hw e src.input hin with ⟨w, hr⟩ | ⟨hb, hq⟩ | ⟨hacc, _⟩
  · obtain ⟨h1, h2⟩ := step_rejected hr
    rw [hr, h2]
    simp only [returned, if_true, lastPersist]
    rw [h1]
    exact h
  · rw [hb]
    simp only [returned, Bool.false_eq_true, if_false]
    rw [lastPersist_onlyQueue _ _ hq]
    exact h
  · rw [hacc]
    simp only [returned, if_true]
    rw [lastPersist_eq]
    exact EraVerif.Props.C05.Reachable.step e src.input h hin hacc

def CReach (cfg : LCfg) (s : St) : Prop := EraVerif.Props.C05.Reachable cfg.rc s.r s.disk

theorem move_creach {cfg : LCfg} {s s' : St} (hI : CReach cfg s) (h : Move cfg s s') : CReach cfg s' := by
  cases h with
  | arrive q => exact hI
  | advance dt => exact hI
  | restart => exact EraVerif.Props.C05.Reachable.crash hI
  | loop hl =>
    cases hl with
    | boot e hm hv => exact record_reachable (s := armed cfg s) .boot e hI
    | begin hm hv => exact hI
    | pop q rest e hm hp => exact record_reachable (s := { s with pending := rest }) (.msg q) e hI
    | park q rest hm hp hd => exact hI
    | resume q e hm => exact record_reachable (.msg q) e hI
    | timer e hm hp hd => exact record_reachable .timer e hI

theorem init_creach (cfg : LCfg) : CReach cfg St.init := EraVerif.Props.C05.Reachable.init

/-! ## Moves, seen from the replica: nothing, a restart, or one handler call -/

theorem move_cases {cfg : LCfg} {s s' : St} (h : Move cfg s s') :
    (s'.hist = s.hist ∧ s'.r = s.r ∧ s'.disk = s.disk) ∨
    (s'.hist = s.hist ∧ s'.r = Replica.start s.disk ∧ s'.disk = s.disk) ∨
    (∃ s0 src e, s0.r = s.r ∧ s0.disk = s.disk ∧ s0.hist = s.hist ∧ s0.now = s.now ∧
        (src = .timer → s0.deadline ≤ s0.now) ∧ (src = .boot → s.r.view = 0 ∧ s.mode = .idle) ∧
        s' = record cfg s0 src e (step cfg.rc s.r e src.input)) := by
  cases h with
  | arrive q => exact Or.inl ⟨rfl, rfl, rfl⟩
  | advance dt => exact Or.inl ⟨rfl, rfl, rfl⟩
  | restart => exact Or.inr (Or.inl ⟨rfl, rfl, rfl⟩)
  | loop hl =>
    cases hl with
    | boot e hm hv =>
      exact Or.inr (Or.inr ⟨armed cfg s, .boot, e, rfl, rfl, rfl, rfl, (fun h => by cases h), (fun _ => ⟨hv, hm⟩), rfl⟩)
    | begin hm hv => exact Or.inl ⟨rfl, rfl, rfl⟩
    | pop q rest e hm hp =>
      exact Or.inr (Or.inr ⟨{ s with pending := rest }, .msg q, e, rfl, rfl, rfl, rfl, (fun h => by cases h),
        (fun h => by cases h), rfl⟩)
    | park q rest hm hp hd => exact Or.inl ⟨rfl, rfl, rfl⟩
    | resume q e hm =>
      exact Or.inr (Or.inr ⟨s, .msg q, e, rfl, rfl, rfl, rfl, (fun h => by cases h), (fun h => by cases h), rfl⟩)
    | timer e hm hp hd =>
      exact Or.inr (Or.inr ⟨s, .timer, e, rfl, rfl, rfl, rfl, (fun _ => hd), (fun h => by cases h), rfl⟩)

/-! ## Every recorded round is a handler call of the replica model from a reachable state -/

structure RoundOk (cfg : LCfg) (rd : Round) : Prop where
  isStep : rd.res = step cfg.rc rd.pre rd.env rd.src.input
  reach : EraVerif.Props.C05.Reachable cfg.rc rd.pre rd.disk
  acked : rd.acked = (rd.src.isMsg && returned rd.res.out)
  timer : rd.src = .timer → rd.deadline ≤ rd.now
  boot : rd.src = .boot → rd.pre.view = 0

def HistOk (cfg : LCfg) (s : St) : Prop := CReach cfg s ∧ ∀ rd ∈ s.hist, RoundOk cfg rd

theorem init_histOk (cfg : LCfg) : HistOk cfg St.init := ⟨init_creach cfg, by intro rd h; cases h⟩

theorem move_histOk {cfg : LCfg} {s s' : St} (hI : HistOk cfg s) (h : Move cfg s s') : HistOk cfg s' := by
  refine ⟨move_creach hI.1 h, ?_⟩
  rcases move_cases h with ⟨hh, _, _⟩ | ⟨hh, _, _⟩ | ⟨s0, src, e, hr, hd, hh, hn, htm, hbt, rfl⟩
  · rw [hh]; exact hI.2
  · rw [hh]; exact hI.2
  · intro rd hrd
    rw [record_hist, List.mem_append, List.mem_singleton, hh] at hrd
    rcases hrd with hrd | rfl
    · exact hI.2 rd hrd
    · refine ⟨?_, ?_, rfl, htm, ?_⟩
      · show step cfg.rc s.r e src.input = step cfg.rc s0.r e src.input
        rw [hr]
      · show EraVerif.Props.C05.Reachable cfg.rc s0.r s0.disk
        rw [hr, hd]; exact hI.1
      · intro hb
        show s0.r.view = 0
        rw [hr]; exact (hbt hb).1

theorem run_histOk (cfg : LCfg) (evs : List Ev) : HistOk cfg (run cfg evs) :=
  run_inv (init_histOk cfg) (fun _ _ hI h => move_histOk hI h) evs

/-! ## The rounds chain: each starts where the previous one ended, or from a restart off the disk it left -/

/-- the replica state the loop continues with after a round -/
def post (rd : Round) : Replica := if returned rd.res.out then rd.res.r else rd.pre
/-- the disk after a round -/
def diskAfter (rd : Round) : Option Durable := lastPersist rd.disk rd.res.effs

def Linked (a b : Round) : Prop := b.disk = diskAfter a ∧ (b.pre = post a ∨ b.pre = Replica.start b.disk)

def Chained : List Round → Prop
  | [] => True
  | [_] => True
  | a :: b :: rest => Linked a b ∧ Chained (b :: rest)

theorem chained_snoc (h : List Round) (rd : Round) :
    Chained (h ++ [rd]) ↔ Chained h ∧ (∀ l, h.getLast? = some l → Linked l rd) := by
  induction h with
  | nil => simp [Chained]
  | cons a t ih =>
    cases t with
    | nil => simp [Chained]
    | cons b t' =>
      have : (a :: b :: t').getLast? = (b :: t').getLast? := by simp [List.getLast?_cons_cons]
      simp only [List.cons_append, Chained, this]
      rw [show b :: (t' ++ [rd]) = (b :: t') ++ [rd] from rfl, ih]
      constructor
      · rintro ⟨h1, h2, h3⟩; exact ⟨⟨h1, h2⟩, h3⟩
      · rintro ⟨⟨h1, h2⟩, h3⟩; exact ⟨h1, h2, h3⟩

/-- the current state continues the history -/
def Tip (s : St) : Prop :=
  (s.hist = [] → s.disk = none ∧ s.r = Replica.start none) ∧
  (∀ l, s.hist.getLast? = some l → s.disk = diskAfter l ∧ (s.r = post l ∨ s.r = Replica.start s.disk))

def ChainOk (s : St) : Prop := Chained s.hist ∧ Tip s

theorem init_chainOk : ChainOk St.init :=
  ⟨trivial, fun _ => ⟨rfl, rfl⟩, fun l h => by simp [St.init] at h⟩

theorem move_chainOk {cfg : LCfg} {s s' : St} (hI : ChainOk s) (h : Move cfg s s') : ChainOk s' := by
  obtain ⟨hc, ht0, ht1⟩ := hI
  rcases move_cases h with ⟨hh, hr, hd⟩ | ⟨hh, hr, hd⟩ | ⟨s0, src, e, hr, hd, hh, hn, _, _, rfl⟩
  · refine ⟨hh ▸ hc, ?_, ?_⟩
    · intro h0; rw [hh] at h0; rw [hr, hd]; exact ht0 h0
    · intro l hl; rw [hh] at hl; rw [hr, hd]; exact ht1 l hl
  · refine ⟨hh ▸ hc, ?_, ?_⟩
    · intro h0
      rw [hh] at h0
      obtain ⟨h1, _⟩ := ht0 h0
      rw [hr, hd, h1]; exact ⟨rfl, rfl⟩
    · intro l hl
      rw [hh] at hl
      rw [hr, hd]
      exact ⟨(ht1 l hl).1, Or.inr rfl⟩
  · refine ⟨?_, ?_, ?_⟩
    · rw [record_hist, chained_snoc, hh]
      refine ⟨hc, fun l hl => ?_⟩
      obtain ⟨h1, h2⟩ := ht1 l hl
      refine ⟨?_, ?_⟩
      · show s0.disk = diskAfter l
        rw [hd]; exact h1
      · show s0.r = post l ∨ s0.r = Replica.start s0.disk
        rw [hr, hd]; exact h2
    · intro h0; simp at h0
    · intro l hl
      rw [record_hist, List.getLast?_append] at hl
      simp at hl
      subst hl
      exact ⟨rfl, Or.inl rfl⟩

theorem run_chainOk (cfg : LCfg) (evs : List Ev) : ChainOk (run cfg evs) :=
  run_inv (cfg := cfg) init_chainOk (fun _ _ hI h => move_chainOk hI h) evs

/-! ## The input channel is C16's queue -/

theorem enqueue_eq (buf : List Req) (x : Req) :
    enqueue buf x =
      if x.s.sigOk = false then buf
      else if buf.all (fun y => qSel y x != Mpsc.Sel.discardNew)
        then buf.filter (fun y => qSel y x != Mpsc.Sel.discardOld) ++ [x]
        else buf.filter (fun y => qSel y x != Mpsc.Sel.discardOld) := by
  unfold enqueue
  rw [EraVerif.Proofs.Mpsc.sendGen_eq]
  rfl

/-- projecting every request to what the queue looks at turns `enqueue` into C16's `send` -/
theorem enqueue_q (buf : List Req) (x : Req) :
    (enqueue buf x).map Req.q = Mpsc.send (buf.map Req.q) x.q := by
  rw [enqueue_eq, EraVerif.Proofs.Mpsc.send_eq]
  have hs : x.q.sigOk = x.s.sigOk := rfl
  have hall : (buf.map Req.q).all (fun y => Mpsc.bftSel y x.q != Mpsc.Sel.discardNew)
      = buf.all (fun y => qSel y x != Mpsc.Sel.discardNew) := by
    rw [List.all_map]; rfl
  have hret : EraVerif.Proofs.Mpsc.retained (buf.map Req.q) x.q
      = (buf.filter (fun y => qSel y x != Mpsc.Sel.discardOld)).map Req.q := by
    unfold EraVerif.Proofs.Mpsc.retained
    rw [List.filter_map]; rfl
  rw [hs, hall, hret]
  split
  · rfl
  · split
    · simp
    · rfl

/-- a `send` keeps or drops, never duplicates or invents -/
theorem enqueue_dropped_perm (buf : List Req) (x : Req) : (enqueue buf x ++ dropped buf x).Perm (buf ++ [x]) := by
  rw [enqueue_eq]
  unfold dropped
  have hf : qFilter x = x.s.sigOk := rfl
  rw [hf]
  have hpart : (buf.filter (fun y => qSel y x != Mpsc.Sel.discardOld) ++
      buf.filter (fun y => qSel y x == Mpsc.Sel.discardOld)).Perm buf := by
    have := List.filter_append_perm (fun y => qSel y x == Mpsc.Sel.discardOld) buf
    exact (List.perm_append_comm).trans this
  by_cases hs : x.s.sigOk = false
  · simp [hs]
  · have hs' : x.s.sigOk = true := by simpa using hs
    simp only [hs', Bool.true_eq_false, ↓reduceIte]
    by_cases hk : buf.all (fun y => qSel y x != Mpsc.Sel.discardNew) = true
    · simp only [hk, if_true, List.append_nil]
      -- F ++ [x] ++ D ~ buf ++ [x]
      have h1 : (buf.filter (fun y => qSel y x != Mpsc.Sel.discardOld) ++ [x] ++
          buf.filter (fun y => qSel y x == Mpsc.Sel.discardOld)).Perm
          (buf.filter (fun y => qSel y x != Mpsc.Sel.discardOld) ++
          buf.filter (fun y => qSel y x == Mpsc.Sel.discardOld) ++ [x]) := by
        rw [List.append_assoc, List.append_assoc]
        exact List.Perm.append_left _ List.perm_append_comm
      exact h1.trans (List.Perm.append_right _ hpart)
    · simp only [hk, if_false, Bool.false_eq_true]
      rw [← List.append_assoc]
      exact List.Perm.append_right _ hpart

theorem enqueue_sublist (buf : List Req) (x : Req) : (enqueue buf x).Sublist (buf ++ [x]) := by
  rw [enqueue_eq]
  split
  · exact List.sublist_append_left _ _
  · split
    · exact List.Sublist.append List.filter_sublist (List.Sublist.refl _)
    · exact List.filter_sublist.trans (List.sublist_append_left _ _)

/-! ## Order of handling -/

theorem handled_append (a b : List Round) : handled (a ++ b) = handled a ++ handled b := by
  induction a with
  | nil => rfl
  | cons rd t ih =>
    simp only [List.cons_append, handled]
    split <;> simp [ih]

theorem arrivals_append (a b : List Ev) : arrivals (a ++ b) = arrivals a ++ arrivals b := by
  induction a with
  | nil => rfl
  | cons e es ih => cases e <;> simp [arrivals, ih]

/-- requests in the order the loop takes (or will take) them: handled, being handled, pending -/
def seq (s : St) : List Req := handled s.hist ++ s.inflight ++ s.pending

theorem record_inflight (cfg : LCfg) (s : St) (src : Src) (e : Env) (res : StepRes) :
    (record cfg s src e res).inflight = [] := by
  unfold St.inflight
  rw [record_mode]
  by_cases h : returned res.out = true <;> simp [h]

theorem record_stuck (cfg : LCfg) (s : St) (src : Src) (e : Env) (res : StepRes) :
    (record cfg s src e res).stuck =
      if returned res.out then [] else (match src with | .msg q => [q] | _ => []) := by
  unfold St.stuck
  rw [record_mode]
  by_cases h : returned res.out = true
  · simp [h]
  · simp only [h, Bool.false_eq_true, if_false]
    cases src <;> rfl

theorem inflight_of_mode {s : St} (h : s.mode = .recv ∨ s.mode = .idle) : s.inflight = [] ∧ s.stuck = [] := by
  unfold St.inflight St.stuck
  rcases h with h | h <;> rw [h] <;> exact ⟨rfl, rfl⟩

theorem lmove_seq {cfg : LCfg} {s s' : St} (h : LMove cfg s s') : seq s' = seq s := by
  cases h with
  | boot e hm hv =>
    unfold seq
    rw [record_inflight, record_hist, handled_append, (inflight_of_mode (Or.inr hm)).1]
    simp [handled, roundOf, armed]
  | begin hm hv =>
    unfold seq
    have : (armed cfg s).inflight = [] := (inflight_of_mode (s := armed cfg s) (Or.inl rfl)).1
    rw [this, (inflight_of_mode (Or.inr hm)).1]
    rfl
  | pop q rest e hm hp =>
    unfold seq
    rw [record_inflight, record_hist, handled_append, (inflight_of_mode (Or.inl hm)).1, hp]
    simp [handled, roundOf]
  | park q rest hm hp hd =>
    unfold seq
    rw [(inflight_of_mode (Or.inl hm)).1, hp]
    simp [St.inflight]
  | resume q e hm =>
    unfold seq
    rw [record_inflight, record_hist, handled_append]
    have : s.inflight = [q] := by unfold St.inflight; rw [hm]
    rw [this]
    simp [handled, roundOf]
  | timer e hm hp hd =>
    unfold seq
    rw [record_inflight, record_hist, handled_append, (inflight_of_mode (Or.inl hm)).1]
    simp [handled, roundOf]

theorem lreach_seq {cfg : LCfg} {a b : St} (h : LReach cfg a b) : seq b = seq a := by
  induction h with
  | refl => rfl
  | tail _ hm ih => rw [lmove_seq hm, ih]

/-- handled ++ being handled ++ pending is a subsequence of the arrivals -/
theorem seq_sublist_arrivals (cfg : LCfg) (evs : List Ev) : (seq (run cfg evs)).Sublist (arrivals evs) := by
  refine EraVerif.Proofs.Mpsc.rev_ind (motive := fun evs => (seq (run cfg evs)).Sublist (arrivals evs)) ?_ ?_ evs
  · exact List.Sublist.refl _
  · intro evs e ih
    rw [run_snoc, arrivals_append]
    cases e with
    | arrive q =>
      show (handled (run cfg evs).hist ++ (run cfg evs).inflight ++ enqueue (run cfg evs).pending q).Sublist _
      have h1 := enqueue_sublist (run cfg evs).pending q
      have h2 : (handled (run cfg evs).hist ++ (run cfg evs).inflight ++ enqueue (run cfg evs).pending q).Sublist
          (handled (run cfg evs).hist ++ (run cfg evs).inflight ++ ((run cfg evs).pending ++ [q])) :=
        List.Sublist.append (List.Sublist.refl _) h1
      rw [← List.append_assoc] at h2
      exact h2.trans (List.Sublist.append ih (List.Sublist.refl _))
    | advance dt =>
      simp only [arrivals, List.append_nil]
      exact ih
    | quiesce envf =>
      simp only [arrivals, List.append_nil]
      show (seq (quiesce cfg envf (run cfg evs))).Sublist _
      rw [lreach_seq (quiesce_lreach cfg envf _)]
      exact ih
    | restart =>
      simp only [arrivals, List.append_nil]
      have : seq (apply cfg (run cfg evs) .restart) = handled (run cfg evs).hist := by
        simp [seq, apply, St.inflight]
      rw [this]
      have h1 : (handled (run cfg evs).hist).Sublist (seq (run cfg evs)) := by
        unfold seq
        rw [List.append_assoc]
        exact List.sublist_append_left _ _
      exact h1.trans ih

/-! ## Accounting: every request that arrived is acknowledged, closed, or still unresolved — exactly one of them -/

def ids (l : List Req) : List Nat := l.map (·.id)

/-- acknowledged ++ closed ++ unresolved -/
def acct (s : St) : List Nat := ackedIds s.hist ++ s.closed ++ ids s.unresolved

theorem ids_append (a b : List Req) : ids (a ++ b) = ids a ++ ids b := by simp [ids]

theorem ackedIds_append (a b : List Round) : ackedIds (a ++ b) = ackedIds a ++ ackedIds b := by
  simp [ackedIds, List.filterMap_append]

theorem count_acct (s : St) (a : Nat) :
    (acct s).count a = (ackedIds s.hist).count a + s.closed.count a + (ids s.stuck).count a +
      (ids s.inflight).count a + (ids s.pending).count a := by
  simp only [acct, St.unresolved, ids_append, List.count_append]
  omega

theorem count_acct_record (cfg : LCfg) (s : St) (src : Src) (e : Env) (res : StepRes) (a : Nat) :
    (acct (record cfg s src e res)).count a =
      (ackedIds s.hist).count a + s.closed.count a + (ids s.pending).count a +
        (match src with | .msg q => [q.id] | _ => []).count a := by
  rw [count_acct, record_hist, ackedIds_append, record_stuck, record_inflight, record_closed, record_pending,
    List.count_append]
  cases src with
  | boot => by_cases h : returned res.out = true <;> simp [h, ackedIds, roundOf, Src.isMsg, ids]
  | timer => by_cases h : returned res.out = true <;> simp [h, ackedIds, roundOf, Src.isMsg, ids]
  | msg q => by_cases h : returned res.out = true <;> simp [h, ackedIds, roundOf, Src.isMsg, ids] <;> omega

theorem lmove_acct {cfg : LCfg} {s s' : St} (h : LMove cfg s s') (a : Nat) : (acct s').count a = (acct s).count a := by
  cases h with
  | boot e hm hv =>
    rw [count_acct_record, count_acct, (inflight_of_mode (Or.inr hm)).1, (inflight_of_mode (Or.inr hm)).2]
    simp [armed, ids]
  | begin hm hv =>
    rw [count_acct, count_acct, (inflight_of_mode (Or.inr hm)).1, (inflight_of_mode (Or.inr hm)).2,
      (inflight_of_mode (s := armed cfg s) (Or.inl rfl)).1, (inflight_of_mode (s := armed cfg s) (Or.inl rfl)).2]
    rfl
  | pop q rest e hm hp =>
    rw [count_acct_record, count_acct, (inflight_of_mode (Or.inl hm)).1, (inflight_of_mode (Or.inl hm)).2, hp]
    simp [ids, List.count_cons]
    omega
  | park q rest hm hp hd =>
    rw [count_acct, count_acct, (inflight_of_mode (Or.inl hm)).1, (inflight_of_mode (Or.inl hm)).2, hp]
    simp [ids, St.stuck, St.inflight, List.count_cons]
    omega
  | resume q e hm =>
    have h1 : s.inflight = [q] := by unfold St.inflight; rw [hm]
    have h2 : s.stuck = [] := by unfold St.stuck; rw [hm]
    rw [count_acct_record, count_acct, h1, h2]
    simp [ids]
    omega
  | timer e hm hp hd =>
    rw [count_acct_record, count_acct, (inflight_of_mode (Or.inl hm)).1, (inflight_of_mode (Or.inl hm)).2]
    simp [ids]

theorem lreach_acct {cfg : LCfg} {a b : St} (h : LReach cfg a b) (x : Nat) : (acct b).count x = (acct a).count x := by
  induction h with
  | refl => rfl
  | tail _ hm ih => rw [lmove_acct hm, ih]

/-- **nothing is lost, nothing is answered twice**: the ids that arrived are, as a multiset, the acknowledged ones, the
closed ones and the unresolved ones -/
theorem acct_perm (cfg : LCfg) (evs : List Ev) : (acct (run cfg evs)).Perm (ids (arrivals evs)) := by
  rw [List.perm_iff_count]
  intro a
  refine EraVerif.Proofs.Mpsc.rev_ind
    (motive := fun evs => (acct (run cfg evs)).count a = (ids (arrivals evs)).count a) ?_ ?_ evs
  · rfl
  · intro evs e ih
    rw [run_snoc, arrivals_append, ids_append, List.count_append, ← ih]
    cases e with
    | arrive q =>
      have hp := (List.Perm.map (·.id) (enqueue_dropped_perm (run cfg evs).pending q)).count_eq a
      simp only [List.map_append, List.count_append, List.map_cons, List.map_nil] at hp
      rw [count_acct, count_acct]
      have hs : (apply cfg (run cfg evs) (.arrive q)).stuck = (run cfg evs).stuck := rfl
      have hi : (apply cfg (run cfg evs) (.arrive q)).inflight = (run cfg evs).inflight := rfl
      rw [hs, hi]
      simp only [apply, arrivals, ids, List.count_append, List.map_cons, List.map_nil]
      omega
    | advance dt => simp [arrivals, ids]; rfl
    | quiesce envf =>
      simp only [arrivals, ids, List.map_nil, List.count_nil, Nat.add_zero]
      exact lreach_acct (quiesce_lreach cfg envf _) a
    | restart =>
      rw [count_acct, count_acct]
      simp [apply, arrivals, ids, St.stuck, St.inflight, St.unresolved, List.count_append]
      omega

/-! ## The pending requests: at most one per sender and kind (C16's invariant, through the projection) -/

def PendingDistinct (s : St) : Prop := EraVerif.Proofs.Mpsc.Distinct (s.pending.map Req.q)

theorem move_pendingDistinct {cfg : LCfg} {s s' : St} (hI : PendingDistinct s) (h : Move cfg s s') :
    PendingDistinct s' := by
  unfold PendingDistinct at *
  cases h with
  | arrive q =>
    show EraVerif.Proofs.Mpsc.Distinct ((enqueue s.pending q).map Req.q)
    rw [enqueue_q]
    exact EraVerif.Proofs.Mpsc.distinct_send _ _ hI
  | advance dt => exact hI
  | restart => exact List.Pairwise.nil
  | loop hl =>
    cases hl with
    | boot e hm hv => exact hI
    | begin hm hv => exact hI
    | pop q rest e hm hp =>
      rw [hp] at hI
      exact EraVerif.Proofs.Mpsc.distinct_tail hI
    | park q rest hm hp hd =>
      rw [hp] at hI
      exact EraVerif.Proofs.Mpsc.distinct_tail hI
    | resume q e hm => exact hI
    | timer e hm hp hd => exact hI

/-! ## The fuel of `quiesce` suffices -/

def modeFlag : Mode → Nat
  | .waitPrev _ => 1
  | _ => 0

/-- a bound on the number of turns the task can still make before it blocks -/
def mu (s : St) : Nat := 2 * s.pending.length + modeFlag s.mode + (if s.deadline ≤ s.now then 1 else 0)

theorem record_modeFlag (cfg : LCfg) (s : St) (src : Src) (e : Env) (res : StepRes) :
    modeFlag (record cfg s src e res).mode = 0 := by
  rw [record_mode]
  by_cases h : returned res.out = true <;> simp [h, modeFlag]

theorem record_due_le (cfg : LCfg) (hvt : 0 < cfg.viewTimeout) (s : St) (src : Src) (e : Env) (res : StepRes) :
    (if (record cfg s src e res).deadline ≤ (record cfg s src e res).now then 1 else 0) ≤
      (if s.deadline ≤ s.now then 1 else 0) := by
  rw [record_deadline, record_now]
  by_cases h : (!src.isMsg || ranNewView res) = true
  · rw [if_pos h]
    have : ¬ (s.now + cfg.viewTimeout ≤ s.now) := by omega
    rw [if_neg this]
    exact Nat.zero_le _
  · rw [if_neg h]
    exact Nat.le_refl _

theorem iter_mu {cfg : LCfg} (hvt : 0 < cfg.viewTimeout) {envf : EnvF} {s s' : St} (h : iter cfg envf s = some s') :
    mu s' < mu s := by
  unfold iter at h
  split at h
  · cases h
  · cases h
  · rename_i q hm
    simp only at h
    split at h
    · cases h
    · cases h
      have h1 := record_modeFlag cfg s (.msg q) (envf s.hist (.msg q.s)) (step cfg.rc s.r (envf s.hist (.msg q.s)) (.msg q.s))
      have h2 := record_due_le cfg hvt s (.msg q) (envf s.hist (.msg q.s)) (step cfg.rc s.r (envf s.hist (.msg q.s)) (.msg q.s))
      unfold mu
      rw [h1, record_pending, hm]
      simp only [modeFlag]
      omega
  · rename_i hm
    split at h
    · rename_i q rest hp
      simp only at h
      split at h
      · cases h
        unfold mu
        simp only [hp, hm, modeFlag, List.length_cons]
        omega
      · cases h
        have h1 := record_modeFlag cfg { s with pending := rest } (.msg q) (envf s.hist (.msg q.s))
          (step cfg.rc s.r (envf s.hist (.msg q.s)) (.msg q.s))
        have h2 := record_due_le cfg hvt { s with pending := rest } (.msg q) (envf s.hist (.msg q.s))
          (step cfg.rc s.r (envf s.hist (.msg q.s)) (.msg q.s))
        unfold mu
        rw [h1, record_pending]
        rw [record_deadline, record_now] at h2 ⊢
        simp only [hp, hm, modeFlag, List.length_cons] at h2 ⊢
        omega
    · rename_i hp
      split at h
      · cases h
      · rename_i hd
        cases h
        have h1 := record_modeFlag cfg s .timer (envf s.hist .tick) (step cfg.rc s.r (envf s.hist .tick) .tick)
        unfold mu
        rw [h1, record_pending, record_deadline, record_now, hp, hm]
        simp only [Src.isMsg, Bool.not_false, Bool.true_or, if_true, modeFlag, List.length_nil]
        have : ¬ (s.now + cfg.viewTimeout ≤ s.now) := by omega
        rw [if_neg this]
        have : s.deadline ≤ s.now := by omega
        rw [if_pos this]
        omega

theorem iter_none_of_mu_zero {cfg : LCfg} {envf : EnvF} {s : St} (h : mu s = 0) : iter cfg envf s = none := by
  unfold mu at h
  have hp : s.pending = [] := by
    cases hps : s.pending with
    | nil => rfl
    | cons a t => rw [hps] at h; simp at h
  have hd : s.now < s.deadline := by
    by_cases hd : s.deadline ≤ s.now
    · rw [if_pos hd] at h; omega
    · omega
  unfold iter
  split
  · rfl
  · rfl
  · rename_i q hm
    rw [hm] at h; simp [modeFlag] at h
  · rw [hp]
    simp only
    rw [if_pos hd]

theorem iterN_blocks {cfg : LCfg} (hvt : 0 < cfg.viewTimeout) (envf : EnvF) (n : Nat) (s : St) (h : mu s ≤ n) :
    iter cfg envf (iterN cfg envf n s) = none := by
  induction n generalizing s with
  | zero => exact iter_none_of_mu_zero (s := s) (by omega)
  | succ n ih =>
    unfold iterN
    split
    · rename_i hn; exact hn
    · rename_i s' hs
      have := iter_mu hvt hs
      exact ih s' (by omega)

theorem mu_le (s : St) : mu s ≤ 2 * s.pending.length + 2 := by
  unfold mu
  have : modeFlag s.mode ≤ 1 := by cases s.mode <;> simp [modeFlag]
  split <;> omega

theorem quiesce_blocks {cfg : LCfg} (hvt : 0 < cfg.viewTimeout) (envf : EnvF) (s : St) :
    iter cfg envf (quiesce cfg envf s) = none := by
  unfold quiesce
  exact iterN_blocks hvt envf _ _ (mu_le _)

/-! ## When does a handler re-arm the timer? -/

theorem ranNewView_false_iff (res : StepRes) : ranNewView res = false ↔ ∀ j, Effect.notify j ∉ res.effs := by
  unfold ranNewView
  rw [List.any_eq_false]
  constructor
  · intro h j hj
    have := h _ hj
    simp [isNotify] at this
  · intro h x hx
    cases x with
    | notify j => exact absurd hx (h j)
    | persist d => simp [isNotify]
    | send m => simp [isNotify]
    | queueBlock n p q => simp [isNotify]

theorem ranNewView_nil {r : Replica} {out : Outcome} : ranNewView { r := r, effs := [], out := out } = false := rfl

theorem ranNewView_onlyQueue {res : StepRes} (h : OnlyQueue res.effs) : ranNewView res = false :=
  (ranNewView_false_iff res).mpr (fun j => h.no_notify j)

/-- `on_proposal` never goes through `start_new_view` (whatever the state, whatever the proposal) -/
theorem proposal_no_newView (cfg : RCfg) (r : Replica) (e : Env) (key : Nat) (sigOk : Bool) (p : Option Payload)
    (j : Just) : ranNewView (step cfg r e (.msg ⟨.proposal p j, key, sigOk⟩)) = false := by
  show ranNewView (onProposal cfg r e key sigOk p j) = false
  rcases onProposal_cases cfg r e key sigOk p j with ⟨_, w', hw'⟩ | ⟨hc, ⟨w', _, hw'⟩ | ⟨h', r0, hd, ht⟩⟩
  · rw [hw']; rfl
  · rw [hw']; rfl
  · rw [ht]
    have hq := (processJust_spec cfg (propR1 cfg r0 j h') e j hc.2.2.2.1).2.1
    unfold propTail
    split
    · exact ranNewView_onlyQueue hq
    · rw [ranNewView_false_iff]
      intro j' hj'
      simp only [List.mem_append, List.mem_cons, List.mem_nil_iff, or_false] at hj'
      rcases hj' with hj' | hj' | hj'
      · exact hq.no_notify j' hj'
      · cases hj'
      · cases hj'

/-- a message that is accepted without changing the view did not go through `start_new_view` (for a commit or
timeout vote: provided its view + 1 does not wrap) -/
theorem no_newView_without_view_change {cfg : RCfg} {r : Replica} (hw : Wf cfg r) (e : Env) (s : Signed)
    (hacc : (step cfg r e (.msg s)).out = .accepted) (hnw : NoWrap (.msg s))
    (hv : (step cfg r e (.msg s)).r.view = r.view) : ranNewView (step cfg r e (.msg s)) = false := by
  obtain ⟨m, key, sigOk⟩ := s
  cases m with
  | proposal p j => exact proposal_no_newView cfg r e key sigOk p j
  | commit v =>
    obtain ⟨_, h2, _, _, _, h6⟩ := EraVerif.Props.C05.accepted_commit_conforms cfg r e key sigOk v hw hacc
    rcases h6 with ⟨_, h⟩ | ⟨h, _⟩
    · rw [ranNewView_false_iff, h]; intro j hj; cases hj
    · exfalso
      have hn : v.view.number + 1 < 2 ^ 64 := hnw
      rw [nextU64_eq _ hn] at h
      omega
  | timeout t =>
    obtain ⟨_, h2, _, _, _, h6⟩ := EraVerif.Props.C05.accepted_timeout_conforms cfg r e key sigOk t hw hacc
    rcases h6 with ⟨_, h⟩ | ⟨h, _⟩
    · rw [ranNewView_false_iff, h]; intro j hj; cases hj
    · exfalso
      have hn : t.view.number + 1 < 2 ^ 64 := hnw
      rw [nextU64_eq _ hn] at h
      omega
  | newView j =>
    obtain ⟨h1, h2, h3, h4, h5, h6, _⟩ := EraVerif.Props.C05.accepted_newview_conforms cfg r e key sigOk j hacc
    have hc : ¬ (j.viewNumber < r.view ∨ (j.viewNumber = r.view ∧ key ≠ cfg.leader r.view)) ∧ key < cfg.c.n ∧
        sigOk = true ∧ j.verify cfg.c = true := by
      refine ⟨?_, h3, h4, h5⟩
      rintro (h | ⟨h, h'⟩)
      · omega
      · exact h' (h2 h)
    obtain ⟨hb, ha⟩ := EraVerif.Props.C05.newView_reaction cfg r e key sigOk j hc
    have hq := (processJust_spec cfg r e j h5).2.1
    cases hok : (processJust r e j).2.2 with
    | false => rw [hb hok] at hacc; cases hacc
    | true =>
      have hle : ¬ j.viewNumber > r.view := by rw [← h6, hv]; omega
      rw [(ha hok).2 hle]
      exact ranNewView_onlyQueue hq

/-- a rejected message did not go through `start_new_view` -/
theorem rejected_no_newView {cfg : RCfg} {r : Replica} {e : Env} {inp : Input} {w : Reject}
    (h : (step cfg r e inp).out = .rejected w) : ranNewView (step cfg r e inp) = false := by
  rw [ranNewView_false_iff, (step_rejected h).2]
  intro j hj; cases hj

/-! ## What a run of the task starts with -/

theorem lreach_hist {cfg : LCfg} {a b : St} (h : LReach cfg a b) : ∃ rest, b.hist = a.hist ++ rest :=
  reach_hist h.toReach

/-- started in view 0: the first thing the task does is the bootstrap timeout -/
theorem quiesce_boot (cfg : LCfg) (envf : EnvF) (s : St) (hm : s.mode = .idle) (hv : s.r.view = 0) :
    ∃ rest, (quiesce cfg envf s).hist =
      s.hist ++ roundOf (armed cfg s) .boot (envf s.hist .tick) (step cfg.rc s.r (envf s.hist .tick) .tick) :: rest := by
  unfold quiesce
  simp only [hm]
  have hst : start cfg envf s =
      record cfg (armed cfg s) .boot (envf s.hist .tick) (step cfg.rc s.r (envf s.hist .tick) .tick) := by
    unfold start
    simp only
    rw [if_pos hv]
    rfl
  rw [hst]
  obtain ⟨rest, hr⟩ := lreach_hist (iterN_lreach cfg envf
    (2 * (record cfg (armed cfg s) .boot (envf s.hist .tick) (step cfg.rc s.r (envf s.hist .tick) .tick)).pending.length + 2)
    (record cfg (armed cfg s) .boot (envf s.hist .tick) (step cfg.rc s.r (envf s.hist .tick) .tick)))
  refine ⟨rest, ?_⟩
  rw [hr, record_hist]
  simp [armed]

theorem lmove_noboot {cfg : LCfg} {s s' : St} (h : LMove cfg s s') (hm : s.mode ≠ .idle) :
    s'.mode ≠ .idle ∧ ∃ rest, s'.hist = s.hist ++ rest ∧ ∀ rd ∈ rest, rd.src ≠ .boot := by
  cases h with
  | boot e hm' hv => exact absurd hm' hm
  | begin hm' hv => exact absurd hm' hm
  | pop q rest e hm' hp =>
    refine ⟨?_, [_], rfl, ?_⟩
    · rw [record_mode]; split <;> simp
    · intro rd hrd; simp at hrd; subst hrd; simp
  | park q rest hm' hp hd => exact ⟨by simp, [], by simp, by simp⟩
  | resume q e hm' =>
    refine ⟨?_, [_], rfl, ?_⟩
    · rw [record_mode]; split <;> simp
    · intro rd hrd; simp at hrd; subst hrd; simp
  | timer e hm' hp hd =>
    refine ⟨?_, [_], rfl, ?_⟩
    · rw [record_mode]; split <;> simp
    · intro rd hrd; simp at hrd; subst hrd; simp

theorem lreach_noboot {cfg : LCfg} {a b : St} (h : LReach cfg a b) (hm : a.mode ≠ .idle) :
    b.mode ≠ .idle ∧ ∃ rest, b.hist = a.hist ++ rest ∧ ∀ rd ∈ rest, rd.src ≠ .boot := by
  induction h with
  | refl => exact ⟨hm, [], by simp, by simp⟩
  | tail _ hmv ih =>
    obtain ⟨h1, rest, h2, h3⟩ := ih
    obtain ⟨g1, rest', g2, g3⟩ := lmove_noboot hmv h1
    refine ⟨g1, rest ++ rest', by rw [g2, h2, List.append_assoc], ?_⟩
    intro rd hrd
    rcases List.mem_append.mp hrd with h | h
    · exact h3 rd h
    · exact g3 rd h

/-- started in a later view (a restart), or already running: no bootstrap -/
theorem quiesce_noboot (cfg : LCfg) (envf : EnvF) (s : St) (h : s.mode ≠ .idle ∨ s.r.view ≠ 0) :
    ∃ rest, (quiesce cfg envf s).hist = s.hist ++ rest ∧ ∀ rd ∈ rest, rd.src ≠ .boot := by
  unfold quiesce
  by_cases hm : s.mode = .idle
  · have hv : s.r.view ≠ 0 := by
      rcases h with h | h
      · exact absurd hm h
      · exact h
    simp only [hm]
    have hst : start cfg envf s = armed cfg s := by
      unfold start
      simp only
      rw [if_neg hv]
      rfl
    rw [hst]
    have := (lreach_noboot (iterN_lreach cfg envf (2 * (armed cfg s).pending.length + 2) (armed cfg s))
      (by simp [armed])).2
    simpa [armed] using this
  · dsimp only
    split
    · rename_i h'; exact absurd h' hm
    · exact (lreach_noboot (iterN_lreach cfg envf _ s) hm).2

/-! ## The timer -/

theorem iter_timer (cfg : LCfg) (envf : EnvF) (s : St) (hm : s.mode = .recv) (hp : s.pending = [])
    (hd : s.deadline ≤ s.now) :
    iter cfg envf s = some (record cfg s .timer (envf s.hist .tick) (step cfg.rc s.r (envf s.hist .tick) .tick)) := by
  unfold iter
  rw [hm]
  simp only [hp]
  have : ¬ s.now < s.deadline := by omega
  rw [if_neg this]

/-- nothing pending and the deadline has passed: the task's next action is `start_timeout` -/
theorem quiesce_timer (cfg : LCfg) (envf : EnvF) (s : St) (hm : s.mode = .recv) (hp : s.pending = [])
    (hd : s.deadline ≤ s.now) :
    ∃ rest, (quiesce cfg envf s).hist =
      s.hist ++ roundOf s .timer (envf s.hist .tick) (step cfg.rc s.r (envf s.hist .tick) .tick) :: rest := by
  unfold quiesce
  simp only [hm, hp, List.length_nil]
  show ∃ rest, (iterN cfg envf (1 + 1) s).hist = _
  unfold iterN
  rw [iter_timer cfg envf s hm hp hd]
  simp only
  obtain ⟨rest, hr⟩ := lreach_hist (iterN_lreach cfg envf 1
    (record cfg s .timer (envf s.hist .tick) (step cfg.rc s.r (envf s.hist .tick) .tick)))
  exact ⟨rest, by rw [hr, record_hist, List.append_assoc]; rfl⟩

theorem iter_dead (cfg : LCfg) (envf : EnvF) (s : St) (q : Option Req) (hm : s.mode = .dead q) :
    iter cfg envf s = none := by
  unfold iter; rw [hm]

theorem iterN_dead (cfg : LCfg) (envf : EnvF) (n : Nat) (s : St) (q : Option Req) (hm : s.mode = .dead q) :
    iterN cfg envf n s = s := by
  cases n with
  | zero => rfl
  | succ n => unfold iterN; rw [iter_dead cfg envf s q hm]

theorem iter_pop_due (cfg : LCfg) (envf : EnvF) (s : St) (q : Req) (rest : List Req) (hm : s.mode = .recv)
    (hp : s.pending = q :: rest) (hd : s.deadline ≤ s.now) :
    iter cfg envf s = some (record cfg { s with pending := rest } (.msg q) (envf s.hist (.msg q.s))
      (step cfg.rc s.r (envf s.hist (.msg q.s)) (.msg q.s))) := by
  unfold iter
  rw [hm]
  simp only [hp]
  have : decide (s.now < s.deadline) = false := by simp; omega
  rw [this, Bool.and_false]
  simp

/-- **a flood cannot postpone the timeout**: if the deadline has passed when the task gets to run, then — however many
requests are pending — the run contains a handler call that went through `start_new_view`, or ends the task, or
the timer fires in this very run -/
theorem iterN_due (cfg : LCfg) (envf : EnvF) : ∀ (n : Nat) (s : St), s.mode = .recv → s.deadline ≤ s.now →
    s.pending.length + 1 ≤ n →
    ∃ rest, (iterN cfg envf n s).hist = s.hist ++ rest ∧
      ((∃ rd ∈ rest, rd.src = .timer ∨ ranNewView rd.res = true) ∨ ∃ q, (iterN cfg envf n s).mode = .dead q) := by
  intro n
  induction n with
  | zero => intro s _ _ h; omega
  | succ n ih =>
    intro s hm hd hn
    cases hp : s.pending with
    | nil =>
      unfold iterN
      rw [iter_timer cfg envf s hm hp hd]
      simp only
      obtain ⟨rest, hr⟩ := lreach_hist (iterN_lreach cfg envf n
        (record cfg s .timer (envf s.hist .tick) (step cfg.rc s.r (envf s.hist .tick) .tick)))
      refine ⟨_ :: rest, by rw [hr, record_hist, List.append_assoc]; rfl, Or.inl ⟨_, List.mem_cons_self, Or.inl rfl⟩⟩
    | cons q rest =>
      unfold iterN
      rw [iter_pop_due cfg envf s q rest hm hp hd]
      simp only
      generalize hres : step cfg.rc s.r (envf s.hist (.msg q.s)) (.msg q.s) = res
      generalize he : envf s.hist (.msg q.s) = e
      by_cases hret : returned res.out = true
      · by_cases hnv : ranNewView res = true
        · obtain ⟨rest', hr⟩ := lreach_hist (iterN_lreach cfg envf n (record cfg { s with pending := rest } (.msg q) e res))
          refine ⟨_ :: rest', by rw [hr, record_hist, List.append_assoc]; rfl,
            Or.inl ⟨_, List.mem_cons_self, Or.inr hnv⟩⟩
        · have hnv' : ranNewView res = false := by simpa using hnv
          have h1 : (record cfg { s with pending := rest } (.msg q) e res).mode = .recv := by
            rw [record_mode, if_pos hret]
          have h2 : (record cfg { s with pending := rest } (.msg q) e res).deadline ≤
              (record cfg { s with pending := rest } (.msg q) e res).now := by
            rw [record_deadline, record_now]
            simp only [Src.isMsg, Bool.not_true, Bool.false_or, hnv', Bool.false_eq_true, if_false]
            exact hd
          have h3 : (record cfg { s with pending := rest } (.msg q) e res).pending.length + 1 ≤ n := by
            rw [record_pending]
            rw [hp] at hn
            simp only [List.length_cons] at hn
            exact Nat.le_of_succ_le_succ hn
          obtain ⟨rest', hr, hgoal⟩ := ih _ h1 h2 h3
          refine ⟨_ :: rest', by rw [hr, record_hist, List.append_assoc]; rfl, ?_⟩
          rcases hgoal with ⟨rd, hrd, hx⟩ | hdead
          · exact Or.inl ⟨rd, List.mem_cons_of_mem _ hrd, hx⟩
          · exact Or.inr hdead
      · have h1 : (record cfg { s with pending := rest } (.msg q) e res).mode = .dead (some q) := by
          rw [record_mode, if_neg hret]
        rw [iterN_dead cfg envf n _ _ h1]
        exact ⟨[_], rfl, Or.inr ⟨_, h1⟩⟩

/-! ## Small facts used by the property theorems -/

theorem move_closed {cfg : LCfg} {s s' : St} (h : Move cfg s s') : ∃ rest, s'.closed = s.closed ++ rest := by
  cases h with
  | arrive q => exact ⟨_, rfl⟩
  | advance dt => exact ⟨[], by simp [apply]⟩
  | restart => exact ⟨_, rfl⟩
  | loop hl => cases hl <;> exact ⟨[], by simp [armed]⟩

/-- a closed ack channel stays closed -/
theorem reach_closed {cfg : LCfg} {a b : St} (h : Reach cfg a b) : ∃ rest, b.closed = a.closed ++ rest := by
  induction h with
  | refl => exact ⟨[], by simp⟩
  | tail _ hm ih =>
    obtain ⟨r1, h1⟩ := ih
    obtain ⟨r2, h2⟩ := move_closed hm
    exact ⟨r1 ++ r2, by rw [h2, h1, List.append_assoc]⟩

theorem mem_handled {h : List Round} {rd : Round} {q : Req} (hrd : rd ∈ h) (hs : rd.src = .msg q) : q ∈ handled h := by
  induction h with
  | nil => cases hrd
  | cons a t ih =>
    rcases List.mem_cons.mp hrd with rfl | ht
    · simp [handled, hs]
    · have := ih ht
      simp only [handled]
      split
      · exact List.mem_cons_of_mem _ this
      · exact this

/-- acknowledgements come in the order of handling -/
theorem ackedIds_sublist (h : List Round) : (ackedIds h).Sublist (ids (handled h)) := by
  induction h with
  | nil => exact List.Sublist.refl _
  | cons a t ih =>
    cases hs : a.src with
    | boot =>
      have h1 : ackedIds (a :: t) = ackedIds t := by simp [ackedIds, hs]
      have h2 : handled (a :: t) = handled t := by simp [handled, hs]
      rw [h1, h2]; exact ih
    | timer =>
      have h1 : ackedIds (a :: t) = ackedIds t := by simp [ackedIds, hs]
      have h2 : handled (a :: t) = handled t := by simp [handled, hs]
      rw [h1, h2]; exact ih
    | msg q =>
      have h2 : handled (a :: t) = q :: handled t := by simp [handled, hs]
      rw [h2]
      by_cases hk : a.acked = true
      · have h1 : ackedIds (a :: t) = q.id :: ackedIds t := by simp [ackedIds, hs, hk]
        rw [h1]
        exact List.Sublist.cons_cons _ ih
      · have h1 : ackedIds (a :: t) = ackedIds t := by simp [ackedIds, hs, hk]
        rw [h1]
        exact List.Sublist.cons _ ih

theorem trace_append (a b : List Round) : trace (a ++ b) = trace a ++ trace b := by
  simp [trace, List.flatMap_append]

/-- the effect items of a trace are the concatenation of the handlers' effects -/
theorem trace_effects (h : List Round) :
    (trace h).filterMap (fun i => match i with | .eff e => some e | .ack _ => none) = h.flatMap (·.res.effs) := by
  induction h with
  | nil => rfl
  | cons rd t ih =>
    have hcons : trace (rd :: t) = rd.items ++ trace t := by simp [trace, List.flatMap_cons]
    rw [hcons, List.filterMap_append, ih, List.flatMap_cons]
    congr 1
    unfold Round.items
    rw [List.filterMap_append]
    have h1 : List.filterMap (fun i => match i with | Item.eff e => some e | Item.ack _ => none)
        (List.map Item.eff rd.res.effs) = rd.res.effs := by
      rw [List.filterMap_map]
      simp [Function.comp_def]
    rw [h1]
    cases rd.src <;> simp

end EraVerif.Proofs.RunLoop
