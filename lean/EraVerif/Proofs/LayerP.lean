import EraVerif.Proofs.SafetyCore

/-!
# Layer P — the ChonkyBFT protocol as a transition system over a growing history, and its safety invariant

State: for every validator the votes it has recorded (`votedAt`, at most one per view by construction), the timeout
votes it has recorded (`touts`), and its durable `(view, phase, highVote, highQC)`. Only correct validators
(`i ∉ byz`) are constrained: a Byzantine validator's entries are never read, which models "whatever the faulty
validators sign" — a certificate only needs *its correct members* to have the vote in the history. The network does
not appear at all: a correct replica may act on any certificate that is valid w.r.t. the history (whatever was lost,
duplicated, reordered or withheld), and crash/restart is a stutter because the state is the durable one.

Transitions of a correct replica `i` (guards as in `spec/informal-spec/replica.rs` and the implementation):
* `voteCommit`  — vote on a proposal justified by a commit certificate `c` (view `c.view+1`, block `c.num+1`);
* `voteTimeout` — vote on a proposal justified by a timeout certificate `q` (view `q.view+1`, block per the implied-block rule);
* `timeout`     — record a timeout vote for the current view carrying the current high vote / high certificate;
* `advance`     — move to a higher view (on any certificate: the guard is irrelevant for safety);
* `learn`       — adopt a commit certificate of a higher view than the one held.
The main theorem `inv_reachable` shows the conjunction `Inv` is inductive; `agreement` is its corollary.
-/

namespace EraVerif.Safety
open Finset

variable {ι : Type} [Fintype ι] [DecidableEq ι] (w : ι → ℕ) (byz : Finset ι) (first : ℕ)

inductive Ph where
  | prepare | commit | timeout
deriving DecidableEq

structure PState (ι : Type) where
  votedAt : ι → ℕ → Option (ℕ × ℕ)
  touts : ι → ℕ → Rep → Prop
  view : ι → ℕ
  phase : ι → Ph
  highVote : ι → Option Ref
  highQC : ι → Option Ref

def PState.blocked (s : PState ι) (i : ι) (u : ℕ) : Prop :=
  s.view i > u ∨ (s.view i = u ∧ s.phase i ≠ Ph.prepare)

/-- the view of the combinatorial core -/
def PState.st (s : PState ι) : St ι := { votedAt := s.votedAt, blocked := s.blocked, touts := s.touts }

def PState.init : PState ι :=
  { votedAt := fun _ _ => none, touts := fun _ _ _ => False, view := fun _ => 0, phase := fun _ => Ph.prepare,
    highVote := fun _ => none, highQC := fun _ => none }

/-- keep the certificate with the higher view (`process_commit_qc`: replace only if strictly newer) -/
def maxQC (old : Option Ref) (c : Ref) : Option Ref :=
  match old with
  | none => some c
  | some o => if o.view < c.view then some c else some o

/-- may replica `i` vote in view `u'`? (`view < u' ∨ (view = u' ∧ phase = Prepare)`) -/
def PState.canVote (s : PState ι) (i : ι) (u' : ℕ) : Prop :=
  s.view i < u' ∨ (s.view i = u' ∧ s.phase i = Ph.prepare)

def PState.recordVote (s : PState ι) (i : ι) (u' k' h' : ℕ) (hq : Option Ref) : PState ι :=
  { s with
    votedAt := fun j u => if j = i ∧ u = u' then some (k', h') else s.votedAt j u
    view := fun j => if j = i then u' else s.view j
    phase := fun j => if j = i then Ph.commit else s.phase j
    highVote := fun j => if j = i then some ⟨u', k', h'⟩ else s.highVote j
    highQC := fun j => if j = i then hq else s.highQC j }

inductive Step : PState ι → PState ι → Prop where
  | voteCommit (s : PState ι) (i : ι) (hi : i ∉ byz) (c : Ref) (h' : ℕ)
      (hc : Cert w byz s.st c.view c.num c.hash) (hcan : s.canVote i (c.view + 1)) :
      Step s (s.recordVote i (c.view + 1) (c.num + 1) h' (maxQC (s.highQC i) c))
  | voteTimeout (s : PState ι) (i : ι) (hi : i ∉ byz) (q : TQC ι) (k' : ℕ) (oh : Option ℕ) (h' : ℕ)
      (hv : q.valid w byz s.st) (him : Implied w first q k' oh) (hconf : ∀ hh, oh = some hh → h' = hh)
      (hcan : s.canVote i (q.view + 1))
      -- `process_timeout_qc` adopts the certificate's high QC, if any, when newer
      (hq' : Option Ref)
      (hhq : (q.noHQ ∧ hq' = s.highQC i) ∨ (∃ c, q.isHQ c ∧ hq' = maxQC (s.highQC i) c)) :
      Step s (s.recordVote i (q.view + 1) k' h' hq')
  | timeout (s : PState ι) (i : ι) (hi : i ∉ byz) :
      Step s { s with
        touts := fun j t r => s.touts j t r ∨ (j = i ∧ t = s.view i ∧ r = ⟨s.highVote i, s.highQC i⟩)
        phase := fun j => if j = i then Ph.timeout else s.phase j }
  | advance (s : PState ι) (i : ι) (hi : i ∉ byz) (v : ℕ) (hv : s.view i < v) :
      Step s { s with
        view := fun j => if j = i then v else s.view j
        phase := fun j => if j = i then Ph.prepare else s.phase j }
  | learn (s : PState ι) (i : ι) (hi : i ∉ byz) (c : Ref) (hc : Cert w byz s.st c.view c.num c.hash) :
      Step s { s with highQC := fun j => if j = i then maxQC (s.highQC i) c else s.highQC j }

inductive Reach : PState ι → Prop where
  | init : Reach PState.init
  | step {s s' : PState ι} : Reach s → Step w byz first s s' → Reach s'

/-! ## The invariant -/

/-- I3: a recorded vote blocks its view -/
def I3 (s : PState ι) : Prop := ∀ i, i ∉ byz → ∀ u k h, s.votedAt i u = some (k, h) → s.blocked i u

/-- I5/I7: the live high vote is the replica's vote of maximal view; the live high certificate is a certificate -/
def I7 (s : PState ι) : Prop := ∀ i, i ∉ byz →
  (s.highVote i = none → ∀ u, s.votedAt i u = none) ∧
  (∀ x, s.highVote i = some x → s.votedAt i x.view = some (x.num, x.hash) ∧ ∀ u, x.view < u → s.votedAt i u = none) ∧
  (∀ c, s.highQC i = some c → Cert w byz s.st c.view c.num c.hash)

/-- I6 live: a high vote above `first` comes with a certificate for its parent or higher -/
def I6live (s : PState ι) : Prop := ∀ i, i ∉ byz →
  ∀ x, s.highVote i = some x → first < x.num → ∃ q, s.highQC i = some q ∧ x.num ≤ q.num + 1

/-- every reported high certificate is a certificate -/
def I5 (s : PState ι) : Prop := ∀ i, i ∉ byz → ∀ t r, s.touts i t r →
  ∀ c, r.hq = some c → Cert w byz s.st c.view c.num c.hash

structure Inv (s : PState ι) : Prop where
  i1 : I1 w byz s.st
  i2 : I2 byz s.st
  i3 : I3 byz s
  i4 : I4 byz s.st
  i5 : I5 w byz s
  i6 : I6 byz first s.st
  i6l : I6live byz first s
  i7 : I7 w byz s
  i8 : I8 byz first s.st

end EraVerif.Safety
