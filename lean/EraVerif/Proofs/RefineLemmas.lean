import EraVerif.Proofs.Refine
import Mathlib.Algebra.BigOperators.Fin

/-!
# Lemmas for the refinement Layer I → Layer P (used by `Props/C02d.lean`)

* weights: `weightOf` on a bitmap is `wt (wF c)` of the set of set bits; the committee thresholds coincide;
* groups: in a list of pairwise disjoint groups the group containing a validator is unique, and the sum of the
  weights of the groups selected by a predicate is the weight of the set of their signers;
* `addCount` / `counts`: the association list has distinct keys and maps every header to the sum of the weights of
  the groups that report it;
* `lastMaxBy`: returns a member with maximal key.
-/

namespace EraVerif.Refine
open EraVerif.Model EraVerif.Safety EraVerif.Proofs.Certs Finset

/-! ## Weights -/

theorem weightOf_eq_sum_fin (ws : List Nat) (s : List Bool) :
    weightOf ws s = ∑ i : Fin ws.length, if s.getD i.val false = true then ws[i.val] else 0 := by
  induction ws generalizing s with
  | nil => simp [weightOf_nil_left]
  | cons w ws ih =>
    cases s with
    | nil => simp [weightOf_nil_right]
    | cons b bs =>
      rw [weightOf_cons, ih bs]
      have := Fin.sum_univ_succ (n := ws.length)
        (fun i : Fin (ws.length + 1) => if (b :: bs).getD i.val false = true then (w :: ws)[i.val] else 0)
      simp only [List.length_cons]
      rw [this]
      simp

theorem total_wF (c : Committee) : total (wF c) = c.total := by
  unfold total wt wF Committee.total
  exact Fin.sum_univ_getElem c.weights

theorem faulty_wF (c : Committee) : faulty (wF c) = c.faulty := by
  unfold faulty Committee.faulty; rw [total_wF]
theorem quorum_wF (c : Committee) : quorum (wF c) = c.quorum := by
  unfold quorum Committee.quorum; rw [total_wF, faulty_wF]
theorem subq_wF (c : Committee) : subq (wF c) = c.subquorum := by
  unfold subq Committee.subquorum; rw [total_wF, faulty_wF]

/-- the set of validators whose bit is set in `s` -/
def bits (c : Committee) (s : List Bool) : Finset (Fin c.n) := univ.filter (fun i => s.getD i.val false = true)

theorem weightOf_eq_wt (c : Committee) (s : List Bool) : weightOf c.weights s = wt (wF c) (bits c s) := by
  rw [weightOf_eq_sum_fin]
  unfold wt bits wF
  rw [Finset.sum_filter]
  rfl

/-! ## Groups of a certificate -/

/-- groups are pairwise disjoint -/
abbrev PD (gs : List (TVote × List Bool)) : Prop := gs.Pairwise (fun a b => Disj a.2 b.2)

theorem disj_getD {a b : List Bool} (h : Disj a b) (i : Nat) (ha : a.getD i false = true) (hb : b.getD i false = true) :
    False :=
  h i ⟨(getD_true_iff a i).mp ha, (getD_true_iff b i).mp hb⟩

theorem find_group {gs : List (TVote × List Bool)} (hp : PD gs) {e : TVote × List Bool} (he : e ∈ gs) {i : Nat}
    (hi : e.2.getD i false = true) : gs.find? (fun e => e.2.getD i false) = some e := by
  induction gs with
  | nil => cases he
  | cons a gs ih =>
    obtain ⟨hp0, hp'⟩ := List.pairwise_cons.mp hp
    rcases List.mem_cons.mp he with rfl | he'
    · rw [List.find?_cons, hi]
    · cases ha : a.2.getD i false with
      | true => exact (disj_getD (hp0 e he') i ha hi).elim
      | false => simp only [List.find?_cons, ha]; exact ih hp' he'

theorem groupOf_of_mem {q : TimeoutQC} (hp : PD q.map) {e : TVote × List Bool} (he : e ∈ q.map) {i : Nat}
    (hi : e.2.getD i false = true) : groupOf q i = some e.1 := by
  rw [groupOf, find_group hp he hi]; rfl

theorem groupOf_some {q : TimeoutQC} {i : Nat} {t : TVote} (h : groupOf q i = some t) :
    ∃ e ∈ q.map, e.1 = t ∧ e.2.getD i false = true := by
  unfold groupOf at h
  cases hf : q.map.find? (fun e => e.2.getD i false) with
  | none => rw [hf] at h; cases h
  | some e =>
    rw [hf] at h
    simp only [Option.map_some, Option.some.injEq] at h
    exact ⟨e, List.mem_of_find?_eq_some hf, h, List.find?_some (p := fun e : TVote × List Bool => e.2.getD i false) hf⟩

theorem repOf_of_mem {q : TimeoutQC} (hp : PD q.map) {e : TVote × List Bool} (he : e ∈ q.map) {i : Nat}
    (hi : e.2.getD i false = true) :
    repOf q i = ⟨e.1.highVote.map refOfVote, e.1.highQC.map refOfQC⟩ := by
  simp [repOf, groupOf_of_mem hp he hi]

theorem mem_signers (c : Committee) (q : TimeoutQC) (i : Fin c.n) :
    i ∈ (absTQC c q).signers ↔ ∃ e ∈ q.map, e.2.getD i.val false = true := by
  simp only [absTQC, mem_filter, mem_univ, true_and]
  constructor
  · intro h
    obtain ⟨t, ht⟩ := Option.isSome_iff_exists.mp h
    obtain ⟨e, he, _, hi⟩ := groupOf_some ht
    exact ⟨e, he, hi⟩
  · intro ⟨e, he, hi⟩
    simp only [groupOf, Option.isSome_map, List.find?_isSome]
    exact ⟨e, he, hi⟩

/-- every signer's report is the report of a group containing it -/
theorem rep_of_signer (c : Committee) (q : TimeoutQC) (i : Fin c.n) (h : i ∈ (absTQC c q).signers) :
    ∃ e ∈ q.map, e.2.getD i.val false = true ∧
      (absTQC c q).rep i = ⟨e.1.highVote.map refOfVote, e.1.highQC.map refOfQC⟩ := by
  simp only [absTQC, mem_filter, mem_univ, true_and] at h
  obtain ⟨t, ht⟩ := Option.isSome_iff_exists.mp h
  obtain ⟨e, he, het, hi⟩ := groupOf_some ht
  refine ⟨e, he, hi, ?_⟩
  simp [absTQC, repOf, ht, het]

/-- in a verified certificate every group has a signer below the committee size -/
theorem group_has_signer (c : Committee) {e : TVote × List Bool} (hl : e.2.length = c.n)
    (hne : ∃ i : Nat, e.2[i]? = some true) : ∃ i : Fin c.n, e.2.getD i.val false = true := by
  obtain ⟨i, hi⟩ := hne
  have hlt : i < c.n := hl ▸ (List.getElem?_eq_some_iff.mp hi).1
  exact ⟨⟨i, hlt⟩, (getD_true_iff _ _).mpr hi⟩

/-- the sum of the weights of the groups selected by `P` is the weight of the set of their signers -/
theorem sum_groups_eq_wt (c : Committee) (P : TVote → Prop) [DecidablePred P] (gs : List (TVote × List Bool))
    (hp : PD gs) :
    (gs.map (fun e => if P e.1 then weightOf c.weights e.2 else 0)).sum =
      wt (wF c) (univ.filter (fun i : Fin c.n => ∃ e ∈ gs, P e.1 ∧ e.2.getD i.val false = true)) := by
  induction gs with
  | nil => simp [wt]
  | cons a gs ih =>
    obtain ⟨hp0, hp'⟩ := List.pairwise_cons.mp hp
    rw [List.map_cons, List.sum_cons, ih hp']
    have hset : (univ.filter (fun i : Fin c.n => ∃ e ∈ a :: gs, P e.1 ∧ e.2.getD i.val false = true)) =
        (if P a.1 then bits c a.2 else ∅) ∪
          (univ.filter (fun i : Fin c.n => ∃ e ∈ gs, P e.1 ∧ e.2.getD i.val false = true)) := by
      ext i
      by_cases hP : P a.1 <;> simp [bits, hP]
    have hdisj : Disjoint (if P a.1 then bits c a.2 else ∅)
        (univ.filter (fun i : Fin c.n => ∃ e ∈ gs, P e.1 ∧ e.2.getD i.val false = true)) := by
      rw [Finset.disjoint_left]
      intro i hi hi'
      split at hi
      · simp only [bits, mem_filter, mem_univ, true_and] at hi hi'
        obtain ⟨e, he, _, hie⟩ := hi'
        exact disj_getD (hp0 e he) i.val hi hie
      · simp at hi
    rw [hset]
    unfold wt
    rw [Finset.sum_union hdisj]
    congr 1
    split
    · exact weightOf_eq_wt c a.2
    · simp

/-! ## `addCount` and `counts` -/

/-- value stored for header `h` in the association list (0 if absent) -/
def cnt : List (Header × Nat) → Header → Nat
  | [], _ => 0
  | (h', w') :: rest, h => if h' = h then w' else cnt rest h

theorem cnt_addCount (L : List (Header × Nat)) (h : Header) (w : Nat) (h' : Header) :
    cnt (addCount L h w) h' = cnt L h' + (if h = h' then w else 0) := by
  induction L with
  | nil => simp [addCount, cnt]
  | cons p L ih =>
    obtain ⟨k, x⟩ := p
    simp only [addCount]
    by_cases hk : k = h
    · subst hk
      by_cases hh : k = h' <;> simp [cnt, hh]
    · simp only [hk, if_false, cnt]
      by_cases hh : k = h'
      · subst hh; simp [Ne.symm hk]
      · simp [hh, ih]

theorem keys_addCount (L : List (Header × Nat)) (h : Header) (w : Nat) (h' : Header) :
    h' ∈ (addCount L h w).map Prod.fst ↔ h' ∈ L.map Prod.fst ∨ h' = h := by
  induction L with
  | nil => simp [addCount]
  | cons p L ih =>
    obtain ⟨k, x⟩ := p
    simp only [addCount]
    by_cases hk : k = h
    · subst hk; simp only [if_true, List.map_cons, List.mem_cons]; tauto
    · simp only [hk, if_false, List.map_cons, List.mem_cons, ih]
      tauto

theorem nodup_addCount (L : List (Header × Nat)) (h : Header) (w : Nat) (hn : (L.map Prod.fst).Nodup) :
    ((addCount L h w).map Prod.fst).Nodup := by
  induction L with
  | nil => simp [addCount]
  | cons p L ih =>
    obtain ⟨k, x⟩ := p
    simp only [addCount]
    by_cases hk : k = h
    · subst hk; simpa using hn
    · simp only [hk, if_false, List.map_cons, List.nodup_cons] at hn ⊢
      refine ⟨fun hmem => ?_, ih hn.2⟩
      rcases (keys_addCount L h w k).mp hmem with h1 | h1
      · exact hn.1 h1
      · exact hk h1

theorem cnt_of_mem {L : List (Header × Nat)} (hn : (L.map Prod.fst).Nodup) {p : Header × Nat} (hp : p ∈ L) :
    cnt L p.1 = p.2 := by
  induction L with
  | nil => cases hp
  | cons a L ih =>
    obtain ⟨k, x⟩ := a
    simp only [List.map_cons, List.nodup_cons] at hn
    rcases List.mem_cons.mp hp with rfl | hp'
    · simp [cnt]
    · have hne : k ≠ p.1 := fun he => hn.1 (he ▸ List.mem_map_of_mem hp')
      simp only [cnt, hne, if_false]
      exact ih hn.2 hp'

theorem mem_of_cnt_pos {L : List (Header × Nat)} {h : Header} (hpos : 0 < cnt L h) : (h, cnt L h) ∈ L := by
  induction L with
  | nil => simp [cnt] at hpos
  | cons a L ih =>
    obtain ⟨k, x⟩ := a
    simp only [cnt] at hpos ⊢
    by_cases hk : k = h
    · subst hk; simp
    · simp only [hk, if_false] at hpos ⊢
      exact List.mem_cons_of_mem _ (ih hpos)

/-- header reported as high vote by a timeout vote -/
def hvHeader (t : TVote) : Option Header := t.highVote.map (·.proposal)

/-- the step of the loop of `high_vote()` -/
def countStep (c : Committee) (acc : List (Header × Nat)) (e : TVote × List Bool) : List (Header × Nat) :=
  match e.1.highVote with
  | some v => addCount acc v.proposal (weightOf c.weights e.2)
  | none => acc

theorem counts_eq (c : Committee) (q : TimeoutQC) : q.counts c = q.map.foldl (countStep c) [] := rfl

/-- sum of the weights of the groups reporting header `h` -/
def groupSum (c : Committee) (gs : List (TVote × List Bool)) (h : Header) : Nat :=
  (gs.map (fun e => if hvHeader e.1 = some h then weightOf c.weights e.2 else 0)).sum

theorem cnt_countStep (c : Committee) (acc : List (Header × Nat)) (e : TVote × List Bool) (h : Header) :
    cnt (countStep c acc e) h = cnt acc h + (if hvHeader e.1 = some h then weightOf c.weights e.2 else 0) := by
  unfold countStep hvHeader
  cases e.1.highVote with
  | none => simp
  | some v => simp [cnt_addCount]

theorem nodup_countStep (c : Committee) (acc : List (Header × Nat)) (e : TVote × List Bool)
    (hn : (acc.map Prod.fst).Nodup) : ((countStep c acc e).map Prod.fst).Nodup := by
  unfold countStep
  cases e.1.highVote with
  | none => exact hn
  | some v => exact nodup_addCount _ _ _ hn

theorem fold_counts (c : Committee) (gs : List (TVote × List Bool)) (acc : List (Header × Nat))
    (hn : (acc.map Prod.fst).Nodup) :
    ((gs.foldl (countStep c) acc).map Prod.fst).Nodup ∧
      ∀ h, cnt (gs.foldl (countStep c) acc) h = cnt acc h + groupSum c gs h := by
  induction gs generalizing acc with
  | nil => simp [groupSum, hn]
  | cons e gs ih =>
    obtain ⟨h1, h2⟩ := ih (countStep c acc e) (nodup_countStep c acc e hn)
    refine ⟨h1, fun h => ?_⟩
    rw [List.foldl_cons, h2, cnt_countStep]
    simp [groupSum, Nat.add_assoc]

theorem counts_nodup (c : Committee) (q : TimeoutQC) : ((q.counts c).map Prod.fst).Nodup :=
  (fold_counts c q.map [] (by simp)).1

theorem counts_cnt (c : Committee) (q : TimeoutQC) (h : Header) : cnt (q.counts c) h = groupSum c q.map h := by
  rw [counts_eq, (fold_counts c q.map [] (by simp)).2]; simp [cnt]

/-- a list without duplicates all of whose members equal `x`, and which contains `x`, is `[x]` -/
theorem eq_singleton_of_nodup {α : Type} {l : List α} {x : α} (hn : l.Nodup) (hx : x ∈ l) (hall : ∀ y ∈ l, y = x) :
    l = [x] := by
  match l, hn, hx, hall with
  | [a], _, _, hall => rw [hall a (by simp)]
  | a :: b :: r, hn, _, hall =>
    have h1 := hall a (by simp)
    have h2 := hall b (by simp)
    simp only [List.nodup_cons, List.mem_cons] at hn
    exact absurd (Or.inl (h1.trans h2.symm)) hn.1

/-! ## `lastMaxBy` -/

theorem foldl_max_spec {α : Type} (key : α → Nat) (xs : List α) (x : α) :
    (xs.foldl (fun best y => if key best ≤ key y then y else best) x) ∈ x :: xs ∧
      ∀ y ∈ x :: xs, key y ≤ key (xs.foldl (fun best y => if key best ≤ key y then y else best) x) := by
  induction xs generalizing x with
  | nil => simp
  | cons a xs ih =>
    rw [List.foldl_cons]
    obtain ⟨h1, h2⟩ := ih (if key x ≤ key a then a else x)
    constructor
    · rcases List.mem_cons.mp h1 with h | h
      · rw [h]; split <;> simp
      · exact List.mem_cons_of_mem _ (List.mem_cons_of_mem _ h)
    · intro y hy
      have hm := h2 (if key x ≤ key a then a else x) (by simp)
      rcases List.mem_cons.mp hy with rfl | hy'
      · refine le_trans ?_ hm; split <;> omega
      · rcases List.mem_cons.mp hy' with rfl | hy''
        · refine le_trans ?_ hm; split <;> omega
        · exact h2 y (List.mem_cons_of_mem _ hy'')

theorem lastMaxBy_none {α : Type} (key : α → Nat) (l : List α) : lastMaxBy key l = none ↔ l = [] := by
  cases l <;> simp [lastMaxBy]

theorem lastMaxBy_some {α : Type} (key : α → Nat) (l : List α) (x : α) (h : lastMaxBy key l = some x) :
    x ∈ l ∧ ∀ y ∈ l, key y ≤ key x := by
  cases l with
  | nil => simp [lastMaxBy] at h
  | cons a l =>
    simp only [lastMaxBy, Option.some.injEq] at h
    subst h
    exact foldl_max_spec key l a

/-! ## What a verified certificate provides -/

theorem verify_groups {c : Committee} {q : TimeoutQC} (h : q.verify c = true) :
    (∀ e ∈ q.map, e.2.length = c.n ∧ ∃ i : Nat, e.2[i]? = some true) ∧ PD q.map ∧
      c.quorum ≤ weightOf c.weights (tqcUnion c q) := by
  obtain ⟨_, _, hg, hd, hw, _⟩ := (timeoutQC_verify_iff c q).mp h
  exact ⟨fun e he => ⟨(hg e he).2.1, (hg e he).2.2.1⟩, hd, hw⟩

/-! ## High vote -/

theorem hvHeader_eq_some (t : TVote) (hd : Header) :
    hvHeader t = some hd ↔ ∃ v, t.highVote = some v ∧ v.proposal = hd := by
  unfold hvHeader; cases t.highVote <;> simp

theorem reporters_eq (c : Committee) (q : TimeoutQC) (hp : PD q.map) (hd : Header) :
    (absTQC c q).reporters hd.number hd.payload =
      univ.filter (fun i : Fin c.n => ∃ e ∈ q.map, hvHeader e.1 = some hd ∧ e.2.getD i.val false = true) := by
  ext i
  simp only [TQC.reporters, mem_filter, mem_univ, true_and]
  constructor
  · intro ⟨hs, x, hx, hk, hh⟩
    obtain ⟨e, he, hi, hrep⟩ := rep_of_signer c q i hs
    rw [hrep] at hx
    simp only [Option.map_eq_some_iff] at hx
    obtain ⟨v, hv, rfl⟩ := hx
    refine ⟨e, he, (hvHeader_eq_some _ _).mpr ⟨v, hv, ?_⟩, hi⟩
    cases hd; cases hvp : v.proposal
    simp only [refOfVote, hvp] at hk hh
    simp [hk, hh]
  · intro ⟨e, he, hhd, hi⟩
    obtain ⟨v, hv, hvp⟩ := (hvHeader_eq_some _ _).mp hhd
    refine ⟨(mem_signers c q i).mpr ⟨e, he, hi⟩, refOfVote v, ?_, ?_, ?_⟩
    · show (repOf q i.val).hv = _
      rw [repOf_of_mem hp he hi, hv]; rfl
    · simp [refOfVote, hvp]
    · simp [refOfVote, hvp]

/-- the weight of the signers reporting `hd` is the entry of `hd` in the `count` map of `high_vote()` -/
theorem wt_reporters (c : Committee) (q : TimeoutQC) (hp : PD q.map) (hd : Header) :
    wt (wF c) ((absTQC c q).reporters hd.number hd.payload) = cnt (q.counts c) hd := by
  rw [reporters_eq c q hp, counts_cnt, groupSum,
    sum_groups_eq_wt c (fun t => hvHeader t = some hd) q.map hp]

theorem highVote_eq_some (c : Committee) (q : TimeoutQC) (hd : Header) :
    q.highVote c = some hd ↔
      ∃ x, (q.counts c).filter (fun x => c.subquorum ≤ x.2) = [x] ∧ x.1 = hd := by
  unfold TimeoutQC.highVote
  generalize (q.counts c).filter _ = F
  match F with
  | [] => simp
  | [a] => simp
  | a :: b :: r => simp

theorem highVote_some_iff (c : Committee) (q : TimeoutQC) (ht : 1 ≤ c.total) (hp : PD q.map) (hd : Header) :
    q.highVote c = some hd ↔ (absTQC c q).isHV (wF c) hd.number hd.payload := by
  have hpos : 0 < c.subquorum := by unfold Committee.subquorum Committee.faulty; omega
  have hnd := counts_nodup c q
  have hW : ∀ hd' : Header, wt (wF c) ((absTQC c q).reporters hd'.number hd'.payload) = cnt (q.counts c) hd' :=
    wt_reporters c q hp
  rw [highVote_eq_some]
  unfold TQC.isHV
  rw [subq_wF]
  constructor
  · intro ⟨x, hF, hx⟩
    have hxF : x ∈ (q.counts c).filter (fun x => c.subquorum ≤ x.2) := by rw [hF]; simp
    obtain ⟨hxc, hxw⟩ := List.mem_filter.mp hxF
    have hxw' : c.subquorum ≤ x.2 := by simpa using hxw
    have hcx := cnt_of_mem hnd hxc
    subst hx
    refine ⟨by rw [hW, hcx]; exact hxw', fun k' h' hsub => ?_⟩
    have hsub' := hW ⟨k', h'⟩ ▸ hsub
    have hmem := mem_of_cnt_pos (L := q.counts c) (h := ⟨k', h'⟩) (by omega)
    have : (⟨k', h'⟩, cnt (q.counts c) ⟨k', h'⟩) ∈ (q.counts c).filter (fun x => c.subquorum ≤ x.2) :=
      List.mem_filter.mpr ⟨hmem, by simpa using hsub'⟩
    rw [hF, List.mem_singleton] at this
    rw [← this]; exact ⟨rfl, rfl⟩
  · intro ⟨hsub, huniq⟩
    rw [hW] at hsub
    have hmem := mem_of_cnt_pos (L := q.counts c) (h := hd) (by omega)
    refine ⟨(hd, cnt (q.counts c) hd), ?_, rfl⟩
    apply eq_singleton_of_nodup
    · exact (List.Nodup.of_map _ hnd).filter _
    · exact List.mem_filter.mpr ⟨hmem, by simpa using hsub⟩
    · intro y hy
      obtain ⟨hyc, hyw⟩ := List.mem_filter.mp hy
      have hyw' : c.subquorum ≤ y.2 := by simpa using hyw
      have hcy := cnt_of_mem hnd hyc
      have := huniq y.1.number y.1.payload (by rw [hW, hcy]; exact hyw')
      have hy1 : y.1 = hd := by
        cases hd; cases hy1 : y.1
        simp only [hy1] at this
        simp [this.1, this.2]
      exact Prod.ext hy1 (by rw [← hcy, hy1])

theorem highVote_none_iff (c : Committee) (q : TimeoutQC) (ht : 1 ≤ c.total) (hp : PD q.map) :
    q.highVote c = none ↔ (absTQC c q).noHV (wF c) := by
  unfold TQC.noHV
  constructor
  · intro hn ⟨k, h, hhv⟩
    have := (highVote_some_iff c q ht hp ⟨k, h⟩).mpr hhv
    rw [hn] at this; cases this
  · intro hno
    cases hv : q.highVote c with
    | none => rfl
    | some hd => exact absurd ⟨hd.number, hd.payload, (highVote_some_iff c q ht hp hd).mp hv⟩ hno

/-! ## High certificate -/

/-- the certificates `high_qc()` takes the maximum of -/
def reportedQCs (q : TimeoutQC) : List CommitQC := q.map.filterMap (fun e => e.1.highQC)

theorem highQC_eq (q : TimeoutQC) :
    q.highQC = lastMaxBy (fun (x : CommitQC) => x.message.view.number) (reportedQCs q) := rfl

theorem mem_reportedQCs (q : TimeoutQC) (cq : CommitQC) :
    cq ∈ reportedQCs q ↔ ∃ e ∈ q.map, e.1.highQC = some cq := by
  simp [reportedQCs, List.mem_filterMap]

/-- a certificate reported by a group of a verified timeout certificate is reported by some signer -/
theorem signer_of_group (c : Committee) (q : TimeoutQC)
    (hg : ∀ e ∈ q.map, e.2.length = c.n ∧ ∃ i : Nat, e.2[i]? = some true) (hp : PD q.map)
    {e : TVote × List Bool} (he : e ∈ q.map) :
    ∃ i ∈ (absTQC c q).signers, (absTQC c q).rep i = ⟨e.1.highVote.map refOfVote, e.1.highQC.map refOfQC⟩ := by
  obtain ⟨i, hi⟩ := group_has_signer c (hg e he).1 (hg e he).2
  exact ⟨i, (mem_signers c q i).mpr ⟨e, he, hi⟩, repOf_of_mem hp he hi⟩

theorem highQC_none_iff (c : Committee) (q : TimeoutQC)
    (hg : ∀ e ∈ q.map, e.2.length = c.n ∧ ∃ i : Nat, e.2[i]? = some true) (hp : PD q.map) :
    q.highQC = none ↔ (absTQC c q).noHQ := by
  rw [highQC_eq, lastMaxBy_none]
  unfold TQC.noHQ
  constructor
  · intro hnil i hi
    obtain ⟨e, he, _, hrep⟩ := rep_of_signer c q i hi
    rw [hrep]
    cases hq : e.1.highQC with
    | none => rfl
    | some cq =>
      have : cq ∈ reportedQCs q := (mem_reportedQCs q cq).mpr ⟨e, he, hq⟩
      rw [hnil] at this; cases this
  · intro hno
    cases hl : reportedQCs q with
    | nil => rfl
    | cons cq r =>
      have : cq ∈ reportedQCs q := by rw [hl]; simp
      obtain ⟨e, he, hq⟩ := (mem_reportedQCs q cq).mp this
      obtain ⟨i, hi, hrep⟩ := signer_of_group c q hg hp he
      have := hno i hi
      rw [hrep, hq] at this
      cases this

theorem highQC_some (c : Committee) (q : TimeoutQC)
    (hg : ∀ e ∈ q.map, e.2.length = c.n ∧ ∃ i : Nat, e.2[i]? = some true) (hp : PD q.map)
    (cq : CommitQC) (h : q.highQC = some cq) : (absTQC c q).isHQ (refOfQC cq) := by
  rw [highQC_eq] at h
  obtain ⟨hmem, hmax⟩ := lastMaxBy_some _ _ _ h
  obtain ⟨e, he, hq⟩ := (mem_reportedQCs q cq).mp hmem
  constructor
  · obtain ⟨i, hi, hrep⟩ := signer_of_group c q hg hp he
    exact ⟨i, hi, by rw [hrep, hq]; rfl⟩
  · intro i hi c' hc'
    obtain ⟨e', he', _, hrep⟩ := rep_of_signer c q i hi
    rw [hrep] at hc'
    simp only [Option.map_eq_some_iff] at hc'
    obtain ⟨cq', hq', rfl⟩ := hc'
    exact hmax cq' ((mem_reportedQCs q cq').mpr ⟨e', he', hq'⟩)

/-! ## The signer set reaches the quorum -/

theorem signers_eq (c : Committee) (q : TimeoutQC) :
    (absTQC c q).signers =
      univ.filter (fun i : Fin c.n => ∃ e ∈ q.map, True ∧ e.2.getD i.val false = true) := by
  ext i
  rw [mem_signers]
  simp

theorem wt_signers (c : Committee) (q : TimeoutQC) (hg : ∀ e ∈ q.map, e.2.length = c.n) (hp : PD q.map) :
    wt (wF c) (absTQC c q).signers = weightOf c.weights (tqcUnion c q) := by
  rw [tqcUnion_weight_eq c q hg hp, tqcGroupWeight, signers_eq,
    ← sum_groups_eq_wt c (fun _ => True) q.map hp]
  simp

theorem quorum_le_signers (c : Committee) (q : TimeoutQC) (h : q.verify c = true) :
    quorum (wF c) ≤ wt (wF c) (absTQC c q).signers := by
  obtain ⟨hg, hp, hw⟩ := verify_groups h
  rw [quorum_wF, wt_signers c q (fun e he => (hg e he).1) hp]
  exact hw

/-! ## Implied block -/

/-- no reported high certificate is for block number `2^64 - 1` (so `BlockNumber::next` does not wrap) -/
def NoWrap (q : TimeoutQC) : Prop :=
  ∀ e ∈ q.map, ∀ cq, e.1.highQC = some cq → cq.message.proposal.number + 1 < 2 ^ 64

/-- executable form of `NoWrap` (for concrete certificates) -/
def noWrapB (q : TimeoutQC) : Bool :=
  q.map.all (fun e => match e.1.highQC with
    | some cq => decide (cq.message.proposal.number + 1 < 2 ^ 64)
    | none => true)

theorem noWrap_of_check (q : TimeoutQC) (h : noWrapB q = true) : NoWrap q := by
  intro e he cq hq
  have := List.all_eq_true.mp h e he
  rw [hq] at this
  simpa using this

theorem nextBlock_of_lt (k : Nat) (h : k + 1 < 2 ^ 64) : nextBlock k = k + 1 := by
  unfold nextBlock; exact Nat.mod_eq_of_lt h

theorem noWrap_highQC (q : TimeoutQC) (hnw : NoWrap q) (cq : CommitQC) (h : q.highQC = some cq) :
    nextBlock cq.message.proposal.number = cq.message.proposal.number + 1 := by
  rw [highQC_eq] at h
  obtain ⟨e, he, hq⟩ := (mem_reportedQCs q cq).mp (lastMaxBy_some _ _ _ h).1
  exact nextBlock_of_lt _ (hnw e he cq hq)

theorem implied_refines (c : Committee) (q : TimeoutQC) (ht : 1 ≤ c.total) (h : q.verify c = true)
    (hnw : NoWrap q) :
    Implied (wF c) c.first (absTQC c q) ((Just.timeout q).impliedBlock c).1 ((Just.timeout q).impliedBlock c).2 := by
  obtain ⟨hg, hp, _⟩ := verify_groups h
  cases hv : q.highVote c with
  | none =>
    have hno := (highVote_none_iff c q ht hp).mp hv
    cases hq : q.highQC with
    | none =>
      have hib : (Just.timeout q).impliedBlock c = (c.first, none) := by simp only [Just.impliedBlock, hv, hq]
      rw [hib]
      exact Or.inr (Or.inr (Or.inr (Or.inr ⟨hno, (highQC_none_iff c q hg hp).mp hq, rfl, rfl⟩)))
    | some cq =>
      have hib : (Just.timeout q).impliedBlock c = (nextBlock cq.message.proposal.number, none) := by
        simp only [Just.impliedBlock, hv, hq]
      rw [hib]
      exact Or.inr (Or.inr (Or.inr (Or.inl ⟨refOfQC cq, hno, highQC_some c q hg hp cq hq,
        noWrap_highQC q hnw cq hq, rfl⟩)))
  | some v =>
    have hhv := (highVote_some_iff c q ht hp v).mp hv
    cases hq : q.highQC with
    | none =>
      have hib : (Just.timeout q).impliedBlock c = (v.number, some v.payload) := by
        simp only [Just.impliedBlock, hv, hq]
      rw [hib]
      exact Or.inl ⟨v.number, v.payload, hhv, (highQC_none_iff c q hg hp).mp hq, rfl, rfl⟩
    | some cq =>
      have hhq := highQC_some c q hg hp cq hq
      by_cases hgt : v.number > cq.message.proposal.number
      · have hib : (Just.timeout q).impliedBlock c = (v.number, some v.payload) := by
          simp only [Just.impliedBlock, hv, hq, hgt, if_true]
        rw [hib]
        exact Or.inr (Or.inl ⟨v.number, v.payload, refOfQC cq, hhv, hhq, hgt, rfl, rfl⟩)
      · have hib : (Just.timeout q).impliedBlock c = (nextBlock cq.message.proposal.number, none) := by
          simp only [Just.impliedBlock, hv, hq, hgt, if_false]
        rw [hib]
        exact Or.inr (Or.inr (Or.inl ⟨v.number, v.payload, refOfQC cq, hhv, hhq, Nat.le_of_not_lt hgt,
          noWrap_highQC q hnw cq hq, rfl⟩))

end EraVerif.Refine
