import EraVerif.Proofs.SyncProgressGlobal

/-!
# C06s, part 5: whole rounds

* `sync_spec` — phases (1)–(3); `failedRound_spec` — phases (1)–(4); `round_spec` — phases (1)–(6);
* `next_sync_view` — after a failed round that ended in view `W + 1`, the next round synchronises on exactly `W + 1`;
* `failedRounds_spec` — `k` failed rounds in a row move everybody `k` views up;
* `rotation` — with a round-robin leader schedule one of `n` consecutive views is led by a given validator.
-/

namespace EraVerif.Proofs.Sync
open EraVerif.Model EraVerif.Proofs.ReplicaStep EraVerif.Proofs.Progress EraVerif.Proofs.RefineIP
open EraVerif.Proofs.Certs EraVerif.Safety EraVerif.Refine

section
variable {cfg : RCfg} {byz : Finset (Fin cfg.c.n)} {E : Fin cfg.c.n → Env} {C : List (Fin cfg.c.n)}

/-- how the common view `V` after phase (2) relates to the state before the round: everybody was in view 0 and holds
no usable certificate (`V = 0`), or `V` is the view justified by the highest certificate of a validator with maximal
view -/
def SyncView (C : List (Fin cfg.c.n)) (g : Global cfg) (V : Nat) : Prop :=
  ((∀ i ∈ C, (g.sys i).r.view = 0) ∧ V = 0) ∨
  ∃ m ∈ C, ∃ j, getJustification (g.sys m).r = .ok j ∧ V = certView j + 1 ∧ certView j ≤ (g.sys m).r.view

theorem Setup.nonempty (S : Setup cfg byz E C) : C ≠ [] := by
  intro h
  have := S.correct_weight
  rw [h] at this
  have hq := quorum_pos cfg.c S.total
  simp at this
  omega

theorem SyncView.le {g : Global cfg} {V k : Nat} (h : SyncView C g V) (hne : C ≠ [])
    (hnw : ∀ i ∈ C, (g.sys i).r.view + 1 + k < 2 ^ 64) : V + k < 2 ^ 64 := by
  rcases h with ⟨_, rfl⟩ | ⟨m, hm, j, _, rfl, hle⟩
  · obtain ⟨i, hi⟩ := List.exists_mem_of_ne_nil C hne
    have := hnw i hi
    omega
  · have := hnw m hm
    omega

/-- **Phases (1)–(3).** Legal; after phase (2) all correct validators are in one view `V` (at least every view
before); after phase (3) each has sent its timeout vote for `V` and is in phase `timeout`. -/
theorem sync_spec (S : Setup cfg byz E C) {x : Run cfg} (hst : Stage byz E x.g)
    (hnw : ∀ i ∈ C, (x.g.sys i).r.view + 2 < 2 ^ 64) :
    ∃ V, Relation.ReflTransGen (GStep cfg (Byz byz)) x.g (afterSync E C x).g ∧
      Relation.ReflTransGen (GStep cfg (Byz byz)) (afterSync E C x).g (afterTimeouts E C x).g ∧
      Stage byz E (afterSync E C x).g ∧
      (∀ i ∈ C, ((afterSync E C x).g.sys i).r.view = V ∧ (x.g.sys i).r.view ≤ V) ∧
      SyncView C x.g V ∧
      Synced byz E C (afterTimeouts E C x).g V ∧
      (∀ i ∈ C, ((afterTimeouts E C x).g.sys i).r.phase = .timeout) := by
  obtain ⟨a1, a2, _, a4⟩ := tickAll_spec S hst
  have hr1 : ∀ i ∈ C, ((tickAll E C x).g.sys i).r = stState (x.g.sys i).r := fun i hi => (a4 i hi).1
  obtain ⟨b1, b2, _, V, b4, _, b6⟩ := syncViews_spec S a2
    (by
      intro i hi hv
      rw [hr1 i hi] at hv ⊢
      obtain ⟨j, hj, hs⟩ := (a4 i hi).2.2 hv
      exact ⟨j, hj, hs⟩)
    (by intro i hi; rw [hr1 i hi]; exact hnw i hi)
  obtain ⟨c1, c2, _, c4⟩ := tickAll_spec S b2
  refine ⟨V, a1.trans b1, c1, b2, fun i hi => ?_, ?_, ⟨c2, fun i hi => ?_, fun i hi => ?_⟩, fun i hi => ?_⟩
  · obtain ⟨h1, h2⟩ := b4 i hi
    rw [hr1 i hi] at h2
    exact ⟨h1, h2⟩
  · rcases b6 with ⟨h0, hV⟩ | ⟨m, hm, j, hj, hV, hle⟩
    · exact Or.inl ⟨fun i hi => by have := h0 i hi; rw [hr1 i hi] at this; exact this, hV⟩
    · rw [hr1 m hm] at hj hle
      exact Or.inr ⟨m, hm, j, hj, hV, hle⟩
  · show ((tickAll E C (syncViews E C (tickAll E C x))).g.sys i).r.view = V
    rw [(c4 i hi).1]
    exact (b4 i hi).1
  · show Msg.timeout (tvoteOf cfg ((tickAll E C (syncViews E C (tickAll E C x))).g.sys i).r) ∈
      ((tickAll E C (syncViews E C (tickAll E C x))).g.sys i).sent
    rw [(c4 i hi).1]
    exact (c4 i hi).2.1
  · show ((tickAll E C (syncViews E C (tickAll E C x))).g.sys i).r.phase = .timeout
    rw [(c4 i hi).1]
    rfl

/-- **Phases (1)–(4): a round always moves on.** Whoever leads the next view: all correct validators end in `prepare`
of view `V + 1`. -/
theorem failedRound_spec (S : Setup cfg byz E C) {x : Run cfg} (hst : Stage byz E x.g)
    (hnw : ∀ i ∈ C, (x.g.sys i).r.view + 3 < 2 ^ 64) :
    ∃ V, (∀ i ∈ C, ((afterSync E C x).g.sys i).r.view = V ∧ (x.g.sys i).r.view ≤ V) ∧ SyncView C x.g V ∧
      Synced byz E C (afterTimeouts E C x).g V ∧
      Relation.ReflTransGen (GStep cfg (Byz byz)) x.g (failedRound E C x).g ∧
      Advanced byz E C (failedRound E C x) V := by
  obtain ⟨V, s1, s2, _, s4, s5, s6, _⟩ := sync_spec S hst (fun i hi => by have := hnw i hi; omega)
  have hV : V + 2 < 2 ^ 64 := s5.le S.nonempty (fun i hi => by have := hnw i hi; omega)
  obtain ⟨t1, t2⟩ := exchangeTimeouts_spec S s6 hV
  exact ⟨V, s4, s5, s6, (s1.trans s2).trans t1, t2⟩

/-- after a round that ended in `prepare` of view `W + 1`, the next round synchronises on exactly that view -/
theorem next_sync_view (S : Setup cfg byz E C) {x : Run cfg} {W V : Nat} (hadv : Advanced byz E C x W)
    (hs : SyncView C x.g V) : V = W + 1 := by
  rcases hs with ⟨h0, _⟩ | ⟨m, hm, j, hj, hV, _⟩
  · obtain ⟨i, hi⟩ := List.exists_mem_of_ne_nil C S.nonempty
    have := h0 i hi
    rw [hadv.view i hi] at this
    omega
  · obtain ⟨j', hj', _, _, hc, _⟩ := hadv.just m hm
    rw [hj] at hj'
    cases hj'
    rw [hV, hc]

/-- **`k` failed rounds in a row.** From a state where everybody is in `prepare` of view `W + 1`, `k` more rounds with
silent leaders end with everybody in `prepare` of view `W + k + 1`; all steps are legal. -/
theorem failedRounds_spec (S : Setup cfg byz E C) : ∀ (k : Nat) {x : Run cfg} {W : Nat}, Advanced byz E C x W →
    W + k + 4 < 2 ^ 64 →
    Relation.ReflTransGen (GStep cfg (Byz byz)) x.g (failedRounds E C k x).g ∧
    Advanced byz E C (failedRounds E C k x) (W + k) := by
  intro k
  induction k with
  | zero => intro x W hadv _; exact ⟨.refl, hadv⟩
  | succ k ih =>
    intro x W hadv hnw
    obtain ⟨V, _, s2, _, s4, s5⟩ := failedRound_spec S hadv.stage
      (fun i hi => by rw [hadv.view i hi]; omega)
    have hV := next_sync_view S hadv s2
    subst hV
    obtain ⟨r1, r2⟩ := ih s5 (by omega)
    refine ⟨s4.trans r1, ?_⟩
    have : W + 1 + k = W + (k + 1) := by omega
    rw [← this]
    exact r2

/-- with a round-robin schedule, one of any `n` consecutive views is led by a given validator -/
theorem rotation (n : Nat) (c W : Nat) (hc : c < n) : ∃ k, k < n ∧ (W + k + 1) % n = c := by
  have hn : 0 < n := by omega
  have ha : (W + 1) % n < n := Nat.mod_lt _ hn
  by_cases hle : (W + 1) % n ≤ c
  · refine ⟨c - (W + 1) % n, by omega, ?_⟩
    have : W + (c - (W + 1) % n) + 1 = (W + 1) + (c - (W + 1) % n) := by omega
    rw [this, Nat.add_mod, Nat.mod_eq_of_lt (show c - (W + 1) % n < n by omega)]
    have : (W + 1) % n + (c - (W + 1) % n) = c := by omega
    rw [this, Nat.mod_eq_of_lt hc]
  · refine ⟨c + n - (W + 1) % n, by omega, ?_⟩
    have : W + (c + n - (W + 1) % n) + 1 = (W + 1) + (c + n - (W + 1) % n) := by omega
    rw [this, Nat.add_mod, Nat.mod_eq_of_lt (show c + n - (W + 1) % n < n by omega)]
    have : (W + 1) % n + (c + n - (W + 1) % n) = c + n := by omega
    rw [this, Nat.add_mod_right, Nat.mod_eq_of_lt hc]

/-- what the round asks of the block stores of the correct validators once the leader's justification `j` is known:
payloads verify, the implied block is not pruned, and for a fresh proposal the predecessor is persisted -/
def EnvFits (cfg : RCfg) (E : Fin cfg.c.n → Env) (C : List (Fin cfg.c.n)) (j : Just) : Prop :=
  ∀ i ∈ C, (E i).payloadOk = true ∧ (E i).queuedFirst ≤ (j.impliedBlock cfg.c).1 ∧
    ((j.impliedBlock cfg.c).2 = none →
      (j.impliedBlock cfg.c).1 = 0 ∨ (j.impliedBlock cfg.c).1 - 1 < (E i).persistedNext)

/-- **A full round with a correct leader.** -/
theorem round_spec (S : Setup cfg byz E C) {x : Run cfg} (hst : Stage byz E x.g)
    (hnw : ∀ i ∈ C, (x.g.sys i).r.view + 3 < 2 ^ 64) {L : Fin cfg.c.n} (hL : L ∈ C)
    (hlead : ∀ i ∈ C, L.val = cfg.leader (((afterSync E C x).g.sys i).r.view + 1)) (fresh : Payload)
    (hsize : fresh.size ≤ cfg.maxPayload) {j : Just}
    (hj : getJustification ((failedRound E C x).g.sys L).r = .ok j) (hjw : JustNoWrap j)
    (henv : EnvFits cfg E C j) :
    ∃ V, (∀ i ∈ C, ((afterSync E C x).g.sys i).r.view = V ∧ (x.g.sys i).r.view ≤ V) ∧
      Advanced byz E C (failedRound E C x) V ∧
      Voted byz E C (afterProposal E C L fresh x) V (voteFor cfg j fresh) ∧
      ((j.impliedBlock cfg.c).2 = none → ∀ i ∈ C, ∃ p ∈ ((afterProposal E C L fresh x).g.sys i).r.proposals,
        p.1 = (j.impliedBlock cfg.c).1 ∧ p.2.id = fresh.id) ∧
      Relation.ReflTransGen (GStep cfg (Byz byz)) x.g (runRound E C L fresh x).g ∧
      Committed byz E C (runRound E C L fresh x) V (voteFor cfg j fresh) ∧
      (∀ i ∈ C, (∃ p ∈ ((afterProposal E C L fresh x).g.sys i).r.proposals,
          p.1 = (j.impliedBlock cfg.c).1 ∧ p.2.id = ((j.impliedBlock cfg.c).2).getD fresh.id) →
        (j.impliedBlock cfg.c).1 = (E i).storeNext → (E i).persistedNext ≤ (j.impliedBlock cfg.c).1 →
        ∃ qc : CommitQC, qc.verify cfg.c = true ∧ qc.message = voteFor cfg j fresh ∧
          (i.val, Effect.queueBlock (j.impliedBlock cfg.c).1 (((j.impliedBlock cfg.c).2).getD fresh.id) qc) ∈
            (runRound E C L fresh x).log) := by
  obtain ⟨V, s1, s2, _, s4, s5⟩ := failedRound_spec S hst hnw
  have hV : V + 2 < 2 ^ 64 := s2.le S.nonempty (fun i hi => by have := hnw i hi; omega)
  have hl : L.val = cfg.leader (V + 1) := by rw [← (s1 L hL).1]; exact hlead L hL
  obtain ⟨p1, p2, p3⟩ := propose_spec S s5 hL hl fresh hsize hj hjw henv
  obtain ⟨c1, c2, c3⟩ := exchangeCommits_spec S p2 hV
  exact ⟨V, s1, s5, p2, p3, (s4.trans p1).trans c1, c2, c3⟩

end

end EraVerif.Proofs.Sync
