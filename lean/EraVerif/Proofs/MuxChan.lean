import EraVerif.Proofs.Mux

/-! # C14: the bounded(1) channel `write_send` and the writer task neither lose nor reorder a frame -/

namespace EraVerif.Proofs.Mux
open EraVerif.Model.Mux EraVerif.Gen.MuxConst

attribute [local simp] State.upd State.release State.releaseOpt State.emit State.setSlot State.log State.enqueue
  handover finishRead

/-! ## the channel and the writer task -/

/-- the frame a command carries -/
def cmdFrames : Option Cmd → List OFrame
  | some (.frame f) => [f]
  | _ => []

structure CInv (s : State) : Prop where
  /-- written to the transport, then in the writer's hands, then in the channel slot = handed to the channel, in order -/
  fifo : s.wire ++ cmdFrames s.wcur ++ cmdFrames s.chan = s.out
  fl : s.flushed ≤ s.wire.length

theorem CInv_init (cfg : Cfg) (acc con pacc pcon : Caps) : CInv (State.init cfg acc con pacc pcon) := by
  obtain ⟨d, na, nc, e⟩ := init_eq cfg acc con pacc pcon
  rw [e]
  constructor <;> simp [State.start, cmdFrames]

theorem CInv_of_same {s s' : State} (h1 : s'.out = s.out) (h2 : s'.chan = s.chan) (h3 : s'.wcur = s.wcur)
    (h4 : s'.wire = s.wire) (h5 : s'.flushed = s.flushed) (hi : CInv s) : CInv s' := by
  constructor
  · rw [h1, h2, h3, h4]; exact hi.fifo
  · rw [h4, h5]; exact hi.fl

/-- a frame goes into the free slot -/
theorem CInv_emit {s s' : State} {f : OFrame} (hc : s.chan = none) (h1 : s'.out = s.out ++ [f]) (h2 : s'.chan = some (.frame f))
    (h3 : s'.wcur = s.wcur) (h4 : s'.wire = s.wire) (h5 : s'.flushed = s.flushed) (hi : CInv s) : CInv s' := by
  constructor
  · rw [h1, h2, h3, h4, ← hi.fifo, hc]; simp [cmdFrames]
  · rw [h4, h5]; exact hi.fl

macro "cinv_leaf" hi:ident s:ident : tactic =>
  `(tactic| first
    | exact CInv_of_same (s := $s) rfl rfl rfl rfl rfl $hi
    | (refine CInv_emit (s := $s) ?_ rfl rfl rfl rfl rfl $hi; simp_all; done))

set_option maxHeartbeats 1600000 in
theorem CInv_step {s s' : State} {e : Event} (hi : CInv s) (h : step? s e = some s') : CInv s' := by
  cases e
  case wtake =>
    simp only [step?] at h; unfold stepWTake at h; leaves h; subst h
    rename_i c hc
    obtain ⟨h1, h2⟩ := hi
    have hw : s.wcur = none := by cases hq : s.wcur <;> simp_all
    constructor
    · simp only; rw [← h1, hw, hc]; simp [cmdFrames]
    · exact h2
  case wdo =>
    simp only [step?] at h; unfold stepWDo at h
    split at h
    · cases h
    split at h
    · cases h
    · rename_i hw
      simp only [Option.some.injEq] at h
      subst h
      obtain ⟨h1, h2⟩ := hi
      constructor
      · simp only; rw [← h1, hw]; simp [cmdFrames]
      · simp
    · rename_i f hw
      split at h
      · cases h
      simp only [Option.some.injEq] at h
      subst h
      obtain ⟨h1, h2⟩ := hi
      constructor
      · simp only; rw [← h1, hw]; simp [cmdFrames]
      · simp only [List.length_append, List.length_singleton]; split <;> omega
  case wblock =>
    simp only [step?] at h; unfold stepWBlock at h; leaves h; subst h
    obtain ⟨h1, h2⟩ := hi
    exact ⟨h1, Nat.le_refl _⟩
  case doFlush =>
    simp only [step?] at h; unfold stepDoFlush at h; leaves h; subst h
    rename_i hg
    obtain ⟨h1, h2⟩ := hi
    have hc : s.chan = none := by cases hq : s.chan <;> simp_all
    constructor
    · simp only; rw [← h1, hc]; simp [cmdFrames]
    · exact h2
  case readStep k =>
    simp only [step?] at h; unfold stepReadStep readFrame at h; leaves h
    all_goals subst h
    all_goals (try (repeat' split))
    all_goals exact CInv_of_same (s := s) rfl rfl rfl rfl rfl hi
  all_goals (unfold_step h; try unfold StreamSt.endWrite at h)
  all_goals leaves h
  all_goals subst h
  all_goals cinv_leaf hi s

theorem CInv_reachable {s : State} (h : Reachable s) : CInv s :=
  reachable_inv (P := CInv) CInv_init (fun _ _ _ hi hs => CInv_step hi hs) h

end EraVerif.Proofs.Mux
