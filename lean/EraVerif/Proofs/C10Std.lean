import EraVerif.Model.C10Std

/-! Helper lemmas for C10 (`std_conv.rs` conversions). Core Lean only. -/

namespace EraVerif.Proofs.C10Std
open EraVerif.Model.C10

theorem isPanic_ite {α : Type} (c : Prop) [Decidable c] (a b : Res α) :
    (if c then a else b).isPanic = (if c then a.isPanic else b.isPanic) := by split <;> rfl

/-- truncating division by 10^9: quotient/remainder facts in a form `omega` can use -/
theorem tdm (n : Int) : n = 1000000000 * n.tdiv 1000000000 + n.tmod 1000000000 ∧
    -1000000000 < n.tmod 1000000000 ∧ n.tmod 1000000000 < 1000000000 ∧
    (0 ≤ n → 0 ≤ n.tmod 1000000000) ∧ (n ≤ 0 → n.tmod 1000000000 ≤ 0) := by
  refine ⟨(Int.mul_tdiv_add_tmod n 1000000000).symm, Int.lt_tmod_of_pos n (by decide),
    Int.tmod_lt_of_pos n (by decide), Int.tmod_nonneg _, ?_⟩
  intro h
  have := Int.tmod_nonneg (1000000000) (a := -n) (by omega)
  rw [Int.neg_tmod] at this
  omega

/-- a `time::Duration` value is normalised: |nanos| < 10^9 and the signs agree -/
def Norm (d : Dur) : Prop :=
  -1000000000 < d.nanos ∧ d.nanos < 1000000000 ∧ (0 < d.secs → 0 ≤ d.nanos) ∧ (d.secs < 0 → d.nanos ≤ 0)

theorem inI64_iff (x : Int) : inI64 x = true ↔ (-9223372036854775808 ≤ x ∧ x ≤ 9223372036854775807) := by
  unfold inI64 I64_MIN I64_MAX
  rw [Bool.and_eq_true, decide_eq_true_eq, decide_eq_true_eq]

theorem checkedAddI64_some {a b r : Int} (h : checkedAddI64 a b = some r) : r = a + b ∧ inI64 r = true := by
  unfold checkedAddI64 at h
  split at h
  · cases h; exact ⟨rfl, by assumption⟩
  · cases h

theorem checkedSubI64_some {a b r : Int} (h : checkedSubI64 a b = some r) : r = a - b ∧ inI64 r = true := by
  unfold checkedSubI64 at h
  split at h
  · cases h; exact ⟨rfl, by assumption⟩
  · cases h

/-- `duration_from_parts(s, n)`: succeeds exactly when `s + trunc(n / 10^9)` is an `i64`; the result is the
normalised duration worth `s·10^9 + n` nanoseconds -/
theorem durationFromPartsPre12_spec (s n : Int) :
    (inI64 (s + n.tdiv 1000000000) = true →
      ∃ d, durationFromPartsPre12 s n = .ok d ∧ Norm d ∧ inI64 d.secs = true ∧
        d.secs * 1000000000 + d.nanos = s * 1000000000 + n) ∧
    (inI64 (s + n.tdiv 1000000000) = false → durationFromPartsPre12 s n = .err "duration overflow") := by
  obtain ⟨e, l, u, p, q⟩ := tdm n
  constructor
  · intro hr
    have hr' := (inI64_iff _).mp hr
    unfold durationFromPartsPre12 Dur.checkedAdd Dur.seconds Dur.nanoseconds
    simp only [NANOS_PER_SEC, checkedAddI64, checkedSubI64, hr, if_true, Int.zero_add]
    by_cases c1 : (n.tmod 1000000000 ≥ 1000000000 || (decide (s + n.tdiv 1000000000 < 0) && decide (n.tmod 1000000000 > 0))) = true
    · simp only [c1, if_true]
      have c1' : s + n.tdiv 1000000000 < 0 ∧ n.tmod 1000000000 > 0 := by
        simp only [Bool.or_eq_true, decide_eq_true_eq, Bool.and_eq_true] at c1
        omega
      have hin : inI64 (s + n.tdiv 1000000000 + 1) = true := (inI64_iff _).mpr (by omega)
      simp only [hin, if_true]
      refine ⟨_, rfl, ?_, ?_, ?_⟩
      · unfold Norm; simp only []; omega
      · exact hin
      · simp only []; omega
    · simp only [c1]
      have c1' : ¬ (s + n.tdiv 1000000000 < 0 ∧ n.tmod 1000000000 > 0) := by
        simp only [Bool.or_eq_true, decide_eq_true_eq, Bool.and_eq_true, not_or, not_and] at c1
        omega
      by_cases c2 : (n.tmod 1000000000 ≤ -1000000000 || (decide (s + n.tdiv 1000000000 > 0) && decide (n.tmod 1000000000 < 0))) = true
      · simp only [c2, if_true]
        have c2' : s + n.tdiv 1000000000 > 0 ∧ n.tmod 1000000000 < 0 := by
          simp only [Bool.or_eq_true, decide_eq_true_eq, Bool.and_eq_true] at c2
          omega
        have hin : inI64 (s + n.tdiv 1000000000 - 1) = true := (inI64_iff _).mpr (by omega)
        simp only [hin, if_true]
        refine ⟨_, rfl, ?_, ?_, ?_⟩
        · unfold Norm; simp only []; omega
        · exact hin
        · simp only []; omega
      · simp only [c2]
        have c2' : ¬ (s + n.tdiv 1000000000 > 0 ∧ n.tmod 1000000000 < 0) := by
          simp only [Bool.or_eq_true, decide_eq_true_eq, Bool.and_eq_true, not_or, not_and] at c2
          omega
        refine ⟨_, rfl, ?_, ?_, ?_⟩
        · unfold Norm; simp only []; omega
        · exact hr
        · simp only []; omega
  · intro hr
    unfold durationFromPartsPre12 Dur.checkedAdd Dur.seconds Dur.nanoseconds
    simp only [NANOS_PER_SEC, checkedAddI64, hr]
    rfl

/-- adding a normalised in-range duration to `Duration::ZERO` never overflows (`UNIX_EPOCH + d`) -/
theorem add_zero (d : Dur) (hn : Norm d) (hr : inI64 d.secs = true) : Dur.add ⟨0, 0⟩ d = .ok d := by
  obtain ⟨a, b, c, e⟩ := hn
  unfold Dur.add Dur.checkedAdd
  simp only [NANOS_PER_SEC, checkedAddI64, Int.zero_add, hr, if_true]
  have c1 : (d.nanos ≥ 1000000000 || (decide (d.secs < 0) && decide (d.nanos > 0))) = false := by
    simp only [Bool.or_eq_false_iff, decide_eq_false_iff_not, Bool.and_eq_false_iff]
    omega
  have c2 : (d.nanos ≤ -1000000000 || (decide (d.secs > 0) && decide (d.nanos < 0))) = false := by
    simp only [Bool.or_eq_false_iff, decide_eq_false_iff_not, Bool.and_eq_false_iff]
    omega
  simp [c1, c2]

theorem durationFromPartsPre12_not_panic (s n : Int) : (durationFromPartsPre12 s n).isPanic = false := by
  unfold durationFromPartsPre12
  split <;> rfl

theorem durationFromParts_not_panic (s n : Int) : (durationFromParts s n).isPanic = false := by
  unfold durationFromParts
  have := durationFromPartsPre12_not_panic s n
  cases h : durationFromPartsPre12 s n with
  | ok d => simp only []; split <;> rfl
  | err w => rfl
  | panic p => rw [h] at this; cases this

/-- what the current code accepts: what the pre-F12 code accepted, minus the values below `i64::MIN` seconds -/
theorem durationFromParts_ok_iff (s n : Int) (d : Dur) :
    durationFromParts s n = .ok d ↔ (durationFromPartsPre12 s n = .ok d ∧ (d.secs > I64_MIN ∨ d.nanos ≥ 0)) := by
  unfold durationFromParts
  cases h : durationFromPartsPre12 s n with
  | ok d' =>
    simp only []
    by_cases hc : d'.secs > I64_MIN ∨ d'.nanos ≥ 0
    · rw [if_pos hc]
      constructor
      · intro e; cases e; exact ⟨rfl, hc⟩
      · intro ⟨e, _⟩; cases e; rfl
    · rw [if_neg hc]
      constructor
      · intro e; cases e
      · intro ⟨e, hc'⟩; cases e; exact absurd hc' hc
  | err w => simp
  | panic p => simp

theorem durationRead_not_panic (r : PDur) : (durationRead r).isPanic = false := by
  unfold durationRead
  cases r.seconds with
  | none => rfl
  | some s =>
    cases r.nanos with
    | none => rfl
    | some n => exact durationFromParts_not_panic s n

theorem timestampRead_not_panic (r : PDur) : (timestampRead r).isPanic = false := by
  unfold timestampRead
  cases r.seconds with
  | none => rfl
  | some s =>
    cases r.nanos with
    | none => rfl
    | some n =>
      show ((durationFromParts s n).bind fun d => Dur.add ⟨0, 0⟩ d).isPanic = false
      cases hr : durationFromParts s n with
      | err w => rfl
      | panic p => have := durationFromParts_not_panic s n; rw [hr] at this; cases this
      | ok d =>
        have hpre := ((durationFromParts_ok_iff s n d).mp hr).1
        cases hb : inI64 (s + n.tdiv 1000000000) with
        | true =>
          obtain ⟨d', h1, h2, h3, -⟩ := (durationFromPartsPre12_spec s n).1 hb
          rw [h1] at hpre; cases hpre
          show (Dur.add ⟨0, 0⟩ d).isPanic = false
          rw [add_zero d h2 h3]; rfl
        | false =>
          rw [(durationFromPartsPre12_spec s n).2 hb] at hpre; cases hpre

/-- the pre-repair constructor panics exactly on the inputs the repaired code rejects -/
theorem newLegacy_panic_iff (s n : Int) :
    (Dur.newLegacy s n).isPanic = true ↔ inI64 (s + n.tdiv 1000000000) = false := by
  unfold Dur.newLegacy checkedAddI64
  simp only [NANOS_PER_SEC]
  by_cases h : inI64 (s + n.tdiv 1000000000) = true
  · simp only [h, if_true]
    constructor
    · intro hp
      rw [isPanic_ite, isPanic_ite] at hp
      simp [Res.isPanic] at hp
    · intro hp; cases hp
  · have h' : inI64 (s + n.tdiv 1000000000) = false := by simpa using h
    simp [h', Res.isPanic]

theorem sockaddrRead_not_panic (r : PSockAddr) : (sockaddrRead r).isPanic = false := by
  unfold sockaddrRead
  cases r.ipLen with
  | none => rfl
  | some ip =>
    simp only []
    by_cases h4 : ip = 4
    · subst h4
      cases r.port with
      | none => rfl
      | some p =>
        show (if p ≤ U16_MAX then _ else _ : Res (Nat × Nat)).isPanic = false
        split <;> rfl
    · by_cases h16 : ip = 16
      · subst h16
        cases r.port with
        | none => rfl
        | some p =>
          show (if p ≤ U16_MAX then _ else _ : Res (Nat × Nat)).isPanic = false
          split <;> rfl
      · simp only [h4, h16, if_false]
        rfl

theorem bitvecRead_not_panic (r : PBitVec) : (bitvecRead r).isPanic = false := by
  unfold bitvecRead
  cases r.size with
  | none => rfl
  | some s =>
    cases r.bytesLen with
    | none => rfl
    | some b =>
      show (if 8 * b < s then _ else _ : Res Nat).isPanic = false
      split <;> rfl

theorem rateRead_not_panic (r : PRate) : (rateRead r).isPanic = false := by
  unfold rateRead
  cases r.burst with
  | none => rfl
  | some b =>
    cases r.refresh with
    | none => rfl
    | some d =>
      show ((durationRead d).bind fun x => Res.ok (b, x)).isPanic = false
      have := durationRead_not_panic d
      cases hd : durationRead d with
      | ok x => rfl
      | err w => rfl
      | panic s => rw [hd] at this; cases this

end EraVerif.Proofs.C10Std
