import EraVerif.Proofs.MuxLockS

/-! # C14: at most `min(local, peer)` transient streams of a capability are held at any time -/

namespace EraVerif.Proofs.Mux
open EraVerif.Model.Mux EraVerif.Gen.MuxConst

theorem nodup_map_of_inj_on {α β : Type} (f : α → β) (l : List α) (hnd : l.Nodup)
    (hinj : ∀ a ∈ l, ∀ b ∈ l, f a = f b → a = b) : (l.map f).Nodup := by
  induction l with
  | nil => simp
  | cons a l ih =>
    obtain ⟨ha, hl⟩ := List.nodup_cons.mp hnd
    simp only [List.map_cons, List.nodup_cons]
    refine ⟨?_, ih hl (fun x hx y hy => hinj x (List.mem_cons_of_mem _ hx) y (List.mem_cons_of_mem _ hy))⟩
    intro hm
    obtain ⟨b, hb, e⟩ := List.mem_map.mp hm
    have := hinj a (List.mem_cons_self ..) b (List.mem_cons_of_mem _ hb) e.symm
    subst this; exact ha hb

/-- the stream id behind a slot -/
def slotId (s : State) (x : Nat) : Nat :=
  match s.slots x with
  | .held k _ _ => k.id
  | _ => 0

/-- distinct application slots that hold (a half of) a transient stream of the id range `r` of kind `conn` -/
theorem held_le_count {s : State} (hi : LInv s) (conn : Bool) (r : Range) (xs : List Nat) (hnd : xs.Nodup)
    (hx : ∀ x ∈ xs, ∃ k rr ww, s.slots x = .held k rr ww ∧ (rr || ww) = true ∧ k.conn = conn ∧ r.has k.id = true) :
    xs.length ≤ r.count := by
  have h1 : (xs.map (slotId s)).Nodup := by
    apply nodup_map_of_inj_on _ _ hnd
    intro a ha b hb e
    obtain ⟨k1, r1, w1, s1, o1, c1, _⟩ := hx a ha
    obtain ⟨k2, r2, w2, s2, o2, c2, _⟩ := hx b hb
    simp only [slotId, s1, s2] at e
    have hk : k1 = k2 := by cases k1; cases k2; simp_all
    subst hk
    by_cases hab : a = b
    · exact hab
    · exact absurd ⟨o1, o2⟩ (hi.uniq a b k1 r1 w1 r2 w2 s1 s2 hab)
  have h2 : xs.map (slotId s) ⊆ List.range' r.base r.count := by
    intro i hm
    obtain ⟨x, hxm, e⟩ := List.mem_map.mp hm
    obtain ⟨k, rr, ww, hs, _, _, hh⟩ := hx x hxm
    simp only [slotId, hs] at e
    subst e
    simp only [Range.has, Bool.and_eq_true, decide_eq_true_eq] at hh
    exact List.mem_range'_1.mpr hh
  have := List.Nodup.length_le_of_subset h1 h2
  simpa using this

/-- the id partition in a reachable state is the one computed from the two handshakes -/
theorem reachable_rng {s : State} (h : Reachable s) :
    ∃ acc con pacc pcon, s.rngAcc = ranges acc pcon 0 ∧ s.rngCon = ranges con pacc 0 := by
  obtain ⟨cfg, acc, con, pacc, pcon, es, hr⟩ := h
  refine ⟨acc, con, pacc, pcon, ?_⟩
  have hinit : (State.init cfg acc con pacc pcon).rngAcc = ranges acc pcon 0 ∧
      (State.init cfg acc con pacc pcon).rngCon = ranges con pacc 0 := by
    obtain ⟨d, na, nc, e⟩ := init_eq cfg acc con pacc pcon
    rw [e]; simp [State.start]
  exact run?_inv (P := fun s => s.rngAcc = ranges acc pcon 0 ∧ s.rngCon = ranges con pacc 0)
    (fun s e s' hp hs => by
      obtain ⟨_, _, _, a, b⟩ := step?_static hs
      exact ⟨a ▸ hp.1, b ▸ hp.2⟩) es _ _ hinit hr

end EraVerif.Proofs.Mux
