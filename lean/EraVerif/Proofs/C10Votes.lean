import EraVerif.Model.C10Votes
import EraVerif.Proofs.C10Verify

/-! Helper lemmas for C10: the replica's vote caches never reach their `expect` / `unwrap` / `assert`. Core Lean only. -/

namespace EraVerif.Proofs.C10Votes
open EraVerif.Model.C10 EraVerif.Model.C10.Verify EraVerif.Model.C10.Votes EraVerif.Proofs.C10Read
open EraVerif.Proofs.C10Verify

/-! ## association lists -/
theorem find_filter_ne (m : List (Nat × Nat)) (k j : Nat) (h : j ≠ k) :
    (m.filter (·.1 ≠ k)).find? (·.1 = j) = m.find? (·.1 = j) := by
  induction m with
  | nil => rfl
  | cons x xs ih =>
    rw [List.filter_cons]
    by_cases hx : x.1 = k
    · have hd : decide (x.1 ≠ k) = false := by simp [hx]
      have hj : decide (x.1 = j) = false := by simp; omega
      rw [hd]
      simp only [Bool.false_eq_true, if_false]
      rw [List.find?_cons, hj]
      exact ih
    · have hd : decide (x.1 ≠ k) = true := by simp [hx]
      rw [hd]
      simp only [if_true]
      rw [List.find?_cons, List.find?_cons, ih]

theorem lookup_insert_same (m : List (Nat × Nat)) (k v : Nat) : lookup (Votes.insert m k v) k = some v := by
  unfold lookup Votes.insert
  rw [List.find?_cons]
  simp

theorem lookup_insert_other (m : List (Nat × Nat)) (k v j : Nat) (h : j ≠ k) :
    lookup (Votes.insert m k v) j = lookup m j := by
  unfold lookup Votes.insert
  have hk : decide ((k, v).1 = j) = false := by simp; omega
  rw [List.find?_cons, hk]
  simp only []
  rw [find_filter_ne m k j h]

theorem seen_insert_same (m : List (Nat × Nat)) (k v w : Nat) : seenAtLeast (Votes.insert m k v) k w = decide (v ≥ w) := by
  unfold seenAtLeast; rw [lookup_insert_same]

theorem seen_insert_other (m : List (Nat × Nat)) (k v j w : Nat) (h : j ≠ k) :
    seenAtLeast (Votes.insert m k v) j w = seenAtLeast m j w := by
  unfold seenAtLeast; rw [lookup_insert_other m k v j h]

/-- after recording view `v` for signer `k` (whose previous record, if any, was below `v`), everything that was
"seen at least `w`" still is -/
theorem seen_insert_mono (m : List (Nat × Nat)) (k v j w : Nat) (hk : seenAtLeast m k v = false)
    (h : seenAtLeast m j w = true) : seenAtLeast (Votes.insert m k v) j w = true := by
  by_cases hj : j = k
  · subst hj
    rw [seen_insert_same]
    unfold seenAtLeast at hk h
    cases hl : lookup m j with
    | none => rw [hl] at h; cases h
    | some x =>
      rw [hl] at hk h
      simp only [decide_eq_false_iff_not, decide_eq_true_eq] at hk h ⊢
      omega
  · rw [seen_insert_other m k v j w hj]; exact h

theorem any_insert_same (m : List (Nat × Nat)) (k v : Nat) : (Votes.insert m k v).any (·.2 = v) = true := by
  simp [Votes.insert]

/-! ## bitmaps -/
theorem length_setBit (l : List Bool) (i : Nat) : (setBit l i).length = l.length := by
  simp [setBit]

theorem getD_setBit (l : List Bool) (i j : Nat) (h : (setBit l i).getD j false = true) :
    j = i ∨ l.getD j false = true := by
  unfold setBit at h
  by_cases hj : j = i
  · exact Or.inl hj
  · right
    simp only [List.getD_eq_getElem?_getD] at h ⊢
    rw [List.getElem?_set_ne (by omega)] at h
    exact h

theorem getD_replicate_false (n j : Nat) : (List.replicate n false).getD j false = false := by
  simp only [List.getD_eq_getElem?_getD, List.getElem?_replicate]
  split <;> rfl

/-! ## the invariant -/
def CInv (c : Ctx) (views : List (Nat × Nat)) (e : CEntry) : Prop :=
  e.signers.length = c.weights.length ∧ ∀ j, e.signers.getD j false = true → seenAtLeast views j e.view = true

def TInv (c : Ctx) (views : List (Nat × Nat)) (e : TEntry) : Prop :=
  e.view.number = e.key ∧ viewVerify c e.view = .ok () ∧
  ∀ p ∈ e.map, p.2.length = c.weights.length ∧ ∀ j, p.2.getD j false = true → seenAtLeast views j e.key = true

def VInv (c : Ctx) (s : St) : Prop :=
  (∀ e ∈ s.commitQcs, CInv c s.commitViews e) ∧ (∀ e ∈ s.timeoutQcs, TInv c s.timeoutViews e)

theorem vinv_init (c : Ctx) : VInv c St.init := by
  constructor <;> (intro e he; simp [St.init] at he)

theorem viewVerify_eq {c : Ctx} {a b : View} (ha : viewVerify c a = .ok ()) (hb : viewVerify c b = .ok ())
    (hn : a.number = b.number) : a = b := by
  unfold viewVerify at ha hb
  by_cases h1 : a.genesis ≠ c.genesis
  · rw [if_pos h1] at ha; cases ha
  · rw [if_neg h1] at ha
    by_cases h2 : a.epoch ≠ c.epoch
    · rw [if_pos h2] at ha; cases ha
    · by_cases h3 : b.genesis ≠ c.genesis
      · rw [if_pos h3] at hb; cases hb
      · rw [if_neg h3] at hb
        by_cases h4 : b.epoch ≠ c.epoch
        · rw [if_pos h4] at hb; cases hb
        · cases a; cases b
          simp only [ne_eq, Decidable.not_not] at h1 h2 h3 h4
          simp only [] at hn
          simp [h1, h2, h3, h4, hn]

theorem replicaTimeoutVerify_view {c : Ctx} {m : ReplicaTimeout} {u : Unit} (h : replicaTimeoutVerify c m = .ok u) :
    viewVerify c m.view = .ok () := by
  unfold replicaTimeoutVerify at h
  cases hv : viewVerify c m.view with
  | ok x => rfl
  | err w => rw [hv] at h; cases h
  | panic p => rw [hv] at h; cases h

theorem startNewView_ok (s : St) (v : Nat) (h : s.hasHighQc = true) : startNewView s v = .ok { s with view := v } := by
  unfold startNewView; simp [h]

theorem vinv_sub {c : Ctx} {s t : St} (h : VInv c s) (e1 : t.commitViews = s.commitViews)
    (e2 : t.timeoutViews = s.timeoutViews) (h1 : ∀ e ∈ t.commitQcs, e ∈ s.commitQcs)
    (h2 : ∀ e ∈ t.timeoutQcs, e ∈ s.timeoutQcs) : VInv c t := by
  constructor
  · intro e he; rw [e1]; exact h.1 e (h1 e he)
  · intro e he; rw [e2]; exact h.2 e (h2 e he)

theorem onCommitCore_ok (c : Ctx) (s : St) (i : Nat) (m : Signed ReplicaCommit) (hi : VInv c s)
    (hseen : seenAtLeast s.commitViews i m.msg.view.number = false) (hsig : m.sigOk = true)
    (hver : replicaCommitVerify c m.msg = .ok ()) :
    ∃ s' v, onCommitCore c s i m = .ok (s', v) ∧ VInv c s' := by
  -- the entry that is found or created
  have hentry : CInv c s.commitViews (findCEntry c s m.msg.view.number m.msg) ∧
      (findCEntry c s m.msg.view.number m.msg).view = m.msg.view.number ∧
      (findCEntry c s m.msg.view.number m.msg).msg = m.msg := by
    unfold findCEntry
    cases hf : s.commitQcs.find? (fun e => e.view = m.msg.view.number ∧ e.msg = m.msg) with
    | some e =>
      have hp := List.find?_some hf
      simp only [decide_eq_true_eq] at hp
      exact ⟨hi.1 e (List.mem_of_find?_eq_some hf), hp.1, hp.2⟩
    | none =>
      refine ⟨⟨by simp, ?_⟩, rfl, rfl⟩
      intro j hj
      rw [getD_replicate_false] at hj; cases hj
  unfold onCommitCore
  simp only []
  generalize findCEntry c s m.msg.view.number m.msg = entry at hentry ⊢
  obtain ⟨hc, hv, hm⟩ := hentry
  have hbit : entry.signers.getD i false = false := by
    cases hb : entry.signers.getD i false with
    | false => rfl
    | true =>
      have := hc.2 i hb
      rw [hv, hseen] at this; cases this
  have hadd : commitQcAdd c entry i m = .ok { entry with signers := setBit entry.signers i } := by
    unfold commitQcAdd
    rw [hbit, hver]
    simp only [Bool.false_eq_true, if_false, hsig, Bool.not_true, hm, ne_eq, not_true_eq_false]
    rfl
  rw [hadd]
  simp only []
  obtain ⟨w, hw⟩ := signersWeight_ok (setBit entry.signers i) c.weights (by rw [length_setBit]; exact hc.1)
  rw [hw]
  simp only []
  -- the state after the caches were updated
  have hinv1 : VInv c (commitCaches s i m.msg.view.number m.msg { entry with signers := setBit entry.signers i }) := by
    constructor
    · intro e hemem
      unfold commitCaches at hemem ⊢
      simp only [] at hemem ⊢
      have hemem' := (List.mem_filter.mp hemem).1
      rcases List.mem_cons.mp hemem' with rfl | hold
      · refine ⟨by simp only [length_setBit]; exact hc.1, ?_⟩
        intro j hj
        simp only [] at hj ⊢
        rcases getD_setBit _ _ _ hj with rfl | hj'
        · rw [hv, seen_insert_same]; simp
        · rw [hv]
          exact seen_insert_mono _ _ _ _ _ hseen (by have := hc.2 j hj'; rw [hv] at this; exact this)
      · have hmem := (List.mem_filter.mp hold).1
        obtain ⟨l1, l2⟩ := hi.1 e hmem
        refine ⟨l1, ?_⟩
        intro j hj
        -- e.view may differ from the new view; what was seen stays seen
        by_cases hjk : j = i
        · subst hjk
          have hs := l2 j hj
          rw [seen_insert_same]
          unfold seenAtLeast at hs hseen
          cases hl : lookup s.commitViews j with
          | none => rw [hl] at hs; cases hs
          | some x =>
            rw [hl] at hs hseen
            simp only [decide_eq_false_iff_not, decide_eq_true_eq] at hs hseen ⊢
            omega
        · rw [seen_insert_other _ _ _ _ _ hjk]; exact l2 j hj
    · intro e hemem; exact hi.2 e hemem
  by_cases hq : w < c.quorum
  · rw [if_pos hq]
    exact ⟨_, _, rfl, hinv1⟩
  · rw [if_neg hq]
    have hany : (commitCaches s i m.msg.view.number m.msg { entry with signers := setBit entry.signers i }).commitQcs.any
            (fun e => e.view = m.msg.view.number ∧ e.msg = m.msg) = true := by
      unfold commitCaches
      simp only []
      rw [List.any_eq_true]
      refine ⟨{ entry with signers := setBit entry.signers i }, ?_, by simp [hv, hm]⟩
      rw [List.mem_filter]
      refine ⟨List.mem_cons_self, ?_⟩
      simp only [hv]
      exact any_insert_same _ _ _
    simp only [hany, Bool.not_true, Bool.false_eq_true, if_false]
    rw [startNewView_ok _ _ rfl]
    refine ⟨_, _, rfl, ?_⟩
    refine vinv_sub hinv1 rfl rfl ?_ (fun e he => he)
    intro e he
    exact (List.mem_filter.mp he).1

theorem timeoutQcWeight_ok (c : Ctx) : ∀ (map : List (ReplicaTimeout × List Bool)),
    (∀ p ∈ map, p.2.length = c.weights.length) → ∃ w, timeoutQcWeight c map = .ok w := by
  intro map
  induction map with
  | nil => intro _; exact ⟨0, rfl⟩
  | cons p ps ih =>
    intro h
    obtain ⟨t, sg⟩ := p
    obtain ⟨w, hw⟩ := signersWeight_ok sg c.weights (h (t, sg) List.mem_cons_self)
    obtain ⟨r, hr⟩ := ih (fun p hp => h p (List.mem_cons_of_mem _ hp))
    refine ⟨(w + r) % U64, ?_⟩
    unfold timeoutQcWeight
    rw [hw, hr]; rfl

/-- the entry's bits after signer `i` was added, against the updated "latest view" map -/
theorem bits_after (views : List (Nat × Nat)) (i vn : Nat) (sg : List Bool)
    (hseen : seenAtLeast views i vn = false)
    (hold : ∀ j, sg.getD j false = true → seenAtLeast views j vn = true) :
    ∀ j, (setBit sg i).getD j false = true → seenAtLeast (Votes.insert views i vn) j vn = true := by
  intro j hj
  rcases getD_setBit _ _ _ hj with rfl | hj'
  · rw [seen_insert_same]; simp
  · exact seen_insert_mono _ _ _ _ _ hseen (hold j hj')

theorem onTimeoutCore_ok (c : Ctx) (s : St) (i : Nat) (m : Signed ReplicaTimeout) (hi : VInv c s)
    (hseen : seenAtLeast s.timeoutViews i m.msg.view.number = false) (hsig : m.sigOk = true)
    (hver : replicaTimeoutVerify c m.msg = .ok ()) :
    ∃ s' v, onTimeoutCore c s i m = .ok (s', v) ∧ VInv c s' := by
  have hview := replicaTimeoutVerify_view hver
  have hentry : TInv c s.timeoutViews (findTEntry s m.msg.view) ∧ (findTEntry s m.msg.view).key = m.msg.view.number := by
    unfold findTEntry
    cases hf : s.timeoutQcs.find? (fun e => e.key = m.msg.view.number) with
    | some e =>
      have hp := List.find?_some hf
      simp only [decide_eq_true_eq] at hp
      exact ⟨hi.2 e (List.mem_of_find?_eq_some hf), hp⟩
    | none =>
      refine ⟨⟨rfl, hview, ?_⟩, rfl⟩
      intro p hp; cases hp
  unfold onTimeoutCore
  simp only []
  generalize findTEntry s m.msg.view = entry at hentry ⊢
  obtain ⟨⟨hk, hev, hmap⟩, hkey⟩ := hentry
  have hnodup : entry.map.any (fun p => p.2.getD i false) = false := by
    cases hb : entry.map.any (fun p => p.2.getD i false) with
    | false => rfl
    | true =>
      obtain ⟨p, hp, hbit⟩ := List.any_eq_true.mp hb
      have := (hmap p hp).2 i hbit
      rw [hkey, hseen] at this; cases this
  have hveq : m.msg.view = entry.view := viewVerify_eq hview hev (by rw [hk, hkey])
  have hadd : timeoutQcAdd c entry i m = .ok { entry with map := addToMap c entry.map m.msg i } := by
    unfold timeoutQcAdd
    rw [hnodup, hver]
    simp only [Bool.false_eq_true, if_false, hsig, Bool.not_true, hveq, ne_eq, not_true_eq_false]
    rfl
  rw [hadd]
  simp only []
  -- every bitmap of the new map has the committee's length and only bits of signers recorded at this view
  have hmap' : ∀ p ∈ addToMap c entry.map m.msg i,
      p.2.length = c.weights.length ∧
      ∀ j, p.2.getD j false = true → seenAtLeast (Votes.insert s.timeoutViews i m.msg.view.number) j entry.key = true := by
    intro p hp
    rw [hkey]
    unfold addToMap at hp
    split at hp
    · obtain ⟨q, hq, rfl⟩ := List.mem_map.mp hp
      obtain ⟨l1, l2⟩ := hmap q hq
      rw [hkey] at l2
      split
      · exact ⟨by simp only [length_setBit]; exact l1, bits_after _ _ _ _ hseen l2⟩
      · exact ⟨l1, fun j hj => seen_insert_mono _ _ _ _ _ hseen (l2 j hj)⟩
    · rcases List.mem_append.mp hp with hq | hq
      · obtain ⟨l1, l2⟩ := hmap p hq
        rw [hkey] at l2
        exact ⟨l1, fun j hj => seen_insert_mono _ _ _ _ _ hseen (l2 j hj)⟩
      · rw [List.mem_singleton] at hq
        subst hq
        refine ⟨by simp [length_setBit], bits_after _ _ _ _ hseen ?_⟩
        intro j hj
        rw [getD_replicate_false] at hj; cases hj
  obtain ⟨w, hw⟩ := timeoutQcWeight_ok c _ (fun p hp => (hmap' p hp).1)
  rw [hw]
  simp only []
  have hinv1 : VInv c (timeoutCaches s i m.msg.view.number { entry with map := addToMap c entry.map m.msg i }) := by
    constructor
    · intro e hemem; exact hi.1 e hemem
    · intro e hemem
      unfold timeoutCaches at hemem ⊢
      simp only [] at hemem ⊢
      have hemem' := (List.mem_filter.mp hemem).1
      rcases List.mem_cons.mp hemem' with rfl | hold
      · exact ⟨hk, hev, hmap'⟩
      · have hmem := (List.mem_filter.mp hold).1
        obtain ⟨l1, l2, l3⟩ := hi.2 e hmem
        refine ⟨l1, l2, ?_⟩
        intro p hp
        obtain ⟨m1, m2⟩ := l3 p hp
        refine ⟨m1, ?_⟩
        intro j hj
        by_cases hjk : j = i
        · subst hjk
          have hs := m2 j hj
          rw [seen_insert_same]
          unfold seenAtLeast at hs hseen
          cases hl : lookup s.timeoutViews j with
          | none => rw [hl] at hs; cases hs
          | some x =>
            rw [hl] at hs hseen
            simp only [decide_eq_false_iff_not, decide_eq_true_eq] at hs hseen ⊢
            omega
        · rw [seen_insert_other _ _ _ _ _ hjk]; exact m2 j hj
  by_cases hq : w < c.quorum
  · rw [if_pos hq]
    exact ⟨_, _, rfl, hinv1⟩
  · rw [if_neg hq]
    have hany : (timeoutCaches s i m.msg.view.number { entry with map := addToMap c entry.map m.msg i }).timeoutQcs.any
            (fun e => e.key = m.msg.view.number) = true := by
      unfold timeoutCaches
      simp only []
      rw [List.any_eq_true]
      refine ⟨{ entry with map := addToMap c entry.map m.msg i }, ?_, by simp [hkey]⟩
      rw [List.mem_filter]
      refine ⟨List.mem_cons_self, ?_⟩
      simp only [hkey]
      exact any_insert_same _ _ _
    simp only [hany, Bool.not_true, Bool.false_eq_true, if_false]
    rw [startNewView_ok _ _ rfl]
    refine ⟨_, _, rfl, ?_⟩
    refine vinv_sub hinv1 rfl rfl (fun e he => he) ?_
    intro e he
    exact (List.mem_filter.mp he).1

theorem replicaCommitVerify_unit {c : Ctx} {m : ReplicaCommit} {u : Unit} (h : replicaCommitVerify c m = .ok u) :
    replicaCommitVerify c m = .ok () := by cases u; exact h

theorem onCommit_ok (c : Ctx) (s : St) (m : Signed ReplicaCommit) (hi : VInv c s) :
    ∃ s' v, onCommit c s m = .ok (s', v) ∧ VInv c s' := by
  unfold onCommit
  cases hsg : m.signer with
  | none => exact ⟨s, _, rfl, hi⟩
  | some i =>
    simp only []
    by_cases h1 : i ≥ c.weights.length
    · rw [if_pos h1]; exact ⟨s, _, rfl, hi⟩
    rw [if_neg h1]
    by_cases h2 : m.msg.view.number < s.view
    · rw [if_pos h2]; exact ⟨s, _, rfl, hi⟩
    rw [if_neg h2]
    by_cases h3 : seenAtLeast s.commitViews i m.msg.view.number = true
    · rw [if_pos h3]; exact ⟨s, _, rfl, hi⟩
    rw [if_neg h3]
    by_cases h4 : (!m.sigOk) = true
    · rw [if_pos h4]; exact ⟨s, _, rfl, hi⟩
    rw [if_neg h4]
    have hnp := viewVerify_not_panic c m.msg.view
    cases hv : replicaCommitVerify c m.msg with
    | err w => exact ⟨s, _, rfl, hi⟩
    | panic p => unfold replicaCommitVerify at hv; rw [hv] at hnp; cases hnp
    | ok u =>
      simp only []
      exact onCommitCore_ok c s i m hi (by simpa using h3) (by simpa using h4) (replicaCommitVerify_unit hv)

theorem onTimeout_ok (c : Ctx) (s : St) (m : Signed ReplicaTimeout) (hi : VInv c s) :
    ∃ s' v, onTimeout c s m = .ok (s', v) ∧ VInv c s' := by
  unfold onTimeout
  cases hsg : m.signer with
  | none => exact ⟨s, _, rfl, hi⟩
  | some i =>
    simp only []
    by_cases h1 : i ≥ c.weights.length
    · rw [if_pos h1]; exact ⟨s, _, rfl, hi⟩
    rw [if_neg h1]
    by_cases h2 : m.msg.view.number < s.view
    · rw [if_pos h2]; exact ⟨s, _, rfl, hi⟩
    rw [if_neg h2]
    by_cases h3 : seenAtLeast s.timeoutViews i m.msg.view.number = true
    · rw [if_pos h3]; exact ⟨s, _, rfl, hi⟩
    rw [if_neg h3]
    by_cases h4 : (!m.sigOk) = true
    · rw [if_pos h4]; exact ⟨s, _, rfl, hi⟩
    rw [if_neg h4]
    have hnp := replicaTimeoutVerify_not_panic c m.msg
    cases hv : replicaTimeoutVerify c m.msg with
    | err w => exact ⟨s, _, rfl, hi⟩
    | panic p => rw [hv] at hnp; cases hnp
    | ok u =>
      simp only []
      cases u
      exact onTimeoutCore_ok c s i m hi (by simpa using h3) (by simpa using h4) hv

theorem runOps_ok (c : Ctx) : ∀ (ops : List Op) (s : St), VInv c s →
    ∃ s' vs, runOps c s ops = .ok (s', vs) ∧ VInv c s' ∧ vs.length = ops.length := by
  intro ops
  induction ops with
  | nil => intro s hi; exact ⟨s, [], rfl, hi, rfl⟩
  | cons op ops ih =>
    intro s hi
    have hstep : ∃ s' v, step c s op = .ok (s', v) ∧ VInv c s' := by
      cases op with
      | commit m => exact onCommit_ok c s m hi
      | timeout m => exact onTimeout_ok c s m hi
    obtain ⟨s1, v, h1, hi1⟩ := hstep
    obtain ⟨s2, vs, h2, hi2, hl⟩ := ih s1 hi1
    refine ⟨s2, v :: vs, ?_, hi2, by simp [hl]⟩
    unfold runOps
    rw [h1]
    show (runOps c s1 ops).bind _ = _
    rw [h2]
    rfl

end EraVerif.Proofs.C10Votes
