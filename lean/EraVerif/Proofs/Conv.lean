import EraVerif.Model.Conv
/-! Helper lemmas for C09: the typed conversions of `Model/Conv.lean`. Core Lean only. -/
namespace EraVerif.Proofs.Conv
open EraVerif.Model.Wire EraVerif.Model.Conv

/-! ## Lawful comparison functions (what Rust's `Ord` contract demands) -/

structure LawfulCmp {α : Type} (c : α → α → Ordering) : Prop where
  eq_iff : ∀ a b, c a b = .eq ↔ a = b
  swap : ∀ a b, c b a = (c a b).swap
  trans : ∀ a b d, c a b = .lt → c b d = .lt → c a d = .lt

theorem LawfulCmp.gt_of_lt {α : Type} {c : α → α → Ordering} (h : LawfulCmp c) {a b : α} (hab : c a b = .lt) :
    c b a = .gt := by rw [h.swap, hab]; rfl

theorem LawfulCmp.lt_of_gt {α : Type} {c : α → α → Ordering} (h : LawfulCmp c) {a b : α} (hab : c a b = .gt) :
    c b a = .lt := by rw [h.swap, hab]; rfl

theorem LawfulCmp.refl {α : Type} {c : α → α → Ordering} (h : LawfulCmp c) (a : α) : c a a = .eq :=
  (h.eq_iff a a).mpr rfl

theorem lawful_nat : LawfulCmp (fun (a b : Nat) => compare a b) where
  eq_iff a b := by simp
  swap a b := by simp [Nat.compare_swap]
  trans a b d := by simp only [Nat.compare_eq_lt]; omega

/-- lexicographic combination (derived `Ord` of a struct with two fields / a pair) -/
def lex {α β : Type} (c1 : α → α → Ordering) (c2 : β → β → Ordering) (p q : α × β) : Ordering :=
  (c1 p.1 q.1).then (c2 p.2 q.2)

theorem lawful_lex {α β : Type} {c1 : α → α → Ordering} {c2 : β → β → Ordering}
    (h1 : LawfulCmp c1) (h2 : LawfulCmp c2) : LawfulCmp (lex c1 c2) where
  eq_iff p q := by
    obtain ⟨a, b⟩ := p; obtain ⟨a', b'⟩ := q
    simp only [lex, Ordering.then_eq_eq, h1.eq_iff, h2.eq_iff, Prod.mk.injEq]
  swap p q := by
    simp only [lex, h1.swap p.1 q.1, h2.swap p.2 q.2, Ordering.swap_then]
  trans p q r := by
    simp only [lex]
    intro hpq hqr
    cases h : c1 p.1 q.1 <;> cases h' : c1 q.1 r.1 <;> simp_all [Ordering.then]
    · rw [h1.trans _ _ _ h h']
    · have := (h1.eq_iff _ _).mp h'; rw [← this, h]
    · have := (h1.eq_iff _ _).mp h; rw [this, h']
    · have e1 := (h1.eq_iff _ _).mp h; have e2 := (h1.eq_iff _ _).mp h'
      rw [e1, e2, h1.refl]; exact h2.trans _ _ _ hpq hqr

/-- comparison through an injective projection (derived `Ord` of a struct = `lex` on the tuple of its fields) -/
theorem lawful_comap {α β : Type} {c : β → β → Ordering} (h : LawfulCmp c) (f : α → β)
    (hf : ∀ a b, f a = f b → a = b) : LawfulCmp (fun a b => c (f a) (f b)) where
  eq_iff a b := by rw [h.eq_iff]; exact ⟨hf a b, fun e => by rw [e]⟩
  swap a b := h.swap _ _
  trans a b d := h.trans _ _ _

theorem lawful_cmpList {α : Type} {c : α → α → Ordering} (h : LawfulCmp c) : LawfulCmp (cmpList c) where
  eq_iff a := by
    induction a with
    | nil => intro b; cases b <;> simp [cmpList]
    | cons x xs ih =>
      intro b
      cases b with
      | nil => simp [cmpList]
      | cons y ys => simp [cmpList, Ordering.then_eq_eq, h.eq_iff, ih]
  swap a := by
    induction a with
    | nil => intro b; cases b <;> simp [cmpList]
    | cons x xs ih =>
      intro b
      cases b with
      | nil => simp [cmpList]
      | cons y ys => simp [cmpList, h.swap x y, ih ys, Ordering.swap_then]
  trans a := by
    induction a with
    | nil => intro b d; cases b <;> cases d <;> simp [cmpList]
    | cons x xs ih =>
      intro b d
      cases b with
      | nil => simp [cmpList]
      | cons y ys =>
        cases d with
        | nil => simp [cmpList]
        | cons z zs =>
          simp only [cmpList]
          intro hpq hqr
          cases h1 : c x y <;> cases h2 : c y z <;> simp_all [Ordering.then]
          · rw [h.trans _ _ _ h1 h2]
          · have := (h.eq_iff _ _).mp h2; rw [← this, h1]
          · have := (h.eq_iff _ _).mp h1; rw [this, h2]
          · have e1 := (h.eq_iff _ _).mp h1; have e2 := (h.eq_iff _ _).mp h2
            rw [e1, e2, h.refl]; exact ih ys zs hpq hqr

theorem lawful_cmpOpt {α : Type} {c : α → α → Ordering} (h : LawfulCmp c) : LawfulCmp (cmpOpt c) where
  eq_iff a b := by cases a <;> cases b <;> simp [cmpOpt, h.eq_iff]
  swap a b := by cases a <;> cases b <;> first | rfl | exact h.swap _ _
  trans a b d := by cases a <;> cases b <;> cases d <;> simp [cmpOpt]; exact h.trans _ _ _

/-! ## `BTreeMap`: the content does not depend on the insertion order -/

theorem btInsert_comm {κ ν : Type} {cmp : κ → κ → Ordering} (hc : LawfulCmp cmp)
    (m : List (κ × ν)) (a b : κ) (x y : ν) (hab : a ≠ b) :
    btInsert cmp (btInsert cmp m a x) b y = btInsert cmp (btInsert cmp m b y) a x := by
  have hne : cmp a b ≠ .eq := fun h => hab ((hc.eq_iff a b).mp h)
  induction m with
  | nil =>
    cases h : cmp a b
    · simp [btInsert, h, hc.gt_of_lt h]
    · exact absurd h hne
    · simp [btInsert, h, hc.lt_of_gt h]
  | cons q rest ih =>
    obtain ⟨k, v⟩ := q
    cases ha : cmp a k <;> cases hb : cmp b k
    · -- a < k, b < k
      cases h : cmp a b
      · simp [btInsert, ha, hb, h, hc.gt_of_lt h]
      · exact absurd h hne
      · simp [btInsert, ha, hb, h, hc.lt_of_gt h]
    · -- a < k, b = k
      have e := (hc.eq_iff b k).mp hb; subst e
      simp [btInsert, ha, hb, hc.gt_of_lt ha]
    · -- a < k, b > k
      have : cmp a b = .lt := hc.trans a k b ha (hc.lt_of_gt hb)
      simp [btInsert, ha, hb, hc.gt_of_lt this]
    · -- a = k, b < k
      have e := (hc.eq_iff a k).mp ha; subst e
      simp [btInsert, ha, hb, hc.gt_of_lt hb]
    · -- a = k, b = k
      have e1 := (hc.eq_iff a k).mp ha; have e2 := (hc.eq_iff b k).mp hb
      exact absurd (e1.trans e2.symm) hab
    · -- a = k, b > k
      simp [btInsert, ha, hb]
    · -- a > k, b < k
      have : cmp b a = .lt := hc.trans b k a hb (hc.lt_of_gt ha)
      simp [btInsert, ha, hb, hc.gt_of_lt this]
    · -- a > k, b = k
      simp [btInsert, ha, hb]
    · -- a > k, b > k
      simp [btInsert, ha, hb, ih]

theorem inj_of_nodup_map {α β : Type} (f : α → β) : ∀ (l : List α), (l.map f).Nodup →
    ∀ a ∈ l, ∀ b ∈ l, f a = f b → a = b := by
  intro l
  induction l with
  | nil => intro _ a ha; simp at ha
  | cons x xs ih =>
    intro hnd a ha b hb hab
    simp only [List.map_cons, List.nodup_cons, List.mem_map, not_exists, not_and] at hnd
    rcases List.mem_cons.mp ha with ha' | ha' <;> rcases List.mem_cons.mp hb with hb' | hb'
    · rw [ha', hb']
    · rw [ha'] at hab; exact absurd hab.symm (hnd.1 b hb')
    · rw [hb'] at hab; exact absurd hab (hnd.1 a ha')
    · exact ih hnd.2 a ha' b hb' hab

/-- **Equal maps, whatever the insertion order**: two entry lists that are permutations of each other (keys pairwise
distinct) build the same `BTreeMap`. -/
theorem btOfList_perm {κ ν : Type} {cmp : κ → κ → Ordering} (hc : LawfulCmp cmp) {l1 l2 : List (κ × ν)}
    (hp : l1.Perm l2) (hnd : (l1.map (·.1)).Nodup) : btOfList cmp l1 = btOfList cmp l2 := by
  unfold btOfList
  apply List.Perm.foldl_eq' hp
  intro p hpm q hqm z
  by_cases hk : p.1 = q.1
  · -- same key ⇒ same entry (keys are pairwise distinct)
    have : p = q := by
      exact inj_of_nodup_map (·.1) l1 hnd p hpm q hqm hk
    rw [this]
  · exact btInsert_comm hc z p.1 q.1 p.2 q.2 hk

/-! ## The derived orders of the consensus types are lawful total orders -/

theorem lawful_cmpBytes : LawfulCmp cmpBytes :=
  lawful_cmpList (lawful_comap lawful_nat UInt8.toNat (fun _ _ h => UInt8.toNat_inj.mp h))

theorem lawful_cmpBool : LawfulCmp cmpBool :=
  lawful_comap lawful_nat Bool.toNat (fun a b h => by cases a <;> cases b <;> simp_all [Bool.toNat])

theorem lawful_cmpBits : LawfulCmp cmpBits := lawful_cmpList lawful_cmpBool

theorem lawful_view : LawfulCmp View.cmp :=
  lawful_comap (c := lex cmpBytes (lex (fun (a b : Nat) => compare a b) (fun (a b : Nat) => compare a b)))
    (lawful_lex lawful_cmpBytes (lawful_lex lawful_nat lawful_nat))
    (fun (v : View) => (v.genesis, v.epoch, v.number))
    (fun a b h => by cases a; cases b; simp_all)

theorem lawful_replicaCommit : LawfulCmp ReplicaCommit.cmp :=
  lawful_comap (c := lex View.cmp (lex (fun (a b : Nat) => compare a b) cmpBytes))
    (lawful_lex lawful_view (lawful_lex lawful_nat lawful_cmpBytes))
    (fun (c : ReplicaCommit) => (c.view, c.number, c.payload))
    (fun a b h => by cases a; cases b; simp_all)

theorem lawful_commitQC : LawfulCmp CommitQC.cmp :=
  lawful_comap (c := lex ReplicaCommit.cmp (lex cmpBits cmpBytes))
    (lawful_lex lawful_replicaCommit (lawful_lex lawful_cmpBits lawful_cmpBytes))
    (fun (q : CommitQC) => (q.message, q.signers, q.signature))
    (fun a b h => by cases a; cases b; simp_all)

theorem lawful_replicaTimeout : LawfulCmp ReplicaTimeout.cmp :=
  lawful_comap (c := lex View.cmp (lex (cmpOpt ReplicaCommit.cmp) (cmpOpt CommitQC.cmp)))
    (lawful_lex lawful_view (lawful_lex (lawful_cmpOpt lawful_replicaCommit) (lawful_cmpOpt lawful_commitQC)))
    (fun (t : ReplicaTimeout) => (t.view, t.highVote, t.highQc))
    (fun a b h => by cases a; cases b; simp_all)

/-- `TimeoutQC` values whose vote maps hold the same entries — inserted in any two orders — have the same `build`
(hence the same encoding, hash and signature input). -/
theorem timeoutQC_tree_perm (view : View) (sig : Bytes) {e1 e2 : List (ReplicaTimeout × List Bool)}
    (hp : e1.Perm e2) (hnd : (e1.map (·.1)).Nodup) :
    (TimeoutQC.tree ⟨view, e1, sig⟩) = (TimeoutQC.tree ⟨view, e2, sig⟩) := by
  simp only [TimeoutQC.tree, TimeoutQC.map, btOfList_perm lawful_replicaTimeout hp hnd]

/-- the same for the capability maps of the (repaired) mux handshake -/
theorem muxHandshake_tree_perm {a1 a2 c1 c2 : List (Nat × Nat)} (ha : a1.Perm a2) (hc : c1.Perm c2)
    (hna : (a1.map (·.1)).Nodup) (hnc : (c1.map (·.1)).Nodup) :
    muxHandshakeTree a1 c1 = muxHandshakeTree a2 c2 := by
  simp only [muxHandshakeTree, capsOfList, btOfList_perm lawful_nat ha hna, btOfList_perm lawful_nat hc hnc]

/-! ## std_conv.rs -/

theorem bits_byte : ∀ (c : List Bool), c.length ≤ 8 →
    bitsOfByte (byteOfBits c) = c ++ List.replicate (8 - c.length) false
  | [], _ => by decide
  | [a], _ => by revert a; decide
  | [a, b], _ => by revert a b; decide
  | [a, b, c], _ => by revert a b c; decide
  | [a, b, c, d], _ => by revert a b c d; decide
  | [a, b, c, d, e], _ => by revert a b c d e; decide
  | [a, b, c, d, e, f], _ => by revert a b c d e f; decide
  | [a, b, c, d, e, f, g], _ => by revert a b c d e f g; decide
  | [a, b, c, d, e, f, g, h], _ => by revert a b c d e f g h; decide
  | _ :: _ :: _ :: _ :: _ :: _ :: _ :: _ :: _ :: _, h => by simp at h

theorem fromBytes_toBytes : ∀ (n : Nat) (l : List Bool), l.length ≤ n →
    ∃ pad, fromBytes (toBytes l) = l ++ pad := by
  intro n
  induction n with
  | zero =>
    intro l h
    have : l = [] := List.eq_nil_of_length_eq_zero (by omega)
    subst this; exact ⟨[], by simp [toBytes, fromBytes]⟩
  | succ n ih =>
    intro l h
    cases l with
    | nil => exact ⟨[], by simp [toBytes, fromBytes]⟩
    | cons b bs =>
      rw [toBytes]
      simp only [fromBytes, List.flatMap_cons]
      have hlen : ((b :: bs).take 8).length ≤ 8 := by simp; omega
      rw [bits_byte _ hlen]
      have hdl : ((b :: bs).drop 8).length ≤ n := by
        rw [List.length_drop]; simp only [List.length_cons] at h ⊢; omega
      obtain ⟨pad, hpad⟩ := ih ((b :: bs).drop 8) hdl
      simp only [fromBytes] at hpad
      rw [hpad]
      by_cases h8 : 8 ≤ (b :: bs).length
      · have : ((b :: bs).take 8).length = 8 := by
          rw [List.length_take]; simp only [List.length_cons] at h8 ⊢; omega
        rw [this]
        refine ⟨pad, ?_⟩
        simp only [Nat.sub_self, List.replicate_zero, List.append_nil]
        rw [← List.append_assoc, List.take_append_drop]
      · have hd : (b :: bs).drop 8 = [] := List.drop_eq_nil_of_le (by omega)
        have ht : (b :: bs).take 8 = b :: bs := List.take_of_length_le (by omega)
        rw [hd, ht]
        exact ⟨List.replicate (8 - (b :: bs).length) false ++ pad, by simp⟩

/-- **BitVec**: every bit vector — of any length, also not a multiple of 8 — survives `build` then `read`. -/
theorem bitvec_read_build (bits : List Bool) :
    bitvecRead (bitvecBuild bits).1 (bitvecBuild bits).2 = .ok bits := by
  obtain ⟨pad, hpad⟩ := fromBytes_toBytes bits.length bits (Nat.le_refl _)
  simp [bitvecRead, bitvecBuild, hpad]

theorem wrapI64_id (x : Int) (h1 : i64Min ≤ x) (h2 : x ≤ i64Max) : wrapI64 x = x := by
  simp only [wrapI64, i64Min, i64Max] at *
  omega

/-- **Duration / Timestamp**: every `time::Duration` except those with `seconds = i64::MIN` and negative nanoseconds
survives `build` then `read` (no panic, same value). -/
theorem duration_raw_build (d : Dur) (hv : d.Valid) (hmin : i64Min < d.secs ∨ 0 ≤ d.nanos) :
    durFromPartsRaw (durBuild d).1 (durBuild d).2 = .ok d := by
  obtain ⟨h1, h2, h3, h4, h5, h6⟩ := hv
  obtain ⟨s, n⟩ := d
  simp only [i64Min, i64Max, nanosPerSec] at *
  by_cases hn : n < 0
  · have hs : s ≤ 0 := by
      by_cases h : 0 < s
      · have := h5 h; omega
      · omega
    have hmin' : -(2 ^ 63) < s := by rcases hmin with h | h <;> omega
    have hw : wrapI64 (s - 1) = s - 1 := wrapI64_id _ (by simp only [i64Min]; omega) (by simp only [i64Max]; omega)
    have hd : Int.tdiv (n + 1000000000) 1000000000 = 0 := Int.tdiv_eq_zero_of_lt (by omega) (by omega)
    have hm : Int.tmod (n + 1000000000) 1000000000 = n + 1000000000 := Int.tmod_eq_of_lt (by omega) (by omega)
    simp only [durBuild, hn, if_true, hw, durFromPartsRaw, nanosPerSec, hd, hm, i64Min, i64Max, Int.add_zero,
      Int.zero_add]
    rw [if_neg (by omega), if_pos (by omega), if_neg (by omega)]
    congr 2 <;> omega
  · have hd : Int.tdiv n 1000000000 = 0 := Int.tdiv_eq_zero_of_lt (by omega) (by omega)
    have hm : Int.tmod n 1000000000 = n := Int.tmod_eq_of_lt (by omega) (by omega)
    simp only [durBuild, hn, if_false, durFromPartsRaw, nanosPerSec, hd, hm, i64Min, i64Max, Int.add_zero,
      Int.zero_add]
    have hs0 : ¬ (1000000000 ≤ n ∨ (s < 0 ∧ 0 < n)) := by
      intro h; rcases h with h | ⟨h, h'⟩
      · omega
      · have := h6 h; omega
    have hs1 : ¬ (n ≤ -1000000000 ∨ (0 < s ∧ False)) := by
      intro h; rcases h with h | ⟨_, h⟩
      · omega
      · exact h
    rw [if_neg (by omega), if_neg hs0, if_neg hs1]

theorem duration_read_build (d : Dur) (hv : d.Valid) (hmin : i64Min < d.secs ∨ 0 ≤ d.nanos) :
    durRead (durBuild d).1 (durBuild d).2 = .ok d := by
  simp only [durRead, durFromParts, duration_raw_build d hv hmin, if_pos hmin]

/-- repair F12: whatever `read` accepts can be re-encoded — never `i64::MIN` whole seconds with a negative sub-second part -/
theorem duration_read_representable (s n : Int) (d : Dur) (h : durRead s n = .ok d) :
    i64Min < d.secs ∨ 0 ≤ d.nanos := by
  simp only [durRead, durFromParts] at h
  generalize durFromPartsRaw s n = r at h
  cases r with
  | ok x =>
    simp only at h
    split at h
    · cases h; assumption
    · cases h
  | err => cases h
  | panic => cases h

/-- the excluded corner really is excluded for a reason: `Duration::MIN` does not survive (release profile: the
decrement wraps) -/
theorem duration_min_not_roundtrip :
    durRead (durBuild ⟨i64Min, -1⟩).1 (durBuild ⟨i64Min, -1⟩).2 ≠ .ok ⟨i64Min, -1⟩ := by decide

/-- **SocketAddr** (ip + port). -/
theorem sockaddr_read_build (a : SockAddr) (hv : a.Valid) :
    sockRead (sockBuild a).1 (sockBuild a).2 = .ok a := by
  obtain ⟨h1, h2⟩ := hv
  simp [sockRead, sockBuild, h1, h2]

/-! ## schedule.rs : `Schedule::new` does not depend on the order in which the validators are listed -/

theorem any_btInsert {κ ν : Type} {cmp : κ → κ → Ordering} (hc : LawfulCmp cmp) (m : List (κ × ν)) (k k' : κ) (v : ν) :
    (btInsert cmp m k v).any (fun p => cmp p.1 k' == .eq) = (cmp k k' == .eq || m.any (fun p => cmp p.1 k' == .eq)) := by
  induction m with
  | nil => simp [btInsert]
  | cons q rest ih =>
    obtain ⟨k2, v2⟩ := q
    simp only [btInsert]
    cases h : cmp k k2
    · simp
    · have := (hc.eq_iff k k2).mp h; subst this
      simp
    · simp only [List.any_cons, ih]
      cases cmp k2 k' == .eq <;> cases cmp k k' == .eq <;> simp

theorem scheduleLoop_swap (x y : ValidatorInfo) (l : List ValidatorInfo) (map : List (Bytes × ValidatorInfo))
    (total : Nat) : scheduleLoop (x :: y :: l) map total = scheduleLoop (y :: x :: l) map total := by
  simp only [scheduleLoop, any_btInsert lawful_cmpBytes]
  have hsw : (cmpBytes x.key y.key == .eq) = (cmpBytes y.key x.key == .eq) := by
    rw [lawful_cmpBytes.swap x.key y.key]; cases cmpBytes x.key y.key <;> rfl
  cases hmx : map.any (fun p => cmpBytes p.1 x.key == .eq) <;>
  cases hmy : map.any (fun p => cmpBytes p.1 y.key == .eq) <;>
  cases hxy : (cmpBytes x.key y.key == .eq) <;>
  simp only [← hsw, hxy, Bool.false_or, Bool.true_or, Bool.false_eq_true, if_false, if_true] <;>
  by_cases hwx : x.weight = 0 <;> by_cases hwy : y.weight = 0 <;>
  simp only [hwx, hwy, if_true, if_false] <;>
  by_cases ho1 : 2 ^ 64 ≤ total + x.weight <;> by_cases ho2 : 2 ^ 64 ≤ total + y.weight <;>
  simp only [ho1, ho2, if_true, if_false] <;>
  by_cases ho3 : 2 ^ 64 ≤ total + x.weight + y.weight <;>
  (try (have ho4 : 2 ^ 64 ≤ total + y.weight + x.weight := by omega)) <;>
  (try (have ho4 : ¬ 2 ^ 64 ≤ total + y.weight + x.weight := by omega)) <;>
  simp only [ho3, ho4, if_true, if_false] <;>
  (try omega) <;> (try (split <;> rfl))
  have hne : x.key ≠ y.key := by
    intro h
    have := (lawful_cmpBytes.eq_iff x.key y.key).mpr h
    simp [this] at hxy
  rw [btInsert_comm lawful_cmpBytes map x.key y.key x y hne, Nat.add_right_comm]

/-- **`Schedule::new` is independent of the order of its input**: same acceptance, same schedule. -/
theorem scheduleNew_perm {l1 l2 : List ValidatorInfo} (hp : l1.Perm l2) (sel : LeaderSelection) :
    scheduleNew l1 sel = scheduleNew l2 sel := by
  have key : ∀ (map : List (Bytes × ValidatorInfo)) (total : Nat),
      scheduleLoop l1 map total = scheduleLoop l2 map total := by
    induction hp with
    | nil => intro _ _; rfl
    | cons x _ ih =>
      intro map total
      simp only [scheduleLoop]
      split
      · rfl
      · split
        · rfl
        · split
          · rfl
          · exact ih _ _
    | swap x y l => intro map total; exact scheduleLoop_swap y x l map total
    | trans _ _ ih1 ih2 => intro map total; rw [ih1, ih2]
  simp only [scheduleNew, key]

end EraVerif.Proofs.Conv
