import EraVerif.Model.C10Readers
import EraVerif.Proofs.C10Std

/-! Helper lemmas for C10: totality of the reader language (`C10Read.lean`). Core Lean only. -/

namespace EraVerif.Proofs.C10Read
open EraVerif.Model.C10 EraVerif.Proofs.C10Std

theorem bind_not_panic {α β : Type} (a : Res α) (f : α → Res β) (ha : a.isPanic = false)
    (hf : ∀ x, (f x).isPanic = false) : (a.bind f).isPanic = false := by
  cases a with
  | ok x => exact hf x
  | err w => rfl
  | panic s => cases ha

theorem ofOption_not_panic {α : Type} (w : String) (o : Option α) : (Res.ofOption w o).isPanic = false := by
  cases o <;> rfl

theorem allRes_not_panic (f : PV → Res Unit) (hf : ∀ x, (f x).isPanic = false) :
    ∀ xs, (allRes f xs).isPanic = false := by
  intro xs
  induction xs with
  | nil => rfl
  | cons x xs ih => exact bind_not_panic _ _ (hf x) (fun _ => ih)

theorem zipRes_not_panic (f g : PV → Res Unit) (hf : ∀ x, (f x).isPanic = false) (hg : ∀ x, (g x).isPanic = false) :
    ∀ xs ys, (zipRes f g xs ys).isPanic = false := by
  intro xs
  induction xs with
  | nil => intro ys; rfl
  | cons x xs ih =>
    intro ys
    cases ys with
    | nil => rfl
    | cons y ys =>
      exact bind_not_panic _ _ (hf x) (fun _ => bind_not_panic _ _ (hg y) (fun _ => ih ys))

theorem mapMRes_not_panic {α β : Type} (f : α → Res β) (hf : ∀ x, (f x).isPanic = false) :
    ∀ xs, (mapMRes f xs).isPanic = false := by
  intro xs
  induction xs with
  | nil => rfl
  | cons x xs ih =>
    exact bind_not_panic _ _ (hf x) (fun _ => bind_not_panic _ _ ih (fun _ => rfl))

/-! ## leaves -/
theorem validatorInfoRead_not_panic (p : PValidator) : (validatorInfoRead p).isPanic = false := by
  unfold validatorInfoRead
  cases p.key with
  | none => rfl
  | some k =>
    obtain ⟨id, tp⟩ := k
    cases tp with
    | false => rfl
    | true =>
      cases p.weight with
      | none => rfl
      | some w =>
        cases p.leader with
        | none => rfl
        | some l => rfl

theorem scheduleFold_not_panic : ∀ (xs : List (Nat × Nat × Bool)) (seen : List Nat) (total : Nat),
    (scheduleFold xs seen total).isPanic = false := by
  intro xs
  induction xs with
  | nil => intro _ _; rfl
  | cons x xs ih =>
    intro seen total
    obtain ⟨id, w, l⟩ := x
    unfold scheduleFold
    split
    · rfl
    · split
      · rfl
      · split
        · rfl
        · exact ih _ _

theorem leaderSelectionRead_not_panic (v : Option PV) : (leaderSelectionRead v).isPanic = false := by
  unfold leaderSelectionRead
  cases v with
  | none => rfl
  | some ls =>
    show (Res.bind (Res.ofOption "frequency" (ls.fieldNat? "frequency")) _).isPanic = false
    refine bind_not_panic _ _ (ofOption_not_panic _ _) (fun _ => ?_)
    refine bind_not_panic _ _ (ofOption_not_panic _ _) (fun mode => ?_)
    split <;> rfl

theorem scheduleRead_not_panic (v : PV) : (scheduleRead v).isPanic = false := by
  unfold scheduleRead
  refine bind_not_panic _ _ (mapMRes_not_panic _ (fun x => validatorInfoRead_not_panic _) _) (fun vals => ?_)
  refine bind_not_panic _ _ (leaderSelectionRead_not_panic _) (fun _ => ?_)
  refine bind_not_panic _ _ (scheduleFold_not_panic _ _ _) (fun st => ?_)
  obtain ⟨seen, total⟩ := st
  simp only []
  split
  · rfl
  · split <;> rfl

/-- the `unreachable!()` of `GenesisRaw::build` is only reached with `protocol_version = 2` because `read`
has rejected every other version before -/
theorem genesisRead_not_panic (v : PV) : (genesisRead false v).isPanic = false := by
  unfold genesisRead
  refine bind_not_panic _ _ (ofOption_not_panic _ _) (fun pver => ?_)
  simp only []
  by_cases h2 : pver = 2
  · subst h2
    refine bind_not_panic _ _ ?_ (fun _ => ?_)
    · simp only [if_true]
      cases v.field? "validators_schedule" with
      | none => rfl
      | some s => exact bind_not_panic _ _ (scheduleRead_not_panic s) (fun _ => rfl)
    · refine bind_not_panic _ _ (ofOption_not_panic _ _) (fun _ => ?_)
      refine bind_not_panic _ _ (ofOption_not_panic _ _) (fun _ => ?_)
      refine bind_not_panic _ _ (ofOption_not_panic _ _) (fun _ => ?_)
      rfl
  · simp only [h2, if_false]
    rfl

theorem readMaxStreams_not_panic : ∀ (cs : List Mux.PCap) (acc : List (Nat × Nat)),
    (Mux.readMaxStreams cs acc).isPanic = false := by
  intro cs
  induction cs with
  | nil => intro _; rfl
  | cons c cs ih =>
    intro acc
    unfold Mux.readMaxStreams
    cases c.id with
    | none => rfl
    | some id =>
      cases c.maxStreams with
      | none => rfl
      | some m =>
        simp only []
        split
        · rfl
        · exact ih _

theorem handshakeRead_not_panic (a c : List Mux.PCap) : (Mux.handshakeRead a c).isPanic = false := by
  unfold Mux.handshakeRead
  refine bind_not_panic _ _ (readMaxStreams_not_panic _ _) (fun _ => ?_)
  refine bind_not_panic _ _ (readMaxStreams_not_panic _ _) (fun _ => rfl)

theorem leaf_not_panic (l : Leaf) (v : PV) (hs : l.safe = true) : (l.run v).isPanic = false := by
  cases l with
  | copy => rfl
  | bytesLen n =>
    unfold Leaf.run
    cases v <;> try rfl
    simp only []; split <;> rfl
  | bytesTP n =>
    unfold Leaf.run
    cases v <;> try rfl
    rename_i len id tp
    cases n with
    | none => simp only []; split <;> rfl
    | some n =>
      simp only []
      split
      · split <;> rfl
      · rfl
  | strTP =>
    unfold Leaf.run
    cases v <;> try rfl
    simp only []; split <;> rfl
  | timestamp => exact bind_not_panic _ _ (timestampRead_not_panic _) (fun _ => rfl)
  | duration => exact bind_not_panic _ _ (durationRead_not_panic _) (fun _ => rfl)
  | bitvec => exact bind_not_panic _ _ (bitvecRead_not_panic _) (fun _ => rfl)
  | sockaddr => exact bind_not_panic _ _ (sockaddrRead_not_panic _) (fun _ => rfl)
  | rate => exact bind_not_panic _ _ (rateRead_not_panic _) (fun _ => rfl)
  | timestampLegacy => cases hs
  | durationLegacy => cases hs
  | genesis legacy =>
    cases legacy with
    | true => cases hs
    | false => exact genesisRead_not_panic v
  | schedule => exact bind_not_panic _ _ (scheduleRead_not_panic _) (fun _ => rfl)
  | muxHandshake => exact bind_not_panic _ _ (handshakeRead_not_panic _ _) (fun _ => rfl)

/-! ## the language: mutual structural induction -/
mutual
  theorem rd_not_panic : ∀ (rd : Rd) (v : PV), rd.safe = true → (rd.run v).isPanic = false
    | .leaf l, v, hs => by
      unfold Rd.run; unfold Rd.safe at hs; exact leaf_not_panic l v hs
    | .msg fs, v, hs => by
      unfold Rd.run; unfold Rd.safe at hs; exact flds_not_panic fs v hs
    | .oneof alts, v, hs => by
      unfold Rd.run; unfold Rd.safe at hs; exact alt_not_panic alts v hs
    | .oneofOnly alts allowed, v, hs => by
      unfold Rd.run; unfold Rd.safe at hs
      refine bind_not_panic _ _ (alt_not_panic alts v hs) (fun _ => ?_)
      split <;> rfl
  theorem flds_not_panic : ∀ (fs : Flds) (v : PV), fs.safe = true → (fs.run v).isPanic = false
    | .nil, _, _ => rfl
    | .cons name mode rd rest, v, hs => by
      unfold Flds.run
      unfold Flds.safe at hs
      simp only [Bool.and_eq_true, bne_iff_ne, ne_eq] at hs
      obtain ⟨⟨hm, hrd⟩, hrest⟩ := hs
      refine bind_not_panic _ _ ?_ (fun _ => flds_not_panic rest v hrest)
      cases mode with
      | req =>
        simp only []
        cases v.field? name with
        | none => rfl
        | some x => exact rd_not_panic rd x hrd
      | opt =>
        simp only []
        cases v.field? name with
        | none => rfl
        | some x => exact rd_not_panic rd x hrd
      | rep => exact allRes_not_panic _ (fun x => rd_not_panic rd x hrd) _
      | unwrap => exact absurd rfl hm
    | .zip nameA rdA nameB rdB rest, v, hs => by
      unfold Flds.run
      unfold Flds.safe at hs
      simp only [Bool.and_eq_true] at hs
      obtain ⟨⟨ha, hb⟩, hrest⟩ := hs
      refine bind_not_panic _ _ ?_ (fun _ => flds_not_panic rest v hrest)
      exact zipRes_not_panic _ _ (fun x => rd_not_panic rdA x ha) (fun x => rd_not_panic rdB x hb) _ _
  theorem alt_not_panic : ∀ (fs : Flds) (v : PV), fs.safe = true → (fs.runAlt v).isPanic = false
    | .nil, _, _ => rfl
    | .cons name mode rd rest, v, hs => by
      unfold Flds.runAlt
      unfold Flds.safe at hs
      simp only [Bool.and_eq_true] at hs
      obtain ⟨⟨_, hrd⟩, hrest⟩ := hs
      cases v.field? name with
      | none => exact alt_not_panic rest v hrest
      | some x => exact rd_not_panic rd x hrd
    | .zip _ _ _ _ rest, v, hs => by
      unfold Flds.runAlt
      unfold Flds.safe at hs
      simp only [Bool.and_eq_true] at hs
      exact alt_not_panic rest v hs.2
end

end EraVerif.Proofs.C10Read
