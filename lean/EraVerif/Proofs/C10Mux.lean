import EraVerif.Model.C10Mux

/-! Helper lemmas for C10 (mux inbound side). Core Lean only. -/

namespace EraVerif.Proofs.C10Mux
open EraVerif.Gen.MuxConst EraVerif.Model.C10 EraVerif.Model.C10.Mux

/-! ## bit arithmetic of the three header masks (for every 16-bit value, not a sample) -/

theorem and_hi (h : Nat) (hh : h < 65536) : h &&& 49152 = 16384 * (h / 16384) := by
  have h1 : (h &&& 49152) % 16384 = 0 := by
    have := Nat.and_mod_two_pow (a := h) (b := 49152) (n := 14)
    simp at this
    omega
  have h2 : (h &&& 49152) / 16384 = h / 16384 := by
    have := Nat.shiftRight_and_distrib (a := h) (b := 49152) (i := 14)
    simp [Nat.shiftRight_eq_div_pow] at this
    rw [this]
    have h3 : h / 16384 < 4 := by omega
    have : (h / 16384) &&& 3 = (h/16384) % 4 := Nat.and_two_pow_sub_one_eq_mod (h/16384) 2
    omega
  omega

theorem and_sk (h : Nat) : h &&& 8192 = 8192 * (h / 8192 % 2) := by
  have h1 : (h &&& 8192) % 8192 = 0 := by
    have := Nat.and_mod_two_pow (a := h) (b := 8192) (n := 13)
    simp at this
    omega
  have h2 : (h &&& 8192) / 8192 = h / 8192 % 2 := by
    have := Nat.shiftRight_and_distrib (a := h) (b := 8192) (i := 13)
    simp [Nat.shiftRight_eq_div_pow] at this
    rw [this]
  omega

theorem and_id (h : Nat) : h &&& 8191 = h % 8192 := Nat.and_two_pow_sub_one_eq_mod h 13

/-- the generated masks are what the three lemmas are about; if `header.rs` changes a mask, these `rfl`s fail -/
theorem frameKind_eq (h : Nat) (hh : h < 65536) : frameKind h = 16384 * (h / 16384) := and_hi h hh
theorem streamKind_eq (h : Nat) : streamKind h = 8192 * (h / 8192 % 2) := and_sk h
theorem streamId_eq (h : Nat) : streamId h = h % 8192 := and_id h

/-- arithmetic specification of one dispatch: frame-kind bits `h / 16384 ∈ {0,1,2,3}`, stream-kind bit
`h / 8192 % 2`, id `h % 8192` -/
def kindSpec (h : Nat) : Res Kind :=
  match h / 16384 with
  | 0 => .ok .open_
  | 1 => .ok .data
  | 2 => .ok .close
  | _ => .err "invalid frame kind in header"

def dispatchSpec (nAccept nConnect h : Nat) : Res Dispatched :=
  let toConnect := h / 8192 % 2 = 0
  let n := if toConnect then nConnect else nAccept
  if h % 8192 < n then (kindSpec h).bind fun k => .ok ⟨toConnect, h % 8192, k⟩
  else .err "bad stream id"

theorem kindOf_eq_spec (h : Nat) (hh : h < 65536) : kindOf h = kindSpec h := by
  unfold kindOf kindSpec
  simp only [frameKind_eq h hh]
  have h3 : h / 16384 < 4 := by omega
  show (if 16384 * (h / 16384) = 0 then _ else if 16384 * (h / 16384) = 32768 then _
    else if 16384 * (h / 16384) = 16384 then _ else _) = _
  rcases Nat.lt_or_ge (h / 16384) 1 with h0 | h0
  · have : h / 16384 = 0 := by omega
    simp [this]
  rcases Nat.lt_or_ge (h / 16384) 2 with h1 | h1
  · have : h / 16384 = 1 := by omega
    simp [this]
  rcases Nat.lt_or_ge (h / 16384) 3 with h2 | h2
  · have : h / 16384 = 2 := by omega
    simp [this]
  · have : h / 16384 = 3 := by omega
    simp [this]

theorem dispatch_eq_spec (nAccept nConnect h : Nat) (hh : h < 65536) :
    dispatch nAccept nConnect h = dispatchSpec nAccept nConnect h := by
  unfold dispatch dispatchWith dispatchSpec
  simp only [streamKind_eq, streamId_eq, kindOf_eq_spec h hh]
  show (if 8192 * (h / 8192 % 2) = 0 then _ else if 8192 * (h / 8192 % 2) = 8192 then _ else _) = _
  rcases Nat.mod_two_eq_zero_or_one (h / 8192) with e | e
  · simp [e]
  · simp [e]

/-! ## the inbound machine -/

/-- semaphore accounting: permits available + permits held by parked frames = configured totals -/
def Inv (s : St) : Prop :=
  s.countAvail + s.live.length = s.cfg.readFrameCount ∧ s.sizeAvail + s.live.sum = s.cfg.readBufferSize

theorem inv_init (cfg : Cfg) (a c : Nat) (i : List Nat) (e : Bool) : Inv (St.init cfg a c i e) := by
  simp [Inv, St.init]

theorem take_preserves {s s' : St} {n : Nat} {bs : List Nat} (h : s.take n = .ok (bs, s')) :
    s'.cfg = s.cfg ∧ s'.countAvail = s.countAvail ∧ s'.sizeAvail = s.sizeAvail ∧ s'.live = s.live
      ∧ s'.input.length + n = s.input.length ∧ s'.phase = s.phase ∧ s'.nAccept = s.nAccept ∧ s'.nConnect = s.nConnect := by
  unfold St.take at h
  by_cases hl : s.input.length < n
  · simp [hl] at h
  · simp only [hl, if_false] at h
    cases h
    simp only [List.length_drop, true_and]
    exact ⟨by omega, trivial⟩

theorem take_err {s s' : St} {n : Nat} {o : Outcome} (h : s.take n = .error (o, s')) :
    s'.cfg = s.cfg ∧ s'.countAvail = s.countAvail ∧ s'.sizeAvail = s.sizeAvail ∧ s'.live = s.live ∧
      (∀ site, o ≠ .panic site) := by
  unfold St.take at h
  by_cases hl : s.input.length < n
  · simp only [hl, if_true] at h
    cases h
    refine ⟨rfl, rfl, rfl, rfl, ?_⟩
    intro site
    split <;> simp
  · simp [hl] at h

/-- delivering a frame for which (1, size) permits were taken out of a state satisfying the accounting restores it -/
theorem deliver_inv (s : St) (d : Dispatched) (size : Nat)
    (h : s.countAvail + 1 + s.live.length = s.cfg.readFrameCount ∧
         s.sizeAvail + size + s.live.sum = s.cfg.readBufferSize) : Inv (s.deliver d size) := by
  unfold St.deliver Inv
  split
  · simp only [List.length_cons, List.sum_cons]; omega
  · split <;> (simp only []; omega)

theorem deliver_cfg (s : St) (d : Dispatched) (size : Nat) :
    (s.deliver d size).cfg = s.cfg ∧ (s.deliver d size).input = s.input ∧ (s.deliver d size).phase = s.phase := by
  unfold St.deliver
  split
  · simp
  · split <;> simp

theorem dispatch_not_panic (nAccept nConnect h : Nat) : (dispatch nAccept nConnect h).isPanic = false := by
  unfold dispatch dispatchWith
  simp only [streamKind_eq]
  show (if 8192 * (h / 8192 % 2) = 0 then _ else if 8192 * (h / 8192 % 2) = 8192 then _ else _ : Res Dispatched).isPanic = false
  have hk : ∀ f : Kind → Res Dispatched, (∀ k, (f k).isPanic = false) → ((kindOf h).bind f).isPanic = false := by
    intro f hf
    unfold kindOf
    simp only []
    split
    · exact hf _
    · split
      · exact hf _
      · split
        · exact hf _
        · rfl
  rcases Nat.mod_two_eq_zero_or_one (h / 8192) with e | e
  · simp only [e, Nat.mul_zero, if_true]
    split
    · exact hk _ (fun _ => by simp [Res.isPanic])
    · rfl
  · have h1 : ¬ (8192 * 1 = 0) := by omega
    simp only [e, h1, if_false, if_true]
    split
    · exact hk _ (fun _ => by simp [Res.isPanic])
    · rfl

theorem inv_of_eq {s t : St} (h : Inv s) (e1 : t.cfg = s.cfg) (e2 : t.countAvail = s.countAvail)
    (e3 : t.sizeAvail = s.sizeAvail) (e4 : t.live = s.live) : Inv t := by
  unfold Inv at *
  rw [e1, e2, e3, e4]; exact h

theorem step_inv (s : St) (hi : Inv s) : Inv (step s).1 := by
  unfold step
  split
  · -- header
    split
    · rename_i o s' ht
      obtain ⟨c1, c2, c3, c4, -⟩ := take_err ht
      exact inv_of_eq hi c1 c2 c3 c4
    · rename_i bs s1 ht
      obtain ⟨c1, c2, c3, c4, -⟩ := take_preserves ht
      have hi1 : Inv s1 := inv_of_eq hi c1 c2 c3 c4
      simp only []
      split
      · exact hi1
      · exact hi1
      · split
        · exact inv_of_eq hi1 rfl rfl rfl rfl
        · split
          · exact hi1
          · apply deliver_inv
            unfold Inv at hi1
            simp only []
            omega
  · -- dataLen
    split
    · rename_i o s' ht
      obtain ⟨c1, c2, c3, c4, -⟩ := take_err ht
      exact inv_of_eq hi c1 c2 c3 c4
    · rename_i bs s1 ht
      obtain ⟨c1, c2, c3, c4, -⟩ := take_preserves ht
      exact inv_of_eq hi c1 c2 c3 c4
  · -- chunk
    split
    · exact inv_of_eq hi rfl rfl rfl rfl
    · simp only []
      split
      · exact hi
      · split
        · exact hi
        · split
          · exact inv_of_eq hi rfl rfl rfl rfl
          · rename_i bs s2 ht
            obtain ⟨c1, c2, c3, c4, -⟩ := take_preserves ht
            apply deliver_inv
            unfold Inv at hi
            simp only [c1, c2, c3, c4]
            omega

theorem step_no_panic (s : St) : ∀ site, (step s).2 ≠ some (.panic site) := by
  intro site
  unfold step
  split
  · split
    · rename_i o s' ht
      simpa using (take_err ht).2.2.2.2 site
    · rename_i bs s1 ht
      simp only []
      split
      · rename_i site' hd
        have := dispatch_not_panic s1.nAccept s1.nConnect (headerOfBytes (bs.getD 0 0) (bs.getD 1 0))
        rw [hd] at this; cases this
      · simp
      · split
        · simp
        · split <;> simp
  · split
    · rename_i o s' ht
      simpa using (take_err ht).2.2.2.2 site
    · simp
  · split
    · simp
    · simp only []
      split
      · simp
      · split
        · simp
        · split
          · rename_i o s' ht
            simpa using (take_err ht).2.2.2.2 site
          · simp

/-! ### termination: a potential that every non-final step decreases (for `read_frame_size > 0`) -/
def phasePot : Phase → Nat
  | .chunk _ 0 => 1
  | _ => 0

def pot (s : St) : Nat := 2 * s.input.length + phasePot s.phase

theorem phasePot_le (p : Phase) : phasePot p ≤ 1 := by
  unfold phasePot; split <;> omega

theorem step_cfg (s : St) : (step s).1.cfg = s.cfg := by
  unfold step
  split
  · split
    · rename_i o s' ht
      exact (take_err ht).1
    · rename_i bs s1 ht
      obtain ⟨c1, -⟩ := take_preserves ht
      simp only []
      split
      · exact c1
      · exact c1
      · split
        · exact c1
        · split
          · exact c1
          · rw [(deliver_cfg _ _ _).1]; exact c1
  · split
    · rename_i o s' ht
      exact (take_err ht).1
    · rename_i bs s1 ht
      obtain ⟨c1, -⟩ := take_preserves ht
      exact c1
  · split
    · rfl
    · simp only []
      split
      · rfl
      · split
        · rfl
        · split
          · rfl
          · rename_i bs s2 ht
            obtain ⟨c1, -⟩ := take_preserves ht
            rw [(deliver_cfg _ _ _).1]; exact c1

theorem step_pot' (s s' : St) (hr : 0 < s.cfg.readFrameSize) (h : step s = (s', none)) : pot s' < pot s := by
  unfold step at h
  split at h
  · -- header
    rename_i hp
    split at h
    · cases h
    · rename_i bs s1 ht
      obtain ⟨-, -, -, -, c5, c6, -⟩ := take_preserves ht
      simp only [] at h
      split at h
      · cases h
      · cases h
      · split at h
        · cases h
          unfold pot; simp only [phasePot, hp]; omega
        · split at h
          · cases h
          · cases h
            unfold pot
            rw [(deliver_cfg _ _ _).2.1, (deliver_cfg _ _ _).2.2]
            simp only [hp, c6, phasePot] ; omega
  · rename_i d hp
    split at h
    · cases h
    · rename_i bs s1 ht
      obtain ⟨-, -, -, -, c5, -⟩ := take_preserves ht
      cases h
      unfold pot
      have := phasePot_le (Phase.chunk d (headerOfBytes (bs.getD 0 0) (bs.getD 1 0)))
      have e0 : phasePot s.phase = 0 := by rw [hp]; rfl
      simp only [] at c5 ⊢
      omega
  · rename_i d remaining hp
    split at h
    · rename_i h0
      cases h
      subst h0
      unfold pot; simp only [hp, phasePot]; omega
    · rename_i h0
      simp only [] at h
      split at h
      · cases h
      · split at h
        · cases h
        · split at h
          · cases h
          · rename_i bs s2 ht
            obtain ⟨-, -, -, -, c5, -⟩ := take_preserves ht
            cases h
            unfold pot
            rw [(deliver_cfg _ _ _).2.1, (deliver_cfg _ _ _).2.2]
            have := phasePot_le (Phase.chunk d (remaining - min remaining s.cfg.readFrameSize))
            have hm : 0 < min remaining s.cfg.readFrameSize := by omega
            simp only [] at c5 ⊢
            have hp0 : phasePot s.phase ≤ 1 := phasePot_le _
            omega

theorem step_pot (s : St) (hr : 0 < s.cfg.readFrameSize) (hn : (step s).2 = none) : pot (step s).1 < pot s := by
  apply step_pot' s _ hr
  cases hs : step s with
  | mk a b => rw [hs] at hn; simp only [] at hn; subst hn; rfl

theorem run_terminates (fuel : Nat) : ∀ s : St, 0 < s.cfg.readFrameSize → pot s < fuel → (run fuel s).2 ≠ none := by
  induction fuel with
  | zero => intro s _ h; omega
  | succ fuel ih =>
    intro s hr hp
    unfold run
    cases hs : step s with
    | mk s' o =>
      cases o with
      | some o => simp
      | none =>
        simp only []
        have h1 : (step s).2 = none := by rw [hs]
        have h2 := step_pot s hr h1
        have h3 := step_cfg s
        rw [hs] at h2 h3
        simp only [] at h2 h3
        exact ih s' (by rw [h3]; exact hr) (by omega)

theorem run_inv (fuel : Nat) : ∀ s : St, Inv s → Inv (run fuel s).1 := by
  induction fuel with
  | zero => intro s h; exact h
  | succ fuel ih =>
    intro s hi
    unfold run
    have h1 := step_inv s hi
    cases hs : step s with
    | mk s' o =>
      rw [hs] at h1
      cases o with
      | some o => exact h1
      | none => exact ih s' h1

theorem run_no_panic (fuel : Nat) : ∀ (s : St) (site : String), (run fuel s).2 ≠ some (.panic site) := by
  induction fuel with
  | zero => intro s site; simp [run]
  | succ fuel ih =>
    intro s site
    unfold run
    have h1 := step_no_panic s site
    cases hs : step s with
    | mk s' o =>
      rw [hs] at h1
      cases o with
      | some o => simpa using h1
      | none => exact ih s' site

/-! ## DATA split -/
theorem dataSplit_spec (rfs : Nat) (hr : 0 < rfs) : ∀ (fuel length : Nat), length ≤ fuel →
    ∃ l, dataSplit rfs fuel length = some l ∧ l.sum = length ∧ (∀ x ∈ l, 0 < x ∧ x ≤ rfs) ∧ l.length ≤ length := by
  intro fuel
  induction fuel with
  | zero =>
    intro length h
    have : length = 0 := by omega
    subst this
    exact ⟨[], by simp [dataSplit]⟩
  | succ fuel ih =>
    intro length h
    cases length with
    | zero => exact ⟨[], by simp [dataSplit]⟩
    | succ n =>
      have hm : 0 < min (n + 1) rfs := by omega
      obtain ⟨l, h1, h2, h3, h4⟩ := ih (n + 1 - min (n + 1) rfs) (by omega)
      refine ⟨min (n + 1) rfs :: l, ?_, ?_, ?_, ?_⟩
      · simp [dataSplit, h1]
      · simp only [List.sum_cons, h2]; omega
      · intro x hx
        rcases List.mem_cons.mp hx with rfl | hx
        · exact ⟨hm, Nat.min_le_right _ _⟩
        · exact h3 x hx
      · simp only [List.length_cons]; omega

theorem dataSplit_zero (fuel length : Nat) : dataSplit 0 fuel (length + 1) = none := by
  induction fuel with
  | zero => rfl
  | succ fuel ih => simp [dataSplit, ih]

/-! ## spawn_streams -/
theorem saturatingSum_aux (xs : List Nat) : ∀ acc, acc ≤ U32_MAX →
    xs.foldl (fun x v => min (x + v) U32_MAX) acc = min (acc + xs.sum) U32_MAX := by
  induction xs with
  | nil => intro acc h; simp; omega
  | cons x xs ih =>
    intro acc h
    simp only [List.foldl_cons, List.sum_cons]
    rw [ih _ (Nat.min_le_right _ _)]
    omega

theorem saturatingSum_eq (xs : List Nat) : saturatingSum xs = min xs.sum U32_MAX := by
  unfold saturatingSum
  rw [saturatingSum_aux xs 0 (by decide)]
  simp

theorem spawnCount_le (queues peer : List (Nat × Nat)) : spawnCount queues peer ≤ (queues.map (·.2)).sum := by
  unfold spawnCount
  induction queues with
  | nil => simp
  | cons q qs ih =>
    simp only [List.map_cons, List.sum_cons]
    have := Nat.min_le_left q.2 (lookupCap peer q.1)
    omega

end EraVerif.Proofs.C10Mux
