import EraVerif.Proofs.RefineIPStep

/-!
# Refinement Layer I → Layer P, part 2: one validator with its history (no Mathlib)

`LInv cfg s h` ties the crash system `s = (replica, durable, sent)` of one correct validator to the ghost list `h` of
all durable states it ever wrote: `h` ends with the current durable state; the commit votes recorded in `h` are at
most one per view, all at or below the durable view, and the one of the durable view is the durable high vote;
every commit / timeout vote that left the node is recorded by some element of `h` (so the durable-but-unsent vote
is covered too: this is the strengthening of C03's invariant the abstraction needs); the live high commit
certificate is at or above the durable one.

`hstep_cases` : a step of the decorated crash system (`HStep`) either leaves `(durable, history)` unchanged, or
appends exactly one durable state `d'`, the durable part of the state after an accepted handler, of one of the three
`Kind`s. `lainv_step` : the invariant (with authenticity of all stored certificates) is preserved.
-/

namespace EraVerif.Proofs.RefineIP
open EraVerif.Model EraVerif.Proofs.ReplicaStep EraVerif.Proofs.Certs
open EraVerif.Proofs.Crash (dur Agree Trans MsgOk silent)

/-! ## `persists` -/

theorem persists_silent {l : List Effect} (h : ∀ x ∈ l, silent x = true) : persists l = [] := by
  induction l with
  | nil => rfl
  | cons x xs ih =>
    have hx := h x List.mem_cons_self
    have ht : ∀ y ∈ xs, silent y = true := fun y hy => h y (List.mem_cons_of_mem _ hy)
    cases x with
    | persist d => cases hx
    | send m => cases hx
    | notify j => simp only [persists]; exact ih ht
    | queueBlock a b c => simp only [persists]; exact ih ht

theorem persists_append (a b : List Effect) : persists (a ++ b) = persists a ++ persists b := by
  induction a with
  | nil => rfl
  | cons x xs ih => cases x <;> simp [persists, ih]

theorem persists_sends (ms : List Msg) : persists (ms.map Effect.send) = [] := by
  induction ms with
  | nil => rfl
  | cons m ms ih => simp [persists, ih]

theorem persists_shape {pre : List Effect} (d : Durable) (ms : List Msg) (h : ∀ x ∈ pre, silent x = true) :
    persists (pre ++ Effect.persist d :: ms.map Effect.send) = [d] := by
  rw [persists_append, persists_silent h]
  simp [persists, persists_sends]

/-! ## the invariant -/

structure LInv (cfg : RCfg) (s : Sys) (h : List Durable) : Prop where
  cinv : Crash.Inv s
  wf : Wf cfg s.r
  dwf : ∀ d, s.d = some d → DurableWf cfg d
  last : h.getLast? = s.d
  bound : ∀ d0 ∈ h, ∀ v, d0.highVote = some v → v.view.number ≤ (dur s).view ∧
    (v.view.number = (dur s).view → (dur s).phase ≠ .prepare ∧ (dur s).highVote = some v)
  uniq : ∀ d1 ∈ h, ∀ d2 ∈ h, ∀ v1 v2, d1.highVote = some v1 → d2.highVote = some v2 →
    v1.view.number = v2.view.number → v1 = v2
  sentC : ∀ v, Msg.commit v ∈ s.sent → ∃ d0 ∈ h, d0.highVote = some v
  sentT : ∀ t, Msg.timeout t ∈ s.sent → ∃ d0 ∈ h, d0.phase = .timeout ∧ d0.view = t.view.number ∧
    d0.highVote = t.highVote ∧ d0.highCommitQC = t.highQC
  qle : QLe (dur s).highCommitQC s.r.highCommitQC

theorem linv_init (cfg : RCfg) : LInv cfg Sys.init [] :=
  ⟨Crash.inv_init, wf_start_none cfg, (by intro d hd; cases hd), rfl, (by intro d0 hd; cases hd),
   (by intro d1 hd; cases hd), (by intro v hv; cases hv), (by intro t ht; cases ht), QLe.rfl' _⟩

/-- the durable high vote is recorded in the history -/
theorem LInv.dur_vote {cfg : RCfg} {s : Sys} {h : List Durable} (hI : LInv cfg s h) {v : Vote}
    (hv : (dur s).highVote = some v) : ∃ d0 ∈ h, d0.highVote = some v := by
  cases hd : s.d with
  | none =>
    simp [dur, hd, initDurable] at hv
  | some d =>
    have hl := hI.last
    rw [hd] at hl
    refine ⟨d, List.mem_of_getLast? hl, ?_⟩
    simpa [dur, hd] using hv

/-- how the durable `(view, phase, highVote)` may change in one write -/
def DKind (d d' : Durable) : Prop :=
  (d'.view = d.view ∧ d'.phase = .timeout ∧ d'.highVote = d.highVote) ∨
  (d.view < d'.view ∧ d'.phase = .prepare ∧ d'.highVote = d.highVote) ∨
  ((d.view < d'.view ∨ (d.view = d'.view ∧ d.phase = .prepare)) ∧ d'.phase = .commit ∧
    ∃ v, d'.highVote = some v ∧ v.view.number = d'.view)

theorem dkind_of_kind {cfg : RCfg} {r r' : Replica} {inp : Input} {d : Durable} (ha : Agree r.toDurable d)
    (k : Kind cfg r inp r') : DKind d r'.durable := by
  obtain ⟨a1, a2, a3⟩ := ha
  cases k with
  | tout h =>
    subst h
    exact Or.inl ⟨a1, rfl, a3⟩
  | adv hv hp hh =>
    refine Or.inr (Or.inl ⟨?_, hp, ?_⟩)
    · show d.view < r'.view
      rw [← a1]; exact hv
    · show r'.highVote = d.highVote
      rw [hh]; exact a3
  | vote p j key sigOk h hinp hver hcan hconf hview hphase hvote hhc =>
    refine Or.inr (Or.inr ⟨?_, hphase, propVote cfg j h, hvote, ?_⟩)
    · show d.view < r'.view ∨ (d.view = r'.view ∧ d.phase = .prepare)
      rw [hview, ← a1, ← a2]; exact hcan
    · show (propVote cfg j h).view.number = r'.view
      rw [hview]; exact just_view_number j

/-- an older recorded vote and the vote of the new durable state, if for the same view, are the same vote -/
theorem vote_vs_new {cfg : RCfg} {s : Sys} {h : List Durable} (hI : LInv cfg s h) {d' : Durable}
    (hk : DKind (dur s) d') {d1 : Durable} (h1 : d1 ∈ h) {v1 v2 : Vote} (hv1 : d1.highVote = some v1)
    (hv2 : d'.highVote = some v2) (he : v1.view.number = v2.view.number) : v1 = v2 := by
  have hb := hI.bound d1 h1 v1 hv1
  rcases hk with ⟨_, _, k3⟩ | ⟨_, _, k3⟩ | ⟨k1, _, v, k3, k4⟩
  · obtain ⟨d0, hd0, hv0⟩ := hI.dur_vote (k3 ▸ hv2)
    exact hI.uniq d1 h1 d0 hd0 v1 v2 hv1 hv0 he
  · obtain ⟨d0, hd0, hv0⟩ := hI.dur_vote (k3 ▸ hv2)
    exact hI.uniq d1 h1 d0 hd0 v1 v2 hv1 hv0 he
  · rw [k3] at hv2
    cases hv2
    rcases k1 with k1 | ⟨k1, k2⟩
    · omega
    · exact absurd k2 (hb.2 (by omega)).1

/-- **The invariant after a durable write.** -/
theorem linv_persist {cfg : RCfg} {s : Sys} {h : List Durable} (hI : LInv cfg s h) {d' : Durable} {r' : Replica}
    {ms : List Msg} (hk : DKind (dur s) d') (hm : ∀ m ∈ ms, MsgOk d' m)
    (ht : ∀ t, Msg.timeout t ∈ ms → t.highQC = d'.highCommitQC)
    (hc : Crash.Inv { r := r', d := some d', sent := s.sent ++ ms }) (hw : Wf cfg r') (hdw : DurableWf cfg d')
    (hq : QLe d'.highCommitQC r'.highCommitQC) :
    LInv cfg { r := r', d := some d', sent := s.sent ++ ms } (h ++ [d']) := by
  have hview : (dur s).view ≤ d'.view := by
    rcases hk with ⟨k, _⟩ | ⟨k, _⟩ | ⟨k | ⟨k, _⟩, _⟩ <;> omega
  -- the bound for votes recorded before
  have hold : ∀ d0 ∈ h, ∀ v, d0.highVote = some v → v.view.number ≤ d'.view ∧
      (v.view.number = d'.view → d'.phase ≠ .prepare ∧ d'.highVote = some v) := by
    intro d0 hd0 v hv
    have hb := hI.bound d0 hd0 v hv
    refine ⟨by omega, fun he => ?_⟩
    rcases hk with ⟨k1, k2, k3⟩ | ⟨k1, _, _⟩ | ⟨k1, _⟩
    · have := hb.2 (by omega)
      exact ⟨(by rw [k2]; intro hh; cases hh), (by rw [k3]; exact this.2)⟩
    · omega
    · rcases k1 with k1 | ⟨k1, k2⟩
      · omega
      · exact absurd k2 (hb.2 (by omega)).1
  have hnew : ∀ v, d'.highVote = some v → v.view.number ≤ d'.view ∧
      (v.view.number = d'.view → d'.phase ≠ .prepare ∧ d'.highVote = some v) := by
    intro v hv
    rcases hk with ⟨_, _, k3⟩ | ⟨_, _, k3⟩ | ⟨_, k2, v', k3, k4⟩
    · obtain ⟨d0, hd0, hv0⟩ := hI.dur_vote (k3 ▸ hv)
      exact hold d0 hd0 v hv0
    · obtain ⟨d0, hd0, hv0⟩ := hI.dur_vote (k3 ▸ hv)
      exact hold d0 hd0 v hv0
    · rw [k3] at hv
      cases hv
      exact ⟨by omega, fun _ => ⟨(by rw [k2]; intro hh; cases hh), k3⟩⟩
  refine ⟨hc, hw, ?_, ?_, ?_, ?_, ?_, ?_, hq⟩
  · intro d hd
    cases hd; exact hdw
  · simp
  · intro d0 hd0 v hv
    show v.view.number ≤ d'.view ∧ (v.view.number = d'.view → d'.phase ≠ .prepare ∧ d'.highVote = some v)
    rcases List.mem_append.mp hd0 with m0 | m0
    · exact hold d0 m0 v hv
    · have e0 : d0 = d' := by simpa using m0
      rw [e0] at hv
      exact hnew v hv
  · intro d1 hd1 d2 hd2 v1 v2 hv1 hv2 he
    rcases List.mem_append.mp hd1 with m1 | m1
    · rcases List.mem_append.mp hd2 with m2 | m2
      · exact hI.uniq d1 m1 d2 m2 v1 v2 hv1 hv2 he
      · have e2 : d2 = d' := by simpa using m2
        rw [e2] at hv2
        exact vote_vs_new hI hk m1 hv1 hv2 he
    · have e1 : d1 = d' := by simpa using m1
      rw [e1] at hv1
      rcases List.mem_append.mp hd2 with m2 | m2
      · exact (vote_vs_new hI hk m2 hv2 hv1 he.symm).symm
      · have e2 : d2 = d' := by simpa using m2
        rw [e2, hv1] at hv2
        exact Option.some.inj hv2
  · intro v hv
    have hv' : Msg.commit v ∈ s.sent ++ ms := hv
    rcases List.mem_append.mp hv' with hv' | hv'
    · obtain ⟨d0, hd0, h0⟩ := hI.sentC v hv'
      exact ⟨d0, List.mem_append_left _ hd0, h0⟩
    · exact ⟨d', by simp, (hm _ hv').2.1⟩
  · intro t htm
    have ht' : Msg.timeout t ∈ s.sent ++ ms := htm
    rcases List.mem_append.mp ht' with ht' | ht'
    · obtain ⟨d0, hd0, h0⟩ := hI.sentT t ht'
      exact ⟨d0, List.mem_append_left _ hd0, h0⟩
    · obtain ⟨m1, m2, m3⟩ := hm _ ht'
      exact ⟨d', by simp, m1, m2.symm, m3.symm, (ht t ht').symm⟩

/-- replacing the live replica only -/
theorem linv_set_r {cfg : RCfg} {s : Sys} {h : List Durable} (hI : LInv cfg s h) {r' : Replica}
    (hc : Crash.Inv { s with r := r' }) (hw : Wf cfg r') (hq : QLe (dur s).highCommitQC r'.highCommitQC) :
    LInv cfg { s with r := r' } h :=
  ⟨hc, hw, hI.dwf, hI.last, hI.bound, hI.uniq, hI.sentC, hI.sentT, hq⟩

/-! ## the invariant with authenticity, and its preservation -/

structure LAInv (cfg : RCfg) (sg : Sigs) (s : Sys) (h : List Durable) : Prop where
  linv : LInv cfg s h
  ra : RAuth sg s.r
  da : DAuth sg (dur s)

theorem lainv_init (cfg : RCfg) (sg : Sigs) : LAInv cfg sg Sys.init [] :=
  ⟨linv_init cfg, rauth_start_none sg, dauth_init sg⟩

theorem LAInv.mono {cfg : RCfg} {sg sg' : Sigs} (hc : ∀ i v, sg.c i v → sg'.c i v) (ht : ∀ i v, sg.t i v → sg'.t i v)
    {s : Sys} {h : List Durable} (hI : LAInv cfg sg s h) : LAInv cfg sg' s h :=
  ⟨hI.linv, hI.ra.mono hc ht, hI.da.mono hc ht⟩

theorem wf_start_of {cfg : RCfg} {d : Option Durable} (h : ∀ d0, d = some d0 → DurableWf cfg d0) :
    Wf cfg (Replica.start d) := by
  cases d with
  | none => exact wf_start_none cfg
  | some d0 => exact wf_start_some cfg d0 (h d0 rfl)

theorem rauth_start_of {sg : Sigs} {d : Option Durable} (h : DAuth sg (d.getD initDurable)) :
    RAuth sg (Replica.start d) := by
  cases d with
  | none => exact rauth_start_none sg
  | some d0 => exact rauth_start h

/-- what a step that writes the durable state looks like -/
structure Write (cfg : RCfg) (sg : Sigs) (s : Sys) (e : Env) (inp : Input) (pre : List Effect) (msgs : List Msg) :
    Prop where
  effs : (step cfg s.r e inp).effs = pre ++ Effect.persist (step cfg s.r e inp).r.durable :: msgs.map Effect.send
  pre : ∀ x ∈ pre, silent x = true
  acc : (step cfg s.r e inp).out = .accepted
  kind : Kind cfg s.r inp (step cfg s.r e inp).r
  msgOk : ∀ m ∈ msgs, MsgOk (step cfg s.r e inp).r.durable m
  toutQC : ∀ t, Msg.timeout t ∈ msgs → t.highQC = (step cfg s.r e inp).r.highCommitQC
  wf : Wf cfg (step cfg s.r e inp).r
  ra : RAuth sg (step cfg s.r e inp).r
  qle : QLe s.r.highCommitQC (step cfg s.r e inp).r.highCommitQC

/-- the effects of a step from an invariant state: nothing durable, or exactly one durable write -/
theorem step_write_cases {cfg : RCfg} {sg : Sigs} {s : Sys} {h : List Durable} (hI : LAInv cfg sg s h) (e : Env)
    {inp : Input} (hin : ∀ b, inp ≠ .restart b) (hok : InputOk inp) (hia : InpAuth sg inp) :
    (∀ x ∈ (step cfg s.r e inp).effs, silent x = true) ∨ ∃ pre msgs, Write cfg sg s e inp pre msgs := by
  have hsum := step_sum (cfg := cfg) e hI.linv.wf hI.ra hin hok hia
  rcases Crash.step_shape cfg s.r e inp with ⟨h1, _⟩ | ⟨pre, d', msgs, h1, h2, _, h4, _, _⟩
  · exact Or.inl h1
  · have hmem : Effect.persist d' ∈ (step cfg s.r e inp).effs := by rw [h1]; simp
    rcases step_wf hI.linv.wf e inp hin with ⟨w, hr⟩ | ⟨_, hq⟩ | ⟨hacc, ha⟩
    · rw [(step_rejected hr).2] at hmem
      cases hmem
    · exact absurd hmem (hq.no_persist d')
    · have hd : d' = (step cfg s.r e inp).r.durable := ha.persist d' hmem
      subst hd
      refine Or.inr ⟨pre, msgs, h1, h2, hacc, hsum.kind _ hmem, h4, ?_, ha.wf, hsum.auth, hsum.qle⟩
      intro t htm
      have : Effect.send (Msg.timeout t) ∈ (step cfg s.r e inp).effs := by
        rw [h1]
        simp only [List.mem_append, List.mem_cons, List.mem_map]
        exact Or.inr (Or.inr ⟨_, htm, rfl⟩)
      rw [ha.timeout t this]
      rfl

/-- the state of the validator after the write and the broadcast of `ms` (a prefix of the step's messages) -/
theorem lainv_after_write {cfg : RCfg} {sg : Sigs} {s : Sys} {h : List Durable} (hI : LAInv cfg sg s h) {e : Env}
    {inp : Input} {pre : List Effect} {msgs : List Msg} (w : Write cfg sg s e inp pre msgs) {r' : Replica}
    {ms : List Msg} (hms : ∀ m ∈ ms, m ∈ msgs)
    (hc : Crash.Inv { r := r', d := some (step cfg s.r e inp).r.durable, sent := s.sent ++ ms })
    (hr : r' = (step cfg s.r e inp).r ∨ r' = Replica.start (some (step cfg s.r e inp).r.durable)) :
    LAInv cfg sg { r := r', d := some (step cfg s.r e inp).r.durable, sent := s.sent ++ ms }
      (h ++ [(step cfg s.r e inp).r.durable]) := by
  have hdw : DurableWf cfg (step cfg s.r e inp).r.durable := w.wf.durable
  have hda : DAuth sg (step cfg s.r e inp).r.durable := w.ra.durable
  have hk := dkind_of_kind hI.linv.cinv.agree w.kind
  rcases hr with rfl | rfl
  · exact ⟨linv_persist hI.linv hk (fun m hm => w.msgOk m (hms m hm)) (fun t ht => w.toutQC t (hms _ ht)) hc w.wf hdw
      (QLe.rfl' _), w.ra, hda⟩
  · exact ⟨linv_persist hI.linv hk (fun m hm => w.msgOk m (hms m hm)) (fun t ht => w.toutQC t (hms _ ht)) hc
      (wf_start_some cfg _ hdw) hdw (QLe.rfl' _), rauth_start hda, hda⟩

/-- **A step of one validator.** Either `(durable, history)` is unchanged, or exactly one durable state — the
durable part of the state after an accepted handler, of one of the three kinds — was written and appended. In both
cases the invariant holds again. -/
theorem hstep_cases {cfg : RCfg} {sg : Sigs} {ok : Signed → Prop} {s s' : Sys} {h h' : List Durable}
    (hI : LAInv cfg sg s h) (hokA : ∀ m, ok m → InpAuth sg (.msg m)) (hs : HStep cfg ok (s, h) (s', h')) :
    LAInv cfg sg s' h' ∧
    ((s'.d = s.d ∧ h' = h ∧ ∀ m ∈ s.sent, m ∈ s'.sent) ∨
     ∃ e inp pre msgs, (∀ b, inp ≠ .restart b) ∧ InputOk2 inp ∧ InpAuth sg inp ∧ Write cfg sg s e inp pre msgs ∧
       s'.d = some (step cfg s.r e inp).r.durable ∧ h' = h ++ [(step cfg s.r e inp).r.durable] ∧
       ∀ m ∈ s.sent, m ∈ s'.sent) := by
  have hsys : SysStep cfg s s' := hs.sysStep
  have hcinv : Crash.Inv s' := Crash.inv_step hI.linv.cinv hsys
  have hauth : ∀ inp, (∀ m, inp = Input.msg m → ok m) → InpAuth sg inp := by
    intro inp hm
    cases inp with
    | msg m => exact hokA m (hm m rfl)
    | tick => trivial
    | restart b => trivial
  clear hsys
  generalize hab : (s, h) = a at hs
  generalize hab' : (s', h') = b at hs
  cases hs with
  | run s0 h0 e inp hin hok hok2 hau hout =>
    cases hab
    simp only [Prod.mk.injEq] at hab'
    obtain ⟨rfl, rfl⟩ := hab'
    have hia := hauth inp hau
    rcases step_write_cases hI e hin hok hia with hsil | ⟨pre, msgs, w⟩
    · -- nothing durable, nothing sent
      have hsum := step_sum (cfg := cfg) e hI.linv.wf hI.ra hin hok hia
      have hwf : Wf cfg (step cfg s.r e inp).r := by
        rcases hout with hacc | ⟨w, hr⟩
        · rcases step_wf hI.linv.wf e inp hin with ⟨w, hr⟩ | ⟨hb, _⟩ | ⟨_, ha⟩
          · rw [hr] at hacc; cases hacc
          · rw [hb] at hacc; cases hacc
          · exact ha.wf
        · rw [(step_rejected hr).1]; exact hI.linv.wf
      have e1 : applyEffs { s with r := (step cfg s.r e inp).r } (step cfg s.r e inp).effs =
          { s with r := (step cfg s.r e inp).r } := Crash.applyEffs_silent _ _ hsil
      have e2 : h ++ persists (step cfg s.r e inp).effs = h := by rw [persists_silent hsil, List.append_nil]
      rw [e1] at hcinv
      rw [e1, e2]
      exact ⟨⟨linv_set_r hI.linv hcinv hwf (hI.linv.qle.trans hsum.qle), hsum.auth, hI.da⟩,
        Or.inl ⟨rfl, rfl, fun m hm => hm⟩⟩
    · have e1 : applyEffs { s with r := (step cfg s.r e inp).r } (step cfg s.r e inp).effs =
          { r := (step cfg s.r e inp).r, d := some (step cfg s.r e inp).r.durable, sent := s.sent ++ msgs } := by
        rw [w.effs]
        exact Crash.applyEffs_shape { s with r := (step cfg s.r e inp).r } pre _ msgs w.pre
      have e2 : h ++ persists (step cfg s.r e inp).effs = h ++ [(step cfg s.r e inp).r.durable] := by
        rw [w.effs, persists_shape _ _ w.pre]
      rw [e1] at hcinv
      rw [e1, e2]
      exact ⟨lainv_after_write hI w (fun m hm => hm) hcinv (Or.inl rfl),
        Or.inr ⟨e, inp, pre, msgs, hin, hok2, hia, w, rfl, rfl, fun m hm => List.mem_append_left _ hm⟩⟩
  | crash s0 h0 e inp hin hok hok2 hau k =>
    cases hab
    simp only [Prod.mk.injEq] at hab'
    obtain ⟨rfl, rfl⟩ := hab'
    have hia := hauth inp hau
    have hquiet : (∀ x ∈ (step cfg s.r e inp).effs.take k, silent x = true) →
        LAInv cfg sg { applyEffs s ((step cfg s.r e inp).effs.take k) with
            r := Replica.start (applyEffs s ((step cfg s.r e inp).effs.take k)).d }
          (h ++ persists ((step cfg s.r e inp).effs.take k)) ∧
        (({ applyEffs s ((step cfg s.r e inp).effs.take k) with
            r := Replica.start (applyEffs s ((step cfg s.r e inp).effs.take k)).d } : Sys).d = s.d ∧
          h ++ persists ((step cfg s.r e inp).effs.take k) = h ∧
          ∀ m ∈ s.sent, m ∈ ({ applyEffs s ((step cfg s.r e inp).effs.take k) with
            r := Replica.start (applyEffs s ((step cfg s.r e inp).effs.take k)).d } : Sys).sent) := by
      intro hl
      have e1 : applyEffs s ((step cfg s.r e inp).effs.take k) = s := Crash.applyEffs_silent _ _ hl
      have e2 : h ++ persists ((step cfg s.r e inp).effs.take k) = h := by
        rw [persists_silent hl, List.append_nil]
      rw [e1] at hcinv
      rw [e1, e2]
      exact ⟨⟨linv_set_r hI.linv hcinv (wf_start_of hI.linv.dwf) (QLe.rfl' _), rauth_start_of hI.da, hI.da⟩, rfl, rfl,
        fun m hm => hm⟩
    rcases step_write_cases hI e hin hok hia with hsil | ⟨pre, msgs, w⟩
    · obtain ⟨h1, h2, h3, h4⟩ := hquiet (fun x hx => hsil x (List.mem_of_mem_take hx))
      exact ⟨h1, Or.inl ⟨h2, h3, h4⟩⟩
    · rcases Crash.take_shape pre (step cfg s.r e inp).r.durable msgs k w.pre with hsil | ⟨j, hj⟩
      · rw [← w.effs] at hsil
        obtain ⟨h1, h2, h3, h4⟩ := hquiet hsil
        exact ⟨h1, Or.inl ⟨h2, h3, h4⟩⟩
      · rw [← w.effs] at hj
        have e1 : applyEffs s ((step cfg s.r e inp).effs.take k) =
            { s with d := some (step cfg s.r e inp).r.durable, sent := s.sent ++ msgs.take j } := by
          rw [hj]
          exact Crash.applyEffs_shape s pre _ (msgs.take j) w.pre
        have e2 : h ++ persists ((step cfg s.r e inp).effs.take k) = h ++ [(step cfg s.r e inp).r.durable] := by
          rw [hj, persists_shape _ _ w.pre]
        rw [e1] at hcinv
        rw [e1, e2]
        exact ⟨lainv_after_write hI w (fun m hm => List.mem_of_mem_take hm) hcinv (Or.inr rfl),
          Or.inr ⟨e, inp, pre, msgs, hin, hok2, hia, w, rfl, rfl, fun m hm => List.mem_append_left _ hm⟩⟩
  | restart s0 h0 =>
    cases hab
    simp only [Prod.mk.injEq] at hab'
    obtain ⟨rfl, rfl⟩ := hab'
    exact ⟨⟨linv_set_r hI.linv hcinv (wf_start_of hI.linv.dwf) (QLe.rfl' _), rauth_start_of hI.da, hI.da⟩,
      Or.inl ⟨rfl, rfl, fun m hm => hm⟩⟩

end EraVerif.Proofs.RefineIP
