import EraVerif.Model.Epoch

/-!
Helper lemmas for `Props/Epoch.lean`, part (a): the epoch schedule map (`schedOf`, `insert`, `setExp`, `prune`,
`epochForBlock`) and the shape of every map the schedule task can build (`Chain`).
-/

namespace EraVerif.Proofs.Epoch
open EraVerif.Model.Epoch

/-- keys strictly ascending (what a `BTreeMap` iteration yields) -/
def Sorted (s : Sched) : Prop := s.Pairwise (fun a b => a.1 < b.1)

theorem get_mem {s : Sched} {e : Nat} {l : Life} (h : schedOf s e = some l) : (e, l) ∈ s := by
  induction s with
  | nil => simp [schedOf] at h
  | cons p t ih =>
    obtain ⟨k, v⟩ := p
    simp only [schedOf] at h
    by_cases hk : k = e
    · simp [hk] at h; subst hk; subst h; simp
    · simp [hk] at h; exact List.mem_cons_of_mem _ (ih h)

theorem get_of_mem {s : Sched} (hs : Sorted s) {e : Nat} {l : Life} (h : (e, l) ∈ s) : schedOf s e = some l := by
  induction s with
  | nil => simp at h
  | cons p t ih =>
    obtain ⟨k, v⟩ := p
    have hs' := List.pairwise_cons.mp hs
    simp only [schedOf]
    rcases List.mem_cons.mp h with h | h
    · cases h; simp
    · have : k < e := hs'.1 _ h
      have hk : k ≠ e := by omega
      simp [hk]; exact ih hs'.2 h

theorem epochForBlock_some {s : Sched} {n e : Nat} (h : epochForBlock s n = some e) :
    ∃ l, (e, l) ∈ s ∧ covers l n = true := by
  induction s with
  | nil => simp [epochForBlock] at h
  | cons p t ih =>
    obtain ⟨k, v⟩ := p
    simp only [epochForBlock] at h
    by_cases hc : covers v n = true
    · simp [hc] at h; subst h; exact ⟨v, by simp, hc⟩
    · simp [hc] at h
      obtain ⟨l, hl, hcl⟩ := ih h
      exact ⟨l, List.mem_cons_of_mem _ hl, hcl⟩

theorem covers_iff (l : Life) (n : Nat) :
    covers l n = true ↔ l.act ≤ n ∧ (l.exp = none ∨ ∃ x, l.exp = some x ∧ n ≤ x) := by
  unfold covers
  cases h : l.exp with
  | none => simp
  | some x => simp

/-- no two different epochs of the map cover a common block number -/
def Disjoint (s : Sched) : Prop :=
  ∀ p ∈ s, ∀ q ∈ s, p.1 ≠ q.1 → ∀ n, ¬ (covers p.2 n = true ∧ covers q.2 n = true)

theorem epochForBlock_of_covers {s : Sched} (hd : Disjoint s) (hs : Sorted s) {e : Nat} {l : Life} {n : Nat}
    (hm : (e, l) ∈ s) (hc : covers l n = true) : epochForBlock s n = some e := by
  induction s with
  | nil => simp at hm
  | cons p t ih =>
    obtain ⟨k, v⟩ := p
    have hs' := List.pairwise_cons.mp hs
    simp only [epochForBlock]
    rcases List.mem_cons.mp hm with h | h
    · cases h; simp [hc]
    · have hk : k < e := hs'.1 _ h
      have hv : ¬ covers v n = true := by
        intro hv
        exact hd (k, v) (by simp) (e, l) (List.mem_cons_of_mem _ h) (by simp; omega) n ⟨hv, hc⟩
      simp [hv]
      apply ih _ hs'.2 h
      intro p hp q hq
      exact hd p (List.mem_cons_of_mem _ hp) q (List.mem_cons_of_mem _ hq)

/-! ### the maps the schedule task builds -/

/-- consecutive epochs, strictly increasing activations, each expiration = next activation - 1, last one open -/
def Chain : Sched → Prop
  | [] => True
  | [(_, l)] => l.exp = none
  | (k1, l1) :: (k2, l2) :: t =>
    k2 = k1 + 1 ∧ l1.act < l2.act ∧ l1.exp = some (l2.act - 1) ∧ Chain ((k2, l2) :: t)

theorem Chain.tail {p : Nat × Life} {t : Sched} (h : Chain (p :: t)) : Chain t := by
  cases t with
  | nil => trivial
  | cons q t => obtain ⟨k1, l1⟩ := p; obtain ⟨k2, l2⟩ := q; exact h.2.2.2

/-- in a chain every later entry has a larger key and a larger activation than the head -/
theorem Chain.head_lt {k : Nat} {l : Life} {t : Sched} (h : Chain ((k, l) :: t)) :
    ∀ q ∈ t, k < q.1 ∧ l.act < q.2.act := by
  induction t generalizing k l with
  | nil => simp
  | cons q t ih =>
    obtain ⟨k2, l2⟩ := q
    obtain ⟨h1, h2, _, h4⟩ := h
    intro r hr
    rcases List.mem_cons.mp hr with hr | hr
    · subst hr; exact ⟨by simp; omega, by simpa using h2⟩
    · have := ih h4 r hr
      exact ⟨by omega, by omega⟩

theorem Chain.sorted {s : Sched} (h : Chain s) : Sorted s := by
  induction s with
  | nil => exact List.Pairwise.nil
  | cons p t ih =>
    obtain ⟨k, l⟩ := p
    exact List.pairwise_cons.mpr ⟨fun q hq => (h.head_lt q hq).1, ih h.tail⟩

/-- in a chain, the head's range ends before any later activation -/
theorem Chain.head_exp {k : Nat} {l : Life} {q : Nat × Life} {t : Sched} (h : Chain ((k, l) :: q :: t)) :
    ∃ x, l.exp = some x ∧ ∀ r ∈ q :: t, x < r.2.act := by
  obtain ⟨k2, l2⟩ := q
  obtain ⟨_, h2, h3, h4⟩ := h
  refine ⟨l2.act - 1, h3, ?_⟩
  intro r hr
  rcases List.mem_cons.mp hr with hr | hr
  · subst hr; simp; omega
  · have := (h4.head_lt r hr).2; omega

theorem Chain.disjoint {s : Sched} (h : Chain s) : Disjoint s := by
  induction s with
  | nil => intro p hp; simp at hp
  | cons a t ih =>
    obtain ⟨k, l⟩ := a
    have iht := ih h.tail
    -- the head against any later entry
    have key : ∀ r ∈ t, ∀ n, ¬ (covers l n = true ∧ covers r.2 n = true) := by
      intro r hr n ⟨hc1, hc2⟩
      cases t with
      | nil => simp at hr
      | cons q t' =>
        obtain ⟨x, hx, hlt⟩ := h.head_exp
        have := hlt r hr
        rw [covers_iff] at hc1 hc2
        rcases hc1.2 with h0 | ⟨y, hy, hny⟩
        · rw [hx] at h0; cases h0
        · rw [hx] at hy; cases hy; omega
    intro p hp q hq hne n hcc
    rcases List.mem_cons.mp hp with hp | hp <;> rcases List.mem_cons.mp hq with hq | hq
    · subst hp; subst hq; exact hne rfl
    · subst hp; exact key q hq n hcc
    · subst hq; exact key p hp n ⟨hcc.2, hcc.1⟩
    · exact iht p hp q hq hne n hcc

theorem lastEntry_append (s : Sched) (p : Nat × Life) : lastEntry (s ++ [p]) = some p := by
  induction s with
  | nil => rfl
  | cons a t ih =>
    cases t with
    | nil => simp [lastEntry]
    | cons b t' => simpa [lastEntry] using ih

/-- every non-empty map is `init ++ [last]` -/
theorem lastEntry_some {s : Sched} {p : Nat × Life} (h : lastEntry s = some p) : ∃ i, s = i ++ [p] := by
  induction s with
  | nil => simp [lastEntry] at h
  | cons a t ih =>
    cases t with
    | nil => simp [lastEntry] at h; subst h; exact ⟨[], rfl⟩
    | cons b t' =>
      simp only [lastEntry] at h
      obtain ⟨i, hi⟩ := ih h
      exact ⟨a :: i, by rw [hi]; rfl⟩

/-- inserting a key above all keys appends -/
theorem insert_append {i : Sched} {k : Nat} {l l' : Life} (hs : Sorted (i ++ [(k, l)])) :
    schedInsert (i ++ [(k, l)]) (k + 1) l' = i ++ [(k, l), (k + 1, l')] := by
  induction i with
  | nil => simp [schedInsert]
  | cons a t ih =>
    obtain ⟨ka, va⟩ := a
    have hs' := List.pairwise_cons.mp hs
    have : ka < k := by
      have := hs'.1 (k, l) (by simp)
      simpa using this
    have h1 : ¬ (k + 1 < ka) := by omega
    have h2 : ¬ (k + 1 = ka) := by omega
    simp only [List.cons_append, schedInsert, h1, h2, if_false]
    rw [ih hs'.2]

theorem get_append_last {i : Sched} {k : Nat} {l : Life} {t : Sched} (hs : Sorted (i ++ (k, l) :: t)) :
    schedOf (i ++ (k, l) :: t) k = some l := by
  apply get_of_mem hs; simp

theorem setExp_append {i : Sched} {k : Nat} {l : Life} {t : Sched} {x : Nat} (hs : Sorted (i ++ (k, l) :: t)) :
    setExp (i ++ (k, l) :: t) k x = i ++ (k, { l with exp := some x }) :: t := by
  induction i with
  | nil => simp [setExp]
  | cons a i' ih =>
    obtain ⟨ka, va⟩ := a
    have hs' := List.pairwise_cons.mp hs
    have : ka < k := by
      have := hs'.1 (k, l) (by simp)
      simpa using this
    have h1 : ¬ (ka = k) := by omega
    simp only [List.cons_append, setExp, h1, if_false]
    rw [ih hs'.2]

/-- appending a new open epoch to a chain and closing the previous one keeps it a chain -/
theorem Chain.extend {i : Sched} {k : Nat} {l : Life} {pact pcom : Nat}
    (h : Chain (i ++ [(k, l)])) (hlt : l.act < pact) :
    Chain (i ++ [(k, { l with exp := some (pact - 1) }), (k + 1, { act := pact, exp := none, com := pcom })]) := by
  induction i with
  | nil => exact ⟨rfl, hlt, rfl, rfl⟩
  | cons a t ih =>
    obtain ⟨ka, va⟩ := a
    cases t with
    | nil =>
      obtain ⟨h1, h2, h3, h4⟩ := h
      exact ⟨h1, h2, h3, ih h4⟩
    | cons b t' =>
      obtain ⟨kb, vb⟩ := b
      obtain ⟨h1, h2, h3, h4⟩ := h
      exact ⟨h1, h2, h3, ih h4⟩

theorem prune_chain {s : Sched} (h : Chain s) (head : Nat) : Chain (prune s head) := by
  unfold prune
  split
  · split
    · exact h.tail
    · exact h
  · exact h

theorem lastEntry_prune {s : Sched} {p : Nat × Life} (h : lastEntry s = some p) (head : Nat) :
    lastEntry (prune s head) = some p := by
  unfold prune
  split
  · split
    · simpa [lastEntry] using h
    · exact h
  · exact h

/-- The shape invariant of the schedule task: the map is a chain and `cur_epoch` is its last key. -/
structure RunnerInv (r : Runner) : Prop where
  chain : Chain r.sched
  last : ∃ l, lastEntry r.sched = some (r.cur, l)

theorem runnerInit_inv (last : LastKind) (act com : Nat) : RunnerInv (runnerInit [] last act com) :=
  ⟨rfl, ⟨_, rfl⟩⟩

/-- A poll keeps the shape, provided a pending schedule activates after the head it was asked at. -/
theorem runnerPoll_inv {r : Runner} (hr : RunnerInv r) (head : Nat) (pending : Option (Nat × Nat))
    (hfuture : ∀ pact pcom, pending = some (pact, pcom) → head < pact) :
    ∃ r' asked, runnerPoll r head pending = .ok r' asked ∧ RunnerInv r' := by
  obtain ⟨l, hl⟩ := hr.last
  obtain ⟨i, hi⟩ := lastEntry_some hl
  unfold runnerPoll
  rw [hl]
  simp only
  by_cases hh : head > l.act
  · simp only [hh, if_true]
    cases pending with
    | none => exact ⟨r, true, rfl, hr⟩
    | some pc =>
      obtain ⟨pact, pcom⟩ := pc
      have hf := hfuture pact pcom rfl
      have hchain := hr.chain
      rw [hi] at hchain
      have hsorted := hchain.sorted
      simp only
      rw [hi, insert_append hsorted]
      have hs2 : Sorted (i ++ (r.cur, l) :: [(r.cur + 1, ({ act := pact, exp := none, com := pcom } : Life))]) := by
        have := (Chain.extend (pcom := pcom) hchain (show l.act < pact by omega)).sorted
        -- same keys as the extended chain
        unfold Sorted at this ⊢
        rw [List.pairwise_append] at this ⊢
        refine ⟨this.1, ?_, ?_⟩
        · have h2 := this.2.1
          simp only [List.pairwise_cons] at h2 ⊢
          simp
        · intro a ha b hb
          have := this.2.2 a ha
          simp only [List.mem_cons, List.not_mem_nil, or_false] at hb
          rcases hb with hb | hb
          · subst hb; simpa using this (r.cur, { l with exp := some (pact - 1) }) (by simp)
          · subst hb; simpa using this (r.cur + 1, { act := pact, exp := none, com := pcom }) (by simp)
      rw [get_append_last hs2]
      simp only
      cases hp : pact with
      | zero => omega
      | succ k =>
        simp only
        subst hp
        rw [setExp_append hs2]
        have hext := Chain.extend (pcom := pcom) hchain (show l.act < k + 1 by omega)
        simp only [Nat.add_sub_cancel] at hext
        refine ⟨_, true, rfl, ⟨prune_chain hext head, ⟨{ act := k + 1, exp := none, com := pcom }, ?_⟩⟩⟩
        apply lastEntry_prune
        have : i ++ [(r.cur, ({ l with exp := some k } : Life)), (r.cur + 1, { act := k + 1, exp := none, com := pcom })]
            = (i ++ [(r.cur, ({ l with exp := some k } : Life))]) ++ [(r.cur + 1, { act := k + 1, exp := none, com := pcom })] := by
          simp
        rw [this, lastEntry_append]
  · simp only [hh, if_false]
    exact ⟨r, false, rfl, hr⟩

end EraVerif.Proofs.Epoch
