import EraVerif.Proofs.SyncProgressRound
import EraVerif.Props.C02d

/-!
# C06s, part 6: the block the correct leader proposes is new

Let every correct validator be in `prepare` of view `W + 1` and let `j` be the justification (for view `W + 1`) the
leader proposes from. With the Layer-P safety theory (`Proofs/SafetyCore.lean`) through the refinement
(`Proofs/RefineIP.lean`): the implied block `(k, hash?)` is `Safe` in the abstraction of the state, so **every**
block certified so far (every verifying authentic commit certificate, held by anybody, also by the adversary) has a
number `≤ k`, and if it has number `k` then it is the very block being re-proposed. For a fresh proposal
(`get_implied_block` returns no hash) the number is strictly below `k`: the proposed block is new.
-/

namespace EraVerif.Proofs.Sync
open EraVerif.Model EraVerif.Proofs.ReplicaStep EraVerif.Proofs.Progress EraVerif.Proofs.RefineIP
open EraVerif.Proofs.Certs EraVerif.Safety EraVerif.Refine

section
variable {cfg : RCfg} {byz : Finset (Fin cfg.c.n)} {E : Fin cfg.c.n → Env} {C : List (Fin cfg.c.n)}

/-- the block implied by a verifying authentic justification is `Safe` in the abstraction of a reachable state -/
theorem implied_safe (S : Setup cfg byz E C) {g : Global cfg} (hr : GReach cfg (Byz byz) g) {j : Just}
    (hjv : j.verify cfg.c = true) (hja : AuthJust (sigsOf (Byz byz) g) j) (hjw : JustNoWrap j) (h' : Nat)
    (hconf : ∀ hh, (j.impliedBlock cfg.c).2 = some hh → h' = hh) :
    Safe (wF cfg.c) byz (absG g).st (certView j + 1) (j.impliedBlock cfg.c).1 h' := by
  obtain ⟨hG, hP⟩ := Props.C01r.reach_inv S.total hr
  have hn : 1 ≤ total (wF cfg.c) := by rw [total_wF]; exact S.total
  have hb : wt (wF cfg.c) byz ≤ faulty (wF cfg.c) := by rw [faulty_wF]; exact S.byzw
  have hI := inv_reachable hn hb hP
  cases j with
  | commit q =>
    have hc := cert_of_qc hG hjv hja
    have := safe_of_commit_cert (wF cfg.c) byz (absG g).st hn hb hI.i1 _ _ _ hc h'
    rw [Props.C02d.implied_commit cfg.c q hjw.2]
    exact this
  | timeout t =>
    exact Props.C02d.implied_block_safe cfg.c t S.total hjv hjw.2 byz (absG g).st hb hI.i1 hI.i2 hI.i4 hI.i6 hI.i8
      (tqc_valid hG hjv hja) h' hconf

/-- **The proposed block is new.** In a state where all correct validators are in `prepare` of one view, let `j` be a
verifying authentic justification whose certificate is for the preceding view (the justification every correct validator
holds after a timeout round). Every verifying authentic commit certificate `q0` that exists is for a block number
`≤` the implied one; if for the same number, then for the very block (number and payload) being re-proposed — which
can only happen for a re-proposal: for a fresh proposal the implied number is strictly above. -/
theorem implied_block_new (S : Setup cfg byz E C) {g : Global cfg} (hst : Stage byz E g) {W : Nat}
    (hview : ∀ i ∈ C, (g.sys i).r.view = W + 1) (hphase : ∀ i ∈ C, (g.sys i).r.phase = .prepare) {j : Just}
    (hjv : j.verify cfg.c = true) (hja : AuthJust (sigsOf (Byz byz) g) j) (hjw : JustNoWrap j)
    (hcv : certView j = W) {q0 : CommitQC} (hv0 : q0.verify cfg.c = true) (ha0 : AuthCQC (sigsOf (Byz byz) g) q0) :
    q0.message.proposal.number ≤ (j.impliedBlock cfg.c).1 ∧
    (∀ hh, (j.impliedBlock cfg.c).2 = some hh → (j.impliedBlock cfg.c).1 = q0.message.proposal.number →
      hh = q0.message.proposal.payload) ∧
    ((j.impliedBlock cfg.c).2 = none → q0.message.proposal.number < (j.impliedBlock cfg.c).1) := by
  have hG := hst.ginv S.total
  have hlt : q0.message.view.number < certView j + 1 := by
    rw [hcv]
    exact (S.certs_lt hst hview hphase).1 q0 hv0 ha0
  have hc0 := cert_of_qc hG hv0 ha0
  have hch : Choosable (wF cfg.c) byz (absG g).st q0.message.view.number q0.message.proposal.number
      q0.message.proposal.payload := by
    obtain ⟨A, hA, hAv⟩ := hc0
    exact ⟨A, hA, fun i hi hib => Or.inl (hAv i hi hib)⟩
  cases hoh : (j.impliedBlock cfg.c).2 with
  | some hh =>
    have hs := implied_safe S hst.reach hjv hja hjw hh (by intro x hx; rw [hoh] at hx; cases hx; rfl)
    obtain ⟨h1, h2⟩ := hs _ hlt _ _ hch
    refine ⟨h1, ?_, (by intro h; cases h)⟩
    intro x hx he
    cases hx
    exact h2 he
  | none =>
    have hs0 := implied_safe S hst.reach hjv hja hjw 0 (by intro x hx; rw [hoh] at hx; cases hx)
    have hs1 := implied_safe S hst.reach hjv hja hjw 1 (by intro x hx; rw [hoh] at hx; cases hx)
    obtain ⟨h1, h2⟩ := hs0 _ hlt _ _ hch
    obtain ⟨_, h3⟩ := hs1 _ hlt _ _ hch
    have hne : (j.impliedBlock cfg.c).1 ≠ q0.message.proposal.number := by
      intro he
      have a := h2 he
      have b := h3 he
      omega
    exact ⟨h1, (by intro x hx; cases hx), fun _ => by omega⟩

end

end EraVerif.Proofs.Sync
