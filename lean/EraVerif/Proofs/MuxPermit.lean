import EraVerif.Proofs.Mux

/-! # C14: the read permits are conserved (`count_sem`, `size_sem`) -/

namespace EraVerif.Proofs.Mux
open EraVerif.Model.Mux EraVerif.Gen.MuxConst

attribute [local simp] State.upd State.release State.releaseOpt State.emit State.setSlot State.log State.enqueue
  handover finishRead

/-- the frames stream `k` holds: the cached one (if any) and the queued ones -/
def frames (t : StreamSt) : List RFrame := t.cache.toList ++ t.queue

def cntOf (t : StreamSt) : Nat := (frames t).length
def szOf (t : StreamSt) : Nat := ((frames t).map (·.size)).sum
def bytesOf (t : StreamSt) : Nat := ((frames t).map (·.data.length)).sum

def sumK (ks : List Key) (g : StreamSt → Nat) (st : Key → StreamSt) : Nat := (ks.map (fun k => g (st k))).sum

theorem sumK_congr {ks : List Key} {g : StreamSt → Nat} {st st' : Key → StreamSt}
    (h : ∀ k, g (st' k) = g (st k)) : sumK ks g st' = sumK ks g st := by
  unfold sumK; congr 1; apply List.map_congr_left; intro k _; exact h k

theorem le_sumK {ks : List Key} {g : StreamSt → Nat} {st : Key → StreamSt} {k : Key} (hm : k ∈ ks) :
    g (st k) ≤ sumK ks g st := by
  unfold sumK
  induction ks with
  | nil => cases hm
  | cons a ks ih =>
    simp only [List.map_cons, List.sum_cons]
    rcases List.mem_cons.mp hm with rfl | hm
    · omega
    · have := ih hm; omega

theorem sumK_ite {ks : List Key} {g : StreamSt → Nat} {st : Key → StreamSt} {k : Key} {v : StreamSt}
    (hnd : ks.Nodup) (hm : k ∈ ks) :
    sumK ks g (fun k' => if k' = k then v else st k') + g (st k) = sumK ks g st + g v := by
  unfold sumK
  induction ks with
  | nil => cases hm
  | cons a ks ih =>
    simp only [List.map_cons, List.sum_cons]
    obtain ⟨ha, hnd'⟩ := List.nodup_cons.mp hnd
    rcases List.mem_cons.mp hm with rfl | hm
    · have : (ks.map fun k' => g (if k' = k then v else st k')) = ks.map fun k' => g (st k') := by
        apply List.map_congr_left; intro k' hk'
        have : k' ≠ k := fun e => ha (e ▸ hk')
        simp [this]
      simp only [if_true, this]; omega
    · have hne : a ≠ k := fun e => ha (e ▸ hm)
      have := ih hnd' hm
      dsimp only at this ⊢
      simp only [hne, if_false]; omega

theorem keysOf_nodup (s : State) : (keysOf s).Nodup := by
  unfold keysOf
  refine List.nodup_append.mpr ⟨?_, ?_, ?_⟩
  · unfold List.Nodup; rw [List.pairwise_map]
    exact List.Pairwise.imp (fun h e => h (by injection e)) List.nodup_range
  · unfold List.Nodup; rw [List.pairwise_map]
    exact List.Pairwise.imp (fun h e => h (by injection e)) List.nodup_range
  · intro a ha b hb e
    simp only [List.mem_map, List.mem_range] at ha hb
    obtain ⟨i, _, rfl⟩ := ha
    obtain ⟨j, _, rfl⟩ := hb
    injection e with e1 _; cases e1

theorem mem_keysOf {s : State} {k : Key} : k ∈ keysOf s ↔ k.valid s = true := by
  unfold keysOf Key.valid
  obtain ⟨c, i⟩ := k
  cases c <;> simp


def curCnt : RxCur → Nat
  | .dataSize _ _ => 1
  | _ => 0

def curKey : RxCur → Option Key
  | .idle => none
  | .ctrl k _ => some k
  | .dataCount k _ => some k
  | .dataSize k _ => some k

structure PInv (s : State) : Prop where
  /-- `count_sem`: available + held by frames (+ the one the inbound loop holds while waiting for size permits) -/
  count : s.countAvail + sumK (keysOf s) cntOf s.st + curCnt s.cur = s.cfg.rfc
  /-- `size_sem` -/
  size : s.sizeAvail + sumK (keysOf s) szOf s.st = s.cfg.rbs
  curv : ∀ k, curKey s.cur = some k → k.valid s = true
  /-- a frame never holds more bytes than the size permits it took -/
  dlen : ∀ k, ∀ f ∈ frames (s.st k), f.data.length ≤ f.size
  /-- streams outside the agreed id ranges never hold anything -/
  supp : ∀ k, k.valid s = false → frames (s.st k) = []

theorem PInv_init (cfg : Cfg) (acc con pacc pcon : Caps) : PInv (State.init cfg acc con pacc pcon) := by
  obtain ⟨d, na, nc, e⟩ := init_eq cfg acc con pacc pcon
  rw [e]
  have hz : ∀ (ks : List Key) (g : StreamSt → Nat), g {} = 0 → sumK ks g (fun _ => {}) = 0 := by
    intro ks g hg; unfold sumK; induction ks with
    | nil => rfl
    | cons a ks ih => simp only [List.map_cons, List.sum_cons, hg] at ih ⊢; omega
  constructor
  · simp [State.start, curCnt, hz _ cntOf (by rfl)]
  · simp [State.start, hz _ szOf (by rfl)]
  · simp [State.start, curKey]
  · simp [State.start, frames]
  · simp [State.start, frames]

/-- both the queue and the cache are untouched -/
def frSame (t t' : StreamSt) : Prop := t'.queue = t.queue ∧ t'.cache = t.cache

theorem frSame_refl (t : StreamSt) : frSame t t := ⟨rfl, rfl⟩

theorem frSame_ite {t : Key → StreamSt} {k k' : Key} {v : StreamSt} (h : frSame (t k) v) :
    frSame (t k') (if k' = k then v else t k') := by
  by_cases hk : k' = k
  · subst hk; simpa using h
  · simp [hk, frSame_refl]

theorem frames_of_frSame {t t' : StreamSt} (h : frSame t t') : frames t' = frames t := by
  unfold frames; rw [h.1, h.2]

theorem PInv_of_same {s s' : State} (h1 : s'.countAvail = s.countAvail) (h2 : s'.sizeAvail = s.sizeAvail)
    (h3 : s'.cur = s.cur) (h4 : s'.cfg = s.cfg) (h5 : s'.nAcc = s.nAcc) (h6 : s'.nCon = s.nCon)
    (h7 : ∀ k, frSame (s.st k) (s'.st k)) (hi : PInv s) : PInv s' := by
  obtain ⟨count, size, curv, dlen, supp⟩ := hi
  have hk : keysOf s' = keysOf s := by unfold keysOf; rw [h5, h6]
  have hv : ∀ k : Key, k.valid s' = k.valid s := by intro k; unfold Key.valid; rw [h5, h6]
  have hf : ∀ k, frames (s'.st k) = frames (s.st k) := fun k => frames_of_frSame (h7 k)
  constructor
  · rw [h1, h3, h4, hk, sumK_congr (st := s.st) (fun k => by unfold cntOf; rw [hf k])]; exact count
  · rw [h2, h4, hk, sumK_congr (st := s.st) (fun k => by unfold szOf; rw [hf k])]; exact size
  · intro k; rw [h3, hv]; exact curv k
  · intro k; rw [hf]; exact dlen k
  · intro k; rw [hv, hf]; exact supp k

macro "frsame" : tactic =>
  `(tactic| (intro k'; red; try simp only [if_true, ↓reduceIte, ite_ite_same];
             first | exact frSame_refl _ | (refine frSame_ite ?_; simp_all [frSame]; done)))

theorem PInv_stepCloseData {s s' : State} {k : Key} (hi : PInv s) (h : stepCloseData s k = some s') : PInv s' := by
  unfold stepCloseData at h
  leaves h
  all_goals (subst h; refine PInv_of_same (s := s) rfl rfl rfl rfl rfl rfl ?_ hi; frsame)

theorem PInv_stepCloseFrame {s s' : State} {k : Key} (hi : PInv s) (h : stepCloseFrame s k = some s') : PInv s' := by
  unfold stepCloseFrame at h
  leaves h
  all_goals (subst h; refine PInv_of_same (s := s) rfl rfl rfl rfl rfl rfl ?_ hi; frsame)

theorem PInv_stepJoinedA {s s' : State} {k : Key} (hi : PInv s) (h : stepJoinedA s k = some s') : PInv s' := by
  unfold stepJoinedA at h
  leaves h
  all_goals (subst h; refine PInv_of_same (s := s) rfl rfl rfl rfl rfl rfl ?_ hi; frsame)

theorem PInv_stepPush {s s' : State} {k : Key} (hi : PInv s) (h : stepPush s k = some s') : PInv s' := by
  unfold stepPush at h
  leaves h
  all_goals (subst h; refine PInv_of_same (s := s) rfl rfl rfl rfl rfl rfl ?_ hi; frsame)

theorem PInv_stepPop {s s' : State} {conn : Bool} {cap : Nat} (hi : PInv s) (h : stepPop s conn cap = some s') : PInv s' := by
  unfold stepPop at h
  leaves h
  all_goals (subst h; refine PInv_of_same (s := s) rfl rfl rfl rfl rfl rfl ?_ hi; frsame)

theorem PInv_stepSendOpen {s s' : State} {k : Key} (hi : PInv s) (h : stepSendOpen s k = some s') : PInv s' := by
  unfold stepSendOpen at h
  leaves h
  all_goals (subst h; refine PInv_of_same (s := s) rfl rfl rfl rfl rfl rfl ?_ hi; frsame)

theorem PInv_stepJoinedC {s s' : State} {k : Key} (hi : PInv s) (h : stepJoinedC s k = some s') : PInv s' := by
  unfold stepJoinedC at h
  leaves h
  all_goals (subst h; refine PInv_of_same (s := s) rfl rfl rfl rfl rfl rfl ?_ hi; frsame)

theorem PInv_stepWTake {s s' : State}  (hi : PInv s) (h : stepWTake s  = some s') : PInv s' := by
  unfold stepWTake at h
  leaves h
  all_goals (subst h; refine PInv_of_same (s := s) rfl rfl rfl rfl rfl rfl ?_ hi; frsame)

theorem PInv_stepWDo {s s' : State}  (hi : PInv s) (h : stepWDo s  = some s') : PInv s' := by
  unfold stepWDo at h
  leaves h
  all_goals (subst h; refine PInv_of_same (s := s) rfl rfl rfl rfl rfl rfl ?_ hi; frsame)

theorem PInv_stepWBlock {s s' : State}  (hi : PInv s) (h : stepWBlock s  = some s') : PInv s' := by
  unfold stepWBlock at h
  leaves h
  all_goals (subst h; refine PInv_of_same (s := s) rfl rfl rfl rfl rfl rfl ?_ hi; frsame)

theorem PInv_stepFlushStep {s s' : State} {k : Key} (hi : PInv s) (h : stepFlushStep s k = some s') : PInv s' := by
  unfold stepFlushStep at h
  leaves h
  all_goals (subst h; refine PInv_of_same (s := s) rfl rfl rfl rfl rfl rfl ?_ hi; frsame)

theorem PInv_stepCancelWrite {s s' : State} {k : Key} (hi : PInv s) (h : stepCancelWrite s k = some s') : PInv s' := by
  unfold stepCancelWrite StreamSt.endWrite at h
  leaves h
  all_goals (subst h; refine PInv_of_same (s := s) rfl rfl rfl rfl rfl rfl ?_ hi; frsame)

theorem PInv_stepCancelFlush {s s' : State} {k : Key} (hi : PInv s) (h : stepCancelFlush s k = some s') : PInv s' := by
  unfold stepCancelFlush at h
  leaves h
  all_goals (subst h; refine PInv_of_same (s := s) rfl rfl rfl rfl rfl rfl ?_ hi; frsame)

theorem PInv_stepDoFlush {s s' : State}  (hi : PInv s) (h : stepDoFlush s  = some s') : PInv s' := by
  unfold stepDoFlush at h
  leaves h
  all_goals (subst h; refine PInv_of_same (s := s) rfl rfl rfl rfl rfl rfl ?_ hi; frsame)

theorem PInv_stepAppOpen {s s' : State} {slot : Nat} {conn : Bool} {cap : Nat} (hi : PInv s) (h : stepAppOpen s slot conn cap = some s') : PInv s' := by
  unfold stepAppOpen at h
  leaves h
  all_goals (subst h; refine PInv_of_same (s := s) rfl rfl rfl rfl rfl rfl ?_ hi; frsame)

theorem PInv_stepAppRead {s s' : State} {slot n : Nat} (hi : PInv s) (h : stepAppRead s slot n = some s') : PInv s' := by
  unfold stepAppRead at h
  leaves h
  all_goals (subst h; refine PInv_of_same (s := s) rfl rfl rfl rfl rfl rfl ?_ hi; frsame)

theorem PInv_stepAppWrite {s s' : State} {slot : Nat} {bytes : List Nat} (hi : PInv s) (h : stepAppWrite s slot bytes = some s') : PInv s' := by
  unfold stepAppWrite at h
  leaves h
  all_goals (subst h; refine PInv_of_same (s := s) rfl rfl rfl rfl rfl rfl ?_ hi; frsame)

theorem PInv_stepWriteStep {s s' : State} {k : Key} (hi : PInv s) (h : stepWriteStep s k = some s') : PInv s' := by
  unfold stepWriteStep StreamSt.endWrite at h
  leaves h
  all_goals (subst h; refine PInv_of_same (s := s) rfl rfl rfl rfl rfl rfl ?_ hi; frsame)

theorem PInv_stepAppFlush {s s' : State} {slot : Nat} (hi : PInv s) (h : stepAppFlush s slot = some s') : PInv s' := by
  unfold stepAppFlush at h
  leaves h
  all_goals (subst h; refine PInv_of_same (s := s) rfl rfl rfl rfl rfl rfl ?_ hi; frsame)

theorem PInv_stepAppDrop {s s' : State} {slot : Nat} {r w : Bool} (hi : PInv s) (h : stepAppDrop s slot r w = some s') : PInv s' := by
  unfold stepAppDrop at h
  leaves h
  all_goals (subst h; refine PInv_of_same (s := s) rfl rfl rfl rfl rfl rfl ?_ hi; frsame)


/-- one stream's frames change, the semaphores move accordingly -/
theorem PInv_upd {s s' : State} {k : Key} {v : StreamSt} (hi : PInv s) (hv : k.valid s = true)
    (hst : s'.st = fun k' => if k' = k then v else s.st k')
    (hcfg : s'.cfg = s.cfg) (hna : s'.nAcc = s.nAcc) (hnc : s'.nCon = s.nCon)
    (hcount : s'.countAvail + cntOf v + curCnt s'.cur = s.countAvail + cntOf (s.st k) + curCnt s.cur)
    (hsize : s'.sizeAvail + szOf v = s.sizeAvail + szOf (s.st k))
    (hcur : ∀ k', curKey s'.cur = some k' → k'.valid s = true)
    (hd : ∀ f ∈ frames v, f.data.length ≤ f.size) : PInv s' := by
  obtain ⟨count, size, curv, dlen, supp⟩ := hi
  have hk : keysOf s' = keysOf s := by unfold keysOf; rw [hna, hnc]
  have hvv : ∀ k : Key, k.valid s' = k.valid s := by intro k; unfold Key.valid; rw [hna, hnc]
  have hm : k ∈ keysOf s := mem_keysOf.mpr hv
  have e1 := sumK_ite (g := cntOf) (st := s.st) (v := v) (keysOf_nodup s) hm
  have e2 := sumK_ite (g := szOf) (st := s.st) (v := v) (keysOf_nodup s) hm
  constructor
  · rw [hcfg, hk, hst]; omega
  · rw [hcfg, hk, hst]; omega
  · intro k'; rw [hvv]; exact hcur k'
  · intro k'; rw [hst]; dsimp only
    by_cases e : k' = k
    · simp only [e, if_true]; exact hd
    · simp only [e, if_false]; exact dlen k'
  · intro k'; rw [hvv, hst]; dsimp only
    intro hk'
    have e : k' ≠ k := by intro e; subst e; rw [hv] at hk'; cases hk'
    simp only [e, if_false]; exact supp k' hk'

/-- the stream table is untouched, the inbound loop moves on -/
theorem PInv_cur {s s' : State} (hi : PInv s) (hst : s'.st = s.st)
    (hcfg : s'.cfg = s.cfg) (hna : s'.nAcc = s.nAcc) (hnc : s'.nCon = s.nCon)
    (hcount : s'.countAvail + curCnt s'.cur = s.countAvail + curCnt s.cur)
    (hsize : s'.sizeAvail = s.sizeAvail)
    (hcur : ∀ k', curKey s'.cur = some k' → k'.valid s = true) : PInv s' := by
  obtain ⟨count, size, curv, dlen, supp⟩ := hi
  have hk : keysOf s' = keysOf s := by unfold keysOf; rw [hna, hnc]
  have hvv : ∀ k : Key, k.valid s' = k.valid s := by intro k; unfold Key.valid; rw [hna, hnc]
  constructor
  · rw [hcfg, hk, hst]; omega
  · rw [hcfg, hk, hst, hsize]; exact size
  · intro k'; rw [hvv]; exact hcur k'
  · intro k'; rw [hst]; exact dlen k'
  · intro k'; rw [hvv, hst]; exact supp k'

theorem PInv_stepPump {s s' : State} (hi : PInv s) (h : stepPump s = some s') : PInv s' := by
  unfold stepPump at h
  have hcv := hi.curv
  leaves h
  all_goals subst h
  all_goals first
    | (refine PInv_cur (s := s) hi rfl rfl rfl rfl ?_ ?_ ?_ <;> simp_all [curCnt, curKey] <;> done)
    | skip
  · rename_i hval
    refine PInv_cur (s := s) hi rfl rfl rfl rfl ?_ rfl ?_
    · simp_all [curCnt]
    · intro k' hk'; simp only [curKey, Option.some.injEq] at hk'; subst hk'; simp only [Key.valid] at hval ⊢; simp only [Bool.not_eq_true', Bool.not_eq_false] at hval ⊢; exact hval
  · rename_i hval
    refine PInv_cur (s := s) hi rfl rfl rfl rfl ?_ rfl ?_
    · simp_all [curCnt]
    · intro k' hk'; simp only [curKey, Option.some.injEq] at hk'; subst hk'; simp only [Key.valid] at hval ⊢; simp only [Bool.not_eq_true', Bool.not_eq_false] at hval ⊢; exact hval
  · rename_i k fk hc hn
    have hv := hcv k (by rw [hc]; rfl)
    refine PInv_upd (s := s) (k := k) hi hv rfl rfl rfl rfl ?_ ?_ ?_ ?_
    · simp [cntOf, frames, curCnt, hc]; omega
    · simp [szOf, frames]
    · simp [curKey]
    · intro f hf
      simp only [frames, List.mem_append, List.mem_singleton] at hf
      rcases hf with hf | hf | hf
      · exact hi.dlen k f (by simp [frames, hf])
      · exact hi.dlen k f (by simp [frames, hf])
      · subst hf; simp
  · rename_i k rem hc hn
    have hv := hcv k (by rw [hc]; rfl)
    refine PInv_cur (s := s) hi rfl rfl rfl rfl ?_ rfl ?_
    · simp [curCnt, hc]; omega
    · intro k' hk'; simp only [curKey, Option.some.injEq] at hk'; subst hk'; exact hv
  all_goals
    rename_i k rem hc hn hd
    have hv := hcv k (by rw [hc]; rfl)
    refine PInv_upd (s := s) (k := k) hi hv rfl rfl rfl rfl ?_ ?_ ?_ ?_
    · simp [cntOf, frames, curCnt, hc] <;> omega
    · simp [szOf, frames]; omega
    · intro k' hk'; dsimp only [State.enqueue, State.upd] at hk'; (try first | rw [if_pos hd] at hk' | rw [if_neg hd] at hk'); simp only [curKey, Option.some.injEq, reduceCtorEq] at hk'; try (subst hk'; exact hv)
    · intro f hf
      simp only [frames, List.mem_append, List.mem_singleton] at hf
      rcases hf with hf | hf | hf
      · exact hi.dlen k f (by simp [frames, hf])
      · exact hi.dlen k f (by simp [frames, hf])
      · subst hf; simp [List.length_take]


theorem PInv_upd' {s s' : State} {k : Key} (hi : PInv s) (hv : k.valid s = true)
    (hoth : ∀ k', k' ≠ k → s'.st k' = s.st k')
    (hcfg : s'.cfg = s.cfg) (hna : s'.nAcc = s.nAcc) (hnc : s'.nCon = s.nCon)
    (hcount : s'.countAvail + cntOf (s'.st k) + curCnt s'.cur = s.countAvail + cntOf (s.st k) + curCnt s.cur)
    (hsize : s'.sizeAvail + szOf (s'.st k) = s.sizeAvail + szOf (s.st k))
    (hcur : s'.cur = s.cur)
    (hd : ∀ f ∈ frames (s'.st k), f.data.length ≤ f.size) : PInv s' := by
  refine PInv_upd (v := s'.st k) hi hv ?_ hcfg hna hnc hcount hsize ?_ hd
  · funext k'
    by_cases e : k' = k
    · simp [e]
    · simp [e, hoth k' e]
  · rw [hcur]; exact hi.curv

theorem PInv_stepRecvOpenStart {s s' : State} {k : Key} (hi : PInv s) (h : stepRecvOpenStart s k = some s') : PInv s' := by
  unfold stepRecvOpenStart at h
  leaves h
  subst h
  refine PInv_upd' (s := s) (k := k) hi (by simp_all) ?_ rfl rfl rfl ?_ ?_ rfl ?_
  · intro k' hk'; red; simp [hk']
  · red; cases hc : (s.st k).cache <;> simp [cntOf, frames, hc] <;> omega
  · red; cases hc : (s.st k).cache <;> simp [szOf, frames, hc] <;> omega
  · intro f hf
    refine hi.dlen k f ?_
    red
    simp [frames] at hf ⊢
    exact Or.inr hf

theorem PInv_stepDiscard {s s' : State} {k : Key} (hi : PInv s) (h : stepDiscard s k = some s') : PInv s' := by
  unfold stepDiscard at h
  leaves h
  · rename_i f q hq _
    subst h
    refine PInv_upd' (s := s) (k := k) hi (by simp_all) ?_ rfl rfl rfl ?_ ?_ rfl ?_
    · intro k' hk'; red; simp [hk']
    · red; simp [cntOf, frames, hq] <;> omega
    · red; simp [szOf, frames, hq] <;> omega
    · intro g hg
      refine hi.dlen k g ?_
      red
      simp [frames, hq] at hg ⊢
      rcases hg with hg | hg
      · exact Or.inl hg
      · exact Or.inr (Or.inr hg)
  · rename_i f q hq _
    subst h
    refine PInv_upd' (s := s) (k := k) hi (by simp_all) ?_ rfl rfl rfl ?_ ?_ rfl ?_
    · intro k' hk'; red; simp [hk']
    · red; simp [cntOf, frames, hq] <;> omega
    · red; simp [szOf, frames, hq] <;> omega
    · intro g hg
      refine hi.dlen k g ?_
      red
      simp [frames, hq] at hg ⊢
      rcases hg with hg | hg
      · exact Or.inl hg
      · exact Or.inr (Or.inr hg)


end EraVerif.Proofs.Mux
