import EraVerif.Model.Replica
import EraVerif.Proofs.Certs

/-!
Helper lemmas for C16 (b): the invariant of the replica's four vote caches (`commit_views_cache`,
`commit_qcs_cache`, `timeout_views_cache`, `timeout_qcs_cache`) and its preservation by every step of
`Model/Replica.lean`. Core Lean only.
-/

namespace EraVerif.Proofs.Caches
open EraVerif.Model
open EraVerif.Proofs.Certs (Disj set_get getD_true_iff getD_false_iff replicate_false_get cqc_add_ok tqc_add_ok
  TqcInv tqcInv_new tqcInv_add)

/-! ## list facts -/

theorem length_le_of_nodup_subset {α : Type} [DecidableEq α] :
    ∀ (l₁ l₂ : List α), l₁.Nodup → (∀ x ∈ l₁, x ∈ l₂) → l₁.length ≤ l₂.length
  | [], _, _, _ => by simp
  | a :: t, l₂, hnd, hsub => by
    have ha : a ∈ l₂ := hsub a (by simp)
    obtain ⟨hat, hnt⟩ := List.nodup_cons.mp hnd
    have hsub' : ∀ x ∈ t, x ∈ l₂.erase a := by
      intro x hx
      have hxa : x ≠ a := fun h => hat (h ▸ hx)
      exact (List.mem_erase_of_ne hxa).mpr (hsub x (by simp [hx]))
    have ih := length_le_of_nodup_subset t (l₂.erase a) hnt hsub'
    have hl := List.length_erase_of_mem ha
    have hpos : 0 < l₂.length := List.length_pos_of_mem ha
    simp only [List.length_cons]
    omega

theorem length_le_of_nodup_lt (l : List Nat) (n : Nat) (hnd : l.Nodup) (hlt : ∀ x ∈ l, x < n) : l.length ≤ n := by
  have := length_le_of_nodup_subset l (List.range n) hnd (fun x hx => List.mem_range.mpr (hlt x hx))
  simpa using this

/-- two members of a list whose images under `f` are pairwise different are equal as soon as their images are -/
theorem eq_of_pairwise_ne {α β : Type} (f : α → β) {R : α → α → Prop} :
    ∀ (l : List α), l.Pairwise (fun a b => f a ≠ f b ∧ R a b) → ∀ a ∈ l, ∀ b ∈ l, f a = f b → a = b
  | [], _, a, ha, _, _, _ => by simp at ha
  | x :: t, hpw, a, ha, b, hb, hab => by
    obtain ⟨hx, ht⟩ := List.pairwise_cons.mp hpw
    rcases List.mem_cons.mp ha with rfl | ha' <;> rcases List.mem_cons.mp hb with rfl | hb'
    · rfl
    · exact absurd hab (hx b hb').1
    · exact absurd hab.symm (hx a ha').1
    · exact eq_of_pairwise_ne f t ht a ha' b hb' hab

theorem sum_map_le_mul {α : Type} (f : α → Nat) (k : Nat) :
    ∀ (l : List α), (∀ x ∈ l, f x ≤ k) → (l.map f).sum ≤ l.length * k
  | [], _ => by simp
  | x :: t, h => by
    have ih := sum_map_le_mul f k t (fun y hy => h y (by simp [hy]))
    have hx := h x (by simp)
    simp only [List.map_cons, List.sum_cons, List.length_cons, Nat.succ_mul]
    omega

/-! ## association lists -/

section AL
variable {β : Type}

theorem any_key_iff (l : List (Nat × β)) (k : Nat) : l.any (fun e => e.1 == k) = true ↔ k ∈ l.map (·.1) := by
  simp only [List.any_eq_true, List.mem_map, beq_iff_eq]

theorem keys_alSet (l : List (Nat × β)) (k : Nat) (v : β) :
    (alSet l k v).map (·.1) = if k ∈ l.map (·.1) then l.map (·.1) else l.map (·.1) ++ [k] := by
  unfold alSet
  by_cases hany : l.any (fun e => e.1 == k) = true
  · rw [if_pos hany, if_pos ((any_key_iff l k).mp hany), List.map_map]
    apply List.map_congr_left
    intro e _
    by_cases h : e.1 = k <;> simp [h]
  · rw [if_neg hany, if_neg (fun h => hany ((any_key_iff l k).mpr h))]
    simp

theorem nodup_keys_alSet (l : List (Nat × β)) (k : Nat) (v : β) (h : (l.map (·.1)).Nodup) :
    ((alSet l k v).map (·.1)).Nodup := by
  rw [keys_alSet]
  split
  · exact h
  · next hk =>
    rw [List.nodup_append]
    refine ⟨h, by simp, ?_⟩
    intro a ha b hb
    simp only [List.mem_singleton] at hb
    subst hb
    exact fun hab => hk (hab ▸ ha)

theorem mem_alSet (l : List (Nat × β)) (k : Nat) (v : β) (x : Nat × β) (hx : x ∈ alSet l k v) :
    x = (k, v) ∨ x ∈ l := by
  unfold alSet at hx
  split at hx
  · obtain ⟨e, he, rfl⟩ := List.mem_map.mp hx
    by_cases h : e.1 = k <;> simp [h, he]
  · rcases List.mem_append.mp hx with h | h
    · exact Or.inr h
    · exact Or.inl (by simpa using h)

theorem alGet_alSet (l : List (Nat × β)) (k : Nat) (v : β) (k' : Nat) :
    alGet (alSet l k v) k' = if k' = k then some v else alGet l k' := by
  unfold alSet alGet
  by_cases hany : l.any (fun e => e.1 == k) = true
  · simp only [hany, if_true, List.find?_map]
    by_cases hk : k' = k
    · subst hk
      have hc : ((fun e : Nat × β => e.1 == k') ∘ fun e => if (e.1 == k') = true then (k', v) else e) =
          (fun e : Nat × β => e.1 == k') := by
        funext e
        by_cases h : e.1 = k' <;> simp [h]
      rw [hc]
      cases hf : l.find? (fun e => e.1 == k') with
      | none =>
        have := List.find?_eq_none.mp hf
        obtain ⟨x, hx, hxk⟩ := List.any_eq_true.mp hany
        exact absurd hxk (this x hx)
      | some e =>
        have : e.1 = k' := by simpa using List.find?_some hf
        simp [this]
    · have hc : ((fun e : Nat × β => e.1 == k') ∘ fun e => if (e.1 == k) = true then (k, v) else e) =
          (fun e : Nat × β => e.1 == k') := by
        funext e
        by_cases h : e.1 = k
        · simp only [h, beq_self_eq_true, if_true, Function.comp_apply]
        · simp [h]
      rw [hc]
      simp only [hk, if_false]
      cases hf : l.find? (fun e => e.1 == k') with
      | none => rfl
      | some e =>
        have h1 : e.1 = k' := by simpa using List.find?_some hf
        have h2 : ¬ e.1 = k := fun x => hk (h1.symm.trans x)
        simp [h2]
  · simp only [hany]
    have hnone : ∀ e ∈ l, ¬ e.1 = k := by
      intro e he h
      exact hany (List.any_eq_true.mpr ⟨e, he, by simpa using h⟩)
    by_cases hk : k' = k
    · subst hk
      have : l.find? (fun e => e.1 == k') = none := List.find?_eq_none.mpr (fun e he => by simpa using hnone e he)
      simp [this]
    · have h1 : ¬ k = k' := fun x => hk x.symm
      simp [hk, h1]

theorem alGet_mem (l : List (Nat × β)) (k : Nat) (v : β) (h : alGet l k = some v) : (k, v) ∈ l := by
  unfold alGet at h
  obtain ⟨e, he, hv⟩ := Option.map_eq_some_iff.mp h
  have h1 := List.find?_some he
  have h2 := List.mem_of_find?_eq_some he
  have : e.1 = k := by simpa using h1
  have : e = (k, v) := by rw [← this, ← hv]
  exact this ▸ h2

theorem alGet_isSome_of_mem (l : List (Nat × β)) (x : Nat × β) (h : x ∈ l) : ∃ v, alGet l x.1 = some v := by
  unfold alGet
  cases hf : l.find? (fun e => e.1 == x.1) with
  | none =>
    have := List.find?_eq_none.mp hf x h
    simp at this
  | some e => exact ⟨e.2, rfl⟩

theorem mem_activeViews_alSet (l : List (Nat × Nat)) (k v : Nat) : v ∈ activeViews (alSet l k v) := by
  have h := alGet_alSet l k v k
  simp only [if_true] at h
  have := alGet_mem _ _ _ h
  exact List.mem_map.mpr ⟨(k, v), this, rfl⟩

theorem alErase_sublist (l : List (Nat × β)) (k : Nat) : (alErase l k).Sublist l := List.filter_sublist

end AL

/-! ## the invariant -/

/-- validator `i`'s latest recorded vote view is at least `V` -/
def Seen (vs : List (Nat × Nat)) (V i : Nat) : Prop := ∃ w, alGet vs i = some w ∧ V ≤ w

/-- a `*_views_cache`: at most one entry per validator index `< n` -/
structure ViewsInv (n : Nat) (vs : List (Nat × Nat)) : Prop where
  nodup : (vs.map (·.1)).Nodup
  lt : ∀ e ∈ vs, e.1 < n

/-- the certificates under construction for one view `V` -/
structure ViewInv (n : Nat) (cvs : List (Nat × Nat)) (V : Nat) (bv : List (Vote × CommitQC)) : Prop where
  certs : ∀ y ∈ bv, y.2.signers.length = n ∧ (∃ i : Nat, y.2.signers[i]? = some true) ∧
    ∀ i : Nat, y.2.signers[i]? = some true → Seen cvs V i
  pw : bv.Pairwise (fun a b => a.1 ≠ b.1 ∧ Disj a.2.signers b.2.signers)

structure CommitInv (n : Nat) (cvs : List (Nat × Nat)) (cqs : List (Nat × List (Vote × CommitQC))) : Prop where
  views : ViewsInv n cvs
  nodup : (cqs.map (·.1)).Nodup
  active : ∀ x ∈ cqs, x.1 ∈ activeViews cvs
  perView : ∀ x ∈ cqs, ViewInv n cvs x.1 x.2

structure TimeoutInv (c : Committee) (tvs : List (Nat × Nat)) (tqs : List (Nat × TimeoutQC)) : Prop where
  views : ViewsInv c.n tvs
  nodup : (tqs.map (·.1)).Nodup
  active : ∀ x ∈ tqs, x.1 ∈ activeViews tvs
  certs : ∀ x ∈ tqs, TqcInv c x.2.view x.2

/-- the invariant of the four vote caches of the replica -/
structure CacheInv (cfg : RCfg) (r : Replica) : Prop where
  commit : CommitInv cfg.c.n r.commitViews r.commitQCs
  timeout : TimeoutInv cfg.c r.timeoutViews r.timeoutQCs

/-! ### `*_views_cache` update -/

theorem viewsInv_nil (n : Nat) : ViewsInv n [] := ⟨by simp, by simp⟩

theorem viewsInv_alSet {n : Nat} {vs : List (Nat × Nat)} (h : ViewsInv n vs) (k V : Nat) (hk : k < n) :
    ViewsInv n (alSet vs k V) := by
  refine ⟨nodup_keys_alSet _ _ _ h.nodup, ?_⟩
  intro e he
  rcases mem_alSet _ _ _ _ he with rfl | he
  · exact hk
  · exact h.lt e he

theorem ViewsInv.length_le {n : Nat} {vs : List (Nat × Nat)} (h : ViewsInv n vs) : vs.length ≤ n := by
  have := length_le_of_nodup_lt (vs.map (·.1)) n h.nodup (by
    intro x hx
    obtain ⟨e, he, rfl⟩ := List.mem_map.mp hx
    exact h.lt e he)
  simpa using this

/-- recorded views only grow when validator `k` (whose recorded view, if any, is below `V`) is set to `V` -/
theorem seen_alSet {vs : List (Nat × Nat)} {k V : Nat} (hfresh : ∀ w, alGet vs k = some w → w < V) {U i : Nat}
    (h : Seen vs U i) : Seen (alSet vs k V) U i := by
  obtain ⟨w, hw, hle⟩ := h
  by_cases hik : i = k
  · subst hik
    exact ⟨V, by simp [alGet_alSet], by have := hfresh w hw; omega⟩
  · exact ⟨w, by simp [alGet_alSet, hik, hw], hle⟩

theorem seen_alSet_self (vs : List (Nat × Nat)) (k V : Nat) : Seen (alSet vs k V) V k :=
  ⟨V, by simp [alGet_alSet], Nat.le_refl _⟩

/-! ### per-view certificates -/

theorem viewInv_nil (n : Nat) (cvs : List (Nat × Nat)) (V : Nat) : ViewInv n cvs V [] := ⟨by simp, by simp⟩

theorem ViewInv.mono {n : Nat} {cvs cvs' : List (Nat × Nat)} {V : Nat} {bv : List (Vote × CommitQC)}
    (h : ViewInv n cvs V bv) (hm : ∀ i, Seen cvs V i → Seen cvs' V i) : ViewInv n cvs' V bv :=
  ⟨fun y hy => ⟨(h.certs y hy).1, (h.certs y hy).2.1, fun i hi => hm i ((h.certs y hy).2.2 i hi)⟩, h.pw⟩

/-- the index of the first set bit -/
def firstBit (s : List Bool) : Nat := s.idxOf true

theorem firstBit_spec (s : List Bool) (h : ∃ i : Nat, s[i]? = some true) :
    s[firstBit s]? = some true ∧ firstBit s < s.length := by
  obtain ⟨i, hi⟩ := h
  have hm : true ∈ s := List.mem_of_getElem? hi
  have hlt : firstBit s < s.length := List.idxOf_lt_length_iff.mpr hm
  refine ⟨?_, hlt⟩
  rw [List.getElem?_eq_getElem hlt]
  simp [firstBit]

/-- pairwise disjoint non-empty bitmaps of length `n`: at most `n` of them -/
theorem length_le_of_disjoint {α : Type} (sg : α → List Bool) (n : Nat) (l : List α)
    (hc : ∀ y ∈ l, (sg y).length = n ∧ ∃ i : Nat, (sg y)[i]? = some true)
    (hpw : l.Pairwise (fun a b => Disj (sg a) (sg b))) : l.length ≤ n := by
  have hnd : (l.map (fun y => firstBit (sg y))).Nodup := by
    rw [List.nodup_iff_pairwise_ne, List.pairwise_map]
    refine List.Pairwise.imp_of_mem ?_ hpw
    intro a b ha hb hd heq
    have h1 := (firstBit_spec _ (hc a ha).2).1
    have h2 := (firstBit_spec _ (hc b hb).2).1
    rw [heq] at h1
    exact hd _ ⟨h1, h2⟩
  have := length_le_of_nodup_lt _ n hnd (by
    intro x hx
    obtain ⟨y, hy, rfl⟩ := List.mem_map.mp hx
    have := (firstBit_spec _ (hc y hy).2).2
    rw [(hc y hy).1] at this
    exact this)
  simpa using this

theorem ViewInv.length_le {n : Nat} {cvs : List (Nat × Nat)} {V : Nat} {bv : List (Vote × CommitQC)}
    (h : ViewInv n cvs V bv) : bv.length ≤ n :=
  length_le_of_disjoint (fun y => y.2.signers) n bv (fun y hy => ⟨(h.certs y hy).1, (h.certs y hy).2.1⟩)
    (h.pw.imp (fun hab => hab.2))

theorem ViewInv.votes_nodup {n : Nat} {cvs : List (Nat × Nat)} {V : Nat} {bv : List (Vote × CommitQC)}
    (h : ViewInv n cvs V bv) : (bv.map (·.1)).Nodup := by
  rw [List.nodup_iff_pairwise_ne, List.pairwise_map]
  exact h.pw.imp (fun hab => hab.1)

/-- the per-view update of `on_commit`: the certificate of vote `v` (a fresh one if there is none) gains the bit of
`key`, a validator whose recorded commit view is below `V` -/
theorem viewInv_update {c : Committee} {cvs : List (Nat × Nat)} {V : Nat} {bv : List (Vote × CommitQC)}
    (h : ViewInv c.n cvs V bv) (key : Nat) (v : Vote) (qc : CommitQC) (hk : key < c.n)
    (hfresh : ∀ w, alGet cvs key = some w → w < V)
    (hqc : qc.signers = ((((bv.find? (fun x => x.1 = v)).map (·.2)).getD (CommitQC.new c v)).signers).set key true) :
    ViewInv c.n (alSet cvs key V) V
      (if bv.any (fun x => x.1 = v) then bv.map (fun x => if x.1 = v then (v, qc) else x) else bv ++ [(v, qc)]) := by
  have hfree : ∀ y ∈ bv, ¬ y.2.signers[key]? = some true := by
    intro y hy hb
    obtain ⟨w, hw, hle⟩ := (h.certs y hy).2.2 key hb
    have := hfresh w hw
    omega
  have hmono : ∀ i, Seen cvs V i → Seen (alSet cvs key V) V i := fun i hi => seen_alSet hfresh hi
  by_cases hex : ∃ z ∈ bv, z.1 = v
  · have hany : bv.any (fun x => x.1 = v) = true := by
      obtain ⟨z, hz, hzv⟩ := hex
      exact List.any_eq_true.mpr ⟨z, hz, by simpa using hzv⟩
    rw [if_pos hany]
    -- the certificate found is the one of the unique entry with vote `v`
    obtain ⟨z, hzf⟩ : ∃ z, bv.find? (fun x => x.1 = v) = some z := by
      cases hf : bv.find? (fun x => decide (x.1 = v)) with
      | some z => exact ⟨z, rfl⟩
      | none =>
        obtain ⟨z, hz, hzv⟩ := hex
        have := List.find?_eq_none.mp hf z hz
        simp [hzv] at this
    have hzm : z ∈ bv := List.mem_of_find?_eq_some hzf
    have hzv : z.1 = v := by simpa using List.find?_some hzf
    rw [hzf] at hqc
    simp only [Option.map_some, Option.getD_some] at hqc
    have huniq : ∀ y ∈ bv, y.1 = v → y = z := fun y hy hyv =>
      eq_of_pairwise_ne (fun y : Vote × CommitQC => y.1) bv h.pw y hy z hzm (hyv.trans hzv.symm)
    have hzl : z.2.signers.length = c.n := (h.certs z hzm).1
    constructor
    · intro y' hy'
      obtain ⟨y, hy, rfl⟩ := List.mem_map.mp hy'
      by_cases hyv : y.1 = v
      · have := huniq y hy hyv
        subst this
        simp only [hyv, if_true, hqc]
        refine ⟨by simpa using hzl, ⟨key, (set_get _ key key (by omega)).mpr (Or.inl rfl)⟩, ?_⟩
        intro i hi
        rcases (set_get _ key i (by omega)).mp hi with rfl | hi
        · exact seen_alSet_self _ _ _
        · exact hmono i ((h.certs y hy).2.2 i hi)
      · simp only [hyv, if_false]
        obtain ⟨g1, g2, g3⟩ := h.certs y hy
        exact ⟨g1, g2, fun i hi => hmono i (g3 i hi)⟩
    · rw [List.pairwise_map]
      refine List.Pairwise.imp_of_mem ?_ h.pw
      intro a b ha hb ⟨hne, hd⟩
      by_cases hav : a.1 = v
      · have hbv : ¬ b.1 = v := fun hb' => hne (hav.trans hb'.symm)
        have := huniq a ha hav
        subst this
        simp only [hav, hbv, if_true, if_false, hqc]
        refine ⟨fun hx => hbv hx.symm, ?_⟩
        intro j ⟨h1, h2⟩
        rcases (set_get _ key j (by omega)).mp h1 with rfl | h1
        · exact hfree b hb h2
        · exact hd j ⟨h1, h2⟩
      · by_cases hbv : b.1 = v
        · have := huniq b hb hbv
          subst this
          simp only [hav, hbv, if_true, if_false, hqc]
          refine ⟨hav, ?_⟩
          intro j ⟨h1, h2⟩
          rcases (set_get _ key j (by omega)).mp h2 with rfl | h2
          · exact hfree a ha h1
          · exact hd j ⟨h1, h2⟩
        · simp only [hav, hbv, if_false]
          exact ⟨hne, hd⟩
  · have hne : ∀ z ∈ bv, ¬ z.1 = v := fun z hz hzv => hex ⟨z, hz, hzv⟩
    have hany : ¬ bv.any (fun x => x.1 = v) = true := by
      intro ha
      obtain ⟨z, hz, hzv⟩ := List.any_eq_true.mp ha
      exact hne z hz (by simpa using hzv)
    rw [if_neg hany]
    have hfn : bv.find? (fun x => x.1 = v) = none :=
      List.find?_eq_none.mpr (fun z hz => by simpa using hne z hz)
    rw [hfn] at hqc
    simp only [Option.map_none, Option.getD_none, CommitQC.new] at hqc
    have hlen : (List.replicate c.n false).length = c.n := by simp
    constructor
    · intro y hy
      rcases List.mem_append.mp hy with hy | hy
      · obtain ⟨g1, g2, g3⟩ := h.certs y hy
        exact ⟨g1, g2, fun i hi => hmono i (g3 i hi)⟩
      · have : y = (v, qc) := by simpa using hy
        subst this
        simp only [hqc]
        refine ⟨by simp, ⟨key, (set_get _ key key (by omega)).mpr (Or.inl rfl)⟩, ?_⟩
        intro i hi
        rcases (set_get _ key i (by omega)).mp hi with rfl | hi
        · exact seen_alSet_self _ _ _
        · exact absurd hi (replicate_false_get _ _)
    · rw [List.pairwise_append]
      refine ⟨h.pw, by simp, ?_⟩
      intro a ha b hb
      have : b = (v, qc) := by simpa using hb
      subst this
      refine ⟨hne a ha, ?_⟩
      simp only [hqc]
      intro j ⟨h1, h2⟩
      rcases (set_get _ key j (by omega)).mp h2 with rfl | h2
      · exact hfree a ha h1
      · exact replicate_false_get _ _ h2

/-! ### `commit_qcs_cache` -/

theorem commitInv_nil (n : Nat) : CommitInv n [] [] := ⟨viewsInv_nil n, by simp, by simp, by simp⟩

/-- dropping entries of `commit_qcs_cache` (`retain`, `remove`) keeps the invariant -/
theorem CommitInv.sublist {n : Nat} {cvs : List (Nat × Nat)} {cqs cqs' : List (Nat × List (Vote × CommitQC))}
    (h : CommitInv n cvs cqs) (hs : cqs'.Sublist cqs) : CommitInv n cvs cqs' :=
  ⟨h.views, (hs.map _).nodup h.nodup, fun x hx => h.active x (hs.subset hx), fun x hx => h.perView x (hs.subset hx)⟩

theorem viewInv_getD {n : Nat} {cvs : List (Nat × Nat)} {cqs : List (Nat × List (Vote × CommitQC))}
    (h : CommitInv n cvs cqs) (V : Nat) : ViewInv n cvs V ((alGet cqs V).getD []) := by
  cases hg : alGet cqs V with
  | none => exact viewInv_nil _ _ _
  | some bv => exact h.perView _ (alGet_mem _ _ _ hg)

/-- the cache update of an accepted `on_commit` (before a possible quorum) -/
theorem commitInv_update {c : Committee} {cvs : List (Nat × Nat)} {cqs : List (Nat × List (Vote × CommitQC))}
    (inv : CommitInv c.n cvs cqs) (key : Nat) (v : Vote) (V : Nat) (qc : CommitQC) (hk : key < c.n)
    (hfresh : ∀ w, alGet cvs key = some w → w < V)
    (hqc : qc.signers = ((((((alGet cqs V).getD []).find? (fun x => x.1 = v)).map (·.2)).getD
      (CommitQC.new c v)).signers).set key true) :
    CommitInv c.n (alSet cvs key V)
      ((alSet cqs V
          (if ((alGet cqs V).getD []).any (fun x => x.1 = v)
            then ((alGet cqs V).getD []).map (fun x => if x.1 = v then (v, qc) else x)
            else ((alGet cqs V).getD []) ++ [(v, qc)])).filter
        (fun x => (activeViews (alSet cvs key V)).contains x.1)) := by
  have hnew := viewInv_update (viewInv_getD inv V) key v qc hk hfresh hqc
  refine ⟨viewsInv_alSet inv.views key V hk, ?_, ?_, ?_⟩
  · exact ((List.filter_sublist).map _).nodup (nodup_keys_alSet _ _ _ inv.nodup)
  · intro x hx
    have := (List.mem_filter.mp hx).2
    simpa using this
  · intro x hx
    rcases mem_alSet _ _ _ _ (List.mem_filter.mp hx).1 with rfl | hx'
    · exact hnew
    · exact (inv.perView x hx').mono (fun i hi => seen_alSet hfresh hi)

theorem CommitInv.length_le {n : Nat} {cvs : List (Nat × Nat)} {cqs : List (Nat × List (Vote × CommitQC))}
    (h : CommitInv n cvs cqs) : cqs.length ≤ n := by
  have h1 := length_le_of_nodup_subset (cqs.map (·.1)) (activeViews cvs) h.nodup (by
    intro x hx
    obtain ⟨e, he, rfl⟩ := List.mem_map.mp hx
    exact h.active e he)
  have h2 := h.views.length_le
  simp only [List.length_map, activeViews] at h1
  omega

theorem CommitInv.total_le {n : Nat} {cvs : List (Nat × Nat)} {cqs : List (Nat × List (Vote × CommitQC))}
    (h : CommitInv n cvs cqs) : (cqs.map (·.2.length)).sum ≤ n * n := by
  have h1 := sum_map_le_mul (fun x : Nat × List (Vote × CommitQC) => x.2.length) n cqs
    (fun x hx => (h.perView x hx).length_le)
  have h2 := h.length_le
  have := Nat.mul_le_mul_right n h2
  omega

/-! ### `timeout_qcs_cache` -/

theorem timeoutInv_nil (c : Committee) : TimeoutInv c [] [] := ⟨viewsInv_nil _, by simp, by simp, by simp⟩

theorem TimeoutInv.sublist {c : Committee} {tvs : List (Nat × Nat)} {tqs tqs' : List (Nat × TimeoutQC)}
    (h : TimeoutInv c tvs tqs) (hs : tqs'.Sublist tqs) : TimeoutInv c tvs tqs' :=
  ⟨h.views, (hs.map _).nodup h.nodup, fun x hx => h.active x (hs.subset hx), fun x hx => h.certs x (hs.subset hx)⟩

/-- the cache update of an accepted `on_timeout` (before a possible quorum) -/
theorem timeoutInv_update {c : Committee} {tvs : List (Nat × Nat)} {tqs : List (Nat × TimeoutQC)}
    (inv : TimeoutInv c tvs tqs) (key : Nat) (t : TVote) (qc : TimeoutQC) (sb : SignedBy) (hk : key < c.n)
    (hadd : ((alGet tqs t.view.number).getD (TimeoutQC.new t.view)).add c sb t = .ok qc) :
    TimeoutInv c (alSet tvs key t.view.number)
      ((alSet tqs t.view.number qc).filter (fun x => (activeViews (alSet tvs key t.view.number)).contains x.1)) := by
  have h0 : TqcInv c ((alGet tqs t.view.number).getD (TimeoutQC.new t.view)).view
      ((alGet tqs t.view.number).getD (TimeoutQC.new t.view)) := by
    cases hg : alGet tqs t.view.number with
    | none => exact tqcInv_new c t.view
    | some q => exact inv.certs _ (alGet_mem _ _ _ hg)
  have h1 := tqcInv_add h0 hadd
  have hview : qc.view = ((alGet tqs t.view.number).getD (TimeoutQC.new t.view)).view := h1.view_eq
  refine ⟨viewsInv_alSet inv.views key _ hk, ?_, ?_, ?_⟩
  · exact ((List.filter_sublist).map _).nodup (nodup_keys_alSet _ _ _ inv.nodup)
  · intro x hx
    have := (List.mem_filter.mp hx).2
    simpa using this
  · intro x hx
    rcases mem_alSet _ _ _ _ (List.mem_filter.mp hx).1 with rfl | hx'
    · show TqcInv c qc.view qc
      rw [hview]; exact h1
    · exact inv.certs x hx'

theorem TimeoutInv.length_le {c : Committee} {tvs : List (Nat × Nat)} {tqs : List (Nat × TimeoutQC)}
    (h : TimeoutInv c tvs tqs) : tqs.length ≤ c.n := by
  have h1 := length_le_of_nodup_subset (tqs.map (·.1)) (activeViews tvs) h.nodup (by
    intro x hx
    obtain ⟨e, he, rfl⟩ := List.mem_map.mp hx
    exact h.active e he)
  have h2 := h.views.length_le
  simp only [List.length_map, activeViews] at h1
  omega

/-- a timeout certificate under construction has at most `n` vote groups -/
theorem tqcInv_groups_le {c : Committee} {view : View} {q : TimeoutQC} (h : TqcInv c view q) : q.map.length ≤ c.n :=
  length_le_of_disjoint (fun e => e.2) c.n q.map (fun e he => ⟨(h.groups e he).2.1, (h.groups e he).2.2.1⟩)
    (h.pw.imp (fun hab => hab.2))

/-! ## the handlers -/

/-- the four caches of a replica state -/
def caches (r : Replica) := (r.commitViews, r.commitQCs, r.timeoutViews, r.timeoutQCs)

theorem CacheInv.of_caches {cfg : RCfg} {r r' : Replica} (h : CacheInv cfg r) (hc : caches r' = caches r) :
    CacheInv cfg r' := by
  simp only [caches, Prod.mk.injEq] at hc
  obtain ⟨h1, h2, h3, h4⟩ := hc
  exact ⟨by rw [h1, h2]; exact h.commit, by rw [h3, h4]; exact h.timeout⟩

theorem cacheInv_start (cfg : RCfg) (b : Option Durable) : CacheInv cfg (Replica.start b) :=
  ⟨commitInv_nil _, timeoutInv_nil _⟩

theorem caches_processCommitQC (r : Replica) (e : Env) (q : CommitQC) :
    caches (processCommitQC r e q).1 = caches r := by
  unfold processCommitQC
  simp only
  repeat' (first | rfl | split)

theorem caches_processTimeoutQC (r : Replica) (e : Env) (q : TimeoutQC) :
    caches (processTimeoutQC r e q).1 = caches r := by
  unfold processTimeoutQC
  cases hq : q.highQC with
  | none =>
    simp only
    repeat' (first | rfl | split)
  | some hq' =>
    have := caches_processCommitQC r e hq'
    simp only
    repeat' (first | exact this | split)

theorem caches_processJust (r : Replica) (e : Env) (j : Just) : caches (processJust r e j).1 = caches r := by
  cases j with
  | commit q => exact caches_processCommitQC r e q
  | timeout q => exact caches_processTimeoutQC r e q

theorem caches_startNewView (r : Replica) (v : Nat) : caches (startNewView r v).r = caches r := by
  unfold startNewView
  simp only
  repeat' (first | rfl | split)

theorem caches_startTimeout (cfg : RCfg) (r : Replica) : caches (startTimeout cfg r).r = caches r := by
  unfold startTimeout
  simp only
  repeat' (first | rfl | split)

theorem caches_onProposal (cfg : RCfg) (r : Replica) (e : Env) (key : Nat) (sigOk : Bool) (payload : Option Payload)
    (j : Just) : caches (onProposal cfg r e key sigOk payload j).r = caches r := by
  unfold onProposal
  simp only [rej]
  repeat' (first | rfl | split)
  all_goals
    rename_i dcd hh r0 heq hlast
    have hr0 : caches r0 = caches r := by
      repeat' (split at heq)
      all_goals (cases heq <;> rfl)
    exact (caches_processJust _ _ _).trans hr0

theorem caches_onNewView (cfg : RCfg) (r : Replica) (e : Env) (key : Nat) (sigOk : Bool) (j : Just) :
    caches (onNewView cfg r e key sigOk j).r = caches r := by
  unfold onNewView
  simp only [rej]
  repeat' first
    | rfl
    | exact (caches_processJust _ _ _).trans rfl
    | exact (caches_startNewView _ _).trans ((caches_processJust _ _ _).trans rfl)
    | split

/-- `on_commit` after the origin checks (a copy of the model text; `onCommit_eq` checks it is the same term) -/
def commitTail (cfg : RCfg) (r : Replica) (e : Env) (key : Nat) (sigOk : Bool) (v : Vote) : StepRes :=
  if !sigOk then rej r .badSignature
  else if !(v.verify cfg.c) then rej r .invalidMessage
  else
    let byView := (alGet r.commitQCs v.view.number).getD []
    let qc0 := ((byView.find? (fun x => x.1 = v)).map (·.2)).getD (CommitQC.new cfg.c v)
    match qc0.add cfg.c { key := some key, sigOk := sigOk } v with
    | .error _ => { r := r, effs := [], out := .panic "could not add message to CommitQC" }
    | .ok qc =>
      let byView' := if byView.any (fun x => x.1 = v) then byView.map (fun x => if x.1 = v then (v, qc) else x) else byView ++ [(v, qc)]
      let cqs := alSet r.commitQCs v.view.number byView'
      let cvs := alSet r.commitViews key v.view.number
      let act := activeViews cvs
      let cqs := cqs.filter (fun x => act.contains x.1)
      let r1 := { r with commitViews := cvs, commitQCs := cqs }
      if weightOf cfg.c.weights qc.signers < cfg.c.quorum then { r := r1, effs := [], out := .accepted }
      else
        let r2 := { r1 with commitQCs := alErase r1.commitQCs v.view.number }
        let (r3, effs, ok) := processCommitQC r2 e qc
        if !ok then { r := r3, effs := effs, out := .blocked }
        else
          let s := startNewView r3 (nextU64 v.view.number)
          { s with effs := effs ++ s.effs }

theorem onCommit_eq (cfg : RCfg) (r : Replica) (e : Env) (key : Nat) (sigOk : Bool) (v : Vote) :
    onCommit cfg r e key sigOk v =
      if key ≥ cfg.c.n then rej r .nonValidator
      else if v.view.number < r.view then rej r .old
      else if (match alGet r.commitViews key with | some w => decide (w ≥ v.view.number) | none => false) then
        rej r .duplicate
      else commitTail cfg r e key sigOk v := rfl

theorem cacheInv_commitTail (cfg : RCfg) (r : Replica) (e : Env) (key : Nat) (sigOk : Bool) (v : Vote)
    (inv : CacheInv cfg r) (hk : key < cfg.c.n)
    (hfresh : ∀ w, alGet r.commitViews key = some w → w < v.view.number) :
    CacheInv cfg (commitTail cfg r e key sigOk v).r := by
  unfold commitTail
  simp only [rej]
  split
  · exact inv
  split
  · exact inv
  split
  · exact inv
  · rename_i qc hadd
    obtain ⟨i, hi, _, _, _, _, _, hq⟩ := (cqc_add_ok _ _ _ _ _).mp hadd
    have hik : i = key := by simpa using hi.symm
    subst hik
    have hqc := congrArg CommitQC.signers hq
    simp only at hqc
    have hupd := commitInv_update inv.commit i v v.view.number qc hk hfresh hqc
    generalize (if ((alGet r.commitQCs v.view.number).getD []).any (fun x => decide (x.1 = v)) = true
        then ((alGet r.commitQCs v.view.number).getD []).map (fun x => if x.1 = v then (v, qc) else x)
        else ((alGet r.commitQCs v.view.number).getD []) ++ [(v, qc)]) = bv' at hupd ⊢
    split
    · exact ⟨hupd, inv.timeout⟩
    · have hupd' := hupd.sublist (alErase_sublist _ v.view.number)
      have hinv2 : CacheInv cfg { r with
          commitViews := alSet r.commitViews i v.view.number,
          commitQCs := alErase ((alSet r.commitQCs v.view.number bv').filter
            (fun x => (activeViews (alSet r.commitViews i v.view.number)).contains x.1)) v.view.number } :=
        ⟨hupd', inv.timeout⟩
      split
      · exact hinv2.of_caches (caches_processCommitQC _ _ _)
      · exact hinv2.of_caches ((caches_startNewView _ _).trans (caches_processCommitQC _ _ _))

theorem cacheInv_onCommit (cfg : RCfg) (r : Replica) (e : Env) (key : Nat) (sigOk : Bool) (v : Vote)
    (inv : CacheInv cfg r) : CacheInv cfg (onCommit cfg r e key sigOk v).r := by
  rw [onCommit_eq]
  simp only [rej]
  split
  · exact inv
  rename_i hk
  split
  · exact inv
  cases hg : alGet r.commitViews key with
  | none =>
    simp only [Bool.false_eq_true, ↓reduceIte]
    exact cacheInv_commitTail cfg r e key sigOk v inv (by omega) (by simp [hg])
  | some w =>
    simp only [decide_eq_true_eq]
    split
    · exact inv
    · exact cacheInv_commitTail cfg r e key sigOk v inv (by omega) (by
        intro w' hw'
        rw [hg] at hw'
        have : w = w' := by simpa using hw'
        omega)

/-- `on_timeout` after the origin checks (a copy of the model text; `onTimeout_eq` checks it is the same term) -/
def timeoutTail (cfg : RCfg) (r : Replica) (e : Env) (key : Nat) (sigOk : Bool) (t : TVote) : StepRes :=
  if !sigOk then rej r .badSignature
  else if !(t.verify cfg.c) then rej r .invalidMessage
  else
    let qc0 := (alGet r.timeoutQCs t.view.number).getD (TimeoutQC.new t.view)
    match qc0.add cfg.c { key := some key, sigOk := sigOk } t with
    | .error _ => { r := r, effs := [], out := .panic "could not add message to TimeoutQC" }
    | .ok qc =>
      match qc.weight cfg.c with
      | .panic s => { r := r, effs := [], out := .panic s }
      | .ok weight =>
        let tqs := alSet r.timeoutQCs t.view.number qc
        let tvs := alSet r.timeoutViews key t.view.number
        let act := activeViews tvs
        let tqs := tqs.filter (fun x => act.contains x.1)
        let r1 := { r with timeoutViews := tvs, timeoutQCs := tqs }
        if weight < cfg.c.quorum then { r := r1, effs := [], out := .accepted }
        else
          let r2 := { r1 with timeoutQCs := alErase r1.timeoutQCs t.view.number }
          let (r3, effs, ok) := processTimeoutQC r2 e qc
          if !ok then { r := r3, effs := effs, out := .blocked }
          else
            let s := startNewView r3 (nextU64 t.view.number)
            { s with effs := effs ++ s.effs }

theorem onTimeout_eq (cfg : RCfg) (r : Replica) (e : Env) (key : Nat) (sigOk : Bool) (t : TVote) :
    onTimeout cfg r e key sigOk t =
      if key ≥ cfg.c.n then rej r .nonValidator
      else if t.view.number < r.view then rej r .old
      else if (match alGet r.timeoutViews key with | some w => decide (w ≥ t.view.number) | none => false) then
        rej r .duplicate
      else timeoutTail cfg r e key sigOk t := rfl

theorem cacheInv_timeoutTail (cfg : RCfg) (r : Replica) (e : Env) (key : Nat) (sigOk : Bool) (t : TVote)
    (inv : CacheInv cfg r) (hk : key < cfg.c.n) : CacheInv cfg (timeoutTail cfg r e key sigOk t).r := by
  unfold timeoutTail
  simp only [rej]
  split
  · exact inv
  split
  · exact inv
  split
  · exact inv
  · rename_i qc hadd
    have hupd := timeoutInv_update inv.timeout key t qc _ hk hadd
    split
    · exact inv
    split
    · exact ⟨inv.commit, hupd⟩
    · have hupd' := hupd.sublist (alErase_sublist _ t.view.number)
      have hinv2 : CacheInv cfg { r with
          timeoutViews := alSet r.timeoutViews key t.view.number,
          timeoutQCs := alErase ((alSet r.timeoutQCs t.view.number qc).filter
            (fun x => (activeViews (alSet r.timeoutViews key t.view.number)).contains x.1)) t.view.number } :=
        ⟨inv.commit, hupd'⟩
      split
      · exact hinv2.of_caches (caches_processTimeoutQC _ _ _)
      · exact hinv2.of_caches ((caches_startNewView _ _).trans (caches_processTimeoutQC _ _ _))

theorem cacheInv_onTimeout (cfg : RCfg) (r : Replica) (e : Env) (key : Nat) (sigOk : Bool) (t : TVote)
    (inv : CacheInv cfg r) : CacheInv cfg (onTimeout cfg r e key sigOk t).r := by
  rw [onTimeout_eq]
  simp only [rej]
  split
  · exact inv
  rename_i hk
  have htail := cacheInv_timeoutTail cfg r e key sigOk t inv (by omega)
  repeat' (first | exact inv | exact htail | split)

/-! ## every step -/

theorem cacheInv_step (cfg : RCfg) (r : Replica) (e : Env) (i : Input) (inv : CacheInv cfg r) :
    CacheInv cfg (step cfg r e i).r := by
  cases i with
  | tick => exact inv.of_caches (caches_startTimeout cfg r)
  | restart b => exact cacheInv_start cfg b
  | msg s =>
    unfold step
    simp only
    split
    · exact inv.of_caches (caches_onProposal _ _ _ _ _ _ _)
    · exact cacheInv_onCommit _ _ _ _ _ _ inv
    · exact cacheInv_onTimeout _ _ _ _ _ _ inv
    · exact inv.of_caches (caches_onNewView _ _ _ _ _ _)

end EraVerif.Proofs.Caches
