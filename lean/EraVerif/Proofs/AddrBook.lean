import EraVerif.Model.AddrBook

/-! Helper lemmas for C18 (address book). No Mathlib. -/

namespace EraVerif.Proofs.AddrBook
open EraVerif.Model.AddrBook

/-! ## the map operations -/

theorem lookup_key {b : Book} {k : Nat} {a : Ann} (h : lookup b k = some a) : a.key = k := by
  have := List.find?_some h
  simpa using this

theorem lookup_mem {b : Book} {k : Nat} {a : Ann} (h : lookup b k = some a) : a ∈ b :=
  List.mem_of_find?_eq_some h

theorem lookup_nil (k : Nat) : lookup [] k = none := rfl

theorem lookup_filter_ne (b : Book) (k k' : Nat) (h : k' ≠ k) :
    lookup (b.filter (fun a => a.key != k')) k = lookup b k := by
  induction b with
  | nil => rfl
  | cons a b ih =>
    unfold lookup at ih ⊢
    by_cases hk : a.key = k'
    · have h2 : a.key ≠ k := by omega
      have e1 : (a.key != k') = false := by simp [hk]
      have e2 : (a.key == k) = false := by simp [h2]
      rw [List.filter_cons, if_neg (by simp [e1]), List.find?_cons, e2]
      exact ih
    · have e1 : (a.key != k') = true := by simp [hk]
      rw [List.filter_cons, if_pos e1, List.find?_cons, List.find?_cons]
      cases (a.key == k)
      · exact ih
      · rfl

theorem lookup_put (b : Book) (d : Ann) (k : Nat) :
    lookup (put b d) k = if d.key = k then some d else lookup b k := by
  have e : lookup (put b d) k = if (d.key == k) = true then some d else lookup (b.filter (fun a => a.key != d.key)) k := by
    unfold lookup put
    rw [List.find?_cons]
    cases (d.key == k) <;> rfl
  rw [e]
  by_cases h : d.key = k
  · simp [h]
  · simp [h, lookup_filter_ne b k d.key h]

/-! ## the order -/

theorem isNewer_irrefl (a : Msg) : ¬ a.isNewer a := by unfold Msg.isNewer; omega

theorem isNewer_trans {a b c : Msg} (h1 : a.isNewer b) (h2 : b.isNewer c) : a.isNewer c := by
  unfold Msg.isNewer at *; omega

theorem isNewer_asymm {a b : Msg} (h1 : a.isNewer b) : ¬ b.isNewer a := by
  unfold Msg.isNewer at *; omega

/-- the order is total on `(version, secs, nanos)` -/
theorem eq_of_not_newer {a b : Msg} (h1 : ¬ a.isNewer b) (h2 : ¬ b.isNewer a) :
    a.version = b.version ∧ a.secs = b.secs ∧ a.nanos = b.nanos := by
  unfold Msg.isNewer at *; omega

theorem not_newer_of_not_newer_of_newer {d x y : Msg} (h1 : ¬ d.isNewer x) (h2 : y.isNewer x) :
    ¬ d.isNewer y := by
  unfold Msg.isNewer at *; omega

/-! ## signatures -/

theorem verify_iff (a : Ann) : a.verify = true ↔ a.sigBy = a.key ∧ a.sigOver = a.msg := by
  simp [Ann.verify]

theorem verify_sign (k : Nat) (m : Msg) : (sign k m).verify = true := by simp [Ann.verify, sign]

/-- two validly signed announcements of the same key with the same content are the same value -/
theorem eq_of_verify {a b : Ann} (ha : a.verify = true) (hb : b.verify = true) (hk : a.key = b.key)
    (hm : a.msg = b.msg) : a = b := by
  rw [verify_iff] at ha hb
  cases a; cases b; simp_all

/-! ## the specification of one batch -/

/-- the entry would be taken: there is no stored entry for its key, or it is strictly newer -/
def fresh (b : Book) (d : Ann) : Bool :=
  match lookup b d.key with
  | some x => decide (d.msg.isNewer x.msg)
  | none => true

/-- the loop takes (verifies and inserts) the entry: its key is a member and it is fresh -/
def taken (vs : List Nat) (b : Book) (d : Ann) : Bool := vs.contains d.key && fresh b d

theorem taken_iff (vs : List Nat) (b : Book) (d : Ann) : taken vs b d = true ↔ d.key ∈ vs ∧ fresh b d = true := by
  simp [taken]

/-- the batch is accepted: pairwise distinct keys, and every entry that would be taken verifies -/
def Accepts (vs : List Nat) (b : Book) (data : List Ann) : Prop :=
  (data.map (·.key)).Nodup ∧ ∀ d ∈ data, d.key ∈ vs → fresh b d = true → d.verify = true

/-- what `get` returns after an accepted batch -/
def specLookup (vs : List Nat) (b : Book) (data : List Ann) (k : Nat) : Option Ann :=
  match data.find? (fun d => d.key == k) with
  | some d => if taken vs b d then some d else lookup b k
  | none => lookup b k

def isOk {ε α : Type} : Except ε α → Bool
  | .ok _ => true
  | .error _ => false

theorem fresh_put_ne (b : Book) (d e : Ann) (h : d.key ≠ e.key) : fresh (put b d) e = fresh b e := by
  simp [fresh, lookup_put, h]


/-- one iteration of the loop, with the two "skip" branches merged -/
theorem updateLoop_cons (vs : List Nat) (self : Book) (done : List Nat) (changed : Bool) (d : Ann) (data : List Ann) :
    updateLoop vs self done changed (d :: data) =
      if done.contains d.key then (self, .error .duplicate)
      else if taken vs self d then
        (if d.verify then updateLoop vs (put self d) (d.key :: done) true data else (self, .error .badSig))
      else updateLoop vs self (d.key :: done) changed data := by
  rw [updateLoop]
  unfold taken fresh
  by_cases h1 : d.key ∈ done
  · simp [h1]
  · by_cases h2 : d.key ∈ vs
    · cases h3 : lookup self d.key with
      | none => cases h4 : d.verify <;> simp [h1, h2]
      | some x =>
        by_cases h5 : d.msg.isNewer x.msg
        · cases h4 : d.verify <;> simp [h1, h2, h5]
        · simp [h1, h2, h5]
    · simp [h1, h2]


theorem updateLoop_ok_iff (vs : List Nat) (data : List Ann) : ∀ (self : Book) (done : List Nat) (changed : Bool),
    isOk (updateLoop vs self done changed data).2 = true ↔
      ((data.map (·.key)).Nodup ∧ (∀ d ∈ data, d.key ∉ done) ∧
        (∀ d ∈ data, d.key ∈ vs → fresh self d = true → d.verify = true)) := by
  induction data with
  | nil => intro self done changed; simp [updateLoop, isOk]
  | cons d data ih =>
    intro self done changed
    rw [updateLoop_cons]
    by_cases h1 : d.key ∈ done
    · rw [if_pos (by simpa using h1)]
      simp only [isOk, Bool.false_eq_true, false_iff]
      intro h; exact h.2.1 d (List.mem_cons_self ..) h1
    · rw [if_neg (by simpa using h1)]
      by_cases h2 : taken vs self d = true
      · have h2' : d.key ∈ vs ∧ fresh self d = true := (taken_iff ..).mp h2
        cases h4 : d.verify
        · rw [if_pos h2, if_neg (by simp)]
          simp only [isOk, Bool.false_eq_true, false_iff]
          intro h
          have := h.2.2 d (List.mem_cons_self ..) h2'.1 h2'.2
          simp [h4] at this
        · rw [if_pos h2, if_pos rfl, ih]
          constructor
          · rintro ⟨hn, hd, hv⟩
            have hne : ∀ e ∈ data, e.key ≠ d.key := fun e he h => hd e he (by simp [h])
            refine ⟨?_, ?_, ?_⟩
            · simp only [List.map_cons, List.nodup_cons]
              refine ⟨?_, hn⟩
              intro hm
              obtain ⟨e, he, hk⟩ := List.mem_map.mp hm
              exact hne e he hk
            · intro e he
              rcases List.mem_cons.mp he with rfl | he
              · exact h1
              · intro hm; exact hd e he (List.mem_cons_of_mem _ hm)
            · intro e he
              rcases List.mem_cons.mp he with rfl | he
              · intro _ _; exact h4
              · intro hm hf
                apply hv e he hm
                rw [fresh_put_ne _ _ _ (Ne.symm (hne e he))]; exact hf
          · rintro ⟨hn, hd, hv⟩
            simp only [List.map_cons, List.nodup_cons] at hn
            have hne : ∀ e ∈ data, e.key ≠ d.key := fun e he h => hn.1 (List.mem_map.mpr ⟨e, he, h⟩)
            refine ⟨hn.2, ?_, ?_⟩
            · intro e he hm
              rcases List.mem_cons.mp hm with h | h
              · exact hne e he h
              · exact hd e (List.mem_cons_of_mem _ he) h
            · intro e he hm hf
              apply hv e (List.mem_cons_of_mem _ he) hm
              rw [fresh_put_ne _ _ _ (Ne.symm (hne e he))] at hf; exact hf
      · have h2' : ¬ (d.key ∈ vs ∧ fresh self d = true) := fun h => h2 ((taken_iff ..).mpr h)
        rw [if_neg h2, ih]
        constructor
        · rintro ⟨hn, hd, hv⟩
          have hne : ∀ e ∈ data, e.key ≠ d.key := fun e he h => hd e he (by simp [h])
          refine ⟨?_, ?_, ?_⟩
          · simp only [List.map_cons, List.nodup_cons]
            refine ⟨?_, hn⟩
            intro hm
            obtain ⟨e, he, hk⟩ := List.mem_map.mp hm
            exact hne e he hk
          · intro e he
            rcases List.mem_cons.mp he with rfl | he
            · exact h1
            · intro hm; exact hd e he (List.mem_cons_of_mem _ hm)
          · intro e he
            rcases List.mem_cons.mp he with rfl | he
            · intro a b; exact absurd ⟨a, b⟩ h2'
            · exact hv e he
        · rintro ⟨hn, hd, hv⟩
          simp only [List.map_cons, List.nodup_cons] at hn
          have hne : ∀ e ∈ data, e.key ≠ d.key := fun e he h => hn.1 (List.mem_map.mpr ⟨e, he, h⟩)
          refine ⟨hn.2, ?_, ?_⟩
          · intro e he hm
            rcases List.mem_cons.mp hm with h | h
            · exact hne e he h
            · exact hd e (List.mem_cons_of_mem _ he) h
          · intro e he
            exact hv e (List.mem_cons_of_mem _ he)


theorem find_none_of_ne (data : List Ann) (k : Nat) (h : ∀ e ∈ data, e.key ≠ k) :
    data.find? (fun d => d.key == k) = none := by
  rw [List.find?_eq_none]
  intro e he; simpa using h e he

theorem find_key {data : List Ann} {k : Nat} {e : Ann} (h : data.find? (fun d => d.key == k) = some e) :
    e.key = k ∧ e ∈ data := by
  refine ⟨?_, List.mem_of_find?_eq_some h⟩
  simpa using List.find?_some h

theorem specLookup_cons_self (vs : List Nat) (b : Book) (d : Ann) (data : List Ann) :
    specLookup vs b (d :: data) d.key = if taken vs b d then some d else lookup b d.key := by
  simp [specLookup]

theorem specLookup_cons_ne (vs : List Nat) (b : Book) (d : Ann) (data : List Ann) (k : Nat) (h : d.key ≠ k) :
    specLookup vs b (d :: data) k = specLookup vs b data k := by
  simp [specLookup, h]

theorem specLookup_absent (vs : List Nat) (b : Book) (data : List Ann) (k : Nat) (h : ∀ e ∈ data, e.key ≠ k) :
    specLookup vs b data k = lookup b k := by
  simp [specLookup, find_none_of_ne data k h]

theorem specLookup_put (vs : List Nat) (b : Book) (d : Ann) (data : List Ann) (k : Nat)
    (hne : ∀ e ∈ data, e.key ≠ d.key) (hk : d.key ≠ k) :
    specLookup vs (put b d) data k = specLookup vs b data k := by
  unfold specLookup
  cases h : data.find? (fun d => d.key == k) with
  | none => simp [lookup_put, hk]
  | some e =>
    have := find_key h
    simp [lookup_put, hk, taken, fresh_put_ne b d e (Ne.symm (hne e this.2))]

theorem updateLoop_lookup (vs : List Nat) (data : List Ann) : ∀ (self : Book) (done : List Nat) (changed : Bool),
    isOk (updateLoop vs self done changed data).2 = true →
    ∀ k, lookup (updateLoop vs self done changed data).1 k = specLookup vs self data k := by
  induction data with
  | nil => intro self done changed _ k; simp [updateLoop, specLookup]
  | cons d data ih =>
    intro self done changed hok k
    have hall := (updateLoop_ok_iff vs (d :: data) self done changed).mp hok
    have hn := hall.1
    simp only [List.map_cons, List.nodup_cons] at hn
    have hne : ∀ e ∈ data, e.key ≠ d.key := fun e he h => hn.1 (List.mem_map.mpr ⟨e, he, h⟩)
    have h1 : d.key ∉ done := hall.2.1 d (List.mem_cons_self ..)
    rw [updateLoop_cons, if_neg (by simpa using h1)] at hok ⊢
    by_cases h2 : taken vs self d = true
    · have h2' : d.key ∈ vs ∧ fresh self d = true := (taken_iff ..).mp h2
      have h4 : d.verify = true := hall.2.2 d (List.mem_cons_self ..) h2'.1 h2'.2
      rw [if_pos h2, if_pos h4] at hok ⊢
      rw [ih _ _ _ hok]
      by_cases hk : d.key = k
      · subst hk
        rw [specLookup_cons_self, specLookup_absent _ _ _ _ hne, lookup_put]
        simp [h2]
      · rw [specLookup_cons_ne _ _ _ _ _ hk, specLookup_put _ _ _ _ _ hne hk]
    · rw [if_neg h2] at hok ⊢
      rw [ih _ _ _ hok]
      by_cases hk : d.key = k
      · subst hk
        rw [specLookup_cons_self, specLookup_absent _ _ _ _ hne]
        simp [h2]
      · rw [specLookup_cons_ne _ _ _ _ _ hk]

theorem updateLoop_changed (vs : List Nat) (data : List Ann) : ∀ (self : Book) (done : List Nat) (changed c : Bool),
    (updateLoop vs self done changed data).2 = .ok c →
    c = (changed || data.any (taken vs self)) := by
  induction data with
  | nil => intro self done changed c h; simp [updateLoop] at h; simp [h]
  | cons d data ih =>
    intro self done changed c h
    have hok : isOk (updateLoop vs self done changed (d :: data)).2 = true := by rw [h]; rfl
    have hall := (updateLoop_ok_iff vs (d :: data) self done changed).mp hok
    have hn := hall.1
    simp only [List.map_cons, List.nodup_cons] at hn
    have hne : ∀ e ∈ data, e.key ≠ d.key := fun e he h => hn.1 (List.mem_map.mpr ⟨e, he, h⟩)
    have h1 : d.key ∉ done := hall.2.1 d (List.mem_cons_self ..)
    rw [updateLoop_cons, if_neg (by simpa using h1)] at h
    by_cases h2 : taken vs self d = true
    · have h2' : d.key ∈ vs ∧ fresh self d = true := (taken_iff ..).mp h2
      have h4 : d.verify = true := hall.2.2 d (List.mem_cons_self ..) h2'.1 h2'.2
      rw [if_pos h2, if_pos h4] at h
      have := ih _ _ _ _ h
      simp [this, h2]
    · rw [if_neg h2] at h
      have := ih _ _ _ _ h
      simp [this, h2]

theorem specLookup_of_none_taken (vs : List Nat) (b : Book) (data : List Ann) (h : data.any (taken vs b) = false)
    (k : Nat) : specLookup vs b data k = lookup b k := by
  unfold specLookup
  cases hf : data.find? (fun d => d.key == k) with
  | none => rfl
  | some e =>
    have := find_key hf
    have ht : taken vs b e = false := by
      have := List.any_eq_false.mp h e this.2
      simpa using this
    simp [ht]


/-! ## `ValidatorAddrsWatch::update` -/

theorem update_unfold (vs : List Nat) (cur : Book) (data : List Ann) :
    update vs cur data =
      match (updateLoop vs cur [] false data).2 with
      | .error e => { book := cur, res := .error e, notified := false }
      | .ok true => { book := (updateLoop vs cur [] false data).1, res := .ok (), notified := true }
      | .ok false => { book := cur, res := .ok (), notified := false } := by
  unfold update ValidatorAddrs.update
  rcases h : updateLoop vs cur [] false data with ⟨copy, r⟩
  rfl

theorem update_ok_iff (vs : List Nat) (cur : Book) (data : List Ann) :
    isOk (update vs cur data).res = true ↔ Accepts vs cur data := by
  have h := updateLoop_ok_iff vs data cur [] false
  rw [update_unfold]
  unfold Accepts
  rcases hr : (updateLoop vs cur [] false data).2 with e | c
  · rw [hr] at h; simp only [isOk] at h ⊢
    constructor
    · intro h'; cases h'
    · intro h'; exact h.mpr ⟨h'.1, by simp, h'.2⟩
  · rw [hr] at h
    have := h.mp rfl
    have h3 := this.2.2
    cases c <;> simp only [isOk, true_iff] <;> exact ⟨this.1, h3⟩

theorem update_err_book (vs : List Nat) (cur : Book) (data : List Ann)
    (h : isOk (update vs cur data).res = false) : (update vs cur data).book = cur := by
  rw [update_unfold] at h ⊢
  rcases hr : (updateLoop vs cur [] false data).2 with e | c
  · rfl
  · rw [hr] at h; cases c <;> simp [isOk] at h

theorem update_err_notified (vs : List Nat) (cur : Book) (data : List Ann)
    (h : isOk (update vs cur data).res = false) : (update vs cur data).notified = false := by
  rw [update_unfold] at h ⊢
  rcases hr : (updateLoop vs cur [] false data).2 with e | c
  · rfl
  · rw [hr] at h; cases c <;> simp [isOk] at h

theorem update_ok_lookup (vs : List Nat) (cur : Book) (data : List Ann)
    (h : isOk (update vs cur data).res = true) (k : Nat) :
    lookup (update vs cur data).book k = specLookup vs cur data k := by
  rw [update_unfold] at h ⊢
  rcases hr : (updateLoop vs cur [] false data).2 with e | c
  · rw [hr] at h; simp [isOk] at h
  · have hl := updateLoop_lookup vs data cur [] false (by rw [hr]; rfl) k
    have hc := updateLoop_changed vs data cur [] false c hr
    cases c
    · simp only
      rw [specLookup_of_none_taken]
      simpa using hc.symm
    · simpa using hl

theorem update_notified_iff (vs : List Nat) (cur : Book) (data : List Ann) :
    (update vs cur data).notified = true ↔ Accepts vs cur data ∧ data.any (taken vs cur) = true := by
  rw [← update_ok_iff]
  rw [update_unfold]
  rcases hr : (updateLoop vs cur [] false data).2 with e | c
  · simp [isOk]
  · have hc := updateLoop_changed vs data cur [] false c hr
    cases c
    · have : data.any (taken vs cur) = false := by simpa using hc.symm
      simp [isOk, this]
    · have : data.any (taken vs cur) = true := by simpa using hc.symm
      simp [isOk, this]

theorem mem_unique_of_nodup_keys {data : List Ann} (hn : (data.map (·.key)).Nodup) {d e : Ann}
    (hd : d ∈ data) (he : e ∈ data) (hk : d.key = e.key) : d = e := by
  induction data with
  | nil => cases hd
  | cons a data ih =>
    simp only [List.map_cons, List.nodup_cons] at hn
    rcases List.mem_cons.mp hd with rfl | hd' <;> rcases List.mem_cons.mp he with rfl | he'
    · rfl
    · exact absurd (show d.key ∈ data.map (·.key) from List.mem_map.mpr ⟨e, he', hk.symm⟩) hn.1
    · exact absurd (show e.key ∈ data.map (·.key) from List.mem_map.mpr ⟨d, hd', hk⟩) hn.1
    · exact ih hn.2 hd' he'

theorem find_of_mem {data : List Ann} (hn : (data.map (·.key)).Nodup) {d : Ann} (hd : d ∈ data) :
    data.find? (fun e => e.key == d.key) = some d := by
  cases h : data.find? (fun e => e.key == d.key) with
  | none =>
    rw [List.find?_eq_none] at h
    have := h d hd
    simp at this
  | some e =>
    have := find_key h
    rw [mem_unique_of_nodup_keys hn this.2 hd this.1]

/-- what an accepted batch does for one of its own entries -/
theorem specLookup_of_mem (vs : List Nat) (cur : Book) {data : List Ann} (hn : (data.map (·.key)).Nodup)
    {d : Ann} (hd : d ∈ data) :
    specLookup vs cur data d.key = if taken vs cur d then some d else lookup cur d.key := by
  simp [specLookup, find_of_mem hn hd]

/-- Every key either keeps its entry, or gets an entry of the (accepted) batch that is a member's, verifies
and is fresh with respect to the old book. -/
theorem update_lookup_cases (vs : List Nat) (cur : Book) (data : List Ann) (k : Nat) :
    lookup (update vs cur data).book k = lookup cur k ∨
      (isOk (update vs cur data).res = true ∧ ∃ d ∈ data, d.key = k ∧ d.key ∈ vs ∧ d.verify = true ∧
        fresh cur d = true ∧ lookup (update vs cur data).book k = some d) := by
  cases hok : isOk (update vs cur data).res with
  | false => left; rw [update_err_book _ _ _ hok]
  | true =>
    have hacc := (update_ok_iff vs cur data).mp hok
    rw [update_ok_lookup _ _ _ hok]
    unfold specLookup
    cases hf : data.find? (fun d => d.key == k) with
    | none => left; rfl
    | some d =>
      have hd := find_key hf
      cases ht : taken vs cur d with
      | false => left; simp [ht]
      | true =>
        right
        have ht' := (taken_iff ..).mp ht
        exact ⟨rfl, d, hd.2, hd.1, ht'.1, hacc.2 d hd.2 ht'.1 ht'.2, ht'.2, by simp [ht]⟩

theorem fresh_some {b : Book} {d x : Ann} (h : lookup b d.key = some x) :
    fresh b d = true ↔ d.msg.isNewer x.msg := by
  simp [fresh, h]

theorem fresh_none {b : Book} {d : Ann} (h : lookup b d.key = none) : fresh b d = true := by
  simp [fresh, h]

/-- Entries are never removed, and are only replaced by a strictly newer one. -/
theorem update_monotone (vs : List Nat) (cur : Book) (data : List Ann) (k : Nat) (x : Ann)
    (hx : lookup cur k = some x) :
    ∃ y, lookup (update vs cur data).book k = some y ∧ (y = x ∨ y.msg.isNewer x.msg) := by
  rcases update_lookup_cases vs cur data k with h | ⟨_, d, _, hk, _, _, hf, hl⟩
  · exact ⟨x, by rw [h, hx], Or.inl rfl⟩
  · subst hk
    exact ⟨d, hl, Or.inr ((fresh_some hx).mp hf)⟩

/-- After an accepted batch the stored entry dominates every member entry of the batch. -/
theorem update_dominates (vs : List Nat) (cur : Book) (data : List Ann)
    (hok : isOk (update vs cur data).res = true) (d : Ann) (hd : d ∈ data) (hm : d.key ∈ vs) :
    ∃ x, lookup (update vs cur data).book d.key = some x ∧ ¬ d.msg.isNewer x.msg := by
  have hacc := (update_ok_iff vs cur data).mp hok
  rw [update_ok_lookup _ _ _ hok, specLookup_of_mem vs cur hacc.1 hd]
  cases ht : taken vs cur d with
  | true => exact ⟨d, by simp, isNewer_irrefl _⟩
  | false =>
    have hf : fresh cur d = false := by
      cases hfr : fresh cur d with
      | false => rfl
      | true => rw [(taken_iff ..).mpr ⟨hm, hfr⟩] at ht; cases ht
    cases hl : lookup cur d.key with
    | none => rw [fresh_none hl] at hf; cases hf
    | some x =>
      refine ⟨x, by simp, ?_⟩
      intro hn
      rw [(fresh_some hl).mpr hn] at hf; cases hf


/-! ## sequences of batches with a fixed committee -/

theorem feed_cons (vs : List Nat) (b : Book) (data : List Ann) (rest : List (List Ann)) :
    feed vs b (data :: rest) = feed vs (update vs b data).book rest := rfl

theorem feed_monotone (vs : List Nat) (batches : List (List Ann)) : ∀ (b : Book) (k : Nat) (x : Ann),
    lookup b k = some x → ∃ y, lookup (feed vs b batches) k = some y ∧ (y = x ∨ y.msg.isNewer x.msg) := by
  induction batches with
  | nil => intro b k x h; exact ⟨x, h, Or.inl rfl⟩
  | cons data rest ih =>
    intro b k x h
    obtain ⟨y, hy, hyx⟩ := update_monotone vs b data k x h
    obtain ⟨z, hz, hzy⟩ := ih _ k y hy
    refine ⟨z, by rw [feed_cons]; exact hz, ?_⟩
    rcases hzy with rfl | hzy
    · exact hyx
    · rcases hyx with rfl | hyx
      · exact Or.inr hzy
      · exact Or.inr (isNewer_trans hzy hyx)

theorem not_newer_of_le {d x y : Msg} (h1 : ¬ d.isNewer x) (h2 : y = x ∨ y.isNewer x) : ¬ d.isNewer y := by
  rcases h2 with rfl | h2
  · exact h1
  · exact not_newer_of_not_newer_of_newer h1 h2

theorem seen_cons_mem (vs : List Nat) (b : Book) (data : List Ann) (rest : List (List Ann)) (d : Ann) :
    d ∈ seen vs b (data :: rest) ↔
      (isOk (update vs b data).res = true ∧ d ∈ data) ∨ d ∈ seen vs (update vs b data).book rest := by
  rw [seen]
  simp only [List.mem_append]
  rcases (update vs b data).res with e | u <;> simp [isOk]

/-- L1: the final entry dominates every member announcement the node has seen -/
theorem feed_dominates (vs : List Nat) (batches : List (List Ann)) : ∀ (b : Book) (d : Ann),
    d ∈ seen vs b batches → d.key ∈ vs →
      ∃ x, lookup (feed vs b batches) d.key = some x ∧ ¬ d.msg.isNewer x.msg := by
  induction batches with
  | nil => intro b d h; simp [seen] at h
  | cons data rest ih =>
    intro b d h hm
    rw [feed_cons]
    rcases (seen_cons_mem ..).mp h with ⟨hok, hd⟩ | h
    · obtain ⟨x, hx, hdx⟩ := update_dominates vs b data hok d hd hm
      obtain ⟨y, hy, hyx⟩ := feed_monotone vs rest _ d.key x hx
      refine ⟨y, hy, not_newer_of_le hdx ?_⟩
      rcases hyx with rfl | hyx
      · exact Or.inl rfl
      · exact Or.inr hyx
    · exact ih _ d h hm

/-- L2: the final entry is an old one or a verified member announcement the node has seen -/
theorem feed_provenance (vs : List Nat) (batches : List (List Ann)) : ∀ (b : Book) (k : Nat) (x : Ann),
    lookup (feed vs b batches) k = some x →
      lookup b k = some x ∨ (x ∈ seen vs b batches ∧ x.verify = true ∧ x.key ∈ vs) := by
  induction batches with
  | nil => intro b k x h; exact Or.inl h
  | cons data rest ih =>
    intro b k x h
    rw [feed_cons] at h
    rcases ih _ k x h with h1 | ⟨h1, h2, h3⟩
    · rcases update_lookup_cases vs b data k with hc | ⟨hok, d, hd, _, hm, hv, _, hl⟩
      · left; rw [← hc]; exact h1
      · right
        rw [hl] at h1
        cases h1
        exact ⟨(seen_cons_mem ..).mpr (Or.inl ⟨hok, hd⟩), hv, hm⟩
    · right
      exact ⟨(seen_cons_mem ..).mpr (Or.inr h1), h2, h3⟩

/-! ## `announce` -/

theorem announce_lookup (cur : Book) (key addr : Nat) (secs nanos : Int) (k : Nat) :
    lookup (announce cur key addr secs nanos) k =
      if key = k then
        some (sign key { addr := addr, version := announceVersion cur key, secs := secs, nanos := nanos })
      else lookup cur k := by
  unfold announce
  rw [lookup_put]
  rfl

theorem announce_newer (cur : Book) (key addr : Nat) (secs nanos : Int) (x : Ann)
    (hx : lookup cur key = some x) (hno : announceOverflows cur key = false) :
    (sign key { addr := addr, version := announceVersion cur key, secs := secs, nanos := nanos }).msg.isNewer x.msg := by
  simp only [announceOverflows, hx, decide_eq_false_iff_not, Nat.not_le] at hno
  simp only [sign, announceVersion, hx, Msg.isNewer]
  left
  rw [Nat.mod_eq_of_lt hno]
  omega

/-! ## arbitrary operation sequences -/

theorem run_cons (b : Book) (op : Op) (ops : List Op) : run b (op :: ops) = run (step b op) ops := rfl

theorem step_monotone (b : Book) (op : Op)
    (hno : match op with | .announce k _ _ _ => announceOverflows b k = false | .update _ _ => True)
    (k : Nat) (x : Ann) (hx : lookup b k = some x) :
    ∃ y, lookup (step b op) k = some y ∧ (y = x ∨ y.msg.isNewer x.msg) := by
  cases op with
  | update vs data => exact update_monotone vs b data k x hx
  | announce key addr secs nanos =>
    simp only [step, announce_lookup]
    by_cases hk : key = k
    · subst hk
      exact ⟨_, by simp, Or.inr (announce_newer b key addr secs nanos x hx hno)⟩
    · exact ⟨x, by simp [hk, hx], Or.inl rfl⟩

theorem run_monotone (ops : List Op) : ∀ (b : Book), NoOverflow b ops → ∀ (k : Nat) (x : Ann),
    lookup b k = some x → ∃ y, lookup (run b ops) k = some y ∧ (y = x ∨ y.msg.isNewer x.msg) := by
  induction ops with
  | nil => intro b _ k x h; exact ⟨x, h, Or.inl rfl⟩
  | cons op ops ih =>
    intro b hno k x h
    obtain ⟨y, hy, hyx⟩ := step_monotone b op hno.1 k x h
    obtain ⟨z, hz, hzy⟩ := ih _ hno.2 k y hy
    refine ⟨z, by rw [run_cons]; exact hz, ?_⟩
    rcases hzy with rfl | hzy
    · exact hyx
    · rcases hyx with rfl | hyx
      · exact Or.inr hzy
      · exact Or.inr (isNewer_trans hzy hyx)

/-- where a stored entry can come from -/
def FromOps (ops : List Op) (a : Ann) : Prop :=
  (∃ vs data, Op.update vs data ∈ ops ∧ a ∈ data ∧ a.key ∈ vs) ∨
  (∃ addr secs nanos, Op.announce a.key addr secs nanos ∈ ops ∧ a.msg.addr = addr ∧ a.msg.secs = secs ∧
    a.msg.nanos = nanos)

theorem FromOps_cons {ops : List Op} {a : Ann} (op : Op) (h : FromOps ops a) : FromOps (op :: ops) a := by
  rcases h with ⟨vs, data, h1, h2⟩ | ⟨ad, s, n, h1, h2⟩
  · exact Or.inl ⟨vs, data, List.mem_cons_of_mem _ h1, h2⟩
  · exact Or.inr ⟨ad, s, n, List.mem_cons_of_mem _ h1, h2⟩

theorem step_provenance (b : Book) (op : Op) (k : Nat) (a : Ann) (h : lookup (step b op) k = some a) :
    lookup b k = some a ∨ (a.verify = true ∧ FromOps [op] a) := by
  cases op with
  | update vs data =>
    rcases update_lookup_cases vs b data k with hc | ⟨_, d, hd, _, hm, hv, _, hl⟩
    · left; rw [← hc]; exact h
    · right
      simp only [step] at h
      rw [hl] at h; cases h
      exact ⟨hv, Or.inl ⟨vs, data, by simp, hd, hm⟩⟩
  | announce key addr secs nanos =>
    simp only [step, announce_lookup] at h
    by_cases hk : key = k
    · right
      simp only [hk, if_true, Option.some.injEq] at h
      subst h
      exact ⟨verify_sign _ _, Or.inr ⟨addr, secs, nanos, by simp [sign, hk], rfl, rfl, rfl⟩⟩
    · left; simpa [hk] using h

theorem run_provenance (ops : List Op) : ∀ (b : Book) (k : Nat) (a : Ann), lookup (run b ops) k = some a →
    lookup b k = some a ∨ (a.verify = true ∧ FromOps ops a) := by
  induction ops with
  | nil => intro b k a h; exact Or.inl h
  | cons op ops ih =>
    intro b k a h
    rw [run_cons] at h
    rcases ih _ k a h with h1 | ⟨h1, h2⟩
    · rcases step_provenance b op k a h1 with h3 | ⟨h3, h4⟩
      · exact Or.inl h3
      · right
        refine ⟨h3, ?_⟩
        rcases h4 with ⟨vs, data, h5, h6⟩ | ⟨ad, s, n, h5, h6⟩
        · exact Or.inl ⟨vs, data, by simpa using Or.inl (by simpa using h5), h6⟩
        · exact Or.inr ⟨ad, s, n, by simpa using Or.inl (by simpa using h5), h6⟩
    · exact Or.inr ⟨h1, FromOps_cons op h2⟩

end EraVerif.Proofs.AddrBook
