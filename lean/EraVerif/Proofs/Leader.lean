import EraVerif.Model.Leader

/-!
# Helper definitions and lemmas for C11 (leader election). Core Lean only (no Mathlib).

* the generated scalar expressions (`Gen/LeaderSel.lean`) compute what the property needs — these are the lemmas
  that stop checking when the `frequency = 0` or the zero-digit repair is reverted in `schedule.rs`;
* `Schedule.new` accepts exactly the lists `Accept` describes and returns the canonical schedule `canon`;
* `view_leader` refines the specification `specLeader`.
-/

namespace EraVerif.Proofs.Leader
open EraVerif.Model.LeaderOps EraVerif.Model.Leader EraVerif.Gen

/-! ## The generated expressions -/

/-- `turn`: never panics; `view / frequency`, and `0` when the frequency is 0. -/
theorem turn_eq (view freq : Nat) :
    LeaderSel.turn view freq = some (if freq = 0 then 0 else view / freq) := by
  by_cases h : freq = 0 <;> simp [LeaderSel.turn, pUnwrapOr, pCheckedDiv, h]

/-- the round-robin index: panics only for an empty leader list -/
theorem rrIndex_eq (turn len : Nat) (h : len ≠ 0) : LeaderSel.rrIndex turn len = some (turn % len) := by
  simp [LeaderSel.rrIndex, pRem, pCast64, h]

theorem u64Digits_zero : u64Digits 0 = [] := by
  rw [u64Digits]; simp

theorem u64Digits_small (r : Nat) (h0 : r ≠ 0) (h : r < U64) : u64Digits r = [r] := by
  rw [u64Digits]
  simp only [h0, if_false]
  rw [Nat.mod_eq_of_lt h, Nat.div_eq_of_lt h, u64Digits_zero]

/-- the low digit of a residue below 2^64 is the residue itself — **including 0, which has no digits** -/
theorem lowDigit_eq (r : Nat) (h : r < U64) : LeaderSel.lowDigit r = some r := by
  by_cases h0 : r = 0
  · subst h0; simp [LeaderSel.lowDigit, pUnwrapOr, pFirst, pDigits, u64Digits_zero]
  · simp [LeaderSel.lowDigit, pUnwrapOr, pFirst, pDigits, u64Digits_small r h0 h]

/-- `leader_weighted_eligibility`: for a weight in `1 … 2^64` it never panics and is `hash mod weight`. -/
theorem eligibility_eq (hash w : Nat) (h0 : 0 < w) (h : w ≤ U64) :
    LeaderSel.eligibility hash w = some (hash % w) := by
  have hw : w ≠ 0 := by omega
  have hlt : hash % w < U64 := Nat.lt_of_lt_of_le (Nat.mod_lt _ h0) h
  have hr : LeaderSel.reduce hash w = some (hash % w) := by simp [LeaderSel.reduce, pRem, hw]
  rw [LeaderSel.eligibility, hr, Option.bind_some, lowDigit_eq _ hlt]

/-! ## Keys, weights, sortedness -/

def keys (l : List VInfo) : List Nat := l.map (·.key)
def sumW (l : List VInfo) : Nat := (l.map (·.weight)).sum
/-- strictly increasing keys: the iteration order of the `BTreeMap` -/
def SortedK (l : List VInfo) : Prop := l.Pairwise (fun a b => a.key < b.key)
/-- the validators that may lead, in key order -/
def eligibleOf (l : List VInfo) : List VInfo := l.filter (·.leader)
/-- insertion of the whole input list into an empty map -/
def sortK (l : List VInfo) : List VInfo := l.foldl (fun m v => mapInsert v m) []

@[simp] theorem sumW_nil : sumW [] = 0 := rfl
@[simp] theorem sumW_cons (v : VInfo) (l : List VInfo) : sumW (v :: l) = v.weight + sumW l := by
  simp [sumW]
@[simp] theorem keys_nil : keys [] = [] := rfl
@[simp] theorem keys_cons (v : VInfo) (l : List VInfo) : keys (v :: l) = v.key :: keys l := rfl

theorem sumW_perm {l l' : List VInfo} (h : l.Perm l') : sumW l = sumW l' :=
  (h.map _).sum_nat

theorem containsKey_iff (m : List VInfo) (k : Nat) : containsKey m k = true ↔ k ∈ keys m := by
  simp only [containsKey, keys, List.any_eq_true, List.mem_map, beq_iff_eq]

theorem containsKey_false_iff (m : List VInfo) (k : Nat) : containsKey m k = false ↔ k ∉ keys m := by
  rw [← containsKey_iff]; simp

theorem mem_insert (v u : VInfo) (m : List VInfo) : u ∈ mapInsert v m → u = v ∨ u ∈ m := by
  induction m with
  | nil => simp [mapInsert]
  | cons x xs ih =>
    unfold mapInsert
    split
    · simp
    · split
      · simp only [List.mem_cons]; intro h; rcases h with h | h
        · exact .inl h
        · exact .inr (.inr h)
      · simp only [List.mem_cons]; intro h; rcases h with h | h
        · exact .inr (.inl h)
        · rcases ih h with h | h
          · exact .inl h
          · exact .inr (.inr h)

theorem insert_sorted (v : VInfo) (m : List VInfo) (h : SortedK m) : SortedK (mapInsert v m) := by
  induction m with
  | nil => simp [mapInsert, SortedK]
  | cons x xs ih =>
    unfold SortedK at h ih ⊢
    rw [List.pairwise_cons] at h
    unfold mapInsert
    split
    · rename_i hlt
      rw [List.pairwise_cons]
      refine ⟨?_, List.pairwise_cons.mpr h⟩
      intro a ha
      rcases List.mem_cons.mp ha with rfl | ha
      · exact hlt
      · exact Nat.lt_trans hlt (h.1 a ha)
    · split
      · rename_i heq
        rw [List.pairwise_cons]
        exact ⟨fun a ha => heq ▸ h.1 a ha, h.2⟩
      · rename_i hnlt hne
        rw [List.pairwise_cons]
        refine ⟨?_, ih h.2⟩
        intro a ha
        rcases mem_insert v a xs ha with rfl | ha
        · omega
        · exact h.1 a ha

theorem insert_perm (v : VInfo) (m : List VInfo) (h : v.key ∉ keys m) : (mapInsert v m).Perm (v :: m) := by
  induction m with
  | nil => simp [mapInsert]
  | cons x xs ih =>
    simp only [keys_cons, List.mem_cons, not_or] at h
    unfold mapInsert
    split
    · exact List.Perm.refl _
    · split
      · exact absurd ‹v.key = x.key› h.1
      · exact ((ih h.2).cons x).trans (List.Perm.swap v x xs)

theorem foldl_insert_sorted (vs m : List VInfo) (h : SortedK m) :
    SortedK (vs.foldl (fun m v => mapInsert v m) m) := by
  induction vs generalizing m with
  | nil => exact h
  | cons v vs ih => exact ih _ (insert_sorted v m h)

theorem foldl_insert_perm (vs m : List VInfo) (h : (keys (vs ++ m)).Nodup) :
    (vs.foldl (fun m v => mapInsert v m) m).Perm (vs ++ m) := by
  induction vs generalizing m with
  | nil => exact List.Perm.refl _
  | cons v vs ih =>
    have hv : v.key ∉ keys m := by
      simp only [keys, List.cons_append, List.map_cons, List.map_append, List.nodup_cons, List.mem_append,
        not_or] at h
      exact h.1.2
    have hp : (vs ++ mapInsert v m).Perm (v :: (vs ++ m)) :=
      ((insert_perm v m hv).append_left vs).trans List.perm_middle
    have hn : (keys (vs ++ mapInsert v m)).Nodup := by
      have := (hp.map (·.key)).nodup_iff.mpr (by simpa [keys] using h)
      simpa [keys] using this
    exact (ih _ hn).trans hp

theorem sortK_sorted (l : List VInfo) : SortedK (sortK l) :=
  foldl_insert_sorted l [] (by simp [SortedK])

theorem sortK_perm (l : List VInfo) (h : (keys l).Nodup) : (sortK l).Perm l := by
  have := foldl_insert_perm l [] (by simpa using h)
  simpa [sortK] using this

/-- two strictly key-sorted lists with the same elements are equal -/
theorem sorted_perm_eq {l l' : List VInfo} (h : SortedK l) (h' : SortedK l') (hp : l.Perm l') : l = l' :=
  List.Perm.eq_of_pairwise (le := fun (a b : VInfo) => a.key < b.key)
    (fun _ _ _ _ hab hba => absurd hab (Nat.lt_asymm hba)) h h' hp

/-- **the sorted vector does not depend on the order of the input list** -/
theorem sortK_perm_eq {l l' : List VInfo} (hp : l.Perm l') (hn : (keys l).Nodup) : sortK l = sortK l' := by
  have hn' : (keys l').Nodup := (hp.map (fun v : VInfo => v.key)).nodup_iff.mp hn
  exact sorted_perm_eq (sortK_sorted l) (sortK_sorted l')
    (((sortK_perm l hn).trans hp).trans (sortK_perm l' hn').symm)

/-! ## `Schedule::new`: what is accepted, what is returned -/

theorem keys_mapInsert (v : VInfo) (m : List VInfo) (k : Nat) :
    k ∈ keys (mapInsert v m) ↔ k = v.key ∨ k ∈ keys m := by
  induction m with
  | nil => simp [mapInsert]
  | cons x xs ih =>
    unfold mapInsert
    split
    · simp
    · split
      · rename_i heq; simp [heq]
      · simp only [keys_cons, List.mem_cons, ih]
        constructor
        · rintro (h | h | h)
          · exact .inr (.inl h)
          · exact .inl h
          · exact .inr (.inr h)
        · rintro (h | h | h)
          · exact .inr (.inl h)
          · exact .inl h
          · exact .inr (.inr h)

/-- one accepted iteration of the loop -/
def stepRes (a : Acc) (v : VInfo) : Acc :=
  { map := mapInsert v a.map, total := a.total + v.weight, lw := a.lw + (if v.leader then v.weight else 0) }

theorem newStep_cont (a : Acc) (v : VInfo) (h1 : v.key ∉ keys a.map) (h2 : 0 < v.weight)
    (h3 : a.total + v.weight < U64) (hlw : a.lw ≤ a.total) : newStep a v = .cont (stepRes a v) := by
  have hc : containsKey a.map v.key = false := (containsKey_false_iff _ _).mpr h1
  have h4 : a.lw + v.weight < U64 := by omega
  unfold newStep stepRes
  cases hl : v.leader <;> simp [hc, h2, h3, h4]

theorem newStep_err (a : Acc) (v : VInfo)
    (h : ¬ (v.key ∉ keys a.map ∧ 0 < v.weight ∧ a.total + v.weight < U64)) : ∃ e, newStep a v = .err e := by
  unfold newStep
  by_cases hc : containsKey a.map v.key = true
  · exact ⟨.duplicateKey, by simp [hc]⟩
  · have hc' : v.key ∉ keys a.map := by rwa [containsKey_iff] at hc
    by_cases h2 : 0 < v.weight
    · have h3 : ¬ a.total + v.weight < U64 := fun h3 => h ⟨hc', h2, h3⟩
      exact ⟨.weightOverflow, by simp [hc, h2, h3]⟩
    · exact ⟨.zeroWeight, by simp [hc, h2]⟩

/-- the condition under which the loop runs through, relative to the state it starts from -/
def LoopOk (vs : List VInfo) (a : Acc) : Prop :=
  (∀ v ∈ vs, v.key ∉ keys a.map) ∧ (keys vs).Nodup ∧ (∀ v ∈ vs, 0 < v.weight) ∧ a.total + sumW vs < U64

/-- the state after the loop -/
def loopRes (vs : List VInfo) (a : Acc) : Acc :=
  { map := vs.foldl (fun m v => mapInsert v m) a.map, total := a.total + sumW vs,
    lw := a.lw + sumW (eligibleOf vs) }

theorem loopOk_cons (v : VInfo) (vs : List VInfo) (a : Acc) :
    LoopOk (v :: vs) a ↔
      (v.key ∉ keys a.map ∧ 0 < v.weight ∧ a.total + v.weight < U64) ∧ LoopOk vs (stepRes a v) := by
  unfold LoopOk stepRes
  simp only [List.mem_cons, forall_eq_or_imp, keys_cons, List.nodup_cons, sumW_cons, keys_mapInsert, not_or]
  constructor
  · rintro ⟨⟨h1, h2⟩, ⟨h3, h4⟩, ⟨h5, h6⟩, h7⟩
    refine ⟨⟨h1, h5, by omega⟩, fun u hu => ⟨?_, h2 u hu⟩, h4, h6, by omega⟩
    intro he; exact h3 (he ▸ List.mem_map_of_mem (f := fun x : VInfo => x.key) hu)
  · rintro ⟨⟨h1, h5, h8⟩, h2, h4, h6, h7⟩
    refine ⟨⟨h1, fun u hu => (h2 u hu).2⟩, ⟨?_, h4⟩, ⟨h5, h6⟩, by omega⟩
    intro hm
    obtain ⟨u, hu, he⟩ := List.mem_map.mp hm
    exact (h2 u hu).1 he

theorem loopRes_cons (v : VInfo) (vs : List VInfo) (a : Acc) :
    loopRes (v :: vs) a = loopRes vs (stepRes a v) := by
  unfold loopRes stepRes eligibleOf
  cases hl : v.leader <;> simp [hl, Nat.add_assoc]

/-- **the loop of `Schedule::new`**: it never panics (the unchecked `leader_weight += …` cannot overflow because
`leader_weight ≤ total_weight`, and `total_weight` is kept below 2^64 by `checked_add`), and it runs through
exactly when `LoopOk` holds, ending in `loopRes`. -/
theorem newLoop_spec (vs : List VInfo) (a : Acc) (hlw : a.lw ≤ a.total) (hb : a.total < U64) :
    (∀ a', newLoop vs a = .cont a' ↔ LoopOk vs a ∧ a' = loopRes vs a) ∧
    (∀ site, newLoop vs a ≠ .panic site) := by
  induction vs generalizing a with
  | nil =>
    refine ⟨fun a' => ?_, fun site => by simp [newLoop]⟩
    simp only [newLoop, StepOut.cont.injEq, LoopOk, loopRes, eligibleOf]
    constructor
    · rintro rfl; simp [hb]
    · rintro ⟨_, h⟩; simp at h; exact h.symm
  | cons v vs ih =>
    by_cases hc : v.key ∉ keys a.map ∧ 0 < v.weight ∧ a.total + v.weight < U64
    · have hs := newStep_cont a v hc.1 hc.2.1 hc.2.2 hlw
      have hlw' : (stepRes a v).lw ≤ (stepRes a v).total := by
        unfold stepRes; cases v.leader <;> simp <;> omega
      have := ih (stepRes a v) hlw' hc.2.2
      have hlo : LoopOk (v :: vs) a ↔ LoopOk vs (stepRes a v) := by
        rw [loopOk_cons]; exact and_iff_right hc
      simp only [newLoop, hs, hlo, loopRes_cons]
      exact this
    · obtain ⟨e, he⟩ := newStep_err a v hc
      have hlo : ¬ LoopOk (v :: vs) a := by rw [loopOk_cons]; exact fun h => hc h.1
      simp only [newLoop, he]
      refine ⟨fun a' => ⟨?_, ?_⟩, ?_⟩
      · intro h; cases h
      · intro h; exact absurd h.1 hlo
      · intro site h; cases h

/-- the input lists `Schedule::new` accepts -/
structure Accept (vals : List VInfo) : Prop where
  nodup : (keys vals).Nodup
  pos : ∀ v ∈ vals, 0 < v.weight
  bound : sumW vals < U64
  nonempty : vals ≠ []
  hasLeader : ∃ v ∈ vals, v.leader = true

/-- the schedule it returns for them -/
def canon (vals : List VInfo) (sel : Sel) : Schedule :=
  { vec := sortK vals, totalWeight := sumW vals, leaders := leaderIdx 0 (sortK vals), sel := sel,
    leaderWeight := sumW (eligibleOf vals) }

theorem leaderIdx_eq_nil (i : Nat) (vs : List VInfo) : leaderIdx i vs = [] ↔ ∀ v ∈ vs, v.leader = false := by
  induction vs generalizing i with
  | nil => simp [leaderIdx]
  | cons v vs ih =>
    unfold leaderIdx
    cases hl : v.leader <;> simp [hl, ih]

theorem new_no_panic (vals : List VInfo) (sel : Sel) (site : String) : Schedule.new vals sel ≠ .panic site := by
  have h := (newLoop_spec vals ⟨[], 0, 0⟩ (Nat.le_refl _) (by decide)).2
  unfold Schedule.new
  split
  · simp
  · rename_i s hs; exact absurd hs (h s)
  · split
    · simp
    · dsimp only; split <;> simp

theorem new_ok_iff (vals : List VInfo) (sel : Sel) (s : Schedule) :
    Schedule.new vals sel = .ok s ↔ Accept vals ∧ s = canon vals sel := by
  have h := (newLoop_spec vals ⟨[], 0, 0⟩ (Nat.le_refl _) (by decide)).1
  have hloop : LoopOk vals ⟨[], 0, 0⟩ ↔ (keys vals).Nodup ∧ (∀ v ∈ vals, 0 < v.weight) ∧ sumW vals < U64 := by
    simp [LoopOk]
  have hres : loopRes vals ⟨[], 0, 0⟩ = ⟨sortK vals, sumW vals, sumW (eligibleOf vals)⟩ := by
    simp [loopRes, sortK]
  constructor
  · intro hnew
    unfold Schedule.new at hnew
    split at hnew
    · simp at hnew
    · simp at hnew
    · rename_i a ha
      obtain ⟨hok, rfl⟩ := (h a).mp ha
      rw [hres] at hnew
      simp only at hnew
      split at hnew
      · simp at hnew
      · rename_i hne
        split at hnew
        · simp at hnew
        · rename_i hnl
          obtain ⟨h1, h2, h3⟩ := hloop.mp hok
          have hp := sortK_perm vals h1
          refine ⟨⟨h1, h2, h3, ?_, ?_⟩, ?_⟩
          · rintro rfl; simp [sortK] at hne
          · have hnl' : leaderIdx 0 (sortK vals) ≠ [] := by simpa using hnl
            apply Classical.byContradiction; intro hno
            apply hnl'
            rw [leaderIdx_eq_nil]; intro v hv
            cases hl : v.leader with
            | false => rfl
            | true => exact absurd ⟨v, hp.mem_iff.mp hv, hl⟩ hno
          · simp only [NewOut.ok.injEq] at hnew
            rw [← hnew]; rfl
  · rintro ⟨hacc, rfl⟩
    have ha : newLoop vals ⟨[], 0, 0⟩ = .cont ⟨sortK vals, sumW vals, sumW (eligibleOf vals)⟩ := by
      rw [h]; exact ⟨hloop.mpr ⟨hacc.nodup, hacc.pos, hacc.bound⟩, hres.symm⟩
    have hp := sortK_perm vals hacc.nodup
    have hne : (sortK vals).isEmpty = false := by
      cases hv : vals with
      | nil => exact absurd hv hacc.nonempty
      | cons v vs =>
        have : v ∈ sortK (v :: vs) := (hv ▸ hp).mem_iff.mpr (by simp)
        cases hs : sortK (v :: vs) with
        | nil => rw [hs] at this; simp at this
        | cons _ _ => rfl
    have hnl : (leaderIdx 0 (sortK vals)).isEmpty = false := by
      obtain ⟨v, hv, hl⟩ := hacc.hasLeader
      cases hli : leaderIdx 0 (sortK vals) with
      | nil =>
        have := (leaderIdx_eq_nil 0 _).mp hli v (hp.mem_iff.mpr hv)
        simp [hl] at this
      | cons _ _ => rfl
    unfold Schedule.new
    rw [ha]
    simp only [hne, hnl, Bool.false_eq_true, if_false]
    rfl

/-! ## What `new` establishes about the schedule it returns -/

theorem sumW_filter_le (p : VInfo → Bool) (l : List VInfo) : sumW (l.filter p) ≤ sumW l := by
  induction l with
  | nil => simp
  | cons x xs ih =>
    rw [List.filter_cons]
    split <;> simp <;> omega

/-- `leaders` lists, in key order, exactly the positions of the eligible validators -/
theorem leaderIdx_resolve (pre vs : List VInfo) :
    (leaderIdx pre.length vs).map (fun l => (pre ++ vs)[l]?) = (eligibleOf vs).map some := by
  induction vs generalizing pre with
  | nil => simp [leaderIdx, eligibleOf]
  | cons v vs ih =>
    have h := ih (pre ++ [v])
    simp only [List.length_append, List.length_cons, List.length_nil, Nat.zero_add, List.append_assoc,
      List.cons_append, List.nil_append] at h
    unfold leaderIdx eligibleOf
    cases hl : v.leader
    · simpa [hl, eligibleOf] using h
    · simp only [hl, if_true, List.map_cons, List.filter_cons]
      refine congr (congrArg _ ?_) (by simpa [eligibleOf] using h)
      simp

/-- the facts about a constructed schedule that leader selection relies on -/
structure WF (s : Schedule) : Prop where
  sorted : SortedK s.vec
  resolve : s.leaders.map (fun l => s.vec[l]?) = (eligibleOf s.vec).map some
  elig_ne : eligibleOf s.vec ≠ []
  lw : s.leaderWeight = sumW (eligibleOf s.vec)
  lw_le : s.leaderWeight ≤ s.totalWeight
  total : s.totalWeight = sumW s.vec
  bound : s.totalWeight < U64
  pos : ∀ v ∈ s.vec, 0 < v.weight
  nodup : (keys s.vec).Nodup

theorem new_wf {vals : List VInfo} {sel : Sel} {s : Schedule} (h : Schedule.new vals sel = .ok s) : WF s := by
  obtain ⟨hacc, rfl⟩ := (new_ok_iff vals sel s).mp h
  have hp := sortK_perm vals hacc.nodup
  have hpe : (eligibleOf (sortK vals)).Perm (eligibleOf vals) := hp.filter _
  have hlw : sumW (eligibleOf vals) = sumW (eligibleOf (sortK vals)) := (sumW_perm hpe).symm
  have htot : sumW vals = sumW (sortK vals) := (sumW_perm hp).symm
  refine ⟨sortK_sorted vals, ?_, ?_, hlw, ?_, htot, hacc.bound, ?_, ?_⟩
  · simpa [canon] using leaderIdx_resolve [] (sortK vals)
  · obtain ⟨v, hv, hl⟩ := hacc.hasLeader
    intro hnil
    change eligibleOf (sortK vals) = [] at hnil
    have : v ∈ eligibleOf (sortK vals) := hpe.mem_iff.mpr (by simp [eligibleOf, hv, hl])
    rw [hnil] at this; simp at this
  · show sumW (eligibleOf vals) ≤ sumW vals
    exact sumW_filter_le _ _
  · intro v hv; exact hacc.pos v (hp.mem_iff.mp hv)
  · exact (hp.map (fun v : VInfo => v.key)).nodup_iff.mpr hacc.nodup

/-! ## The specification of leader selection, and the refinement -/

/-- the validator whose weight interval contains `e`, the intervals being laid out in list order -/
def pick : List VInfo → Nat → Option VInfo
  | [], _ => none
  | v :: vs, e => if e < v.weight then some v else pick vs (e - v.weight)

/-- `view / frequency`; a frequency of 0 means the leader never rotates -/
def turnOf (frequency view : Nat) : Nat := if frequency = 0 then 0 else view / frequency

/-- the eligible validators of a schedule, in key order -/
def eligible (s : Schedule) : List VInfo := eligibleOf s.vec

/-- **specification**: round-robin indexes the eligible validators by `turn mod #eligible`; weighted picks the
validator whose weight interval contains `H turn mod (Σ eligible weights)`. -/
def specLeader (H : Nat → Nat) (s : Schedule) (view : Nat) : Option VInfo :=
  match s.sel.mode with
  | .roundRobin => (eligible s)[turnOf s.sel.frequency view % (eligible s).length]?
  | .weighted => pick (eligible s) (H (turnOf s.sel.frequency view) % sumW (eligible s))

theorem pick_mem {l : List VInfo} {e : Nat} {v : VInfo} (h : pick l e = some v) : v ∈ l := by
  induction l generalizing e with
  | nil => simp [pick] at h
  | cons x xs ih =>
    unfold pick at h
    split at h
    · cases h; simp
    · exact List.mem_cons_of_mem _ (ih h)

/-- the walk ends inside the list whenever the residue is below the sum of the weights -/
theorem pick_total (l : List VInfo) (e : Nat) (h : e < sumW l) : ∃ v, pick l e = some v := by
  induction l generalizing e with
  | nil => simp at h
  | cons x xs ih =>
    unfold pick
    split
    · exact ⟨x, rfl⟩
    · exact ih _ (by simp at h; omega)

/-- the loop of the weighted arm computes `pick`, and its running sum cannot overflow -/
theorem walk_eq (vec : List VInfo) (e : Nat) (ls : List Nat) (els : List VInfo) (off : Nat)
    (hres : ls.map (fun l => vec[l]?) = els.map some) (hoff : off ≤ e) (hb : off + sumW els < U64) :
    walk vec e ls off =
      match pick els (e - off) with
      | some v => .ok v.key
      | none => .panic "unreachable!()" := by
  induction ls generalizing els off with
  | nil =>
    cases els with
    | nil => simp [walk, pick]
    | cons _ _ => simp at hres
  | cons l ls ih =>
    cases els with
    | nil => simp at hres
    | cons x xs =>
      simp only [List.map_cons, List.cons.injEq] at hres
      simp only [sumW_cons] at hb
      have hlt : off + x.weight < U64 := by omega
      unfold walk pick
      simp only [hres.1, hlt, not_true_eq_false, if_false]
      by_cases hc : e < off + x.weight
      · have : e - off < x.weight := by omega
        simp [hc, this]
      · have hn : ¬ e - off < x.weight := by omega
        simp only [hc, hn, if_false]
        rw [ih xs (off + x.weight) hres.2 (by omega) (by omega)]
        have : e - (off + x.weight) = e - off - x.weight := by omega
        rw [this]

/-- **refinement**: on every schedule `new` can return, for every view and every hash function, `view_leader`
returns (no panic) the key of the validator the specification names. -/
theorem viewLeader_spec (H : Nat → Nat) {s : Schedule} (hwf : WF s) (view : Nat) :
    ∃ v, specLeader H s view = some v ∧ viewLeader H s view = .ok v.key := by
  have hlen : s.leaders.length = (eligible s).length := by
    have := congrArg List.length hwf.resolve
    simpa [eligible] using this
  have hpos : 0 < (eligible s).length := List.length_pos_iff.mpr hwf.elig_ne
  unfold viewLeader specLeader
  rw [turn_eq]
  show ∃ v, (match s.sel.mode with
      | .roundRobin => (eligible s)[turnOf s.sel.frequency view % (eligible s).length]?
      | .weighted => pick (eligible s) (H (turnOf s.sel.frequency view) % sumW (eligible s))) = some v ∧
    (match s.sel.mode with
      | .roundRobin =>
        match LeaderSel.rrIndex (turnOf s.sel.frequency view) s.leaders.length with
        | none => Out.panic "remainder with a divisor of zero (leaders.len())"
        | some i =>
          match s.leaders[i]? with
          | none => .panic "index out of bounds (self.leaders)"
          | some index =>
            match s.vec[index]? with
            | none => .panic "unwrap on None (self.get(index))"
            | some v => .ok v.key
      | .weighted =>
        match LeaderSel.eligibility (H (turnOf s.sel.frequency view)) s.leaderWeight with
        | none => .panic "leader_weighted_eligibility"
        | some e => walk s.vec e s.leaders 0) = .ok v.key
  generalize turnOf s.sel.frequency view = t
  cases s.sel.mode with
  | roundRobin =>
    simp only
    rw [rrIndex_eq t _ (by omega), hlen]
    have hi : t % (eligible s).length < (eligible s).length := Nat.mod_lt _ hpos
    have hi' : t % (eligible s).length < s.leaders.length := by omega
    have hr := congrArg (fun l => l[t % (eligible s).length]?) hwf.resolve
    simp only [List.getElem?_map, List.getElem?_eq_getElem hi', Option.map_some] at hr
    have he : (eligibleOf s.vec)[t % (eligible s).length]? = some ((eligible s)[t % (eligible s).length]) :=
      List.getElem?_eq_getElem hi
    rw [he, Option.map_some] at hr
    refine ⟨(eligible s)[t % (eligible s).length], List.getElem?_eq_getElem hi, ?_⟩
    simp only [List.getElem?_eq_getElem hi']
    rw [Option.some.inj hr]
  | weighted =>
    simp only
    have hw0 : 0 < s.leaderWeight := by
      rw [hwf.lw]
      cases he : eligibleOf s.vec with
      | nil => exact absurd he hwf.elig_ne
      | cons x xs =>
        have : x ∈ s.vec := (List.mem_filter.mp (he ▸ List.mem_cons_self : x ∈ eligibleOf s.vec)).1
        have := hwf.pos x this
        simp; omega
    have hwb : s.leaderWeight ≤ U64 := by have := hwf.lw_le; have := hwf.bound; omega
    rw [eligibility_eq _ _ hw0 hwb]
    simp only
    have hlt : H t % s.leaderWeight < sumW (eligible s) := by
      have := Nat.mod_lt (H t) hw0
      rw [hwf.lw] at this ⊢; exact this
    rw [walk_eq s.vec _ s.leaders (eligible s) 0 hwf.resolve (Nat.zero_le _)
      (by have := hwf.lw_le; have := hwf.bound; have := hwf.lw; unfold eligible; omega)]
    obtain ⟨v, hv⟩ := pick_total _ _ hlt
    have hlw : sumW (eligible s) = s.leaderWeight := hwf.lw.symm
    rw [hlw]
    simp only [Nat.sub_zero]
    exact ⟨v, hv, by rw [hv]⟩

/-! ## Order independence -/

theorem accept_perm {vals vals' : List VInfo} (hp : vals'.Perm vals) (h : Accept vals) : Accept vals' := by
  refine ⟨(hp.map (fun v : VInfo => v.key)).nodup_iff.mpr h.nodup, fun v hv => h.pos v (hp.mem_iff.mp hv), ?_, ?_, ?_⟩
  · rw [sumW_perm hp]; exact h.bound
  · intro hnil; subst hnil; exact h.nonempty (List.eq_nil_of_length_eq_zero (by simpa using hp.length_eq.symm))
  · obtain ⟨v, hv, hl⟩ := h.hasLeader; exact ⟨v, hp.mem_iff.mpr hv, hl⟩

theorem canon_perm {vals vals' : List VInfo} (hp : vals'.Perm vals) (hn : (keys vals).Nodup) (sel : Sel) :
    canon vals' sel = canon vals sel := by
  have hn' : (keys vals').Nodup := (hp.map (fun v : VInfo => v.key)).nodup_iff.mpr hn
  unfold canon
  have he : sumW (eligibleOf vals') = sumW (eligibleOf vals) := sumW_perm (hp.filter _)
  rw [sortK_perm_eq hp hn', sumW_perm hp, he]

/-! ## Exact proportionality of the weighted walk over the residues -/

/-- the key `pick` returns -/
def pickKey (l : List VInfo) (e : Nat) : Option Nat := (pick l e).map (·.key)

/-- among the residues `0 … Σ weights − 1`, exactly `v.weight` select `v` -/
theorem pick_count (l : List VInfo) (hn : (keys l).Nodup) (v : VInfo) (hv : v ∈ l) :
    (List.range (sumW l)).countP (fun e => pickKey l e == some v.key) = v.weight := by
  induction l with
  | nil => simp at hv
  | cons x xs ih =>
    simp only [keys_cons, List.nodup_cons] at hn
    rw [sumW_cons, List.range_add, List.countP_append, List.countP_map]
    have hfirst : ∀ e ∈ List.range x.weight, pickKey (x :: xs) e = some x.key := by
      intro e he
      have he' : e < x.weight := by simpa using he
      simp [pickKey, pick, he']
    have hsecond : ∀ e, pickKey (x :: xs) (x.weight + e) = pickKey xs e := by
      intro e
      have h1 : ¬ x.weight + e < x.weight := by omega
      have h2 : x.weight + e - x.weight = e := by omega
      simp [pickKey, pick, h1, h2]
    have hkeyxs : ∀ e k, pickKey xs e = some k → k ∈ keys xs := by
      intro e k h
      simp only [pickKey, Option.map_eq_some_iff] at h
      obtain ⟨u, hu, rfl⟩ := h
      exact List.mem_map_of_mem (pick_mem hu)
    rcases List.mem_cons.mp hv with rfl | hv'
    · have h1 : (List.range v.weight).countP (fun e => pickKey (v :: xs) e == some v.key) = v.weight := by
        rw [List.countP_eq_length.mpr]
        · simp
        · intro e he; simp [hfirst e he]
      have h2 : (List.range (sumW xs)).countP
          ((fun e => pickKey (v :: xs) e == some v.key) ∘ fun e => v.weight + e) = 0 := by
        rw [List.countP_eq_zero]
        intro e _
        simp only [Function.comp, hsecond, beq_iff_eq]
        intro h; exact hn.1 (hkeyxs e _ h)
      omega
    · have hne : x.key ≠ v.key := by
        intro he; exact hn.1 (he ▸ List.mem_map_of_mem (f := fun u : VInfo => u.key) hv')
      have h1 : (List.range x.weight).countP (fun e => pickKey (x :: xs) e == some v.key) = 0 := by
        rw [List.countP_eq_zero]
        intro e he; simp [hfirst e he, hne]
      have h2 : (List.range (sumW xs)).countP
          ((fun e => pickKey (x :: xs) e == some v.key) ∘ fun e => x.weight + e) = v.weight := by
        rw [← ih hn.2 hv']
        apply List.countP_congr
        intro e _
        simp [Function.comp, hsecond]
      omega

end EraVerif.Proofs.Leader
