import EraVerif.Model.Noise
namespace EraVerif.Proofs.Noise
open EraVerif.Model.Noise EraVerif.Gen.NoiseConst

theorem enc_length (k : Nat) (p : List Nat) : (enc k p).length = p.length + SNOW_TAGLEN := by
  simp [enc]

theorem enc_take_pt (k : Nat) (p : List Nat) :
    ((enc k p).take ((enc k p).length - SNOW_TAGLEN)).map WByte.pt = p := by
  rw [enc_length]
  simp only [Nat.add_sub_cancel]
  unfold enc
  rw [List.take_left' (by simp)]
  rw [List.map_map]
  have : (WByte.pt ∘ fun xj : Nat × Nat => WByte.ct k xj.2 xj.1) = Prod.fst := by
    funext xj; simp [WByte.pt]
  rw [this, List.zipIdx_map_fst]

theorem dec_enc (k : Nat) (p : List Nat) : dec k (enc k p) = some p := by
  unfold dec
  have h1 : ¬ (enc k p).length < SNOW_TAGLEN := by rw [enc_length]; omega
  simp only [h1, if_false, enc_take_pt, if_true]

theorem dec_eq_some_iff (k : Nat) (c : List WByte) (p : List Nat) : dec k c = some p ↔ c = enc k p := by
  constructor
  · intro h
    unfold dec at h
    split at h
    · cases h
    · simp only at h
      split at h
      · rename_i heq
        injection h with h
        rw [h] at heq; exact heq
      · cases h
  · intro h; rw [h]; exact dec_enc k p

/-! ## The specification of the read side: split a byte stream into frames, authenticate each in sequence -/

inductive PStatus where
  /-- the stream ends exactly at a frame boundary -/
  | clean
  /-- the stream ends inside a frame (header or body incomplete) -/
  | truncated
  /-- the next complete frame does not authenticate under the expected nonce -/
  | bad
deriving DecidableEq, Repr

/-- Longest prefix of frames of `s` that authenticate under nonces `k, k+1, …`: their payloads, and why it stops. -/
def parse (cv : Nat → Nat → Nat) (k : Nat) (s : List WByte) : List (List Nat) × PStatus :=
  match s with
  | [] => ([], .clean)
  | [_] => ([], .truncated)
  | a :: b :: t =>
    if t.length < le16 cv a b then ([], .truncated)
    else
      match dec k (t.take (le16 cv a b)) with
      | none => ([], .bad)
      | some p =>
        (p :: (parse cv (k + 1) (t.drop (le16 cv a b))).1, (parse cv (k + 1) (t.drop (le16 cv a b))).2)
termination_by s.length
decreasing_by all_goals simp; omega

theorem parse_nil (cv) (k : Nat) : parse cv k [] = ([], .clean) := by rw [parse]
theorem parse_single (cv) (k : Nat) (a : WByte) : parse cv k [a] = ([], .truncated) := by rw [parse]
theorem parse_cons_cons (cv) (k : Nat) (a b : WByte) (t : List WByte) :
    parse cv k (a :: b :: t) =
      if t.length < le16 cv a b then ([], .truncated)
      else match dec k (t.take (le16 cv a b)) with
        | none => ([], .bad)
        | some p =>
          (p :: (parse cv (k + 1) (t.drop (le16 cv a b))).1, (parse cv (k + 1) (t.drop (le16 cv a b))).2) := by
  rw [parse]

theorem le16_le (cv) (a b : WByte) : le16 cv a b ≤ 65535 := by
  unfold le16
  have h1 := Nat.mod_lt (a.val cv) (by decide : 256 > 0)
  have h2 := Nat.mod_lt (b.val cv) (by decide : 256 > 0)
  omega

/-- For every frame length a `u16` can announce, `read_message` into the (reset) payload buffer performs exactly the
authenticated decryption: the size checks of snow never fire. Uses `MAX_PAYLOAD_LEN + TAGLEN ≥ 65535`. -/
theorem readMessage_eq_dec (k : Nat) (c : List WByte) (h : c.length ≤ 65535) :
    readMessage k c MAX_PAYLOAD_LEN = dec k c := by
  unfold readMessage
  have h1 : ¬ c.length > SNOW_MAXMSGLEN := by simp [SNOW_MAXMSGLEN]; omega
  simp only [h1, if_false]
  by_cases h2 : c.length < SNOW_TAGLEN
  · simp [h2, dec]
  · have h3 : ¬ MAX_PAYLOAD_LEN < c.length - SNOW_TAGLEN := by
      simp [MAX_PAYLOAD_LEN, SNOW_TAGLEN]; omega
    simp [h2, h3]

/-- header test on the buffered bytes: `some n` iff two length bytes and `n` further bytes are buffered -/
def hdr (cv : Nat → Nat → Nat) : List WByte → Option Nat
  | a :: b :: t => if le16 cv a b ≤ t.length then some (le16 cv a b) else none
  | _ => none

theorem frameReady_eq (cv) (f : Buffer WByte) (hb : f.begin = 0) : frameReady cv f = .ok (hdr cv f.data) := by
  unfold frameReady Buffer.prefix2 Buffer.len Buffer.stop Buffer.slice
  rw [hb]
  match hd : f.data with
  | [] => simp [hdr, LENGTH_FIELD_LEN]
  | [a] => simp [hdr, LENGTH_FIELD_LEN]
  | a :: b :: t =>
    simp only [hdr, LENGTH_FIELD_LEN, List.drop, List.length_cons, Nat.sub_zero]
    have : t.length + 1 + 1 ≥ 2 := by omega
    simp only [this, if_true]
    by_cases h : le16 cv a b ≤ t.length
    · have : t.length + 1 + 1 ≥ 2 + le16 cv a b := by omega
      simp [h, this]
    · have : ¬ t.length + 1 + 1 ≥ 2 + le16 cv a b := by omega
      simp [h, this]

/-- representation invariant of the read half -/
structure RInv (r : Reader) : Prop where
  fb : r.frame.begin = 0
  fc : r.frame.cap = MAX_FRAME_LEN
  fl : r.frame.data.length ≤ MAX_FRAME_LEN
  pc : r.payload.cap = MAX_PAYLOAD_LEN
  pb : r.payload.begin ≤ r.payload.data.length
  pl : r.payload.data.length ≤ MAX_PAYLOAD_LEN

theorem RInv_init : RInv Reader.init := by
  constructor <;> simp [Reader.init, Buffer.new]

theorem take_append_drop_len {α : Type} (n : Nat) (l : List α) : l.take n ++ l.drop (l.take n).length = l := by
  rw [List.length_take]
  by_cases h : n ≤ l.length
  · rw [Nat.min_eq_left h]; exact List.take_append_drop n l
  · have h' : l.length ≤ n := by omega
    rw [Nat.min_eq_right h', List.take_of_length_le h', List.drop_length, List.append_nil]

theorem RInv.cap_le {r : Reader} (hi : RInv r) : r.frame.capacity ≤ MAX_FRAME_LEN := by
  unfold Buffer.capacity; rw [hi.fc]; omega

theorem pollReadFrame_spec (cv) (script : List RdEv) : ∀ (r : Reader) (wire : List WByte), RInv r →
    ∃ o, pollReadFrame cv script r wire = .ok o ∧ RInv o.r ∧ o.r.payload = r.payload ∧ o.r.nonce = r.nonce ∧
      o.r.frame.data ++ o.wire = r.frame.data ++ wire ∧
      (∀ n, o.res = .ready (some n) → hdr cv o.r.frame.data = some n) ∧
      (∀ e, o.res = .err e → e = .transport) ∧
      (∀ e ∈ o.trace, e.1 ≤ MAX_FRAME_LEN) ∧
      o.wire.length ≤ wire.length := by
  induction script with
  | nil =>
    intro r wire hi
    unfold pollReadFrame
    rw [frameReady_eq cv _ hi.fb]
    cases h : hdr cv r.frame.data with
    | none =>
      refine ⟨_, rfl, hi, rfl, rfl, rfl, ?_, ?_, ?_, Nat.le_refl _⟩
      · intro n hn; cases hn
      · intro e he; simp at he
      · intro e he; simp at he; subst he; exact hi.cap_le
    | some n =>
      refine ⟨_, rfl, hi, rfl, rfl, rfl, ?_, ?_, ?_, Nat.le_refl _⟩
      · intro n' hn; simp at hn; subst hn; exact h
      · intro e he; simp at he
      · intro e he; simp at he
  | cons ev rest ih =>
    intro r wire hi
    unfold pollReadFrame
    rw [frameReady_eq cv _ hi.fb]
    cases h : hdr cv r.frame.data with
    | some n =>
      refine ⟨_, rfl, hi, rfl, rfl, rfl, ?_, ?_, ?_, Nat.le_refl _⟩
      · intro n' hn; simp at hn; subst hn; exact h
      · intro e he; simp at he
      · intro e he; simp at he
    | none =>
      cases ev with
      | pending =>
        refine ⟨_, rfl, hi, rfl, rfl, rfl, ?_, ?_, ?_, Nat.le_refl _⟩
        · intro n hn; cases hn
        · intro e he; simp at he; try (exact he.symm)
        · intro e he; simp at he; subst he; exact hi.cap_le
      | err =>
        refine ⟨_, rfl, hi, rfl, rfl, rfl, ?_, ?_, ?_, Nat.le_refl _⟩
        · intro n hn; cases hn
        · intro e he; simp at he; try (exact he.symm)
        · intro e he; simp at he; subst he; exact hi.cap_le
      | give k =>
        simp only
        generalize hbs : List.take (min k r.frame.capacity) wire = bs
        have hlen : bs.length ≤ r.frame.capacity := by
          rw [← hbs, List.length_take]; omega
        have hwire : bs ++ wire.drop bs.length = wire := by
          rw [← hbs]; exact take_append_drop_len _ _
        by_cases hemp : bs.isEmpty
        · simp only [hemp, if_true]
          refine ⟨_, rfl, hi, rfl, rfl, rfl, ?_, ?_, ?_, Nat.le_refl _⟩
          · intro n hn; simp at hn
          · intro e he; simp at he
          · intro e he; simp at he; subst he; exact hi.cap_le
        · simp only [hemp]
          have hfit : r.frame.stop + bs.length ≤ r.frame.cap := by
            unfold Buffer.capacity at hlen; unfold Buffer.stop at *; have := hi.fl; have := hi.fc; omega
          simp only [Buffer.extendWith, hfit, if_true]
          have hi' : RInv { r with frame := { r.frame with data := r.frame.data ++ bs } } := by
            refine ⟨hi.fb, hi.fc, ?_, hi.pc, hi.pb, hi.pl⟩
            unfold Buffer.stop at hfit; rw [hi.fc] at hfit; simpa using hfit
          obtain ⟨o, ho, hio, hp, hn, hw, hr, he', ht, hwl⟩ := ih _ (wire.drop bs.length) hi'
          simp only [ho]
          refine ⟨_, rfl, hio, hp, hn, ?_, hr, he', ?_, ?_⟩
          · simp only [] at hw ⊢
            rw [hw, List.append_assoc, hwire]
          · intro e he
            simp at he
            rcases he with rfl | he
            · exact hi.cap_le
            · exact ht e he
          · simp only [List.length_drop] at hwl; simp only []; omega

/-- What the read half still owes the caller: the buffered plaintext, then the payloads of every further frame of
(buffered bytes ++ rest of the stream) that authenticates in sequence. -/
def todo (cv : Nat → Nat → Nat) (r : Reader) (wire : List WByte) : List Nat :=
  r.payload.slice ++ (parse cv r.nonce (r.frame.slice ++ wire)).1.flatten

/-- why the read half will stop once `todo` is exhausted -/
def rstatus (cv : Nat → Nat → Nat) (r : Reader) (wire : List WByte) : PStatus :=
  (parse cv r.nonce (r.frame.slice ++ wire)).2

theorem RInv.fslice {r : Reader} (hi : RInv r) : r.frame.slice = r.frame.data := by
  unfold Buffer.slice; rw [hi.fb]; rfl

theorem slice_nil_of_len_zero {α : Type} (b : Buffer α) (h : b.len = 0) :
    b.slice = [] := by
  unfold Buffer.len Buffer.stop at h
  unfold Buffer.slice
  apply List.drop_eq_nil_of_le; omega

theorem hdr_some {cv} {s : List WByte} {n : Nat} (h : hdr cv s = some n) :
    ∃ a b t, s = a :: b :: t ∧ n = le16 cv a b ∧ n ≤ t.length := by
  match s, h with
  | a :: b :: t, h =>
    simp only [hdr] at h
    by_cases hc : le16 cv a b ≤ t.length
    · simp only [hc, if_true] at h
      injection h with h; exact ⟨a, b, t, rfl, h.symm, by omega⟩
    · simp [hc] at h
  | [], h => simp [hdr] at h
  | [_], h => simp [hdr] at h

/-- payloads of the frames of (buffered bytes ++ rest of the stream) that will still authenticate in sequence -/
def chunksOf (cv : Nat → Nat → Nat) (r : Reader) (wire : List WByte) : List (List Nat) :=
  (parse cv r.nonce (r.frame.slice ++ wire)).1

/-- how the outcome of `poll_read_payload` (with an empty payload buffer) derives from that of `poll_read_frame` -/
def PayLink (cv : Nat → Nat → Nat) (r : Reader) (wire : List WByte) (f : ROut (Option Nat)) (o : ROut Unit) : Prop :=
  match f.res with
  | .pending => o.res = .pending
  | .err e => o.res = .err e
  | .ready none => o.res = .ready () ∧ o.r = f.r ∧ o.wire = f.wire
  | .ready (some _) =>
    (o.res = .err .invalidData ∧ parse cv r.nonce (r.frame.slice ++ wire) = ([], .bad)) ∨
    (o.res = .ready () ∧ ∃ c rest st, parse cv r.nonce (r.frame.slice ++ wire) = (c :: rest, st) ∧
      o.r.payload.slice = c)

theorem pollReadPayload_spec (cv) (script : List RdEv) (r : Reader) (wire : List WByte) (hi : RInv r) :
    ∃ o, pollReadPayload cv script r wire = .ok o ∧ RInv o.r ∧
      todo cv o.r o.wire = todo cv r wire ∧ rstatus cv o.r o.wire = rstatus cv r wire ∧
      (o.res = .err .invalidData → rstatus cv r wire = .bad ∧ todo cv r wire = []) ∧
      (∀ e ∈ o.trace, e.1 ≤ MAX_FRAME_LEN) ∧
      (r.payload.len = 0 → ∃ f, pollReadFrame cv script r wire = .ok f ∧ PayLink cv r wire f o) ∧
      (chunksOf cv o.r o.wire = chunksOf cv r wire ∨
        (r.payload.slice = [] ∧ ∃ p, chunksOf cv r wire = p :: chunksOf cv o.r o.wire ∧ o.r.payload.slice = p)) ∧
      o.wire.length ≤ wire.length := by
  unfold pollReadPayload
  by_cases hp : r.payload.len > 0
  · simp only [hp, if_true]
    refine ⟨_, rfl, hi, rfl, rfl, ?_, ?_, ?_, Or.inl rfl, Nat.le_refl _⟩
    · intro h; cases h
    · intro e he; simp at he
    · intro h; omega
  · simp only [hp, if_false]
    have hp0 : r.payload.slice = [] := slice_nil_of_len_zero _ (by omega)
    obtain ⟨o, ho, hio, hpay, hn, hw, hr, herr, ht, hwl⟩ := pollReadFrame_spec cv script r wire hi
    simp only [ho]
    have hsame : todo cv o.r o.wire = todo cv r wire ∧ rstatus cv o.r o.wire = rstatus cv r wire := by
      unfold todo rstatus; rw [hpay, hn, hio.fslice, hi.fslice, hw]; exact ⟨rfl, rfl⟩
    have hpeq : parse cv r.nonce (r.frame.slice ++ wire) = parse cv o.r.nonce (o.r.frame.slice ++ o.wire) := by
      rw [hn, hio.fslice, hi.fslice, hw]
    have hceq : chunksOf cv o.r o.wire = chunksOf cv r wire := by unfold chunksOf; rw [hpeq]
    cases hres : o.res with
    | pending =>
      refine ⟨_, rfl, hio, hsame.1, hsame.2, ?_, ht, fun _ => ⟨o, rfl, by simp [PayLink, hres]⟩, Or.inl hceq, hwl⟩
      intro h; cases h
    | err e =>
      refine ⟨_, rfl, hio, hsame.1, hsame.2, ?_, ht, fun _ => ⟨o, rfl, by simp [PayLink, hres]⟩, Or.inl hceq, hwl⟩
      intro h
      have := herr e hres
      simp at h; subst h; cases this
    | ready x =>
      cases x with
      | none =>
        refine ⟨_, rfl, hio, hsame.1, hsame.2, ?_, ht, fun _ => ⟨o, rfl, by simp [PayLink, hres]⟩, Or.inl hceq, hwl⟩
        intro h; cases h
      | some n =>
        obtain ⟨a, b, t, hd, hnab, hnt⟩ := hdr_some (hr n hres)
        have hn65 : n ≤ 65535 := by rw [hnab]; exact le16_le cv a b
        have hsl : o.r.frame.slice = a :: b :: t := by rw [hio.fslice, hd]
        have hlen : ¬ o.r.frame.slice.length < LENGTH_FIELD_LEN + n := by
          rw [hsl]; simp [LENGTH_FIELD_LEN]; omega
        simp only [hlen, if_false]
        have hc : (o.r.frame.slice.drop LENGTH_FIELD_LEN).take n = t.take n := by
          rw [hsl]; simp [LENGTH_FIELD_LEN]
        have hcap : o.r.payload.reset.capacity = MAX_PAYLOAD_LEN := by
          simp [Buffer.reset, Buffer.capacity, Buffer.stop, hio.pc]
        rw [hc, hcap, readMessage_eq_dec _ _ (by rw [List.length_take]; omega)]
        -- the specification unfolds the same way
        have hparse : parse cv o.r.nonce (o.r.frame.slice ++ o.wire) =
            match dec o.r.nonce (t.take n) with
            | none => ([], .bad)
            | some p => (p :: (parse cv (o.r.nonce + 1) (t.drop n ++ o.wire)).1,
                         (parse cv (o.r.nonce + 1) (t.drop n ++ o.wire)).2) := by
          rw [hsl]
          simp only [List.cons_append]
          rw [parse_cons_cons, ← hnab]
          have : ¬ (t ++ o.wire).length < n := by simp; omega
          simp only [this, if_false]
          rw [List.take_append_of_le_length hnt, List.drop_append_of_le_length hnt]
        have hp0' : o.r.payload.slice = [] := by rw [hpay]; exact hp0
        cases hdec : dec o.r.nonce (t.take n) with
        | none =>
          simp only
          rw [hdec] at hparse
          have hst : rstatus cv o.r o.wire = .bad := by unfold rstatus; rw [hparse]
          have htd : todo cv o.r o.wire = [] := by unfold todo; rw [hparse, hp0']; rfl
          refine ⟨_, rfl, ?_, ?_, ?_, ?_, ht, fun _ => ⟨o, rfl, by simp [PayLink, hres, hpeq, hparse]⟩, Or.inl ?_, hwl⟩
          · exact ⟨hio.fb, hio.fc, hio.fl, hio.pc, by simp [Buffer.reset], by simp [Buffer.reset]⟩
          · rw [← hsame.1, htd]; unfold todo; simp only [hparse]; simp [Buffer.reset, Buffer.slice]
          · rw [← hsame.2, hst]; unfold rstatus; simp only [hparse]
          · intro _; rw [← hsame.1, ← hsame.2]; exact ⟨hst, htd⟩
          · rw [← hceq]; unfold chunksOf; rfl
        | some p =>
          simp only
          rw [hdec] at hparse
          have hpl : p.length + SNOW_TAGLEN = n := by
            have := (dec_eq_some_iff _ _ _).mp hdec
            have h2 := congrArg List.length this
            rw [enc_length, List.length_take, Nat.min_eq_left hnt] at h2
            omega
          have htake : o.r.frame.begin + (LENGTH_FIELD_LEN + n) ≤ o.r.frame.stop := by
            rw [hio.fb]; unfold Buffer.stop; rw [hd]; simp [LENGTH_FIELD_LEN]; omega
          have hext : o.r.payload.reset.stop + p.length ≤ o.r.payload.reset.cap := by
            simp [Buffer.reset, Buffer.stop, hio.pc, MAX_PAYLOAD_LEN]; simp [SNOW_TAGLEN] at hpl; omega
          simp only [Buffer.take, htake, if_true, Buffer.extendWith, hext]
          refine ⟨_, rfl, ?_, ?_, ?_, ?_, ht, fun _ => ⟨o, rfl, by
            simp only [PayLink, hres]
            refine Or.inr ⟨trivial, p, (parse cv (o.r.nonce + 1) (List.drop n t ++ o.wire)).1,
              (parse cv (o.r.nonce + 1) (List.drop n t ++ o.wire)).2, ?_, ?_⟩
            · rw [hpeq, hparse]
            · simp [Buffer.slice, Buffer.reset]⟩, Or.inr ⟨hp0, p, ?_, by simp [Buffer.slice, Buffer.reset]⟩, hwl⟩
          · refine ⟨by simp [Buffer.shift], by simp [Buffer.shift, hio.fc], ?_, by simp [Buffer.reset, hio.pc],
              by simp [Buffer.reset], ?_⟩
            · simp [Buffer.shift]; have := hio.fl; omega
            · simp [Buffer.reset]; simp [Buffer.reset, Buffer.stop, hio.pc] at hext; exact hext
          · rw [← hsame.1]
            unfold todo
            simp only [hparse, hp0']
            simp [Buffer.shift, Buffer.slice, Buffer.reset, hio.fb, hd, LENGTH_FIELD_LEN]
            have hdd : List.drop (2 + n) (a :: b :: t) = List.drop n t := by
              rw [Nat.add_comm]; rfl
            rw [hdd]
          · rw [← hsame.2]
            unfold rstatus
            simp only [hparse]
            simp [Buffer.shift, Buffer.slice, hio.fb, hd, LENGTH_FIELD_LEN]
            have hdd : List.drop (2 + n) (a :: b :: t) = List.drop n t := by
              rw [Nat.add_comm]; rfl
            rw [hdd]
          · intro h; cases h
          · rw [← hceq]
            unfold chunksOf
            rw [hparse]
            simp [Buffer.shift, Buffer.slice, hio.fb, hd, LENGTH_FIELD_LEN]
            have hdd : List.drop (2 + n) (a :: b :: t) = List.drop n t := by
              rw [Nat.add_comm]; rfl
            rw [hdd]

/-- **One `poll_read`, any buffer size, any behaviour of the transport during the call**: it never panics, keeps the
representation invariant, and hands out a prefix of what is owed — nothing else, nothing twice. -/
theorem pollRead_spec (cv) (m : Nat) (script : List RdEv) (r : Reader) (wire : List WByte) (hi : RInv r) :
    ∃ o, pollRead cv m script r wire = .ok o ∧ RInv o.r ∧
      todo cv r wire = delivered o.res ++ todo cv o.r o.wire ∧
      rstatus cv o.r o.wire = rstatus cv r wire ∧
      (delivered o.res).length ≤ m ∧
      (o.res = .err .invalidData → rstatus cv r wire = .bad ∧ todo cv r wire = []) ∧
      (∀ e ∈ o.trace, e.1 ≤ MAX_FRAME_LEN) ∧
      (chunksOf cv o.r o.wire = chunksOf cv r wire ∨ ∃ p, chunksOf cv r wire = p :: chunksOf cv o.r o.wire) ∧
      o.wire.length ≤ wire.length := by
  unfold pollRead
  obtain ⟨o, ho, hio, htd, hst, hbad, ht, _, hch, hwl⟩ := pollReadPayload_spec cv script r wire hi
  have hch' : chunksOf cv o.r o.wire = chunksOf cv r wire ∨ ∃ p, chunksOf cv r wire = p :: chunksOf cv o.r o.wire := by
    rcases hch with h | ⟨_, p, h, _⟩
    · exact Or.inl h
    · exact Or.inr ⟨p, h⟩
  simp only [ho]
  cases hres : o.res with
  | pending =>
    refine ⟨_, rfl, hio, ?_, hst, by simp [delivered], ?_, ht, hch', hwl⟩
    · simp [delivered, htd]
    · intro h; cases h
  | err e =>
    refine ⟨_, rfl, hio, ?_, hst, by simp [delivered], ?_, ht, hch', hwl⟩
    · simp [delivered, htd]
    · intro h; simp at h; subst h; exact hbad hres
  | ready u =>
    have htake : o.r.payload.begin + min m o.r.payload.len ≤ o.r.payload.stop := by
      unfold Buffer.len Buffer.stop; have := hio.pb; omega
    simp only [Buffer.take, htake, if_true]
    refine ⟨_, rfl, ?_, ?_, ?_, ?_, ?_, ht, hch', hwl⟩
    · refine ⟨hio.fb, hio.fc, hio.fl, hio.pc, ?_, hio.pl⟩
      simp; unfold Buffer.stop at htake; exact htake
    · rw [← htd]
      unfold todo
      simp only [delivered, Buffer.slice]
      rw [← List.append_assoc]
      congr 1
      rw [← List.drop_drop]
      exact (List.take_append_drop _ _).symm
    · rw [← hst]; rfl
    · simp [delivered, List.length_take]; omega
    · intro h; cases h

/-! ## A transport that keeps delivering (no `Pending`, no error, no premature EOF) -/

/-- every answer of the transport during the call delivers at least one byte while bytes are left -/
def Generous (script : List RdEv) : Prop := ∀ e ∈ script, ∃ k, 0 < k ∧ e = RdEv.give k

theorem hdr_none_length {cv} {s : List WByte} (h : hdr cv s = none) : s.length < 65537 := by
  match s, h with
  | [], _ => simp
  | [_], _ => simp
  | a :: b :: t, h =>
    simp only [hdr] at h
    by_cases hc : le16 cv a b ≤ t.length
    · simp [hc] at h
    · have := le16_le cv a b
      simp only [List.length_cons]; omega

theorem pollReadFrame_generous (cv) (script : List RdEv) : ∀ (r : Reader) (wire : List WByte), RInv r →
    Generous script → wire.length < script.length →
    ∃ o, pollReadFrame cv script r wire = .ok o ∧
      ((∃ n, o.res = .ready (some n)) ∨ (o.res = .ready none ∧ o.wire = [] ∧ hdr cv o.r.frame.data = none)) := by
  induction script with
  | nil => intro r wire _ _ hl; simp at hl
  | cons ev rest ih =>
    intro r wire hi hg hl
    obtain ⟨k, hk, rfl⟩ := hg ev (by simp)
    unfold pollReadFrame
    rw [frameReady_eq cv _ hi.fb]
    cases h : hdr cv r.frame.data with
    | some n => exact ⟨_, rfl, Or.inl ⟨n, rfl⟩⟩
    | none =>
      simp only
      have hcap : 0 < r.frame.capacity := by
        have := hdr_none_length h
        unfold Buffer.capacity Buffer.stop; rw [hi.fc]; simp [MAX_FRAME_LEN]; omega
      generalize hbs : List.take (min k r.frame.capacity) wire = bs
      have hlen : bs.length ≤ r.frame.capacity := by
        rw [← hbs, List.length_take]; omega
      by_cases hemp : bs.isEmpty
      · simp only [hemp, if_true]
        refine ⟨_, rfl, Or.inr ⟨rfl, ?_, h⟩⟩
        have : bs = [] := by simpa using hemp
        rw [this] at hbs
        have hmin : 0 < min k r.frame.capacity := by omega
        cases wire with
        | nil => rfl
        | cons x xs =>
          have : (List.take (min k r.frame.capacity) (x :: xs)).length = 0 := by rw [hbs]; rfl
          rw [List.length_take] at this
          simp at this; omega
      · simp only [hemp]
        have hfit : r.frame.stop + bs.length ≤ r.frame.cap := by
          unfold Buffer.capacity at hlen; unfold Buffer.stop at *; have := hi.fl; have := hi.fc; omega
        simp only [Buffer.extendWith, hfit, if_true]
        have hi' : RInv { r with frame := { r.frame with data := r.frame.data ++ bs } } := by
          refine ⟨hi.fb, hi.fc, ?_, hi.pc, hi.pb, hi.pl⟩
          unfold Buffer.stop at hfit; rw [hi.fc] at hfit; simpa using hfit
        have hbpos : 0 < bs.length := by
          cases bs with
          | nil => simp at hemp
          | cons _ _ => simp
        have hbw : bs.length ≤ wire.length := by
          rw [← hbs, List.length_take]; omega
        have hl' : (wire.drop bs.length).length < rest.length := by
          simp at hl ⊢; omega
        obtain ⟨o, ho, hor⟩ := ih _ (wire.drop bs.length) hi' (fun e he => hg e (by simp [he])) hl'
        simp only [ho]
        exact ⟨_, rfl, hor⟩

theorem parse_of_hdr_none (cv) (k : Nat) {s : List WByte} (h : hdr cv s = none) :
    (parse cv k s).1 = [] ∧ (parse cv k s).2 ≠ .bad := by
  match s, h with
  | [], _ => rw [parse_nil]; simp
  | [_], _ => rw [parse_single]; simp
  | a :: b :: t, h =>
    simp only [hdr] at h
    by_cases hc : le16 cv a b ≤ t.length
    · simp [hc] at h
    · have : t.length < le16 cv a b := by omega
      rw [parse_cons_cons]; simp [this]

/-- the answer a `poll_read` must give when the transport keeps delivering -/
def expected (cv : Nat → Nat → Nat) (m : Nat) (r : Reader) (wire : List WByte) : Poll (List Nat) :=
  match r.payload.slice with
  | x :: xs => .ready ((x :: xs).take m)
  | [] =>
    match parse cv r.nonce (r.frame.slice ++ wire) with
    | (c :: _, _) => .ready (c.take m)
    | ([], .bad) => .err .invalidData
    | ([], _) => .ready []

theorem pollRead_generous (cv) (m : Nat) (script : List RdEv) (r : Reader) (wire : List WByte) (hi : RInv r)
    (hg : Generous script) (hl : wire.length < script.length) :
    ∃ o, pollRead cv m script r wire = .ok o ∧ o.res = expected cv m r wire := by
  obtain ⟨o, ho, hio, htd, hst, hbad, ht, hlink, _⟩ := pollReadPayload_spec cv script r wire hi
  unfold pollRead
  simp only [ho]
  by_cases hp : r.payload.len > 0
  · -- buffered plaintext is handed out first
    have ho' : o = ⟨r, wire, [], script, .ready ()⟩ := by
      unfold pollReadPayload at ho; simp only [hp, if_true] at ho; injection ho with ho; exact ho.symm
    subst ho'
    simp only
    have htake : r.payload.begin + min m r.payload.len ≤ r.payload.stop := by
      unfold Buffer.len Buffer.stop; have := hi.pb; omega
    simp only [Buffer.take, htake, if_true]
    refine ⟨_, rfl, ?_⟩
    unfold expected
    have hne : r.payload.slice ≠ [] := by
      intro h
      have : r.payload.slice.length = 0 := by rw [h]; rfl
      unfold Buffer.slice at this; unfold Buffer.len Buffer.stop at hp; simp at this; omega
    cases hs : r.payload.slice with
    | nil => exact absurd hs hne
    | cons x xs =>
      simp only
      have : min m r.payload.len = min m (x :: xs).length := by
        rw [← hs]; unfold Buffer.len Buffer.stop Buffer.slice; simp
      rw [this, ← List.take_eq_take_min]
  · have hp0 : r.payload.len = 0 := by omega
    have hs0 : r.payload.slice = [] := slice_nil_of_len_zero _ hp0
    obtain ⟨f, hf, hlk⟩ := hlink hp0
    obtain ⟨f', hf', hgen⟩ := pollReadFrame_generous cv script r wire hi hg hl
    rw [hf] at hf'; injection hf' with hf'; subst hf'
    unfold expected
    simp only [hs0]
    obtain ⟨f2, hf2, hfi, hfpay, hfn, hfw, _, _, _, _⟩ := pollReadFrame_spec cv script r wire hi
    rw [hf] at hf2; injection hf2 with hf2; subst hf2
    have htake : o.r.payload.begin + min m o.r.payload.len ≤ o.r.payload.stop := by
      unfold Buffer.len Buffer.stop; have := hio.pb; omega
    rcases hgen with ⟨n, hfr⟩ | ⟨hfr, hfw0, hh⟩
    · simp only [PayLink, hfr] at hlk
      rcases hlk with ⟨hres, hpar⟩ | ⟨hres, c, rest, st, hpar, hc⟩
      · simp only [hres, hpar]; exact ⟨_, rfl, rfl⟩
      · simp only [hres, hpar, Buffer.take, htake, if_true]
        refine ⟨_, rfl, ?_⟩
        simp only [hc]
        have : o.r.payload.len = c.length := by
          rw [← hc]; unfold Buffer.len Buffer.stop Buffer.slice; simp
        rw [this, ← List.take_eq_take_min]
    · simp only [PayLink, hfr] at hlk
      obtain ⟨hres, hor, how⟩ := hlk
      have hpar : parse cv r.nonce (r.frame.slice ++ wire) = parse cv f.r.nonce (f.r.frame.data ++ []) := by
        rw [hfn, hi.fslice, ← hfw, hfw0]
      have hpn := parse_of_hdr_none cv f.r.nonce (s := f.r.frame.data ++ []) (by simpa using hh)
      rw [← hpar] at hpn
      have hos : o.r.payload.slice = [] := by rw [hor, hfpay]; exact hs0
      have hol : o.r.payload.len = 0 := by rw [hor, hfpay]; exact hp0
      simp only [hres, Buffer.take, htake, if_true]
      refine ⟨_, rfl, ?_⟩
      simp only [hos, hol]
      generalize parse cv r.nonce (r.frame.slice ++ wire) = pr at hpn
      obtain ⟨cs, st⟩ := pr
      simp only at hpn
      obtain ⟨h1, h2⟩ := hpn
      subst h1
      cases st with
      | bad => exact absurd rfl h2
      | clean => simp
      | truncated => simp

/-! ## Sequences of reads -/

theorem runReads_spec (cv) (ops : List (Nat × List RdEv)) : ∀ (r : Reader) (wire : List WByte), RInv r →
    ∃ d r' w', runReads cv ops r wire = .ok (d, r', w') ∧ RInv r' ∧
      todo cv r wire = d ++ todo cv r' w' ∧ rstatus cv r' w' = rstatus cv r wire := by
  induction ops with
  | nil => intro r wire hi; exact ⟨[], r, wire, rfl, hi, rfl, rfl⟩
  | cons op ops ih =>
    intro r wire hi
    obtain ⟨m, script⟩ := op
    obtain ⟨o, ho, hio, htd, hst, _, _, _, _⟩ := pollRead_spec cv m script r wire hi
    obtain ⟨d, r', w', hrun, hi', htd', hst'⟩ := ih o.r o.wire hio
    refine ⟨delivered o.res ++ d, r', w', ?_, hi', ?_, ?_⟩
    · simp only [runReads, ho, hrun]
    · rw [htd, htd', List.append_assoc]
    · rw [hst', hst]

theorem todo_init (cv) (s : List WByte) : todo cv Reader.init s = (parse cv 0 s).1.flatten := by
  simp [todo, Reader.init, Buffer.new, Buffer.slice]

/-! ## Write half -/

/-- representation invariant of the write half -/
structure WInv (w : Writer) : Prop where
  pb : w.payload.begin = 0
  pc : w.payload.cap = MAX_PAYLOAD_LEN
  pl : w.payload.data.length ≤ MAX_PAYLOAD_LEN
  fc : w.frame.cap = MAX_FRAME_LEN
  fb : w.frame.begin ≤ w.frame.data.length
  fl : w.frame.data.length ≤ MAX_FRAME_LEN

theorem WInv_init : WInv Writer.init := by
  constructor <;> simp [Writer.init, Buffer.new]

theorem WInv.flen_le {w : Writer} (hi : WInv w) : w.frame.len ≤ MAX_FRAME_LEN := by
  unfold Buffer.len Buffer.stop; have := hi.fl; omega

theorem WInv.pslice {w : Writer} (hi : WInv w) : w.payload.slice = w.payload.data := by
  unfold Buffer.slice; rw [hi.pb]; rfl

theorem pollFlushFrame_spec (script : List WrEv) : ∀ (w : Writer), WInv w →
    ∃ o, pollFlushFrame script w = .ok o ∧ WInv o.w ∧ o.w.payload = w.payload ∧ o.w.nonce = w.nonce ∧
      o.sent ++ o.w.frame.slice = w.frame.slice ∧
      (o.res = .ready () → o.w.frame.len = 0) ∧
      (∀ e, o.res = .err e → e = .transport ∨ e = .writeZero) ∧
      (∀ e ∈ o.trace, 0 < e.1 ∧ e.1 ≤ MAX_FRAME_LEN) := by
  induction script with
  | nil =>
    intro w hi
    unfold pollFlushFrame
    by_cases h0 : w.frame.len = 0
    · simp only [h0, if_true]
      refine ⟨_, rfl, hi, rfl, rfl, rfl, fun _ => h0, ?_, ?_⟩
      · intro e he; cases he
      · intro e he; simp at he
    · simp only [h0, if_false]
      refine ⟨_, rfl, hi, rfl, rfl, rfl, ?_, ?_, ?_⟩
      · intro h; cases h
      · intro e he; cases he
      · intro e he; simp at he; subst he; exact ⟨by simp; omega, hi.flen_le⟩
  | cons ev rest ih =>
    intro w hi
    unfold pollFlushFrame
    by_cases h0 : w.frame.len = 0
    · simp only [h0, if_true]
      refine ⟨_, rfl, hi, rfl, rfl, rfl, fun _ => h0, ?_, ?_⟩
      · intro e he; cases he
      · intro e he; simp at he
    · simp only [h0, if_false]
      cases ev with
      | pending =>
        refine ⟨_, rfl, hi, rfl, rfl, rfl, ?_, ?_, ?_⟩
        · intro h; cases h
        · intro e he; cases he
        · intro e he; simp at he; subst he; exact ⟨by simp; omega, hi.flen_le⟩
      | err =>
        refine ⟨_, rfl, hi, rfl, rfl, rfl, ?_, ?_, ?_⟩
        · intro h; cases h
        · intro e he; simp at he; exact Or.inl he.symm
        · intro e he; simp at he; subst he; exact ⟨by simp; omega, hi.flen_le⟩
      | accept k =>
        simp only
        by_cases hn : min k w.frame.len = 0
        · simp only [hn, if_true]
          refine ⟨_, rfl, hi, rfl, rfl, rfl, ?_, ?_, ?_⟩
          · intro h; cases h
          · intro e he; simp at he; exact Or.inr he.symm
          · intro e he; simp at he; subst he; exact ⟨by simp; omega, hi.flen_le⟩
        · simp only [hn, if_false]
          have htake : w.frame.begin + min k w.frame.len ≤ w.frame.stop := by
            unfold Buffer.len Buffer.stop; have := hi.fb; omega
          simp only [Buffer.take, htake, if_true]
          have hi' : WInv { w with frame := { w.frame with begin := w.frame.begin + min k w.frame.len } } := by
            refine ⟨hi.pb, hi.pc, hi.pl, hi.fc, ?_, hi.fl⟩
            unfold Buffer.stop at htake; exact htake
          obtain ⟨o, ho, hio, hp, hnn, hs, hr, he, ht⟩ := ih _ hi'
          simp only [ho]
          refine ⟨_, rfl, hio, hp, hnn, ?_, hr, he, ?_⟩
          · simp only [List.append_assoc]
            rw [hs]
            simp only [Buffer.slice]
            rw [← List.drop_drop]
            exact List.take_append_drop _ _
          · intro e he'
            simp at he'
            rcases he' with rfl | he'
            · exact ⟨by simp; omega, hi.flen_le⟩
            · exact ht e he'

/-- one frame on the wire: `<len:u16 LE> ++ <noise message>` -/
def frame (k : Nat) (c : List Nat) : List WByte := lenBytes (c.length + SNOW_TAGLEN) ++ enc k c

/-- the frames sealed under nonces `k, k+1, …` for the payload chunks `cs`, concatenated -/
def framesFrom : Nat → List (List Nat) → List WByte
  | _, [] => []
  | k, c :: cs => frame k c ++ framesFrom (k + 1) cs

theorem framesFrom_append (k : Nat) (cs : List (List Nat)) (c : List Nat) :
    framesFrom k (cs ++ [c]) = framesFrom k cs ++ frame (k + cs.length) c := by
  induction cs generalizing k with
  | nil => simp [framesFrom]
  | cons x xs ih =>
    simp only [List.cons_append, framesFrom, ih, List.append_assoc, List.length_cons]
    congr 3; omega

/-- the history of the write half explains its state: `cs` are the payload chunks sealed so far -/
structure WRel (cs : List (List Nat)) (acc : List Nat) (wire : List WByte) (w : Writer) : Prop where
  nonce : w.nonce = cs.length
  wire : wire ++ w.frame.slice = framesFrom 0 cs
  acc : cs.flatten ++ w.payload.slice = acc
  chunks : ∀ c ∈ cs, 0 < c.length ∧ c.length ≤ MAX_PAYLOAD_LEN

theorem WRel_init : WRel [] [] [] Writer.init := by
  constructor <;> simp [Writer.init, Buffer.new, Buffer.slice, framesFrom]

theorem pollFlushPayload_spec (script : List WrEv) (w : Writer) (hi : WInv w)
    (cs : List (List Nat)) (acc : List Nat) (wire : List WByte) (hr : WRel cs acc wire w) :
    ∃ o, pollFlushPayload script w = .ok o ∧ WInv o.w ∧
      (∃ cs', WRel cs' acc (wire ++ o.sent) o.w ∧ cs <+: cs') ∧
      (o.res = .ready () → o.w.payload.len = 0) ∧
      (∀ e, o.res = .err e → e = .transport ∨ e = .writeZero) ∧
      (∀ e ∈ o.trace, 0 < e.1 ∧ e.1 ≤ MAX_FRAME_LEN) := by
  unfold pollFlushPayload
  by_cases h0 : w.payload.len = 0
  · simp only [h0, if_true]
    refine ⟨_, rfl, hi, ⟨cs, by simpa using hr, List.prefix_refl _⟩, fun _ => h0, ?_, ?_⟩
    · intro e he; cases he
    · intro e he; simp at he
  · simp only [h0, if_false]
    obtain ⟨o, ho, hio, hp, hn, hs, hrdy, herr, ht⟩ := pollFlushFrame_spec script w hi
    simp only [ho]
    have hrel : WRel cs acc (wire ++ o.sent) o.w := by
      refine ⟨by rw [hn]; exact hr.nonce, ?_, by rw [hp]; exact hr.acc, hr.chunks⟩
      rw [List.append_assoc, hs]; exact hr.wire
    cases hres : o.res with
    | pending =>
      refine ⟨_, rfl, hio, ⟨cs, hrel, List.prefix_refl _⟩, ?_, ?_, ht⟩
      · intro h; rw [hres] at h; cases h
      · intro e he; rw [hres] at he; cases he
    | err e =>
      refine ⟨_, rfl, hio, ⟨cs, hrel, List.prefix_refl _⟩, ?_, ?_, ht⟩
      · intro h; cases h
      · intro e' he; simp at he; subst he; exact herr e hres
    | ready u =>
      cases u
      simp only
      have hcap : o.w.frame.reset.capacity = MAX_FRAME_LEN := by
        simp [Buffer.reset, Buffer.capacity, Buffer.stop, hio.fc]
      have hc2 : ¬ o.w.frame.reset.capacity < LENGTH_FIELD_LEN := by
        rw [hcap]; simp [MAX_FRAME_LEN, LENGTH_FIELD_LEN]
      simp only [hc2, if_false]
      have hps : o.w.payload.slice = o.w.payload.data := hio.pslice
      have hpl : o.w.payload.data.length ≤ MAX_PAYLOAD_LEN := hio.pl
      have hwm : writeMessage o.w.nonce o.w.payload.slice (o.w.frame.reset.capacity - LENGTH_FIELD_LEN) =
          some (enc o.w.nonce o.w.payload.data) := by
        unfold writeMessage
        rw [hcap, hps]
        have : ¬ (o.w.payload.data.length + SNOW_TAGLEN > SNOW_MAXMSGLEN ∨
            o.w.payload.data.length + SNOW_TAGLEN > MAX_FRAME_LEN - LENGTH_FIELD_LEN) := by
          simp [SNOW_TAGLEN, SNOW_MAXMSGLEN, MAX_FRAME_LEN, LENGTH_FIELD_LEN, MAX_PAYLOAD_LEN] at hpl ⊢; omega
        simp only [this, if_false]
      simp only [hwm]
      have hext : o.w.frame.reset.stop + (lenBytes (enc o.w.nonce o.w.payload.data).length ++
          enc o.w.nonce o.w.payload.data).length ≤ o.w.frame.reset.cap := by
        simp [Buffer.reset, Buffer.stop, hio.fc, lenBytes, enc_length]
        simp [SNOW_TAGLEN, MAX_FRAME_LEN, MAX_PAYLOAD_LEN] at hpl ⊢; omega
      have htk : o.w.payload.begin + o.w.payload.len ≤ o.w.payload.stop := by
        unfold Buffer.len Buffer.stop; rw [hio.pb]; omega
      simp only [Buffer.extendWith, hext, if_true, Buffer.take, htk]
      have hfl0 : o.w.frame.slice = [] := slice_nil_of_len_zero _ (hrdy hres)
      have hplen : o.w.payload.data.length ≠ 0 := by
        rw [hp]; unfold Buffer.len Buffer.stop at h0; rw [hi.pb] at h0; omega
      refine ⟨_, rfl, ?_, ⟨cs ++ [o.w.payload.data], ?_, List.prefix_append _ _⟩, ?_, ?_, ht⟩
      · refine ⟨by simp [Buffer.reset], by simp [Buffer.reset, hio.pc], by simp [Buffer.reset],
          by simp [Buffer.reset, hio.fc], by simp [Buffer.reset], ?_⟩
        simp [Buffer.reset, Buffer.stop, hio.fc] at hext
        simp [Buffer.reset]; omega
      · refine ⟨?_, ?_, ?_, ?_⟩
        · simp; rw [hn]; exact hr.nonce
        · simp only [Buffer.slice, Buffer.reset, List.drop, List.nil_append]
          rw [framesFrom_append, ← hrel.wire, hfl0, List.append_nil, Nat.zero_add, ← hrel.nonce]
          simp [frame, enc_length]
        · simp only [Buffer.slice, Buffer.reset, List.drop, List.append_nil, List.flatten_append,
            List.flatten_cons, List.flatten_nil]
          rw [← hrel.acc, hps]
        · intro c hc
          simp at hc
          rcases hc with hc | rfl
          · exact hr.chunks c hc
          · exact ⟨by omega, hpl⟩
      · intro _; simp [Buffer.reset, Buffer.len, Buffer.stop]
      · intro e he; cases he

/-- number of plaintext bytes a `poll_write` reported as accepted -/
def acceptedN : Poll Nat → Nat
  | .ready n => n
  | _ => 0

theorem pollWrite_spec (buf : List Nat) (script : List WrEv) (w : Writer) (hi : WInv w)
    (cs : List (List Nat)) (acc : List Nat) (wire : List WByte) (hr : WRel cs acc wire w) :
    ∃ o, pollWrite buf script w = .ok o ∧ WInv o.w ∧
      (∃ cs', WRel cs' (acc ++ buf.take (acceptedN o.res)) (wire ++ o.sent) o.w ∧ cs <+: cs') ∧
      (∀ n, o.res = .ready n → (buf = [] ∧ n = 0) ∨ (buf ≠ [] ∧ 0 < n ∧ n ≤ buf.length)) ∧
      (∀ e, o.res = .err e → e = .transport ∨ e = .writeZero) ∧
      (∀ e ∈ o.trace, 0 < e.1 ∧ e.1 ≤ MAX_FRAME_LEN) := by
  unfold pollWrite
  by_cases hb : buf.isEmpty
  · simp only [hb, if_true]
    have hb' : buf = [] := by simpa using hb
    refine ⟨_, rfl, hi, ⟨cs, by simpa [acceptedN] using hr, List.prefix_refl _⟩, ?_, ?_, ?_⟩
    · intro n hn; simp at hn; exact Or.inl ⟨hb', hn.symm⟩
    · intro e he; cases he
    · intro e he; simp at he
  · simp only [hb]
    have hb' : buf ≠ [] := by simpa using hb
    have hblen : 0 < buf.length := List.length_pos_iff.mpr hb'
    -- the optional flush
    have hpre : ∃ o : WOut Unit,
        (if w.payload.capacity = 0 then pollFlushPayload script w else .ok ⟨w, [], [], script, .ready ()⟩) = .ok o ∧
        WInv o.w ∧ (∃ cs', WRel cs' acc (wire ++ o.sent) o.w ∧ cs <+: cs') ∧
        (o.res = .ready () → 0 < o.w.payload.capacity) ∧
        (∀ e, o.res = .err e → e = .transport ∨ e = .writeZero) ∧
        (∀ e ∈ o.trace, 0 < e.1 ∧ e.1 ≤ MAX_FRAME_LEN) := by
      by_cases hc : w.payload.capacity = 0
      · simp only [hc, if_true]
        obtain ⟨o, ho, hio, hrel, hrdy, herr, ht⟩ := pollFlushPayload_spec script w hi cs acc wire hr
        refine ⟨o, ho, hio, hrel, ?_, herr, ht⟩
        intro h
        have h0 := hrdy h
        unfold Buffer.len Buffer.stop at h0
        unfold Buffer.capacity Buffer.stop
        rw [hio.pc]; rw [hio.pb] at h0
        simp [MAX_PAYLOAD_LEN]; omega
      · simp only [hc, if_false]
        refine ⟨_, rfl, hi, ⟨cs, by simpa using hr, List.prefix_refl _⟩, fun _ => Nat.pos_of_ne_zero hc, ?_, ?_⟩
        · intro e he; cases he
        · intro e he; simp at he
    obtain ⟨o, ho, hio, ⟨cs', hrel, hpre'⟩, hcap, herr, ht⟩ := hpre
    simp only [ho]
    cases hres : o.res with
    | pending =>
      refine ⟨_, rfl, hio, ⟨cs', by simpa [acceptedN] using hrel, hpre'⟩, ?_, ?_, ht⟩
      · intro n hn; cases hn
      · intro e he; cases he
    | err e =>
      refine ⟨_, rfl, hio, ⟨cs', by simpa [acceptedN] using hrel, hpre'⟩, ?_, ?_, ht⟩
      · intro n hn; cases hn
      · intro e' he; simp at he; subst he; exact herr e hres
    | ready u =>
      cases u
      have hc := hcap hres
      simp only [Buffer.push]
      have hn0 : ¬ min o.w.payload.capacity buf.length = 0 := by omega
      simp only [hn0, if_false]
      refine ⟨_, rfl, ?_, ⟨cs', ?_, hpre'⟩, ?_, ?_, ht⟩
      · refine ⟨hio.pb, hio.pc, ?_, hio.fc, hio.fb, hio.fl⟩
        simp only [List.length_append, List.length_take]
        have := hio.pc; have := hio.pl
        unfold Buffer.capacity Buffer.stop; omega
      · refine ⟨hrel.nonce, hrel.wire, ?_, hrel.chunks⟩
        simp only [acceptedN, Buffer.slice, hio.pb, List.drop]
        rw [← hrel.acc, hio.pslice, List.append_assoc]
      · intro n hn
        simp at hn
        refine Or.inr ⟨hb', ?_, ?_⟩ <;> omega
      · intro e he; cases he

theorem pollFlush_spec (script : List WrEv) (fl : FlEv) (w : Writer) (hi : WInv w)
    (cs : List (List Nat)) (acc : List Nat) (wire : List WByte) (hr : WRel cs acc wire w) :
    ∃ o, pollFlush script fl w = .ok o ∧ WInv o.o.w ∧
      (∃ cs', WRel cs' acc (wire ++ o.o.sent) o.o.w ∧ cs <+: cs' ∧
        (o.o.res = .ready () → wire ++ o.o.sent = framesFrom 0 cs' ∧ cs'.flatten = acc)) ∧
      (o.o.res = .ready () → o.innerCalled = true ∧ fl = .ok) ∧
      (∀ e, o.o.res = .err e → e = .transport ∨ e = .writeZero) ∧
      (∀ e ∈ o.o.trace, 0 < e.1 ∧ e.1 ≤ MAX_FRAME_LEN) := by
  unfold pollFlush
  obtain ⟨o1, ho1, hio1, ⟨cs1, hrel1, hpre1⟩, hrdy1, herr1, ht1⟩ := pollFlushPayload_spec script w hi cs acc wire hr
  simp only [ho1]
  cases hres1 : o1.res with
  | pending =>
    refine ⟨_, rfl, hio1, ⟨cs1, hrel1, hpre1, ?_⟩, ?_, ?_, ht1⟩
    · intro h; rw [hres1] at h; cases h
    · intro h; rw [hres1] at h; cases h
    · intro e he; rw [hres1] at he; cases he
  | err e =>
    refine ⟨_, rfl, hio1, ⟨cs1, hrel1, hpre1, ?_⟩, ?_, ?_, ht1⟩
    · intro h; cases h
    · intro h; cases h
    · intro e' he; simp at he; subst he; exact herr1 e hres1
  | ready u =>
    cases u
    simp only
    obtain ⟨o2, ho2, hio2, hp2, hn2, hs2, hrdy2, herr2, ht2⟩ := pollFlushFrame_spec o1.rest o1.w hio1
    simp only [ho2]
    have hrel2 : WRel cs1 acc (wire ++ (o1.sent ++ o2.sent)) o2.w := by
      refine ⟨by rw [hn2]; exact hrel1.nonce, ?_, by rw [hp2]; exact hrel1.acc, hrel1.chunks⟩
      rw [List.append_assoc, List.append_assoc, hs2, ← List.append_assoc]; exact hrel1.wire
    have htr : ∀ e ∈ o1.trace ++ o2.trace, 0 < e.1 ∧ e.1 ≤ MAX_FRAME_LEN := by
      intro e he
      rcases List.mem_append.mp he with h | h
      · exact ht1 e h
      · exact ht2 e h
    have hdone : o2.res = .ready () → wire ++ (o1.sent ++ o2.sent) = framesFrom 0 cs1 ∧ cs1.flatten = acc := by
      intro h
      have h1 : o2.w.frame.slice = [] := slice_nil_of_len_zero _ (hrdy2 h)
      have h2 : o2.w.payload.slice = [] := by
        rw [hp2]; exact slice_nil_of_len_zero _ (hrdy1 hres1)
      have hw := hrel2.wire
      have ha := hrel2.acc
      rw [h1, List.append_nil] at hw
      rw [h2, List.append_nil] at ha
      exact ⟨hw, ha⟩
    cases hres2 : o2.res with
    | pending =>
      refine ⟨_, rfl, hio2, ⟨cs1, hrel2, hpre1, ?_⟩, ?_, ?_, htr⟩
      · intro h; simp at h
      · intro h; simp at h
      · intro e he; simp at he
    | err e =>
      refine ⟨_, rfl, hio2, ⟨cs1, hrel2, hpre1, ?_⟩, ?_, ?_, htr⟩
      · intro h; simp at h
      · intro h; simp at h
      · intro e' he; simp at he; subst he; exact herr2 e hres2
    | ready u2 =>
      cases u2
      have hd := hdone hres2
      cases fl with
      | ok =>
        refine ⟨_, rfl, hio2, ⟨cs1, hrel2, hpre1, fun _ => hd⟩, fun _ => ⟨rfl, rfl⟩, ?_, htr⟩
        intro e he; cases he
      | pending =>
        refine ⟨_, rfl, hio2, ⟨cs1, hrel2, hpre1, fun _ => hd⟩, ?_, ?_, htr⟩
        · intro h; cases h
        · intro e he; cases he
      | err =>
        refine ⟨_, rfl, hio2, ⟨cs1, hrel2, hpre1, fun _ => hd⟩, ?_, ?_, htr⟩
        · intro h; cases h
        · intro e he; simp at he; exact Or.inl he.symm

/-! ## Sequences of calls on the write half -/

theorem wstep_spec (s : WSt) (op : WOp) (hi : WInv s.w) (cs : List (List Nat)) (hr : WRel cs s.acc s.wire s.w) :
    ∃ s', wstep s op = .ok s' ∧ WInv s'.w ∧ ∃ cs', WRel cs' s'.acc s'.wire s'.w ∧ cs <+: cs' := by
  cases op with
  | write buf script =>
    obtain ⟨o, ho, hio, ⟨cs', hrel, hpre⟩, _, _, _⟩ := pollWrite_spec buf script s.w hi cs s.acc s.wire hr
    refine ⟨_, by simp only [wstep, ho]; rfl, hio, cs', ?_, hpre⟩
    cases hres : o.res <;> simpa [acceptedN, hres] using hrel
  | flush script fl =>
    obtain ⟨o, ho, hio, ⟨cs', hrel, hpre, _⟩, _, _, _⟩ := pollFlush_spec script fl s.w hi cs s.acc s.wire hr
    exact ⟨_, by simp only [wstep, ho]; rfl, hio, cs', hrel, hpre⟩
  | shutdown script sd =>
    obtain ⟨o, ho, hio, ⟨cs', hrel, hpre, _⟩, _, _, _⟩ := pollFlush_spec script sd s.w hi cs s.acc s.wire hr
    exact ⟨_, by simp only [wstep, pollShutdown, ho]; rfl, hio, cs', hrel, hpre⟩

theorem wrun_spec (ops : List WOp) : ∀ (s : WSt), WInv s.w → ∀ cs, WRel cs s.acc s.wire s.w →
    ∃ s', wrun s ops = .ok s' ∧ WInv s'.w ∧ ∃ cs', WRel cs' s'.acc s'.wire s'.w ∧ cs <+: cs' := by
  induction ops with
  | nil => intro s hi cs hr; exact ⟨s, rfl, hi, cs, hr, List.prefix_refl _⟩
  | cons op ops ih =>
    intro s hi cs hr
    obtain ⟨s1, h1, hi1, cs1, hr1, hp1⟩ := wstep_spec s op hi cs hr
    obtain ⟨s2, h2, hi2, cs2, hr2, hp2⟩ := ih s1 hi1 cs1 hr1
    exact ⟨s2, by simp only [wrun, h1, h2], hi2, cs2, hr2, hp1.trans hp2⟩

/-! ## What the reader makes of the writer's frames -/

theorem le16_lenBytes (cv) (n : Nat) (h : n < 65536) :
    ∀ a b, lenBytes n = [a, b] → le16 cv a b = n := by
  intro a b hab
  simp only [lenBytes, List.cons.injEq, and_true] at hab
  obtain ⟨rfl, rfl⟩ := hab
  simp only [le16, WByte.val]
  omega

theorem parse_frame (cv) (k : Nat) (c : List Nat) (rest : List WByte) (hc : c.length ≤ MAX_PAYLOAD_LEN) :
    parse cv k (frame k c ++ rest) = (c :: (parse cv (k + 1) rest).1, (parse cv (k + 1) rest).2) := by
  have hn : c.length + SNOW_TAGLEN < 65536 := by
    simp [MAX_PAYLOAD_LEN, SNOW_TAGLEN] at hc ⊢; omega
  have hle := le16_lenBytes cv (c.length + SNOW_TAGLEN) hn _ _ rfl
  simp only [frame, lenBytes, List.cons_append, List.nil_append]
  rw [parse_cons_cons, hle]
  have h1 : ¬ (enc k c ++ rest).length < c.length + SNOW_TAGLEN := by
    simp [enc_length]
  simp only [h1, if_false]
  have h2 : (enc k c ++ rest).take (c.length + SNOW_TAGLEN) = enc k c := by
    rw [← enc_length k c]; simp
  have h3 : (enc k c ++ rest).drop (c.length + SNOW_TAGLEN) = rest := by
    rw [← enc_length k c]; simp
  rw [h2, h3, dec_enc]

theorem parse_framesFrom (cv) (cs : List (List Nat)) : ∀ (k : Nat) (rest : List WByte),
    (∀ c ∈ cs, c.length ≤ MAX_PAYLOAD_LEN) →
    parse cv k (framesFrom k cs ++ rest) =
      (cs ++ (parse cv (k + cs.length) rest).1, (parse cv (k + cs.length) rest).2) := by
  induction cs with
  | nil => intro k rest _; simp [framesFrom]
  | cons c cs ih =>
    intro k rest h
    simp only [framesFrom, List.append_assoc]
    rw [parse_frame cv k c _ (h c (by simp)), ih (k + 1) rest (fun c' hc' => h c' (by simp [hc']))]
    simp only [List.length_cons, List.cons_append]
    have : k + 1 + cs.length = k + (cs.length + 1) := by omega
    rw [this]

/-! ## Dolev–Yao closure: what an attacker can put on the wire -/

/-- A wire byte the attacker can produce when the writer has sealed the chunks `cs` (chunk `k` under nonce `k`):
any byte of known value, and any ciphertext / tag byte that the writer produced. (Reordering, duplication,
truncation, insertion are arrangements of such bytes.) -/
def FromWriter (cs : List (List Nat)) : WByte → Prop
  | .raw _ => True
  | .ct k j x => ∃ c, cs[k]? = some c ∧ c[j]? = some x
  | .mac k n _ => ∃ c, cs[k]? = some c ∧ c.length = n

theorem mem_enc_ct (k : Nat) (p : List Nat) (j : Nat) (h : j < p.length) : WByte.ct k j p[j] ∈ enc k p := by
  unfold enc
  apply List.mem_append_left
  rw [List.mem_map]
  refine ⟨(p[j], j), ?_, rfl⟩
  rw [List.mem_zipIdx_iff_getElem?]
  simp [h]

theorem mem_enc_mac (k : Nat) (p : List Nat) : WByte.mac k p.length 0 ∈ enc k p := by
  unfold enc
  apply List.mem_append_right
  rw [List.mem_map]
  exact ⟨0, by simp [SNOW_TAGLEN], rfl⟩

theorem mem_enc (k : Nat) (p : List Nat) (b : WByte) (h : b ∈ enc k p) :
    (∃ j, ∃ hj : j < p.length, b = .ct k j p[j]) ∨ (∃ j, b = .mac k p.length j) := by
  unfold enc at h
  rcases List.mem_append.mp h with h | h
  · rw [List.mem_map] at h
    obtain ⟨⟨x, j⟩, hm, rfl⟩ := h
    rw [List.mem_zipIdx_iff_getElem?] at hm
    simp only at hm
    obtain ⟨hj, hm⟩ := List.getElem?_eq_some_iff.mp hm
    exact Or.inl ⟨j, hj, by rw [hm]⟩
  · rw [List.mem_map] at h
    obtain ⟨j, _, rfl⟩ := h
    exact Or.inr ⟨j, rfl⟩

/-- ideal-AEAD unforgeability in this setting: a ciphertext made of attacker-available bytes that authenticates
under nonce `k` is the one the writer sealed under nonce `k`. -/
theorem dec_fromWriter (cs : List (List Nat)) (k : Nat) (c : List WByte) (p : List Nat)
    (hall : ∀ b ∈ c, FromWriter cs b) (hdec : dec k c = some p) : cs[k]? = some p := by
  have hc := (dec_eq_some_iff k c p).mp hdec
  subst hc
  obtain ⟨q, hq, hql⟩ := hall _ (mem_enc_mac k p)
  rw [hq]
  congr 1
  apply List.ext_getElem hql
  intro j h1 h2
  obtain ⟨q', hq', hqj⟩ := hall _ (mem_enc_ct k p j h2)
  rw [hq] at hq'; injection hq' with hq'; subst hq'
  rw [List.getElem?_eq_getElem h1] at hqj
  injection hqj

theorem parse_fromWriter (cv) (cs : List (List Nat)) : ∀ (n : Nat) (s : List WByte) (k : Nat), s.length ≤ n →
    (∀ b ∈ s, FromWriter cs b) → (parse cv k s).1 <+: cs.drop k := by
  intro n
  induction n with
  | zero =>
    intro s k hl _
    have : s = [] := List.eq_nil_of_length_eq_zero (by omega)
    subst this; rw [parse_nil]; exact List.nil_prefix
  | succ n ih =>
    intro s k hl hall
    match s, hl, hall with
    | [], _, _ => rw [parse_nil]; exact List.nil_prefix
    | [_], _, _ => rw [parse_single]; exact List.nil_prefix
    | a :: b :: t, hl, hall =>
      rw [parse_cons_cons]
      by_cases h1 : t.length < le16 cv a b
      · simp only [h1, if_true]; exact List.nil_prefix
      · simp only [h1, if_false]
        cases hd : dec k (t.take (le16 cv a b)) with
        | none => exact List.nil_prefix
        | some p =>
          simp only
          have hk : cs[k]? = some p := by
            apply dec_fromWriter cs k _ p _ hd
            intro x hx
            exact hall x (by simp [List.mem_of_mem_take hx])
          have hrest := ih (t.drop (le16 cv a b)) (k + 1) (by simp at hl ⊢; omega)
            (fun x hx => hall x (by simp [List.mem_of_mem_drop hx]))
          obtain ⟨hklt, hk⟩ := List.getElem?_eq_some_iff.mp hk
          rw [List.drop_eq_getElem_cons hklt, hk]
          exact (List.prefix_cons_inj p).mpr hrest

theorem flatten_prefix {α : Type} {l1 l2 : List (List α)} (h : l1 <+: l2) : l1.flatten <+: l2.flatten := by
  obtain ⟨t, rfl⟩ := h
  rw [List.flatten_append]; exact List.prefix_append _ _

theorem fromWriter_of_mem_framesFrom (cs : List (List Nat)) (b : WByte) : ∀ (cs' : List (List Nat)) (k : Nat),
    (∀ i, cs'[i]? = cs[k + i]?) → b ∈ framesFrom k cs' → FromWriter cs b := by
  intro cs'
  induction cs' with
  | nil => intro k _ h; simp [framesFrom] at h
  | cons c cs' ih =>
    intro k hidx h
    simp only [framesFrom, frame, List.mem_append] at h
    have hk : cs[k]? = some c := by have := hidx 0; simpa using this.symm
    rcases h with (h | h) | h
    · simp [lenBytes] at h
      rcases h with rfl | rfl <;> trivial
    · rcases mem_enc k c b h with ⟨j, hj, rfl⟩ | ⟨j, rfl⟩
      · exact ⟨c, hk, by simp [hj]⟩
      · exact ⟨c, hk, rfl⟩
    · apply ih (k + 1) _ h
      intro i
      have := hidx (i + 1)
      simp only [List.getElem?_cons_succ] at this
      rw [this]; congr 1; omega

/-! ## A transport that keeps accepting -/

/-- every answer of the transport to `poll_write` during the call accepts at least one byte -/
def WGenerous (script : List WrEv) : Prop := ∀ e ∈ script, ∃ k, 0 < k ∧ e = WrEv.accept k

theorem pollFlushFrame_generous (script : List WrEv) : ∀ (w : Writer), WInv w → WGenerous script →
    w.frame.len ≤ script.length →
    ∃ o, pollFlushFrame script w = .ok o ∧ o.res = .ready () ∧ WGenerous o.rest ∧
      script.length ≤ o.rest.length + w.frame.len := by
  induction script with
  | nil =>
    intro w _ _ hl
    unfold pollFlushFrame
    have : w.frame.len = 0 := by simpa using hl
    simp only [this, if_true]
    exact ⟨_, rfl, rfl, (by simp [WGenerous]), (by simp)⟩
  | cons ev rest ih =>
    intro w hi hg hl
    unfold pollFlushFrame
    by_cases h0 : w.frame.len = 0
    · simp only [h0, if_true]
      exact ⟨_, rfl, rfl, hg, by simp⟩
    · simp only [h0, if_false]
      obtain ⟨k, hk, rfl⟩ := hg ev (by simp)
      simp only
      have hn : ¬ min k w.frame.len = 0 := by omega
      simp only [hn, if_false]
      have htake : w.frame.begin + min k w.frame.len ≤ w.frame.stop := by
        unfold Buffer.len Buffer.stop; have := hi.fb; omega
      simp only [Buffer.take, htake, if_true]
      have hi' : WInv { w with frame := { w.frame with begin := w.frame.begin + min k w.frame.len } } := by
        refine ⟨hi.pb, hi.pc, hi.pl, hi.fc, ?_, hi.fl⟩
        unfold Buffer.stop at htake; exact htake
      have hlen' : ({ w with frame := { w.frame with begin := w.frame.begin + min k w.frame.len } } : Writer).frame.len
          = w.frame.len - min k w.frame.len := by
        simp only [Buffer.len, Buffer.stop]; omega
      obtain ⟨o, ho, hres, hgo, hlo⟩ := ih _ hi' (fun e he => hg e (by simp [he])) (by
        rw [hlen']; simp at hl; omega)
      simp only [ho]
      refine ⟨_, rfl, hres, hgo, ?_⟩
      rw [hlen'] at hlo
      simp only [List.length_cons]; omega

theorem pollFlushPayload_shape (script : List WrEv) (w : Writer) (o1 o : WOut Unit) (h0 : w.payload.len ≠ 0)
    (h1 : pollFlushFrame script w = .ok o1) (hr : o1.res = .ready ()) (h : pollFlushPayload script w = .ok o) :
    (o.res = .ready () ∨ o.res = .err .other) ∧ o.rest = o1.rest := by
  unfold pollFlushPayload at h
  simp only [h0, if_false, h1, hr] at h
  repeat' split at h
  all_goals first
    | (injection h with h; subst h; simp)
    | cases h

theorem pollFlushPayload_generous (script : List WrEv) (w : Writer) (hi : WInv w)
    (cs : List (List Nat)) (acc : List Nat) (wire : List WByte) (hr : WRel cs acc wire w)
    (hg : WGenerous script) (hl : MAX_FRAME_LEN ≤ script.length) :
    ∃ o, pollFlushPayload script w = .ok o ∧ o.res = .ready () ∧ WGenerous o.rest ∧
      script.length ≤ o.rest.length + MAX_FRAME_LEN := by
  obtain ⟨o, ho, _, _, _, herr, _⟩ := pollFlushPayload_spec script w hi cs acc wire hr
  refine ⟨o, ho, ?_⟩
  by_cases h0 : w.payload.len = 0
  · unfold pollFlushPayload at ho
    simp only [h0, if_true] at ho
    injection ho with ho; subst ho
    exact ⟨rfl, hg, by simp⟩
  · obtain ⟨o1, ho1, hres1, hg1, hl1⟩ := pollFlushFrame_generous script w hi hg (by have := hi.flen_le; omega)
    obtain ⟨hsh, hrest⟩ := pollFlushPayload_shape script w o1 o h0 ho1 hres1 ho
    refine ⟨?_, by rw [hrest]; exact hg1, by rw [hrest]; have := hi.flen_le; omega⟩
    rcases hsh with h | h
    · exact h
    · rcases herr _ h with h' | h' <;> cases h'

theorem pollWrite_generous (buf : List Nat) (script : List WrEv) (w : Writer) (hi : WInv w)
    (cs : List (List Nat)) (acc : List Nat) (wire : List WByte) (hr : WRel cs acc wire w)
    (hg : WGenerous script) (hl : MAX_FRAME_LEN ≤ script.length) :
    ∃ o n, pollWrite buf script w = .ok o ∧ o.res = .ready n := by
  obtain ⟨o, ho, _, _, _, _, _⟩ := pollWrite_spec buf script w hi cs acc wire hr
  refine ⟨o, ?_⟩
  have ho' := ho
  unfold pollWrite at ho'
  by_cases hb : buf.isEmpty
  · simp only [hb, if_true] at ho'
    injection ho' with ho'; subst ho'; exact ⟨0, ho, rfl⟩
  · have hb' : buf.isEmpty = false := by simpa using hb
    simp only [hb', Bool.false_eq_true, if_false] at ho'
    by_cases hc : w.payload.capacity = 0
    · obtain ⟨o1, ho1, hres1, _, _⟩ := pollFlushPayload_generous script w hi cs acc wire hr hg hl
      simp only [hc, if_true, ho1, hres1] at ho'
      split at ho'
      · cases ho'
      · injection ho' with ho'; subst ho'; exact ⟨_, ho, rfl⟩
    · simp only [hc, if_false] at ho'
      split at ho'
      · cases ho'
      · injection ho' with ho'; subst ho'; exact ⟨_, ho, rfl⟩

theorem pollFlush_generous (script : List WrEv) (w : Writer) (hi : WInv w)
    (cs : List (List Nat)) (acc : List Nat) (wire : List WByte) (hr : WRel cs acc wire w)
    (hg : WGenerous script) (hl : 2 * MAX_FRAME_LEN ≤ script.length) :
    ∃ o, pollFlush script .ok w = .ok o ∧ o.o.res = .ready () := by
  obtain ⟨o1, ho1, hres1, hg1, hl1⟩ := pollFlushPayload_generous script w hi cs acc wire hr hg (by omega)
  obtain ⟨_, ho1', hio1, _, _, _, _⟩ := pollFlushPayload_spec script w hi cs acc wire hr
  rw [ho1] at ho1'; injection ho1' with ho1'; subst ho1'
  obtain ⟨o2, ho2, hres2, _, _⟩ := pollFlushFrame_generous o1.rest o1.w hio1 hg1 (by have := hio1.flen_le; omega)
  unfold pollFlush
  simp only [ho1, hres1, ho2, hres2]
  exact ⟨_, rfl, rfl⟩

/-! ## Reachable states -/

/-- states of the write half reachable from a fresh stream by any sequence of calls -/
def WReach (s : WSt) : Prop := ∃ ops, wrun WSt.init ops = .ok s

/-- states of the read half (and rest of the stream) reachable from a fresh stream over the byte stream `s0` -/
def RReach (cv : Nat → Nat → Nat) (s0 : List WByte) (r : Reader) (wire : List WByte) : Prop :=
  ∃ ops d, runReads cv ops Reader.init s0 = .ok (d, r, wire)

theorem wreach_inv {s : WSt} (h : WReach s) : WInv s.w ∧ ∃ cs, WRel cs s.acc s.wire s.w := by
  obtain ⟨ops, hops⟩ := h
  obtain ⟨s', hs', hi, cs, hr, _⟩ := wrun_spec ops WSt.init WInv_init [] WRel_init
  rw [hops] at hs'; injection hs' with hs'; subst hs'
  exact ⟨hi, cs, hr⟩

theorem rreach_inv {cv} {s0 : List WByte} {r : Reader} {wire : List WByte} (h : RReach cv s0 r wire) : RInv r := by
  obtain ⟨ops, d, hops⟩ := h
  obtain ⟨d', r', w', hrun, hi, _, _⟩ := runReads_spec cv ops Reader.init s0 RInv_init
  rw [hops] at hrun; injection hrun with hrun
  injection hrun with _ h2; injection h2 with h2 _; subst h2
  exact hi

theorem frame_length (k : Nat) (c : List Nat) : (frame k c).length = 2 + c.length + SNOW_TAGLEN := by
  simp [frame, lenBytes, enc_length]; omega

/-! ## Everything owed is eventually delivered -/

/-- every frame that will still authenticate carries a non-empty payload (true of all the write half produces) -/
def NE (cv : Nat → Nat → Nat) (r : Reader) (wire : List WByte) : Prop := ∀ c ∈ chunksOf cv r wire, c ≠ []

theorem take_ne_nil {α : Type} {m : Nat} {l : List α} (hm : 0 < m) (hl : l ≠ []) : l.take m ≠ [] := by
  cases l with
  | nil => exact absurd rfl hl
  | cons x xs =>
    cases m with
    | zero => omega
    | succ k => simp

theorem pollRead_progress (cv) (m : Nat) (script : List RdEv) (r : Reader) (wire : List WByte) (hi : RInv r)
    (hg : Generous script) (hl : wire.length < script.length) (hm : 0 < m) (hne : NE cv r wire)
    (htd : todo cv r wire ≠ []) :
    ∃ o, pollRead cv m script r wire = .ok o ∧ delivered o.res ≠ [] := by
  obtain ⟨o, ho, hres⟩ := pollRead_generous cv m script r wire hi hg hl
  refine ⟨o, ho, ?_⟩
  rw [hres]
  unfold expected
  cases hs : r.payload.slice with
  | cons x xs => simp only [delivered]; exact take_ne_nil hm (by simp)
  | nil =>
    simp only
    have hch : (chunksOf cv r wire).flatten ≠ [] := by
      intro h; apply htd; unfold todo; rw [hs]; simpa [chunksOf] using h
    unfold NE chunksOf at *
    generalize parse cv r.nonce (r.frame.slice ++ wire) = pr at *
    obtain ⟨cs, st⟩ := pr
    cases cs with
    | nil => simp at hch
    | cons c rest =>
      simp only [delivered]
      exact take_ne_nil hm (hne c (by simp))

theorem drain (cv) (m : Nat) (gs : List RdEv) (hm : 0 < m) (hg : Generous gs) : ∀ (N : Nat) (r : Reader)
    (wire : List WByte), RInv r → NE cv r wire → wire.length < gs.length → (todo cv r wire).length ≤ N →
    ∃ r' w', runReads cv (List.replicate N (m, gs)) r wire = .ok (todo cv r wire, r', w') ∧
      todo cv r' w' = [] ∧ rstatus cv r' w' = rstatus cv r wire := by
  intro N
  induction N with
  | zero =>
    intro r wire _ _ _ hN
    have h0 : todo cv r wire = [] := List.eq_nil_of_length_eq_zero (by omega)
    exact ⟨r, wire, by simp [runReads, h0], h0, rfl⟩
  | succ N ih =>
    intro r wire hi hne hl hN
    obtain ⟨o, ho, hio, htd, hst, _, _, _, hch, hwl⟩ := pollRead_spec cv m gs r wire hi
    have hne' : NE cv o.r o.wire := by
      intro c hc
      rcases hch with h | ⟨p, h⟩
      · exact hne c (by rw [← h]; exact hc)
      · exact hne c (by rw [h]; exact List.mem_cons_of_mem _ hc)
    have hlen' : (todo cv o.r o.wire).length ≤ N := by
      by_cases h0 : todo cv r wire = []
      · rw [h0] at htd
        have : todo cv o.r o.wire = [] := by
          have := congrArg List.length htd
          simp at this
          exact List.eq_nil_of_length_eq_zero (by omega)
        rw [this]; simp
      · obtain ⟨o', ho', hd⟩ := pollRead_progress cv m gs r wire hi hg hl hm hne h0
        rw [ho] at ho'; injection ho' with ho'; subst ho'
        have hpos : 0 < (delivered o.res).length := List.length_pos_iff.mpr hd
        have := congrArg List.length htd
        simp at this
        omega
    obtain ⟨r', w', hrun, htd', hst'⟩ := ih o.r o.wire hio hne' (by omega) hlen'
    refine ⟨r', w', ?_, htd', by rw [hst', hst]⟩
    simp only [List.replicate_succ, runReads, ho, hrun]
    rw [htd]

end EraVerif.Proofs.Noise
