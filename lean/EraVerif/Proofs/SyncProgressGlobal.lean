import EraVerif.Proofs.SyncProgressLocal

/-!
# C06s, part 4: the phases of the synchronous schedule on the global system

`Setup`: the standing hypotheses (`1 ≤ total`, Byzantine weight `≤ f`, `C` lists exactly the correct validators,
the stores are sane). Then one lemma per phase, each from a `Stage` state to a `Stage` state:

* `tickAll_spec` (phases 1, 3), `syncViews_spec` (phase 2), `exchangeTimeouts_spec` (phase 4), `propose_spec`
  (phase 5), `exchangeCommits_spec` (phase 6).
-/

namespace EraVerif.Proofs.Sync
open EraVerif.Model EraVerif.Proofs.ReplicaStep EraVerif.Proofs.Progress EraVerif.Proofs.RefineIP
open EraVerif.Proofs.Certs EraVerif.Safety EraVerif.Refine
open EraVerif.Proofs.Crash (dur)

/-- the standing hypotheses of the synchronous period -/
structure Setup (cfg : RCfg) (byz : Finset (Fin cfg.c.n)) (E : Fin cfg.c.n → Env) (C : List (Fin cfg.c.n)) :
    Prop where
  total : 1 ≤ cfg.c.total
  /-- the Byzantine validators hold at most `f` weight -/
  byzw : wt (wF cfg.c) byz ≤ cfg.c.faulty
  /-- `C` lists the correct validators, each once -/
  nodup : C.Nodup
  mem : ∀ i, i ∈ C ↔ i ∉ byz
  /-- every store's queue is at least at what it has persisted -/
  sane : EnvSane byz E

section
variable {cfg : RCfg} {byz : Finset (Fin cfg.c.n)} {E : Fin cfg.c.n → Env} {C : List (Fin cfg.c.n)}

theorem wF_getD (c : Committee) (i : Fin c.n) : wF c i = c.weights.getD i.val 0 := by
  unfold wF
  have hi : i.val < c.weights.length := by have := i.isLt; simpa [Committee.n] using this
  simp [List.getD, List.getElem?_eq_getElem hi]

/-- **The correct validators hold a quorum of weight.** -/
theorem Setup.correct_weight (S : Setup cfg byz E C) :
    cfg.c.quorum ≤ (C.map (fun i => cfg.c.weights.getD i.val 0)).sum := by
  have h1 : (C.map (fun i => cfg.c.weights.getD i.val 0)).sum = wt (wF cfg.c) C.toFinset := by
    unfold wt
    rw [List.sum_toFinset _ S.nodup]
    congr 1
    apply List.map_congr_left
    intro i _
    exact (wF_getD cfg.c i).symm
  have h2 : C.toFinset = Finset.univ \ byz := by
    ext i
    simp [S.mem i]
  have h3 : wt (wF cfg.c) (Finset.univ \ byz) + wt (wF cfg.c) byz = EraVerif.Safety.total (wF cfg.c) := by
    unfold wt EraVerif.Safety.total wt
    exact Finset.sum_sdiff (Finset.subset_univ byz)
  have h4 := S.byzw
  rw [h1, h2]
  rw [total_wF] at h3
  unfold Committee.quorum
  omega

theorem Setup.val_nodup (S : Setup cfg byz E C) : (C.map (fun i => i.val)).Nodup :=
  (List.nodup_map_iff (fun _ _ h => Fin.ext h)).mpr S.nodup

theorem Setup.notByz (S : Setup cfg byz E C) {i : Fin cfg.c.n} (hi : i ∈ C) : i ∉ byz := (S.mem i).mp hi

/-- what `Stage` gives at a correct validator -/
structure Facts (cfg : RCfg) (byz : Finset (Fin cfg.c.n)) (e : Env) (g : Global cfg) (i : Fin cfg.c.n) : Prop where
  wf : Wf cfg (g.sys i).r
  ra : RAuth (sigsOf (Byz byz) g) (g.sys i).r
  full : TCacheFull (g.sys i).r
  low : TCacheLow cfg (g.sys i).r
  va : ViewsAuth (sigsOf (Byz byz) g) (g.sys i).r
  below : CacheBelowStore (g.sys i).r e.storeNext
  sane : e.persistedNext ≤ e.storeNext

theorem Setup.facts (S : Setup cfg byz E C) {g : Global cfg} (hst : Stage byz E g) {i : Fin cfg.c.n} (hi : i ∈ C) :
    Facts cfg byz (E i) g i := by
  have hib := S.notByz hi
  have hG := hst.ginv S.total
  obtain ⟨h1, h2, h3⟩ := greach_extra S.total hst.reach i hib
  exact ⟨(hG i hib).linv.wf, (hG i hib).ra, h1, h2, h3, hst.below i hib, S.sane i hib⟩

/-- every vote a correct validator has sent is for a view `≤` its own -/
theorem Setup.sent_le (S : Setup cfg byz E C) {g : Global cfg} (hst : Stage byz E g) {i : Fin cfg.c.n} (hi : i ∈ C)
    {m : Msg} (hm : m ∈ (g.sys i).sent) {a : Nat} (ha : voteView m = some a) :
    a ≤ (g.sys i).r.view ∧ (a = (g.sys i).r.view → (g.sys i).r.phase ≠ .prepare) :=
  sent_vote_view (hst.ginv S.total) (S.notByz hi) hm ha

/-! ## phases (1) and (3) -/

/-- **The timer fires at every correct validator.** Legal; every correct validator switches to phase `timeout` (nothing
else changes), its timeout vote for its view has left the node, and in a view other than 0 its new-view message. -/
theorem tickAll_spec (S : Setup cfg byz E C) {x : Run cfg} (hst : Stage byz E x.g) :
    Relation.ReflTransGen (GStep cfg (Byz byz)) x.g (tickAll E C x).g ∧ Stage byz E (tickAll E C x).g ∧
    (∀ m, Authentic (Byz byz) x.g m → Authentic (Byz byz) (tickAll E C x).g m) ∧
    (∀ i ∈ C, ((tickAll E C x).g.sys i).r = stState (x.g.sys i).r ∧
      Msg.timeout (tvoteOf cfg (x.g.sys i).r) ∈ ((tickAll E C x).g.sys i).sent ∧
      ((x.g.sys i).r.view ≠ 0 →
        ∃ j, getJustification (x.g.sys i).r = .ok j ∧ Msg.newView j ∈ ((tickAll E C x).g.sys i).sent)) := by
  obtain ⟨p1, p2, p3, p4, _, _⟩ := phase_spec S.total S.sane (fun _ => [Input.tick]) C S.nodup
    (fun i hi => S.notByz hi) hst
    (fun i _ inp hinp => by
      simp only [List.mem_singleton] at hinp
      subst hinp
      exact deliverable_tick x.g)
  refine ⟨p1, p2, p3, fun i hi => ?_⟩
  have hs : (tickAll E C x).g.sys i = sysStep cfg (E i) (x.g.sys i) .tick := p4 i hi
  rw [hs]
  exact tick_sys (E i) (x.g.sys i) (S.facts hst hi).wf

/-! ## phase (2) -/

theorem maxViewOf_spec (g : Global cfg) : ∀ (C : List (Fin cfg.c.n)),
    (C = [] ∧ maxViewOf g C = none) ∨
    ∃ m, maxViewOf g C = some m ∧ m ∈ C ∧ ∀ i ∈ C, (g.sys i).r.view ≤ (g.sys m).r.view := by
  intro C
  induction C with
  | nil => exact Or.inl ⟨rfl, rfl⟩
  | cons a rest ih =>
    right
    rcases ih with ⟨hnil, hnone⟩ | ⟨m, hm, hmem, hmax⟩
    · refine ⟨a, by simp [maxViewOf, hnone], List.mem_cons_self, ?_⟩
      intro i hi
      rw [hnil] at hi
      simp only [List.mem_singleton] at hi
      rw [hi]
    · by_cases hle : (g.sys m).r.view ≤ (g.sys a).r.view
      · refine ⟨a, by simp [maxViewOf, hm, hle], List.mem_cons_self, ?_⟩
        intro i hi
        rcases List.mem_cons.mp hi with rfl | hi
        · exact Nat.le_refl _
        · exact Nat.le_trans (hmax i hi) hle
      · refine ⟨m, by simp [maxViewOf, hm, hle], List.mem_cons_of_mem _ hmem, ?_⟩
        intro i hi
        rcases List.mem_cons.mp hi with rfl | hi
        · omega
        · exact hmax i hi

/-- **The views synchronise.** After the ticks of phase (1) (every correct validator in a view other than 0 has sent
the new-view message with its highest certificate), the new-view message of a correct validator `m` with maximal view is
delivered to everybody. Legal; afterwards all correct validators are in one view `V`, which is at least every view
before and at most the maximal view before plus one (plus one exactly when `m` held a certificate for its own view). -/
theorem syncViews_spec (S : Setup cfg byz E C) {x : Run cfg} (hst : Stage byz E x.g)
    (hsent : ∀ i ∈ C, (x.g.sys i).r.view ≠ 0 →
      ∃ j, getJustification (x.g.sys i).r = .ok j ∧ Msg.newView j ∈ (x.g.sys i).sent)
    (hnw : ∀ i ∈ C, (x.g.sys i).r.view + 2 < 2 ^ 64) :
    Relation.ReflTransGen (GStep cfg (Byz byz)) x.g (syncViews E C x).g ∧ Stage byz E (syncViews E C x).g ∧
    (∀ m, Authentic (Byz byz) x.g m → Authentic (Byz byz) (syncViews E C x).g m) ∧
    ∃ V, (∀ i ∈ C, ((syncViews E C x).g.sys i).r.view = V ∧ (x.g.sys i).r.view ≤ V) ∧
      (∀ i ∈ C, ∀ m ∈ (x.g.sys i).sent, m ∈ ((syncViews E C x).g.sys i).sent) ∧
      (((∀ i ∈ C, (x.g.sys i).r.view = 0) ∧ V = 0) ∨
        ∃ m ∈ C, ∃ j, getJustification (x.g.sys m).r = .ok j ∧ V = certView j + 1 ∧
          certView j ≤ (x.g.sys m).r.view) := by
  have hG := hst.ginv S.total
  -- the inputs of the phase
  rcases maxViewOf_spec x.g C with ⟨hnil, _⟩ | ⟨m, hm, hmC, hmax⟩
  · subst hnil
    exact ⟨.refl, hst, fun m hm => hm, 0, (by intro i hi; cases hi), (by intro i hi; cases hi),
      Or.inl ⟨(by intro i hi; cases hi), rfl⟩⟩
  have hFm := S.facts hst hmC
  by_cases hv0 : (x.g.sys m).r.view = 0
  · -- everybody is in view 0: nothing to deliver
    have hin : newViewInputs C x.g = [] := by simp [newViewInputs, hm, newViewOf, hv0]
    obtain ⟨p1, p2, p3, p4, _, _⟩ := phase_spec S.total S.sane (fun _ => newViewInputs C x.g) C S.nodup
      (fun i hi => S.notByz hi) hst (fun i _ inp hinp => by rw [hin] at hinp; cases hinp)
    refine ⟨p1, p2, p3, 0, fun i hi => ?_, fun i hi msg hmsg => ?_,
      Or.inl ⟨fun i hi => by have := hmax i hi; omega, rfl⟩⟩
    · have : (syncViews E C x).g.sys i = x.g.sys i := by
        have hs : (syncViews E C x).g.sys i = sysRun cfg (E i) (x.g.sys i) (newViewInputs C x.g) := p4 i hi
        rw [hin] at hs
        exact hs
      have h0 : (x.g.sys i).r.view = 0 := by have := hmax i hi; omega
      rw [this, h0]
      exact ⟨rfl, Nat.le_refl _⟩
    · have : (syncViews E C x).g.sys i = x.g.sys i := by
        have hs : (syncViews E C x).g.sys i = sysRun cfg (E i) (x.g.sys i) (newViewInputs C x.g) := p4 i hi
        rw [hin] at hs
        exact hs
      rw [this]; exact hmsg
  · obtain ⟨j, hj, hjs⟩ := hsent m hmC hv0
    have hin : newViewInputs C x.g = [.msg ⟨.newView j, m.val, true⟩] := by
      simp [newViewInputs, hm, newViewOf, hv0, hj]
    have hjv : j.verify cfg.c = true := getJustification_verify hFm.wf hj
    have hheld : HeldAtLeast (x.g.sys m).r (x.g.sys m).r.view := by
      rcases hFm.wf.held with h | h
      · exact absurd h hv0
      · exact h
    have hge := getJustification_ge hj hheld
    -- the certificate is authentic, hence for a view at most the maximal correct view
    have hja : AuthJust (sigsOf (Byz byz) x.g) j := by
      rcases getJustification_spec hj with ⟨q, rfl, hq, _⟩ | ⟨t, rfl, htq, _⟩
      · exact hFm.ra.hc q hq
      · exact hFm.ra.ht t htq
    have hcle : certView j ≤ (x.g.sys m).r.view := by
      obtain ⟨b1, b2⟩ := cert_view_le S.total S.byzw hst.reach (V := (x.g.sys m).r.view)
        (fun i hi => hmax i ((S.mem i).mpr hi))
      cases j with
      | commit q => exact b1 q hjv hja
      | timeout t => exact b2 t hjv hja
    have hnwm := hnw m hmC
    have hW : j.viewNumber = certView j + 1 := by rw [viewNumber_eq, nextU64_eq _ (by omega)]
    have hdel : Deliverable byz x.g (.msg ⟨.newView j, m.val, true⟩) := by
      refine ⟨(by intro b h; cases h), trivial, trivial, ?_⟩
      intro s hs
      cases hs
      refine ⟨?_, hja⟩
      intro _ _ hk _
      exact hjs
    obtain ⟨p1, p2, p3, p4, _, _⟩ := phase_spec S.total S.sane (fun _ => newViewInputs C x.g) C S.nodup
      (fun i hi => S.notByz hi) hst
      (fun i _ inp hinp => by
        rw [hin] at hinp
        simp only [List.mem_singleton] at hinp
        subst hinp
        exact hdel)
    refine ⟨p1, p2, p3, j.viewNumber, fun i hi => ?_, fun i hi msg hmsg => ?_, Or.inr ⟨m, hmC, j, hj, hW, hcle⟩⟩
    · have hs : (syncViews E C x).g.sys i = sysStep cfg (E i) (x.g.sys i) (.msg ⟨.newView j, m.val, true⟩) := by
        have hs : (syncViews E C x).g.sys i = sysRun cfg (E i) (x.g.sys i) (newViewInputs C x.g) := p4 i hi
        rw [hin] at hs
        exact hs
      have hFi := S.facts hst hi
      have hile : (x.g.sys i).r.view ≤ j.viewNumber := by have := hmax i hi; omega
      rw [hs, sysStep_r]
      exact ⟨newView_view hFi.wf m.isLt hjv hile hFi.below, hile⟩
    · have hs : (syncViews E C x).g.sys i = sysStep cfg (E i) (x.g.sys i) (.msg ⟨.newView j, m.val, true⟩) := by
        have hs : (syncViews E C x).g.sys i = sysRun cfg (E i) (x.g.sys i) (newViewInputs C x.g) := p4 i hi
        rw [hin] at hs
        exact hs
      rw [hs]
      exact sysStep_sent_mono (E i) (x.g.sys i) _ msg hmsg

/-! ## phase (4) -/

/-- after phases (1)–(3): all correct validators are in view `V` and have sent their timeout vote for it -/
structure Synced (byz : Finset (Fin cfg.c.n)) (E : Fin cfg.c.n → Env) (C : List (Fin cfg.c.n)) (g : Global cfg)
    (V : Nat) : Prop where
  stage : Stage byz E g
  view : ∀ i ∈ C, (g.sys i).r.view = V
  sentT : ∀ i ∈ C, Msg.timeout (tvoteOf cfg (g.sys i).r) ∈ (g.sys i).sent

/-- after phase (4): all correct validators are in `prepare` of view `V + 1`, hold a timeout certificate for `V`, and
have notified their proposers with a verifying justification for view `V + 1` -/
structure Advanced (byz : Finset (Fin cfg.c.n)) (E : Fin cfg.c.n → Env) (C : List (Fin cfg.c.n)) (x : Run cfg)
    (V : Nat) : Prop where
  stage : Stage byz E x.g
  view : ∀ i ∈ C, (x.g.sys i).r.view = V + 1
  phase : ∀ i ∈ C, (x.g.sys i).r.phase = .prepare
  tqc : ∀ i ∈ C, ∃ tq, (x.g.sys i).r.highTimeoutQC = some tq ∧ tq.view.number = V
  just : ∀ i ∈ C, ∃ j, getJustification (x.g.sys i).r = .ok j ∧ j.verify cfg.c = true ∧ j.viewNumber = V + 1 ∧
    certView j = V ∧ (i.val, Effect.notify j) ∈ x.log

/-- in a state where every correct validator is in `prepare` of view `W`, every verifying authentic certificate is
for a view below `W` -/
theorem Setup.certs_lt (S : Setup cfg byz E C) {g : Global cfg} (hst : Stage byz E g) {W : Nat}
    (hview : ∀ i ∈ C, (g.sys i).r.view = W) (hphase : ∀ i ∈ C, (g.sys i).r.phase = .prepare) :
    (∀ q : CommitQC, q.verify cfg.c = true → AuthCQC (sigsOf (Byz byz) g) q → q.message.view.number < W) ∧
    (∀ t : TimeoutQC, t.verify cfg.c = true → AuthTQC (sigsOf (Byz byz) g) t → t.view.number < W) :=
  cert_view_lt S.total S.byzw hst.reach
    (fun i hi => ⟨Nat.le_of_eq (hview i ((S.mem i).mpr hi)), fun _ => hphase i ((S.mem i).mpr hi)⟩)

/-- ... and no correct validator is recorded anywhere with a commit vote for view `W` or later -/
theorem Setup.commit_fresh (S : Setup cfg byz E C) {g : Global cfg} (hst : Stage byz E g) {W : Nat}
    (hview : ∀ i ∈ C, (g.sys i).r.view = W) (hphase : ∀ i ∈ C, (g.sys i).r.phase = .prepare) :
    ∀ i ∈ C, ∀ s ∈ C, ∀ w, alGet (g.sys i).r.commitViews s.val = some w → w < W := by
  intro i hi s hs w hw
  obtain ⟨v, hv, hsig⟩ := (S.facts hst hi).va.2 s.val w hw
  have hsent : Msg.commit v ∈ (g.sys s).sent := hsig s.isLt (S.notByz hs)
  obtain ⟨h1, h2⟩ := S.sent_le hst hs hsent (a := v.view.number) rfl
  rw [hview s hs] at h1 h2
  rcases Nat.lt_or_ge w W with h | h
  · exact h
  · exact absurd (hphase s hs) (h2 (by omega))

theorem mem_log_of_effs {x : Run cfg} {i : Fin cfg.c.n} {ef : Effect} {log : List (Nat × Effect)}
    {inps : Fin cfg.c.n → List Input}
    (hlog : log = x.log ++ C.flatMap (fun i => (sysEffs cfg (E i) (x.g.sys i) (inps i)).map (fun ef => (i.val, ef))))
    (hi : i ∈ C) (hef : ef ∈ effsE cfg (E i) (x.g.sys i).r (inps i)) : (i.val, ef) ∈ log := by
  rw [hlog]
  apply List.mem_append_right
  rw [List.mem_flatMap]
  refine ⟨i, hi, List.mem_map.mpr ⟨ef, ?_, rfl⟩⟩
  rw [sysEffs_eq]
  exact hef

/-- **The timeout round advances.** From a synchronised state, the exchange of the timeout votes is legal and moves
every correct validator to view `V + 1`. -/
theorem exchangeTimeouts_spec (S : Setup cfg byz E C) {x : Run cfg} {V : Nat} (hsy : Synced byz E C x.g V)
    (hnw : V + 2 < 2 ^ 64) :
    Relation.ReflTransGen (GStep cfg (Byz byz)) x.g (exchangeTimeouts E C x).g ∧
    Advanced byz E C (exchangeTimeouts E C x) V := by
  have hst := hsy.stage
  -- the votes
  have hvotes : timeoutInputs C x.g = (C.map (fun s => (s.val, tvoteOf cfg (x.g.sys s).r))).map tin := by
    unfold timeoutInputs; rw [List.map_map]; rfl
  have hdel : ∀ inp ∈ timeoutInputs C x.g, Deliverable byz x.g inp := by
    intro inp hinp
    obtain ⟨s, hs, rfl⟩ := List.mem_map.mp hinp
    have hFs := S.facts hst hs
    refine ⟨(by intro b h; cases h), ?_, trivial, ?_⟩
    · show (tvoteOf cfg (x.g.sys s).r).view.number + 1 < 2 ^ 64
      show (x.g.sys s).r.view + 1 < 2 ^ 64
      rw [hsy.view s hs]; omega
    · intro m hm
      cases hm
      refine ⟨fun _ _ _ _ => hsy.sentT s hs, ?_⟩
      intro cq hcq
      exact hFs.ra.hc cq hcq
  obtain ⟨p1, p2, _, p4, _, p6⟩ := phase_spec S.total S.sane (fun _ => timeoutInputs C x.g) C S.nodup
    (fun i hi => S.notByz hi) hst (fun i _ inp hinp => hdel inp hinp)
  -- one validator
  have hone : ∀ i ∈ C,
      ((exchangeTimeouts E C x).g.sys i).r.view = V + 1 ∧ ((exchangeTimeouts E C x).g.sys i).r.phase = .prepare ∧
      (∃ tq, ((exchangeTimeouts E C x).g.sys i).r.highTimeoutQC = some tq ∧ V ≤ tq.view.number) ∧
      ∃ j, getJustification ((exchangeTimeouts E C x).g.sys i).r = .ok j ∧
        (i.val, Effect.notify j) ∈ (exchangeTimeouts E C x).log := by
    intro i hi
    have hFi := S.facts hst hi
    have hs : (exchangeTimeouts E C x).g.sys i = sysRun cfg (E i) (x.g.sys i) (timeoutInputs C x.g) := p4 i hi
    rw [hs, sysRun_r', hvotes]
    obtain ⟨a1, a2, a3, j, a4, a5⟩ := timeouts_advance S.total (E i) (x.g.sys i).r V
      (C.map (fun s => (s.val, tvoteOf cfg (x.g.sys s).r))) hFi.wf hFi.full hFi.low
      (Nat.le_of_eq (hsy.view i hi)) (by omega)
      (by
        intro y hy
        obtain ⟨s, hs', rfl⟩ := List.mem_map.mp hy
        exact ⟨s.isLt, hsy.view s hs', tvoteOf_verify (S.facts hst hs').wf⟩)
      (by rw [List.map_map]; exact S.val_nodup)
      (by
        intro y hy w hw
        obtain ⟨s, hs', rfl⟩ := List.mem_map.mp hy
        obtain ⟨t, htv, hsig⟩ := hFi.va.1 s.val w hw
        have hsent : Msg.timeout t ∈ (x.g.sys s).sent := hsig s.isLt (S.notByz hs')
        have := (S.sent_le hst hs' hsent (a := t.view.number) rfl).1
        rw [hsy.view s hs'] at this
        omega)
      hFi.below hFi.sane
      (by rw [List.map_map]; exact S.correct_weight)
    refine ⟨a1, a2, a3, j, a4, ?_⟩
    refine mem_log_of_effs (inps := fun _ => timeoutInputs C x.g) p6 hi ?_
    rw [hvotes]; exact a5
  have hview : ∀ i ∈ C, ((exchangeTimeouts E C x).g.sys i).r.view = V + 1 := fun i hi => (hone i hi).1
  have hphase : ∀ i ∈ C, ((exchangeTimeouts E C x).g.sys i).r.phase = .prepare := fun i hi => (hone i hi).2.1
  obtain ⟨c1, c2⟩ := S.certs_lt p2 hview hphase
  refine ⟨p1, p2, hview, hphase, ?_, ?_⟩
  · intro i hi
    obtain ⟨tq, htq, hle⟩ := (hone i hi).2.2.1
    have hF := S.facts p2 hi
    have := c2 tq (hF.wf.htqc tq htq) (hF.ra.ht tq htq)
    exact ⟨tq, htq, by omega⟩
  · intro i hi
    obtain ⟨_, _, ⟨tq, htq, hle⟩, j, hj, hlog⟩ := hone i hi
    have hF := S.facts p2 hi
    have hjv := getJustification_verify hF.wf hj
    have hge := getJustification_ge hj (Or.inr ⟨tq, htq, Nat.succ_le_succ hle⟩)
    have hlt : certView j < V + 1 := by
      rcases getJustification_spec hj with ⟨q, rfl, hq, _⟩ | ⟨t, rfl, ht', _⟩
      · exact c1 q hjv (hF.ra.hc q hq)
      · exact c2 t hjv (hF.ra.ht t ht')
    have hcv : certView j = V := by omega
    refine ⟨j, hj, hjv, ?_, hcv, hlog⟩
    rw [viewNumber_eq, hcv, nextU64_eq _ (by omega)]

/-! ## phase (5) -/

/-- after phase (5): all correct validators are in `commit` of view `V + 1` and have cast the commit vote `vt` -/
structure Voted (byz : Finset (Fin cfg.c.n)) (E : Fin cfg.c.n → Env) (C : List (Fin cfg.c.n)) (x : Run cfg)
    (V : Nat) (vt : Vote) : Prop where
  stage : Stage byz E x.g
  view : ∀ i ∈ C, (x.g.sys i).r.view = V + 1
  phase : ∀ i ∈ C, (x.g.sys i).r.phase = .commit
  vote : ∀ i ∈ C, (x.g.sys i).r.highVote = some vt ∧ Msg.commit vt ∈ (x.g.sys i).sent
  vtview : vt.view.number = V + 1
  /-- no correct validator is recorded with a commit vote for this view yet -/
  cfresh : ∀ i ∈ C, ∀ s ∈ C, ∀ w, alGet (x.g.sys i).r.commitViews s.val = some w → w < V + 1
  /-- every commit certificate held is for an earlier view -/
  hclt : ∀ i ∈ C, ∀ q, (x.g.sys i).r.highCommitQC = some q → q.message.view.number < V + 1

theorem createProposal_some (cfg : RCfg) (e : Env) (j : Just) (fresh : Payload)
    (hprev : (j.impliedBlock cfg.c).2 = none →
      (j.impliedBlock cfg.c).1 = 0 ∨ (j.impliedBlock cfg.c).1 - 1 < e.persistedNext) :
    ∃ m, createProposal cfg e j fresh = some m := by
  unfold createProposal
  cases hib : j.impliedBlock cfg.c with
  | mk num oh =>
    rw [hib] at hprev
    cases oh with
    | some h => exact ⟨_, rfl⟩
    | none =>
      have := hprev rfl
      simp only at this ⊢
      rw [if_neg (by omega)]
      exact ⟨_, rfl⟩

/-- **The correct leader's proposal is accepted everywhere.** `j` is the justification the leader `L` of view `V + 1`
was notified with; its proposal (`create_proposal`, fresh payload `fresh`) is delivered to every correct validator.
Legal; everybody accepts it and casts the same commit vote `voteFor cfg j fresh`; a fresh payload is cached
everywhere. -/
theorem propose_spec (S : Setup cfg byz E C) {x : Run cfg} {V : Nat} (hadv : Advanced byz E C x V)
    {L : Fin cfg.c.n} (hL : L ∈ C) (hlead : L.val = cfg.leader (V + 1)) (fresh : Payload)
    (hsize : fresh.size ≤ cfg.maxPayload) {j : Just} (hj : getJustification (x.g.sys L).r = .ok j)
    (hjw : JustNoWrap j)
    (henv : ∀ i ∈ C, (E i).payloadOk = true ∧ (E i).queuedFirst ≤ (j.impliedBlock cfg.c).1 ∧
      ((j.impliedBlock cfg.c).2 = none →
        (j.impliedBlock cfg.c).1 = 0 ∨ (j.impliedBlock cfg.c).1 - 1 < (E i).persistedNext)) :
    Relation.ReflTransGen (GStep cfg (Byz byz)) x.g (propose E C L fresh x).g ∧
    Voted byz E C (propose E C L fresh x) V (voteFor cfg j fresh) ∧
    ((j.impliedBlock cfg.c).2 = none → ∀ i ∈ C, ∃ p ∈ ((propose E C L fresh x).g.sys i).r.proposals,
      p.1 = (j.impliedBlock cfg.c).1 ∧ p.2.id = fresh.id) := by
  have hst := hadv.stage
  have hFL := S.facts hst hL
  obtain ⟨j', hj', hjv, hjn, _, _⟩ := hadv.just L hL
  rw [hj] at hj'
  cases hj'
  obtain ⟨m, hm⟩ := createProposal_some cfg (E L) j fresh (henv L hL).2.2
  have hja : AuthJust (sigsOf (Byz byz) x.g) j := by
    rcases getJustification_spec hj with ⟨q, rfl, hq, _⟩ | ⟨t, rfl, htq, _⟩
    · exact hFL.ra.hc q hq
    · exact hFL.ra.ht t htq
  have hin : proposalInputs E x.g L fresh = [.msg ⟨m, L.val, true⟩] := by
    simp [proposalInputs, proposalOf, hj, hm]
  have hmj : ∃ pl, m = .proposal pl j := by
    rcases Props.C05.proposal_self_justifying cfg (E L) j fresh m hm with ⟨_, _, rfl⟩ | ⟨_, rfl⟩ <;> exact ⟨_, rfl⟩
  have hdel : Deliverable byz x.g (.msg ⟨m, L.val, true⟩) := by
    obtain ⟨pl, rfl⟩ := hmj
    refine ⟨(by intro b h; cases h), trivial, hjw, ?_⟩
    intro s hs
    cases hs
    exact ⟨fun _ hne => absurd rfl (hne pl j), hja⟩
  obtain ⟨p1, p2, _, p4, _, _⟩ := phase_spec S.total S.sane (fun _ => proposalInputs E x.g L fresh) C S.nodup
    (fun i hi => S.notByz hi) hst
    (fun i _ inp hinp => by
      rw [hin] at hinp
      simp only [List.mem_singleton] at hinp
      subst hinp
      exact hdel)
  have hkey : L.val = cfg.leader j.viewNumber := by rw [hjn]; exact hlead
  have hone : ∀ i ∈ C, (propose E C L fresh x).g.sys i =
      sysStep cfg (E i) (x.g.sys i) (.msg ⟨m, cfg.leader j.viewNumber, true⟩) := by
    intro i hi
    have hs : (propose E C L fresh x).g.sys i = sysRun cfg (E i) (x.g.sys i) (proposalInputs E x.g L fresh) := p4 i hi
    rw [hin, hkey] at hs
    exact hs
  have hloc := fun i (hi : i ∈ C) => proposal_sys (E i) (E L) (x.g.sys i) j fresh m (S.facts hst hi).wf
    (Or.inr ⟨by rw [hjn, hadv.view i hi], hadv.phase i hi⟩) hjv hm hsize (henv i hi).1 (henv i hi).2.1
    (henv i hi).2.2 (S.facts hst hi).below
  obtain ⟨c1, _⟩ := S.certs_lt hst hadv.view hadv.phase
  have hcf := S.commit_fresh hst hadv.view hadv.phase
  refine ⟨p1, ⟨p2, ?_, ?_, ?_, ?_, ?_, ?_⟩, ?_⟩
  · intro i hi; rw [hone i hi, (hloc i hi).1, hjn]
  · intro i hi; rw [hone i hi]; exact (hloc i hi).2.1
  · intro i hi; rw [hone i hi]; exact ⟨(hloc i hi).2.2.1, (hloc i hi).2.2.2.1⟩
  · show j.view.number = V + 1
    rw [just_view_number, hjn]
  · intro i hi s hs w hw
    rw [hone i hi, (hloc i hi).2.2.2.2.1] at hw
    exact hcf i hi s hs w hw
  · intro i hi q hq
    rw [hone i hi, (hloc i hi).2.2.2.2.2.1] at hq
    have hFi := S.facts hst hi
    rcases hcAfter_cases (x.g.sys i).r.highCommitQC j with h | ⟨q', hq', h⟩
    · rw [h] at hq
      exact c1 q (hFi.wf.hcqc q hq) (hFi.ra.hc q hq)
    · rw [h] at hq
      cases hq
      exact c1 q (justQC_verify hjv hq') (justQC_auth hja hq')
  · intro hnone i hi
    rw [hone i hi]
    exact (hloc i hi).2.2.2.2.2.2 hnone

/-! ## phase (6) -/

/-- after phase (6): every correct validator is in `prepare` of view `V + 2` and holds a verifying commit certificate
for the vote `vt` of view `V + 1` -/
structure Committed (byz : Finset (Fin cfg.c.n)) (E : Fin cfg.c.n → Env) (C : List (Fin cfg.c.n)) (x : Run cfg)
    (V : Nat) (vt : Vote) : Prop where
  stage : Stage byz E x.g
  view : ∀ i ∈ C, (x.g.sys i).r.view = V + 2
  phase : ∀ i ∈ C, (x.g.sys i).r.phase = .prepare
  qc : ∀ i ∈ C, ∃ qc, (x.g.sys i).r.highCommitQC = some qc ∧ qc.verify cfg.c = true ∧ qc.message = vt

/-- **The commit round.** From a state where every correct validator has cast the commit vote `vt` for view `V + 1`,
the exchange of these votes is legal; afterwards every correct validator holds a verifying commit certificate for `vt`
and is in view `V + 2`; and every correct validator that had the payload in its proposal cache, next to a store that
is exactly at that block, has handed the block to the store. -/
theorem exchangeCommits_spec (S : Setup cfg byz E C) {x : Run cfg} {V : Nat} {vt : Vote}
    (hv : Voted byz E C x V vt) (hnw : V + 2 < 2 ^ 64) :
    Relation.ReflTransGen (GStep cfg (Byz byz)) x.g (exchangeCommits E C x).g ∧
    Committed byz E C (exchangeCommits E C x) V vt ∧
    ∀ i ∈ C, (∃ p ∈ (x.g.sys i).r.proposals, p.1 = vt.proposal.number ∧ p.2.id = vt.proposal.payload) →
      vt.proposal.number = (E i).storeNext → (E i).persistedNext ≤ vt.proposal.number →
      ∃ qc : CommitQC, qc.verify cfg.c = true ∧ qc.message = vt ∧
        (i.val, Effect.queueBlock vt.proposal.number vt.proposal.payload qc) ∈ (exchangeCommits E C x).log := by
  have hst := hv.stage
  have hin : commitInputs C x.g = (C.map (fun s => s.val)).map (cin vt) := by
    unfold commitInputs
    rw [List.map_map]
    have : ∀ s ∈ C, (match (x.g.sys s).r.phase, (x.g.sys s).r.highVote with
        | .commit, some v => some (Input.msg { msg := .commit v, key := s.val, sigOk := true })
        | _, _ => none) = (some ∘ (cin vt ∘ fun s => s.val)) s := by
      intro s hs
      rw [hv.phase s hs, (hv.vote s hs).1]
      rfl
    refine (List.filterMap_congr this).trans ?_
    rw [List.filterMap_eq_map]
  have hdel : ∀ inp ∈ commitInputs C x.g, Deliverable byz x.g inp := by
    intro inp hinp
    rw [hin, List.map_map] at hinp
    obtain ⟨s, hs, rfl⟩ := List.mem_map.mp hinp
    refine ⟨(by intro b h; cases h), ?_, trivial, ?_⟩
    · show vt.view.number + 1 < 2 ^ 64
      rw [hv.vtview]; omega
    · intro m hm
      cases hm
      exact ⟨fun _ _ _ _ => (hv.vote s hs).2, trivial⟩
  obtain ⟨p1, p2, _, p4, _, p6⟩ := phase_spec S.total S.sane (fun _ => commitInputs C x.g) C S.nodup
    (fun i hi => S.notByz hi) hst (fun i _ inp hinp => hdel inp hinp)
  have hone : ∀ i ∈ C, ∃ qc : CommitQC, qc.verify cfg.c = true ∧ qc.message = vt ∧
      ((exchangeCommits E C x).g.sys i).r.view = V + 2 ∧ ((exchangeCommits E C x).g.sys i).r.phase = .prepare ∧
      ((exchangeCommits E C x).g.sys i).r.highCommitQC = some qc ∧
      (Hands (x.g.sys i).r (E i) qc →
        (i.val, Effect.queueBlock vt.proposal.number vt.proposal.payload qc) ∈ (exchangeCommits E C x).log) := by
    intro i hi
    have hFi := S.facts hst hi
    have hs : (exchangeCommits E C x).g.sys i = sysRun cfg (E i) (x.g.sys i) (commitInputs C x.g) := p4 i hi
    obtain ⟨a1, a2, qc, a3, a4, a5, a6, _⟩ := commits_advance S.total (E i) (x.g.sys i).r vt (C.map (fun s => s.val))
      hFi.wf (hFi.wf.hvote vt (hv.vote i hi).1) (by rw [hv.vtview, hv.view i hi]) (by rw [hv.vtview]; omega)
      (by intro k hk; obtain ⟨s, _, rfl⟩ := List.mem_map.mp hk; exact s.isLt)
      S.val_nodup
      (by
        intro k hk w hw
        obtain ⟨s, hs', rfl⟩ := List.mem_map.mp hk
        rw [hv.vtview]
        exact hv.cfresh i hi s hs' w hw)
      hFi.below hFi.sane
      (by rw [List.map_map]; exact S.correct_weight)
    have hnewer : Newer (x.g.sys i).r qc := by
      intro cur hcur
      rw [a4, hv.vtview]
      exact hv.hclt i hi cur hcur
    rw [hs, sysRun_r', hin]
    refine ⟨qc, a3, a4, by rw [a1, hv.vtview], a2, a5 hnewer, fun hh => ?_⟩
    refine mem_log_of_effs (inps := fun _ => commitInputs C x.g) p6 hi ?_
    rw [hin]; exact a6 hh
  refine ⟨p1, ⟨p2, fun i hi => ?_, fun i hi => ?_, fun i hi => ?_⟩, fun i hi hc hs hp => ?_⟩
  · obtain ⟨qc, _, _, h, _⟩ := hone i hi; exact h
  · obtain ⟨qc, _, _, _, h, _⟩ := hone i hi; exact h
  · obtain ⟨qc, h1, h2, _, _, h3, _⟩ := hone i hi; exact ⟨qc, h3, h1, h2⟩
  · obtain ⟨qc, h1, h2, _, _, _, h4⟩ := hone i hi
    refine ⟨qc, h1, h2, h4 ⟨?_, ?_, ?_, ?_⟩⟩
    · intro cur hcur
      rw [h2, hv.vtview]
      exact hv.hclt i hi cur hcur
    · obtain ⟨p, hp1, hp2, hp3⟩ := hc
      exact ⟨p, hp1, by rw [h2]; exact hp2, by rw [h2]; exact hp3⟩
    · rw [h2]; exact hs
    · rw [h2]; exact hp

end

end EraVerif.Proofs.Sync
