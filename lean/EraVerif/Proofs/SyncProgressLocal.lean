import EraVerif.Proofs.SyncProgressInv

/-!
# C06s, part 3: what one validator does in each phase of the synchronous schedule

Everything here is about a single replica handling a list of inputs in one environment (`runE`, `effsE`): the tick,
the new-view message, the exchange of timeout votes (with votes that were already delivered before: duplicates), the
leader's proposal, the exchange of commit votes. The existing enabling lemmas of `Props/C06.lean` are used for the
single steps and for "the view advances"; what is added is the bookkeeping around them:

* `runE_first_change`: the first input of a list that changes the view, with an invariant of the steps before it;
* `runE_filter_fresh`: votes of validators already recorded for the view are refused without effect, so a list of
  votes acts like its sub-list of fresh votes;
* `timeouts_advance` / `commits_advance`: the phase lemmas (4) and (6), including the effects emitted.
-/

namespace EraVerif.Proofs.Sync
open EraVerif.Model EraVerif.Proofs.ReplicaStep EraVerif.Proofs.Progress EraVerif.Proofs.RefineIP
open EraVerif.Proofs.Certs

/-! ## a replica handling a list of inputs in one environment -/

def runE (cfg : RCfg) (e : Env) (r : Replica) (inps : List Input) : Replica :=
  inps.foldl (fun r inp => (step cfg r e inp).r) r

def effsE (cfg : RCfg) (e : Env) : Replica → List Input → List Effect
  | _, [] => []
  | r, inp :: rest => (step cfg r e inp).effs ++ effsE cfg e (step cfg r e inp).r rest

theorem runE_nil (cfg : RCfg) (e : Env) (r : Replica) : runE cfg e r [] = r := rfl

theorem runE_cons (cfg : RCfg) (e : Env) (r : Replica) (inp : Input) (rest : List Input) :
    runE cfg e r (inp :: rest) = runE cfg e (step cfg r e inp).r rest := rfl

theorem runE_append (cfg : RCfg) (e : Env) (r : Replica) (a b : List Input) :
    runE cfg e r (a ++ b) = runE cfg e (runE cfg e r a) b := by
  unfold runE; rw [List.foldl_append]

theorem runE_eq_run (cfg : RCfg) (e : Env) (r : Replica) (inps : List Input) :
    runE cfg e r inps = run cfg r (inps.map (fun i => (e, i))) := by
  induction inps generalizing r with
  | nil => rfl
  | cons inp rest ih => rw [runE_cons, ih, List.map_cons, run_cons]

theorem sysRun_r' (cfg : RCfg) (e : Env) (s : Sys) (inps : List Input) :
    (sysRun cfg e s inps).r = runE cfg e s.r inps := by
  rw [sysRun_r, runE_eq_run]

theorem sysEffs_eq (cfg : RCfg) (e : Env) (s : Sys) (inps : List Input) :
    sysEffs cfg e s inps = effsE cfg e s.r inps := by
  induction inps generalizing s with
  | nil => rfl
  | cons inp rest ih =>
    simp only [sysEffs, effsE]
    rw [ih, sysStep_r]

theorem effsE_append (cfg : RCfg) (e : Env) (r : Replica) (a b : List Input) :
    effsE cfg e r (a ++ b) = effsE cfg e r a ++ effsE cfg e (runE cfg e r a) b := by
  induction a generalizing r with
  | nil => rfl
  | cons x a ih =>
    simp only [List.cons_append, effsE, runE_cons]
    rw [ih, List.append_assoc]

/-- the effects of the step taken in the middle of a run are among the effects of the run -/
theorem effsE_mid (cfg : RCfg) (e : Env) (r : Replica) (l1 : List Input) (x : Input) (l2 : List Input) :
    ∀ ef ∈ (step cfg (runE cfg e r l1) e x).effs, ef ∈ effsE cfg e r (l1 ++ x :: l2) := by
  intro ef hef
  rw [effsE_append]
  exact List.mem_append_right _ (by simp only [effsE]; exact List.mem_append_left _ hef)

/-- **The first input that changes the view.** `P` is any property that holds at the start and is preserved by the
steps (on inputs of the list) that leave the view alone. -/
theorem runE_first_change (cfg : RCfg) (e : Env) (P : Replica → Prop) :
    ∀ (l : List Input) (r : Replica), P r →
      (∀ r' x, x ∈ l → P r' → (step cfg r' e x).r.view = r'.view → P (step cfg r' e x).r) →
      (runE cfg e r l).view ≠ r.view →
      ∃ l1 x l2, l = l1 ++ x :: l2 ∧ P (runE cfg e r l1) ∧ (runE cfg e r l1).view = r.view ∧
        (step cfg (runE cfg e r l1) e x).r.view ≠ r.view := by
  intro l
  induction l with
  | nil => intro r _ _ h; exact absurd rfl h
  | cons y rest ih =>
    intro r hP hpres hne
    by_cases hy : (step cfg r e y).r.view = r.view
    · have hP1 := hpres r y List.mem_cons_self hP hy
      rw [runE_cons] at hne
      obtain ⟨l1, x, l2, hl, h1, h2, h3⟩ := ih (step cfg r e y).r hP1
        (fun r' x hx => hpres r' x (List.mem_cons_of_mem _ hx)) (by rw [hy]; exact hne)
      refine ⟨y :: l1, x, l2, by rw [hl]; rfl, ?_, ?_, ?_⟩
      · rw [runE_cons]; exact h1
      · rw [runE_cons, h2, hy]
      · rw [runE_cons, ← hy]; exact h3
    · exact ⟨[], y, rest, rfl, hP, rfl, hy⟩

/-- well-formedness and "the store has caught up with the cache" survive every step that runs in such an
environment -/
theorem wf_below_step {cfg : RCfg} {e : Env} (hs : e.persistedNext ≤ e.storeNext) {r : Replica} {inp : Input}
    (hin : ∀ b, inp ≠ .restart b) (h : Wf cfg r ∧ CacheBelowStore r e.storeNext) :
    Wf cfg (step cfg r e inp).r ∧ CacheBelowStore (step cfg r e inp).r e.storeNext := by
  refine ⟨?_, step_cache_below cfg r e inp hin h.2 hs⟩
  rcases step_wf h.1 e inp hin with ⟨w, hr⟩ | ⟨hb, _⟩ | ⟨_, ha⟩
  · rw [(step_rejected hr).1]; exact h.1
  · exact absurd hb (step_not_blocked cfg r e inp h.2 hs)
  · exact ha.wf

/-! ## phases (1), (3): the tick -/

theorem tvoteOf_eq (cfg : RCfg) (r : Replica) : tvoteOf cfg r = ownTimeout cfg r := rfl

theorem tvoteOf_verify {cfg : RCfg} {r : Replica} (hw : Wf cfg r) : (tvoteOf cfg r).verify cfg.c = true := by
  simp only [TVote.verify, tvoteOf, View.verify, beq_self_eq_true, Bool.and_self, Bool.true_and, Bool.and_eq_true]
  constructor
  · cases hv : r.highVote with
    | none => rfl
    | some v => exact hw.hvote v hv
  · cases hq : r.highCommitQC with
    | none => rfl
    | some q => exact hw.hcqc q hq

/-- the tick: phase `timeout`, nothing else changes; the timeout vote for the current view leaves the node, and (in a
view other than 0) the new-view message with the replica's highest certificate -/
theorem tick_sys {cfg : RCfg} (e : Env) (s : Sys) (hw : Wf cfg s.r) :
    (sysStep cfg e s .tick).r = stState s.r ∧
    Msg.timeout (tvoteOf cfg s.r) ∈ (sysStep cfg e s .tick).sent ∧
    (s.r.view ≠ 0 → ∃ j, getJustification s.r = .ok j ∧ Msg.newView j ∈ (sysStep cfg e s .tick).sent) := by
  have hr : (sysStep cfg e s .tick).r = stState s.r := by
    rw [sysStep_r]; exact startTimeout_r cfg s.r
  refine ⟨hr, ?_, ?_⟩
  · rw [sysStep_sent]
    apply List.mem_append_right
    rw [mem_sendsOf]
    show Effect.send _ ∈ (startTimeout cfg s.r).effs
    by_cases hv : s.r.view = 0
    · rw [startTimeout_eq0 cfg s.r hv]
      simp only [List.mem_cons, List.not_mem_nil, or_false]
      exact Or.inr rfl
    · have hheld : HeldAtLeast s.r s.r.view := by
        rcases hw.held with h | h
        · exact absurd h hv
        · exact h
      obtain ⟨j, hj⟩ := getJustification_ok hheld
      rw [startTimeout_eq1 cfg s.r j hv hj]
      simp only [List.mem_cons, List.not_mem_nil, or_false]
      exact Or.inr (Or.inr rfl)
  · intro hv
    have hheld : HeldAtLeast s.r s.r.view := by
      rcases hw.held with h | h
      · exact absurd h hv
      · exact h
    obtain ⟨j, hj⟩ := getJustification_ok hheld
    refine ⟨j, hj, ?_⟩
    rw [sysStep_sent]
    apply List.mem_append_right
    rw [mem_sendsOf]
    show Effect.send _ ∈ (startTimeout cfg s.r).effs
    rw [startTimeout_eq1 cfg s.r j hv hj]
    simp

/-! ## phase (2): the new-view message -/

/-- a verifying new-view message for a view `W ≥ r.view` from a committee member leaves the replica in view `W`
(pulled forward if it was behind; unchanged view if it was already there) -/
theorem newView_view {cfg : RCfg} {r : Replica} {e : Env} {key : Nat} {j : Just} (hw : Wf cfg r) (hk : key < cfg.c.n)
    (hj : j.verify cfg.c = true) (hle : r.view ≤ j.viewNumber) (hb : CacheBelowStore r e.storeNext) :
    (step cfg r e (.msg ⟨.newView j, key, true⟩)).r.view = j.viewNumber := by
  have hnb : ∀ q, carriedQC j = some q → ¬ Blocks r e q := fun q _ => not_blocks_of_below hb
  rcases Nat.lt_or_ge r.view j.viewNumber with hlt | hge
  · obtain ⟨_, _, _, h, _⟩ := Props.C06.newview_pulls_forward cfg r e key j hw hk hj hlt hnb
    exact h
  · have heq : j.viewNumber = r.view := by omega
    show (onNewView cfg r e key true j).r.view = _
    rcases onNewView_cases cfg r e key true j with ⟨_, w, h⟩ | ⟨_, ht⟩
    · rw [h]; exact heq.symm
    · rw [ht]
      have hok := processJust_ok_of_noBlock hnb
      have := ((newViewTail_reaction (cfg := cfg) (r := r) e hj).2 hok).2 (by omega)
      rw [this]
      show (processJust r e j).1.view = _
      rw [(certOnly_processJust r e j).view]
      exact heq.symm

/-! ## phase (4): the exchange of timeout votes -/

/-- a timeout vote as an input, validly signed -/
def tin (x : Nat × TVote) : Input := .msg ⟨.timeout x.2, x.1, true⟩

/-- `key` has no timeout vote for view `v` or later recorded at `r` -/
def freshB (r : Replica) (v : Nat) (key : Nat) : Bool :=
  match alGet r.timeoutViews key with
  | some w => decide (w < v)
  | none => true

theorem freshB_iff (r : Replica) (v key : Nat) :
    freshB r v key = true ↔ ∀ w, alGet r.timeoutViews key = some w → w < v := by
  unfold freshB
  cases alGet r.timeoutViews key with
  | none => simp
  | some w => simp

/-- timeout votes for a view the replica has left are refused -/
theorem runE_old_timeouts (cfg : RCfg) (e : Env) (v : Nat) :
    ∀ (votes : List (Nat × TVote)) (r : Replica), v < r.view → (∀ x ∈ votes, x.2.view.number = v) →
      runE cfg e r (votes.map tin) = r ∧ effsE cfg e r (votes.map tin) = [] := by
  intro votes
  induction votes with
  | nil => intro r _ _; exact ⟨rfl, rfl⟩
  | cons x rest ih =>
    intro r hlt hall
    have hx := hall x List.mem_cons_self
    have hstep : ∃ w, step cfg r e (tin x) = rej r w := by
      show ∃ w, onTimeout cfg r e x.1 true x.2 = rej r w
      rcases onTimeout_cases cfg r e x.1 true x.2 with ⟨_, w, h⟩ | ⟨hc, _⟩
      · exact ⟨w, h⟩
      · have := hc.2.1; omega
    obtain ⟨w, hstep⟩ := hstep
    obtain ⟨i1, i2⟩ := ih r hlt (fun y hy => hall y (List.mem_cons_of_mem _ hy))
    constructor
    · rw [List.map_cons, runE_cons, hstep]; exact i1
    · rw [List.map_cons]
      simp only [effsE]
      rw [hstep]
      exact i2

/-- a vote of a validator already recorded for view `v` (or later) is refused without any change -/
theorem stale_timeout_rejected (cfg : RCfg) (e : Env) (r : Replica) (x : Nat × TVote) (v : Nat)
    (hv : x.2.view.number = v) (hf : freshB r v x.1 = false) : (step cfg r e (tin x)).r = r := by
  show (onTimeout cfg r e x.1 true x.2).r = r
  rcases onTimeout_cases cfg r e x.1 true x.2 with ⟨_, w, h⟩ | ⟨hc, _⟩
  · rw [h]; rfl
  · have := (freshB_iff r v x.1).mpr (by rw [← hv]; exact hc.2.2.1)
    rw [this] at hf; cases hf

/-- **Duplicates do not matter**: delivering a list of timeout votes for view `v` from distinct validators acts
like delivering only those whose signer is not yet recorded for `v` -/
theorem runE_filter_fresh (cfg : RCfg) (e : Env) (v : Nat) :
    ∀ (votes : List (Nat × TVote)) (r : Replica), (∀ x ∈ votes, x.2.view.number = v) → (votes.map (·.1)).Nodup →
      runE cfg e r (votes.map tin) = runE cfg e r ((votes.filter (fun x => freshB r v x.1)).map tin) := by
  intro votes
  induction votes with
  | nil => intro r _ _; rfl
  | cons x rest ih =>
    intro r hall hnd
    simp only [List.map_cons, List.nodup_cons, List.mem_map, not_exists, not_and] at hnd
    have hrest := fun y hy => hall y (List.mem_cons_of_mem _ hy)
    cases hf : freshB r v x.1 with
    | false =>
      rw [List.filter_cons_of_neg (by simp [hf]), List.map_cons, runE_cons,
        stale_timeout_rejected cfg e r x v (hall x List.mem_cons_self) hf]
      exact ih r hrest hnd.2
    | true =>
      rw [List.filter_cons_of_pos (by simp [hf]), List.map_cons, List.map_cons, runE_cons, runE_cons,
        ih _ hrest hnd.2]
      congr 2
      apply List.filter_congr
      intro y hy
      have hne : y.1 ≠ x.1 := fun h => hnd.1 y hy h
      have hd := (step_delta cfg r e (tin x) (by intro b h; cases h)).tviews
      unfold freshB
      rcases hd with h | ⟨key, t, hinp, h⟩
      · rw [h]
      · have hk : key = x.1 := by
          have : tin x = .msg ⟨.timeout t, key, true⟩ := hinp
          simp only [tin, Input.msg.injEq, Signed.mk.injEq] at this
          exact this.2.1.symm
        rw [h, alGet_alSet, if_neg (by rw [hk]; exact hne)]

theorem sum_filter_split {α : Type} (f : α → Nat) (p : α → Bool) (l : List α) :
    (l.map f).sum = ((l.filter p).map f).sum + ((l.filter (fun x => !p x)).map f).sum := by
  induction l with
  | nil => rfl
  | cons x l ih =>
    cases hp : p x
    · rw [List.filter_cons_of_neg (by simp [hp]), List.filter_cons_of_pos (by simp [hp])]
      simp only [List.map_cons, List.sum_cons]
      omega
    · rw [List.filter_cons_of_pos (by simp [hp]), List.filter_cons_of_neg (by simp [hp])]
      simp only [List.map_cons, List.sum_cons]
      omega

/-- **Phase (4) at one validator.** The replica is in view `≤ v`; it is handed validly signed, verifying timeout votes
for view `v` from distinct committee members whose weight reaches the quorum, none of which is recorded at `r` for a
view above `v` (some may be recorded for `v`: delivered before). Next to a store that has caught up with the proposal
cache it ends in view `v + 1`, phase `prepare`, with a timeout certificate of view `≥ v`, and — in the step that
completed the quorum — has notified its proposer with the justification `get_justification()` returns in the final
state. -/
theorem timeouts_advance {cfg : RCfg} (ht : 1 ≤ cfg.c.total) (e : Env) (r : Replica) (v : Nat)
    (votes : List (Nat × TVote))
    (hw : Wf cfg r) (hfull : TCacheFull r) (hlow : TCacheLow cfg r) (hview : r.view ≤ v) (hnw : v + 1 < 2 ^ 64)
    (hvalid : ∀ x ∈ votes, x.1 < cfg.c.n ∧ x.2.view.number = v ∧ x.2.verify cfg.c = true)
    (hnd : (votes.map (·.1)).Nodup)
    (hle : ∀ x ∈ votes, ∀ w, alGet r.timeoutViews x.1 = some w → w ≤ v)
    (hstore : CacheBelowStore r e.storeNext) (hsane : e.persistedNext ≤ e.storeNext)
    (hweight : cfg.c.quorum ≤ (votes.map (fun x => cfg.c.weights.getD x.1 0)).sum) :
    (runE cfg e r (votes.map tin)).view = v + 1 ∧ (runE cfg e r (votes.map tin)).phase = .prepare ∧
    (∃ tq, (runE cfg e r (votes.map tin)).highTimeoutQC = some tq ∧ v ≤ tq.view.number) ∧
    ∃ j, getJustification (runE cfg e r (votes.map tin)) = .ok j ∧ Effect.notify j ∈ effsE cfg e r (votes.map tin) := by
  have hallv : ∀ x ∈ votes, x.2.view.number = v := fun x hx => (hvalid x hx).2.1
  -- 1. the view advances: reduce to the fresh votes and use the any-order lemma
  have hfinal : (runE cfg e r (votes.map tin)).view = v + 1 ∧ (runE cfg e r (votes.map tin)).phase = .prepare ∧
      Wf cfg (runE cfg e r (votes.map tin)) ∧
      ∃ tq, (runE cfg e r (votes.map tin)).highTimeoutQC = some tq ∧ v ≤ tq.view.number := by
    rw [runE_filter_fresh cfg e v votes r hallv hnd, runE_eq_run]
    have hsplit := sum_filter_split (fun x : Nat × TVote => cfg.c.weights.getD x.1 0) (fun x => freshB r v x.1) votes
    have hsub : ∀ x ∈ votes.filter (fun x => freshB r v x.1), x ∈ votes ∧ freshB r v x.1 = true :=
      fun x hx => List.mem_filter.mp hx
    have hfrnd : ((votes.filter (fun x => freshB r v x.1)).map (·.1)).Nodup := (List.filter_sublist.map _).nodup hnd
    have hstsub : ∀ x ∈ votes.filter (fun x => !freshB r v x.1), x ∈ votes ∧ freshB r v x.1 = false := by
      intro x hx
      obtain ⟨h1, h2⟩ := List.mem_filter.mp hx
      exact ⟨h1, by simpa using h2⟩
    have hstnd : ((votes.filter (fun x => !freshB r v x.1)).map (·.1)).Nodup := (List.filter_sublist.map _).nodup hnd
    generalize votes.filter (fun x => freshB r v x.1) = fr at *
    generalize votes.filter (fun x => !freshB r v x.1) = st at *
    have hmap : (fr.map tin).map (fun i => (e, i)) = (fr.map (fun x => (e, x.1, x.2))).map timeoutInput := by
      rw [List.map_map, List.map_map]; rfl
    rw [hmap]
    -- the recorded ones are recorded for exactly `v`, and their weight is in the cache
    have hrec : ∀ s ∈ st.map (·.1), alGet r.timeoutViews s = some v := by
      intro s hs
      obtain ⟨x, hx, rfl⟩ := List.mem_map.mp hs
      obtain ⟨hxv, hxf'⟩ := hstsub x hx
      unfold freshB at hxf'
      cases hg : alGet r.timeoutViews x.1 with
      | none => rw [hg] at hxf'; cases hxf'
      | some w =>
        rw [hg] at hxf'
        have h1 : ¬ w < v := by simpa using hxf'
        have h2 := hle x hxv w hg
        have : w = v := by omega
        rw [this]
    have hcw := cached_weight_ge hw hfull v hview (st.map (·.1)) hstnd hrec
    rw [List.map_map] at hcw
    have hcw' : (st.map (fun x => cfg.c.weights.getD x.1 0)).sum ≤ tqcGroupWeight cfg.c (cachedT cfg r v) := hcw
    have hsum : cfg.c.quorum ≤ tqcGroupWeight cfg.c (cachedT cfg r v) +
        ((fr.map (fun x => (e, x.1, x.2))).map (fun x => cfg.c.weights.getD x.2.1 0)).sum := by
      rw [List.map_map]
      have : (fun x : Env × Nat × TVote => cfg.c.weights.getD x.2.1 0) ∘ (fun x : Nat × TVote => (e, x.1, x.2)) =
          fun x => cfg.c.weights.getD x.1 0 := rfl
      rw [this]
      omega
    have hclow : tqcGroupWeight cfg.c (cachedT cfg r v) < cfg.c.quorum := by
      unfold cachedT
      cases hg : alGet r.timeoutQCs v with
      | none =>
        have h0 : tqcGroupWeight cfg.c (TimeoutQC.new (viewOf cfg v)) = 0 := rfl
        simp only [Option.getD_none, h0]
        exact quorum_pos cfg.c ht
      | some q => simp only [Option.getD_some]; exact hlow v q (alGet_mem hg)
    exact run_timeouts_aux cfg v hnw (fr.map (fun x => (e, x.1, x.2))) r hw hview
      (by
        intro x hx
        obtain ⟨y, hy, rfl⟩ := List.mem_map.mp hx
        exact hvalid y (hsub y hy).1)
      (by
        rw [List.map_map]
        exact hfrnd)
      (by
        intro x hx w hw'
        obtain ⟨y, hy, rfl⟩ := List.mem_map.mp hx
        exact (freshB_iff r v y.1).mp (hsub y hy).2 w hw')
      (by
        intro x hx p hp
        obtain ⟨y, hy, rfl⟩ := List.mem_map.mp hx
        exact hstore p hp)
      hsum (Or.inr hclow)
  obtain ⟨f1, f2, _, f4⟩ := hfinal
  refine ⟨f1, f2, f4, ?_⟩
  -- 2. the step that changed the view
  have hnr : ∀ x ∈ votes.map tin, ∀ b, x ≠ .restart b := by
    intro x hx b hb
    obtain ⟨y, _, rfl⟩ := List.mem_map.mp hx
    cases hb
  obtain ⟨l1, x, l2, hl, ⟨hwm, hbm⟩, hvm, hchg⟩ := runE_first_change cfg e
    (fun r' => Wf cfg r' ∧ CacheBelowStore r' e.storeNext) (votes.map tin) r ⟨hw, hstore⟩
    (fun r' x hx hP _ => wf_below_step hsane (hnr x hx) hP) (by rw [f1]; omega)
  have hxm : x ∈ votes.map tin := by rw [hl]; simp
  obtain ⟨y, hy, rfl⟩ := List.mem_map.mp hxm
  obtain ⟨hyk, hyv, hyver⟩ := hvalid y hy
  -- the step on `y` at the state `rm` reached after `l1`
  have hstepchg : (onTimeout cfg (runE cfg e r l1) e y.1 true y.2).r.view ≠ r.view := hchg
  rcases onTimeout_cases cfg (runE cfg e r l1) e y.1 true y.2 with ⟨_, w, h⟩ | ⟨hc, htl⟩
  · rw [h] at hstepchg; exact absurd hvm hstepchg
  obtain ⟨qc, hadd, hasm, _, hlw, hhigh⟩ := timeoutTail_reaction e hwm hc
  rw [htl] at hstepchg
  by_cases hlt : tqcGroupWeight cfg.c qc < cfg.c.quorum
  · rw [hlw hlt] at hstepchg; exact absurd hvm hstepchg
  obtain ⟨hver, hb, ha⟩ := hhigh (by omega)
  have hok : (processTimeoutQC (timeoutR2 (runE cfg e r l1) y.1 y.2 qc) e qc).2.2 = true := by
    cases hok : (processTimeoutQC (timeoutR2 (runE cfg e r l1) y.1 y.2 qc) e qc).2.2 with
    | true => rfl
    | false =>
      have hbl : (step cfg (runE cfg e r l1) e (tin y)).out = .blocked := by
        show (onTimeout cfg (runE cfg e r l1) e y.1 true y.2).out = .blocked
        rw [htl, hb hok]
      exact absurd hbl (step_not_blocked cfg _ e _ hbm hsane)
  obtain ⟨j, hj, heq⟩ := ha hok
  have hstep : step cfg (runE cfg e r l1) e (tin y) =
      { r := snvState (processTimeoutQC (timeoutR2 (runE cfg e r l1) y.1 y.2 qc) e qc).1 (nextU64 y.2.view.number),
        effs := (processTimeoutQC (timeoutR2 (runE cfg e r l1) y.1 y.2 qc) e qc).2.1 ++
          [.notify j,
           .persist (snvState (processTimeoutQC (timeoutR2 (runE cfg e r l1) y.1 y.2 qc) e qc).1
             (nextU64 y.2.view.number)).durable,
           .send (.newView j)],
        out := .accepted } := by
    show onTimeout cfg (runE cfg e r l1) e y.1 true y.2 = _
    rw [htl, heq]
  obtain ⟨g1, _, _, g4, g5, _⟩ :=
    snvState_fields (processTimeoutQC (timeoutR2 (runE cfg e r l1) y.1 y.2 qc) e qc).1 (nextU64 y.2.view.number)
  -- the votes after it are refused: the final state is the state after this step
  have hl2 : ∃ votes2 : List (Nat × TVote), l2 = votes2.map tin ∧ ∀ z ∈ votes2, z.2.view.number = v := by
    obtain ⟨a, b, hab, _, hb'⟩ := List.map_eq_append_iff.mp hl
    obtain ⟨c, d, hcd, _, hd'⟩ := List.map_eq_cons_iff.mp hb'
    refine ⟨d, hd'.symm, fun z hz => hallv z ?_⟩
    rw [hab, hcd]; simp [hz]
  obtain ⟨votes2, rfl, hv2⟩ := hl2
  have hfin : runE cfg e r (votes.map tin) = (step cfg (runE cfg e r l1) e (tin y)).r := by
    rw [hl, runE_append, runE_cons]
    refine (runE_old_timeouts cfg e v votes2 _ ?_ hv2).1
    rw [hstep]
    show v < (snvState _ _).view
    rw [g1, hyv, nextU64_eq _ hnw]
    omega
  refine ⟨j, ?_, ?_⟩
  · rw [hfin, hstep]
    exact (getJustification_congr g4 g5).trans hj
  · rw [hl]
    apply effsE_mid cfg e r l1 (tin y) (votes2.map tin)
    rw [hstep]
    simp

/-! ## phase (5): the leader's proposal -/

/-- the commit vote for the block implied by `j`, with the fresh payload's hash unless `j` implies a hash -/
def voteFor (cfg : RCfg) (j : Just) (fresh : Payload) : Vote :=
  { view := j.view,
    proposal := { number := (j.impliedBlock cfg.c).1, payload := ((j.impliedBlock cfg.c).2).getD fresh.id } }

/-- **Phase (5) at one validator**: a replica in `prepare` of view `j.viewNumber` (or behind) accepts the proposal
the honest leader built from `j`: it is then in that view in phase `commit`, its high vote is the vote for the implied
block, and that vote has left the node. The commit-vote bookkeeping is untouched; the high commit certificate is the
old one or the one carried by `j`; a fresh payload is now in the proposal cache. -/
theorem proposal_sys {cfg : RCfg} (e e' : Env) (s : Sys) (j : Just) (fresh : Payload) (m : Msg) (hw : Wf cfg s.r)
    (hview : s.r.view < j.viewNumber ∨ (j.viewNumber = s.r.view ∧ s.r.phase = .prepare))
    (hj : j.verify cfg.c = true) (hm : createProposal cfg e' j fresh = some m)
    (hsize : fresh.size ≤ cfg.maxPayload) (hpay : e.payloadOk = true)
    (hq : e.queuedFirst ≤ (j.impliedBlock cfg.c).1)
    (hprev : (j.impliedBlock cfg.c).2 = none →
      (j.impliedBlock cfg.c).1 = 0 ∨ (j.impliedBlock cfg.c).1 - 1 < e.persistedNext)
    (hb : CacheBelowStore s.r e.storeNext) :
    (sysStep cfg e s (.msg ⟨m, cfg.leader j.viewNumber, true⟩)).r.view = j.viewNumber ∧
    (sysStep cfg e s (.msg ⟨m, cfg.leader j.viewNumber, true⟩)).r.phase = .commit ∧
    (sysStep cfg e s (.msg ⟨m, cfg.leader j.viewNumber, true⟩)).r.highVote = some (voteFor cfg j fresh) ∧
    Msg.commit (voteFor cfg j fresh) ∈ (sysStep cfg e s (.msg ⟨m, cfg.leader j.viewNumber, true⟩)).sent ∧
    (sysStep cfg e s (.msg ⟨m, cfg.leader j.viewNumber, true⟩)).r.commitViews = s.r.commitViews ∧
    (sysStep cfg e s (.msg ⟨m, cfg.leader j.viewNumber, true⟩)).r.highCommitQC = hcAfter s.r.highCommitQC j ∧
    ((j.impliedBlock cfg.c).2 = none →
      ∃ p ∈ (sysStep cfg e s (.msg ⟨m, cfg.leader j.viewNumber, true⟩)).r.proposals,
        p.1 = (j.impliedBlock cfg.c).1 ∧ p.2.id = fresh.id) := by
  have hnb : ∀ q, carriedQC j = some q → ¬ Blocks s.r e q := fun q _ => not_blocks_of_below hb
  obtain ⟨qs, hacc, f1, f2, _, _, heff⟩ :=
    Props.C06.honest_proposal_accepted cfg s.r e e' j fresh m hw hview hj hm hsize hpay hq hprev hnb
  have hin : ∀ b, Input.msg ⟨m, cfg.leader j.viewNumber, true⟩ ≠ .restart b := by intro b h; cases h
  have hsend : Effect.send (.commit (voteFor cfg j fresh)) ∈
      (step cfg s.r e (.msg ⟨m, cfg.leader j.viewNumber, true⟩)).effs := by
    rw [heff]; simp [voteFor]
  have hhv := (Props.C05.commit_is_high_vote cfg s.r e _ hw hin hacc _ hsend).1
  have hck := (step_delta cfg s.r e (.msg ⟨m, cfg.leader j.viewNumber, true⟩) hin).ckeep
  rw [sysStep_r, sysStep_sent]
  refine ⟨f1, f2, hhv, List.mem_append_right _ (mem_sendsOf.mpr hsend), ?_, ?_, ?_⟩
  · apply hck
    intro key v h
    rcases Props.C05.proposal_self_justifying cfg e' j fresh m hm with ⟨_, _, rfl⟩ | ⟨_, rfl⟩ <;> cases h
  · rcases Props.C05.proposal_self_justifying cfg e' j fresh m hm with ⟨_, _, rfl⟩ | ⟨_, rfl⟩
    all_goals
      have hacc' : (onProposal cfg s.r e (cfg.leader j.viewNumber) true _ j).out = .accepted := hacc
      obtain ⟨_, hash, r0, hd, _, heq⟩ := onProposal_accepted_shape hacc'
      show (onProposal cfg s.r e (cfg.leader j.viewNumber) true _ j).r.highCommitQC = _
      rw [heq]
      show (processJust (propR1 cfg r0 j hash) e j).1.highCommitQC = _
      rw [processJust_hc]
      have : (propR1 cfg r0 j hash).highCommitQC = s.r.highCommitQC := by
        rw [propDecide_rest hd]; rfl
      rw [this]
  · intro hnone
    rcases Props.C05.proposal_self_justifying cfg e' j fresh m hm with ⟨hsh, hi, _⟩ | ⟨_, rfl⟩
    · rw [hi] at hnone; cases hnone
    · obtain ⟨_, _, _, _, _, hash, hh, _, _, _, _⟩ :=
        Props.C05.accepted_proposal_conforms cfg s.r e _ _ (some fresh) j hacc
      rcases hh with ⟨a, _⟩ | ⟨_, pl, b, c, _, _, _, q, hq1, hq2, hq3⟩
      · rw [a] at hnone; cases hnone
      · cases b
        exact ⟨q, hq1, hq2, hq3⟩

/-! ## phase (6): the exchange of commit votes -/

/-- a commit vote for `vt` as an input, validly signed by `key` -/
def cin (vt : Vote) (key : Nat) : Input := .msg ⟨.commit vt, key, true⟩

theorem runE_old_commits (cfg : RCfg) (e : Env) (vt : Vote) :
    ∀ (keys : List Nat) (r : Replica), vt.view.number < r.view →
      runE cfg e r (keys.map (cin vt)) = r ∧ effsE cfg e r (keys.map (cin vt)) = [] := by
  intro keys
  induction keys with
  | nil => intro r _; exact ⟨rfl, rfl⟩
  | cons k rest ih =>
    intro r hlt
    have hstep : ∃ w, step cfg r e (cin vt k) = rej r w := by
      show ∃ w, onCommit cfg r e k true vt = rej r w
      rcases onCommit_cases cfg r e k true vt with ⟨_, w, h⟩ | ⟨hc, _⟩
      · exact ⟨w, h⟩
      · have := hc.2.1; omega
    obtain ⟨w, hstep⟩ := hstep
    obtain ⟨i1, i2⟩ := ih r hlt
    constructor
    · rw [List.map_cons, runE_cons, hstep]; exact i1
    · rw [List.map_cons]
      simp only [effsE]
      rw [hstep]
      exact i2

/-- **Phase (6) at one validator.** The replica is in view `≤ vt.view`; it is handed validly signed commit votes for
the verifying vote `vt` from distinct committee members whose weight reaches the quorum, none of which is recorded for
view `vt.view` or later. Next to a store that has caught up with the proposal cache it ends in view `vt.view + 1`,
phase `prepare`; the commit certificate `qc` completed on the way verifies and is for exactly `vt`; if it is newer than
the certificate held at the start it is the high commit certificate at the end; if moreover the payload is cached and
the store is exactly at that block (`Hands`), the block was handed to the store (`queueBlock`); and the proposer was
notified with the justification of the final state. -/
theorem commits_advance {cfg : RCfg} (ht : 1 ≤ cfg.c.total) (e : Env) (r : Replica) (vt : Vote) (keys : List Nat)
    (hw : Wf cfg r) (hv : vt.verify cfg.c = true) (hview : r.view ≤ vt.view.number)
    (hnw : vt.view.number + 1 < 2 ^ 64) (hk : ∀ k ∈ keys, k < cfg.c.n) (hnd : keys.Nodup)
    (hfresh : ∀ k ∈ keys, ∀ w, alGet r.commitViews k = some w → w < vt.view.number)
    (hstore : CacheBelowStore r e.storeNext) (hsane : e.persistedNext ≤ e.storeNext)
    (hweight : cfg.c.quorum ≤ (keys.map (fun k => cfg.c.weights.getD k 0)).sum) :
    (runE cfg e r (keys.map (cin vt))).view = vt.view.number + 1 ∧
    (runE cfg e r (keys.map (cin vt))).phase = .prepare ∧
    ∃ qc : CommitQC, qc.verify cfg.c = true ∧ qc.message = vt ∧
      (Newer r qc → (runE cfg e r (keys.map (cin vt))).highCommitQC = some qc) ∧
      (Hands r e qc → Effect.queueBlock vt.proposal.number vt.proposal.payload qc ∈
        effsE cfg e r (keys.map (cin vt))) ∧
      ∃ j, getJustification (runE cfg e r (keys.map (cin vt))) = .ok j ∧
        Effect.notify j ∈ effsE cfg e r (keys.map (cin vt)) := by
  have hne : keys ≠ [] := by
    intro h
    rw [h] at hweight
    have := quorum_pos cfg.c ht
    simp at hweight
    omega
  have hmap : (keys.map (cin vt)).map (fun i => (e, i)) = (keys.map (fun k => (e, k))).map (commitInput vt) := by
    rw [List.map_map, List.map_map]; rfl
  have hfinal := Props.C06.quorum_of_commits_advances_any_order cfg r vt (keys.map (fun k => (e, k))) hw hv hview hnw
    (by simpa using hne)
    (by intro x hx; obtain ⟨k, hk', rfl⟩ := List.mem_map.mp hx; exact hk k hk')
    (by rw [List.map_map]; simpa using hnd)
    (by intro x hx w hw'; obtain ⟨k, hk', rfl⟩ := List.mem_map.mp hx; exact hfresh k hk' w hw')
    (by rw [List.map_map]; exact hweight)
    (by intro x hx p hp; obtain ⟨k, hk', rfl⟩ := List.mem_map.mp hx; exact hstore p hp)
  rw [← hmap, ← runE_eq_run] at hfinal
  obtain ⟨f1, f2, _, _⟩ := hfinal
  refine ⟨f1, f2, ?_⟩
  -- the first step that changes the view; before it only the caches change
  have hnr : ∀ x ∈ keys.map (cin vt), ∀ b, x ≠ .restart b := by
    intro x hx b hb
    obtain ⟨y, _, rfl⟩ := List.mem_map.mp hx
    cases hb
  have hpres : ∀ r' x, x ∈ keys.map (cin vt) → (Wf cfg r' ∧ r'.toDurable = r.toDurable ∧ r'.view ≤ vt.view.number) →
      (step cfg r' e x).r.view = r'.view →
      (Wf cfg (step cfg r' e x).r ∧ (step cfg r' e x).r.toDurable = r.toDurable ∧
        (step cfg r' e x).r.view ≤ vt.view.number) := by
    intro r' x hx ⟨hw', hd', hv'⟩ hsame
    have hb' : CacheBelowStore r' e.storeNext := by
      have : r'.proposals = r.proposals := congrArg Durable.proposals hd'
      intro p hp; rw [this] at hp; exact hstore p hp
    refine ⟨(wf_below_step hsane (hnr x hx) ⟨hw', hb'⟩).1, ?_, by rw [hsame]; exact hv'⟩
    obtain ⟨k, _, rfl⟩ := List.mem_map.mp hx
    show (onCommit cfg r' e k true vt).r.toDurable = _
    have hsame' : (onCommit cfg r' e k true vt).r.view = r'.view := hsame
    rcases onCommit_cases cfg r' e k true vt with ⟨_, w, h⟩ | ⟨hc, htl⟩
    · rw [h]; exact hd'
    · obtain ⟨qc, _, _, hlw, hhigh⟩ := commitTail_reaction e hw' hc
      rw [htl] at hsame' ⊢
      by_cases hlt : weightOf cfg.c.weights qc.signers < cfg.c.quorum
      · rw [hlw hlt]; exact hd'
      · obtain ⟨_, hbk, ha⟩ := hhigh (by omega)
        cases hok : (processCommitQC (commitR2 r' k vt qc) e qc).2.2 with
        | false =>
          have hbl : (step cfg r' e (cin vt k)).out = .blocked := by
            show (onCommit cfg r' e k true vt).out = .blocked
            rw [htl, hbk hok]
          exact absurd hbl (step_not_blocked cfg _ e _ hb' hsane)
        | true =>
          obtain ⟨j, _, heq⟩ := ha hok
          rw [heq] at hsame'
          obtain ⟨g1, _⟩ := snvState_fields (processCommitQC (commitR2 r' k vt qc) e qc).1 (nextU64 vt.view.number)
          have : (snvState (processCommitQC (commitR2 r' k vt qc) e qc).1 (nextU64 vt.view.number)).view = r'.view :=
            hsame'
          rw [g1, nextU64_eq _ hnw] at this
          omega
  obtain ⟨l1, x, l2, hl, ⟨hwm, hdm, hvm'⟩, hvm, hchg⟩ := runE_first_change cfg e
    (fun r' => Wf cfg r' ∧ r'.toDurable = r.toDurable ∧ r'.view ≤ vt.view.number) (keys.map (cin vt)) r
    ⟨hw, rfl, hview⟩ hpres (by rw [f1]; omega)
  have hxm : x ∈ keys.map (cin vt) := by rw [hl]; simp
  obtain ⟨k, hkm, rfl⟩ := List.mem_map.mp hxm
  have hbm : CacheBelowStore (runE cfg e r l1) e.storeNext := by
    have : (runE cfg e r l1).proposals = r.proposals := congrArg Durable.proposals hdm
    intro p hp; rw [this] at hp; exact hstore p hp
  have hstepchg : (onCommit cfg (runE cfg e r l1) e k true vt).r.view ≠ r.view := hchg
  rcases onCommit_cases cfg (runE cfg e r l1) e k true vt with ⟨_, w, h⟩ | ⟨hc, htl⟩
  · rw [h] at hstepchg; exact absurd hvm hstepchg
  obtain ⟨qc, hadd, _, hlw, _⟩ := commitTail_reaction e hwm hc
  have hq : cfg.c.quorum ≤ weightOf cfg.c.weights qc.signers := by
    apply Classical.byContradiction
    intro hlt
    rw [htl, hlw (by omega)] at hstepchg
    exact absurd hvm hstepchg
  have hnb : ¬ Blocks (runE cfg e r l1) e qc := not_blocks_of_below hbm
  obtain ⟨j', hver, hmsg, _, c4, _, _, c7, _, _, c10, _, _, c13, c14⟩ :=
    Props.C06.commit_quorum_advances cfg (runE cfg e r l1) e k vt qc hwm hc.1 hc.2.1 hc.2.2.1 hv hadd hq hnw hnb
  have hl2 : ∃ keys2 : List Nat, l2 = keys2.map (cin vt) := by
    obtain ⟨a, b, _, _, hb'⟩ := List.map_eq_append_iff.mp hl
    obtain ⟨c, d, _, _, hd'⟩ := List.map_eq_cons_iff.mp hb'
    exact ⟨d, hd'.symm⟩
  obtain ⟨keys2, rfl⟩ := hl2
  have hfin : runE cfg e r (keys.map (cin vt)) = (step cfg (runE cfg e r l1) e (cin vt k)).r := by
    rw [hl, runE_append, runE_cons]
    refine (runE_old_commits cfg e vt keys2 _ ?_).1
    show vt.view.number < (step cfg (runE cfg e r l1) e (.msg ⟨.commit vt, k, true⟩)).r.view
    rw [c4]; omega
  have hhc : (runE cfg e r l1).highCommitQC = r.highCommitQC := congrArg Durable.highCommitQC hdm
  have hpr : (runE cfg e r l1).proposals = r.proposals := congrArg Durable.proposals hdm
  have hnewer : Newer (runE cfg e r l1) qc ↔ Newer r qc := by unfold Newer; rw [hhc]
  have hhands : Hands (runE cfg e r l1) e qc ↔ Hands r e qc := hands_congr e qc hhc hpr
  refine ⟨qc, hver, hmsg, ?_, ?_, j', ?_, ?_⟩
  · intro hn
    rw [hfin]
    exact c7 (hnewer.mpr hn)
  · intro hh
    rw [hl]
    apply effsE_mid cfg e r l1 (cin vt k) (keys2.map (cin vt))
    show _ ∈ (step cfg (runE cfg e r l1) e (.msg ⟨.commit vt, k, true⟩)).effs
    rw [c13 (hhands.mpr hh)]
    simp
  · rw [hfin]; exact c10
  · rw [hl]
    apply effsE_mid cfg e r l1 (cin vt k) (keys2.map (cin vt))
    show _ ∈ (step cfg (runE cfg e r l1) e (.msg ⟨.commit vt, k, true⟩)).effs
    by_cases hh : Hands (runE cfg e r l1) e qc
    · rw [c13 hh]; simp
    · rw [c14 hh]; simp

end EraVerif.Proofs.Sync
