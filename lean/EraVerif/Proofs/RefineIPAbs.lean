import EraVerif.Proofs.RefineLemmas
import EraVerif.Proofs.LayerPInv
import EraVerif.Proofs.RefineIPLocal

/-!
# Refinement Layer I → Layer P, part 3: the abstraction and the matching of one durable write

`absOf f` reads a family `f i = (durable state, history of durable states)` as a Layer-P state:
* `votedAt i u` — the (unique) commit vote of view `u` recorded in the history of `i`;
* `touts i t rep` — some state of the history is in phase `timeout` of view `t` and reports `rep`;
* `view / phase / highVote / highQC` — from the durable state.

The `match_*` theorems say that appending one durable write of each kind (`Kind`) to the history of a correct
validator is a Layer-P step (`timeout`, `advance`, `voteCommit`, `voteTimeout`), and `match_learn` that raising the
durable high commit certificate to a certified one of a higher view is a `learn` step.
-/

namespace EraVerif.Proofs.RefineIP
open EraVerif.Model EraVerif.Safety EraVerif.Refine

def absPh : Phase → Ph
  | .prepare => .prepare
  | .commit => .commit
  | .timeout => .timeout

/-- the commit votes recorded by a history (oldest first) -/
def votesOf (h : List Durable) : List Vote := h.filterMap (·.highVote)

/-- the vote of view `u` recorded by a history -/
def votedIn (h : List Durable) (u : ℕ) : Option (ℕ × ℕ) :=
  ((votesOf h).find? (fun v => v.view.number == u)).map (fun v => (v.proposal.number, v.proposal.payload))

/-- what a timeout vote sent from durable state `d` reports -/
def repOfD (d : Durable) : Rep := ⟨d.highVote.map refOfVote, d.highCommitQC.map refOfQC⟩

/-- the history records a timeout vote of view `t` with report `rep` -/
def toutIn (h : List Durable) (t : ℕ) (rep : Rep) : Prop :=
  ∃ d ∈ h, d.phase = .timeout ∧ d.view = t ∧ rep = repOfD d

section
variable {ι : Type}

/-- **The abstraction.** -/
def absOf (f : ι → Durable × List Durable) : PState ι where
  votedAt i u := votedIn (f i).2 u
  touts i t rep := toutIn (f i).2 t rep
  view i := (f i).1.view
  phase i := absPh (f i).1.phase
  highVote i := (f i).1.highVote.map refOfVote
  highQC i := (f i).1.highCommitQC.map refOfQC

theorem pstate_ext {s t : PState ι} (h1 : s.votedAt = t.votedAt) (h2 : s.touts = t.touts) (h3 : s.view = t.view)
    (h4 : s.phase = t.phase) (h5 : s.highVote = t.highVote) (h6 : s.highQC = t.highQC) : s = t := by
  cases s; cases t; simp_all

variable [DecidableEq ι]

def upd {α : Type} (f : ι → α) (i : ι) (x : α) : ι → α := fun j => if j = i then x else f j

theorem upd_same {α : Type} (f : ι → α) (i : ι) (x : α) : upd f i x i = x := by simp [upd]

theorem upd_upd {α : Type} (f : ι → α) (i : ι) (x y : α) : upd (upd f i x) i y = upd f i y := by
  funext j; simp only [upd]; split <;> rfl

theorem upd_self {α : Type} (f : ι → α) (i : ι) : upd f i (f i) = f := by
  funext j; simp only [upd]; split
  · next h => rw [h]
  · rfl

/-- replace all components of validator `i` -/
def setAt (s : PState ι) (i : ι) (va : ℕ → Option (ℕ × ℕ)) (tos : ℕ → Rep → Prop) (v : ℕ) (ph : Ph)
    (hv hq : Option Ref) : PState ι where
  votedAt j := if j = i then va else s.votedAt j
  touts j := if j = i then tos else s.touts j
  view j := if j = i then v else s.view j
  phase j := if j = i then ph else s.phase j
  highVote j := if j = i then hv else s.highVote j
  highQC j := if j = i then hq else s.highQC j

theorem absOf_upd (f : ι → Durable × List Durable) (i : ι) (x : Durable × List Durable) :
    absOf (upd f i x) = setAt (absOf f) i (votedIn x.2) (toutIn x.2) x.1.view (absPh x.1.phase)
      (x.1.highVote.map refOfVote) (x.1.highCommitQC.map refOfQC) := by
  apply pstate_ext <;> funext j <;> simp only [absOf, upd, setAt] <;> split <;> rfl

theorem learn_target (s : PState ι) (i : ι) (c' : Option Ref) :
    ({ s with highQC := fun j => if j = i then c' else s.highQC j } : PState ι) =
      setAt s i (s.votedAt i) (s.touts i) (s.view i) (s.phase i) (s.highVote i) c' := by
  apply pstate_ext <;> funext j <;> simp only [setAt] <;> split <;> first | rfl | (next h => rw [h])

theorem advance_target (s : PState ι) (i : ι) (v : ℕ) :
    ({ s with view := fun j => if j = i then v else s.view j,
              phase := fun j => if j = i then Ph.prepare else s.phase j } : PState ι) =
      setAt s i (s.votedAt i) (s.touts i) v Ph.prepare (s.highVote i) (s.highQC i) := by
  apply pstate_ext <;> funext j <;> simp only [setAt] <;> split <;> first | rfl | (next h => rw [h])

theorem timeout_target (s : PState ι) (i : ι) :
    ({ s with touts := fun j t r => s.touts j t r ∨ (j = i ∧ t = s.view i ∧ r = ⟨s.highVote i, s.highQC i⟩),
              phase := fun j => if j = i then Ph.timeout else s.phase j } : PState ι) =
      setAt s i (s.votedAt i) (fun t r => s.touts i t r ∨ (t = s.view i ∧ r = ⟨s.highVote i, s.highQC i⟩))
        (s.view i) Ph.timeout (s.highVote i) (s.highQC i) := by
  apply pstate_ext
  · funext j; simp only [setAt]; split
    · next h => rw [h]
    · rfl
  · funext j t r
    simp only [setAt]
    split
    · next h => subst h; simp
    · next h => simp [h]
  · funext j; simp only [setAt]; split
    · next h => rw [h]
    · rfl
  · rfl
  · funext j; simp only [setAt]; split
    · next h => rw [h]
    · rfl
  · funext j; simp only [setAt]; split
    · next h => rw [h]
    · rfl

theorem recordVote_target (s : PState ι) (i : ι) (u' k' h' : ℕ) (hq : Option Ref) :
    s.recordVote i u' k' h' hq =
      setAt s i (fun u => if u = u' then some (k', h') else s.votedAt i u) (s.touts i) u' Ph.commit
        (some ⟨u', k', h'⟩) hq := by
  apply pstate_ext
  · funext j u
    simp only [PState.recordVote, setAt]
    by_cases hj : j = i
    · subst hj; simp
    · simp [hj]
  · funext j; simp only [PState.recordVote, setAt]; split
    · next h => rw [h]
    · rfl
  · funext j; simp only [PState.recordVote, setAt]
  · funext j; simp only [PState.recordVote, setAt]
  · funext j; simp only [PState.recordVote, setAt]
  · funext j; simp only [PState.recordVote, setAt]

end

/-! ## histories -/

theorem mem_votesOf {h : List Durable} {v : Vote} : v ∈ votesOf h ↔ ∃ d ∈ h, d.highVote = some v := by
  simp [votesOf, List.mem_filterMap]

theorem votesOf_snoc (h : List Durable) (d : Durable) :
    votesOf (h ++ [d]) = votesOf h ++ (match d.highVote with | some v => [v] | none => []) := by
  unfold votesOf
  rw [List.filterMap_append]
  cases hd : d.highVote <;> simp [List.filterMap, hd]

/-- appending a state whose high vote is already recorded (or absent) changes no recorded vote -/
theorem votedIn_snoc_same {h : List Durable} {d : Durable} (hd : ∀ v, d.highVote = some v → v ∈ votesOf h) :
    votedIn (h ++ [d]) = votedIn h := by
  funext u
  unfold votedIn
  rw [votesOf_snoc]
  cases hv : d.highVote with
  | none => simp
  | some v =>
    simp only []
    rw [List.find?_append]
    by_cases hp : v.view.number = u
    · have : ((votesOf h).find? (fun v => v.view.number == u)).isSome := by
        rw [List.find?_isSome]
        exact ⟨v, hd v hv, by simpa using hp⟩
      obtain ⟨x, hx⟩ := Option.isSome_iff_exists.mp this
      rw [hx]; rfl
    · have : [v].find? (fun v => v.view.number == u) = none := by simp [hp]
      rw [this, Option.or_none]

/-- appending a state with a fresh vote for a view without recorded vote -/
theorem votedIn_snoc_new {h : List Durable} {d : Durable} {v : Vote} (hv : d.highVote = some v)
    (hnone : ∀ v' ∈ votesOf h, v'.view.number ≠ v.view.number) :
    votedIn (h ++ [d]) = fun u => if u = v.view.number then some (v.proposal.number, v.proposal.payload)
      else votedIn h u := by
  funext u
  unfold votedIn
  rw [votesOf_snoc, hv]
  simp only []
  rw [List.find?_append]
  by_cases hp : u = v.view.number
  · subst hp
    have : (votesOf h).find? (fun v' => v'.view.number == v.view.number) = none := by
      rw [List.find?_eq_none]
      intro x hx
      simpa using hnone x hx
    rw [this]
    simp
  · have : [v].find? (fun v' => v'.view.number == u) = none := by
      simp only [List.find?_cons, List.find?_nil]
      have : (v.view.number == u) = false := by simpa using fun h => hp h.symm
      rw [this]
    rw [this, Option.or_none, if_neg hp]

theorem toutIn_snoc_same {h : List Durable} {d : Durable} (hd : d.phase ≠ .timeout) :
    toutIn (h ++ [d]) = toutIn h := by
  funext t rep
  apply propext
  unfold toutIn
  constructor
  · rintro ⟨d0, hd0, h1, h2, h3⟩
    rcases List.mem_append.mp hd0 with m | m
    · exact ⟨d0, m, h1, h2, h3⟩
    · have : d0 = d := by simpa using m
      rw [this] at h1
      exact absurd h1 hd
  · rintro ⟨d0, hd0, h1, h2, h3⟩
    exact ⟨d0, List.mem_append_left _ hd0, h1, h2, h3⟩

theorem toutIn_snoc_new {h : List Durable} {d : Durable} (hd : d.phase = .timeout) :
    toutIn (h ++ [d]) = fun t rep => toutIn h t rep ∨ (t = d.view ∧ rep = repOfD d) := by
  funext t rep
  apply propext
  unfold toutIn
  constructor
  · rintro ⟨d0, hd0, h1, h2, h3⟩
    rcases List.mem_append.mp hd0 with m | m
    · exact Or.inl ⟨d0, m, h1, h2, h3⟩
    · have : d0 = d := by simpa using m
      rw [this] at h2 h3
      exact Or.inr ⟨h2.symm, h3⟩
  · rintro (⟨d0, hd0, h1, h2, h3⟩ | ⟨h2, h3⟩)
    · exact ⟨d0, List.mem_append_left _ hd0, h1, h2, h3⟩
    · exact ⟨d, by simp, hd, h2.symm, h3⟩

/-- what the matching needs to know about a durable state and the history behind it -/
structure HistOk (d : Durable) (h : List Durable) : Prop where
  recd : ∀ v, d.highVote = some v → v ∈ votesOf h
  bound : ∀ v ∈ votesOf h, v.view.number ≤ d.view ∧ (v.view.number = d.view → d.phase ≠ .prepare)

theorem HistOk.no_vote {d : Durable} {h : List Durable} (hh : HistOk d h) {u' : ℕ}
    (hcan : d.view < u' ∨ (d.view = u' ∧ d.phase = .prepare)) : ∀ v' ∈ votesOf h, v'.view.number ≠ u' := by
  intro v' hv' he
  have hb := hh.bound v' hv'
  rcases hcan with hc | ⟨hc, hp⟩
  · omega
  · exact hb.2 (by omega) hp

theorem newer_ref (cur : Option CommitQC) (q : CommitQC) :
    (newer cur q).map refOfQC = maxQC (cur.map refOfQC) (refOfQC q) := by
  unfold newer maxQC
  cases cur with
  | none => rfl
  | some c =>
    simp only [Option.map_some]
    by_cases h : c.message.view.number < q.message.view.number
    · have h' : (refOfQC c).view < (refOfQC q).view := h
      simp [h, h']
    · have h' : ¬ (refOfQC c).view < (refOfQC q).view := h
      simp [h, h']

/-! ## matching -/

section
variable {ι : Type} [DecidableEq ι]

theorem absOf_upd_votedAt (f : ι → Durable × List Durable) (i : ι) (x : Durable × List Durable)
    (hx : x.2 = (f i).2) : (absOf (upd f i x)).votedAt = (absOf f).votedAt := by
  funext j u
  simp only [absOf, upd]
  split
  · next h => rw [hx, h]
  · rfl

theorem absOf_upd_touts (f : ι → Durable × List Durable) (i : ι) (x : Durable × List Durable)
    (hx : x.2 = (f i).2) : (absOf (upd f i x)).touts = (absOf f).touts := by
  funext j t r
  simp only [absOf, upd]
  split
  · next h => rw [hx, h]
  · rfl

end

section
variable {ι : Type} [Fintype ι] [DecidableEq ι] {w : ι → ℕ} {byz : Finset ι} {first : ℕ}

theorem valid_congr {s s' : St ι} (hv : s'.votedAt = s.votedAt) (ht : s'.touts = s.touts) (q : TQC ι) :
    q.valid w byz s' ↔ q.valid w byz s := by
  unfold TQC.valid
  rw [ht]
  constructor
  · rintro ⟨h1, h2, h3⟩
    exact ⟨h1, h2, fun i hi c hc => (cert_congr hv).mp (h3 i hi c hc)⟩
  · rintro ⟨h1, h2, h3⟩
    exact ⟨h1, h2, fun i hi c hc => (cert_congr hv).mpr (h3 i hi c hc)⟩

/-- `learn`: the durable high commit certificate is raised to a certified one of a strictly higher view -/
theorem match_learn1 (f : ι → Durable × List Durable) (i : ι) (hi : i ∉ byz) {d : Durable} {h : List Durable}
    (hf : f i = (d, h)) (q : CommitQC)
    (hc : Cert w byz (absOf f).st (refOfQC q).view (refOfQC q).num (refOfQC q).hash)
    (hlt : ∀ p, d.highCommitQC = some p → p.message.view.number < q.message.view.number) :
    Step w byz first (absOf f) (absOf (upd f i ({ d with highCommitQC := some q }, h))) := by
  have hs := Step.learn (w := w) (byz := byz) (first := first) (absOf f) i hi (refOfQC q) hc
  have hmax : maxQC ((absOf f).highQC i) (refOfQC q) = some (refOfQC q) := by
    show maxQC ((f i).1.highCommitQC.map refOfQC) (refOfQC q) = _
    rw [hf]
    simp only [maxQC]
    cases hd : d.highCommitQC with
    | none => rfl
    | some p =>
      have : (refOfQC p).view < (refOfQC q).view := hlt p hd
      simp [this]
  rw [hmax, learn_target] at hs
  rw [absOf_upd]
  convert hs using 2 <;> simp [absOf, hf]

/-- zero or one `learn` step to the live high commit certificate -/
theorem match_learn (f : ι → Durable × List Durable) (i : ι) (hi : i ∉ byz) {d : Durable} {h : List Durable}
    (hf : f i = (d, h)) (lhc : Option CommitQC) (hq : QLe d.highCommitQC lhc)
    (hc : ∀ q, lhc = some q → Cert w byz (absOf f).st (refOfQC q).view (refOfQC q).num (refOfQC q).hash) :
    Relation.ReflTransGen (Step w byz first) (absOf f) (absOf (upd f i ({ d with highCommitQC := lhc }, h))) := by
  rcases hq with rfl | ⟨q, rfl, hlt⟩
  · have : upd f i (({ d with highCommitQC := d.highCommitQC } : Durable), h) = f := by
      rw [← hf]; exact upd_self f i
    rw [this]
  · exact Relation.ReflTransGen.single (match_learn1 f i hi hf q (hc q rfl) hlt)

/-- `timeout`: the timer's durable write -/
theorem match_tout (f : ι → Durable × List Durable) (i : ι) (hi : i ∉ byz) {d : Durable} {h : List Durable}
    (hf : f i = (d, h)) (hh : HistOk d h) {d' : Durable} (h1 : d'.view = d.view) (h2 : d'.phase = .timeout)
    (h3 : d'.highVote = d.highVote) (h4 : d'.highCommitQC = d.highCommitQC) :
    Step w byz first (absOf f) (absOf (upd f i (d', h ++ [d']))) := by
  have hs := Step.timeout (w := w) (byz := byz) (first := first) (absOf f) i hi
  rw [timeout_target] at hs
  rw [absOf_upd]
  have hv : votedIn (h ++ [d']) = votedIn h := votedIn_snoc_same (fun v hv => hh.recd v (h3 ▸ hv))
  have ht := toutIn_snoc_new (h := h) h2
  convert hs using 2
  · simp [absOf, hf, hv]
  · simp only [absOf, hf, ht, h1, repOfD, h3, h4]
  · simp [absOf, hf, h1]
  · simp [h2, absPh]
  · simp [absOf, hf, h3]
  · simp [absOf, hf, h4]

/-- `advance`: the durable write of `start_new_view` -/
theorem match_adv (f : ι → Durable × List Durable) (i : ι) (hi : i ∉ byz) {d : Durable} {h : List Durable}
    (hf : f i = (d, h)) (hh : HistOk d h) {d' : Durable} (h1 : d.view < d'.view) (h2 : d'.phase = .prepare)
    (h3 : d'.highVote = d.highVote) (h4 : d'.highCommitQC = d.highCommitQC) :
    Step w byz first (absOf f) (absOf (upd f i (d', h ++ [d']))) := by
  have hs := Step.advance (w := w) (byz := byz) (first := first) (absOf f) i hi d'.view
    (by show (f i).1.view < d'.view; rw [hf]; exact h1)
  rw [advance_target] at hs
  rw [absOf_upd]
  have hv : votedIn (h ++ [d']) = votedIn h := votedIn_snoc_same (fun v hv => hh.recd v (h3 ▸ hv))
  have ht : toutIn (h ++ [d']) = toutIn h := toutIn_snoc_same (by rw [h2]; intro hc; cases hc)
  convert hs using 2
  · simp [absOf, hf, hv]
  · simp [absOf, hf, ht]
  · simp [h2, absPh]
  · simp [absOf, hf, h3]
  · simp [absOf, hf, h4]

omit [Fintype ι] in
/-- the common part of the two vote steps: what the new durable state must look like -/
theorem vote_state_eq (f : ι → Durable × List Durable) (i : ι) {d : Durable} {h : List Durable}
    (hf : f i = (d, h)) (hh : HistOk d h) {d' : Durable} {v : Vote} {u' : ℕ} {hq' : Option Ref}
    (hcan : d.view < u' ∨ (d.view = u' ∧ d.phase = .prepare))
    (h1 : d'.view = u') (h2 : d'.phase = .commit) (h3 : d'.highVote = some v) (h4 : v.view.number = u')
    (h5 : d'.highCommitQC.map refOfQC = hq') :
    absOf (upd f i (d', h ++ [d'])) =
      (absOf f).recordVote i u' v.proposal.number v.proposal.payload hq' := by
  rw [recordVote_target, absOf_upd]
  have hv := votedIn_snoc_new (h := h) h3 (by rw [h4]; exact hh.no_vote hcan)
  have ht : toutIn (h ++ [d']) = toutIn h := toutIn_snoc_same (by rw [h2]; intro hc; cases hc)
  congr 1
  · rw [hv, h4]
    funext u
    simp [absOf, hf]
  · simp [absOf, hf, ht]
  · simp [h2, absPh]
  · simp [h3, refOfVote, h4]

/-- `voteCommit`: the vote on a proposal justified by a commit certificate -/
theorem match_voteC (f : ι → Durable × List Durable) (i : ι) (hi : i ∉ byz) {d : Durable} {h : List Durable}
    (hf : f i = (d, h)) (hh : HistOk d h) (cq : CommitQC)
    (hc : Cert w byz (absOf f).st (refOfQC cq).view (refOfQC cq).num (refOfQC cq).hash)
    {d' : Durable} {v : Vote}
    (hcan : d.view < cq.message.view.number + 1 ∨ (d.view = cq.message.view.number + 1 ∧ d.phase = .prepare))
    (h1 : d'.view = cq.message.view.number + 1) (h2 : d'.phase = .commit) (h3 : d'.highVote = some v)
    (h4 : v.view.number = cq.message.view.number + 1) (h5 : v.proposal.number = cq.message.proposal.number + 1)
    (h6 : d'.highCommitQC = newer d.highCommitQC cq) :
    Step w byz first (absOf f) (absOf (upd f i (d', h ++ [d']))) := by
  have hcan' : (absOf f).canVote i ((refOfQC cq).view + 1) := by
    show (f i).1.view < _ ∨ ((f i).1.view = _ ∧ absPh (f i).1.phase = Ph.prepare)
    rw [hf]
    rcases hcan with hc' | ⟨hc', hp⟩
    · exact Or.inl hc'
    · exact Or.inr ⟨hc', by rw [hp]; rfl⟩
  have hs := Step.voteCommit (w := w) (byz := byz) (first := first) (absOf f) i hi (refOfQC cq) v.proposal.payload hc
    hcan'
  have he := vote_state_eq f i hf hh (hq' := maxQC ((absOf f).highQC i) (refOfQC cq)) hcan h1 h2 h3 h4
    (by rw [h6, newer_ref]; simp [absOf, hf])
  rw [he, h5]
  exact hs

/-- `voteTimeout`: the vote on a proposal justified by a timeout certificate -/
theorem match_voteT (f : ι → Durable × List Durable) (i : ι) (hi : i ∉ byz) {d : Durable} {h : List Durable}
    (hf : f i = (d, h)) (hh : HistOk d h) (q : TQC ι) (oh : Option ℕ) (hq' : Option Ref)
    (hval : q.valid w byz (absOf f).st) {d' : Durable} {v : Vote}
    (him : Implied w first q v.proposal.number oh) (hconf : ∀ hh, oh = some hh → v.proposal.payload = hh)
    (hcan : d.view < q.view + 1 ∨ (d.view = q.view + 1 ∧ d.phase = .prepare))
    (hhq : (q.noHQ ∧ hq' = d.highCommitQC.map refOfQC) ∨
      (∃ c, q.isHQ c ∧ hq' = maxQC (d.highCommitQC.map refOfQC) c))
    (h1 : d'.view = q.view + 1) (h2 : d'.phase = .commit) (h3 : d'.highVote = some v)
    (h4 : v.view.number = q.view + 1) (h6 : d'.highCommitQC.map refOfQC = hq') :
    Step w byz first (absOf f) (absOf (upd f i (d', h ++ [d']))) := by
  have hcan' : (absOf f).canVote i (q.view + 1) := by
    show (f i).1.view < _ ∨ ((f i).1.view = _ ∧ absPh (f i).1.phase = Ph.prepare)
    rw [hf]
    rcases hcan with hc' | ⟨hc', hp⟩
    · exact Or.inl hc'
    · exact Or.inr ⟨hc', by rw [hp]; rfl⟩
  have hhq' : (q.noHQ ∧ hq' = (absOf f).highQC i) ∨ (∃ c, q.isHQ c ∧ hq' = maxQC ((absOf f).highQC i) c) := by
    have : (absOf f).highQC i = d.highCommitQC.map refOfQC := by simp [absOf, hf]
    rw [this]; exact hhq
  have hs := Step.voteTimeout (w := w) (byz := byz) (first := first) (absOf f) i hi q v.proposal.number oh
    v.proposal.payload hval him hconf hcan' hq' hhq'
  rw [vote_state_eq f i hf hh hcan h1 h2 h3 h4 h6]
  exact hs

end

end EraVerif.Proofs.RefineIP
