import EraVerif.Model.Limiter

/-!
# Helper lemmas for C15 (limiter): the state invariant, the eager-refresher potential `E`, and the generic
window argument (DESIGN Appendix D.3).
-/

namespace EraVerif.Proofs.Limiter
open EraVerif.Model.Limiter

/-- `refresh` in nanoseconds as a natural number (0 if `refresh ≤ 0`). -/
def rOf (cfg : Cfg) : Nat := cfg.refresh.toNat

/-- `(now - start) / refresh`: the refresh tick of the current instant. -/
def tick (cfg : Cfg) (s : State) : Nat := s.now / rOf cfg

/-- `E = F̂ + burst`, where `F̂` is the number of permits the eager refresher of the doc comment would have
returned by now: `dropped + min(permits + (tick − ticks), burst)`. -/
def E (cfg : Cfg) (s : State) : Nat := s.dropped + min (s.permits + (tick cfg s - s.ticks)) cfg.burst

/-- The state invariant (the struct comment `0 <= reserved <= permits <= burst`, plus what makes it
inductive: the queue head that already computed `need` will find its permits after `advance(need)`). -/
structure Inv (cfg : Cfg) (s : State) : Prop where
  res_le : s.reserved ≤ s.permits
  per_le : s.permits ≤ cfg.burst
  ticks_le : s.ticks ≤ tick cfg s
  gd : s.granted = s.dropped + s.reserved
  held_sum : (s.held.map Prod.snd).sum = s.reserved
  tail_none : ∀ w ∈ s.queue.tail, w.need = none
  head_ok : ∀ w nd, s.queue.head? = some w → w.need = some nd →
      s.reserved + w.n ≤ cfg.burst ∧ s.reserved + w.n ≤ s.permits + (nd - s.ticks)
  inf_mode : cfg.refresh ≤ 0 → s.queue = [] ∧ s.reserved = 0

theorem inv_init (cfg : Cfg) : Inv cfg (init cfg) := by
  constructor <;> simp [init, tick]

/-- With `burst ≤ usize::MAX` the saturating arithmetic of `State::advance` is exact. -/
theorem advance_eq (cfg : Cfg) (hb : cfg.burst ≤ USIZE_MAX) (s : State) (t : Nat) :
    s.advance cfg t =
      if t < s.ticks then s
      else { s with permits := min (s.permits + (t - s.ticks)) cfg.burst, ticks := t } := by
  unfold State.advance
  split
  · rfl
  · have : min (satAdd s.permits (usizeOrMax (t - s.ticks))) cfg.burst
        = min (s.permits + (t - s.ticks)) cfg.burst := by
      simp only [satAdd, usizeOrMax, USIZE_MAX] at *
      omega
    simp only [this]

/-! ## Window sums over the ghost logs -/

/-- Sum of the permit counts of the log entries with time in the closed window `[a, b]`. -/
def wsum (a b : Nat) (l : List Ev) : Nat :=
  ((l.filter (fun e => decide (a ≤ e.t ∧ e.t ≤ b))).map (·.n)).sum

@[simp] theorem wsum_nil (a b : Nat) : wsum a b [] = 0 := rfl

theorem wsum_append (a b : Nat) (l₁ l₂ : List Ev) : wsum a b (l₁ ++ l₂) = wsum a b l₁ + wsum a b l₂ := by
  simp [wsum, List.filter_append, List.map_append, List.sum_append]

theorem wsum_single (a b : Nat) (e : Ev) :
    wsum a b [e] = if a ≤ e.t ∧ e.t ≤ b then e.n else 0 := by
  unfold wsum
  by_cases h : a ≤ e.t ∧ e.t ≤ b <;> simp [List.filter, h]

/-- How a ghost log and its counter may change in one step: unchanged, or one entry stamped with the
(unchanged) current time. -/
def LogStep (now now' : Nat) (l l' : List Ev) (c c' : Nat) : Prop :=
  (l' = l ∧ c' = c) ∨ ∃ id n, l' = l ++ [⟨now, id, n⟩] ∧ c' = c + n ∧ now' = now

/-- Everything the proofs need to know about one transition. -/
structure StepOK (cfg : Cfg) (s s' : State) : Prop where
  inv : Inv cfg s'
  now_le : s.now ≤ s'.now
  E_le : E cfg s' ≤ E cfg s + (tick cfg s' - tick cfg s)
  g : LogStep s.now s'.now s.glog s'.glog s.granted s'.granted
  d : LogStep s.now s'.now s.dlog s'.dlog s.dropped s'.dropped

theorem StepOK.refl {cfg : Cfg} {s : State} (h : Inv cfg s) : StepOK cfg s s :=
  ⟨h, Nat.le_refl _, by omega, .inl ⟨rfl, rfl⟩, .inl ⟨rfl, rfl⟩⟩

/-! ## The sub-steps -/

theorem le_tick_of_ready {cfg : Cfg} {s : State} {nd : Nat} (hr : 0 < rOf cfg)
    (h : sleepReady s.now (deadline (rOf cfg) nd) = true) : nd ≤ tick cfg s := by
  unfold deadline at h
  split at h
  · simp [sleepReady] at h
  · simp only [sleepReady, decide_eq_true_eq] at h
    unfold tick
    rw [Nat.le_div_iff_mul_le hr, Nat.mul_comm]
    exact h

/-- `finish` for the head `w` whose `need` is `nd ≤ tick`. -/
theorem stepOK_finish {cfg : Cfg} (hb : cfg.burst ≤ USIZE_MAX) {s : State} {w : Waiter} {rest : List Waiter}
    {nd : Nat} (hI : Inv cfg s) (hq : s.queue = w :: rest) (hn : w.need = some nd)
    (hnd : nd ≤ tick cfg s) : StepOK cfg s (finish cfg s w nd).1 := by
  have hh := hI.head_ok w nd (by simp [hq]) hn
  have h1 := hI.res_le; have h2 := hI.per_le; have h3 := hI.ticks_le; have h4 := hI.gd
  have h5 := hI.held_sum
  have htail : ∀ x ∈ rest, x.need = none := by
    intro x hx; exact hI.tail_none x (by simp [hq, hx])
  have hinf : ¬ cfg.refresh ≤ 0 := by
    intro h; have := (hI.inf_mode h).1; simp [hq] at this
  unfold finish
  rw [advance_eq cfg hb]
  by_cases hlt : nd < s.ticks
  · simp only [hlt, if_true]
    refine ⟨⟨?_, ?_, ?_, ?_, ?_, ?_, ?_, ?_⟩, ?_, ?_, ?_, ?_⟩
    · show s.reserved + w.n ≤ s.permits; omega
    · exact h2
    · exact h3
    · show s.granted + w.n = s.dropped + (s.reserved + w.n); omega
    · show ((s.held ++ [(w.id, w.n)]).map Prod.snd).sum = s.reserved + w.n
      simp [List.sum_append, h5]
    · intro x hx
      have : x ∈ rest.tail := by simpa [hq] using hx
      exact htail x (List.mem_of_mem_tail this)
    · intro x k hx hk
      have hx' : rest.head? = some x := by simpa [hq] using hx
      have := htail x (List.mem_of_mem_head? hx')
      rw [this] at hk; cases hk
    · intro h; exact absurd h hinf
    · exact Nat.le_refl _
    · show E cfg _ ≤ _
      simp only [E, tick]; omega
    · exact .inr ⟨w.id, w.n, rfl, rfl, rfl⟩
    · exact .inl ⟨rfl, rfl⟩
  · simp only [hlt, if_false]
    refine ⟨⟨?_, ?_, ?_, ?_, ?_, ?_, ?_, ?_⟩, ?_, ?_, ?_, ?_⟩
    · show s.reserved + w.n ≤ min (s.permits + (nd - s.ticks)) cfg.burst; omega
    · show min (s.permits + (nd - s.ticks)) cfg.burst ≤ cfg.burst; omega
    · show nd ≤ tick cfg _; simpa [tick] using hnd
    · show s.granted + w.n = s.dropped + (s.reserved + w.n); omega
    · show ((s.held ++ [(w.id, w.n)]).map Prod.snd).sum = s.reserved + w.n
      simp [List.sum_append, h5]
    · intro x hx
      have : x ∈ rest.tail := by simpa [hq] using hx
      exact htail x (List.mem_of_mem_tail this)
    · intro x k hx hk
      have hx' : rest.head? = some x := by simpa [hq] using hx
      have := htail x (List.mem_of_mem_head? hx')
      rw [this] at hk; cases hk
    · intro h; exact absurd h hinf
    · exact Nat.le_refl _
    · show E cfg _ ≤ _
      have hnd' : nd ≤ s.now / rOf cfg := hnd
      have h3' : s.ticks ≤ s.now / rOf cfg := h3
      simp only [E, tick]
      omega
    · exact .inr ⟨w.id, w.n, rfl, rfl, rfl⟩
    · exact .inl ⟨rfl, rfl⟩


theorem stepOK_sleepThenFinish {cfg : Cfg} (hb : cfg.burst ≤ USIZE_MAX) {s : State} {w : Waiter}
    {rest : List Waiter} {nd : Nat} (hI : Inv cfg s) (hq : s.queue = w :: rest) (hn : w.need = some nd) :
    StepOK cfg s (sleepThenFinish cfg (rOf cfg) s w nd).1 := by
  have hr : 0 < rOf cfg := by
    have : ¬ cfg.refresh ≤ 0 := by
      intro h; have := (hI.inf_mode h).1; simp [hq] at this
    unfold rOf; omega
  unfold sleepThenFinish
  split
  · split
    · next hready => exact stepOK_finish hb hI hq hn (le_tick_of_ready hr hready)
    · exact StepOK.refl hI
  · next h0 => exact stepOK_finish hb hI hq hn (by omega)

theorem stepOK_pollHead {cfg : Cfg} (hb : cfg.burst ≤ USIZE_MAX) {s : State} {w : Waiter}
    {rest : List Waiter} (hI : Inv cfg s) (hq : s.queue = w :: rest) :
    StepOK cfg s (pollHead cfg (rOf cfg) s w rest).1 := by
  unfold pollHead
  split
  · next nd hn => exact stepOK_sleepThenFinish hb hI hq hn
  · next hn =>
    split
    · next hge =>
      -- the state with `need` recorded is again invariant, and has the same ghost components
      have h1 := hI.res_le; have h2 := hI.per_le
      let w' : Waiter := { w with need := some (s.ticks + (s.reserved + w.n - s.permits)) }
      let s0 : State := { s with queue := w' :: rest }
      have hI0 : Inv cfg s0 := by
        refine ⟨hI.res_le, hI.per_le, hI.ticks_le, hI.gd, hI.held_sum, ?_, ?_, ?_⟩
        · intro x hx
          have hx' : x ∈ rest := hx
          exact hI.tail_none x (by simp [hq, hx'])
        · intro x k hx hk
          have hx' : x = w' := by simpa [s0] using hx.symm
          subst hx'
          have hk' : k = s.ticks + (s.reserved + w.n - s.permits) := by simpa [w'] using hk.symm
          show s.reserved + w.n ≤ cfg.burst ∧ s.reserved + w.n ≤ s.permits + (k - s.ticks)
          omega
        · intro h; have := (hI.inf_mode h).1; simp [hq] at this
      have := stepOK_sleepThenFinish (s := s0) (w := w') (rest := rest)
        (nd := s.ticks + (s.reserved + w.n - s.permits)) hb hI0 rfl rfl
      exact ⟨this.inv, this.now_le, this.E_le, this.g, this.d⟩
    · exact StepOK.refl hI

theorem stepOK_pollQueued {cfg : Cfg} (hb : cfg.burst ≤ USIZE_MAX) {s : State} (id : Nat)
    (hI : Inv cfg s) : StepOK cfg s (pollQueued cfg (rOf cfg) s id).1 := by
  unfold pollQueued
  split
  · exact StepOK.refl hI
  · next w rest hq =>
    split
    · exact stepOK_pollHead hb hI hq
    · split <;> exact StepOK.refl hI

/-- Removing the first pair with key `id` from the list of live permits removes its count from the sum. -/
theorem sum_eraseP_find {l : List (Nat × Nat)} {id a n : Nat}
    (h : l.find? (fun p => p.1 = id) = some (a, n)) :
    ((l.eraseP (fun p => p.1 = id)).map Prod.snd).sum + n = (l.map Prod.snd).sum := by
  induction l with
  | nil => simp at h
  | cons x xs ih =>
    by_cases hx : x.1 = id
    · simp only [List.find?, hx, decide_true] at h
      cases h
      have hx' : a = id := hx
      subst hx'
      simp [List.eraseP]
      omega
    · simp only [List.find?, hx, decide_false] at h
      have := ih h
      simp only [List.eraseP, hx, decide_false, List.map_cons, List.sum_cons, cond_false]
      omega

theorem stepOK_dropPermit {cfg : Cfg} (hb : cfg.burst ≤ USIZE_MAX) {s : State} {id a n : Nat}
    (hI : Inv cfg s) (hf : s.held.find? (fun p => p.1 = id) = some (a, n)) :
    StepOK cfg s (dropPermit cfg s id n (s.held.eraseP (fun p => p.1 = id))).1
    ∧ (dropPermit cfg s id n (s.held.eraseP (fun p => p.1 = id))).2 ≠ .panic := by
  have hsum := sum_eraseP_find hf
  have h1 := hI.res_le; have h2 := hI.per_le; have h3 := hI.ticks_le; have h4 := hI.gd
  have h5 := hI.held_sum
  unfold dropPermit
  by_cases hn0 : n = 0
  · subst hn0
    simp only [if_true]
    refine ⟨⟨⟨h1, h2, h3, h4, ?_, hI.tail_none, hI.head_ok, hI.inf_mode⟩, Nat.le_refl _, ?_,
      .inl ⟨rfl, rfl⟩, .inl ⟨rfl, rfl⟩⟩, by simp⟩
    · show ((s.held.eraseP _).map Prod.snd).sum = s.reserved; omega
    · show E cfg _ ≤ _; simp only [E, tick]; omega
  · simp only [hn0, if_false]
    have hnle : n ≤ s.reserved := by omega
    have hr : rOf cfg ≠ 0 := by
      intro h0
      have : cfg.refresh ≤ 0 := by unfold rOf at h0; omega
      have := (hI.inf_mode this).2
      omega
    have hr' : ¬ cfg.refresh.toNat = 0 := hr
    simp only [hr', if_false]
    rw [advance_eq cfg hb]
    have h3' : s.ticks ≤ s.now / cfg.refresh.toNat := h3
    have hnlt : ¬ s.now / cfg.refresh.toNat < s.ticks := by omega
    simp only [hnlt, if_false]
    have hnp : ¬ (s.reserved < n ∨ min (s.permits + (s.now / cfg.refresh.toNat - s.ticks)) cfg.burst < n) := by
      omega
    simp only [hnp, if_false]
    refine ⟨⟨⟨?_, ?_, ?_, ?_, ?_, hI.tail_none, ?_, ?_⟩, Nat.le_refl _, ?_, .inl ⟨rfl, rfl⟩,
      .inr ⟨id, n, rfl, rfl, rfl⟩⟩, by simp⟩
    · show s.reserved - n ≤ min (s.permits + (s.now / cfg.refresh.toNat - s.ticks)) cfg.burst - n; omega
    · show min (s.permits + (s.now / cfg.refresh.toNat - s.ticks)) cfg.burst - n ≤ cfg.burst; omega
    · show s.now / cfg.refresh.toNat ≤ tick cfg _; simp [tick, rOf]
    · show s.granted = s.dropped + n + (s.reserved - n); omega
    · show ((s.held.eraseP _).map Prod.snd).sum = s.reserved - n; omega
    · intro w nd hw hnd
      have := hI.head_ok w nd hw hnd
      show s.reserved - n + w.n ≤ cfg.burst ∧ s.reserved - n + w.n ≤
        min (s.permits + (s.now / cfg.refresh.toNat - s.ticks)) cfg.burst - n + (nd - s.now / cfg.refresh.toNat)
      omega
    · intro h
      have := hI.inf_mode h
      exact ⟨this.1, by show s.reserved - n = 0; omega⟩
    · show E cfg _ ≤ _
      simp only [E, tick, rOf]
      omega

theorem tick_mono {cfg : Cfg} {s s' : State} (h : s.now ≤ s'.now) : tick cfg s ≤ tick cfg s' :=
  Nat.div_le_div_right h

/-- The head of a queue after removing one element is the old head or came from the old tail. -/
theorem head_eraseP {α : Type} (p : α → Bool) (l : List α) (x : α)
    (h : (l.eraseP p).head? = some x) : l.head? = some x ∨ x ∈ l.tail := by
  cases l with
  | nil => simp at h
  | cons y ys =>
    by_cases hy : p y
    · simp only [List.eraseP, hy, cond_true] at h
      exact .inr (List.mem_of_mem_head? h)
    · simp only [List.eraseP, hy, cond_false, List.head?_cons] at h
      exact .inl (by simpa using h)

theorem tail_eraseP {α : Type} (p : α → Bool) (l : List α) (x : α)
    (h : x ∈ (l.eraseP p).tail) : x ∈ l.tail := by
  cases l with
  | nil => simp at h
  | cons y ys =>
    by_cases hy : p y
    · simp only [List.eraseP, hy, cond_true] at h
      exact List.mem_of_mem_tail h
    · simp only [List.eraseP, hy, cond_false, List.tail_cons] at h
      exact List.mem_of_mem_eraseP h

/-- The invariant, the potential bound and the ghost-log bookkeeping hold across every step. -/
theorem stepOK_step {cfg : Cfg} (hb : cfg.burst ≤ USIZE_MAX) {s : State} (op : Op) (hI : Inv cfg s) :
    StepOK cfg s (step cfg s op).1 := by
  cases op with
  | acquire id n =>
    simp only [step]
    split
    · exact ⟨⟨hI.res_le, hI.per_le, hI.ticks_le, hI.gd, hI.held_sum, hI.tail_none, hI.head_ok, hI.inf_mode⟩,
        Nat.le_refl _, by simp only [E, tick]; omega, .inl ⟨rfl, rfl⟩, .inl ⟨rfl, rfl⟩⟩
    · split
      · next hinf =>
        refine ⟨⟨hI.res_le, hI.per_le, hI.ticks_le, ?_, ?_, hI.tail_none, hI.head_ok, hI.inf_mode⟩,
          Nat.le_refl _, by simp only [E, tick]; omega, .inr ⟨id, 0, rfl, rfl, rfl⟩, .inl ⟨rfl, rfl⟩⟩
        · exact hI.gd
        · show ((s.held ++ [(id, 0)]).map Prod.snd).sum = s.reserved
          simp [List.sum_append, hI.held_sum]
      · next hfin =>
        let s1 : State := { s with queue := s.queue ++ [⟨id, n, none⟩], arrivals := s.arrivals ++ [id] }
        have hI1 : Inv cfg s1 := by
          refine ⟨hI.res_le, hI.per_le, hI.ticks_le, hI.gd, hI.held_sum, ?_, ?_, ?_⟩
          · intro x hx
            cases hq : s.queue with
            | nil => simp [s1, hq] at hx
            | cons y ys =>
              have hx' : x ∈ ys ∨ x = ⟨id, n, none⟩ := by simpa [s1, hq] using hx
              rcases hx' with hx' | hx'
              · exact hI.tail_none x (by simp [hq, hx'])
              · subst hx'; rfl
          · intro x k hx hk
            cases hq : s.queue with
            | nil =>
              have : x = ⟨id, n, none⟩ := by simpa [s1, hq] using hx.symm
              subst this; cases hk
            | cons y ys =>
              have : x = y := by simpa [s1, hq] using hx.symm
              subst this
              exact hI.head_ok x k (by simp [hq]) hk
          · intro h; exact absurd h hfin
        have := stepOK_pollQueued hb id hI1
        exact ⟨this.inv, this.now_le, this.E_le, this.g, this.d⟩
  | poll id =>
    simp only [step]
    split
    · exact StepOK.refl hI
    · exact stepOK_pollQueued hb id hI
  | cancel id =>
    simp only [step]
    split
    · exact ⟨⟨hI.res_le, hI.per_le, hI.ticks_le, hI.gd, hI.held_sum, hI.tail_none, hI.head_ok, hI.inf_mode⟩,
        Nat.le_refl _, by simp only [E, tick]; omega, .inl ⟨rfl, rfl⟩, .inl ⟨rfl, rfl⟩⟩
    · split
      · refine ⟨⟨hI.res_le, hI.per_le, hI.ticks_le, hI.gd, hI.held_sum, ?_, ?_, ?_⟩,
          Nat.le_refl _, by simp only [E, tick]; omega, .inl ⟨rfl, rfl⟩, .inl ⟨rfl, rfl⟩⟩
        · intro x hx
          exact hI.tail_none x (tail_eraseP _ _ _ hx)
        · intro x k hx hk
          rcases head_eraseP _ _ _ hx with h | h
          · exact hI.head_ok x k h hk
          · have := hI.tail_none x h
            rw [this] at hk; cases hk
        · intro h
          have := hI.inf_mode h
          exact ⟨by show s.queue.eraseP _ = []; simp [this.1], this.2⟩
      · exact StepOK.refl hI
  | drop id =>
    simp only [step]
    split
    · exact StepOK.refl hI
    · next a n hf => exact (stepOK_dropPermit hb hI hf).1
  | advance d =>
    simp only [step]
    have hm : tick cfg s ≤ tick cfg { s with now := s.now + d } := tick_mono (by show s.now ≤ s.now + d; omega)
    refine ⟨⟨hI.res_le, hI.per_le, Nat.le_trans hI.ticks_le hm, hI.gd, hI.held_sum, hI.tail_none,
      hI.head_ok, hI.inf_mode⟩, by show s.now ≤ s.now + d; omega, ?_, .inl ⟨rfl, rfl⟩, .inl ⟨rfl, rfl⟩⟩
    have h3 := hI.ticks_le
    simp only [E] at *
    show s.dropped + min (s.permits + (tick cfg { s with now := s.now + d } - s.ticks)) cfg.burst ≤ _
    omega

/-- `Permit::drop` never underflows `reserved` / `permits`, and never divides by zero. -/
theorem step_no_panic {cfg : Cfg} (hb : cfg.burst ≤ USIZE_MAX) {s : State} (op : Op) (hI : Inv cfg s) :
    (step cfg s op).2 ≠ .panic := by
  have fin_np : ∀ (s : State) (w : Waiter) (nd : Nat), (finish cfg s w nd).2 ≠ .panic := by
    intro s w nd; simp [finish]
  have stf_np : ∀ (s : State) (w : Waiter) (nd : Nat), (sleepThenFinish cfg (rOf cfg) s w nd).2 ≠ .panic := by
    intro s w nd; unfold sleepThenFinish
    split
    · split
      · exact fin_np _ _ _
      · simp
    · exact fin_np _ _ _
  have pq_np : ∀ (s : State) (id : Nat), (pollQueued cfg (rOf cfg) s id).2 ≠ .panic := by
    intro s id; unfold pollQueued
    split
    · simp
    · split
      · unfold pollHead
        split
        · exact stf_np _ _ _
        · split
          · exact stf_np _ _ _
          · simp
      · split <;> simp
  cases op with
  | acquire id n =>
    simp only [step]
    split
    · simp
    · split
      · simp
      · exact pq_np _ _
  | poll id =>
    simp only [step]
    split
    · simp
    · exact pq_np _ _
  | cancel id =>
    simp only [step]
    split
    · simp
    · split <;> simp
  | drop id =>
    simp only [step]
    split
    · simp
    · next a n hf => exact (stepOK_dropPermit hb hI hf).2
  | advance d => simp [step]


/-! ## Lifting to runs -/

theorem inv_run {cfg : Cfg} (hb : cfg.burst ≤ USIZE_MAX) (ops : List Op) :
    ∀ s, Inv cfg s → Inv cfg (run cfg s ops).1 := by
  induction ops with
  | nil => intro s h; exact h
  | cons op ops ih =>
    intro s h
    simp only [run]
    exact ih _ (stepOK_step hb op h).inv

theorem run_no_panic {cfg : Cfg} (hb : cfg.burst ≤ USIZE_MAX) (ops : List Op) :
    ∀ s, Inv cfg s → Res.panic ∉ (run cfg s ops).2 := by
  induction ops with
  | nil => intro s _; simp [run]
  | cons op ops ih =>
    intro s h
    simp only [run, List.mem_cons, not_or]
    exact ⟨fun e => step_no_panic hb op h e.symm, ih _ (stepOK_step hb op h).inv⟩

/-! ## The generic window argument

`C` is any counter squeezed between `dropped` and `granted` (granted permits, dropped permits, OPEN frames
sent while a permit is held, …) and `W` the part of it that was counted at instants inside `[a, b]`. -/

structure QW (cfg : Cfg) (a b : Nat) (s : State) (C W : Nat) : Prop where
  lo : s.dropped ≤ C
  hi : C ≤ s.granted
  pre : s.now < a → W = 0
  mid : s.now ≤ b → W + E cfg s + a / rOf cfg ≤ C + cfg.burst + (max s.now a) / rOf cfg
  fin : W + a / rOf cfg ≤ cfg.burst + b / rOf cfg

theorem QW_init (cfg : Cfg) (a b : Nat) (hab : a ≤ b) : QW cfg a b (init cfg) 0 0 := by
  have h1 : a / rOf cfg ≤ b / rOf cfg := Nat.div_le_div_right hab
  refine ⟨by simp [init], by simp [init], fun _ => rfl, fun _ => ?_, by omega⟩
  have : max (init cfg).now a = a := by simp [init]
  rw [this]
  simp only [E, tick, init]
  omega

/-- One transition: the counter grows by `k` (only if time stood still), stamped with the current instant. -/
theorem QW_step {cfg : Cfg} {a b : Nat} (hab : a ≤ b) {s s' : State} {C W k : Nat}
    (hI' : Inv cfg s') (hnow : s.now ≤ s'.now)
    (hE : E cfg s' ≤ E cfg s + (tick cfg s' - tick cfg s))
    (hQ : QW cfg a b s C W) (hk : k = 0 ∨ s'.now = s.now)
    (lo' : s'.dropped ≤ C + k) (hi' : C + k ≤ s'.granted) :
    QW cfg a b s' (C + k) (W + if a ≤ s.now ∧ s.now ≤ b then k else 0) := by
  have hGE : s'.granted ≤ E cfg s' := by
    have h1 := hI'.res_le; have h2 := hI'.per_le; have h4 := hI'.gd
    simp only [E]; omega
  have hED : E cfg s' ≤ s'.dropped + cfg.burst := by simp only [E]; omega
  have hab' : a / rOf cfg ≤ b / rOf cfg := Nat.div_le_div_right hab
  have hnn : s.now / rOf cfg ≤ s'.now / rOf cfg := Nat.div_le_div_right hnow
  have hE' : E cfg s' ≤ E cfg s + (s'.now / rOf cfg - s.now / rOf cfg) := hE
  have hpre' : s'.now < a → (W + if a ≤ s.now ∧ s.now ≤ b then k else 0) = 0 := by
    intro h
    have hW := hQ.pre (by omega)
    have : ¬ (a ≤ s.now ∧ s.now ≤ b) := by omega
    simp [this, hW]
  have hmid' : s'.now ≤ b → (W + if a ≤ s.now ∧ s.now ≤ b then k else 0) + E cfg s' + a / rOf cfg
      ≤ C + k + cfg.burst + (max s'.now a) / rOf cfg := by
    intro hb'
    have hm1 : a / rOf cfg ≤ (max s'.now a) / rOf cfg := Nat.div_le_div_right (by omega)
    by_cases hlt : s.now < a
    · have hW := hQ.pre hlt
      have : ¬ (a ≤ s.now ∧ s.now ≤ b) := by omega
      simp only [this, if_false, hW]
      omega
    · have hm := hQ.mid (by omega)
      have e1 : max s.now a = s.now := by omega
      have e2 : max s'.now a = s'.now := by omega
      rw [e1] at hm
      rw [e2]
      split <;> omega
  refine ⟨lo', hi', hpre', hmid', ?_⟩
  by_cases hb' : s'.now ≤ b
  · have hm := hmid' hb'
    have hm2 : (max s'.now a) / rOf cfg ≤ b / rOf cfg := Nat.div_le_div_right (by omega)
    omega
  · have hf := hQ.fin
    rcases hk with hk | hk
    · subst hk; simpa using hf
    · have : ¬ (a ≤ s.now ∧ s.now ≤ b) := by omega
      simpa [this] using hf

/-- `QW` for the grant log across one model step. -/
theorem QW_grants_step {cfg : Cfg} (hb : cfg.burst ≤ USIZE_MAX) {a b : Nat} (hab : a ≤ b) {s : State}
    (op : Op) (hI : Inv cfg s) (hQ : QW cfg a b s s.granted (wsum a b s.glog)) :
    QW cfg a b (step cfg s op).1 (step cfg s op).1.granted (wsum a b (step cfg s op).1.glog) := by
  have ok := stepOK_step hb op hI
  have hgd := ok.inv.gd
  rcases ok.g with ⟨hl, hc⟩ | ⟨id, n, hl, hc, hn⟩
  · have := QW_step (k := 0) hab ok.inv ok.now_le ok.E_le hQ (.inl rfl) (by omega) (by omega)
    rw [hl, hc]; simpa using this
  · have := QW_step (k := n) hab ok.inv ok.now_le ok.E_le hQ (.inr hn) (by omega) (by omega)
    rw [hl, hc, wsum_append, wsum_single]; exact this

/-- `QW` for the drop log across one model step. -/
theorem QW_drops_step {cfg : Cfg} (hb : cfg.burst ≤ USIZE_MAX) {a b : Nat} (hab : a ≤ b) {s : State}
    (op : Op) (hI : Inv cfg s) (hQ : QW cfg a b s s.dropped (wsum a b s.dlog)) :
    QW cfg a b (step cfg s op).1 (step cfg s op).1.dropped (wsum a b (step cfg s op).1.dlog) := by
  have ok := stepOK_step hb op hI
  have hgd := ok.inv.gd
  rcases ok.d with ⟨hl, hc⟩ | ⟨id, n, hl, hc, hn⟩
  · have := QW_step (k := 0) hab ok.inv ok.now_le ok.E_le hQ (.inl rfl) (by omega) (by omega)
    rw [hl, hc]; simpa using this
  · have := QW_step (k := n) hab ok.inv ok.now_le ok.E_le hQ (.inr hn) (by omega) (by omega)
    rw [hl, hc, wsum_append, wsum_single]; exact this

theorem QW_grants_run {cfg : Cfg} (hb : cfg.burst ≤ USIZE_MAX) {a b : Nat} (hab : a ≤ b) (ops : List Op) :
    ∀ s, Inv cfg s → QW cfg a b s s.granted (wsum a b s.glog) →
      QW cfg a b (run cfg s ops).1 (run cfg s ops).1.granted (wsum a b (run cfg s ops).1.glog) := by
  induction ops with
  | nil => intro s _ h; exact h
  | cons op ops ih =>
    intro s hI hQ
    simp only [run]
    exact ih _ (stepOK_step hb op hI).inv (QW_grants_step hb hab op hI hQ)

theorem QW_drops_run {cfg : Cfg} (hb : cfg.burst ≤ USIZE_MAX) {a b : Nat} (hab : a ≤ b) (ops : List Op) :
    ∀ s, Inv cfg s → QW cfg a b s s.dropped (wsum a b s.dlog) →
      QW cfg a b (run cfg s ops).1 (run cfg s ops).1.dropped (wsum a b (run cfg s ops).1.dlog) := by
  induction ops with
  | nil => intro s _ h; exact h
  | cons op ops ih =>
    intro s hI hQ
    simp only [run]
    exact ih _ (stepOK_step hb op hI).inv (QW_drops_step hb hab op hI hQ)

/-- `⌊(a+T)/r⌋ ≤ ⌊a/r⌋ + ⌊T/r⌋ + 1`. -/
theorem add_div_le (a T r : Nat) (hr : 0 < r) : (a + T) / r ≤ a / r + T / r + 1 := by
  have h1 := Nat.lt_mul_div_succ a hr
  have h2 := Nat.lt_mul_div_succ T hr
  have : (a + T) / r < a / r + T / r + 2 := by
    rw [Nat.div_lt_iff_lt_mul hr]
    have e : (a / r + T / r + 2) * r = r * (a / r + 1) + r * (T / r + 1) := by
      simp only [Nat.mul_add, Nat.mul_comm]; omega
    omega
  omega

/-- From `QW.fin` to the bound of the property: `W ≤ burst + T/r + 1`. -/
theorem QW.bound {cfg : Cfg} {a T : Nat} {s : State} {C W : Nat} (hr : 0 < rOf cfg)
    (h : QW cfg a (a + T) s C W) : W ≤ cfg.burst + T / rOf cfg + 1 := by
  have := h.fin
  have := add_div_le a T (rOf cfg) hr
  omega


/-! ## Arrival order -/

/-- Grants so far followed by the waiters still queued, in queue order, is a subsequence of the arrivals. -/
def Fifo (s : State) : Prop :=
  (s.glog.map (·.id) ++ s.queue.map (·.id)).Sublist s.arrivals

@[simp] theorem advance_glog (s : State) (cfg : Cfg) (t : Nat) : (s.advance cfg t).glog = s.glog := by
  unfold State.advance; split <;> rfl
@[simp] theorem advance_queue (s : State) (cfg : Cfg) (t : Nat) : (s.advance cfg t).queue = s.queue := by
  unfold State.advance; split <;> rfl
@[simp] theorem advance_arrivals (s : State) (cfg : Cfg) (t : Nat) : (s.advance cfg t).arrivals = s.arrivals := by
  unfold State.advance; split <;> rfl

theorem fifo_finish {cfg : Cfg} {s : State} {w : Waiter} {rest : List Waiter} {nd : Nat}
    (hq : s.queue = w :: rest) (h : Fifo s) : Fifo (finish cfg s w nd).1 := by
  unfold Fifo at *
  simp only [finish, advance_arrivals, hq, List.tail_cons, List.map_append, List.map_cons, List.map_nil,
    List.append_assoc, List.singleton_append] at *
  exact h

theorem fifo_sleepThenFinish {cfg : Cfg} {r : Nat} {s : State} {w : Waiter} {rest : List Waiter} {nd : Nat}
    (hq : s.queue = w :: rest) (h : Fifo s) : Fifo (sleepThenFinish cfg r s w nd).1 := by
  unfold sleepThenFinish
  split
  · split
    · exact fifo_finish hq h
    · exact h
  · exact fifo_finish hq h

theorem fifo_pollQueued {cfg : Cfg} {r : Nat} {s : State} (id : Nat) (h : Fifo s) :
    Fifo (pollQueued cfg r s id).1 := by
  unfold pollQueued
  split
  · exact h
  · next w rest hq =>
    split
    · unfold pollHead
      split
      · exact fifo_sleepThenFinish hq h
      · split
        · apply fifo_sleepThenFinish (rest := rest) rfl
          unfold Fifo at *
          simpa [hq] using h
        · exact h
    · split <;> exact h

theorem dropPermit_frame (cfg : Cfg) (s : State) (id n : Nat) (hl : List (Nat × Nat)) :
    (dropPermit cfg s id n hl).1.glog = s.glog ∧ (dropPermit cfg s id n hl).1.queue = s.queue ∧
    (dropPermit cfg s id n hl).1.arrivals = s.arrivals := by
  unfold dropPermit
  by_cases h0 : n = 0
  · simp [h0]
  · by_cases hr : cfg.refresh.toNat = 0
    · simp [h0, hr]
    · simp only [h0, hr, if_false]
      split <;> simp

theorem fifo_step {cfg : Cfg} {s : State} (op : Op) (hI : Inv cfg s) (h : Fifo s) :
    Fifo (step cfg s op).1 := by
  cases op with
  | acquire id n =>
    simp only [step]
    split
    · exact h
    · split
      · next hinf =>
        have hq := (hI.inf_mode hinf).1
        unfold Fifo at *
        simp only [hq, List.map_nil, List.append_nil, List.map_append, List.map_cons] at *
        exact List.Sublist.append h (List.Sublist.refl _)
      · apply fifo_pollQueued
        unfold Fifo at *
        simp only [List.map_append, List.map_cons, List.map_nil, ← List.append_assoc]
        exact List.Sublist.append h (List.Sublist.refl _)
  | poll id =>
    simp only [step]
    split
    · exact h
    · exact fifo_pollQueued id h
  | cancel id =>
    simp only [step]
    split
    · exact h
    · split
      · unfold Fifo at *
        refine List.Sublist.trans ?_ h
        exact List.Sublist.append (List.Sublist.refl _) (List.Sublist.map _ (List.eraseP_sublist))
      · exact h
  | drop id =>
    simp only [step]
    split
    · exact h
    · next a n hf =>
      have := dropPermit_frame cfg s id n (s.held.eraseP (fun p => p.1 = id))
      unfold Fifo at *
      rw [this.1, this.2.1, this.2.2]; exact h
  | advance d => exact h

theorem fifo_run {cfg : Cfg} (hb : cfg.burst ≤ USIZE_MAX) (ops : List Op) :
    ∀ s, Inv cfg s → Fifo s → Fifo (run cfg s ops).1 := by
  induction ops with
  | nil => intro s _ h; exact h
  | cons op ops ih =>
    intro s hI h
    simp only [run]
    exact ih _ (stepOK_step hb op hI).inv (fifo_step op hI h)

/-! ## What a step that grants nothing leaves untouched -/

/-- The limiter's own state (and the ghost accounting) is the same in `s` and `s'`; only the wait queue
and the set of parked futures may differ. -/
structure CoreEq (s s' : State) : Prop where
  ticks : s'.ticks = s.ticks
  permits : s'.permits = s.permits
  reserved : s'.reserved = s.reserved
  now : s'.now = s.now
  held : s'.held = s.held
  granted : s'.granted = s.granted
  dropped : s'.dropped = s.dropped
  glog : s'.glog = s.glog
  dlog : s'.dlog = s.dlog

theorem CoreEq.rfl' {s : State} : CoreEq s s := ⟨rfl, rfl, rfl, rfl, rfl, rfl, rfl, rfl, rfl⟩

theorem core_sleepThenFinish {cfg : Cfg} {r : Nat} {s : State} {w : Waiter} {nd : Nat}
    (h : ∀ n, (sleepThenFinish cfg r s w nd).2 ≠ .granted n) : CoreEq s (sleepThenFinish cfg r s w nd).1 := by
  unfold sleepThenFinish at *
  by_cases h0 : nd > 0
  · by_cases h1 : sleepReady s.now (deadline r nd) = true
    · simp only [h0, h1, if_true] at h
      exact absurd rfl (h w.n)
    · simp only [h0, h1, if_true]
      exact CoreEq.rfl'
  · simp only [h0, if_false] at h
    exact absurd rfl (h w.n)

theorem core_pollQueued {cfg : Cfg} {r : Nat} {s : State} {id : Nat}
    (h : ∀ n, (pollQueued cfg r s id).2 ≠ .granted n) : CoreEq s (pollQueued cfg r s id).1 := by
  unfold pollQueued at *
  split
  · exact CoreEq.rfl'
  · next w rest hq =>
    simp only [hq] at h
    split
    · next hid =>
      simp only [hid, if_true] at h
      unfold pollHead at *
      split
      · next nd hn =>
        simp only [hn] at h
        exact core_sleepThenFinish h
      · next hn =>
        simp only [hn] at h
        split
        · next hge =>
          simp only [hge, if_true] at h
          have := core_sleepThenFinish h
          exact ⟨this.ticks, this.permits, this.reserved, this.now, this.held, this.granted, this.dropped,
            this.glog, this.dlog⟩
        · exact CoreEq.rfl'
    · split <;> exact CoreEq.rfl'

/-- An `acquire` / `poll` / `cancel` step that does not return a permit changes nothing but the wait queue. -/
theorem core_step {cfg : Cfg} {s : State} (op : Op)
    (hop : (∃ id n, op = .acquire id n) ∨ (∃ id, op = .poll id) ∨ (∃ id, op = .cancel id))
    (h : ∀ n, (step cfg s op).2 ≠ .granted n) : CoreEq s (step cfg s op).1 := by
  rcases hop with ⟨id, n, rfl⟩ | ⟨id, rfl⟩ | ⟨id, rfl⟩
  · simp only [step] at *
    split
    · exact ⟨rfl, rfl, rfl, rfl, rfl, rfl, rfl, rfl, rfl⟩
    · next h1 =>
      simp only [h1, if_false] at h
      split
      · next h2 => simp only [h2, if_true] at h; exact absurd rfl (h 0)
      · next h2 =>
        simp only [h2, if_false] at h
        have := core_pollQueued h
        exact ⟨this.ticks, this.permits, this.reserved, this.now, this.held, this.granted, this.dropped,
          this.glog, this.dlog⟩
  · simp only [step] at *
    split
    · exact CoreEq.rfl'
    · next h1 =>
      simp only [h1] at h
      exact core_pollQueued h
  · simp only [step]
    split
    · exact ⟨rfl, rfl, rfl, rfl, rfl, rfl, rfl, rfl, rfl⟩
    · split
      · exact ⟨rfl, rfl, rfl, rfl, rfl, rfl, rfl, rfl, rfl⟩
      · exact CoreEq.rfl'


/-! ## The ghost logs are the observable results -/

/-- The id an operation is about. -/
def opId : Op → Nat
  | .acquire id _ => id
  | .poll id => id
  | .cancel id => id
  | .drop id => id
  | .advance _ => 0

/-- The log entry an observer writes for a step: a grant of `n` permits to the op's id at the current time. -/
def grantEv (now : Nat) (op : Op) : Res → List Ev
  | .granted n => [⟨now, opId op, n⟩]
  | _ => []

theorem glog_finish (cfg : Cfg) (s : State) (w : Waiter) (nd : Nat) :
    (finish cfg s w nd).1.glog = s.glog ++ [⟨s.now, w.id, w.n⟩] ∧ (finish cfg s w nd).2 = .granted w.n := by
  simp [finish]

theorem glog_sleepThenFinish (cfg : Cfg) (r : Nat) (s : State) (w : Waiter) (nd : Nat) (op : Op)
    (hid : opId op = w.id) :
    (sleepThenFinish cfg r s w nd).1.glog = s.glog ++ grantEv s.now op (sleepThenFinish cfg r s w nd).2 := by
  unfold sleepThenFinish
  split
  · split
    · simp [finish, grantEv, hid]
    · simp [grantEv]
  · simp [finish, grantEv, hid]

theorem glog_pollQueued (cfg : Cfg) (r : Nat) (s : State) (id : Nat) (op : Op) (hid : opId op = id) :
    (pollQueued cfg r s id).1.glog = s.glog ++ grantEv s.now op (pollQueued cfg r s id).2 := by
  unfold pollQueued
  split
  · simp [grantEv]
  · next w rest hq =>
    split
    · next hw =>
      unfold pollHead
      split
      · exact glog_sleepThenFinish cfg r s w _ op (by omega)
      · split
        · exact glog_sleepThenFinish cfg r _ _ _ op (by simp; omega)
        · simp [grantEv]
    · split <;> simp [grantEv]

theorem dropPermit_not_granted (cfg : Cfg) (s : State) (id n : Nat) (hl : List (Nat × Nat)) :
    ∀ m, (dropPermit cfg s id n hl).2 ≠ .granted m := by
  intro m
  unfold dropPermit
  by_cases h0 : n = 0
  · simp [h0]
  · by_cases hr : cfg.refresh.toNat = 0
    · simp [h0, hr]
    · simp only [h0, hr, if_false]
      split <;> simp

/-- The ghost grant log grows by exactly what the step's result says. -/
theorem glog_step (cfg : Cfg) (s : State) (op : Op) :
    (step cfg s op).1.glog = s.glog ++ grantEv s.now op (step cfg s op).2 := by
  cases op with
  | acquire id n =>
    simp only [step]
    split
    · simp [grantEv]
    · split
      · simp [grantEv, opId]
      · exact glog_pollQueued cfg _ _ id _ rfl
  | poll id =>
    simp only [step]
    split
    · simp [grantEv]
    · exact glog_pollQueued cfg _ _ id _ rfl
  | cancel id =>
    simp only [step]
    split
    · simp [grantEv]
    · split <;> simp [grantEv]
  | drop id =>
    simp only [step]
    split
    · simp [grantEv]
    · next a n hf =>
      rw [(dropPermit_frame cfg s id n (s.held.eraseP (fun p => p.1 = id))).1]
      have := dropPermit_not_granted cfg s id n (s.held.eraseP (fun p => p.1 = id))
      generalize (dropPermit cfg s id n (s.held.eraseP (fun p => p.1 = id))).2 = r at this
      cases r <;> simp [grantEv] at *
  | advance d => simp [step, grantEv]

/-- The grants an observer of the results sees: (time, id, n) for every `granted n` result, where time is the
sum of the clock advances so far. -/
def obsGrants (cfg : Cfg) : State → List Op → List Ev
  | _, [] => []
  | s, op :: ops => grantEv s.now op (step cfg s op).2 ++ obsGrants cfg (step cfg s op).1 ops

theorem glog_run (cfg : Cfg) (ops : List Op) :
    ∀ s, (run cfg s ops).1.glog = s.glog ++ obsGrants cfg s ops := by
  induction ops with
  | nil => intro s; simp [run, obsGrants]
  | cons op ops ih =>
    intro s
    simp only [run, obsGrants]
    rw [ih, glog_step, List.append_assoc]

/-- Only the head of the arrival queue is ever served. -/
theorem granted_is_head {cfg : Cfg} {r : Nat} {s : State} {id n : Nat}
    (h : (pollQueued cfg r s id).2 = .granted n) : ∃ w rest, s.queue = w :: rest ∧ w.id = id ∧ w.n = n := by
  unfold pollQueued at h
  split at h
  · cases h
  · next w rest hq =>
    split at h
    · next hw =>
      refine ⟨w, rest, hq, hw, ?_⟩
      have key : ∀ (s : State) (w : Waiter) (nd : Nat), (sleepThenFinish cfg r s w nd).2 = .granted n → w.n = n := by
        intro s w nd hh
        unfold sleepThenFinish at hh
        split at hh
        · split at hh
          · simpa [finish] using hh
          · cases hh
        · simpa [finish] using hh
      unfold pollHead at h
      split at h
      · exact key _ _ _ h
      · split at h
        · exact key _ _ _ h
        · cases h
    · split at h <;> cases h

/-- `arrivals` is the list of ids of the `acquire` operations that passed the `burst < permits` test. -/
def arrivalsOf (cfg : Cfg) (ops : List Op) : List Nat :=
  ops.filterMap fun
    | .acquire id n => if cfg.burst < n then none else some id
    | _ => none

@[simp] theorem advance_arrivals' (s : State) (cfg : Cfg) (t : Nat) : (s.advance cfg t).arrivals = s.arrivals :=
  advance_arrivals s cfg t

theorem arrivals_pollQueued (cfg : Cfg) (r : Nat) (s : State) (id : Nat) :
    (pollQueued cfg r s id).1.arrivals = s.arrivals := by
  have fin : ∀ (s : State) (w : Waiter) (nd : Nat), (finish cfg s w nd).1.arrivals = s.arrivals := by
    intro s w nd; simp [finish]
  have stf : ∀ (s : State) (w : Waiter) (nd : Nat), (sleepThenFinish cfg r s w nd).1.arrivals = s.arrivals := by
    intro s w nd; unfold sleepThenFinish
    split
    · split
      · exact fin _ _ _
      · rfl
    · exact fin _ _ _
  unfold pollQueued
  split
  · rfl
  · split
    · unfold pollHead
      split
      · exact stf _ _ _
      · split
        · rw [stf]
        · rfl
    · split <;> rfl

theorem arrivals_step (cfg : Cfg) (s : State) (op : Op) :
    (step cfg s op).1.arrivals = s.arrivals ++ arrivalsOf cfg [op] := by
  cases op with
  | acquire id n =>
    simp only [step, arrivalsOf, List.filterMap_cons, List.filterMap_nil]
    split
    · simp
    · split
      · simp
      · rw [arrivals_pollQueued]
  | poll id =>
    simp only [step, arrivalsOf, List.filterMap_cons, List.filterMap_nil, List.append_nil]
    split
    · rfl
    · rw [arrivals_pollQueued]
  | cancel id =>
    simp only [step, arrivalsOf, List.filterMap_cons, List.filterMap_nil, List.append_nil]
    split
    · rfl
    · split <;> rfl
  | drop id =>
    simp only [step, arrivalsOf, List.filterMap_cons, List.filterMap_nil, List.append_nil]
    split
    · rfl
    · exact (dropPermit_frame cfg s id _ _).2.2
  | advance d => simp [step, arrivalsOf]

theorem arrivals_run (cfg : Cfg) (ops : List Op) :
    ∀ s, (run cfg s ops).1.arrivals = s.arrivals ++ arrivalsOf cfg ops := by
  induction ops with
  | nil => intro s; simp [run, arrivalsOf]
  | cons op ops ih =>
    intro s
    simp only [run]
    rw [ih, arrivals_step]
    simp [arrivalsOf, List.filterMap_cons]
    cases op <;> simp <;> split <;> simp

end EraVerif.Proofs.Limiter
