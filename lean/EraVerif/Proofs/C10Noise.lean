import EraVerif.Model.C10Noise

/-! Helper lemmas for C10: bounds of the noise read buffers. Core Lean only. -/

namespace EraVerif.Proofs.C10Noise
open EraVerif.Gen.NoiseConst EraVerif.Model.C10 EraVerif.Model.C10.Noise

def Bytes (l : List Nat) : Prop := ∀ b ∈ l, b < 256

/-- the two buffers are inside their (generated) capacities, the frame buffer is left-aligned between calls -/
def NInv (r : Rd) : Prop :=
  r.frame.cap = MAX_FRAME_LEN ∧ r.frame.begin_ = 0 ∧ r.frame.content.length ≤ MAX_FRAME_LEN ∧
  r.payload.cap = MAX_PAYLOAD_LEN ∧ r.payload.begin_ + r.payload.content.length ≤ MAX_PAYLOAD_LEN ∧
  Bytes r.frame.content ∧ Bytes r.wire

theorem ninv_init (wire frags : List Nat) (hb : Bytes wire) : NInv (Rd.init wire frags) := by
  refine ⟨rfl, rfl, ?_, rfl, ?_, ?_, hb⟩
  · simp [Rd.init, Buf.new]
  · simp [Rd.init, Buf.new]
  · intro b hb; simp [Rd.init, Buf.new] at hb

theorem bytes_take {l : List Nat} (h : Bytes l) (n : Nat) : Bytes (l.take n) :=
  fun b hb => h b (List.mem_of_mem_take hb)

theorem bytes_drop {l : List Nat} (h : Bytes l) (n : Nat) : Bytes (l.drop n) :=
  fun b hb => h b (List.mem_of_mem_drop hb)

theorem bytes_append {a b : List Nat} (ha : Bytes a) (hb : Bytes b) : Bytes (a ++ b) := by
  intro x hx
  rcases List.mem_append.mp hx with h | h
  · exact ha x h
  · exact hb x h

theorem getD_lt {l : List Nat} (h : Bytes l) (i : Nat) : l.getD i 0 < 256 := by
  unfold List.getD
  cases hq : l[i]? with
  | none => simp
  | some x =>
    simp only [Option.getD_some]
    exact h x (List.mem_of_getElem? hq)

theorem innerReadLen_le (r : Rd) (room : Nat) : r.innerReadLen room ≤ room ∧ r.innerReadLen room ≤ r.wire.length := by
  unfold Rd.innerReadLen
  exact ⟨Nat.le_trans (Nat.min_le_left _ _) (Nat.min_le_right _ _), Nat.min_le_right _ _⟩

/-- what `pollReadFrame` can return from a state satisfying the invariant -/
inductive FrameOK (r : Rd) : FrameRes → Prop where
  | frame (n : Nat) (r' : Rd) : NInv r' → LENGTH_FIELD_LEN + n ≤ r'.frame.content.length →
      r'.payload = r.payload → r'.nonce = r.nonce → r'.wire.length ≤ r.wire.length →
      r'.wire.length + r'.frame.content.length = r.wire.length + r.frame.content.length →
      FrameOK r (.frame n r')
  | eof (r' : Rd) : NInv r' → r'.wire = [] → r'.payload = r.payload → r'.nonce = r.nonce →
      r'.wire.length + r'.frame.content.length = r.wire.length + r.frame.content.length →
      FrameOK r (.eof r')

theorem pollReadFrame_ok : ∀ (fuel : Nat) (r : Rd), NInv r → r.wire.length < fuel → FrameOK r (pollReadFrame fuel r) := by
  intro fuel
  induction fuel with
  | zero => intro r _ h; omega
  | succ fuel ih =>
    intro r hi hf
    obtain ⟨c1, c2, c3, c4, c5, c6, c7⟩ := hi
    have hcap : MAX_FRAME_LEN = 65537 := rfl
    have hlf : LENGTH_FIELD_LEN = 2 := rfl
    unfold pollReadFrame
    -- the `complete` computation
    by_cases hl : r.frame.len ≥ LENGTH_FIELD_LEN
    · have hl' : 2 ≤ r.frame.content.length := by simpa [Buf.len, hlf] using hl
      have hp : r.frame.prefix2 = .ok (r.frame.content.getD 0 0 + 256 * r.frame.content.getD 1 0) := by
        unfold Buf.prefix2
        rw [c1, c2]
        simp [hcap, hl']
      have hn : r.frame.content.getD 0 0 + 256 * r.frame.content.getD 1 0 ≤ 65535 := by
        have := getD_lt c6 0; have := getD_lt c6 1; omega
      simp only [hl, if_true, hp]
      by_cases hc : r.frame.len ≥ LENGTH_FIELD_LEN + (r.frame.content.getD 0 0 + 256 * r.frame.content.getD 1 0)
      · simp only [hc, if_true]
        exact FrameOK.frame _ r ⟨c1, c2, c3, c4, c5, c6, c7⟩ (by simpa [Buf.len] using hc) rfl rfl (Nat.le_refl _) rfl
      · simp only [hc, if_false]
        have hroom : r.frame.content.length < 65537 := by
          have : r.frame.content.length < 2 + (r.frame.content.getD 0 0 + 256 * r.frame.content.getD 1 0) := by
            simpa [Buf.len, hlf] using hc
          omega
        exact step_read fuel ih r ⟨c1, c2, c3, c4, c5, c6, c7⟩ hf hroom
    · simp only [hl, if_false]
      have hroom : r.frame.content.length < 65537 := by
        have : r.frame.content.length < 2 := by simpa [Buf.len, hlf] using hl
        omega
      exact step_read fuel ih r ⟨c1, c2, c3, c4, c5, c6, c7⟩ hf hroom
where
  /-- the transport-read half of one loop iteration, when the frame buffer still has room -/
  step_read (fuel : Nat)
      (ih : ∀ r : Rd, NInv r → r.wire.length < fuel → FrameOK r (pollReadFrame fuel r))
      (r : Rd) (hi : NInv r) (hf : r.wire.length < fuel + 1) (hroom : r.frame.content.length < 65537) :
      FrameOK r
        (match r.frame.asMutCapacity with
        | .panic s => FrameRes.panic s
        | .err _ => FrameRes.panic "unreachable"
        | .ok room =>
          let n := r.innerReadLen room
          if n = 0 then FrameRes.eof r
          else
            match r.frame.fill (r.wire.take n) with
            | .panic s => FrameRes.panic s
            | .err _ => FrameRes.panic "unreachable"
            | .ok fb => pollReadFrame fuel { r with frame := fb, wire := r.wire.drop n, frags := r.frags.drop 1 }) := by
    obtain ⟨c1, c2, c3, c4, c5, c6, c7⟩ := hi
    have hcap : MAX_FRAME_LEN = 65537 := rfl
    have hend : r.frame.end_ = r.frame.content.length := by simp [Buf.end_, c2]
    have hmc : r.frame.asMutCapacity = .ok (65537 - r.frame.content.length) := by
      unfold Buf.asMutCapacity
      rw [hend, c1, hcap]
      simp [Nat.le_of_lt hroom]
    simp only [hmc]
    by_cases hz : r.innerReadLen (65537 - r.frame.content.length) = 0
    · simp only [hz, if_true]
      refine FrameOK.eof r ⟨c1, c2, c3, c4, c5, c6, c7⟩ ?_ rfl rfl rfl
      unfold Rd.innerReadLen at hz
      have hw : r.wire.length = 0 := by
        cases hfr : r.frags with
        | nil => rw [hfr] at hz; simp only [] at hz; omega
        | cons f fs => rw [hfr] at hz; simp only [] at hz; omega
      exact List.eq_nil_of_length_eq_zero hw
    · simp only [hz, if_false]
      have hn1 : r.innerReadLen (65537 - r.frame.content.length) ≤ 65537 - r.frame.content.length :=
        (innerReadLen_le r _).1
      have hn2 : r.innerReadLen (65537 - r.frame.content.length) ≤ r.wire.length := (innerReadLen_le r _).2
      have hlen : (r.wire.take (r.innerReadLen (65537 - r.frame.content.length))).length
          = r.innerReadLen (65537 - r.frame.content.length) := by
        rw [List.length_take]; omega
      have hfill : r.frame.fill (r.wire.take (r.innerReadLen (65537 - r.frame.content.length)))
          = .ok { r.frame with content := r.frame.content ++ r.wire.take (r.innerReadLen (65537 - r.frame.content.length)) } := by
        unfold Buf.fill
        rw [hmc]
        simp only [hlen, hn1, if_true]
      simp only [hfill]
      have hi' : NInv { r with
          frame := { r.frame with content := r.frame.content ++ r.wire.take (r.innerReadLen (65537 - r.frame.content.length)) },
          wire := r.wire.drop (r.innerReadLen (65537 - r.frame.content.length)), frags := r.frags.drop 1 } := by
        refine ⟨c1, c2, ?_, c4, c5, ?_, ?_⟩
        · simp only [List.length_append, hlen, hcap]; omega
        · exact bytes_append c6 (bytes_take c7 _)
        · exact bytes_drop c7 _
      have hlt : (r.wire.drop (r.innerReadLen (65537 - r.frame.content.length))).length < fuel := by
        rw [List.length_drop]; omega
      have := ih _ hi' hlt
      cases hres : pollReadFrame fuel { r with
          frame := { r.frame with content := r.frame.content ++ r.wire.take (r.innerReadLen (65537 - r.frame.content.length)) },
          wire := r.wire.drop (r.innerReadLen (65537 - r.frame.content.length)), frags := r.frags.drop 1 } with
      | frame n r' =>
        rw [hres] at this
        cases this with
        | frame _ _ a b c d e f =>
          refine FrameOK.frame n r' a b c d ?_ ?_
          · simp only [List.length_drop] at e; omega
          · simp only [List.length_drop, List.length_append, hlen] at f; omega
      | eof r' =>
        rw [hres] at this
        cases this with
        | eof _ a b c d f =>
          refine FrameOK.eof r' a b c d ?_
          simp only [List.length_drop, List.length_append, hlen] at f; omega
      | panic s => rw [hres] at this; cases this
      | fuel => rw [hres] at this; cases this

/-- bytes in flight: not yet read from the transport + held in the two buffers -/
def mu (r : Rd) : Nat := r.wire.length + r.frame.content.length + r.payload.content.length

inductive ReadOK (r : Rd) : ReadRes → Prop where
  | data (n : Nat) (r' : Rd) : NInv r' → mu r' + n ≤ mu r → ReadOK r (.data n r')
  | invalid (r' : Rd) : NInv r' → mu r' ≤ mu r → ReadOK r (.invalid r')

theorem deliver_ok (k : Nat) (r : Rd) (hi : NInv r) : ReadOK r (deliver k r) := by
  obtain ⟨c1, c2, c3, c4, c5, c6, c7⟩ := hi
  unfold deliver
  have hs : r.payload.asSlice = .ok r.payload.content := by
    unfold Buf.asSlice Buf.end_
    rw [c4]; simp [c5]
  have hm : min k r.payload.len ≤ r.payload.content.length := Nat.min_le_right _ _
  have ht : r.payload.take (min k r.payload.len) = .ok { r.payload with
      begin_ := r.payload.begin_ + min k r.payload.len, content := r.payload.content.drop (min k r.payload.len) } := by
    unfold Buf.take; simp [hm]
  simp only [hs, ht]
  refine ReadOK.data _ _ ⟨c1, c2, c3, c4, ?_, c6, c7⟩ ?_
  · simp only [List.length_drop]; omega
  · unfold mu; simp only [List.length_drop]; omega

theorem decryptFrame_ok (dec : Dec) (hd : DecContract dec) (k n : Nat) (r : Rd) (hi : NInv r)
    (hn : LENGTH_FIELD_LEN + n ≤ r.frame.content.length) : ReadOK r (decryptFrame dec k n r) := by
  obtain ⟨c1, c2, c3, c4, c5, c6, c7⟩ := hi
  have hlf : LENGTH_FIELD_LEN = 2 := rfl
  have hau : AUTHDATA_LEN = 16 := rfl
  unfold decryptFrame
  have hs : r.frame.asSlice = .ok r.frame.content := by
    unfold Buf.asSlice Buf.end_
    rw [c1, c2]; simp [c3]
  have hnl : ¬ (r.frame.content.length < LENGTH_FIELD_LEN + n) := by omega
  have hcap : (r.payload.reset).asMutCapacity = .ok MAX_PAYLOAD_LEN := by
    unfold Buf.asMutCapacity Buf.reset Buf.end_
    simp [c4]
  simp only [hs, hnl, if_false, hcap]
  cases hdec : dec r.nonce ((r.frame.content.drop LENGTH_FIELD_LEN).take n) with
  | none => exact ReadOK.invalid r ⟨c1, c2, c3, c4, c5, c6, c7⟩ (Nat.le_refl _)
  | some m =>
    simp only []
    by_cases hmr : m > MAX_PAYLOAD_LEN
    · simp only [hmr, if_true]
      exact ReadOK.invalid r ⟨c1, c2, c3, c4, c5, c6, c7⟩ (Nat.le_refl _)
    · simp only [hmr, if_false]
      have hclen : ((r.frame.content.drop LENGTH_FIELD_LEN).take n).length = n := by
        rw [List.length_take, List.length_drop]; omega
      have hmn : m + 16 = n := by
        have := hd _ _ _ hdec
        rw [hclen, hau] at this; exact this
      have ht : r.frame.take (LENGTH_FIELD_LEN + n) = .ok (Buf.mk r.frame.cap
          (r.frame.begin_ + (LENGTH_FIELD_LEN + n)) (r.frame.content.drop (LENGTH_FIELD_LEN + n))) := by
        unfold Buf.take; simp [hn]
      simp only [ht]
      have hsh : (Buf.mk r.frame.cap (r.frame.begin_ + (LENGTH_FIELD_LEN + n))
            (r.frame.content.drop (LENGTH_FIELD_LEN + n))).shift
          = .ok (Buf.mk r.frame.cap 0 (r.frame.content.drop (LENGTH_FIELD_LEN + n))) := by
        unfold Buf.shift Buf.end_
        simp only [List.length_drop, c1, c2]
        have : LENGTH_FIELD_LEN + n + (r.frame.content.length - (LENGTH_FIELD_LEN + n)) ≤ MAX_FRAME_LEN := by omega
        simp [this]
      simp only [hsh]
      have hfill : (r.payload.reset).fill (List.replicate m 0) = .ok (Buf.mk r.payload.cap 0 (List.replicate m 0)) := by
        unfold Buf.fill
        rw [hcap]
        have : (List.replicate m 0).length ≤ MAX_PAYLOAD_LEN := by rw [List.length_replicate]; omega
        simp only [this, if_true, Buf.reset, List.nil_append]
      simp only [hfill]
      have hi' : NInv { r with
          frame := Buf.mk r.frame.cap 0 (r.frame.content.drop (LENGTH_FIELD_LEN + n)),
          payload := Buf.mk r.payload.cap 0 (List.replicate m 0), nonce := r.nonce + 1 } := by
        refine ⟨c1, rfl, ?_, c4, ?_, bytes_drop c6 _, c7⟩
        · simp only [List.length_drop]; omega
        · simp; omega
      have := deliver_ok k _ hi'
      cases hres : deliver k { r with
          frame := Buf.mk r.frame.cap 0 (r.frame.content.drop (LENGTH_FIELD_LEN + n)),
          payload := Buf.mk r.payload.cap 0 (List.replicate m 0), nonce := r.nonce + 1 } with
      | data n' r' =>
        rw [hres] at this
        cases this with
        | data _ _ a b =>
          refine ReadOK.data n' r' a ?_
          unfold mu at b ⊢
          simp only [List.length_drop, List.length_replicate] at b
          omega
      | invalid r' =>
        rw [hres] at this
        cases this with
        | invalid _ a b =>
          refine ReadOK.invalid r' a ?_
          unfold mu at b ⊢
          simp only [List.length_drop, List.length_replicate] at b
          omega
      | panic s => rw [hres] at this; cases this
      | fuel => rw [hres] at this; cases this

theorem pollRead_ok (dec : Dec) (hd : DecContract dec) (fuel : Nat) (r : Rd) (k : Nat) (hi : NInv r)
    (hf : r.wire.length < fuel) : ReadOK r (pollRead dec fuel r k) := by
  unfold pollRead
  split
  · exact deliver_ok k r hi
  · rename_i hp
    have hp0 : r.payload.content.length = 0 := by simpa [Buf.len] using hp
    have hfr := pollReadFrame_ok fuel r hi hf
    cases hres : pollReadFrame fuel r with
    | fuel => rw [hres] at hfr; cases hfr
    | panic s => rw [hres] at hfr; cases hfr
    | eof r' =>
      rw [hres] at hfr
      cases hfr with
      | eof _ a b c d e =>
        simp only []
        have := deliver_ok k r' a
        cases hd2 : deliver k r' with
        | data n' r'' =>
          rw [hd2] at this
          cases this with
          | data _ _ x y => exact ReadOK.data n' r'' x (by unfold mu at y ⊢; rw [c] at y; omega)
        | invalid r'' =>
          rw [hd2] at this
          cases this with
          | invalid _ x y => exact ReadOK.invalid r'' x (by unfold mu at y ⊢; rw [c] at y; omega)
        | panic s => rw [hd2] at this; cases this
        | fuel => rw [hd2] at this; cases this
    | frame n r' =>
      rw [hres] at hfr
      cases hfr with
      | frame _ _ a b c d e f =>
        simp only []
        have := decryptFrame_ok dec hd k n r' a b
        cases hd2 : decryptFrame dec k n r' with
        | data n' r'' =>
          rw [hd2] at this
          cases this with
          | data _ _ x y => exact ReadOK.data n' r'' x (by unfold mu at y ⊢; rw [c] at y; omega)
        | invalid r'' =>
          rw [hd2] at this
          cases this with
          | invalid _ x y => exact ReadOK.invalid r'' x (by unfold mu at y ⊢; rw [c] at y; omega)
        | panic s => rw [hd2] at this; cases this
        | fuel => rw [hd2] at this; cases this

/-- the whole read loop: never a panic, buffers stay in bounds, terminates within `mu` iterations, and the
plaintext delivered is bounded by the bytes received -/
theorem readAll_ok (dec : Dec) (hd : DecContract dec) (k : Nat) : ∀ (fuel : Nat) (r : Rd) (acc : Nat), NInv r →
    (∀ s, (readAll dec k fuel r acc).2.1 ≠ .panic s) ∧ NInv (readAll dec k fuel r acc).2.2 ∧
    (mu r < fuel → (readAll dec k fuel r acc).2.1 ≠ .fuel) ∧
    (readAll dec k fuel r acc).1 + mu (readAll dec k fuel r acc).2.2 ≤ acc + mu r := by
  intro fuel
  induction fuel with
  | zero =>
    intro r acc hi
    refine ⟨fun s => by simp [readAll], hi, fun h => by omega, ?_⟩
    simp [readAll]
  | succ fuel ih =>
    intro r acc hi
    unfold readAll
    have hp := pollRead_ok dec hd (r.wire.length + 1) r k hi (Nat.lt_succ_self _)
    cases hres : pollRead dec (r.wire.length + 1) r k with
    | fuel => rw [hres] at hp; cases hp
    | panic s => rw [hres] at hp; cases hp
    | invalid r' =>
      rw [hres] at hp
      cases hp with
      | invalid _ a b =>
        exact ⟨fun s => by simp, a, fun _ => by simp, by simp only []; omega⟩
    | data n r' =>
      rw [hres] at hp
      cases hp with
      | data _ _ a b =>
        cases n with
        | zero => exact ⟨fun s => by simp, a, fun _ => by simp, by simp only []; omega⟩
        | succ n =>
          simp only []
          obtain ⟨i1, i2, i3, i4⟩ := ih r' (acc + (n + 1)) a
          exact ⟨i1, i2, fun h => i3 (by omega), by omega⟩

end EraVerif.Proofs.C10Noise
