import EraVerif.Proofs.Mux

/-! # C14: the inbound loop dispatches exactly what the peer wrote (splitting DATA frames is invisible) -/

namespace EraVerif.Proofs.Mux
open EraVerif.Model.Mux EraVerif.Gen.MuxConst

attribute [local simp] State.upd State.release State.releaseOpt State.emit State.setSlot State.log State.enqueue
  handover finishRead

/-- what a stream can observe of the wire: session boundaries and payload bytes -/
inductive Ev where
  | o | c | b (byte : Nat)
  deriving DecidableEq, Repr

/-- a frame as a sequence of events on its stream (frame boundaries inside DATA are not observable) -/
def flat (k : Key) (fk : FK) (data : List Nat) : List (Key × Ev) :=
  match fk with
  | .open => [(k, .o)]
  | .close => [(k, .c)]
  | .data => data.map fun x => (k, .b x)

def flatD (e : Key × FK × List Nat) : List (Key × Ev) := flat e.1 e.2.1 e.2.2

/-- what the inbound loop still owes for the frame it is working on -/
def curEv : RxCur → List (Key × Ev)
  | .idle => []
  | .ctrl k fk => flat k fk []
  | .dataCount k rem => rem.map fun x => (k, .b x)
  | .dataSize k rem => rem.map fun x => (k, .b x)

/-- the events of a frame written by the peer: frames for streams that were not agreed, and frames with an invalid kind,
carry nothing (they end the run) -/
def wireEvN (nAcc nCon : Nat) (f : WFrame) : List (Key × Ev) :=
  match hdrSenderConn f.hdr, hdrFK f.hdr with
  | some c, some fk =>
    let k : Key := ⟨!c, hdrId f.hdr⟩
    if (if k.conn then decide (k.id < nCon) else decide (k.id < nAcc)) then flat k fk f.data else []
  | _, _ => []

/-- `wireEvN` with the stream counts of state `s` (the condition is `Key.valid`) -/
abbrev wireEv (s : State) (f : WFrame) : List (Key × Ev) := wireEvN s.nAcc s.nCon f

structure WInv (s : State) : Prop where
  w : s.dispatched.flatMap flatD ++ curEv s.cur = s.rxDone.flatMap (wireEvN s.nAcc s.nCon)
  /-- a control frame in progress is not a DATA frame -/
  c : ∀ k fk, s.cur = .ctrl k fk → fk ≠ .data

theorem WInv_init (cfg : Cfg) (acc con pacc pcon : Caps) : WInv (State.init cfg acc con pacc pcon) := by
  obtain ⟨d, na, nc, e⟩ := init_eq cfg acc con pacc pcon
  rw [e]
  constructor <;> simp [State.start, curEv]

theorem WInv_of_same {s s' : State} (h1 : s'.dispatched = s.dispatched) (h2 : s'.cur = s.cur) (h3 : s'.rxDone = s.rxDone)
    (h4 : s'.nAcc = s.nAcc) (h5 : s'.nCon = s.nCon) (hi : WInv s) : WInv s' := by
  constructor
  · rw [h1, h2, h3, h4, h5]; exact hi.w
  · rw [h2]; exact hi.c

theorem flat_ctrl (k : Key) (fk : FK) (h : fk ≠ .data) (d : List Nat) : flat k fk d = flat k fk [] := by
  cases fk <;> simp_all [flat]

theorem WInv_stepPump {s s' : State} (hi : WInv s) (h : stepPump s = some s') : WInv s' := by
  unfold stepPump at h
  obtain ⟨hw, hc⟩ := hi
  leaves h
  all_goals subst h
  all_goals constructor
  all_goals (red; try simp only [curEv, List.flatMap_append, List.flatMap_cons, List.flatMap_nil, List.append_nil])
  all_goals first | (simp_all [curEv, wireEvN, flat, flatD]; done) | skip
  · rename_i hcur _ f rest hrx _ c hsc _ hfk hne hv
    rw [hcur] at hw ⊢
    simp only [curEv, List.append_nil] at hw ⊢
    rw [hw]
    have : wireEvN s.nAcc s.nCon f = [] := by
      unfold wireEvN; simp only [hsc, hfk]; rw [if_neg]; cases c <;> simp_all <;> omega
    rw [this, List.append_nil]
  · rename_i hcur _ f rest hrx _ c hsc _ hfk hne hv
    rw [hcur] at hw
    simp only [curEv, List.append_nil] at hw
    rw [hw]
    have : wireEvN s.nAcc s.nCon f = flat ⟨!c, hdrId f.hdr⟩ .data f.data := by
      unfold wireEvN; simp only [hsc, hfk]; rw [if_pos]; cases c <;> simp_all <;> omega
    rw [this]; simp [flat]
  · rename_i hcur _ f rest hrx _ c hsc _ fk hnd hfk hv
    rw [hcur] at hw ⊢
    simp only [curEv, List.append_nil] at hw ⊢
    rw [hw]
    have : wireEvN s.nAcc s.nCon f = [] := by
      unfold wireEvN; simp only [hsc, hfk]; rw [if_neg]; cases c <;> simp_all <;> omega
    rw [this, List.append_nil]
  · rename_i hcur _ f rest hrx _ c hsc _ fk hnd hfk hv
    rw [hcur] at hw
    simp only [curEv, List.append_nil] at hw
    rw [hw]
    have : wireEvN s.nAcc s.nCon f = flat ⟨!c, hdrId f.hdr⟩ fk f.data := by
      unfold wireEvN; simp only [hsc, hfk]; rw [if_pos]; cases c <;> simp_all <;> omega
    rw [this, flat_ctrl _ _ (fun e => hnd e) f.data]
  · rename_i k rem hcur hsz hd
    rw [hcur] at hw
    simp only [curEv] at hw
    rw [← hw]
    have : List.take (min rem.length s.cfg.rfs) rem = rem := by
      have := List.take_append_drop (min rem.length s.cfg.rfs) rem
      rw [hd, List.append_nil] at this; exact this
    simp [flatD, flat, this]


/-- only the inbound loop touches its own position and the dispatch log -/
theorem step?_rx_same {s s' : State} {e : Event} (he : e ≠ .pump) (h : step? s e = some s') :
    s'.dispatched = s.dispatched ∧ s'.cur = s.cur ∧ s'.rxDone = s.rxDone := by
  cases e
  case pump => exact absurd rfl he
  all_goals (unfold_step h; leaves h)
  all_goals (subst h; simp [readFrame]; try (repeat' split) <;> simp)

theorem WInv_step {s s' : State} {e : Event} (hi : WInv s) (h : step? s e = some s') : WInv s' := by
  by_cases he : e = .pump
  · subst he; exact WInv_stepPump hi h
  · obtain ⟨a, b, c⟩ := step?_rx_same he h
    obtain ⟨_, d, e', _, _⟩ := step?_static h
    exact WInv_of_same a b c d e' hi

theorem WInv_reachable {s : State} (h : Reachable s) : WInv s :=
  reachable_inv (P := WInv) WInv_init (fun _ _ _ hi hs => WInv_step hi hs) h

end EraVerif.Proofs.Mux
